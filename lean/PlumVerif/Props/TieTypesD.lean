import PlumVerif.Props.TieTypesB
import PlumVerif.Props.TieTypesC
/-
Tie, continued: the translated `IPv4`, `IPv6`, `Float`, `Double`, `Undefined`, the `BitArray` constructor and the
`__eq__` of every data type class (`pyplumio/helpers/data_types.py`; Generated/PyCodeTypes.lean) against
`addrCodec 4 / 16`, `bitsCodec 4 / 8`, `BitInst.step (.construct …)` (Model/Types.lean), for ALL buffers, offsets, slot
states.  Addresses: the model speaks about byte tuples; the text between `unpack` and `pack` is what `inet_ntoa` writes
(`dotted`; `aton_ntoa`: the prelude's `inet_aton` reads it back, proved for all 2^32 addresses), IPv6 texts are carried by
the bytes they denote.  Floats are bit patterns (`PyT.floatBits`).

WHAT THE HYPOTHESES EXCLUDE (audit round 8): `Float_*_eq` / `Double_*_eq` cover a slot holding `floatBits k w` of the class's
OWN width only (`Float(x)` of an ordinary double is `unsupported` in the prelude).  `<Class>_eq_eq : C_eq self other =
eqModel self other` is NOT a model tie: `eqModel` is a restatement in this file, used by no property theorem, and for
Float / Double / IPv6 operands and `X(v) == X()` both sides are `unsupported` — `DataType.__eq__` counts as translated and
validated against CPython only.  `BitArray_construct_sim`: the second conjunct is about the model only, `to_bytes()` after
construction is not proved here.  Offsets are `Nat`; no operation-sequence simulation for these classes.
-/
namespace PlumVerif.TieTypesD
open PlumVerif PlumVerif.Py PlumVerif.Types PlumVerif.TieTypes PlumVerif.TieTypesB PlumVerif.TieTypesC
set_option linter.unusedSimpArgs false

/-! ### IPv4 -/

/-- the text `socket.inet_ntoa` writes -/
def dotted (a b c d : UInt8) : String :=
  String.ofList (PyT.digitsOf a.toNat ++ '.' :: PyT.digitsOf b.toNat ++ '.' :: PyT.digitsOf c.toNat ++ '.' :: PyT.digitsOf d.toNat)

/-- the text of an address given as a byte tuple (`None` for a tuple that is not four bytes long: never produced) -/
def ipText : List UInt8 → V
  | [a, b, c, d] => .str (dotted a b c d)
  | _ => .none

theorem digits_eq (n : Nat) : PyT.digitsOf n = Nat.toDigits 10 n := by
  simp [PyT.digitsOf, Nat.repr]

theorem comp_fin : ∀ n : Fin 256, (PyT.readDec (Nat.toDigits 10 n) = some n.val ∧ '.' ∉ Nat.toDigits 10 n) := by
  decide +kernel

theorem comp_ok (b : UInt8) : PyT.readComp (PyT.digitsOf b.toNat) = some b ∧ '.' ∉ PyT.digitsOf b.toNat := by
  have h := comp_fin ⟨b.toNat, b.toNat_lt⟩
  simp only [digits_eq] at *
  refine ⟨?_, h.2⟩
  simp only [PyT.readComp, h.1, digits_eq]
  have : b.toNat < 256 := b.toNat_lt
  simp [this]

theorem splitDots_nodot (xs : List Char) (h : '.' ∉ xs) : PyT.splitDots xs = [xs] := by
  induction xs with
  | nil => rfl
  | cons c r ih =>
    have hc : c ≠ '.' := fun e => h (e ▸ List.mem_cons_self)
    have hr : '.' ∉ r := fun m => h (List.mem_cons_of_mem _ m)
    simp [PyT.splitDots, hc, ih hr]

theorem splitDots_app (xs rest : List Char) (h : '.' ∉ xs) :
    PyT.splitDots (xs ++ '.' :: rest) = xs :: PyT.splitDots rest := by
  induction xs with
  | nil => simp [PyT.splitDots]
  | cons c r ih =>
    have hc : c ≠ '.' := fun e => h (e ▸ List.mem_cons_self)
    have hr : '.' ∉ r := fun m => h (List.mem_cons_of_mem _ m)
    simp [PyT.splitDots, hc, ih hr]

/-- the prelude's `inet_aton` reads back what its `inet_ntoa` writes: all addresses -/
theorem aton_ntoa (a b c d : UInt8) : PyT.inet_aton (.str (dotted a b c d)) = .ok (.bytes [a, b, c, d]) := by
  obtain ⟨ha, na⟩ := comp_ok a
  obtain ⟨hb, nb⟩ := comp_ok b
  obtain ⟨hc, nc⟩ := comp_ok c
  obtain ⟨hd, nd⟩ := comp_ok d
  simp only [PyT.inet_aton, dotted, String.toList_ofList, List.append_assoc, List.cons_append]
  rw [splitDots_app _ _ na, splitDots_app _ _ nb, splitDots_app _ _ nc, splitDots_nodot _ nd]
  simp [ha, hb, hc, hd]

theorem ntoa4 (a b c d : UInt8) : PyT.inet_ntoa (.bytes [a, b, c, d]) = .ok (.str (dotted a b c d)) := rfl

theorem IPv4_new_eq (t : V) (ht : Py.isNotNone t = .bool true) :
    PyCodeTypes.IPv4_new t = .ok (obj2 "IPv4" (some t) (.int 0)) := by
  simp [PyCodeTypes.IPv4_new, PyCodeTypes.IPv4_init, PyT.newobj, ht, Py.truthy, obj2, slotV]

theorem IPv4_new_none : PyCodeTypes.IPv4_new .none = .ok (obj2 "IPv4" none (.int 0)) := by
  simp [PyCodeTypes.IPv4_new, PyCodeTypes.IPv4_init, PyT.newobj, Py.isNotNone, Py.truthy, obj2, slotV]

theorem IPv4_size_eq (o : V) : PyCodeTypes.IPv4_size o = .ok (.int ((addrCodec 4).size []), o) := rfl

theorem take4 (d : List UInt8) : Py.slice (.bytes d) .none (.int 4) = .ok (.bytes (d.take 4)) := by
  simp [Py.slice, Py.bound, asInt?, sliceList]

/-- `IPv4.unpack(d)` = `addrCodec 4`: the first four bytes; a shorter buffer: OSError (from `inet_ntoa`) -/
theorem IPv4_unpack_eq (v : Option V) (n : V) (d : List UInt8) :
    PyCodeTypes.IPv4_unpack (obj2 "IPv4" v n) (.bytes d)
      = (match (addrCodec 4).unpack d with
        | some (a, _) => .ok (.none, obj2 "IPv4" (some (ipText a)) n)
        | none => .error .OSError) := by
  have hz : Py.eq (.int 4) (.int 0) = .ok (.bool false) := rfl
  simp only [PyCodeTypes.IPv4_unpack, PyCodeTypes.IPv4_p_slice_data, PyCodeTypes.IPv4_size, pure_eq_ok, ok_bind, hz,
    Py.truthy, Bool.false_eq_true, if_false, take4, addrCodec]
  rcases d with _ | ⟨a, _ | ⟨b, _ | ⟨c, _ | ⟨e, r⟩⟩⟩⟩ <;> simp [ntoa4, obj2, slotV, ipText] <;> (try simp [PyT.inet_ntoa]) <;>
    (have h : ¬ (r.length + 1 + 1 + 1 + 1 < 4) := by omega) <;> simp [h]

/-- `IPv4.to_bytes()` on an instance holding the text of `a` = `addrCodec 4 .pack a` -/
theorem IPv4_to_bytes_eq (a : List UInt8) (ha : a.length = 4) (n : V) :
    PyCodeTypes.IPv4_to_bytes (obj2 "IPv4" (some (ipText a)) n)
      = (match (addrCodec 4).pack a with
        | some b => .ok (.bytes b, obj2 "IPv4" (some (ipText a)) n)
        | none => .error .unsupported) := by
  rcases a with _ | ⟨a, _ | ⟨b, _ | ⟨c, _ | ⟨e, _ | ⟨f, r⟩⟩⟩⟩⟩ <;> simp at ha
  simp [PyCodeTypes.IPv4_to_bytes, PyCodeTypes.IPv4_pack, PyCodeTypes.IPv4_value, obj2, slotV, ipText, aton_ntoa, addrCodec]

theorem IPv4_from_bytes_eq (d : List UInt8) (off : Nat) :
    PyCodeTypes.IPv4_from_bytes (.bytes d) (.int off)
      = (match (addrCodec 4).unpack (d.drop off) with
        | some (a, _) => .ok (obj2 "IPv4" (some (ipText a)) (.int 0))
        | none => .error .OSError) := by
  unfold PyCodeTypes.IPv4_from_bytes
  rw [IPv4_new_none]
  simp only [ok_bind, slice_bytes_from, IPv4_unpack_eq]
  cases (addrCodec 4).unpack (d.drop off) with
  | none => rfl
  | some p => rfl

theorem IPv4_value_eq (a : List UInt8) (ha : a.length = 4) (n : V) :
    PyCodeTypes.IPv4_value (obj2 "IPv4" (some (ipText a)) n) = .ok (ipText a, obj2 "IPv4" (some (ipText a)) n) := by
  rcases a with _ | ⟨a, _ | ⟨b, _ | ⟨c, _ | ⟨e, _ | ⟨f, r⟩⟩⟩⟩⟩ <;> simp at ha
  simp [PyCodeTypes.IPv4_value, obj2, slotV, ipText]

/-- **C19 for the translated `IPv4`**: every address (four bytes), any bytes before and after -/
theorem IPv4_code_lawful (a : List UInt8) (ha : a.length = 4) (pre rest : List UInt8) :
    ∃ o bs, PyCodeTypes.IPv4_new (ipText a) = .ok o ∧ PyCodeTypes.IPv4_to_bytes o = .ok (.bytes bs, o) ∧ bs = a ∧
      ∃ o', PyCodeTypes.IPv4_from_bytes (.bytes (pre ++ bs ++ rest)) (.int pre.length) = .ok o' ∧
        PyCodeTypes.IPv4_value o' = .ok (ipText a, o') ∧ PyCodeTypes.IPv4_size o' = .ok (.int bs.length, o') := by
  obtain ⟨bs, hp, hsz, hu⟩ := C19.addr_lawful 4 a ha
  have hbs : bs = a := by simpa [addrCodec, ha] using hp.symm
  have hnn : Py.isNotNone (ipText a) = .bool true := by
    rcases a with _ | ⟨a, _ | ⟨b, _ | ⟨c, _ | ⟨e, _ | ⟨f, r⟩⟩⟩⟩⟩ <;> simp at ha
    rfl
  refine ⟨_, bs, IPv4_new_eq _ hnn, ?_, hbs, obj2 "IPv4" (some (ipText a)) (.int 0), ?_, IPv4_value_eq a ha _, ?_⟩
  · rw [IPv4_to_bytes_eq a ha, hp]
  · rw [IPv4_from_bytes_eq, List.append_assoc, drop_append_length, hu rest]
  · rw [IPv4_size_eq, ← hsz]; rfl

/-! ### IPv6 -/

theorem isUnset_ipv6 (p : List UInt8) : PyT.isUnset (PyT.ipv6Text p) = false := by
  simp [PyT.isUnset, PyT.ipv6Text]

theorem IPv6_new_eq (p : List UInt8) :
    PyCodeTypes.IPv6_new (PyT.ipv6Text p) = .ok (obj2 "IPv6" (some (PyT.ipv6Text p)) (.int 0)) := by
  simp [PyCodeTypes.IPv6_new, PyCodeTypes.IPv6_init, PyT.newobj, Py.isNotNone, PyT.ipv6Text, Py.truthy, obj2, slotV]

theorem IPv6_new_none : PyCodeTypes.IPv6_new .none = .ok (obj2 "IPv6" none (.int 0)) := by
  simp [PyCodeTypes.IPv6_new, PyCodeTypes.IPv6_init, PyT.newobj, Py.isNotNone, Py.truthy, obj2, slotV]

theorem IPv6_size_eq (o : V) : PyCodeTypes.IPv6_size o = .ok (.int ((addrCodec 16).size []), o) := rfl

theorem take16 (d : List UInt8) : Py.slice (.bytes d) .none (.int 16) = .ok (.bytes (d.take 16)) := by
  simp [Py.slice, Py.bound, asInt?, sliceList]

/-- `IPv6.unpack(d)` = `addrCodec 16`: the first sixteen bytes; a shorter buffer: ValueError (from `inet_ntop`) -/
theorem IPv6_unpack_eq (v : Option V) (n : V) (d : List UInt8) :
    PyCodeTypes.IPv6_unpack (obj2 "IPv6" v n) (.bytes d)
      = (match (addrCodec 16).unpack d with
        | some (a, _) => .ok (.none, obj2 "IPv6" (some (PyT.ipv6Text a)) n)
        | none => .error .ValueError) := by
  have hz : Py.eq (.int 16) (.int 0) = .ok (.bool false) := rfl
  simp only [PyCodeTypes.IPv6_unpack, PyCodeTypes.IPv6_p_slice_data, PyCodeTypes.IPv6_size, pure_eq_ok, ok_bind, hz,
    Py.truthy, Bool.false_eq_true, if_false, take16, addrCodec, PyT.inet_ntop6, List.length_take]
  by_cases h : d.length < 16
  · have : ¬ (min 16 d.length = 16) := by omega
    simp [h, this]
  · have : min 16 d.length = 16 := by omega
    simp [h, this, obj2, slotV]

theorem IPv6_to_bytes_eq (a : List UInt8) (ha : a.length = 16) (n : V) :
    PyCodeTypes.IPv6_to_bytes (obj2 "IPv6" (some (PyT.ipv6Text a)) n)
      = (match (addrCodec 16).pack a with
        | some b => .ok (.bytes b, obj2 "IPv6" (some (PyT.ipv6Text a)) n)
        | none => .error .unsupported) := by
  simp [PyCodeTypes.IPv6_to_bytes, PyCodeTypes.IPv6_pack, PyCodeTypes.IPv6_value, obj2, slotV, isUnset_ipv6, addrCodec, ha]
  simp [PyT.ipv6Text, PyT.inet_pton6]

theorem IPv6_from_bytes_eq (d : List UInt8) (off : Nat) :
    PyCodeTypes.IPv6_from_bytes (.bytes d) (.int off)
      = (match (addrCodec 16).unpack (d.drop off) with
        | some (a, _) => .ok (obj2 "IPv6" (some (PyT.ipv6Text a)) (.int 0))
        | none => .error .ValueError) := by
  unfold PyCodeTypes.IPv6_from_bytes
  rw [IPv6_new_none]
  simp only [ok_bind, slice_bytes_from, IPv6_unpack_eq]
  cases (addrCodec 16).unpack (d.drop off) with
  | none => rfl
  | some p => rfl

theorem IPv6_value_eq (a : List UInt8) (n : V) :
    PyCodeTypes.IPv6_value (obj2 "IPv6" (some (PyT.ipv6Text a)) n)
      = .ok (PyT.ipv6Text a, obj2 "IPv6" (some (PyT.ipv6Text a)) n) := by
  simp [PyCodeTypes.IPv6_value, obj2, slotV, isUnset_ipv6]

/-- **C19 for the translated `IPv6`** -/
theorem IPv6_code_lawful (a : List UInt8) (ha : a.length = 16) (pre rest : List UInt8) :
    ∃ o bs, PyCodeTypes.IPv6_new (PyT.ipv6Text a) = .ok o ∧ PyCodeTypes.IPv6_to_bytes o = .ok (.bytes bs, o) ∧ bs = a ∧
      ∃ o', PyCodeTypes.IPv6_from_bytes (.bytes (pre ++ bs ++ rest)) (.int pre.length) = .ok o' ∧
        PyCodeTypes.IPv6_value o' = .ok (PyT.ipv6Text a, o') ∧ PyCodeTypes.IPv6_size o' = .ok (.int bs.length, o') := by
  obtain ⟨bs, hp, hsz, hu⟩ := C19.addr_lawful 16 a ha
  have hbs : bs = a := by simpa [addrCodec, ha] using hp.symm
  refine ⟨_, bs, IPv6_new_eq a, ?_, hbs, obj2 "IPv6" (some (PyT.ipv6Text a)) (.int 0), ?_, IPv6_value_eq a _, ?_⟩
  · rw [IPv6_to_bytes_eq a ha, hp]
  · rw [IPv6_from_bytes_eq, List.append_assoc, drop_append_length, hu rest]
  · rw [IPv6_size_eq, ← hsz]; rfl

/-! ### Float / Double: bit patterns -/

/-- the instance of a struct-backed float class -/
def fobj (c : String) (v : Option V) (s : Int) : V :=
  .obj c ["_value", "_size", "_struct"] [slotV v, .int s, PyT.unset]

theorem isUnset_float (k n : Nat) : PyT.isUnset (PyT.floatBits k n) = false := by
  simp [PyT.isUnset, PyT.floatBits]

theorem struct_pack_bits (k : Nat) (fmt : String) (hf : (k = 4 ∧ fmt = "<f") ∨ (k = 8 ∧ fmt = "<d")) (n : Nat) :
    PyT.struct_pack fmt (PyT.floatBits k n) = (match (bitsCodec k).pack n with
      | some b => .ok (.bytes b) | none => .error .unsupported) := by
  rcases hf with ⟨rfl, rfl⟩ | ⟨rfl, rfl⟩ <;>
    simp [PyT.struct_pack, PyT.fmtInfo, PyT.floatBits, bitsCodec, encodeLE_eq] <;>
    split <;> simp_all

theorem struct_unpack_bits (k : Nat) (fmt : String) (hf : (k = 4 ∧ fmt = "<f") ∨ (k = 8 ∧ fmt = "<d")) (d : List UInt8) :
    PyT.struct_unpack_from fmt (.bytes d) = (match (bitsCodec k).unpack d with
      | some (w, _) => .ok (.tuple [PyT.floatBits k w]) | none => .error .StructError) := by
  rcases hf with ⟨rfl, rfl⟩ | ⟨rfl, rfl⟩ <;>
    simp [PyT.struct_unpack_from, PyT.fmtInfo, bitsCodec, decodeLE_eq] <;>
    split <;> simp_all

open Lean in
macro "float_ties" c:ident k:num fmt:str : command => do
  let cn := c.getId.toString
  let n (s : String) := mkIdent (Name.mkSimple (cn ++ s))
  let g (s : String) := mkIdent (`PlumVerif.PyCodeTypes ++ Name.mkSimple (cn ++ s))
  let cs := Syntax.mkStrLit cn
  let hf ← if k.getNat = 4 then `(Or.inl ⟨rfl, rfl⟩) else `(Or.inr ⟨rfl, rfl⟩)
  let c1 ← `(theorem $(n "_new_eq") (w : Nat) :
        $(g "_new") (PyT.floatBits $k w) = .ok (fobj $cs (some (PyT.floatBits $k w)) 0) := by
      simp [$(g "_new"):ident, $(g "_init"):ident, PyT.newobj, PyT.floatBits, Py.isNotNone, Py.truthy, fobj, slotV])
  let c1b ← `(theorem $(n "_new_none") : $(g "_new") .none = .ok (fobj $cs none 0) := by
      simp [$(g "_new"):ident, $(g "_init"):ident, PyT.newobj, Py.isNotNone, Py.truthy, fobj, slotV])
  let c2 ← `(theorem $(n "_unpack_eq") (v : Option V) (s : Int) (d : List UInt8) :
        $(g "_unpack") (fobj $cs v s) (.bytes d)
          = (match (bitsCodec $k).unpack d with
            | some (w, _) => .ok (.none, fobj $cs (some (PyT.floatBits $k w)) s)
            | none => .error .StructError) := by
      unfold $(g "_unpack")
      rw [struct_unpack_bits $k $fmt $hf d]
      cases (bitsCodec $k).unpack d with
      | none => rfl
      | some p => simp [fobj, slotV, Py.index, Py.normIndex, asInt?])
  let c3 ← `(theorem $(n "_value_eq") (w : Nat) (s : Int) :
        $(g "_value") (fobj $cs (some (PyT.floatBits $k w)) s)
          = .ok (PyT.floatBits $k w, fobj $cs (some (PyT.floatBits $k w)) s) := by
      simp [$(g "_value"):ident, fobj, slotV, isUnset_float])
  let c4 ← `(theorem $(n "_to_bytes_eq") (w : Nat) (s : Int) :
        $(g "_to_bytes") (fobj $cs (some (PyT.floatBits $k w)) s)
          = (match (bitsCodec $k).pack w with
            | some b => .ok (.bytes b, fobj $cs (some (PyT.floatBits $k w)) s)
            | none => .error .unsupported) := by
      simp only [$(g "_to_bytes"):ident, $(g "_pack"):ident, $(n "_value_eq"):ident, ok_bind,
        struct_pack_bits $k $fmt $hf w]
      cases (bitsCodec $k).pack w <;> rfl)
  let c5 ← `(theorem $(n "_size_eq") (v : Option V) (s : Int) :
        $(g "_size") (fobj $cs v s)
          = .ok (.int (if s = 0 then ((bitsCodec $k).size 0 : Int) else s), fobj $cs v (if s = 0 then ((bitsCodec $k).size 0 : Int) else s)) := by
      by_cases h : s = 0 <;>
        simp [$(g "_size"):ident, fobj, Py.not, Py.truthy, bitsCodec, h])
  let c6 ← `(theorem $(n "_from_bytes_eq") (d : List UInt8) (off : Nat) :
        $(g "_from_bytes") (.bytes d) (.int off)
          = (match (bitsCodec $k).unpack (d.drop off) with
            | some (w, _) => .ok (fobj $cs (some (PyT.floatBits $k w)) 0)
            | none => .error .StructError) := by
      unfold $(g "_from_bytes")
      rw [$(n "_new_none"):ident]
      simp only [ok_bind, slice_bytes_from, $(n "_unpack_eq"):ident]
      cases (bitsCodec $k).unpack (d.drop off) with
      | none => rfl
      | some p => rfl)
  -- **C19 for the translated class**: every bit pattern of the class's width, any bytes before and after
  let c7 ← `(theorem $(n "_code_lawful") (w : Nat) (hw : w < 256 ^ $k) (pre rest : List UInt8) :
        ∃ o bs, $(g "_new") (PyT.floatBits $k w) = .ok o ∧ $(g "_to_bytes") o = .ok (.bytes bs, o) ∧
          ∃ o', $(g "_from_bytes") (.bytes (pre ++ bs ++ rest)) (.int pre.length) = .ok o' ∧
            $(g "_value") o' = .ok (PyT.floatBits $k w, o') ∧
            ∃ o'', $(g "_size") o' = .ok (.int bs.length, o'') ∧ $(g "_value") o'' = .ok (PyT.floatBits $k w, o'') := by
      obtain ⟨bs, hp, hsz, hu⟩ := C19.bits_lawful $k w hw
      refine ⟨_, bs, $(n "_new_eq") w, ?_, fobj $cs (some (PyT.floatBits $k w)) 0, ?_, $(n "_value_eq") w 0,
        fobj $cs (some (PyT.floatBits $k w)) bs.length, ?_, $(n "_value_eq") w _⟩
      · rw [$(n "_to_bytes_eq"):ident, hp]
      · rw [$(n "_from_bytes_eq"):ident, List.append_assoc, drop_append_length, hu rest]
      · rw [$(n "_size_eq"):ident]; simp [← hsz, bitsCodec])
  return ⟨mkNullNode #[c1, c1b, c2, c3, c4, c5, c6, c7]⟩

float_ties Float 4 "<f"
float_ties Double 8 "<d"

/-! ### Undefined: packs to nothing, unpacks to `None`, size 0 -/

theorem Undefined_new_none : PyCodeTypes.Undefined_new .none = .ok (obj2 "Undefined" none (.int 0)) := by
  simp [PyCodeTypes.Undefined_new, PyCodeTypes.Undefined_init, PyT.newobj, Py.isNotNone, Py.truthy, obj2, slotV]

theorem Undefined_unpack_eq (v : Option V) (n : V) (d : V) :
    PyCodeTypes.Undefined_unpack (obj2 "Undefined" v n) d = .ok (.none, obj2 "Undefined" (some .none) n) := by
  simp [PyCodeTypes.Undefined_unpack, obj2, slotV]

theorem Undefined_to_bytes_eq (o : V) : PyCodeTypes.Undefined_to_bytes o = .ok (.bytes [], o) := rfl

/-- `Undefined.from_bytes(d, off)`: value `None`, size 0 = the number of bytes `to_bytes()` gives: the cursor does not move -/
theorem Undefined_from_bytes_eq (d : List UInt8) (off : Nat) :
    PyCodeTypes.Undefined_from_bytes (.bytes d) (.int off) = .ok (obj2 "Undefined" (some .none) (.int 0)) ∧
    PyCodeTypes.Undefined_size (obj2 "Undefined" (some .none) (.int 0)) = .ok (.int ([] : List UInt8).length, obj2 "Undefined" (some .none) (.int 0)) ∧
    PyCodeTypes.Undefined_value (obj2 "Undefined" (some .none) (.int 0)) = .ok (.none, obj2 "Undefined" (some .none) (.int 0)) := by
  refine ⟨?_, ?_, ?_⟩
  · unfold PyCodeTypes.Undefined_from_bytes
    rw [Undefined_new_none]
    simp only [ok_bind, slice_bytes_from, Undefined_unpack_eq]
    rfl
  · simp [PyCodeTypes.Undefined_size, obj2]
  · simp [PyCodeTypes.Undefined_value, obj2, slotV]

/-! ### `BitArray(value, index)` = `BitInst.step (.construct …)` -/

/-- the instance `BitArray(v, idx)` leaves: the raw slot holds the BOOL it was given (`bobj` after an unpack holds the int) -/
def bobjB (raw : Option Bool) (s : Int) (idx : Int) : V :=
  .obj "BitArray" ["_value", "_size", "_index"] [slotV (raw.map .bool), .int s, .int idx]

def argB : Option Bool → V
  | some b => .bool b
  | none => .none

theorem BitArray_new_eq (v : Option Bool) (idx : Int) :
    PyCodeTypes.BitArray_new (argB v) (.int idx) = .ok (bobjB v 0 idx) := by
  cases v <;>
    simp [PyCodeTypes.BitArray_new, PyCodeTypes.BitArray_init, PyCodeTypes.BitArray_init_via_DataType, PyT.newobj,
      Py.isNotNone, Py.truthy, bobjB, slotV, argB] <;>
    simp [PyT.setattr, PyT.setSlot]

theorem BitArray_init_eq (raw : Option V) (s i : Int) (v : Option Bool) (idx : Int) :
    PyCodeTypes.BitArray_init (.obj "BitArray" ["_value", "_size", "_index"] [slotV raw, .int s, .int i]) (argB v) (.int idx)
      = .ok (.none, .obj "BitArray" ["_value", "_size", "_index"] [slotV ((v.map V.bool).or raw), .int 0, .int idx]) := by
  cases v <;>
    simp [PyCodeTypes.BitArray_init, PyCodeTypes.BitArray_init_via_DataType, Py.isNotNone, Py.truthy, slotV, argB] <;>
    simp [PyT.setattr, PyT.setSlot]

/-- the byte the model keeps for a constructed bit field -/
def rawOf (b : Bool) : UInt8 := if b then 1 else 0

/-- `.value` / `.size` / `to_bytes()` of a freshly constructed `BitArray(b, idx)` are the model's
(`BitInst.step ⟨some (rawOf b), idx⟩`) -/
theorem BitArray_constructed_value (b : Bool) (s : Int) (idx : Nat) :
    PyCodeTypes.BitArray_value (bobjB (some b) s idx) = .ok (.bool (bitValue (rawOf b) idx), bobjB (some b) s idx) := by
  have h := Wire.and_two_pow_ne_zero (rawOf b).toNat idx
  have hand : Py.and (.bool b) (.int ((2 ^ idx : Nat) : Int)) = .ok (.int (((rawOf b).toNat &&& 2 ^ idx : Nat) : Int)) := by
    have e : Py.and (.bool b) (.int ((2 ^ idx : Nat) : Int)) = Py.and (.int ((rawOf b).toNat : Int)) (.int ((2 ^ idx : Nat) : Int)) := by
      cases b <;> rfl
    rw [e, and_nat]
  simp only [PyCodeTypes.BitArray_value, bobjB, slotV, Option.map, hasB_value, getB_value, getB_index, isUnset_bool, isUnset_int,
    Bool.not_false, Py.truthy, pure_eq_ok, ok_bind, if_true, Bool.false_eq_true, if_false, lshift_one, hand,
    Py.bool, bitValue]
  rw [← h]
  simp only [bne, Except.ok.injEq, Prod.mk.injEq, V.bool.injEq, and_true]
  congr 1
  rw [Bool.eq_iff_iff]
  simp only [beq_iff_eq]
  omega

theorem BitArray_constructed_size (v : Option Bool) (s : Int) (idx : Nat) :
    PyCodeTypes.BitArray_size (bobjB v s idx) = .ok (.int (bitSize idx), bobjB v s idx) := by
  have hl : Gen.bitarrayLastIndex = 7 := rfl
  by_cases h : idx = 7
  · subst h; simp [PyCodeTypes.BitArray_size, bobjB, PyCodeTypes.c_BITARRAY_LAST_INDEX, Py.eq, Py.eqB, asInt?, Py.truthy, bitSize, hl]
  · have h' : ¬ ((idx : Int) = 7) := by omega
    simp [PyCodeTypes.BitArray_size, bobjB, PyCodeTypes.c_BITARRAY_LAST_INDEX, Py.eq, Py.eqB, asInt?, Py.truthy, bitSize, hl, h, h']

/-- the model's step for the constructor, observed through `.value` and `.size` of the translated code -/
theorem BitArray_construct_sim (s0 : BitInst) (v : Option Bool) (idx : Nat) :
    ∃ o, PyCodeTypes.BitArray_new (argB v) (.int idx) = .ok o ∧
      (s0.step (.construct v idx)).1 = ⟨v.map rawOf, idx⟩ ∧
      PyCodeTypes.BitArray_size o = .ok (.int (bitSize idx), o) ∧
      (∀ b, v = some b → PyCodeTypes.BitArray_value o = .ok (.bool (bitValue (rawOf b) idx), o)) ∧
      (v = none → PyCodeTypes.BitArray_value o = .error .ValueError) := by
  refine ⟨_, BitArray_new_eq v idx, ?_, BitArray_constructed_size v 0 idx, ?_, ?_⟩
  · cases v <;> simp [BitInst.step, rawOf]
  · intro b hb; subst hb; exact BitArray_constructed_value b 0 idx
  · intro hv; subst hv
    simp [PyCodeTypes.BitArray_value, bobjB, slotV, Py.truthy]

/-! ### `DataType.__eq__` as seen from every class -/

/-- the classes `isinstance(other, DataType)` accepts (closed world of data_types.py, as the translator lists them) -/
def dtNames : List String :=
  ["DataType", "Undefined", "BitArray", "IPv4", "IPv6", "String", "VarBytes", "VarString", "BuiltInDataType", "SignedChar",
   "UnsignedChar", "Short", "UnsignedShort", "Int", "UnsignedInt", "Float", "Double", "Int64", "UInt64"]

def isTrue : V → Bool
  | .bool true => true
  | _ => false

/-- what `DataType.__eq__(self, other)` answers, by cases on the two value slots (written from the docstring of the method:
values compared when both are set; two empty instances are equal iff of the same class; a set value is compared with a
plain `other`; otherwise NotImplemented) -/
def eqModel (self other : V) : PyM V :=
  let isDT := isTrue (PyT.isinstanceOf other dtNames)
  let so := isTrue (PyT.hasattr self "_value")
  let oo := isTrue (PyT.hasattr other "_value")
  if isDT && oo && so then do
    let a ← PyT.getattr self "_value"; let b ← PyT.getattr other "_value"; Py.bool (← Py.eq a b)
  else if isDT && !oo && !so then PyT.sameType self other
  else if so then do let a ← PyT.getattr self "_value"; Py.bool (← Py.eq a other)
  else pure PyT.notImplemented

theorem isinstance_cases (o : V) (l : List String) :
    PyT.isinstanceOf o l = .bool true ∨ PyT.isinstanceOf o l = .bool false := by
  unfold PyT.isinstanceOf
  split
  · rename_i c _ _; cases List.contains l c <;> simp
  · simp

theorem hasattr_cases (o : V) (k : String) : PyT.hasattr o k = .bool true ∨ PyT.hasattr o k = .bool false := by
  unfold PyT.hasattr
  split
  · split
    · rename_i x _; cases PyT.isUnset x <;> simp
    · simp
  · simp

open Lean in
macro "eq_tie" c:ident : command => do
  let cn := c.getId.toString
  let n (s : String) := mkIdent (Name.mkSimple (cn ++ s))
  let g (s : String) := mkIdent (`PlumVerif.PyCodeTypes ++ Name.mkSimple (cn ++ s))
  `(theorem $(n "_eq_eq") (self other : V) :
      $(g "_eq") self other = (eqModel self other).map fun r => (r, self) := by
    unfold $(g "_eq") eqModel
    rcases isinstance_cases other dtNames with h1 | h1 <;>
    rcases hasattr_cases self "_value" with h2 | h2 <;>
    rcases hasattr_cases other "_value" with h3 | h3 <;>
    simp only [dtNames] at h1 <;>
    simp only [dtNames, h1, h2, h3, isTrue, Py.truthy, Py.not, pure_eq_ok, ok_bind, if_true, if_false, Bool.false_eq_true,
      Bool.not_true, Bool.not_false, beq_self_eq_true, Bool.and_true, Bool.and_false, Bool.true_and, Bool.false_and,
      reduceCtorEq, V.bool.injEq, beq_iff_eq, decide_false, decide_true, Bool.and_self] <;>
    (try simp only [bind, Except.bind, Except.map, Py.bool, Py.eq]) <;>
    (repeat' split) <;> simp_all [Except.map, pure, Except.pure])

eq_tie SignedChar
eq_tie UnsignedChar
eq_tie Short
eq_tie UnsignedShort
eq_tie Int
eq_tie UnsignedInt
eq_tie Int64
eq_tie UInt64
eq_tie Float
eq_tie Double
eq_tie Undefined
eq_tie BitArray
eq_tie IPv4
eq_tie IPv6
eq_tie String
eq_tie VarBytes
eq_tie VarString

/-- two integer instances with values compare by value, whatever their classes and size slots -/
theorem int_eq_values (c d : String) (hd : dtNames.contains d = true) (v w : Int) (s s' : Int) :
    eqModel (iobj c (some v) s) (iobj d (some w) s') = .ok (.bool (v == w)) := by
  have hd' : d ∈ dtNames := by simpa using hd
  simp [eqModel, PyT.isinstanceOf, hd', iobj, slotV, Py.eq, Py.eqB, asInt?, Py.bool, Py.truthy, isTrue]

/-- two empty instances are equal exactly when they are of the same class -/
theorem empty_eq (c d : String) (hd : dtNames.contains d = true) (s s' : V) :
    eqModel (obj2 c none s) (obj2 d none s') = .ok (.bool (c == d)) := by
  have hd' : d ∈ dtNames := by simpa using hd
  simp [eqModel, PyT.isinstanceOf, hd', obj2, slotV, PyT.sameType, isTrue]

/-- an empty instance against anything that is not an empty data type: NotImplemented (Python then tries the reflected
comparison) -/
theorem empty_vs_plain (c : String) (s : V) (x : Int) :
    eqModel (obj2 c none s) (.int x) = .ok PyT.notImplemented := by
  simp [eqModel, PyT.isinstanceOf, obj2, slotV, isTrue]

/-! ### non-vacuity -/
example : PyCodeTypes.IPv4_from_bytes (.bytes [9, 192, 168, 1, 7, 5]) (.int 1)
    = .ok (obj2 "IPv4" (some (ipText [192, 168, 1, 7])) (.int 0)) :=
  (IPv4_from_bytes_eq [9, 192, 168, 1, 7, 5] 1).trans rfl
example : PyCodeTypes.Float_to_bytes (fobj "Float" (some (PyT.floatBits 4 0x3F800000)) 0)
    = .ok (.bytes [0, 0, 0x80, 0x3F], fobj "Float" (some (PyT.floatBits 4 0x3F800000)) 0) :=
  (Float_to_bytes_eq 0x3F800000 0).trans rfl
example : PyCodeTypes.Short_eq (iobj "Short" (some 5) 0) (iobj "Int" (some 5) 4) = .ok (.bool true, iobj "Short" (some 5) 0) := by
  rw [Short_eq_eq, int_eq_values "Short" "Int" (by decide)]; rfl

end PlumVerif.TieTypesD

import PlumVerif.Proofs.DecodeParams
import PlumVerif.Proofs.DecodeMisc
/-
C05 (second half) — payload decoding conforms to the wire layout: parameter blocks,
schedules, alerts, UID / product info, password.

The wire layouts are the encoders `P2.encodeX` over abstract message records
(Model/DecodeParams.lean, Model/DecodeMisc.lean); each theorem says that the decoder model
recovers, from the encoded bytes followed by ANY remainder, exactly the value the message
stands for and leaves exactly that remainder.  Property theorems only; helper lemmas live in
Proofs/DecodeParams.lean and Proofs/DecodeMisc.lean.
-/
namespace PlumVerif.C05
open PlumVerif PlumVerif.P2

/-! ### parameter triples -/

/-- the absent-value sentinel: a slot is an undefined hole iff ALL its `3·size` bytes are 0xFF
(after fix D5; e.g. the triple (0, 0, 255) is a defined parameter) -/
theorem hole_iff (size : Nat) (r : List Byte) :
    unpackParam size r = none ↔ ∀ b ∈ r.take (3 * size), b = 0xFF := by
  unfold unpackParam
  split
  · rename_i h
    simp only [true_iff]
    intro b hb
    have := (List.all_eq_true.mp h) b hb
    simpa [undef, Gen.byteUndefined] using this
  · rename_i h
    simp only [reduceCtorEq, false_iff]
    intro hall
    apply h
    rw [List.all_eq_true]
    intro b hb
    simp [undef, Gen.byteUndefined, hall b hb]

example : unpackParam 1 [0, 0, 255] = some (0, 0, 255) := by decide
example : unpackParam 2 [0x2c, 0x01, 0, 0, 0xff, 0xff, 9] = some (300, 0, 65535) := by decide
example : unpackParam 1 [255, 255, 255, 7] = none := by decide

/-- a well-formed slot of any width is read back as written -/
theorem rt_slot (size : Nat) (s : Slot) (rest : List Byte) (h : wfSlot size s = true) :
    unpackParam size (encSlot size s ++ rest) = s ∧ (encSlot size s ++ rest).drop (3 * size) = rest :=
  ⟨unpackParam_encSlot size s rest h, drop_encSlot size s rest⟩

/-! ### ecoMAX parameters -/

/-- arbitrary start, count and holes: the defined slots come back with their own indexes -/
theorem rt_params_ecomax (m : EcomaxMsg) (rest : List Byte) (h : wfEcomax m = true) :
    decodeEcomax (encodeEcomax m ++ rest) = .ok (valEcomax m, rest) := by
  simp only [wfEcomax, Bool.and_eq_true, decide_eq_true_eq] at h
  obtain ⟨hl, hw⟩ := h
  simp only [encodeEcomax, List.cons_append, List.nil_append, decodeEcomax, valEcomax]
  rw [toUInt8_toNat _ hl]
  exact decodeRun_encRun one m.slots m.start.toNat rest hw

example : wfEcomax ⟨7, 10, [some (1, 0, 5), none, some (0, 0, 255), some (255, 255, 254)]⟩ = true := by decide
example : decodeEcomax (encodeEcomax ⟨7, 10, [some (1, 0, 5), none, some (0, 0, 255)]⟩ ++ [9, 9])
    = .ok ([(10, (1, 0, 5)), (12, (0, 0, 255))], [9, 9]) := by rfl

/-! ### mixer parameters -/

/-- every mixer's run over the same index range; mixers without a defined parameter are not
listed; mixer numbers are positions in the message -/
theorem rt_params_mixer (m : MixerMsg) (rest : List Byte) (h : wfMixer m = true) :
    decodeMixer (encodeMixer m ++ rest) = .ok (valMixer m, rest) := by
  simp only [wfMixer, Bool.and_eq_true, decide_eq_true_eq, List.all_eq_true] at h
  obtain ⟨hl, hb⟩ := h
  simp only [encodeMixer, List.cons_append, List.nil_append, decodeMixer, valMixer]
  rw [toUInt8_toNat _ hl]
  exact decodeBlocks_enc one m.start.toNat m.count.toNat m.blocks 0 rest hb

example : wfMixer ⟨1, 2, 2, [[some (1, 2, 3), none], [none, none], [some (4, 5, 6), some (7, 8, 9)]]⟩ = true := by decide
example : valMixer ⟨1, 2, 2, [[some (1, 2, 3), none], [none, none], [some (4, 5, 6), some (7, 8, 9)]]⟩
    = [(0, [(2, (1, 2, 3))]), (2, [(2, (4, 5, 6)), (3, (7, 8, 9))])] := by decide

/-! ### thermostat parameters -/

/-- With `T ≥ 1` thermostats known to the owning device: the profile triple, then for each
thermostat the indexes `start … (start+count)/T − 1`, each slot with the width of ITS index in
`THERMOSTAT_PARAMETERS` (1 or 2 bytes).  Stated for every header (start, count); the shapes whose
layout the code defines are `start = 0` (`thermoPer_start0`) and `T = 1` (`thermoPer_single`). -/
theorem rt_params_thermostat (m : ThermoMsg) (rest : List Byte) (h : wfThermo m = true) :
    decodeThermo (some m.blocks.length) (encodeThermo m ++ rest) = .ok (valThermo m, rest) := by
  simp only [wfThermo, Bool.and_eq_true, decide_eq_true_eq, List.all_eq_true] at h
  obtain ⟨⟨hT, hp⟩, hb⟩ := h
  unfold decodeThermo
  split
  · rename_i heq; simp only [Option.some.injEq] at heq; omega
  · simp only [encodeThermo, List.cons_append, List.nil_append, List.append_assoc, valThermo]
    have hd : (encSlot 1 m.profile ++ (m.blocks.flatMap (encRun thermoSize m.start.toNat) ++ rest)).drop 3
        = m.blocks.flatMap (encRun thermoSize m.start.toNat) ++ rest := drop_encSlot 1 m.profile _
    rw [hd, unpackParam_encSlot 1 m.profile _ hp,
      decodeBlocks_enc thermoSize m.start.toNat _ m.blocks 0 rest hb]

/-- `start = 0`: `per` slots per thermostat iff `count = per·T + extra` with `extra < T`
(the count may include the profile triple, which the floor absorbs for `T ≥ 2`) -/
theorem thermoPer_start0 (per T extra : Nat) (h : extra < T) : thermoPer 0 (per * T + extra) T = per := by
  unfold thermoPer
  simp only [Nat.zero_add, Nat.sub_zero]
  rw [Nat.mul_comm, Nat.mul_add_div (by omega), Nat.div_eq_of_lt h]; rfl

/-- one thermostat: `count` slots from `start` -/
theorem thermoPer_single (start count : Nat) : thermoPer start count 1 = count := by
  unfold thermoPer; simp

/-- no thermostat available: `{thermostat_parameters: None}`, nothing consumed, whatever the bytes -/
theorem thermostat_unavailable (msg : List Byte) : decodeThermo (some 0) msg = .ok (.unavailable, msg) := rfl

/-- documented exclusion: without an owning device the thermostat count is unknowable and the
decoder raises (IndexError on a short header, else UnboundLocalError) -/
theorem thermostat_no_device (msg : List Byte) : ∃ e, decodeThermo none msg = .error e := by
  unfold decodeThermo
  match msg with
  | [] => exact ⟨_, rfl⟩
  | [_] => exact ⟨_, rfl⟩
  | [_, _] => exact ⟨_, rfl⟩
  | _ :: _ :: _ :: _ => exact ⟨_, rfl⟩

example : wfThermo ⟨0, 0, 5, some (9, 0, 9), [[some (1, 0, 1), none], [some (2, 0, 2), some (300, 0, 65535)]]⟩ = true := by decide
example : decodeThermo (some 2) (encodeThermo ⟨0, 0, 5, some (9, 0, 9), [[some (1, 0, 1), none], [some (2, 0, 2), some (300, 0, 65535)]]⟩ ++ [1])
    = .ok (.val (some (9, 0, 9)) [(0, [(0, (1, 0, 1))]), (1, [(0, (2, 0, 2)), (1, (300, 0, 65535))])], [1]) := by rfl
example : wfThermo ⟨0, 8, 4, none, [[some (1, 0, 1), none, some (65535, 65535, 65534), some (0, 0, 7)]]⟩ = true := by decide

/-- "width 1|2": every thermostat parameter of today's `THERMOSTAT_PARAMETERS` is one or two bytes wide -/
theorem thermostat_widths : ∀ d ∈ Gen.thermostat, d.size = 1 ∨ d.size = 2 := by decide

/-! ### schedules -/

/-- header (start, count), then per schedule: index, switch, parameter triple and the 42-byte
bitmap read as 7 days (Sunday first) × 48 half-hour slots, 6 bytes per day, most significant bit
first.  The switch is reported at parameter position `2·index`, a defined parameter at `2·index+1`. -/
theorem rt_schedules (m : SchedMsg) (rest : List Byte) (h : wfSched m = true) :
    decodeSched (encodeSched m ++ rest) = .ok (valSched m, rest) := by
  simp only [wfSched, Bool.and_eq_true, decide_eq_true_eq, List.all_eq_true] at h
  obtain ⟨hl, he⟩ := h
  simp only [encodeSched, List.cons_append, List.nil_append, decodeSched, valSched]
  rw [toUInt8_toNat _ hl, decodeSchedLoop_enc m.entries rest he]

/-- the bit order of the bitmap: eight slots ↔ one byte, most significant bit first, both ways -/
theorem bitmap_bits (bs : List Bool) (h : bs.length = 8) (b : Byte) :
    splitByte (joinBits bs) = bs ∧ joinBits (splitByte b) = b :=
  ⟨splitByte_joinBits bs h, joinBits_splitByte b⟩

/-- fewer than three bytes: `{schedules: []}`, nothing consumed -/
theorem schedules_short (msg : List Byte) (h : msg.length < 3) : decodeSched msg = .ok (.short, msg) := by
  match msg with
  | [] | [_] | [_, _] => rfl
  | _ :: _ :: _ :: _ => simp only [List.length_cons] at h; omega

example : packBits 6 (true :: List.replicate 47 false) = [128, 0, 0, 0, 0, 0] := by decide
example : packBits 6 (List.replicate 9 false ++ true :: List.replicate 38 false) = [0, 64, 0, 0, 0, 0] := by decide
example : wfSched ⟨0, 0, [⟨16, 1, some (5, 0, 30), List.replicate 7 (List.replicate 48 true)⟩,
    ⟨3, 0, none, List.replicate 7 (true :: List.replicate 47 false)⟩]⟩ = true := by decide
example : valSched ⟨0, 0, [⟨16, 1, some (5, 0, 30), []⟩, ⟨3, 0, none, []⟩]⟩
    = .val [(16, []), (3, [])] [(32, (1, 0, 1)), (33, (5, 0, 30)), (6, (0, 0, 1))] := by decide

/-! ### alerts -/

/-- the controller's timestamp (seconds since 2000-01-01 counted with 31-day months) and the
six date fields determine each other: every timestamp is the timestamp of its date fields … -/
theorem alert_timestamp (ts : Nat) : tsOf (dtOf ts) = ts := by
  simp only [dtOf, tsOf]; omega

/-- … and every calendar date from 2000 on is recovered from its timestamp -/
theorem alert_date (t : DT) (hy : 2000 ≤ t.y) (hv : validDT t = true) : dtOf (tsOf t) = t :=
  dtOf_tsOf t hy hv

/-- total, start, count, then per alert: code, start timestamp, end timestamp (0xFFFFFFFF = still
open); count 0 gives no `alerts` key -/
theorem rt_alerts (m : AlertsMsg) (rest : List Byte) (h : wfAlerts m = true) :
    decodeAlerts (encodeAlerts m ++ rest) = .ok (valAlerts m, rest) := by
  simp only [wfAlerts, Bool.and_eq_true, decide_eq_true_eq, List.all_eq_true] at h
  obtain ⟨hl, ha⟩ := h
  simp only [encodeAlerts, List.cons_append, List.nil_append, decodeAlerts, valAlerts]
  cases hm : m.alerts with
  | nil => simp
  | cons a as =>
    have hne : ¬ (a :: as).length.toUInt8 = 0 := by
      intro h0
      have := congrArg UInt8.toNat h0
      rw [toUInt8_toNat _ (by rw [← hm]; exact hl)] at this
      simp at this
    rw [if_neg hne, toUInt8_toNat _ (by rw [← hm]; exact hl),
      decodeAlertList_enc (a :: as) rest (by rw [← hm]; exact ha)]
    simp

example : wfAlerts ⟨5, 0, [⟨3, ⟨2023, 2, 28, 1, 2, 3⟩, none⟩, ⟨26, ⟨2024, 2, 29, 23, 59, 59⟩, some ⟨2133, 8, 18, 6, 28, 14⟩⟩]⟩ = true := by decide
/-- 2133-08-18 06:28:15 has the timestamp 0xFFFFFFFF and is therefore not expressible as an end -/
example : tsOf ⟨2133, 8, 18, 6, 28, 15⟩ = maxU32 := by decide
/-- the 31-day-month arithmetic can express impossible dates; decoding then raises ValueError -/
example : decodeAlert (encodeAlert ⟨1, ⟨2023, 2, 31, 0, 0, 0⟩, none⟩) = .error .value := by rfl

/-! ### UID / product info -/

/-- product type, LE16 id, length-prefixed UID bytes, LE16 logo, LE16 image, length-prefixed model
name; the UID text is `uidString` (base 32 over the bytes and their CRC-16) of exactly the UID
bytes, the model is `formatModelName` of exactly the name bytes -/
theorem rt_uid (m : ProductMsg) (rest : List Byte) (h : wfProduct m = true) :
    decodeProduct (encodeProduct m ++ rest) = .ok (valProduct m, rest) := by
  simp only [wfProduct, Bool.and_eq_true, decide_eq_true_eq] at h
  obtain ⟨⟨⟨⟨⟨hk, hpid⟩, hu⟩, hlogo⟩, himg⟩, hn⟩ := h
  have l2 (n : Nat) : (encodeLE n 2).length = 2 := length_encodeLE n 2
  have hpid' : decodeLE (encodeLE m.pid 2) = m.pid := decodeLE_encodeLE _ _ (by omega)
  simp only [encodeProduct, encodeLE, List.cons_append, List.nil_append, List.append_assoc,
    decodeProduct, valProduct] at hpid' ⊢
  rw [toUInt8_toNat _ hu, take_left _ _ _ rfl, drop_left _ _ _ rfl]
  simp only [List.length_cons, List.length_append, List.take_succ_cons,
    List.take_zero, List.drop_succ_cons, List.drop_zero]
  rw [if_neg (by omega), if_neg (by omega)]
  rw [toUInt8_toNat _ hn, take_left _ _ _ rfl, drop_left _ _ _ rfl]
  simp only [hk, Bool.not_true, Bool.false_eq_true, ↓reduceIte]
  have e2 (n : Nat) (h : n < 65536) : decodeLE [(n % 256).toUInt8, (n / 256 % 256).toUInt8] = n := by
    have := decodeLE_encodeLE n 2 (by omega)
    simpa [encodeLE] using this
  rw [e2 _ hpid, e2 _ hlogo, e2 _ himg]

example : wfProduct ⟨0, 90, [0x00, 0x16, 0x00, 0x11, 0x0D, 0x38, 0x33, 0x38, 0x36, 0x55, 0x39], 90, 0,
    [0x45, 0x4D, 0x33, 0x35, 0x30, 0x50, 0x32, 0x2D, 0x5A, 0x46]⟩ = true := by decide
/-- the vectors of tests/helpers/test_uid.py -/
example : uidString [0x00, 0x16, 0x00, 0x11, 0x0D, 0x38, 0x33, 0x38, 0x36, 0x55, 0x39] = "D251PAKR3GCPZ1K8G05G0" := by decide +kernel
example : uidString [0x00, 0x25, 0x00, 0x30, 0x0E, 0x19, 0x19, 0x32, 0x13, 0x58, 0x31] = "CE71HB09J468P1ZZ00980" := by decide +kernel
/-- "EM350P2-ZF" ↦ "ecoMAX 350P2-ZF" -/
example : formatModelName [0x45, 0x4D, 0x33, 0x35, 0x30, 0x50, 0x32, 0x2D, 0x5A, 0x46]
    = [101, 99, 111, 77, 65, 88, 32, 0x33, 0x35, 0x30, 0x50, 0x32, 0x2D, 0x5A, 0x46] := by decide

/-! ### password -/

/-- everything after the first byte, as text; nothing there means no password -/
theorem rt_password (m : PasswordMsg) (h : wfPassword m = true) :
    decodePassword (encodePassword m) = .ok (valPassword m) := by
  simp only [wfPassword] at h
  simp only [decodePassword, encodePassword, List.drop_succ_cons, List.drop_zero, valPassword, h]
  split <;> simp

/-- an empty message also means no password (`message[1:]` of nothing) -/
theorem password_empty : decodePassword [] = .ok none := rfl

example : wfPassword ⟨4, [0x30, 0x30, 0x30, 0x30]⟩ = true := by decide
example : wfPassword ⟨4, [0xC5, 0xBC, 0xE2, 0x82, 0xAC, 0xF0, 0x9F, 0x94, 0xA5]⟩ = true := by decide
example : validUTF8 [0xED, 0xA0, 0x80] = false ∧ validUTF8 [0xC0, 0x80] = false ∧ validUTF8 [0xF4, 0x90, 0x80, 0x80] = false := by decide

end PlumVerif.C05

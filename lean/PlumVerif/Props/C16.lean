import PlumVerif.Spec.C16
import PlumVerif.Proofs.Setup
import PlumVerif.Proofs.SetupSpec
/-
C16 — device set-up always completes and reports exactly what failed.
Property theorems only; helper lemmas live in Proofs/Setup.lean.

Every theorem is about `run c init es`: the set-up machine started before the sensor data and
driven by an ARBITRARY history `es` of sensor data, responses (any kinds, in any order, at any
time, repeated or never), clock advances and timer expiries — for every configuration `c` with
at least one attempt (`0 < c.R`); `ecomax_cfg` ties the configuration of EcoMAX to the source.
`snap k` = "the response of kind k had been handled when set-up finished" (`loading_snapshot`).
-/
namespace PlumVerif.C16
open PlumVerif.Setup

/-- the configuration the driver uses for `EcoMAX.async_setup` is the one of the property text:
eight requests, product first, 3 attempts of 3 s; the ecoMAX-parameter handler (position 2) and —
when the response lists mixers — the mixer-parameter handler (position 5) await product information -/
theorem ecomax_cfg (mixers : Bool) :
    (ecomaxCfg mixers).n = 8 ∧ (ecomaxCfg mixers).R = 3 ∧ (ecomaxCfg mixers).T = 3000 ∧
    (ecomaxCfg mixers).product = 0 ∧
    (List.range 8).map (ecomaxCfg mixers).dep = [false, false, true, false, false, mixers, false, false] ∧
    Gen.setupFrames.map (·.1) = [57, 85, 49, 61, 54, 50, 92, 58] := by
  cases mixers <;> decide

/-- **setup_source_facts**: what the machine assumes about `devices/__init__.py` / `devices/ecomax.py`, PROBED on the code
on every run (Generated/Pipeline.lean: tools/gen_tables.py `_pipeline` runs the real coroutines) and pinned here: the
device uses exactly the table `SETUP_FRAME_TYPES` and requests in its order; `EcoMAX.async_setup` starts the requests when
the sensor data arrives and on nothing else; an unanswered request is transmitted exactly `retries` times (0, 1, 2, 3 → 0,
1, 2, 3: no transmission at `retries = 0`, the machine's `R = 0` branch) and then raises `ValueError` whose argument 1 is the
frame type; `async_setup` turns the failed requests into `frame_errors`, in order, and sets `loaded`. -/
theorem setup_source_facts :
    Gen.setupFramesOfDevice = Gen.setupFrames ∧ Gen.setupRequestOrder = Gen.setupFrames.map (·.1) ∧
    Gen.setupGate = ["sensors"] ∧
    (List.range 4).map probedTransmissions = [some 0, some 1, some 2, some 3] ∧
    Gen.requestProbe.all (fun p => p.2.2.1 == "ValueError" && p.2.2.2 == 1) = true ∧
    Gen.setupErrorsProbe = 1 := by decide

/-- **product_waiters**: the handlers that wait for product information are exactly the ecoMAX's handler of the ecoMAX
parameters and the mixers' handler of the mixer parameters — no thermostat handler, no other set-up kind -/
theorem product_waiters :
    (Gen.handlerWaitsProduct.filter (fun r => r.2.2.2 != 0)).map (fun r => (r.1, r.2.1)) =
      [("EcoMAX", "ecomax_parameters"), ("Mixer", "mixer_parameters")] ∧
    (Gen.setupFramesOfDevice.map fun p => (depOf false p.2, depOf true p.2)) =
      [(false, false), (false, false), (true, true), (false, false), (false, false), (false, true), (false, false), (false, false)] := by
  decide

/-- the machine and the code agree on the number of transmissions of an unanswered request: `retries` of them -/
theorem request_loop_matches (r : Nat) (h : r < 4) : probedTransmissions r = some r := by
  have : r = 0 ∨ r = 1 ∨ r = 2 ∨ r = 3 := by omega
  rcases this with rfl | rfl | rfl | rfl <;> decide

/-- **completes**: once the sensor data has been seen, `retries` timer expiries — i.e. the clock
reaching sensors + retries × timeout — are enough: the device is loaded, whatever was or was
not answered in between. -/
theorem completes (c : Cfg) (hR : 0 < c.R) (pre post : List Ev) (hs : Ev.sensors ∈ pre)
    (ht : c.R ≤ post.count .timer) : (run c init (pre ++ post)).1.phase = .loaded := by
  obtain ⟨a, b, rfl⟩ := List.append_of_mem hs
  have hnw : (run c init (a ++ Ev.sensors :: b)).1.phase ≠ .waiting := by
    rw [run_append]
    simp only [run_cons]
    exact not_waiting_run c _ b (sensors_leaves_waiting c _)
  rw [run_append]
  apply run_completes c _ post hnw
  exact Nat.le_trans (need_le c _ (run_inv c hR _ _ (init_inv c))) ht

/-- **loaded_within**: 'loaded' is dispatched not later than sensors + retries × timeout. -/
theorem loaded_within (c : Cfg) (hR : 0 < c.R) (es : List Ev)
    (hl : (run c init es).1.phase = .loaded) :
    (run c init es).1.t0 ≤ (run c init es).1.loadedAt ∧
    (run c init es).1.loadedAt ≤ (run c init es).1.t0 + c.R * c.T := by
  have h := run_inv c hR init es (init_inv c)
  simp only [Setup.Inv, hl] at h
  exact ⟨h.1, h.2.1⟩

/-- the step that loads records exactly the responses handled so far and the current time; later
events change neither the record, nor the error list, nor the load time -/
theorem loading_snapshot (c : Cfg) (es : List Ev) (e : Ev) (later : List Ev)
    (h1 : (run c init es).1.phase ≠ .loaded) (h2 : (run c init (es ++ [e])).1.phase = .loaded) :
    (run c init (es ++ [e])).1.snap = (run c init (es ++ [e])).1.arrived ∧
    (run c init (es ++ [e])).1.loadedAt = (run c init (es ++ [e])).1.now ∧
    (run c init (es ++ [e] ++ later)).1.snap = (run c init (es ++ [e])).1.snap ∧
    (run c init (es ++ [e] ++ later)).1.errors = (run c init (es ++ [e])).1.errors ∧
    (run c init (es ++ [e] ++ later)).1.loadedAt = (run c init (es ++ [e])).1.loadedAt := by
  have hstep : (run c init (es ++ [e])).1 = (step c (run c init es).1 e).1 := by
    rw [run_append]; simp
  have l := loaded_run c _ later h2
  rw [hstep] at h2 ⊢
  obtain ⟨a, b⟩ := loading_step c _ e h1 h2
  refine ⟨a, b, ?_, ?_, ?_⟩
  · rw [run_append (a := es ++ [e]), hstep]; rw [hstep] at l; exact l.2.2.2.1
  · rw [run_append (a := es ++ [e]), hstep]; rw [hstep] at l; exact l.2.1
  · rw [run_append (a := es ++ [e]), hstep]; rw [hstep] at l; exact l.2.2.1

/-- **closed form of the load time**: if anything is listed as failed, 'loaded' was dispatched
exactly at sensors + retries × timeout (otherwise at the moment the last needed response was
handled, see `loading_snapshot`). -/
theorem failed_loaded_at_deadline (c : Cfg) (hR : 0 < c.R) (es : List Ev)
    (hl : (run c init es).1.phase = .loaded) (he : (run c init es).1.errors ≠ []) :
    (run c init es).1.loadedAt = (run c init es).1.t0 + c.R * c.T := by
  have h := run_inv c hR init es (init_inv c)
  simp only [Setup.Inv, hl] at h
  exact h.2.2.2.2.2.2 he

/-- **errors_exact**: `frame_errors` lists, in table order, exactly the kinds whose data had not
become available when set-up finished: not answered, or answered but waiting for product
information that was not answered. -/
theorem errors_exact (c : Cfg) (hR : 0 < c.R) (es : List Ev) (hl : (run c init es).1.phase = .loaded) :
    (run c init es).1.errors = (kinds c).filter (fun k => !availOf c (run c init es).1.snap k) := by
  have h := run_inv c hR init es (init_inv c)
  simp only [Setup.Inv, hl] at h
  exact h.2.2.1

/-- every unanswered kind is listed as failed -/
theorem unanswered_listed (c : Cfg) (hR : 0 < c.R) (es : List Ev) (hl : (run c init es).1.phase = .loaded)
    (k : Nat) (hk : k < c.n) (hu : (run c init es).1.snap k = false) : k ∈ (run c init es).1.errors := by
  rw [errors_exact c hR es hl]
  simp [mem_kinds, hk, availOf, hu]

/-- **product answered ⇒ no answered kind is listed** -/
theorem answered_not_listed (c : Cfg) (hR : 0 < c.R) (es : List Ev) (hl : (run c init es).1.phase = .loaded)
    (hp : (run c init es).1.snap c.product = true) (k : Nat) (ha : (run c init es).1.snap k = true) :
    k ∉ (run c init es).1.errors := by
  rw [errors_exact c hR es hl]
  simp [availOf, ha, hp]

/-- a kind whose handler does not need product information is never listed when answered -/
theorem independent_answered_not_listed (c : Cfg) (hR : 0 < c.R) (es : List Ev)
    (hl : (run c init es).1.phase = .loaded) (k : Nat) (hd : c.dep k = false)
    (ha : (run c init es).1.snap k = true) : k ∉ (run c init es).1.errors := by
  rw [errors_exact c hR es hl]
  simp [availOf, ha, hd]

/-- **transmissions**: a kind listed as failed was requested exactly `retries` times, and no
kind is ever requested more often. -/
theorem failed_transmitted_R_times (c : Cfg) (hR : 0 < c.R) (es : List Ev)
    (hl : (run c init es).1.phase = .loaded) (k : Nat) (hk : k ∈ (run c init es).1.errors) :
    (run c init es).1.tx k = c.R := by
  have h := run_inv c hR init es (init_inv c)
  simp only [Setup.Inv, hl] at h
  exact h.2.2.2.1 k hk

theorem transmitted_at_most_R_times (c : Cfg) (hR : 0 < c.R) (es : List Ev) (k : Nat) (hk : k < c.n) :
    (run c init es).1.tx k ≤ c.R := by
  have h := run_inv c hR init es (init_inv c)
  cases hp : (run c init es).1.phase with
  | waiting => simp only [Setup.Inv, hp] at h; rw [h k]; exact Nat.zero_le _
  | running i => simp only [Setup.Inv, hp] at h; exact Nat.le_trans (h.2.2.2.2 k hk).2 h.2.1
  | loaded => simp only [Setup.Inv, hp] at h; exact h.2.2.2.2.1 k hk

/-- **data available**: the data of every kind that is not listed as failed is available when
set-up finishes and from then on; in particular, when product information was answered, the
data of every answered kind. -/
theorem data_available (c : Cfg) (hR : 0 < c.R) (es : List Ev) (hl : (run c init es).1.phase = .loaded)
    (k : Nat) (hk : k < c.n) (hn : k ∉ (run c init es).1.errors) : avail c (run c init es).1 k = true := by
  have h := run_inv c hR init es (init_inv c)
  simp only [Setup.Inv, hl] at h
  rw [h.2.2.1] at hn
  have hav : availOf c (run c init es).1.snap k = true := by
    cases hq : availOf c (run c init es).1.snap k with
    | true => rfl
    | false => exact absurd (by simp [mem_kinds, hk, hq]) hn
  exact availOf_mono c _ _ h.2.2.2.2.2.1 k hav

theorem answered_data_available (c : Cfg) (hR : 0 < c.R) (es : List Ev)
    (hl : (run c init es).1.phase = .loaded) (hp : (run c init es).1.snap c.product = true)
    (k : Nat) (hk : k < c.n) (ha : (run c init es).1.snap k = true) : avail c (run c init es).1 k = true :=
  data_available c hR es hl k hk (answered_not_listed c hR es hl hp k ha)

/-- the configuration of EcoMAX is well formed -/
theorem ecomax_wf (mixers : Bool) : wfCfg (ecomaxCfg mixers) := by
  cases mixers <;> constructor <;> decide

/-- **holds**: the executable rendering of the statement, `C16.spec` — the judge the harness applies
to what the IMPLEMENTATION did — accepts the observation (`observe`: sensors time, time of the first
response of every kind, whether the clock was driven past the deadline, load time, error list,
set-up transmissions per kind, names present) of EVERY history of the machine, for every
well-formed configuration. -/
theorem holds (c : Cfg) (wf : wfCfg c) (es : List Ev) : spec c (observe c es) = true := by
  cases hp : (run c init es).1.phase with
  | loaded => exact spec_loaded c wf es hp
  | waiting =>
    have hld : isLoaded (run c init es).1 = false := by simp [isLoaded, hp]
    unfold spec
    have : (observe c es).loadedAt = none := by simp [observe, hld]
    rw [this]
    simp only [observe, hld, Bool.false_or, Bool.not_eq_true']
    cases hq : afterSensors es with
    | none => rfl
    | some post =>
      obtain ⟨pre, he⟩ := afterSensors_split es post hq
      by_cases hc : c.R ≤ post.count .timer
      · have := completes c wf.1 (pre ++ [Ev.sensors]) post (by simp) hc
        rw [List.append_assoc, List.singleton_append, ← he, hp] at this
        cases this
      · simp [hc]
  | running i =>
    have hld : isLoaded (run c init es).1 = false := by simp [isLoaded, hp]
    unfold spec
    have : (observe c es).loadedAt = none := by simp [observe, hld]
    rw [this]
    simp only [observe, hld, Bool.false_or, Bool.not_eq_true']
    cases hq : afterSensors es with
    | none => rfl
    | some post =>
      obtain ⟨pre, he⟩ := afterSensors_split es post hq
      by_cases hc : c.R ≤ post.count .timer
      · have := completes c wf.1 (pre ++ [Ev.sensors]) post (by simp) hc
        rw [List.append_assoc, List.singleton_append, ← he, hp] at this
        cases this
      · simp [hc]

/-! ### the last clause as written (no proviso): refuted — open finding F11 -/

/-- the statement read literally, for every well-formed configuration and every history -/
def holds_full : Prop := ∀ (c : Cfg), wfCfg c → ∀ es : List Ev, specFull c (observe c es) = true

/-- **holds_full_false** (finding F11): the literal statement is FALSE of the set-up machine (and, by the
correspondence runs, of `EcoMAX.async_setup`): ecoMAX parameters answered 125 ms after the sensor data, the product
request never answered — the handler of the answer waits for product information for ever, the answered kind is
listed as failed and its data is not available when set-up finishes. -/
theorem holds_full_false : ¬ holds_full := by
  intro h
  have := h (ecomaxCfg true) (ecomax_wf true) [.sensors, .wait 125, .answer 2, .timer, .timer, .timer]
  revert this
  decide

/-- the same run, clause by clause: kind 2 is answered (at 125 ms, before the deadline), yet it is listed as failed,
was requested 3 times, and its data is not available -/
example : let o := observe (ecomaxCfg true) [.sensors, .wait 125, .answer 2, .timer, .timer, .timer]
    answered (ecomaxCfg true) o 2 = true ∧ o.errors.contains 2 = true ∧ o.tx.getD 2 0 = 3 ∧ o.present.getD 2 true = false := by
  decide

/-- **full_fails_exactly_when**: the literal statement fails ONLY on the input class of the finding — whenever
`specFull` rejects the observation of a history, product information was not among the answers and some kind whose
handler waits for product information was answered (`f11Input`); everywhere else the literal statement holds. -/
theorem full_fails_exactly_when (c : Cfg) (wf : wfCfg c) (es : List Ev) (h : specFull c (observe c es) = false) :
    f11Input c (observe c es) = true := by
  have hs := holds c wf es
  unfold specFull at h
  rw [hs, Bool.true_and] at h
  cases hl : (observe c es).loadedAt with
  | none => rw [hl] at h; simp at h
  | some t =>
    rw [hl] at h
    simp only [literalData, List.all_eq_false] at h
    obtain ⟨k, hk, hbad⟩ := h
    -- k is answered and its data is not present
    have hans : answered c (observe c es) k = true := by
      cases hq : answered c (observe c es) k <;> simp_all
    have hpres : (observe c es).present.getD k false = false := by
      cases hq : (observe c es).present.getD k false <;> simp_all
    -- the proviso clause of `spec` for k
    unfold spec at hs
    rw [hl] at hs
    simp only [Bool.and_eq_true, List.all_eq_true] at hs
    have h4 := (hs.2 k hk).2
    simp only [hans, hpres, Bool.true_and, Bool.or_false,
      Bool.or_eq_false_iff, Bool.not_eq_eq_eq_not, Bool.not_true, Bool.not_false] at h4
    simp only [f11Input, Bool.and_eq_true, Bool.not_eq_true', List.any_eq_true]
    cases hd : c.dep k <;> cases hp : answered c (observe c es) c.product <;> simp_all
    exact ⟨k, hk, hd, hans⟩

/-- `spec` is not vacuous: it rejects an unanswered kind that is not listed, a late 'loaded', a
failed kind requested only once, and a missing 'loaded' -/
example : spec (ecomaxCfg true) ⟨0, [some 100, none, some 200, some 200, some 200, some 200, some 200, some 200],
    true, some 9000, [], [1, 3, 1, 1, 1, 1, 1, 1], [true, false, true, true, true, true, true, true]⟩ = false := by decide
example : spec (ecomaxCfg true) ⟨0, [none, none, none, none, none, none, none, none],
    true, some 12000, [0, 1, 2, 3, 4, 5, 6, 7], [3, 3, 3, 3, 3, 3, 3, 3], [false, false, false, false, false, false, false, false]⟩
    = false := by decide
example : spec (ecomaxCfg true) ⟨0, [some 100, none, some 200, some 200, some 200, some 200, some 200, some 200],
    true, some 9000, [1], [1, 1, 1, 1, 1, 1, 1, 1], [true, false, true, true, true, true, true, true]⟩ = false := by decide
example : spec (ecomaxCfg true) ⟨0, [none, none, none, none, none, none, none, none],
    true, none, [], [3, 3, 3, 3, 3, 3, 3, 3], [false, false, false, false, false, false, false, false]⟩ = false := by decide
/-- … and accepts the correct observation of that run -/
example : spec (ecomaxCfg true) ⟨0, [some 100, none, some 200, some 200, some 200, some 200, some 200, some 200],
    true, some 9000, [1], [1, 3, 1, 1, 1, 1, 1, 1], [true, false, true, true, true, true, true, true]⟩ = true := by decide

/-- **versions_before_setup_irrelevant**: frame-versions tables handled before (or during, or
after) set-up make the versions handler send its own requests, but change nothing about set-up:
for every history, the phase, sensors time, load time, error list, handled responses and the
per-kind set-up transmission counts — and all set-up outputs — are those of the same history
with every announcement removed. -/
theorem versions_before_setup_irrelevant (c : Cfg) (es : List Ev) :
    let s := (run c init es).1
    let s' := (run c init (es.filter (fun e => !e.isVersions))).1
    s.phase = s'.phase ∧ s.t0 = s'.t0 ∧ s.loadedAt = s'.loadedAt ∧ s.errors = s'.errors ∧ s.tx = s'.tx ∧
    s.arrived = s'.arrived ∧ s.snap = s'.snap ∧
    (run c init es).2.filter Out.isSetup =
      (run c init (es.filter (fun e => !e.isVersions))).2.filter Out.isSetup := by
  obtain ⟨v, x, h1, h2⟩ := run_drop_versions c init init.versioned init.vtx es
  have hi : withV init init.versioned init.vtx = init := rfl
  rw [hi] at h1 h2
  simp only [h1]
  exact ⟨rfl, rfl, rfl, rfl, rfl, rfl, rfl, h2⟩

/-- a table naming five kinds arrives before the sensor data: five extra requests by the versions
handler, then set-up exactly as without it (three rounds of eight, all eight listed) -/
example : (run (ecomaxCfg true) init [.versions [0, 2, 3, 4, 5], .sensors, .timer, .timer, .timer]).2 =
    [.vtx 0 0, .vtx 2 0, .vtx 3 0, .vtx 4 0, .vtx 5 0] ++
    (run (ecomaxCfg true) init [.sensors, .timer, .timer, .timer]).2 := by decide

/-! ### non-vacuity (configuration of EcoMAX, mixers present) -/

/-- nothing answered: three rounds of eight requests, loaded at 9 s with all eight kinds failed -/
example : (run (ecomaxCfg true) init [.sensors, .timer, .timer, .timer]).2.getLast? =
    some (.loaded 9000 [0, 1, 2, 3, 4, 5, 6, 7]) := by decide

/-- ecoMAX and mixer parameters answered at once, product only on the third attempt: nothing that
was answered is listed -/
example : (run (ecomaxCfg true) init
    [.wait 1500, .sensors, .wait 125, .answer 2, .wait 125, .answer 5, .timer, .timer, .wait 500, .answer 0, .timer]).2.getLast? =
    some (.loaded 10500 [1, 3, 4, 6, 7]) := by decide

/-- product never answered: the answered ecoMAX parameters (2) are listed, the answered password (7) is not -/
example : (run (ecomaxCfg true) init
    [.sensors, .wait 125, .answer 2, .wait 125, .answer 7, .timer, .timer, .timer]).2.getLast? =
    some (.loaded 9000 [0, 1, 2, 3, 4, 5, 6]) := by decide

/-- everything answered on the first attempt: loaded at once, no errors -/
example : (run (ecomaxCfg true) init
    [.sensors, .answer 2, .answer 0, .answer 1, .answer 3, .answer 4, .answer 5, .answer 6, .wait 250, .answer 7]).2.getLast? =
    some (.loaded 250 []) := by decide

end PlumVerif.C16

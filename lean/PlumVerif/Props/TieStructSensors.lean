import PlumVerif.Generated.PyCode
import PlumVerif.Proofs.PyLemmas
import PlumVerif.Proofs.Types
import PlumVerif.Model.DecodeSensors
import PlumVerif.Props.TieStructParams
/-
Tie: the Lean definitions translated from the SOURCE TEXT of the thermostat-sensors section

  structures/thermostat_sensors.py  ThermostatSensorsStructure._unpack_thermostat_sensors / ._thermostat_sensors / .decode

(Generated/PyCode.lean, rewritten by tools/py2lean.py on every run) equal the hand-written decoder of
Model/DecodeSensors.lean (`Sens.decThermostat`, `thermoEntries`, `decThermostats`).  THIS file has theorems about the
thermostat section only; the other translated sections (mixer sensors, fuel level, boiler load, pending alerts, fan power,
boiler power, fuel consumption, output flags) are tied in Props/TieStructSections.lean, which also has the ONE statement
`thermostat_sensors_decode_model : (decode …).map (·.1) = match Sens.decThermostats (msg.drop off) with …` (with the rendering
`fieldV : Val → V`); here the result is spelled out inline (`thermostat_sensors_decode_eq`) and connected to the model by
`entriesP_model` and `decThermostats_shape`.

Hypotheses, exactly: every message (`List UInt8`), every NATURAL offset (a negative offset runs in the translated code; no
theorem covers it), every instance (`.obj` with any attributes), every `data` argument that is `None` or a string-keyed dict
(`dataOk`); the helpers are stated for an instance whose `_offset`, `_contact_mask`, `_schedule_mask` are naturals (`st3`), which
is what `decode` establishes.  Statements give: result, exception class, returned offset, and the attributes (`_offset`,
`_contact_mask`, `_schedule_mask`) on the instance after a SUCCESSFUL call (a method is `PyM (result × instance)`: the instance
after an exception is not part of any statement).

Thermostats: `thermostat_fold` is the statement two blind seeds broke — the contact / schedule masks are shifted once per
SLOT (connected or not), the offset advances 9 bytes per slot, the yielded index is the slot's position.

Primitives (trusted, Model/PyPreludeStruct.lean): `X.from_bytes(message, offset)` of a struct-backed wire type is
`Py.wire_from_bytes "X" <fmt>`, the format folded from `class X: _struct = struct.Struct(fmt)` in the SOURCE; its
contract (lenient slice `data[offset:]`, `struct.error` when short, `.value` the little-endian number / bit pattern,
`.size` the struct size) is what `Props/TieTypes.lean` proves of the translated classes (`X_from_bytes_eq`, `X_value_eq`,
`X_size_eq`); `from_bytes_f32` / `from_bytes_u32` below connect it to the model's readers.  A wire float is its bit pattern;
only `math.isnan` and `> 0` are defined on it (`Py.floatIsNaN`, `Py.floatGtZero` = `Wire.isNaN32`, `Wire.gtZero32`).
-/
namespace PlumVerif.TieStructSensors
open PlumVerif.Py PlumVerif.TieParams PlumVerif.TieStructParams PlumVerif.Wire PlumVerif.Sens
set_option linter.unusedSimpArgs false
set_option linter.unusedVariables false

/-- `ok_bind` as a PROPOSITIONAL rewrite rule: the definitional one makes `simp` substitute through the translated
body by `dsimp`, and the kernel then re-checks the conversion of the whole `try … finally` term (minutes) -/
theorem bind_ok {α β : Type} (a : α) (f : α → PyM β) : (Except.ok a >>= f) = f a := by
  have h : ∀ x : PyM α, x = Except.ok a → (x >>= f) = f a := by intro x hx; subst hx; rfl
  exact h _ rfl

theorem bind_err {α β : Type} (e : PyErr) (f : α → PyM β) : ((Except.error e : PyM α) >>= f) = Except.error e := by
  have h : ∀ x : PyM α, x = Except.error e → (x >>= f) = Except.error e := by intro x hx; subst hx; rfl
  exact h _ rfl

theorem add_int' (a b : Int) : Py.add (.int a) (.int b) = .ok (.int (a + b)) := by
  have h : ∀ x : Int, x = a + b → Py.add (.int a) (.int b) = .ok (.int x) := by intro x hx; subst hx; rfl
  exact h _ rfl

/-! ### attributes of the instance -/

theorem lookup_dictSet_ne (ks : List String) (vs : List V) (k k' : String) (v : V) (h : k ≠ k') :
    lookup (dictSet ks vs k v).1 (dictSet ks vs k v).2 k' = lookup ks vs k' := by
  induction ks generalizing vs with
  | nil => simp [dictSet, lookup, h]
  | cons k0 ks ih =>
    cases vs with
    | nil => simp [dictSet, lookup, h]
    | cons v0 vs =>
      by_cases hk : k0 = k
      · subst hk; simp [dictSet, lookup, h]
      · by_cases hk' : k0 = k'
        · subst hk'; simp [dictSet, hk, lookup]
        · simp [dictSet, hk, hk', lookup, ih]

/-- two assignments to different attributes commute once the second attribute exists -/
theorem dictSet_comm (ks : List String) (vs : List V) (k k' : String) (v v' : V) (h : k ≠ k')
    (hp : (lookup ks vs k').isSome) :
    dictSet (dictSet ks vs k v).1 (dictSet ks vs k v).2 k' v'
      = dictSet (dictSet ks vs k' v').1 (dictSet ks vs k' v').2 k v := by
  induction ks generalizing vs with
  | nil => simp [lookup] at hp
  | cons k0 ks ih =>
    cases vs with
    | nil => simp [lookup] at hp
    | cons v0 vs =>
      by_cases hk : k0 = k
      · subst hk
        have : ¬ k0 = k' := h
        simp [dictSet, this]
      · by_cases hk' : k0 = k'
        · subst hk'; simp [dictSet, hk]
        · have hp' : (lookup ks vs k').isSome := by simpa [lookup, hk'] using hp
          have := ih vs hp'
          simp [dictSet, hk, hk', this]

/-- the instance after `self._offset = o; self._contact_mask = cm; self._schedule_mask = sm` -/
def st3 (c : String) (ks : List String) (vs : List V) (o cm sm : Nat) : V :=
  let a := dictSet ks vs "_offset" (.int o)
  let b := dictSet a.1 a.2 "_contact_mask" (.int cm)
  let d := dictSet b.1 b.2 "_schedule_mask" (.int sm)
  .obj c d.1 d.2

theorem st3_init (c : String) (ks : List String) (vs : List V) (o cm sm : Nat) :
    (do let s ← Py.setattr (.obj c ks vs) "_offset" (.int (o : Int))
        let s ← Py.setattr s "_contact_mask" (.int (cm : Int))
        Py.setattr s "_schedule_mask" (.int (sm : Int))) = .ok (st3 c ks vs o cm sm) := rfl

@[simp] theorem get_st3_sm (c : String) (ks : List String) (vs : List V) (o cm sm : Nat) :
    Py.getattr (st3 c ks vs o cm sm) "_schedule_mask" = .ok (.int (sm : Int)) := by
  simp [st3, Py.getattr, lookup_dictSet]

@[simp] theorem get_st3_cm (c : String) (ks : List String) (vs : List V) (o cm sm : Nat) :
    Py.getattr (st3 c ks vs o cm sm) "_contact_mask" = .ok (.int (cm : Int)) := by
  simp [st3, Py.getattr, lookup_dictSet, lookup_dictSet_ne]

@[simp] theorem get_st3_off (c : String) (ks : List String) (vs : List V) (o cm sm : Nat) :
    Py.getattr (st3 c ks vs o cm sm) "_offset" = .ok (.int (o : Int)) := by
  simp [st3, Py.getattr, lookup_dictSet, lookup_dictSet_ne]

@[simp] theorem set_st3_sm (c : String) (ks : List String) (vs : List V) (o cm sm x : Nat) :
    Py.setattr (st3 c ks vs o cm sm) "_schedule_mask" (.int (x : Int)) = .ok (st3 c ks vs o cm x) := by
  simp [st3, Py.setattr, dictSet_dictSet]

@[simp] theorem set_st3_cm (c : String) (ks : List String) (vs : List V) (o cm sm x : Nat) :
    Py.setattr (st3 c ks vs o cm sm) "_contact_mask" (.int (x : Int)) = .ok (st3 c ks vs o x sm) := by
  simp only [st3, Py.setattr, pure_eq_ok]
  rw [dictSet_comm _ _ "_schedule_mask" "_contact_mask" _ _ (by decide) (by simp [lookup_dictSet]), dictSet_dictSet]

@[simp] theorem set_st3_off (c : String) (ks : List String) (vs : List V) (o cm sm x : Nat) :
    Py.setattr (st3 c ks vs o cm sm) "_offset" (.int (x : Int)) = .ok (st3 c ks vs x cm sm) := by
  simp only [st3, Py.setattr, pure_eq_ok]
  rw [dictSet_comm _ _ "_schedule_mask" "_offset" _ _ (by decide) (by simp [lookup_dictSet, lookup_dictSet_ne]),
    dictSet_comm _ _ "_contact_mask" "_offset" _ _ (by decide) (by simp [lookup_dictSet]), dictSet_dictSet]

/-! ### the wire-type primitive against the model's readers -/

theorem slice_from (d : List UInt8) (off : Nat) :
    Py.slice (.bytes d) (.int (off : Int)) .none = .ok (.bytes (d.drop off)) := by
  simp [Py.slice, Py.bound, asInt?, sliceList]

theorem u32_toNat (bs : List UInt8) (h : bs.length = 4) : (UInt32.ofNat (PlumVerif.decodeLE bs)).toNat = PlumVerif.decodeLE bs := by
  have := Types.decodeLE_lt bs
  rw [h] at this
  simp [UInt32.toNat_ofNat']
  omega

/-- `Float.from_bytes(message, offset)` is the model's `readF32` on `message[offset:]` -/
theorem from_bytes_f32 (cls : String) (msg : List UInt8) (off : Nat) :
    Py.wire_from_bytes cls "<f" (.bytes msg) (.int (off : Int))
      = match readF32 (msg.drop off) with
        | none => .error .StructError
        | some (f, _) => .ok (wireObj cls (.float 4 f.toNat) 4) := by
  simp only [Py.wire_from_bytes, wireFmt, slice_from, ok_bind, readF32, readLE, takeN]
  generalize msg.drop off = d
  by_cases h : d.length < 4
  · simp [h]
  · have h4 : (d.take 4).length = 4 := by simp; omega
    simp [h, decodeLE_eq, u32_toNat _ h4]

/-! ### thermostat sensors -/

/-- what `_unpack_thermostat_sensors` answers for one slot: the record of a connected thermostat, `None` otherwise -/
def entryV (contacts cm sm : Nat) (t : ThRaw) : V :=
  if !isNaN32 t.cur && gtZero32 t.tgt then
    .dict ["state", "current_temp", "target_temp", "contacts", "schedule"]
      [.int t.state.toNat, .float 4 t.cur.toNat, .float 4 t.tgt.toNat, .bool (contacts &&& cm != 0), .bool (contacts &&& sm != 0)]
  else .none

/-- the exception of a slot cut short: nothing left (`message[offset]`: IndexError) or a float cut (`struct.error`) -/
def shortErr (len off : Nat) : PyErr := if (len - off) % 9 = 0 then .IndexError else .StructError

theorem isnan_f32 (f : F32) : Py.floatIsNaN 4 f.toNat = .ok (isNaN32 f) := by
  simp [Py.floatIsNaN, isNaN32]

theorem gtzero_f32 (f : F32) : Py.floatGtZero 4 f.toNat = .ok (gtZero32 f) := by
  simp [Py.floatGtZero, isnan_f32, gtZero32]

theorem and_nat (a b : Nat) : Py.and (.int (a : Int)) (.int (b : Int)) = .ok (.int ((a &&& b : Nat) : Int)) := by
  simp [Py.and, bothBool?, asInt?]

theorem bool_nat (a : Nat) : Py.bool (.int (a : Int)) = .ok (.bool (a != 0)) := by
  show Except.ok (V.bool ((a : Int) != 0)) = _
  congr 2
  rw [Bool.eq_iff_iff]
  simp

theorem lshift_nat (a b : Nat) : Py.lshift (.int (a : Int)) (.int (b : Int)) = .ok (.int ((a <<< b : Nat) : Int)) := by
  have h : ¬ ((b : Int) < 0) := by omega
  simp only [Py.lshift, asInt?, h, if_false, Int.toNat_natCast, pure_eq_ok]
  rw [shl_natCast]

theorem lshift_one (a : Nat) : Py.lshift (.int (a : Int)) (.int 1) = .ok (.int ((a <<< 1 : Nat) : Int)) := lshift_nat a 1

theorem math_isnan_f32 (f : F32) : Py.math_isnan (.float 4 f.toNat) = .ok (.bool (isNaN32 f)) := by
  simp [Py.math_isnan, isnan_f32]

theorem gt_f32 (f : F32) : Py.gt (.float 4 f.toNat) (.int 0) = .ok (.bool (gtZero32 f)) := by
  simp [Py.gt, gtzero_f32]

theorem not_bool (b : Bool) : Py.not (.bool b) = .ok (.bool (!b)) := rfl
theorem truthy_bool (b : Bool) : Py.truthy (.bool b) = .ok b := rfl

theorem readF32_eq (s : List UInt8) :
    readF32 s = if s.length < 4 then none else some (UInt32.ofNat (PlumVerif.decodeLE (s.take 4)), s.drop 4) := by
  unfold readF32 readLE takeN
  by_cases h : s.length < 4 <;> simp [h]

theorem getattr_wire_value (cls : String) (v : V) (n : Nat) : Py.getattr (wireObj cls v n) "value" = .ok v := rfl
theorem getattr_wire_size (cls : String) (v : V) (n : Nat) : Py.getattr (wireObj cls v n) "size" = .ok (.int (n : Int)) := rfl

theorem unpack_thermostat_eq (c : String) (ks : List String) (vs : List V) (msg : List UInt8) (off cm sm contacts : Nat) :
    PyCode.ThermostatSensorsStructure_unpack_thermostat_sensors (st3 c ks vs off cm sm) (.bytes msg) (.int (contacts : Int))
      = match decThermostat (msg.drop off) with
        | none => .error (shortErr msg.length off)
        | some (t, _) => .ok (entryV contacts cm sm t, st3 c ks vs (off + 9) (cm <<< 1) (sm <<< 1)) := by
  unfold PyCode.ThermostatSensorsStructure_unpack_thermostat_sensors
  simp only [get_st3_off, bind_ok, index_bytes_nat, add_int', cast_add_one]
  have hl : (msg.drop off).length = msg.length - off := List.length_drop
  have h0 : msg[off]? = (msg.drop off)[0]? := by simp
  have h1 : msg.drop (off + 1) = (msg.drop off).drop 1 := by rw [List.drop_drop]
  rw [h0]
  generalize hd : msg.drop off = d at hl
  match d, hl with
  | [], hl =>
    have : (msg.length - off) % 9 = 0 := by simp at hl; omega
    simp [decThermostat, readByte, shortErr, this]
  | b :: r, hl =>
    simp only [List.getElem?_cons_zero, bind_ok, from_bytes_f32, h1, hd, List.drop_succ_cons, List.drop_zero, decThermostat, readByte,
      Option.bind_eq_bind, Option.bind_some]
    have e5 : msg.drop (off + 1 + 4) = r.drop 4 := by
      have : msg.drop (off + 1 + 4) = (msg.drop off).drop 5 := by rw [List.drop_drop]
      rw [this, hd]; rfl
    have hlen : msg.length - off = r.length + 1 := by simpa using hl.symm
    rw [readF32_eq r]
    by_cases h3 : r.length < 4
    · have : ¬ (r.length + 1) % 9 = 0 := by omega
      simp [h3, bind_err, shortErr, hlen, this]
    · simp only [h3, if_false, bind_ok, getattr_wire_size, add_int', ← Int.natCast_add, from_bytes_f32, e5, Option.bind_some]
      rw [readF32_eq (r.drop 4)]
      by_cases h4 : (r.drop 4).length < 4
      · have h4' : r.length - 4 < 4 := by simpa using h4
        have : ¬ (r.length + 1) % 9 = 0 := by omega
        simp [h4', bind_err, shortErr, hlen, this]
      · simp only [h4, if_false, bind_ok, getattr_wire_size, getattr_wire_value, add_int', ← Int.natCast_add, set_st3_off, get_st3_cm,
          get_st3_sm, set_st3_cm, set_st3_sm, lshift_one, Option.bind_some, math_isnan_f32, gt_f32, not_bool, truthy_bool, and_nat,
          bool_nat]
        generalize UInt32.ofNat (PlumVerif.decodeLE (List.take 4 r)) = f1
        generalize UInt32.ofNat (PlumVerif.decodeLE (List.take 4 (List.drop 4 r))) = f2
        have e9 : off + 1 + 4 + 4 = off + 9 := by omega
        cases hn : isNaN32 f1 <;> cases hg : gtZero32 f2 <;>
          simp [entryV, hn, hg, truthy_bool, bind_ok, byteV_nat, e9]

/-- is the slot reported (a connected thermostat) -/
def conn (t : ThRaw) : Bool := !isNaN32 t.cur && gtZero32 t.tgt

theorem truthy_entryV (contacts cm sm : Nat) (t : ThRaw) : Py.truthy (entryV contacts cm sm t) = .ok (conn t) := by
  unfold entryV conn
  cases h : (!isNaN32 t.cur && gtZero32 t.tgt) <;> simp [Py.truthy]

/-- the (index, record) pairs `_thermostat_sensors` yields for the slots `ts`, the first one being slot `i` with masks `cm`, `sm` -/
def entriesP (contacts : Nat) : List ThRaw → Nat → Nat → Nat → List (Nat × V)
  | [], _, _, _ => []
  | t :: ts, i, cm, sm =>
    (if conn t then [(i, entryV contacts cm sm t)] else []) ++ entriesP contacts ts (i + 1) (cm <<< 1) (sm <<< 1)

def pairV (p : Nat × V) : V := .tuple [.int (p.1 : Int), p.2]

theorem decThermostat_some (s : List UInt8) (t : ThRaw) (r : List UInt8) (h : decThermostat s = some (t, r)) :
    r = s.drop 9 ∧ 9 ≤ s.length := by
  unfold decThermostat readByte at h
  match s, h with
  | b :: s', h =>
    simp only [Option.bind_eq_bind, Option.bind_some, readF32_eq] at h
    by_cases h3 : s'.length < 4
    · simp [h3] at h
    · by_cases h4 : (s'.drop 4).length < 4
      · simp [h3, h4] at h
        have : s'.length - 4 < 4 := by simpa using h4
        simp [this] at h
      · have h4' : ¬ s'.length - 4 < 4 := by simpa using h4
        simp [h3, h4'] at h
        refine ⟨by rw [← h.2]; rfl, by simp; omega⟩

theorem shortErr_step (len off : Nat) (h : 9 ≤ len - off) : shortErr len (off + 9) = shortErr len off := by
  unfold shortErr
  have : (len - (off + 9)) % 9 = (len - off) % 9 := by omega
  rw [this]

theorem thermostat_fold (c : String) (ks : List String) (vs : List V) (msg : List UInt8) (contacts : Nat)
    (body : V → V × V → PyM (V × V))
    (hstep : ∀ (i off cm sm : Nat) (acc : List V), body (.int (i : Int)) (.list acc, st3 c ks vs off cm sm) =
      match decThermostat (msg.drop off) with
      | none => .error (shortErr msg.length off)
      | some (t, _) => .ok (.list (acc ++ (if conn t then [pairV (i, entryV contacts cm sm t)] else [])),
          st3 c ks vs (off + 9) (cm <<< 1) (sm <<< 1)))
    (n i off cm sm : Nat) (acc : List V) :
    List.foldlM (fun s x => body x s) (V.list acc, st3 c ks vs off cm sm) (rangeV i n)
      = match decN decThermostat n (msg.drop off) with
        | none => .error (shortErr msg.length off)
        | some (ts, _) => .ok (.list (acc ++ (entriesP contacts ts i cm sm).map pairV),
            st3 c ks vs (off + 9 * n) (cm <<< n) (sm <<< n)) := by
  induction n generalizing i off cm sm acc with
  | zero => simp [rangeV, decN, entriesP]
  | succ n ih =>
    rw [rangeV_succ, List.foldlM_cons, hstep]
    unfold decN
    cases hd : decThermostat (msg.drop off) with
    | none => simp [bind_err]
    | some p =>
      obtain ⟨t, r⟩ := p
      obtain ⟨hr, hlen⟩ := decThermostat_some _ _ _ hd
      have hlen' : 9 ≤ msg.length - off := by simpa using hlen
      simp only [bind_ok, ih, Option.bind_eq_bind, Option.bind_some, hr, List.drop_drop]
      cases hN : decN decThermostat n (msg.drop (off + 9)) with
      | none => simp [shortErr_step _ _ hlen']
      | some q =>
        obtain ⟨ts, r'⟩ := q
        have e1 : off + 9 + 9 * n = off + 9 * (n + 1) := by omega
        have e2 : ∀ m : Nat, (m <<< 1) <<< n = m <<< (n + 1) := by
          intro m; rw [Nat.add_comm n 1, Nat.shiftLeft_add]
        by_cases hc : conn t <;> simp [entriesP, hc, e1, e2]

theorem thermostat_sensors_gen_eq (c : String) (ks : List String) (vs : List V) (msg : List UInt8) (off cm sm n contacts : Nat) :
    PyCode.ThermostatSensorsStructure_thermostat_sensors (st3 c ks vs off cm sm) (.bytes msg) (.int (n : Int)) (.int (contacts : Int))
      = match decN decThermostat n (msg.drop off) with
        | none => .error (shortErr msg.length off)
        | some (ts, _) => .ok (.list ((entriesP contacts ts 0 cm sm).map pairV),
            st3 c ks vs (off + 9 * n) (cm <<< n) (sm <<< n)) := by
  unfold PyCode.ThermostatSensorsStructure_thermostat_sensors
  simp only [range_zero, bind_ok, forLoop_list]
  rw [thermostat_fold c ks vs msg contacts]
  · cases decN decThermostat n (msg.drop off) with
    | none => rfl
    | some p => obtain ⟨ts, r⟩ := p; simp [bind_ok]
  · intro i off cm sm acc
    simp only [unpack_thermostat_eq]
    cases decThermostat (msg.drop off) with
    | none => rfl
    | some p =>
      obtain ⟨t, r⟩ := p
      simp only [bind_ok, truthy_entryV, pairV]
      cases hc : conn t <;> simp [bind_ok]

/-! ### `dict(…)` of pairs with strictly increasing int keys -/

def incr : Nat → List (Nat × V) → Prop
  | _, [] => True
  | t, p :: ps => t ≤ p.1 ∧ incr (p.1 + 1) ps

def intDictV : List (Nat × V) → V
  | [] => .dict [] []
  | p :: ps => .map ((p :: ps).map fun q => V.int (q.1 : Int)) ((p :: ps).map (·.2))

theorem fold_pairs (ps : List (Nat × V)) (t : Nat) (h : incr t ps) (ks vs : List V) (hlen : ks.length = vs.length)
    (hk : ∀ x ∈ ks, ∃ j : Nat, x = .int (j : Int) ∧ j < t) :
    (ps.map pairV).foldlM Py.dictStep (ks, vs)
      = .ok (ks ++ ps.map (fun q => V.int (q.1 : Int)), vs ++ ps.map (·.2)) := by
  induction ps generalizing t ks vs with
  | nil => simp
  | cons b bs ih =>
    obtain ⟨h1, h2⟩ := h
    have hk' : ∀ x ∈ ks, ∃ j : Nat, x = .int (j : Int) ∧ j < b.1 := by
      intro x hx; obtain ⟨j, e, hj⟩ := hk x hx; exact ⟨j, e, by omega⟩
    simp only [pairV, List.map_cons, List.foldlM_cons, Py.dictStep, mapSet_fresh ks vs b.1 _ hlen hk', ok_bind]
    have := ih (b.1 + 1) h2 (ks ++ [.int (b.1 : Int)]) (vs ++ [b.2]) (by simp [hlen])
      (by
        intro x hx
        rcases List.mem_append.mp hx with hx | hx
        · obtain ⟨j, e, hj⟩ := hk' x hx; exact ⟨j, e, by omega⟩
        · simp at hx; exact ⟨b.1, hx, by omega⟩)
    simpa [pairV] using this

theorem dict_pairs (ps : List (Nat × V)) (t : Nat) (h : incr t ps) :
    Py.dict_ (.list (ps.map pairV)) = .ok (intDictV ps) := by
  have hf := fold_pairs ps t h [] [] rfl (by simp)
  unfold Py.dict_
  simp only [Py.iter, pure_eq_ok, ok_bind, hf, List.nil_append]
  cases ps with
  | nil => rfl
  | cons b bs => rfl

theorem len_intDictV (ps : List (Nat × V)) : Py.len (intDictV ps) = .ok (.int (ps.length : Int)) := by
  cases ps <;> simp [intDictV, Py.len]

theorem incr_mono (t t' : Nat) (h : t' ≤ t) (ps : List (Nat × V)) (hk : incr t ps) : incr t' ps := by
  cases ps with
  | nil => trivial
  | cons b bs => exact ⟨by have := hk.1; omega, hk.2⟩

theorem entriesP_incr (contacts : Nat) (ts : List ThRaw) (i cm sm : Nat) : incr i (entriesP contacts ts i cm sm) := by
  induction ts generalizing i cm sm with
  | nil => trivial
  | cons t ts ih =>
    have := ih (i + 1) (cm <<< 1) (sm <<< 1)
    by_cases hc : conn t
    · simp only [entriesP, hc, if_true, List.singleton_append]; exact ⟨Nat.le_refl _, this⟩
    · simp only [entriesP, hc]; exact incr_mono _ _ (by omega) _ this

theorem setattr_obj' (c : String) (ks : List String) (vs : List V) (k : String) (v : V) :
    Py.setattr (.obj c ks vs) k v = .ok (.obj c (dictSet ks vs k v).1 (dictSet ks vs k v).2) := rfl

theorem st3_def (c : String) (ks : List String) (vs : List V) (o cm sm : Nat) :
    V.obj c
      (dictSet (dictSet (dictSet ks vs "_offset" (.int (o : Int))).1 (dictSet ks vs "_offset" (.int (o : Int))).2 "_contact_mask" (.int (cm : Int))).1
        (dictSet (dictSet ks vs "_offset" (.int (o : Int))).1 (dictSet ks vs "_offset" (.int (o : Int))).2 "_contact_mask" (.int (cm : Int))).2
        "_schedule_mask" (.int (sm : Int))).1
      (dictSet (dictSet (dictSet ks vs "_offset" (.int (o : Int))).1 (dictSet ks vs "_offset" (.int (o : Int))).2 "_contact_mask" (.int (cm : Int))).1
        (dictSet (dictSet ks vs "_offset" (.int (o : Int))).1 (dictSet ks vs "_offset" (.int (o : Int))).2 "_contact_mask" (.int (cm : Int))).2
        "_schedule_mask" (.int (sm : Int))).2
      = st3 c ks vs o cm sm := rfl

theorem ensure_dict_none (data : V) (h : dataOk data) : PyCode.ensure_dict data (.tuple []) = .ok (merge1 data [] []) := by
  cases data <;> simp [dataOk] at h <;>
    simp [PyCode.ensure_dict, Py.isNotNone, Py.truthy, Py.forLoop, Py.iter, merge1, dictMerge]

theorem eq_undef (x : UInt8) : Py.eq (byteV x) PyCode.c_BYTE_UNDEFINED = .ok (.bool (x == 255)) := by
  have : ((x.toNat : Int) == 255) = (x == 255) := by
    rw [Bool.eq_iff_iff]; simp [← UInt8.toNat_inj]; omega
  simp [Py.eq, Py.eqB, byteV, asInt?, PyCode.c_BYTE_UNDEFINED, this]

/-- **`ThermostatSensorsStructure.decode(message, offset, data)`** on ANY instance, for every message: the section is
absent (0xFF, one byte), or: contacts byte, count byte, then `count` slots of 9 bytes — the record of every connected
slot under its POSITION, its contacts flag bit `position` and its schedule flag bit `position + 3` of the contacts
byte (`entriesP`: the masks are shifted once per slot, connected or not); the returned offset, the attributes left on
the instance and the exception class of a message cut short -/
theorem thermostat_sensors_decode_eq (c : String) (ks : List String) (vs : List V) (msg : List UInt8) (off : Nat) (data : V)
    (hd : dataOk data) :
    PyCode.ThermostatSensorsStructure_decode (.obj c ks vs) (.bytes msg) (.int (off : Int)) data
      = match msg.drop off with
        | [] => .error .IndexError
        | c0 :: r =>
          if c0 = 255 then .ok (.tuple [merge1 data [] [], .int ((off + 1 : Nat) : Int)], .obj c ks vs)
          else match r with
            | [] => .error .IndexError
            | nb :: r2 =>
              match decN decThermostat nb.toNat r2 with
              | none => .error (shortErr msg.length (off + 2))
              | some (ts, _) =>
                let es := entriesP c0.toNat ts 0 1 8
                let o := off + 2 + 9 * nb.toNat
                .ok (.tuple [merge1 data ["thermostat_sensors", "thermostats_available", "thermostats_connected"]
                        [intDictV es, .int (nb.toNat : Int), .int (es.length : Int)], .int (o : Int)],
                     st3 c ks vs o (1 <<< nb.toNat) (8 <<< nb.toNat)) := by
  unfold PyCode.ThermostatSensorsStructure_decode
  have h0 : msg[off]? = (msg.drop off)[0]? := by simp
  have h1 : msg[off + 1]? = (msg.drop off)[1]? := by simp
  have h2 : msg.drop (off + 2) = (msg.drop off).drop 2 := by rw [List.drop_drop]
  simp only [index_bytes_nat, add_int', cast_add_one, cast_add_2, bind_ok, h0, h1]
  generalize hm : msg.drop off = d
  match d with
  | [] => simp [bind_err]
  | c0 :: r =>
    simp only [List.getElem?_cons_zero, bind_ok, eq_undef, truthy_bool]
    by_cases hc : c0 = 255
    · subst hc
      simp [bind_ok, ensure_dict_none _ hd]
    · have hc' : (c0 == 255) = false := by simpa using hc
      simp only [hc', hc, if_false, Bool.false_eq_true]
      match r with
      | [] => simp [bind_err]
      | nb :: r2 =>
        have e8 : Py.lshift (.int 1) (.int 3) = .ok (.int ((8 : Nat) : Int)) := rfl
        have c1 : (V.int 1) = V.int ((1 : Nat) : Int) := rfl
        have hr2 : msg.drop (off + 2) = r2 := by rw [h2, hm]; rfl
        simp only [List.getElem?_cons_succ, List.getElem?_cons_zero, bind_ok, byteV_nat, e8]
        rw [c1]
        simp only [setattr_obj', bind_ok, st3_def, thermostat_sensors_gen_eq, hr2]
        cases hN : decN decThermostat nb.toNat r2 with
        | none => simp [bind_err]
        | some p =>
          obtain ⟨ts, r3⟩ := p
          simp only [bind_ok, dict_pairs _ 0 (entriesP_incr _ _ _ _ _), len_intDictV, ensure_dict_eq _ hd, get_st3_off, List.length_map]
          rfl

/-! ### the same in the model's vocabulary -/

/-- the record of a connected thermostat as a Python value -/
def recV : Val → V
  | .record [(k1, .int a), (k2, .f32 b), (k3, .f32 d), (k4, .bool e), (k5, .bool f)] =>
    .dict [k1, k2, k3, k4, k5] [.int a, .float 4 b.toNat, .float 4 d.toNat, .bool e, .bool f]
  | _ => .none

/-- the pairs the translated generator yields are the model's `thermoEntries` -/
theorem entriesP_model (contacts : Nat) (ts : List ThRaw) (i cm sm : Nat) :
    entriesP contacts ts i cm sm = (thermoEntries contacts ts i cm sm).map fun p => (p.1, recV p.2) := by
  induction ts generalizing i cm sm with
  | nil => rfl
  | cons t ts ih =>
    unfold entriesP thermoEntries
    rw [ih]
    cases hc : (!isNaN32 t.cur && gtZero32 t.tgt) <;> simp [conn, hc, entryV, recV, Val.nat]

/-- the model's decoder of the section, in the shape of `thermostat_sensors_decode_eq` -/
theorem decThermostats_shape (s : List UInt8) :
    decThermostats s = match s with
      | [] => none
      | c0 :: r =>
        if c0 = 255 then some ([], r)
        else match r with
          | [] => none
          | nb :: r2 =>
            match decN decThermostat nb.toNat r2 with
            | none => none
            | some (ts, r3) =>
              some ([("thermostat_sensors", Val.intDict (thermoEntries c0.toNat ts 0 1 8)),
                     ("thermostats_available", Val.nat nb.toNat),
                     ("thermostats_connected", Val.nat (thermoEntries c0.toNat ts 0 1 8).length)], r3) := by
  match s with
  | [] => rfl
  | c0 :: r =>
    have hb : Gen.byteUndefined = 255 := rfl
    have hu : (c0.toNat = 255) ↔ c0 = 255 := by simp [← UInt8.toNat_inj]
    by_cases hc : c0 = 255
    · simp [decThermostats, readByte, hb, hu, hc]
    · match r with
      | [] => simp [decThermostats, readByte, hb, hu, hc]
      | nb :: r2 =>
        cases hN : decN decThermostat nb.toNat r2 with
        | none => simp [decThermostats, readByte, hb, hu, hc, hN]
        | some p => obtain ⟨ts, r3⟩ := p; simp [decThermostats, readByte, hb, hu, hc, hN]

/-! ### non-vacuity -/

/-- three slots; slot 0 not connected (NaN), slots 1 and 2 connected: contacts 0b010010 = contacts of slot 1, schedule of
slot 1 (bit 4); the masks moved past slot 0 although it is not reported -/
example : (PyCode.ThermostatSensorsStructure_decode (Py.mkobj "self" [])
      (.bytes [0x12, 3, 1, 0, 0, 0xC0, 0x7F, 0, 0, 0xA0, 0x41, 2, 0, 0, 0xA0, 0x41, 0, 0, 0xA8, 0x41, 3, 0, 0, 0xA0, 0x41, 0, 0, 0xA8, 0x41])
      (.int 0) .none).map (·.1)
    = .ok (.tuple [.dict ["thermostat_sensors", "thermostats_available", "thermostats_connected"]
        [.map [.int 1, .int 2]
          [.dict ["state", "current_temp", "target_temp", "contacts", "schedule"]
             [.int 2, .float 4 1101004800, .float 4 1101529088, .bool true, .bool true],
           .dict ["state", "current_temp", "target_temp", "contacts", "schedule"]
             [.int 3, .float 4 1101004800, .float 4 1101529088, .bool false, .bool false]],
         .int 3, .int 2], .int 29]) := rfl
/-- section absent -/
example : (PyCode.ThermostatSensorsStructure_decode (Py.mkobj "self" []) (.bytes [0xFF, 9]) (.int 0) .none).map (·.1)
    = .ok (.tuple [.dict [] [], .int 1]) := rfl
/-- a float cut short -/
example : (PyCode.ThermostatSensorsStructure_decode (Py.mkobj "self" []) (.bytes [0, 1, 5, 0, 0]) (.int 0) .none).map (·.1)
    = .error .StructError := rfl

end PlumVerif.TieStructSensors

import PlumVerif.Model.DatasetProducts
import PlumVerif.Props.C07
/-
C07 over histories with UID RE-REPORTS (machine `Dataset.stepP`).

* `same_product_is_run`: when every UID response of a history announces the same product type — the controller
  re-reports what it is, at any time, any number of times, before or after parameter responses — the history runs exactly
  as the one-product machine: `index_preserved`, `request_addresses`, `read_slot_*`, `addressing_stable_*` … apply verbatim.
* `product_change_rereads_wrong_slot`: a UID re-report with ANOTHER product type is outside the statement's quantifier
  (the product type is a configuration, not an event) — and the code does not support it: a name that both tables have
  at different positions keeps the index of the table it was created from while its value is decoded from the other
  table's position (`water_heater_target_temp`: ecoMAX P position 119, ecoMAX I position 0).  Disclosed, replayed on the
  implementation (final report of round 8); not a claim of the property.
-/
namespace PlumVerif.C07
open PlumVerif.Dataset

theorem runP_cons (s : PWorld) (e : PEvent) (rest : List PEvent) :
    runP s (e :: rest) = ((runP (stepP s e).1 rest).1, (stepP s e).2 ++ (runP (stepP s e).1 rest).2) := rfl

theorem run_cons' (pt : Product) (w : World) (e : Event) (rest : List Event) :
    run pt w (e :: rest) = ((run pt (step pt w e).1 rest).1, (step pt w e).2 ++ (run pt (step pt w e).1 rest).2) := rfl

/-- **same_product_is_run**: a history whose UID responses all announce `pt` is the one-product history `erase evs`:
same final world, same outputs. -/
theorem same_product_is_run (pt : Product) : ∀ (evs : List PEvent) (w : World), (∀ e ∈ evs, e.announces pt = true) →
    ((runP ⟨pt, w⟩ evs).1.w, (runP ⟨pt, w⟩ evs).2) = run pt w (erase evs) ∧ (runP ⟨pt, w⟩ evs).1.pt = pt := by
  intro evs
  induction evs with
  | nil => intro w _; exact ⟨rfl, rfl⟩
  | cons e rest ih =>
    intro w h
    have hrest : ∀ e ∈ rest, e.announces pt = true := fun e he => h e (List.mem_cons_of_mem _ he)
    have he := h e List.mem_cons_self
    rw [runP_cons]
    cases e with
    | product q =>
      have hq : q = pt := by simpa [PEvent.announces] using he
      subst hq
      simp only [erase, run_cons']
      by_cases hk : w.known = true
      · have h1 : stepP ⟨q, w⟩ (.product q) = (⟨q, w⟩, []) := by simp [stepP, hk]
        have h2 : step q w .uid = (w, []) := by simp [step, hk]
        rw [h1, h2]
        obtain ⟨a, b⟩ := ih w hrest
        exact ⟨by rw [← a], b⟩
      · have h1 : stepP ⟨q, w⟩ (.product q) = (⟨q, (step q w .uid).1⟩, (step q w .uid).2) := by simp [stepP, hk]
        rw [h1]
        obtain ⟨a, b⟩ := ih (step q w .uid).1 hrest
        exact ⟨by rw [← a], b⟩
    | ev x =>
      cases x with
      | uid =>
        have h1 : stepP ⟨pt, w⟩ (.ev .uid) = (⟨pt, w⟩, []) := rfl
        rw [h1]
        simp only [erase]
        obtain ⟨a, b⟩ := ih w hrest
        exact ⟨by rw [← a]; rfl, b⟩
      | _ =>
        simp only [erase, run_cons']
        all_goals
          first
          | (obtain ⟨a, b⟩ := ih (step pt w _).1 hrest
             exact ⟨by rw [← a]; rfl, b⟩)

/-- consequence: `index_preserved` for every history with UID re-reports of one product type, arriving at any time -/
theorem index_preserved_rereports (pt : Product) (evs : List PEvent) (h : ∀ e ∈ evs, e.announces pt = true) :
    WorldOK pt (runP ⟨pt, {}⟩ evs).1.w := by
  have := (same_product_is_run pt evs {} h).1
  have hw : (runP ⟨pt, {}⟩ evs).1.w = (run pt {} (erase evs)).1 := congrArg Prod.fst this
  rw [hw]
  exact index_preserved pt (erase evs)

/-- non-vacuity: ecoMAX I, the parameter response handled BEFORE the first UID response, the UID re-reported later -/
example : ∃ e ∈ (runP {} [.ev (.ecomaxParams [0, 42, 1, 1, 0, 9]), .product .I, .product .I]).1.w.ecomax,
    Gen.ecomaxI[42]?.map (·.name) = some e.name ∧ e.index = 42 := by decide +kernel

/-- **product_change_rereads_wrong_slot** (outside the quantifier, disclosed): ecoMAX P reports position 119
(`water_heater_target_temp`), the UID is re-reported with product type I, ecoMAX I reports position 0 (the same name):
the parameter keeps index 119, takes the value decoded from position 0, and its set request addresses 119. -/
theorem product_change_rereads_wrong_slot :
    (runP {} [.product .P, .ev (.ecomaxParams [0, 119, 1, 50, 20, 80]), .product .I, .ev (.ecomaxParams [0, 0, 1, 45, 10, 70]),
              .ev (.set .ecomax "water_heater_target_temp" 46)]).2 = [.req ⟨.setEcomax, [119, 46]⟩] ∧
    Gen.ecomaxI[0]?.map (·.name) = some "water_heater_target_temp" ∧
    Gen.ecomaxP[119]?.map (·.name) = some "water_heater_target_temp" := by decide +kernel

end PlumVerif.C07

import PlumVerif.Props.C15
/-
C15 — "one refresh request of that kind is queued TO THAT DEVICE": several physical devices
(ecoMAX 0x45, ecoSTER 0x51, …) of one connection, each with its own record, all queueing on the
protocol's one write queue.
-/
namespace PlumVerif.C15

theorem sysRun_length (sys : Sys) (evs : List (Nat × Ev2)) : (sysRun sys evs).length = evs.length := by
  induction evs generalizing sys with
  | nil => rfl
  | cons e evs ih => obtain ⟨a, e⟩ := e; simp [sysRun, ih]

/-- **every queued refresh is addressed to the announcing device**: in every history over any
number of devices, every frame put on the shared queue by the i-th event carries the address of
the device that event happened at -/
theorem queued_to_announcing_device (sys : Sys) (evs : List (Nat × Ev2)) (i : Nat) (a : Nat) (e : Ev2)
    (fs : List Frame) (he : evs[i]? = some (a, e)) (hf : (sysRun sys evs)[i]? = some fs) :
    ∀ f ∈ fs, f.recipient = a := by
  induction evs generalizing sys i with
  | nil => simp at he
  | cons x evs ih =>
    obtain ⟨a', e'⟩ := x
    cases i with
    | zero =>
      simp only [List.getElem?_cons_zero, Option.some.injEq, Prod.mk.injEq] at he
      simp only [sysRun, List.getElem?_cons_zero, Option.some.injEq] at hf
      obtain ⟨rfl, rfl⟩ := he
      subst hf
      intro f hfm
      simp only [sysStep, Res.frames, List.mem_map] at hfm
      obtain ⟨k, _, rfl⟩ := hfm
      rfl
    | succ i =>
      simp only [List.getElem?_cons_succ] at he
      simp only [sysRun, List.getElem?_cons_succ] at hf
      exact ih _ i he hf

/-- **devices do not interfere**: the state of device `b` after a history is the state the
single-device machine reaches on `b`'s own events — announcements, `frame_errors` and failed
requests at other addresses change nothing for it … -/
theorem device_state_is_own_history (sys : Sys) (evs : List (Nat × Ev2)) (b : Nat) :
    sysFinal sys evs b = final2 (sys b) (eventsOf b evs) := by
  induction evs generalizing sys with
  | nil => rfl
  | cons x evs ih =>
    obtain ⟨a, e⟩ := x
    simp only [sysFinal, eventsOf, List.filter_cons]
    rw [ih]
    by_cases hab : a = b
    · subst hab
      simp [sysStep, eventsOf, final2]
    · have hba : ¬ b = a := fun h => hab h.symm
      have : (a == b) = false := by simpa using hab
      simp [sysStep, eventsOf, this, hba]

/-- … and what `b`'s events put on the shared queue is what the single-device machine queues on
`b`'s own history (hence every per-announcement theorem of `Props/C15.lean` applies to each device
of a connection), addressed to `b` -/
theorem device_frames_are_own_history (sys : Sys) (evs : List (Nat × Ev2)) (b : Nat) :
    ((evs.zip (sysRun sys evs)).filter (·.1.1 == b)).map (·.2) =
      (run2 (sys b) (eventsOf b evs)).map (·.frames b) := by
  induction evs generalizing sys with
  | nil => rfl
  | cons x evs ih =>
    obtain ⟨a, e⟩ := x
    simp only [sysRun, List.zip_cons_cons, List.filter_cons, eventsOf]
    by_cases hab : a = b
    · subst hab
      simp only [beq_self_eq_true, if_true, List.map_cons, run2]
      rw [ih]
      simp [sysStep, eventsOf]
    · have hba : ¬ b = a := fun h => hab h.symm
      have : (a == b) = false := by simpa using hab
      simp only [this, Bool.false_eq_true, if_false]
      rw [ih]
      simp [sysStep, eventsOf, hba]

theorem judgeSys_run (js : Nat → Judge) (sys : Sys) (hs : ∀ a, (js a).seen = (sys a).versions)
    (hu : ∀ a, (js a).unsupported = (sys a).unsupported) (evs : List (Nat × Ev2)) :
    judgeSys js (evs.zip (sysRun sys evs)) = true := by
  induction evs generalizing js sys with
  | nil => rfl
  | cons x evs ih =>
    obtain ⟨a, e⟩ := x
    cases e with
    | request k n =>
      simp only [sysRun, List.zip_cons_cons, judgeSys, sysStep, step2, Res.frames, beq_self_eq_true, Bool.true_and]
      apply ih
      · intro b; by_cases h : b = a <;> simp [h, hs]
      · intro b; by_cases h : b = a <;> simp [h, hu]
    | ev e =>
      cases e with
      | errors ks =>
        simp only [sysRun, List.zip_cons_cons, judgeSys, sysStep, step2, step, Res.frames, List.map_nil,
          List.isEmpty_nil, Bool.true_and]
        apply ih
        · intro b; by_cases h : b = a <;> simp [h, hs]
        · intro b; by_cases h : b = a <;> simp [h, hu]
      | announce w =>
        simp only [sysRun, List.zip_cons_cons, judgeSys, sysStep, step2, step, Res.frames]
        obtain ⟨h1, _, h3⟩ := expected_process (js a) (sys a) (hs a) (hu a) (dictOf w)
        rcases hexp : expected (js a) (dictOf w) with ⟨q, j', ok⟩
        rw [hexp] at h1 h3
        simp only at h1 h3
        simp only [announce, ← h1, beq_self_eq_true, Bool.true_and]
        apply ih
        · intro b; by_cases h : b = a <;> simp [h, hs, h3.1, announce]
        · intro b; by_cases h : b = a <;> simp [h, hu, h3.2, announce]

/-- every history over any set of devices passes the judge applied to the implementation's
shared queue -/
theorem holdsSys (evs : List (Nat × Ev2)) : specSys evs (sysRun (fun _ => init) evs) = true := by
  simp only [specSys, sysRun_length, beq_self_eq_true, Bool.true_and]
  exact judgeSys_run _ _ (fun _ => rfl) (fun _ => rfl) evs

/-- the same kind announced to two devices: each gets its own request (seeded C15-m5 / m11: a
request cached per kind across devices would address the second one to 0x45) -/
example : sysRun (fun _ => init) [(0x45, .ev (.announce [(49, 1)])), (0x51, .ev (.announce [(49, 1)])),
    (0x45, .ev (.announce [(49, 1)])), (0x51, .ev (.announce [(49, 2)]))]
    = [[⟨49, 0x45⟩], [⟨49, 0x51⟩], [], [⟨49, 0x51⟩]] := by decide

example : specSys [(0x45, .ev (.announce [(49, 1)])), (0x51, .ev (.announce [(49, 1)]))] [[⟨49, 0x45⟩], [⟨49, 0x45⟩]] = false := by
  decide

end PlumVerif.C15

import PlumVerif.Model.TimeParse
import PlumVerif.Props.C18
/-
C18, time STRINGS: the `%H:%M` specification `parseTime` (Model/TimeParse.lean, validated exhaustively against CPython)
composed with `setState`.  Every spelling the format accepts of an (hour, minute) — each number with or without its
leading zero — parses to that pair (`parse_spellings`, all 24 × 60 × 4 by kernel evaluation), so midnight is midnight in
every spelling (`midnight_spellings`) and the C18 statement holds for aligned times HOWEVER they are spelled
(`set_spelled`, `set_exact_str`, `set_error_inert_str`).
-/
namespace PlumVerif.C18
open PlumVerif PlumVerif.Sched

/-- every accepted spelling of every time of the day parses to that time -/
theorem parse_spellings_all :
    ((List.range 24).all fun h => (List.range 60).all fun m => (spellings h m).all fun cs =>
      decide (parseChars cs = .hm h m) && cs.all (fun c => decide (c.toNat < 128))) = true := by decide

theorem parse_spellings (h m : Nat) (hh : h < 24) (hm : m < 60) (cs : List Char) (hcs : cs ∈ spellings h m) :
    parseChars cs = .hm h m ∧ cs.all (fun c => decide (c.toNat < 128)) = true := by
  have := parse_spellings_all
  rw [List.all_eq_true] at this
  have := this h (List.mem_range.mpr hh)
  rw [List.all_eq_true] at this
  have := this m (List.mem_range.mpr hm)
  rw [List.all_eq_true] at this
  have := this cs hcs
  simpa using this

theorem parseTime_ofList (cs : List Char) (h : cs.all (fun c => decide (c.toNat < 128)) = true) :
    parseTime (String.ofList cs) = some (parseChars cs) := by
  simp [parseTime, h]

/-- **midnight in every spelling**: "00:00", "0:00", "00:0", "0:0" all denote the end-of-day marker -/
theorem midnight_spellings :
    ["00:00", "0:00", "00:0", "0:0"].map (fun s => parseChars s.toList) = [.hm 0 0, .hm 0 0, .hm 0 0, .hm 0 0] := by decide

/-- **the statement for aligned times in any spelling**: `set_state` on the strings is `setState` on the slots' times -/
theorem set_spelled (day : List Bool) (st : String) (i j : Nat) (hi : i < 48) (hj : j < 48) (cs ce : List Char)
    (hs : cs ∈ spellings (i / 2) (i % 2 * 30)) (he : ce ∈ spellings (j / 2) (j % 2 * 30)) :
    setStateStr day st (String.ofList cs) (String.ofList ce) = some (setState day st (slotTime i) (slotTime j)) := by
  obtain ⟨h1, h2⟩ := parse_spellings (i / 2) (i % 2 * 30) (by omega) (by omega) cs hs
  obtain ⟨h3, h4⟩ := parse_spellings (j / 2) (j % 2 * 30) (by omega) (by omega) ce he
  simp [setStateStr, parseTime_ofList _ h2, parseTime_ofList _ h4, h1, h3, slotTime]

/-- `C18.set_exact` on strings: a call succeeds iff both strings are times, the state is valid and the end is after the
start; the day afterwards differs exactly on the slots of the range -/
theorem set_exact_str (day : List Bool) (st s e : String) (a b : TimeArg) (ha : parseTime s = some a) (hb : parseTime e = some b)
    (day' : List Bool) :
    setStateStr day st s e = some (day', .ok) ↔
      validStates.contains st = true ∧ ∃ lo hi, timeRange a b = some (lo, hi) ∧ hi < day.length ∧
        day' = day.mapIdx (fun i x => if lo ≤ i ∧ i ≤ hi then onStates.contains st else x) := by
  simp only [setStateStr, ha, hb, Option.some.injEq]
  exact set_exact day st a b day'

theorem set_error_inert_str (day : List Bool) (st s e : String) (r : List Bool × Outcome)
    (h : setStateStr day st s e = some r) (hr : r.2 = .valueError) : r.1 = day := by
  unfold setStateStr at h
  split at h
  · cases h; exact set_error_inert day st _ _ hr
  · cases h

/-- an unparsable string in either position is a ValueError -/
theorem set_bad_time (day : List Bool) (st s e : String) (a b : TimeArg) (ha : parseTime s = some a) (hb : parseTime e = some b)
    (hbad : a = .bad ∨ b = .bad) : setStateStr day st s e = some (day, .valueError) := by
  simp only [setStateStr, ha, hb]
  have : timeRange a b = none := by
    rcases hbad with h | h
    · subst h; simp [timeRange]
    · subst h; cases a <;> simp [timeRange]
  rw [setState_none day st a b (Or.inr this)]

example : setStateStr (List.replicate 48 false) "day" "9:00" "0:0"
    = some ((List.replicate 18 false) ++ List.replicate 30 true, .ok) := by decide

example : parseChars "12:000".toList = .bad ∧ parseChars "7:60".toList = .bad ∧ parseChars "24:00".toList = .bad
    ∧ parseChars "012:00".toList = .bad ∧ parseChars "7:5".toList = .hm 7 5 := by decide

end PlumVerif.C18

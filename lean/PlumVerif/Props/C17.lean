import PlumVerif.Model.ParamTables
import PlumVerif.Model.ParamSet
/-
C17 — displayed and raw values are exact inverses for every scaled parameter.

Float arithmetic is the exact binary64 model of `Model/F64.lean` (validated exhaustively against
CPython by harness/c17.py).  The quantifier "every row x every raw value" is finite; it is
discharged by kernel evaluation (`decide +kernel`, no axioms):

* here: every distinct scaling combination with 1-byte values (4 x 64 raw values each);
* in generated chunk files (`registry_d/C17.py`, 256 raw values per theorem, 16 parallel `lean`
  processes, results cached under a content hash): the 2-byte combinations, assembled into
  `PlumVerif.C17.inverse` by the generated `C17Assemble.lean`, which instantiates
  `inverse_of_combos` below.
-/
namespace PlumVerif.C17
open PlumVerif PlumVerif.Scaling PlumVerif.ParamSet PlumVerif.F64

/-- the model's choice of conversion class per table agrees with the attributes the
descriptions of that table carry in the source (multiplier/precision, offset) -/
theorem attrs_match :
    Gen.tableAttrs = [("ecomaxP", true, true), ("ecomaxI", true, true), ("mixerP", true, true),
      ("mixerI", true, true), ("thermostat", true, false), ("scheduleParams", false, false),
      ("thermostatProfile", true, true), ("ecomaxControl", false, false)] := by decide

/-- every scaled row of every table uses one of the emitted combinations -/
theorem row_uses_listed_combo :
    ∀ kd ∈ allRows, isScaled kd.1 kd.2 = true → comboOf kd.1 kd.2 ∈ Gen.combos := by
  decide +kernel

/-- the conversion of a scaled row is the conversion of its combination -/
theorem conv_of_combo {k : TKind} {d : Gen.Desc} (h : isScaled k d = true) :
    convOf k d = Combo.conv (comboOf k d) := by
  have hs : d.switch = false := by
    cases hd : d.switch <;> simp [isScaled, hd] at h ⊢
  cases k <;> simp [isScaled, convOf, comboOf, Combo.conv, TKind.numCls, hs] at h ⊢

set_option maxHeartbeats 4000000 in
theorem combos_1byte_q0 : ∀ c ∈ Gen.combos, c.size = 1 → ∀ l < 64, okStep (Combo.conv c) 255 (64 * 0 + l) = true := by
  decide +kernel
set_option maxHeartbeats 4000000 in
theorem combos_1byte_q1 : ∀ c ∈ Gen.combos, c.size = 1 → ∀ l < 64, okStep (Combo.conv c) 255 (64 * 1 + l) = true := by
  decide +kernel
set_option maxHeartbeats 4000000 in
theorem combos_1byte_q2 : ∀ c ∈ Gen.combos, c.size = 1 → ∀ l < 64, okStep (Combo.conv c) 255 (64 * 2 + l) = true := by
  decide +kernel
set_option maxHeartbeats 4000000 in
theorem combos_1byte_q3 : ∀ c ∈ Gen.combos, c.size = 1 → ∀ l < 64, okStep (Combo.conv c) 255 (64 * 3 + l) = true := by
  decide +kernel

/-- every 1-byte combination: all 256 raw values survive display -> write back, and the displayed
value never decreases from one raw value to the next -/
theorem combos_1byte : ∀ c ∈ Gen.combos, c.size = 1 → ∀ raw < 256, okStep (Combo.conv c) 255 raw = true := by
  intro c hc hs raw hraw
  have e : raw = 64 * (raw / 64) + raw % 64 := by omega
  have hl : raw % 64 < 64 := by omega
  rcases (by omega : raw / 64 = 0 ∨ raw / 64 = 1 ∨ raw / 64 = 2 ∨ raw / 64 = 3) with h | h | h | h
  · rw [e, h]; exact combos_1byte_q0 c hc hs _ hl
  · rw [e, h]; exact combos_1byte_q1 c hc hs _ hl
  · rw [e, h]; exact combos_1byte_q2 c hc hs _ hl
  · rw [e, h]; exact combos_1byte_q3 c hc hs _ hl

theorem okStep_iff {c : Conv} {top raw : Nat} :
    okStep c top raw = true ↔ okRaw c raw = true ∧ (raw ≠ top → stepMono c raw = true) := by
  unfold okStep
  by_cases h : raw = top <;> simp [h]

theorem okRaw_iff {c : Conv} {raw : Nat} :
    okRaw c raw = true ↔ toRaw c (display c raw) = .ok (raw : Int) := by
  unfold okRaw
  split
  · next r h => rw [h]; simp
  · next e h => rw [h]; simp

/-- **C17 inverse, from the per-combination obligations**: if every emitted combination passes
on every raw value of its width, then for EVERY scaled row of EVERY table and every raw value the
controller can report, writing back the displayed value yields that raw value. -/
theorem inverse_of_combos
    (H : ∀ c ∈ Gen.combos, ∀ raw < 256 ^ c.size, okStep (Combo.conv c) (256 ^ c.size - 1) raw = true) :
    ∀ kd ∈ allRows, isScaled kd.1 kd.2 = true → ∀ raw : Nat, raw < 256 ^ kd.2.size →
      toRaw (convOf kd.1 kd.2) (display (convOf kd.1 kd.2) raw) = .ok (raw : Int) := by
  intro kd hmem hsc raw hraw
  have hc := row_uses_listed_combo kd hmem hsc
  have := (okStep_iff.mp (H _ hc raw (by simpa [comboOf] using hraw))).1
  rw [← conv_of_combo hsc] at this
  exact okRaw_iff.mp this

/-- **C17 inverse, 1-byte rows** (every scaled row except the 2-byte thermostat temperatures),
unconditionally. -/
theorem inverse_1byte :
    ∀ kd ∈ allRows, isScaled kd.1 kd.2 = true → kd.2.size = 1 → ∀ raw : Nat, raw < 256 →
      toRaw (convOf kd.1 kd.2) (display (convOf kd.1 kd.2) raw) = .ok (raw : Int) := by
  intro kd hmem hsc hsz raw hraw
  have hc := row_uses_listed_combo kd hmem hsc
  have := (okStep_iff.mp (combos_1byte _ hc (by simpa [comboOf] using hsz) raw hraw)).1
  rw [← conv_of_combo hsc] at this
  exact okRaw_iff.mp this

/-! non-vacuity (independent of the concrete tables): there are scaled rows, and the binary64 model
shows 0.1-multiples the way CPython does: `round(3 * 0.1, 6)` is the double nearest to 0.3 -/
example : ∃ kd ∈ allRows, isScaled kd.1 kd.2 = true := by decide +kernel
example : display ⟨.scaledOff, 3602879701896397, 36028797018963968, 0, 6⟩ 3 =
    .float ⟨5404319552844595, 18014398509481984⟩ := by decide +kernel
example : okRaw ⟨.scaledOff, 3602879701896397, 36028797018963968, 0, 6⟩ 3 = true := by decide +kernel

/-- unscaled numbers (`ScheduleNumber`): the displayed value IS the raw value, for every integer -/
theorem inverse_plain (c : Conv) (h : c.cls = .plain) (raw : Int) :
    toRaw c (display c raw) = .ok raw := by
  simp [toRaw, display, h, normalize]

/-- switches display 'on' for raw 1 and 'off' for everything else, so they are inverse exactly on
the two raw values a switch has -/
theorem inverse_switch (c : Conv) (h : c.cls = .switch) (raw : Int) :
    toRaw c (display c raw) = .ok (if raw = 1 then 1 else 0) := by
  by_cases h1 : raw = 1 <;> simp [toRaw, display, h, normalize, h1]

example : toRaw ⟨.switch, 1, 1, 0, 6⟩ (display ⟨.switch, 1, 1, 0, 6⟩ 2) = .ok 0 := by
  simp [toRaw, display, normalize]

/-! ### Displayed bounds: accepted inside, refused outside -/

/-- the `min_value` / `max_value` properties: numbers show the displayed form of the raw bound,
switches the constants 'off' / 'on' -/
def shownMin (c : Conv) (t : Triple) : PyVal := if c.cls = .switch then .str "off" else display c t.min
def shownMax (c : Conv) (t : Triple) : PyVal := if c.cls = .switch then .str "on" else display c t.max

/-- for numbers the displayed minimum and maximum are the displayed forms of the raw bounds -/
theorem shown_bounds_number (c : Conv) (t : Triple) (h : c.cls ≠ .switch) :
    shownMin c t = display c t.min ∧ shownMax c t = display c t.max := by
  simp [shownMin, shownMax, h]

/-- writing back the displayed form of a raw value within the bounds is accepted and transmits
exactly that raw value (unless it is the current value: nothing to do) -/
theorem displayed_in_range_accepted {c : Conv} {t : Triple} {raw : Nat}
    (hinv : toRaw c (display c raw) = .ok (raw : Int))
    (hlo : t.min ≤ raw) (hhi : (raw : Int) ≤ t.max) :
    ParamSet.decide c t (display c raw) = if (raw : Int) = t.value then .noop else .transmit raw := by
  unfold ParamSet.decide
  rw [hinv]
  by_cases hv : (raw : Int) = t.value
  · simp [hv]
  · have : ¬ ((raw : Int) < t.min ∨ (raw : Int) > t.max) := by omega
    simp [hv, this]

/-- writing back the displayed form of a raw value outside the bounds is refused -/
theorem displayed_out_of_range_refused {c : Conv} {t : Triple} {raw : Nat}
    (hinv : toRaw c (display c raw) = .ok (raw : Int))
    (hout : (raw : Int) < t.min ∨ (raw : Int) > t.max) (hv : (raw : Int) ≠ t.value) :
    ParamSet.decide c t (display c raw) = .reject := by
  unfold ParamSet.decide
  rw [hinv]
  simp [hv, hout]

/-- the displayed bounds themselves are accepted (numbers; `0 ≤ min ≤ max` as reported) -/
theorem shown_bounds_accepted {c : Conv} {t : Triple} {lo hi : Nat} (h : c.cls ≠ .switch)
    (hmin : t.min = lo) (hmax : t.max = hi) (hle : lo ≤ hi)
    (hlo : toRaw c (display c lo) = .ok (lo : Int)) (hhi : toRaw c (display c hi) = .ok (hi : Int)) :
    ParamSet.decide c t (shownMin c t) = (if (lo : Int) = t.value then .noop else .transmit lo) ∧
    ParamSet.decide c t (shownMax c t) = (if (hi : Int) = t.value then .noop else .transmit hi) := by
  have hb := shown_bounds_number c t h
  rw [hb.1, hb.2, hmin, hmax]
  exact ⟨displayed_in_range_accepted hlo (by omega) (by omega),
         displayed_in_range_accepted hhi (by omega) (by omega)⟩

/-- **C17 (second half) for every scaled row**, from the per-combination obligations: the
displayed form of every raw value within the reported bounds is accepted (transmitting that raw
value) and that of every raw value outside them is refused. -/
theorem accept_refuse_of_combos
    (H : ∀ c ∈ Gen.combos, ∀ raw < 256 ^ c.size, okStep (Combo.conv c) (256 ^ c.size - 1) raw = true) :
    ∀ kd ∈ allRows, isScaled kd.1 kd.2 = true → ∀ (t : Triple) (raw : Nat), raw < 256 ^ kd.2.size →
      (raw : Int) ≠ t.value →
      ParamSet.decide (convOf kd.1 kd.2) t (display (convOf kd.1 kd.2) raw) =
        if t.min ≤ raw ∧ (raw : Int) ≤ t.max then .transmit raw else .reject := by
  intro kd hmem hsc t raw hraw hv
  have hinv := inverse_of_combos H kd hmem hsc raw hraw
  by_cases hin : t.min ≤ raw ∧ (raw : Int) ≤ t.max
  · rw [displayed_in_range_accepted hinv hin.1 hin.2]; simp [hv, hin]
  · rw [displayed_out_of_range_refused hinv (by omega) hv]; simp [hin]

example : ParamSet.decide ⟨.scaledOff, 3602879701896397, 36028797018963968, 0, 6⟩ ⟨10, 1, 40⟩
    (display ⟨.scaledOff, 3602879701896397, 36028797018963968, 0, 6⟩ 40) = .transmit 40 := by decide +kernel
example : ParamSet.decide ⟨.scaledOff, 3602879701896397, 36028797018963968, 0, 6⟩ ⟨10, 1, 40⟩
    (display ⟨.scaledOff, 3602879701896397, 36028797018963968, 0, 6⟩ 41) = .reject := by decide +kernel

/-! ### the displayed value as a function of the raw value: injective and monotone -/

/-- **injective**: two raw values with the same displayed value are the same raw value (from
`inverse`: the displayed value determines what is written back) -/
theorem display_injective_of_combos
    (H : ∀ c ∈ Gen.combos, ∀ raw < 256 ^ c.size, okStep (Combo.conv c) (256 ^ c.size - 1) raw = true) :
    ∀ kd ∈ allRows, isScaled kd.1 kd.2 = true → ∀ a b : Nat, a < 256 ^ kd.2.size → b < 256 ^ kd.2.size →
      display (convOf kd.1 kd.2) a = display (convOf kd.1 kd.2) b → a = b := by
  intro kd hmem hsc a b ha hb hab
  have h1 := inverse_of_combos H kd hmem hsc a ha
  have h2 := inverse_of_combos H kd hmem hsc b hb
  rw [hab, h2] at h1
  simp only [Except.ok.injEq] at h1
  exact_mod_cast h1.symm

theorem scaled2_den_pos (k : Int) (m : Nat) : 0 < (scaled2 k m).den := by
  unfold scaled2
  split
  · exact Nat.pow_pos (by decide)
  · exact Nat.one_pos

theorem rneNat_den_pos (n d : Nat) : 0 < (rneNat n d).den := by
  unfold rneNat
  split
  · decide
  · exact scaled2_den_pos _ _

theorem pyround_den_pos (x : Q) (p : Nat) : 0 < (pyround x p).den := by
  unfold pyround
  simp only []
  split <;> exact rneNat_den_pos _ _

theorem shownQ_den_pos (c : Conv) (raw : Nat) : 0 < (shownQ c raw).den := by
  unfold shownQ display
  cases c.cls <;> simp only [] <;> first | exact pyround_den_pos _ _ | decide

theorem Q.le_trans {a b c : Q} (hb : 0 < b.den) (h1 : Q.le a b = true) (h2 : Q.le b c = true) : Q.le a c = true := by
  simp only [Q.le, decide_eq_true_eq] at *
  have hbd : (0 : Int) < b.den := by exact_mod_cast hb
  have e1 : a.num * b.den * c.den ≤ b.num * a.den * c.den :=
    Int.mul_le_mul_of_nonneg_right h1 (by exact_mod_cast Nat.zero_le _)
  have e2 : b.num * c.den * a.den ≤ c.num * b.den * a.den :=
    Int.mul_le_mul_of_nonneg_right h2 (by exact_mod_cast Nat.zero_le _)
  have e3 : a.num * c.den * b.den ≤ c.num * a.den * b.den := by
    calc a.num * c.den * b.den = a.num * b.den * c.den := by
          rw [Int.mul_assoc, Int.mul_comm (c.den : Int), ← Int.mul_assoc]
      _ ≤ b.num * a.den * c.den := e1
      _ = b.num * c.den * a.den := by rw [Int.mul_assoc, Int.mul_comm (a.den : Int), ← Int.mul_assoc]
      _ ≤ c.num * b.den * a.den := e2
      _ = c.num * a.den * b.den := by rw [Int.mul_assoc, Int.mul_comm (b.den : Int), ← Int.mul_assoc]
  exact Int.le_of_mul_le_mul_right e3 hbd

/-- adjacent steps never decreasing ⇒ the displayed value is monotone (non-strict, as exact
rationals) over the whole range -/
theorem monotone_of_steps (c : Conv) (N : Nat) (H : ∀ raw, raw + 1 < N → stepMono c raw = true) :
    ∀ a b : Nat, a ≤ b → b < N → Q.le (shownQ c a) (shownQ c b) = true := by
  intro a b hab
  induction b with
  | zero => intro _; have : a = 0 := by omega
            subst this; simp [Q.le]
  | succ b ih =>
    intro hb
    by_cases h : a = b + 1
    · subst h; simp [Q.le]
    · exact Q.le_trans (shownQ_den_pos c b) (ih (by omega) (by omega)) (H b hb)

/-- **monotone**: for every scaled row the displayed value never decreases as the raw value grows
(exact rationals of the binary64 model); together with injectivity: strictly increasing -/
theorem display_monotone_of_combos
    (H : ∀ c ∈ Gen.combos, ∀ raw < 256 ^ c.size, okStep (Combo.conv c) (256 ^ c.size - 1) raw = true) :
    ∀ kd ∈ allRows, isScaled kd.1 kd.2 = true → ∀ a b : Nat, a ≤ b → b < 256 ^ kd.2.size →
      Q.le (shownQ (convOf kd.1 kd.2) a) (shownQ (convOf kd.1 kd.2) b) = true := by
  intro kd hmem hsc a b hab hb
  have hc := row_uses_listed_combo kd hmem hsc
  rw [conv_of_combo hsc]
  have hsize : (comboOf kd.1 kd.2).size = kd.2.size := by simp [comboOf]
  apply monotone_of_steps _ (256 ^ kd.2.size) _ a b hab hb
  intro raw hraw
  have := (okStep_iff.mp (H _ hc raw (by rw [hsize]; omega))).2 (by rw [hsize]; omega)
  exact this

example : stepMono ⟨.scaledOff, 3602879701896397, 36028797018963968, 0, 6⟩ 2 = true := by decide +kernel

end PlumVerif.C17

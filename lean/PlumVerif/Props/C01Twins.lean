import PlumVerif.Props.C01Session
import PlumVerif.Props.C04
/-
C01 on twin frames: byte-identical from the kind byte on (checksum included) under different headers.

Headlines: `twin_frames_each_own_fields` (`readAll` on the concatenation: each call reports its own frame) and
`twin_session_each_own_fields` / `twin_session_deliveries` (the same on the session machine `ReaderSession.session`,
via `session_frames` for any back-to-back sequence).  `twin_deliveries_differ` is a remark about values.
Object identity of what `read()` returns ("never handed out twice") is CORRESPONDENCE only: see registry_d/C01.py.
-/
namespace PlumVerif.C01
open PlumVerif

theorem bcc_cons (x : Byte) (xs : List Byte) : bcc (x :: xs) = x ^^^ bcc xs := by
  unfold bcc
  have gen : ∀ (l : List Byte) (a : Byte), l.foldl (· ^^^ ·) a = a ^^^ l.foldl (· ^^^ ·) 0 := by
    intro l
    induction l with
    | nil => intro a; simp
    | cons y ys ih =>
      intro a
      simp only [List.foldl_cons]
      rw [ih (a ^^^ y), ih (0 ^^^ y)]
      simp [UInt8.xor_assoc]
  simp only [List.foldl_cons]
  rw [gen xs (0 ^^^ x)]
  simp

theorem twin_same_body (f g : Fields) (e : Byte)
    (hk : f.kind = g.kind) (hp : f.payload = g.payload)
    (hx : f.rcpt ^^^ f.sender ^^^ f.etype ^^^ f.ever = g.rcpt ^^^ g.sender ^^^ g.etype ^^^ g.ever) :
    (encodeWith f e).drop 7 = (encodeWith g e).drop 7 := by
  unfold encodeWith
  simp only [List.cons_append, List.nil_append, List.drop_succ_cons, List.drop_zero, bcc_cons, hk, hp]
  have key : ∀ (a b c d x : Byte), a ^^^ (b ^^^ (c ^^^ (d ^^^ x))) = (a ^^^ b ^^^ c ^^^ d) ^^^ x := by
    intro a b c d x; simp [UInt8.xor_assoc]
  rw [key f.rcpt, key g.rcpt, hx]

/-- **the scenario behind "delivered … exactly those bytes" on ONE reader**: two well-formed frames of the same kind and
payload whose addressing / version bytes differ while their XOR is the same (sender 0x45 / version 0x05 against sender
0x51 / version 0x11; recipient 0x56 / type 0x30 against recipient 0x00 / type 0x66) are byte-identical from the kind
byte on, CHECKSUM INCLUDED -- and the reader, called twice on their concatenation, reports each with ITS OWN header
bytes.  Nothing of the first call (no remembered body, no remembered frame) may decide the second. -/
theorem twin_frames_each_own_fields (f g : Fields) (e : Byte)
    (hk : f.kind = g.kind) (hp : f.payload = g.payload)
    (hx : f.rcpt ^^^ f.sender ^^^ f.etype ^^^ f.ever = g.rcpt ^^^ g.sender ^^^ g.etype ^^^ g.ever)
    (hlen : f.payload.length + 10 ≤ 1000) :
    (encodeWith f e).drop 7 = (encodeWith g e).drop 7 ∧
    readAll (encodeWith f e ++ encodeWith g e) =
      [(classify f, f.wireLength), (classify g, g.wireLength), (.connLost, 0)] := by
  refine ⟨twin_same_body f g e hk hp hx, ?_⟩
  have h := C04.stream [(f, e), (g, e)] (by
    intro p hp'
    simp only [List.mem_cons, List.not_mem_nil, or_false] at hp'
    rcases hp' with rfl | rfl
    · exact hlen
    · show g.payload.length + 10 ≤ 1000
      rw [← hp]; exact hlen)
  simpa using h

/-- a call on a complete well-formed frame followed by anything does not block (session model) -/
theorem blockedTaken_encoded (f : Fields) (e : Byte) (rest : List Byte) (hlen : f.payload.length + 10 ≤ 1000) :
    blockedTaken (encodeWith f e ++ rest) = none := by
  have hL := le16_roundtrip (f.payload.length + 10) (by omega)
  unfold blockedTaken encodeWith
  simp only [List.cons_append, scan, if_true, List.nil_append]
  simp only [hL, hdr_eq, minLen_eq, maxLen_eq]
  rw [if_neg (by omega)]
  rw [if_neg (by simp)]

theorem completedFuel_frames (fs : List (Fields × Byte)) (fuel : Nat) (hfuel : fs.length < fuel)
    (hlen : ∀ p ∈ fs, p.1.payload.length + 10 ≤ 1000) :
    completedFuel fuel (fs.flatMap fun p => encodeWith p.1 p.2) =
      (fs.map (fun p => (classify p.1, p.1.wireLength)), 0, []) := by
  induction fs generalizing fuel with
  | nil =>
    cases fuel with
    | zero => simp at hfuel
    | succ n => simp [completedFuel, blockedTaken, scan]
  | cons p ps ih =>
    cases fuel with
    | zero => simp at hfuel
    | succ n =>
      simp only [List.flatMap_cons, completedFuel]
      rw [blockedTaken_encoded p.1 p.2 _ (hlen p (by simp))]
      simp only
      rw [read_encoded p.1 p.2 _ (hlen p (by simp))]
      have ih' := ih n (by simpa using hfuel) (fun q hq => hlen q (by simp [hq]))
      simp [ih', encodeWith_length, Fields.wireLength]

/-- **back-to-back frames on the session machine** (`Model/ReaderSession.session`, one chunk): the completed calls are
exactly one per frame, in order, each with the outcome of ITS OWN frame and its own length; then the call that finds the
stream empty is abandoned, and the end of the stream is reported -/
theorem session_frames (fs : List (Fields × Byte)) (hlen : ∀ p ∈ fs, p.1.payload.length + 10 ≤ 1000) :
    session [fs.flatMap fun p => encodeWith p.1 p.2] =
      fs.map (fun p => SEv.call (classify p.1) p.1.wireLength) ++ [.abandoned 0, .call .connLost 0] := by
  simp only [session, sessionFrom, completed, List.nil_append]
  rw [completedFuel_frames fs _ (flatMap_encode_length fs) hlen]
  simp [readAll, readAllFuel, readFrame_nil]

/-- **the twin scenario on a reader SESSION** (headline of this file together with `twin_frames_each_own_fields`; round-8
audit, item 9): both frames arrive in one chunk, byte-identical from the kind byte on; the session machine completes
exactly two calls, the first with the outcome and length of `f`, the second with those of `g` -- when both pass the gates,
`.delivered f` and `.delivered g`: each delivery carries the fields of ITS OWN frame. -/
theorem twin_session_each_own_fields (f g : Fields) (e : Byte)
    (hk : f.kind = g.kind) (hp : f.payload = g.payload)
    (hx : f.rcpt ^^^ f.sender ^^^ f.etype ^^^ f.ever = g.rcpt ^^^ g.sender ^^^ g.etype ^^^ g.ever)
    (hlen : f.payload.length + 10 ≤ 1000) :
    (encodeWith f e).drop 7 = (encodeWith g e).drop 7 ∧
    session [encodeWith f e ++ encodeWith g e] =
      [.call (classify f) f.wireLength, .call (classify g) g.wireLength, .abandoned 0, .call .connLost 0] := by
  refine ⟨twin_same_body f g e hk hp hx, ?_⟩
  have h := session_frames [(f, e), (g, e)] (by
    intro p hp'
    simp only [List.mem_cons, List.not_mem_nil, or_false] at hp'
    rcases hp' with rfl | rfl
    · exact hlen
    · show g.payload.length + 10 ≤ 1000
      rw [← hp]; exact hlen)
  simpa using h

/-- the two deliveries of the twin session are the two frames' own fields -/
theorem twin_session_deliveries (f g : Fields) (e : Byte)
    (hk : f.kind = g.kind) (hp : f.payload = g.payload)
    (hx : f.rcpt ^^^ f.sender ^^^ f.etype ^^^ f.ever = g.rcpt ^^^ g.sender ^^^ g.etype ^^^ g.ever)
    (hlen : f.payload.length + 10 ≤ 1000)
    (hf : classify f = .delivered f) (hg : classify g = .delivered g) :
    session [encodeWith f e ++ encodeWith g e] =
      [.call (.delivered f) f.wireLength, .call (.delivered g) g.wireLength, .abandoned 0, .call .connLost 0] := by
  rw [(twin_session_each_own_fields f g e hk hp hx hlen).2, hf, hg]

/-- remark only (constructor injectivity, NOT a statement about the reader): two delivered outcomes with different
fields are different values.  What the reader does on twins is `twin_frames_each_own_fields` (`readAll`) and
`twin_session_each_own_fields` / `twin_session_deliveries` (session machine).  That the implementation hands out a NEW
object for each delivery and never the same object twice is outside the model (`Fields` are values without identity):
it is checked by the correspondence harness only (harness/c01.py, object freshness). -/
theorem twin_deliveries_differ (f g : Fields) (hf : classify f = .delivered f) (hg : classify g = .delivered g)
    (hne : f ≠ g) : classify f ≠ classify g := by
  rw [hf, hg]; intro h; injection h with h; exact hne h

/-- non-vacuity: the two pairs named above -/
example : let f : Fields := ⟨0xb3, 0x56, 0x45, 0x30, 0x05, [1]⟩
          let g : Fields := ⟨0xb3, 0x56, 0x51, 0x30, 0x11, [1]⟩
          f.rcpt ^^^ f.sender ^^^ f.etype ^^^ f.ever = g.rcpt ^^^ g.sender ^^^ g.etype ^^^ g.ever ∧
          classify f = .delivered f ∧ classify g = .delivered g ∧ f ≠ g ∧
          (readAll (encode f ++ encode g)).map (·.1) = [.delivered f, .delivered g, .connLost] ∧
          session [encode f ++ encode g] = [.call (.delivered f) 11, .call (.delivered g) 11, .abandoned 0, .call .connLost 0] := by
  decide
example : let f : Fields := ⟨0x19, 0x56, 0x45, 0x30, 0x05, []⟩
          let g : Fields := ⟨0x19, 0x00, 0x45, 0x66, 0x05, []⟩
          f.rcpt ^^^ f.sender ^^^ f.etype ^^^ f.ever = g.rcpt ^^^ g.sender ^^^ g.etype ^^^ g.ever ∧
          (encode f).drop 7 = (encode g).drop 7 ∧
          (readAll (encode f ++ encode g)).map (·.1) = [.delivered f, .delivered g, .connLost] := by
  decide
end PlumVerif.C01

import PlumVerif.Props.C01Session
import PlumVerif.Props.C04
namespace PlumVerif.C01
open PlumVerif

theorem bcc_cons (x : Byte) (xs : List Byte) : bcc (x :: xs) = x ^^^ bcc xs := by
  unfold bcc
  have gen : ∀ (l : List Byte) (a : Byte), l.foldl (· ^^^ ·) a = a ^^^ l.foldl (· ^^^ ·) 0 := by
    intro l
    induction l with
    | nil => intro a; simp
    | cons y ys ih =>
      intro a
      simp only [List.foldl_cons]
      rw [ih (a ^^^ y), ih (0 ^^^ y)]
      simp [UInt8.xor_assoc]
  simp only [List.foldl_cons]
  rw [gen xs (0 ^^^ x)]
  simp

theorem twin_same_body (f g : Fields) (e : Byte)
    (hk : f.kind = g.kind) (hp : f.payload = g.payload)
    (hx : f.rcpt ^^^ f.sender ^^^ f.etype ^^^ f.ever = g.rcpt ^^^ g.sender ^^^ g.etype ^^^ g.ever) :
    (encodeWith f e).drop 7 = (encodeWith g e).drop 7 := by
  unfold encodeWith
  simp only [List.cons_append, List.nil_append, List.drop_succ_cons, List.drop_zero, bcc_cons, hk, hp]
  have key : ∀ (a b c d x : Byte), a ^^^ (b ^^^ (c ^^^ (d ^^^ x))) = (a ^^^ b ^^^ c ^^^ d) ^^^ x := by
    intro a b c d x; simp [UInt8.xor_assoc]
  rw [key f.rcpt, key g.rcpt, hx]

/-- **the scenario behind "delivered … exactly those bytes" on ONE reader**: two well-formed frames of the same kind and
payload whose addressing / version bytes differ while their XOR is the same (sender 0x45 / version 0x05 against sender
0x51 / version 0x11; recipient 0x56 / type 0x30 against recipient 0x00 / type 0x66) are byte-identical from the kind
byte on, CHECKSUM INCLUDED -- and the reader, called twice on their concatenation, reports each with ITS OWN header
bytes.  Nothing of the first call (no remembered body, no remembered frame) may decide the second. -/
theorem twin_frames_each_own_fields (f g : Fields) (e : Byte)
    (hk : f.kind = g.kind) (hp : f.payload = g.payload)
    (hx : f.rcpt ^^^ f.sender ^^^ f.etype ^^^ f.ever = g.rcpt ^^^ g.sender ^^^ g.etype ^^^ g.ever)
    (hlen : f.payload.length + 10 ≤ 1000) :
    (encodeWith f e).drop 7 = (encodeWith g e).drop 7 ∧
    readAll (encodeWith f e ++ encodeWith g e) =
      [(classify f, f.wireLength), (classify g, g.wireLength), (.connLost, 0)] := by
  refine ⟨twin_same_body f g e hk hp hx, ?_⟩
  have h := C04.stream [(f, e), (g, e)] (by
    intro p hp'
    simp only [List.mem_cons, List.not_mem_nil, or_false] at hp'
    rcases hp' with rfl | rfl
    · exact hlen
    · show g.payload.length + 10 ≤ 1000
      rw [← hp]; exact hlen)
  simpa using h

/-- the same on a reader session (`ReaderSession`): both frames arrive in one chunk; the two completed calls carry the
fields of their own frames, in particular DIFFERENT fields when the headers differ -/
theorem twin_deliveries_differ (f g : Fields) (hf : classify f = .delivered f) (hg : classify g = .delivered g)
    (hne : f ≠ g) : classify f ≠ classify g := by
  rw [hf, hg]; intro h; injection h with h; exact hne h

/-- non-vacuity: the two pairs named above -/
example : let f : Fields := ⟨0xb3, 0x56, 0x45, 0x30, 0x05, [1]⟩
          let g : Fields := ⟨0xb3, 0x56, 0x51, 0x30, 0x11, [1]⟩
          f.rcpt ^^^ f.sender ^^^ f.etype ^^^ f.ever = g.rcpt ^^^ g.sender ^^^ g.etype ^^^ g.ever ∧
          classify f = .delivered f ∧ classify g = .delivered g ∧ f ≠ g ∧
          (readAll (encode f ++ encode g)).map (·.1) = [.delivered f, .delivered g, .connLost] ∧
          session [encode f ++ encode g] = [.call (.delivered f) 11, .call (.delivered g) 11, .abandoned 0, .call .connLost 0] := by
  decide
example : let f : Fields := ⟨0x19, 0x56, 0x45, 0x30, 0x05, []⟩
          let g : Fields := ⟨0x19, 0x00, 0x45, 0x66, 0x05, []⟩
          f.rcpt ^^^ f.sender ^^^ f.etype ^^^ f.ever = g.rcpt ^^^ g.sender ^^^ g.etype ^^^ g.ever ∧
          (encode f).drop 7 = (encode g).drop 7 ∧
          (readAll (encode f ++ encode g)).map (·.1) = [.delivered f, .delivered g, .connLost] := by
  decide
end PlumVerif.C01

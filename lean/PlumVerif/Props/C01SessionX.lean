import PlumVerif.Props.C01Session
/-
C01 on a reader object whose calls are abandoned at ANY of the four await points of `read()`:
the three of the stream (C01Session) and the last one, `await Frame.create(…)`, where the frame has
been consumed and has passed every gate (`Model/ReaderSession.sessionX`).

Headline (round-8 audit, item 10): `C01.sessionX_calls_are_reads_of_the_fed_bytes` and `C01.sessionX_delivered_bytes`
(Props/C01SessionBytes.lean): for every split `sessionX pending steps = evs₁ ++ .call o n :: evs₂` the bytes fed up to
that call are `pre ++ consumed ++ post` with `|pre| = takenSum evs₁` (what the earlier calls, completed or abandoned
anywhere, took), `|consumed| = n`, `readFrame (consumed ++ post) = (o, post)`, and for a delivery `consumed = noise ++ fr`,
`wf fr f`.  The two theorems below are their length-only corollaries (kept for the registry and the harness).
-/
namespace PlumVerif.C01
open PlumVerif

/-- corollary (the older form) of `sessionX_calls_are_reads_of_the_fed_bytes` (C01SessionBytes): every completed call
of such a session is one call of `readFrame` on some byte stream -/
theorem sessionX_calls_are_reads (steps : List Step) : ∀ (pending : List Byte) (o : Outcome) (n : Nat),
    SEv.call o n ∈ sessionX pending steps →
      ∃ s', (readFrame s').1 = o ∧ n = s'.length - (readFrame s').2.length := by
  intro pending o n h
  obtain ⟨e1, e2, he⟩ := List.append_of_mem h
  obtain ⟨_, _, _, hc⟩ := sessionX_calls_are_reads_of_the_fed_bytes steps pending e1 e2 o n he
  exact hc.is_read

/-- corollary (the older form, lengths only) of `sessionX_delivered_bytes`: **C01 on a reader re-used after calls
abandoned anywhere, the executor hop of `Frame.create` included** -/
theorem sessionX_delivered_only_if_well_formed (steps : List Step) (f : Fields) (n : Nat)
    (h : SEv.call (.delivered f) n ∈ sessionX [] steps) :
    ∃ noise fr, n = (noise ++ fr).length ∧ (0x68 : Byte) ∉ noise ∧ wf fr f = true := by
  obtain ⟨e1, e2, he⟩ := List.append_of_mem h
  obtain ⟨_, _, _, noise, fr, _, _, _, _, hn, hno, hwf⟩ := sessionX_delivered_bytes steps [] e1 e2 f n he
  exact ⟨noise, fr, hn.symm, hno, hwf⟩

/-- the three histories that matter (non-vacuity).  X = program-version request from ecoMAX, Y = ecoMAX-parameters
request (other kind, addressing, versions, payload), U = a checksum-valid frame of an unknown kind 0x0f.
(a) X delivered; a read of Y abandoned at `Frame.create`; Y arrives again and is delivered as Y.
(b) X delivered; U twice: rejected BOTH times.
(c) X twice: two deliveries, each justified by its own bytes (whatever the caller did to the first object). -/
example :
    let X : Fields := ⟨0x40, 0x56, 0x45, 0x30, 0x05, []⟩
    let Y : Fields := ⟨0x31, 0x00, 0x51, 0x31, 0x06, [7, 3]⟩
    let U : Fields := ⟨0x0f, 0x56, 0x45, 0x30, 0x05, [1, 2, 3]⟩
    sessionX [] [.feed (encode X), .calls, .feed (encode Y), .callAbandonedAtCreate, .feed (encode Y), .calls] =
      [.call (.delivered X) 10, .abandoned 0, .abandoned 12, .call (.delivered Y) 12, .abandoned 0, .call .connLost 0] ∧
    sessionX [] [.feed (encode X ++ encode U ++ encode U), .calls] =
      [.call (.delivered X) 10, .call (.protoErr .unknownFrame) 13, .call (.protoErr .unknownFrame) 13, .abandoned 0,
       .call .connLost 0] ∧
    sessionX [] [.feed (encode X), .calls, .feed (encode X), .calls] =
      [.call (.delivered X) 10, .abandoned 0, .call (.delivered X) 10, .abandoned 0, .call .connLost 0] := by
  decide

/-- history (a) read through `sessionX_calls_are_reads_of_the_fed_bytes`: the delivery of Y is the call at position
10 + 0 + 12 = 22 of the 34 bytes fed by then (X, Y, Y); it took exactly the second copy of Y -/
example :
    let X : Fields := ⟨0x40, 0x56, 0x45, 0x30, 0x05, []⟩
    let Y : Fields := ⟨0x31, 0x00, 0x51, 0x31, 0x06, [7, 3]⟩
    CallAt (feedsOf [.feed (encode X), .calls, .feed (encode Y), .callAbandonedAtCreate, .feed (encode Y)])
      (takenSum [.call (.delivered X) 10, .abandoned 0, .abandoned 12]) (.delivered Y) 12 :=
  ⟨encode ⟨0x40, 0x56, 0x45, 0x30, 0x05, []⟩ ++ encode ⟨0x31, 0x00, 0x51, 0x31, 0x06, [7, 3]⟩,
   encode ⟨0x31, 0x00, 0x51, 0x31, 0x06, [7, 3]⟩, [], by decide, by decide, by decide, by decide⟩

end PlumVerif.C01

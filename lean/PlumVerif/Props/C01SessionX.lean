import PlumVerif.Props.C01Session
/-
C01 on a reader object whose calls are abandoned at ANY of the four await points of `read()`:
the three of the stream (C01Session) and the last one, `await Frame.create(…)`, where the frame has
been consumed and has passed every gate (`Model/ReaderSession.sessionX`).
-/
namespace PlumVerif.C01
open PlumVerif

theorem callAtCreate_calls (s : List Byte) :
    ∀ o n, SEv.call o n ∈ (callAtCreate s).1 → (readFrame s).1 = o ∧ n = s.length - (readFrame s).2.length := by
  intro o n h
  unfold callAtCreate at h
  split at h
  · simp at h
  · dsimp only at h
    split at h
    · simp at h
    · simp at h
    · simp only [List.mem_singleton] at h
      injection h with h1 h2
      exact ⟨h1.symm, h2⟩

/-- every completed call of such a session is one call of `readFrame` on some byte stream: nothing
is carried from an abandoned call — wherever it was abandoned — to a later one -/
theorem sessionX_calls_are_reads (steps : List Step) : ∀ (pending : List Byte) (o : Outcome) (n : Nat),
    SEv.call o n ∈ sessionX pending steps →
      ∃ s', (readFrame s').1 = o ∧ n = s'.length - (readFrame s').2.length := by
  induction steps with
  | nil =>
    intro pending o n h
    simp only [sessionX, List.mem_map] at h
    obtain ⟨p, hp, hpe⟩ := h
    injection hpe with h1 h2
    subst h1; subst h2
    exact readAllFuel_calls _ _ p hp
  | cons st steps ih =>
    intro pending o n h
    cases st with
    | feed c => exact ih _ o n (by simpa [sessionX] using h)
    | calls =>
      simp only [sessionX, List.mem_append, List.mem_map, List.mem_singleton] at h
      rcases h with (⟨p, hp, hpe⟩ | h) | h
      · injection hpe with h1 h2
        subst h1; subst h2
        exact completedFuel_calls _ _ p hp
      · cases h
      · exact ih _ o n h
    | callAbandonedAtCreate =>
      simp only [sessionX, List.mem_append] at h
      rcases h with h | h
      · exact ⟨pending, callAtCreate_calls pending o n h⟩
      · exact ih _ o n h

/-- **C01 on a reader re-used after calls abandoned anywhere, the executor hop of `Frame.create`
included**: a frame handed out by a later call is justified by the bytes THAT call consumed -/
theorem sessionX_delivered_only_if_well_formed (steps : List Step) (f : Fields) (n : Nat)
    (h : SEv.call (.delivered f) n ∈ sessionX [] steps) :
    ∃ noise fr, n = (noise ++ fr).length ∧ (0x68 : Byte) ∉ noise ∧ wf fr f = true := by
  obtain ⟨s', ho, hn⟩ := sessionX_calls_are_reads steps [] _ _ h
  have hrf : readFrame s' = (.delivered f, (readFrame s').2) := by rw [← ho]
  obtain ⟨noise, fr, hs, hno, hwf⟩ := delivered_only_if_well_formed hrf
  refine ⟨noise, fr, ?_, hno, hwf⟩
  have hl := congrArg List.length hs
  simp only [List.length_append] at hl ⊢
  omega

/-- the three histories that matter (non-vacuity).  X = program-version request from ecoMAX, Y = ecoMAX-parameters
request (other kind, addressing, versions, payload), U = a checksum-valid frame of an unknown kind 0x0f.
(a) X delivered; a read of Y abandoned at `Frame.create`; Y arrives again and is delivered as Y.
(b) X delivered; U twice: rejected BOTH times.
(c) X twice: two deliveries, each justified by its own bytes (whatever the caller did to the first object). -/
example :
    let X : Fields := ⟨0x40, 0x56, 0x45, 0x30, 0x05, []⟩
    let Y : Fields := ⟨0x31, 0x00, 0x51, 0x31, 0x06, [7, 3]⟩
    let U : Fields := ⟨0x0f, 0x56, 0x45, 0x30, 0x05, [1, 2, 3]⟩
    sessionX [] [.feed (encode X), .calls, .feed (encode Y), .callAbandonedAtCreate, .feed (encode Y), .calls] =
      [.call (.delivered X) 10, .abandoned 0, .abandoned 12, .call (.delivered Y) 12, .abandoned 0, .call .connLost 0] ∧
    sessionX [] [.feed (encode X ++ encode U ++ encode U), .calls] =
      [.call (.delivered X) 10, .call (.protoErr .unknownFrame) 13, .call (.protoErr .unknownFrame) 13, .abandoned 0,
       .call .connLost 0] ∧
    sessionX [] [.feed (encode X), .calls, .feed (encode X), .calls] =
      [.call (.delivered X) 10, .abandoned 0, .call (.delivered X) 10, .abandoned 0, .call .connLost 0] := by
  decide

end PlumVerif.C01

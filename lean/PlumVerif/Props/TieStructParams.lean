import PlumVerif.Generated.PyCode
import PlumVerif.Proofs.PyLemmas
import PlumVerif.Model.DecodeParams
import PlumVerif.Props.TieParams
/-
Tie: the Lean definitions translated from the SOURCE TEXT of the three parameter-block decoders

  structures/ecomax_parameters.py      EcomaxParametersStructure._ecomax_parameter / .decode
  structures/mixer_parameters.py       MixerParametersStructure._mixer_parameter / ._mixer_parameters / .decode
  structures/thermostat_parameters.py  ThermostatParametersStructure._thermostat_parameter / ._thermostat_parameters / .decode
  utils.py                             ensure_dict

(Generated/PyCode.lean, rewritten by tools/py2lean.py on every run) equal the hand-written model
`P2.decodeEcomax / decodeMixer / decodeThermo` (Model/DecodeParams.lean) for EVERY message, every NATURAL
offset, every instance and every `data` argument that is `None` or a string-keyed dict — result, exception class,
returned offset and the `_offset` attribute left on the instance.

Hypotheses, exactly (what is NOT covered): `off : Nat` (the translated code also runs with a negative offset; no theorem
speaks about that); `dataOk data` (`None` or a `.dict`, i.e. all keys strings); the helpers `thermo_parameter_eq` /
`thermo_parameters_eq` need `T ≠ 0` (at `T = 0` the translated helper answers `unsupported`: the prelude's `//` has no
ZeroDivisionError — `decode` never calls it with 0); `thermo_decode_*` needs an instance with a `frame` attribute whose
`handler` is `None` or a device rendered as a dict in which `thermostats_available` is absent or a natural number (the trusted
`get_nowait` contract); a method returns `PyM (result × instance)`, so the instance after an EXCEPTION is not part of any
statement ("`_offset` left on the instance" is about successful calls).
`mixer_decode_closed` / `thermo_decode_closed` are the statements to read: their right-hand sides are closed (`blocksDictV`).

The model works on remainders (`message[offset:]`); the code returns an absolute offset.  The theorems
give the offset explicitly (`off + header + P2Len…`) and `decodeRun_rest` / `decodeBlocks_rest` show that
the model's remainder is the message dropped by exactly that amount.
-/
namespace PlumVerif.TieStructParams
open PlumVerif.Py PlumVerif.TieParams
set_option linter.unusedSimpArgs false
set_option linter.unusedVariables false

/-! ### model values as Python values -/

def tripleV (t : P2.Triple) : V :=
  Py.mkobj "ParameterValues" [("value", .int t.1), ("min_value", .int t.2.1), ("max_value", .int t.2.2)]

/-- what `unpack_parameter` answers -/
def slotV : Option P2.Triple → V
  | none => .none
  | some t => tripleV t

def paramsV (ps : P2.Params) : List V := ps.map fun p => .tuple [.int p.1, tripleV p.2]

def blocksV (bs : P2.Blocks) : List V := bs.map fun b => .tuple [.int b.1, .list (paramsV b.2)]

/-- what one slot contributes to the list of yielded pairs -/
def yieldSlot (idx : Nat) : Option P2.Triple → List V
  | none => []
  | some t => [.tuple [.int idx, tripleV t]]

def yieldBlock (t : Nat) (ps : P2.Params) : List V :=
  if ps.isEmpty then [] else [.tuple [.int t, .list (paramsV ps)]]

/-- bytes a run of `n` slots starting at index `idx` occupies -/
def runLen (sizeOf : Nat → Option Nat) : Nat → Nat → Nat
  | 0, _ => 0
  | n + 1, idx => 3 * (sizeOf idx).getD 0 + runLen sizeOf n (idx + 1)

theorem runLen_one (n idx : Nat) : runLen P2.one n idx = 3 * n := by
  induction n generalizing idx with
  | zero => rfl
  | succ n ih => simp [runLen, ih, P2.one]; omega

/-- the model's remainder after a run is the input dropped by `runLen` -/
theorem decodeRun_rest (sizeOf : Nat → Option Nat) (n idx : Nat) (r : List UInt8) (ps : P2.Params) (r' : List UInt8)
    (h : P2.decodeRun sizeOf n idx r = .ok (ps, r')) : r' = r.drop (runLen sizeOf n idx) := by
  induction n generalizing idx r ps r' with
  | zero => simp [P2.decodeRun] at h; simp [runLen, h.2]
  | succ n ih =>
    unfold P2.decodeRun at h
    cases hs : sizeOf idx with
    | none => simp [hs] at h
    | some sz =>
      simp only [hs] at h
      cases hr : P2.decodeRun sizeOf n (idx + 1) (r.drop (3 * sz)) with
      | error e => simp [hr] at h
      | ok v =>
        obtain ⟨ps1, r1⟩ := v
        simp only [hr, Except.ok.injEq, Prod.mk.injEq] at h
        have := ih (idx + 1) (r.drop (3 * sz)) ps1 r1 hr
        simp [runLen, hs, ← h.2, this, List.drop_drop]

theorem decodeBlocks_rest (sizeOf : Nat → Option Nat) (start n k t : Nat) (r : List UInt8) (bs : P2.Blocks) (r' : List UInt8)
    (h : P2.decodeBlocks sizeOf start n k t r = .ok (bs, r')) : r' = r.drop (k * runLen sizeOf n start) := by
  induction k generalizing t r bs r' with
  | zero => simp [P2.decodeBlocks] at h; simp [h.2]
  | succ k ih =>
    unfold P2.decodeBlocks at h
    cases hr : P2.decodeRun sizeOf n start r with
    | error e => simp [hr] at h
    | ok v =>
      obtain ⟨ps1, r1⟩ := v
      simp only [hr] at h
      cases hb : P2.decodeBlocks sizeOf start n k (t + 1) r1 with
      | error e => simp [hb] at h
      | ok w =>
        obtain ⟨bs2, r2⟩ := w
        simp only [hb, Except.ok.injEq, Prod.mk.injEq] at h
        have h1 := decodeRun_rest sizeOf n start r ps1 r1 hr
        have h2 := ih (t + 1) r1 bs2 r2 hb
        rw [← h.2, h2, h1, List.drop_drop]
        congr 1
        rw [Nat.succ_mul]; omega

/-- the only error of a run / of the blocks is the IndexError of the description table -/
theorem decodeRun_err (sizeOf : Nat → Option Nat) (n idx : Nat) (r : List UInt8) (e : P2.Err)
    (h : P2.decodeRun sizeOf n idx r = .error e) : e = .index := by
  induction n generalizing idx r e with
  | zero => simp [P2.decodeRun] at h
  | succ n ih =>
    unfold P2.decodeRun at h
    cases hs : sizeOf idx with
    | none => simp [hs] at h; exact h.symm
    | some sz =>
      simp only [hs] at h
      cases hr : P2.decodeRun sizeOf n (idx + 1) (r.drop (3 * sz)) with
      | error e' => simp [hr] at h; rw [← h]; exact ih _ _ _ hr
      | ok v => obtain ⟨ps1, r1⟩ := v; simp [hr] at h

theorem decodeBlocks_err (sizeOf : Nat → Option Nat) (start n k t : Nat) (r : List UInt8) (e : P2.Err)
    (h : P2.decodeBlocks sizeOf start n k t r = .error e) : e = .index := by
  induction k generalizing t r e with
  | zero => simp [P2.decodeBlocks] at h
  | succ k ih =>
    unfold P2.decodeBlocks at h
    cases hr : P2.decodeRun sizeOf n start r with
    | error e' => simp [hr] at h; rw [← h]; exact decodeRun_err _ _ _ _ _ hr
    | ok v =>
      obtain ⟨ps1, r1⟩ := v
      simp only [hr] at h
      cases hb : P2.decodeBlocks sizeOf start n k (t + 1) r1 with
      | error e' => simp [hb] at h; rw [← h]; exact ih _ _ _ hb
      | ok w => obtain ⟨bs2, r2⟩ := w; simp [hb] at h

/-! ### the instance: attribute `_offset` -/

/-- the instance `obj c ks vs` after `self._offset = n` -/
def withOff (c : String) (ks : List String) (vs : List V) (n : Nat) : V :=
  .obj c (dictSet ks vs "_offset" (.int n)).1 (dictSet ks vs "_offset" (.int n)).2

theorem dictSet_dictSet (ks : List String) (vs : List V) (k : String) (v w : V) :
    dictSet (dictSet ks vs k v).1 (dictSet ks vs k v).2 k w = dictSet ks vs k w := by
  induction ks generalizing vs with
  | nil => simp [dictSet]
  | cons k' ks ih =>
    cases vs with
    | nil => simp [dictSet]
    | cons v' vs =>
      by_cases hk : k' = k
      · simp [dictSet, hk]
      · simp [dictSet, hk, ih]

theorem lookup_dictSet (ks : List String) (vs : List V) (k : String) (v : V) :
    lookup (dictSet ks vs k v).1 (dictSet ks vs k v).2 k = some v := by
  induction ks generalizing vs with
  | nil => simp [dictSet, lookup]
  | cons k' ks ih =>
    cases vs with
    | nil => simp [dictSet, lookup]
    | cons v' vs =>
      by_cases hk : k' = k
      · simp [dictSet, hk, lookup]
      · simp [dictSet, hk, lookup, ih]

@[simp] theorem setattr_obj (c : String) (ks : List String) (vs : List V) (n : Nat) :
    Py.setattr (.obj c ks vs) "_offset" (.int (n : Int)) = .ok (withOff c ks vs n) := rfl

@[simp] theorem setattr_withOff (c : String) (ks : List String) (vs : List V) (n m : Nat) :
    Py.setattr (withOff c ks vs n) "_offset" (.int (m : Int)) = .ok (withOff c ks vs m) := by
  simp [withOff, Py.setattr, dictSet_dictSet]

@[simp] theorem getattr_withOff (c : String) (ks : List String) (vs : List V) (n : Nat) :
    Py.getattr (withOff c ks vs n) "_offset" = .ok (.int (n : Int)) := by
  simp [withOff, Py.getattr, lookup_dictSet]

/-! ### loops over `range` -/

/-- the elements of `range(a, a + n)` -/
def rangeV (a n : Nat) : List V := (List.range n).map fun (k : Nat) => V.int ((a : Int) + Int.ofNat k)

theorem rangeV_succ (a n : Nat) : rangeV a (n + 1) = .int (a : Int) :: rangeV (a + 1) n := by
  simp only [rangeV, List.range_succ_eq_map, List.map_cons, List.map_map]
  congr 1
  simp
  intro k _
  omega

theorem range_nat (a b : Nat) : Py.range (.int (a : Int)) (.int (b : Int)) = .ok (.list (rangeV a (b - a))) := by
  have : ((b : Int) - (a : Int)).toNat = b - a := by omega
  simp [Py.range, rangeV, this]

@[simp] theorem forLoop_list {σ : Type} (xs : List V) (st : σ) (body : V → σ → PyM σ) :
    Py.forLoop (.list xs) st body = xs.foldlM (fun s x => body x s) st := rfl

/-- `Py.index` of a byte string at a natural position -/
theorem index_bytes_nat (b : List UInt8) (n : Nat) :
    Py.index (.bytes b) (.int (n : Int)) = match b[n]? with
      | some x => .ok (byteV x)
      | none => .error .IndexError := by
  by_cases h : n < b.length
  · have h1 : (n : Int) < (b.length : Int) := by omega
    simp [Py.index, normIndex, asInt?, h, h1, List.getD_eq_getElem?_getD]
  · have h1 : ¬ (n : Int) < (b.length : Int) := by omega
    have h2 : b[n]? = none := List.getElem?_eq_none (by omega)
    simp [Py.index, normIndex, asInt?, h1, h2]

/-- one inner loop (the slots of one run), for a loop body that does what `decodeRun` does in one step -/
theorem run_fold (sizeOf : Nat → Option Nat) (msg : List UInt8) (c : String) (ks : List String) (vs : List V)
    (body : V → V × V → PyM (V × V))
    (hstep : ∀ (idx off : Nat) (acc : List V), body (.int (idx : Int)) (.list acc, withOff c ks vs off) =
      match sizeOf idx with
      | none => .error .IndexError
      | some sz => .ok (.list (acc ++ yieldSlot idx (P2.unpackParam sz (msg.drop off))), withOff c ks vs (off + 3 * sz)))
    (n idx off : Nat) (acc : List V) :
    List.foldlM (fun s x => body x s) (V.list acc, withOff c ks vs off) (rangeV idx n)
      = match P2.decodeRun sizeOf n idx (msg.drop off) with
        | .error _ => .error .IndexError
        | .ok (ps, _) => .ok (.list (acc ++ paramsV ps), withOff c ks vs (off + runLen sizeOf n idx)) := by
  induction n generalizing idx off acc with
  | zero => simp [rangeV, P2.decodeRun, paramsV, runLen]
  | succ n ih =>
    rw [rangeV_succ, List.foldlM_cons, hstep]
    unfold P2.decodeRun
    cases hs : sizeOf idx with
    | none => simp
    | some sz =>
      simp only [ok_bind, ih, List.drop_drop]
      cases hr : P2.decodeRun sizeOf n (idx + 1) (msg.drop (off + 3 * sz)) with
      | error e => simp
      | ok v =>
        obtain ⟨ps1, r1⟩ := v
        simp only [runLen, hs, Option.getD_some]
        cases hu : P2.unpackParam sz (List.drop off msg) with
        | none => simp [yieldSlot, Nat.add_assoc]
        | some t => simp [yieldSlot, paramsV, Nat.add_assoc]

/-- one outer loop (one run per sub-device) -/
theorem blocks_fold (sizeOf : Nat → Option Nat) (msg : List UInt8) (c : String) (ks : List String) (vs : List V)
    (start n : Nat) (body : V → V × V → PyM (V × V))
    (hstep : ∀ (t off : Nat) (acc : List V), body (.int (t : Int)) (.list acc, withOff c ks vs off) =
      match P2.decodeRun sizeOf n start (msg.drop off) with
      | .error _ => .error .IndexError
      | .ok (ps, _) => .ok (.list (acc ++ yieldBlock t ps), withOff c ks vs (off + runLen sizeOf n start)))
    (k t off : Nat) (acc : List V) :
    List.foldlM (fun s x => body x s) (V.list acc, withOff c ks vs off) (rangeV t k)
      = match P2.decodeBlocks sizeOf start n k t (msg.drop off) with
        | .error _ => .error .IndexError
        | .ok (bs, _) => .ok (.list (acc ++ blocksV bs), withOff c ks vs (off + k * runLen sizeOf n start)) := by
  induction k generalizing t off acc with
  | zero => simp [rangeV, P2.decodeBlocks, blocksV]
  | succ k ih =>
    rw [rangeV_succ, List.foldlM_cons, hstep]
    unfold P2.decodeBlocks
    cases hr : P2.decodeRun sizeOf n start (msg.drop off) with
    | error e => simp
    | ok v =>
      obtain ⟨ps1, r1⟩ := v
      have h1 := decodeRun_rest sizeOf n start _ ps1 r1 hr
      simp only [ok_bind, ih, h1, List.drop_drop]
      cases hb : P2.decodeBlocks sizeOf start n k (t + 1) (msg.drop (off + runLen sizeOf n start)) with
      | error e => simp
      | ok w =>
        obtain ⟨bs2, r2⟩ := w
        have e2 : off + runLen sizeOf n start + k * runLen sizeOf n start = off + (k + 1) * runLen sizeOf n start := by
          rw [Nat.succ_mul]; omega
        by_cases hp : ps1.isEmpty
        · simp [yieldBlock, hp, e2]
        · simp [yieldBlock, hp, blocksV, e2]

/-! ### leaf facts -/

theorem unpack_eq (msg : List UInt8) (off size : Nat) :
    PyCode.unpack_parameter (.bytes msg) (.int (off : Int)) (.int (size : Int))
      = .ok (slotV (P2.unpackParam size (msg.drop off))) := by
  rw [unpack_parameter_eq]
  cases P2.unpackParam size (msg.drop off) with
  | none => rfl
  | some t => obtain ⟨a, b, c⟩ := t; rfl

theorem unpack_eq1 (msg : List UInt8) (off : Nat) :
    PyCode.unpack_parameter (.bytes msg) (.int (off : Int)) (.int 1)
      = .ok (slotV (P2.unpackParam 1 (msg.drop off))) := unpack_eq msg off 1

@[simp] theorem truthy_slotV (s : Option P2.Triple) : Py.truthy (slotV s) = .ok s.isSome := by
  cases s <;> rfl

@[simp] theorem yield_list (acc : List V) (v : V) : Py.yield_ (.list acc) v = .ok (.list (acc ++ [v])) := rfl
@[simp] theorem list_list (xs : List V) : Py.list_ (.list xs) = .ok (.list xs) := rfl
@[simp] theorem truthy_list (xs : List V) : Py.truthy (.list xs) = .ok (!xs.isEmpty) := rfl

theorem add_nat (a b : Nat) : Py.add (.int (a : Int)) (.int (b : Int)) = .ok (.int ((a + b : Nat) : Int)) := by
  simp [Py.add, asInt?]

theorem mul_nat (a b : Nat) : Py.mul (.int (a : Int)) (.int (b : Int)) = .ok (.int ((a * b : Nat) : Int)) := by
  simp [Py.mul, asInt?]

theorem cast_add_2 (a : Nat) : (a : Int) + 2 = ((a + 2 : Nat) : Int) := by simp
theorem cast_add_3 (a : Nat) : (a : Int) + 3 = ((a + 3 : Nat) : Int) := by simp
theorem cast_add_4 (a : Nat) : (a : Int) + 4 = ((a + 4 : Nat) : Int) := by simp

theorem cast_add_one (a : Nat) : (a : Int) + 1 = ((a + 1 : Nat) : Int) := by simp

theorem yieldSlot_eq (idx : Nat) (s : Option P2.Triple) :
    (if s.isSome then [V.tuple [.int (idx : Int), slotV s]] else []) = yieldSlot idx s := by
  cases s <;> rfl

/-! ### ecoMAX parameters -/

theorem ecomax_parameter_eq (c : String) (ks : List String) (vs : List V) (msg : List UInt8) (off start n : Nat) :
    PyCode.EcomaxParametersStructure_ecomax_parameter (withOff c ks vs off) (.bytes msg) (.int (start : Int)) (.int (n : Int))
      = match P2.decodeRun P2.one n start (msg.drop off) with
        | .error _ => .error .IndexError
        | .ok (ps, _) => .ok (.list (paramsV ps), withOff c ks vs (off + 3 * n)) := by
  unfold PyCode.EcomaxParametersStructure_ecomax_parameter
  simp only [add_nat, ok_bind, range_nat, Nat.add_sub_cancel_left, forLoop_list]
  rw [run_fold P2.one msg c ks vs]
  · cases P2.decodeRun P2.one n start (msg.drop off) with
    | error e => rfl
    | ok v => obtain ⟨ps, r⟩ := v; simp [runLen_one]
  · intro idx off acc
    simp only [P2.one, getattr_withOff, ok_bind, unpack_eq1, truthy_slotV, pure_eq_ok, PyCode.c_ECOMAX_PARAMETER_SIZE,
      add_nat, add_int, cast_add_2, cast_add_3, cast_add_4, cast_add_one, setattr_withOff, Nat.mul_one]
    cases P2.unpackParam 1 (msg.drop off) <;> simp [yieldSlot, slotV]

/-! ### `ensure_dict(data, {…})` -/

/-- the `data` argument of `decode`: `None` or a dict -/
def dataOk : V → Prop
  | .none => True
  | .dict _ _ => True
  | _ => False

/-- `ensure_dict(data, {ks: vs})` -/
def merge1 (data : V) (ks : List String) (vs : List V) : V :=
  match data with
  | .dict dk dv => .dict (dictMerge dk dv ks vs).1 (dictMerge dk dv ks vs).2
  | _ => .dict (dictMerge [] [] ks vs).1 (dictMerge [] [] ks vs).2

theorem ensure_dict_eq (data : V) (h : dataOk data) (ks : List String) (vs : List V) :
    PyCode.ensure_dict data (.tuple [.dict ks vs]) = .ok (merge1 data ks vs) := by
  cases data <;> simp [dataOk] at h <;>
    simp [PyCode.ensure_dict, Py.isNotNone, Py.truthy, Py.forLoop, Py.iter, Py.or, merge1]

theorem byteV_nat (b : UInt8) : byteV b = .int ((b.toNat : Nat) : Int) := rfl

theorem drop3 (msg : List UInt8) (off : Nat) : msg.drop (off + 3) = (msg.drop off).drop 3 := by
  rw [List.drop_drop]
theorem drop4 (msg : List UInt8) (off : Nat) : msg.drop (off + 4) = (msg.drop off).drop 4 := by
  rw [List.drop_drop]
theorem drop6 (msg : List UInt8) (off : Nat) : msg.drop (off + 3 + 3) = (msg.drop off).drop 6 := by
  rw [List.drop_drop]

theorem getElem?_off (msg : List UInt8) (off k : Nat) : msg[off + k]? = (msg.drop off)[k]? := by
  simp [List.getElem?_drop]

theorem getD_off (msg : List UInt8) (off k : Nat) : msg.getD (off + k) 0 = ((msg.drop off)[k]?).getD 0 := by
  simp [List.getD_eq_getElem?_getD, List.getElem?_drop]

/-- `EcomaxParametersStructure.decode(message, offset, data)` on ANY instance: the model's `decodeEcomax` on
`message[offset:]`; the returned offset (and `self._offset`) is `offset + 3 + 3 * count` -/
theorem ecomax_decode_eq (c : String) (ks : List String) (vs : List V) (msg : List UInt8) (off : Nat) (data : V)
    (hd : dataOk data) :
    PyCode.EcomaxParametersStructure_decode (.obj c ks vs) (.bytes msg) (.int (off : Int)) data
      = match P2.decodeEcomax (msg.drop off) with
        | .error _ => .error .IndexError
        | .ok (ps, _) =>
          let o := off + 3 + 3 * (msg.getD (off + 2) 0).toNat
          .ok (.tuple [merge1 data ["ecomax_parameters"] [.list (paramsV ps)], .int (o : Int)], withOff c ks vs o) := by
  unfold PyCode.EcomaxParametersStructure_decode
  simp only [add_int, ok_bind, cast_add_one, cast_add_2, cast_add_3, index_bytes_nat, getElem?_off, getD_off, setattr_obj]
  generalize hm : msg.drop off = d
  match d with
  | [] => simp [P2.decodeEcomax]
  | [_] => simp [P2.decodeEcomax]
  | [_, _] => simp [P2.decodeEcomax]
  | b0 :: s :: cnt :: r =>
    simp only [List.getElem?_cons_succ, List.getElem?_cons_zero, ok_bind, byteV_nat, setattr_obj,
      ecomax_parameter_eq, drop3, hm, List.drop_succ_cons, List.drop_zero, P2.decodeEcomax]
    cases P2.decodeRun P2.one cnt.toNat s.toNat r with
    | error e => rfl
    | ok v =>
      obtain ⟨ps, r'⟩ := v
      simp [ensure_dict_eq _ hd]

/-! ### mixer parameters -/

theorem mixer_parameter_eq (c : String) (ks : List String) (vs : List V) (msg : List UInt8) (off start n : Nat) :
    PyCode.MixerParametersStructure_mixer_parameter (withOff c ks vs off) (.bytes msg) (.int (start : Int)) (.int (n : Int))
      = match P2.decodeRun P2.one n start (msg.drop off) with
        | .error _ => .error .IndexError
        | .ok (ps, _) => .ok (.list (paramsV ps), withOff c ks vs (off + 3 * n)) := by
  unfold PyCode.MixerParametersStructure_mixer_parameter
  simp only [add_nat, ok_bind, range_nat, Nat.add_sub_cancel_left, forLoop_list]
  rw [run_fold P2.one msg c ks vs]
  · cases P2.decodeRun P2.one n start (msg.drop off) with
    | error e => rfl
    | ok v => obtain ⟨ps, r⟩ := v; simp [runLen_one]
  · intro idx off acc
    simp only [P2.one, getattr_withOff, ok_bind, unpack_eq1, truthy_slotV, pure_eq_ok, PyCode.c_MIXER_PARAMETER_SIZE,
      add_nat, add_int, cast_add_2, cast_add_3, cast_add_4, cast_add_one, setattr_withOff, Nat.mul_one]
    cases P2.unpackParam 1 (msg.drop off) <;> simp [yieldSlot, slotV]

theorem range_zero (b : Nat) : Py.range (.int 0) (.int (b : Int)) = .ok (.list (rangeV 0 b)) := by
  have := range_nat 0 b
  simpa using this

theorem paramsV_isEmpty (ps : P2.Params) : (paramsV ps).isEmpty = ps.isEmpty := by
  cases ps <;> rfl

theorem mixer_parameters_eq (c : String) (ks : List String) (vs : List V) (msg : List UInt8) (off mixers start n : Nat) :
    PyCode.MixerParametersStructure_mixer_parameters (withOff c ks vs off) (.bytes msg) (.int (mixers : Int))
        (.int (start : Int)) (.int (n : Int))
      = match P2.decodeBlocks P2.one start n mixers 0 (msg.drop off) with
        | .error _ => .error .IndexError
        | .ok (bs, _) => .ok (.list (blocksV bs), withOff c ks vs (off + mixers * (3 * n))) := by
  unfold PyCode.MixerParametersStructure_mixer_parameters
  simp only [ok_bind, range_zero, forLoop_list]
  rw [blocks_fold P2.one msg c ks vs start n]
  · cases P2.decodeBlocks P2.one start n mixers 0 (msg.drop off) with
    | error e => rfl
    | ok v => obtain ⟨bs, r⟩ := v; simp [runLen_one]
  · intro t off acc
    simp only [mixer_parameter_eq, runLen_one]
    cases P2.decodeRun P2.one n start (msg.drop off) with
    | error e => rfl
    | ok v =>
      obtain ⟨ps, r⟩ := v
      by_cases hp : ps.isEmpty <;> simp [yieldBlock, hp, paramsV_isEmpty]

/-- `MixerParametersStructure.decode(message, offset, data)`; `dict(…)` of the model's blocks is left as the
prelude's `dict_` of the list of pairs (see `dict_blocks` for its value) -/
theorem mixer_decode_eq (c : String) (ks : List String) (vs : List V) (msg : List UInt8) (off : Nat) (data : V)
    (hd : dataOk data) :
    PyCode.MixerParametersStructure_decode (.obj c ks vs) (.bytes msg) (.int (off : Int)) data
      = match P2.decodeMixer (msg.drop off) with
        | .error _ => .error .IndexError
        | .ok (bs, _) =>
          let o := off + 4 + (msg.getD (off + 3) 0).toNat * (3 * (msg.getD (off + 2) 0).toNat)
          (Py.dict_ (.list (blocksV bs))).map fun d =>
            (.tuple [merge1 data ["mixer_parameters"] [d], .int (o : Int)], withOff c ks vs o) := by
  unfold PyCode.MixerParametersStructure_decode
  simp only [add_int, ok_bind, cast_add_one, cast_add_2, cast_add_3, cast_add_4, index_bytes_nat, getElem?_off, getD_off,
    setattr_obj]
  generalize hm : msg.drop off = d
  match d with
  | [] => simp [P2.decodeMixer]
  | [_] => simp [P2.decodeMixer]
  | [_, _] => simp [P2.decodeMixer]
  | [_, _, _] => simp [P2.decodeMixer]
  | b0 :: s :: cnt :: k :: r =>
    simp only [List.getElem?_cons_succ, List.getElem?_cons_zero, ok_bind, byteV_nat, setattr_obj,
      mixer_parameters_eq, drop4, hm, List.drop_succ_cons, List.drop_zero, P2.decodeMixer]
    cases P2.decodeBlocks P2.one s.toNat cnt.toNat k.toNat 0 r with
    | error e => rfl
    | ok v =>
      obtain ⟨bs, r'⟩ := v
      simp only [ok_bind, Option.getD_some]
      cases Py.dict_ (.list (blocksV bs)) with
      | error e => rfl
      | ok dd => simp [ensure_dict_eq _ hd, Except.map]

/-! ### thermostat parameters -/

/-- the description objects folded from the source text of `THERMOSTAT_PARAMETERS` -/
def descs : List V := match PyCode.c_THERMOSTAT_PARAMETERS with | .tuple xs => xs | _ => []

theorem descs_eq : PyCode.c_THERMOSTAT_PARAMETERS = .tuple descs := rfl

/-- the `size` fields of the table as the code translator folds it from the SOURCE TEXT are the sizes of the
table the reflection dump (`tools/gen_tables.py`) reads from the interpreter -/
theorem thermo_sizes_tbl :
    descs.map (fun d => Py.getattr d "size") = Gen.thermostat.map (fun r => (.ok (.int (r.size : Nat)) : PyM V)) := by
  rfl

theorem desc_at (idx : Nat) :
    match descs[idx]?, P2.thermoSize idx with
    | some d, some sz => Py.getattr d "size" = .ok (.int (sz : Int))
    | none, none => True
    | _, _ => False := by
  have h := congrArg (fun l => l[idx]?) thermo_sizes_tbl
  simp only [List.getElem?_map] at h
  unfold P2.thermoSize
  cases hd : descs[idx]? <;> cases hg : Gen.thermostat[idx]? <;> simp_all

theorem index_tuple_nat (xs : List V) (n : Nat) :
    Py.index (.tuple xs) (.int (n : Int)) = match xs[n]? with
      | some x => .ok x
      | none => .error .IndexError := by
  by_cases h : n < xs.length
  · have h1 : (n : Int) < (xs.length : Int) := by omega
    simp [Py.index, normIndex, asInt?, h, h1, List.getD_eq_getElem?_getD]
  · have h1 : ¬ (n : Int) < (xs.length : Int) := by omega
    have h2 : xs[n]? = none := List.getElem?_eq_none (by omega)
    simp [Py.index, normIndex, asInt?, h1, h2]

theorem floordiv_nat (a T : Nat) (h : T ≠ 0) :
    Py.floordiv (.int (a : Int)) (.int (T : Int)) = .ok (.int ((a / T : Nat) : Int)) := by
  simp [Py.floordiv, asInt?, h, Int.fdiv_eq_ediv_of_nonneg]

theorem cast_3_mul (a : Nat) : (3 : Int) * (a : Int) = ((3 * a : Nat) : Int) := by simp

theorem thermo_parameter_eq (c : String) (ks : List String) (vs : List V) (msg : List UInt8) (off T start n : Nat)
    (hT : T ≠ 0) :
    PyCode.ThermostatParametersStructure_thermostat_parameter (withOff c ks vs off) (.bytes msg) (.int (T : Int))
        (.int (start : Int)) (.int (n : Int))
      = match P2.decodeRun P2.thermoSize (P2.thermoPer start n T) start (msg.drop off) with
        | .error _ => .error .IndexError
        | .ok (ps, _) =>
          .ok (.list (paramsV ps), withOff c ks vs (off + runLen P2.thermoSize (P2.thermoPer start n T) start)) := by
  unfold PyCode.ThermostatParametersStructure_thermostat_parameter
  simp only [add_nat, ok_bind, floordiv_nat _ _ hT, range_nat, forLoop_list]
  rw [run_fold P2.thermoSize msg c ks vs]
  · unfold P2.thermoPer
    cases P2.decodeRun P2.thermoSize ((start + n) / T - start) start (msg.drop off) with
    | error e => rfl
    | ok v => obtain ⟨ps, r⟩ := v; simp
  · intro idx off acc
    have hd := desc_at idx
    simp only [descs_eq, index_tuple_nat]
    cases hx : descs[idx]? with
    | none =>
      cases hs : P2.thermoSize idx with
      | none => rfl
      | some sz => simp [hx, hs] at hd
    | some d =>
      cases hs : P2.thermoSize idx with
      | none => simp [hx, hs] at hd
      | some sz =>
        simp only [hx, hs] at hd
        simp only [ok_bind, getattr_withOff, hd, unpack_eq, truthy_slotV, pure_eq_ok, PyCode.c_THERMOSTAT_PARAMETER_SIZE,
          mul_int, cast_3_mul, add_nat, setattr_withOff]
        cases P2.unpackParam sz (msg.drop off) <;> simp [yieldSlot, slotV]

theorem thermo_parameters_eq (c : String) (ks : List String) (vs : List V) (msg : List UInt8) (off T start n : Nat)
    (hT : T ≠ 0) :
    PyCode.ThermostatParametersStructure_thermostat_parameters (withOff c ks vs off) (.bytes msg) (.int (T : Int))
        (.int (start : Int)) (.int (n : Int))
      = match P2.decodeBlocks P2.thermoSize start (P2.thermoPer start n T) T 0 (msg.drop off) with
        | .error _ => .error .IndexError
        | .ok (bs, _) =>
          .ok (.list (blocksV bs), withOff c ks vs (off + T * runLen P2.thermoSize (P2.thermoPer start n T) start)) := by
  unfold PyCode.ThermostatParametersStructure_thermostat_parameters
  simp only [ok_bind, range_zero, forLoop_list]
  rw [blocks_fold P2.thermoSize msg c ks vs start (P2.thermoPer start n T)]
  · cases P2.decodeBlocks P2.thermoSize start (P2.thermoPer start n T) T 0 (msg.drop off) with
    | error e => rfl
    | ok v => obtain ⟨bs, r⟩ := v; simp
  · intro t off acc
    simp only [thermo_parameter_eq _ _ _ _ _ _ _ _ hT]
    cases P2.decodeRun P2.thermoSize (P2.thermoPer start n T) start (msg.drop off) with
    | error e => rfl
    | ok v =>
      obtain ⟨ps, r⟩ := v
      by_cases hp : ps.isEmpty <;> simp [yieldBlock, hp, paramsV_isEmpty]

/-- the exception class of a model error -/
def errV : P2.Err → PyErr
  | .index => .IndexError
  | .unbound => .UnboundLocalError
  | .struct => .StructError
  | .value => .ValueError

/-- what `self.frame.handler` is for the model's `thermostats` argument: no owning device, or a device whose
data hold `thermostats_available = T` (absent: the default 0) -/
def handlerIs (h : V) : Option Nat → Prop
  | none => h = .none
  | some T => ∃ dk dv, h = .dict dk dv ∧ (lookup dk dv "thermostats_available").getD (.int 0) = .int (T : Int)

/-- `ThermostatParametersStructure.decode(message, offset, data)` on any instance whose `frame.handler` is
`None` or a device: the model's `decodeThermo` on `message[offset:]`, error classes included
(`UnboundLocalError` without an owning device, `IndexError` where the description table ends) -/
theorem thermo_decode_eq (c : String) (ks : List String) (vs : List V) (fc : String) (fks : List String) (fvs : List V)
    (h : V) (thermostats : Option Nat) (msg : List UInt8) (off : Nat) (data : V) (hd : dataOk data)
    (hf : lookup ks vs "frame" = some (.obj fc fks fvs)) (hh : lookup fks fvs "handler" = some h)
    (hH : handlerIs h thermostats) :
    PyCode.ThermostatParametersStructure_decode (.obj c ks vs) (.bytes msg) (.int (off : Int)) data
      = match P2.decodeThermo thermostats (msg.drop off) with
        | .error e => .error (errV e)
        | .ok (.unavailable, _) =>
          .ok (.tuple [merge1 data ["thermostat_parameters"] [.none], .int (off : Int)], .obj c ks vs)
        | .ok (.val profile bs, _) =>
          let s := (msg.getD (off + 1) 0).toNat
          let n := (msg.getD (off + 2) 0).toNat
          let o := off + 6 + thermostats.getD 0 * runLen P2.thermoSize (P2.thermoPer s n (thermostats.getD 0)) s
          (Py.dict_ (.list (blocksV bs))).map fun d =>
            (.tuple [merge1 data ["thermostat_profile", "thermostat_parameters"] [slotV profile, d], .int (o : Int)],
             withOff c ks vs o) := by
  unfold PyCode.ThermostatParametersStructure_decode
  have g1 : Py.getattr (.obj c ks vs) "frame" = .ok (.obj fc fks fvs) := by simp [Py.getattr, hf]
  have g2 : Py.getattr (.obj fc fks fvs) "handler" = .ok h := by simp [Py.getattr, hh]
  simp only [g1, g2, ok_bind]
  cases thermostats with
  | none =>
    simp only [handlerIs] at hH
    subst hH
    simp only [Py.isNotNone, Py.truthy, pure_eq_ok, ok_bind, Bool.false_eq_true, if_false,
      add_int, cast_add_one, cast_add_2, cast_add_3, index_bytes_nat, getElem?_off, unpack_eq1, setattr_obj,
      PyCode.c_THERMOSTAT_PARAMETER_SIZE, Py.unboundLocal]
    generalize hm : msg.drop off = d
    match d with
    | [] => simp [P2.decodeThermo, errV]
    | [_] => simp [P2.decodeThermo, errV]
    | [_, _] => simp [P2.decodeThermo, errV]
    | b0 :: s :: cnt :: r => simp [P2.decodeThermo, errV]
  | some T =>
    obtain ⟨dk, dv, rfl, hT⟩ := hH
    have g3 : Py.device_get_nowait (.dict dk dv) PyCode.c_ATTR_THERMOSTATS_AVAILABLE (.int 0) = .ok (.int (T : Int)) := by
      simp [Py.device_get_nowait, PyCode.c_ATTR_THERMOSTATS_AVAILABLE, hT]
    simp only [Py.isNotNone, Py.truthy, pure_eq_ok, ok_bind, if_true, g3]
    cases T with
    | zero =>
      simp [Py.eq, Py.eqB, asInt?, Py.truthy, P2.decodeThermo, ensure_dict_eq _ hd]
    | succ T' =>
      have hne : T' + 1 ≠ 0 := by omega
      have e0 : Py.eq (.int ((T' + 1 : Nat) : Int)) (.int 0) = .ok (.bool false) := by
        simp [Py.eq, Py.eqB, asInt?]; omega
      simp only [e0, ok_bind, Py.truthy, pure_eq_ok, Bool.false_eq_true, if_false,
        add_int, cast_add_one, cast_add_2, cast_add_3, index_bytes_nat, getElem?_off, getD_off, unpack_eq1, setattr_obj,
        PyCode.c_THERMOSTAT_PARAMETER_SIZE]
      generalize hm : msg.drop off = d
      match d with
      | [] => simp [P2.decodeThermo, errV]
      | [_] => simp [P2.decodeThermo, errV]
      | [_, _] => simp [P2.decodeThermo, errV]
      | b0 :: s :: cnt :: r =>
        simp only [List.getElem?_cons_succ, List.getElem?_cons_zero, ok_bind, byteV_nat,
          thermo_parameters_eq _ _ _ _ _ _ _ _ hne, drop6, drop3, hm, List.drop_succ_cons, List.drop_zero, P2.decodeThermo,
          Option.getD_some]
        simp only [List.drop_zero]
        cases hb : P2.decodeBlocks P2.thermoSize s.toNat (P2.thermoPer s.toNat cnt.toNat (T' + 1)) (T' + 1) 0 (List.drop 3 r) with
        | error e => have := decodeBlocks_err _ _ _ _ _ _ _ hb; subst this; simp [errV]
        | ok v =>
          obtain ⟨bs, r'⟩ := v
          simp only [ok_bind]
          cases Py.dict_ (.list (blocksV bs)) with
          | error e => rfl
          | ok dd => simp [ensure_dict_eq _ hd, Except.map, Nat.add_assoc]

/-! ### `dict(…)` of the decoded blocks: the keys the model produces are strictly increasing, so the dict lists them
in order, one entry each -/

/-- strictly increasing keys, all at least `t` -/
def keysOk : Nat → P2.Blocks → Prop
  | _, [] => True
  | t, b :: bs => t ≤ b.1 ∧ keysOk (b.1 + 1) bs

theorem keysOk_mono (t t' : Nat) (h : t' ≤ t) (bs : P2.Blocks) (hk : keysOk t bs) : keysOk t' bs := by
  cases bs with
  | nil => trivial
  | cons b bs => exact ⟨by have := hk.1; omega, hk.2⟩

theorem decodeBlocks_keys (sizeOf : Nat → Option Nat) (start n k t : Nat) (r : List UInt8) (bs : P2.Blocks) (r' : List UInt8)
    (h : P2.decodeBlocks sizeOf start n k t r = .ok (bs, r')) : keysOk t bs := by
  induction k generalizing t r bs r' with
  | zero => simp [P2.decodeBlocks] at h; rw [h.1]; trivial
  | succ k ih =>
    unfold P2.decodeBlocks at h
    cases hr : P2.decodeRun sizeOf n start r with
    | error e => simp [hr] at h
    | ok v =>
      obtain ⟨ps1, r1⟩ := v
      simp only [hr] at h
      cases hb : P2.decodeBlocks sizeOf start n k (t + 1) r1 with
      | error e => simp [hb] at h
      | ok w =>
        obtain ⟨bs2, r2⟩ := w
        simp only [hb, Except.ok.injEq, Prod.mk.injEq] at h
        have h2 := ih (t + 1) r1 bs2 r2 hb
        rw [← h.1]
        by_cases hp : ps1.isEmpty
        · simp only [hp, if_true]; exact keysOk_mono _ _ (by omega) _ h2
        · simp only [hp]; exact ⟨Nat.le_refl _, h2⟩

theorem mapSet_fresh (ks vs : List V) (k : Nat) (v : V) (hlen : ks.length = vs.length)
    (hk : ∀ x ∈ ks, ∃ j : Nat, x = .int (j : Int) ∧ j < k) :
    Py.mapSet ks vs (.int (k : Int)) v = .ok (ks ++ [.int (k : Int)], vs ++ [v]) := by
  induction ks generalizing vs with
  | nil => cases vs <;> simp_all [Py.mapSet]
  | cons x ks ih =>
    cases vs with
    | nil => simp at hlen
    | cons y vs =>
      obtain ⟨j, rfl, hj⟩ := hk x (by simp)
      have hne : ((j : Int) == (k : Int)) = false := by simp; omega
      have := ih vs (by simpa using hlen) (fun x hx => hk x (by simp [hx]))
      simp [Py.mapSet, Py.eqB, asInt?, hne, this]

theorem fold_blocks (bs : P2.Blocks) (t : Nat) (h : keysOk t bs) (ks vs : List V) (hlen : ks.length = vs.length)
    (hk : ∀ x ∈ ks, ∃ j : Nat, x = .int (j : Int) ∧ j < t) :
    (blocksV bs).foldlM Py.dictStep (ks, vs)
      = .ok (ks ++ bs.map (fun b => V.int (b.1 : Int)), vs ++ bs.map (fun b => V.list (paramsV b.2))) := by
  induction bs generalizing t ks vs with
  | nil => simp [blocksV]
  | cons b bs ih =>
    obtain ⟨h1, h2⟩ := h
    have hk' : ∀ x ∈ ks, ∃ j : Nat, x = .int (j : Int) ∧ j < b.1 := by
      intro x hx; obtain ⟨j, e, hj⟩ := hk x hx; exact ⟨j, e, by omega⟩
    simp only [blocksV, List.map_cons, List.foldlM_cons, Py.dictStep, mapSet_fresh ks vs b.1 _ hlen hk', ok_bind]
    have := ih (b.1 + 1) h2 (ks ++ [.int (b.1 : Int)]) (vs ++ [.list (paramsV b.2)]) (by simp [hlen])
      (by
        intro x hx
        rcases List.mem_append.mp hx with hx | hx
        · obtain ⟨j, e, hj⟩ := hk' x hx; exact ⟨j, e, by omega⟩
        · simp at hx; exact ⟨b.1, hx, by omega⟩)
    simpa [blocksV] using this

/-- the dict `dict(self._mixer_parameters(…))` / `dict(self._thermostat_parameters(…))` builds -/
def blocksDictV : P2.Blocks → V
  | [] => .dict [] []
  | b :: bs => .map ((b :: bs).map fun b => V.int (b.1 : Int)) ((b :: bs).map fun b => V.list (paramsV b.2))

theorem dict_blocks (bs : P2.Blocks) (t : Nat) (h : keysOk t bs) :
    Py.dict_ (.list (blocksV bs)) = .ok (blocksDictV bs) := by
  have hf := fold_blocks bs t h [] [] rfl (by simp)
  unfold Py.dict_
  simp only [Py.iter, pure_eq_ok, ok_bind, hf, List.nil_append]
  cases bs with
  | nil => rfl
  | cons b bs => rfl

/-- the `Py.dict_ …` left in `mixer_decode_eq` always succeeds, with the blocks in order -/
theorem mixer_dict (m : List UInt8) (bs : P2.Blocks) (r : List UInt8) (h : P2.decodeMixer m = .ok (bs, r)) :
    Py.dict_ (.list (blocksV bs)) = .ok (blocksDictV bs) := by
  match m, h with
  | _ :: s :: c :: k :: r0, h => exact dict_blocks bs 0 (decodeBlocks_keys _ _ _ _ _ _ _ _ h)

/-- the `Py.dict_ …` left in `thermo_decode_eq` always succeeds, with the blocks in order -/
theorem thermo_dict (th : Option Nat) (m : List UInt8) (p : Option P2.Triple) (bs : P2.Blocks) (r : List UInt8)
    (h : P2.decodeThermo th m = .ok (.val p bs, r)) :
    Py.dict_ (.list (blocksV bs)) = .ok (blocksDictV bs) := by
  unfold P2.decodeThermo at h
  split at h
  · simp at h
  · split at h
    · split at h
      · simp at h
      · rename_i T
        split at h
        · simp at h
        · rename_i bs' r' hb
          simp only [Except.ok.injEq, Prod.mk.injEq, P2.ThermoVal.val.injEq] at h
          rw [← h.1.2]
          exact dict_blocks bs' 0 (decodeBlocks_keys _ _ _ _ _ _ _ _ hb)
    · simp at h

/-! ### the two decode theorems with a closed right-hand side -/

/-- `mixer_decode_eq` with `dict(…)` evaluated: a decodable message ALWAYS gives `.ok`, the blocks keyed by mixer index in order -/
theorem mixer_decode_closed (c : String) (ks : List String) (vs : List V) (msg : List UInt8) (off : Nat) (data : V)
    (hd : dataOk data) :
    PyCode.MixerParametersStructure_decode (.obj c ks vs) (.bytes msg) (.int (off : Int)) data
      = match P2.decodeMixer (msg.drop off) with
        | .error _ => .error .IndexError
        | .ok (bs, _) =>
          let o := off + 4 + (msg.getD (off + 3) 0).toNat * (3 * (msg.getD (off + 2) 0).toNat)
          .ok (.tuple [merge1 data ["mixer_parameters"] [blocksDictV bs], .int (o : Int)], withOff c ks vs o) := by
  rw [mixer_decode_eq c ks vs msg off data hd]
  cases h : P2.decodeMixer (msg.drop off) with
  | error e => rfl
  | ok v =>
    obtain ⟨bs, r⟩ := v
    simp [mixer_dict _ _ _ h, Except.map]

/-- `thermo_decode_eq` with `dict(…)` evaluated -/
theorem thermo_decode_closed (c : String) (ks : List String) (vs : List V) (fc : String) (fks : List String) (fvs : List V)
    (h : V) (thermostats : Option Nat) (msg : List UInt8) (off : Nat) (data : V) (hd : dataOk data)
    (hf : lookup ks vs "frame" = some (.obj fc fks fvs)) (hh : lookup fks fvs "handler" = some h)
    (hH : handlerIs h thermostats) :
    PyCode.ThermostatParametersStructure_decode (.obj c ks vs) (.bytes msg) (.int (off : Int)) data
      = match P2.decodeThermo thermostats (msg.drop off) with
        | .error e => .error (errV e)
        | .ok (.unavailable, _) =>
          .ok (.tuple [merge1 data ["thermostat_parameters"] [.none], .int (off : Int)], .obj c ks vs)
        | .ok (.val profile bs, _) =>
          let s := (msg.getD (off + 1) 0).toNat
          let n := (msg.getD (off + 2) 0).toNat
          let o := off + 6 + thermostats.getD 0 * runLen P2.thermoSize (P2.thermoPer s n (thermostats.getD 0)) s
          .ok (.tuple [merge1 data ["thermostat_profile", "thermostat_parameters"] [slotV profile, blocksDictV bs], .int (o : Int)],
               withOff c ks vs o) := by
  rw [thermo_decode_eq c ks vs fc fks fvs h thermostats msg off data hd hf hh hH]
  cases hD : P2.decodeThermo thermostats (msg.drop off) with
  | error e => rfl
  | ok v =>
    obtain ⟨tv, r⟩ := v
    cases tv with
    | unavailable => rfl
    | val profile bs => simp [thermo_dict _ _ _ _ _ hD, Except.map]

/-! ### non-vacuity -/

/-- two slots from index 5, the second one a hole -/
example : (PyCode.EcomaxParametersStructure_decode (Py.mkobj "self" []) (.bytes [0, 5, 2, 1, 2, 3, 255, 255, 255, 9]) (.int 0) .none).map (·.1)
    = .ok (.tuple [.dict ["ecomax_parameters"] [.list [.tuple [.int 5, tripleV (1, 2, 3)]]], .int 9]) := rfl
/-- the header cut short -/
example : (PyCode.EcomaxParametersStructure_decode (Py.mkobj "self" []) (.bytes [0, 5]) (.int 0) .none).map (·.1)
    = .error .IndexError := rfl
/-- two mixers with one slot each, the first mixer all holes: only mixer 1 is listed; `data` is extended -/
example : (PyCode.MixerParametersStructure_decode (Py.mkobj "self" []) (.bytes [7, 0, 0, 1, 2, 255, 255, 255, 4, 5, 6]) (.int 1)
      (.dict ["x"] [.int 1])).map (·.1)
    = .ok (.tuple [.dict ["x", "mixer_parameters"] [.int 1, .map [.int 1] [.list [.tuple [.int 0, tripleV (4, 5, 6)]]]], .int 11]) := rfl
/-- no owning device -/
example : (PyCode.ThermostatParametersStructure_decode (Py.mkobj "self" [("frame", Py.mkobj "F" [("handler", .none)])])
      (.bytes [0, 0, 2, 1, 2, 3, 4, 5, 6]) (.int 0) .none).map (·.1) = .error .UnboundLocalError := rfl
/-- a device without thermostats -/
example : (PyCode.ThermostatParametersStructure_decode (Py.mkobj "self" [("frame", Py.mkobj "F" [("handler", .dict [] [])])])
      (.bytes [0, 0, 2, 1, 2, 3]) (.int 0) .none).map (·.1)
    = .ok (.tuple [.dict ["thermostat_parameters"] [.none], .int 0]) := rfl
/-- one thermostat, indexes 0 and 1 (widths 1 and 2) after the profile triple -/
example : (PyCode.ThermostatParametersStructure_decode
      (Py.mkobj "self" [("frame", Py.mkobj "F" [("handler", .dict ["thermostats_available"] [.int 1])])])
      (.bytes [0, 0, 2, 1, 0, 5, 7, 0, 9, 1, 1, 2, 0, 3, 1]) (.int 0) .none).map (·.1)
    = .ok (.tuple [.dict ["thermostat_profile", "thermostat_parameters"]
        [tripleV (1, 0, 5), .map [.int 0] [.list [.tuple [.int 0, tripleV (7, 0, 9)], .tuple [.int 1, tripleV (257, 2, 259)]]]],
        .int 15]) := rfl

/-- the description table ends (15 entries): start index 14, two parameters asked for — `THERMOSTAT_PARAMETERS[15]` is an IndexError -/
example : (PyCode.ThermostatParametersStructure_decode
      (Py.mkobj "self" [("frame", Py.mkobj "F" [("handler", .dict ["thermostats_available"] [.int 1])])])
      (.bytes [0, 14, 2, 1, 0, 5, 7, 0, 9, 1, 1, 2, 0, 3, 1]) (.int 0) .none).map (·.1) = .error .IndexError := rfl

end PlumVerif.TieStructParams

import PlumVerif.Spec.C10
import PlumVerif.Proofs.Entry
import PlumVerif.Proofs.EntryRank
/-
C10 — one device object per controller address, for every arrival timing.
Property theorems only; the machine is Model/Entry.lean, the invariant Proofs/Entry.lean.

Routes (`same_object_over_all_routes`, `sees_the_entry`): the routes `data` / `get_nowait` / attribute are identical BY
DEFINITION of `Entry.sees` (one dict in the code; correspondence carries them); `subscribed` and `returned j` are the
theorem content.  See the docstring of `same_object_over_all_routes`.

All theorems about the locked machine (`step true`) hold for EVERY description `who` of the
callers (frame consumer or user get(), for whichever address), EVERY number of callers and
addresses, EVERY set `cr` of addresses that have a device class, and EVERY interleaving
`sched : List Nat` (which caller moves next; the completion — or failure — of the thread-pool
class loading is the move of the caller that is in `creating`, so "every arrival timing
relative to the class loading" is part of the quantifier).
-/
namespace PlumVerif.C10
open PlumVerif PlumVerif.Entry

/-- **C10 (per address)**: under every interleaving, for every address `a`
 * at most one device object is created for it and its set-up is started exactly as often;
 * once it has an entry `d`: it was created once, has a device class, and `d` belongs to no
   other address; every announcement for `a` announced `d`, and `a` is announced at most once;
 * every caller for `a` that has returned — a consumer (`done`) or a user `get()` (`got`) —
   holds the entry of `a`; every handled frame was handled by the entry of its own address, each
   frame at most once, and a consumer has returned iff its frame is in the handled log;
 * a frame is dropped (`failed`) only if its address has no device class, and such an address
   never gets an object or an entry. -/
theorem per_address_single_device (who : Nat → Caller) (cr : Nat → Bool) (sched : List Nat) :
    let s := run true who cr init sched
    (∀ a, s.createdFor a ≤ 1 ∧ s.setupsFor a = s.createdFor a) ∧
    (∀ a d, s.published a = some d → s.createdFor a = 1 ∧ cr a = true ∧ (a, d) ∈ s.dispatched ∧
        ∀ b, s.published b = some d → b = a) ∧
    (∀ p ∈ s.dispatched, s.published p.1 = some p.2) ∧ (s.dispatched.map (·.1)).Nodup ∧
    (∀ j d, s.pc j = .done d ∨ s.pc j = .got d → s.published (who j).addr = some d) ∧
    (∀ f d, (f, d) ∈ s.handled → s.pc f = .done d ∧ (who f).kind = .entry ∧ s.published (who f).addr = some d) ∧
    (s.handled.map (·.1)).Nodup ∧ (∀ j d, s.pc j = .done d → (j, d) ∈ s.handled) ∧
    (∀ j, s.pc j = .failed → cr (who j).addr = false) ∧
    (∀ a, cr a = false → s.published a = none ∧ s.createdFor a = 0) := by
  have h := inv_run who cr init sched (inv_init who cr)
  generalize run true who cr init sched = s at h
  have le1 : ∀ a, s.createdFor a ≤ 1 := by
    intro a
    cases hp : s.published a with
    | some d => rw [(h.ids a d hp).2.1]; exact Nat.le_refl 1
    | none =>
      by_cases hx : ∃ k d, s.pc k = .publishing d ∧ (who k).addr = a
      · obtain ⟨k, d, hk, ha⟩ := hx
        rw [← ha, (h.pubId k d hk).2.1]; exact Nat.le_refl 1
      · rw [h.zero a hp (fun k d hk ha => hx ⟨k, d, hk, ha⟩)]; omega
  refine ⟨fun a => ⟨le1 a, h.setups a⟩, ?_, h.dispOk, h.dispNodup, h.holds, ?_, h.handledNodup, h.doneIn,
    h.failedOk, ?_⟩
  · intro a d ha
    obtain ⟨_, h2, h3, _⟩ := h.ids a d ha
    exact ⟨h2, h3, h.pubDisp a d ha, fun b hb => h.inj b a d hb ha⟩
  · intro f d hf
    obtain ⟨h1, h2⟩ := h.handledOk (f, d) hf
    exact ⟨h1, h2, h.holds f d (.inl h1)⟩
  · intro a ha
    have hn : s.published a = none := by
      cases hp : s.published a with
      | none => rfl
      | some d => have := (h.ids a d hp).2.2.1; rw [ha] at this; cases this
    refine ⟨hn, h.zero a hn (fun k d hk hka => ?_)⟩
    have := (h.pubId k d hk).2.2
    rw [hka, ha] at this; cases this

/-- the single-address reading of the statement: all callers for one address — consumers and
user get()s — hold one and the same object, of which there is at most one -/
theorem single_device (who : Nat → Caller) (cr : Nat → Bool) (sched : List Nat) (j k d e : Nat)
    (hj : (run true who cr init sched).pc j = .done d ∨ (run true who cr init sched).pc j = .got d)
    (hk : (run true who cr init sched).pc k = .done e ∨ (run true who cr init sched).pc k = .got e)
    (ha : (who j).addr = (who k).addr) :
    d = e ∧ (run true who cr init sched).createdFor (who j).addr = 1 ∧
      (run true who cr init sched).setupsFor (who j).addr = 1 := by
  obtain ⟨h1, h2, _, _, h5, _⟩ := per_address_single_device who cr sched
  have pj := h5 j d hj
  have pk := h5 k e hk
  rw [← ha, pj] at pk
  cases pk
  exact ⟨rfl, (h2 _ d pj).1, by rw [(h1 _).2, (h2 _ d pj).1]⟩

/-- **the two addresses do not interfere**: callers for different addresses never end up with
the same object, whatever the interleaving of their creations under the shared lock -/
theorem addresses_do_not_interfere (who : Nat → Caller) (cr : Nat → Bool) (sched : List Nat) (j k d e : Nat)
    (hj : (run true who cr init sched).pc j = .done d ∨ (run true who cr init sched).pc j = .got d)
    (hk : (run true who cr init sched).pc k = .done e ∨ (run true who cr init sched).pc k = .got e)
    (ha : (who j).addr ≠ (who k).addr) : d ≠ e := by
  obtain ⟨_, h2, _, _, h5, _⟩ := per_address_single_device who cr sched
  intro hde
  subst hde
  exact ha ((h2 _ d (h5 k d hk)).2.2.2 _ (h5 j d hj))

/-- **single_device_across_reconnects** — READ THIS AS A MODELLING STATEMENT, not as a theorem about
reconnects: in the code a reconnect touches none of the things the entry machine depends on (lock
object, device map, callers in flight), so the machine's `.reconnect` event with the code's effect is
the identity and the theorem only records that a timeline with reconnects is the run of the same
timeline without them.  THAT the code's reconnect has this (empty) effect is established by the
correspondence (a reconnect at every position of the timeline on a real AsyncProtocol, both via a
plain callback and via `Connection._reconnect`), not here; `reconnect_effects_matter` below shows
that each field of the effect matters.  Original wording: the connection may be lost and re-established at ANY
point of the timeline — between frames, while a class loading is in flight, while consumers
wait for the lock, between creation and publication: the lock, the device map and the in-flight
loads survive it, so every conclusion of `per_address_single_device` holds for every timeline of
caller moves and reconnects (it is the same run as the timeline without the reconnects). -/
theorem single_device_across_reconnects (who : Nat → Caller) (cr : Nat → Bool) (ms : List Mv) :
    let s := runMv true false who cr init ms
    s = run true who cr init (movesOf ms) ∧
    (∀ a, s.createdFor a ≤ 1 ∧ s.setupsFor a = s.createdFor a) ∧
    (∀ a d, s.published a = some d → s.createdFor a = 1 ∧ cr a = true ∧ (a, d) ∈ s.dispatched ∧
        ∀ b, s.published b = some d → b = a) ∧
    (s.dispatched.map (·.1)).Nodup ∧
    (∀ j d, s.pc j = .done d ∨ s.pc j = .got d → s.published (who j).addr = some d) ∧
    (∀ f d, (f, d) ∈ s.handled → s.pc f = .done d ∧ s.published (who f).addr = some d) ∧
    (s.handled.map (·.1)).Nodup := by
  have e := runMv_eq_run who cr init ms
  obtain ⟨h1, h2, _, h4, h5, h6, h7, _⟩ := per_address_single_device who cr (movesOf ms)
  rw [e]
  exact ⟨rfl, h1, h2, h4, h5, fun f d hf => ⟨(h6 f d hf).1, (h6 f d hf).2.2⟩, h7⟩

/-- the invariant itself is preserved by the reconnect event at every point (and by every move) -/
theorem reconnect_preserves_invariant (who : Nat → Caller) (cr : Nat → Bool) (ms : List Mv) :
    Inv who cr (runMv true false who cr init ms) ∧
      Inv who cr (stepMv true false who cr (runMv true false who cr init ms) .reconnect) :=
  ⟨inv_runMv who cr init ms (inv_init who cr), inv_stepMv who cr _ .reconnect (inv_runMv who cr init ms (inv_init who cr))⟩

/-- the model can tell the difference: if every connection started with a FRESH lock (`reset`),
a reconnect while the first class loading is in flight lets the next frame start a second one —
two objects for one address, the second replaces the first, two set-ups, frames split. -/
theorem fresh_lock_counterexample :
    let s := runMv true true (fun _ => ⟨.entry, 69⟩) (fun _ => true) init
      [.move 0, .reconnect, .move 1, .move 0, .move 0, .move 1, .move 1]
    s.createdFor 69 = 2 ∧ s.setupsFor 69 = 2 ∧ s.pc 0 = .done 0 ∧ s.pc 1 = .done 1 ∧
      s.published 69 = some 1 ∧ s.dispatched = [(69, 1), (69, 0)] := by decide

/-- … and the same timeline on the machine as it is: the second frame waits, one object -/
example :
    let s := runMv true false (fun _ => ⟨.entry, 69⟩) (fun _ => true) init
      [.move 0, .reconnect, .move 1, .move 0, .move 0, .move 1, .move 1]
    s.createdFor 69 = 1 ∧ s.pc 0 = .done 0 ∧ s.pc 1 = .done 0 ∧ s.dispatched = [(69, 0)] := by decide

/-- the code's reconnect effect is the identity on the machine's state (by definition of the effect
record; that the CODE has this effect is the correspondence's business) -/
theorem code_reconnect_effect (s : St) : reconEffect ⟨false, false⟩ s = s := rfl

/-- **reconnect_effects_matter**: the single-device property depends on BOTH things a reconnect
leaves alone.  A fresh lock per connection, or a device map emptied on loss, each admit a timeline
with two objects and two set-ups for one address — so the clause "across reconnects" has content
exactly in what the correspondence checks (that neither happens). -/
theorem reconnect_effects_matter :
    (let s := runMvWith ⟨true, false⟩ (fun _ => ⟨.entry, 69⟩) (fun _ => true) init
        [.move 0, .reconnect, .move 1, .move 0, .move 0, .move 1, .move 1]
     s.createdFor 69 = 2 ∧ s.setupsFor 69 = 2) ∧
    (let s := runMvWith ⟨false, true⟩ (fun _ => ⟨.entry, 69⟩) (fun _ => true) init
        [.move 0, .move 0, .move 0, .reconnect, .move 1, .move 1, .move 1]
     s.createdFor 69 = 2 ∧ s.setupsFor 69 = 2 ∧ s.pc 0 = .done 0 ∧ s.pc 1 = .done 1) ∧
    (let s := runMvWith ⟨false, false⟩ (fun _ => ⟨.entry, 69⟩) (fun _ => true) init
        [.move 0, .move 0, .move 0, .reconnect, .move 1, .move 1, .move 1]
     s.createdFor 69 = 1 ∧ s.pc 0 = .done 0 ∧ s.pc 1 = .done 0) := by decide

/-- an entry, once there, is never replaced: "at every time" -/
theorem entry_is_stable (who : Nat → Caller) (cr : Nat → Bool) (sched more : List Nat) (a d : Nat)
    (h : (run true who cr init sched).published a = some d) :
    (run true who cr init (sched ++ more)).published a = some d := by
  rw [run_append]
  exact run_published_mono who cr _ more (inv_run who cr init sched (inv_init who cr)) a d h

/-- "receives the same object at every time": whatever two callers for the same address
obtained, at whatever two moments of a run (the second `more` steps after the first), they hold
the same object — the entry of the address at both moments. -/
theorem same_object_at_every_time (who : Nat → Caller) (cr : Nat → Bool) (sched more : List Nat) (j k d e : Nat)
    (hj : (run true who cr init sched).pc j = .done d ∨ (run true who cr init sched).pc j = .got d)
    (hk : (run true who cr init (sched ++ more)).pc k = .done e ∨ (run true who cr init (sched ++ more)).pc k = .got e)
    (ha : (who j).addr = (who k).addr) :
    d = e ∧ (run true who cr init sched).published (who j).addr = some d ∧
      (run true who cr init (sched ++ more)).published (who j).addr = some d := by
  have pj := (per_address_single_device who cr sched).2.2.2.2.1 j d hj
  have pk := (per_address_single_device who cr (sched ++ more)).2.2.2.2.1 k e hk
  have pj' := entry_is_stable who cr sched more _ d pj
  rw [← ha, pj'] at pk
  cases pk
  exact ⟨rfl, pj, pj'⟩

/-- whatever a client sees through ANY public route is the entry of the address at that moment -/
theorem sees_the_entry (who : Nat → Caller) (cr : Nat → Bool) (sched : List Nat) (a d : Nat) (ρ : Route)
    (h : sees who (run true who cr init sched) a ρ d = true) : (run true who cr init sched).published a = some d := by
  have inv := per_address_single_device who cr sched
  cases ρ with
  | data => simpa [sees] using h
  | getNowait => simpa [sees] using h
  | attr => simpa [sees] using h
  | subscribed =>
    have hm : (a, d) ∈ (run true who cr init sched).dispatched := by simpa [sees] using h
    exact inv.2.2.1 (a, d) hm
  | returned j =>
    simp only [sees, Bool.and_eq_true, beq_iff_eq, Bool.or_eq_true] at h
    obtain ⟨ha, hp⟩ := h
    rw [← ha]
    exact inv.2.2.2.2.1 j d hp

/-- **same_object_over_all_routes** — "every caller receives the same object at every time", over EVERY public way to
obtain the device: `protocol.data[name]`, `get_nowait`, attribute access, a subscribed callback, the return value of
`get()` / `wait_for()` + read, and the object a frame consumer hands its frame to.  Whatever is seen for address `a`
through route `ρ` at one moment and through route `σ` at the same or any later moment (`more` further steps of any
schedule) is one and the same object: the entry of `a` at both moments.

What the theorem contributes per route (round-8 audit, item 12): `Entry.sees` DEFINES the three read routes `data`,
`getNowait`, `attr` identically as `s.published a == some d` (in the code all three read the one dict `protocol.data`
through `EventManager`: `data[name]`, `get_nowait` = `self.data[name]`, `__getattr__` = `self.data[name]`).  For these
three the statement adds nothing to `entry_is_stable`; that the three accessors of the code read the same dict is
carried by the CORRESPONDENCE (harness reads all three after every event) and by C13's `getNowait := s.data`.  The
theorem CONTENT is in the other two routes: `subscribed` (every announcement `dispatch`ed for `a` announced the entry:
`dispOk`) and `returned j` (every caller that has returned — consumer or `get()` — holds the entry: `holds`), and in
relating each of them to the reads at the same and at every later moment. -/
theorem same_object_over_all_routes (who : Nat → Caller) (cr : Nat → Bool) (sched more : List Nat) (a d e : Nat) (ρ σ : Route)
    (h1 : sees who (run true who cr init sched) a ρ d = true)
    (h2 : sees who (run true who cr init (sched ++ more)) a σ e = true) :
    d = e ∧ (run true who cr init sched).published a = some d ∧
      (run true who cr init (sched ++ more)).published a = some d := by
  have p1 := sees_the_entry who cr sched a d ρ h1
  have p2 := sees_the_entry who cr (sched ++ more) a e σ h2
  have p1' := entry_is_stable who cr sched more a d p1
  rw [p1'] at p2
  cases p2
  exact ⟨rfl, p1, p1'⟩

/-- non-vacuity: two frames and a get() for one address; after the first consumer published object 0 a subscribed
callback, `protocol.data`, and — three steps later — the second consumer and the get() caller all see object 0 -/
example :
    let who : Nat → Caller := fun j => if j = 2 then ⟨.get, 69⟩ else ⟨.entry, 69⟩
    sees who (run true who (fun _ => true) init [0, 1, 0, 0]) 69 .subscribed 0 = true ∧
    sees who (run true who (fun _ => true) init [0, 1, 0, 0]) 69 .data 0 = true ∧
    sees who (run true who (fun _ => true) init ([0, 1, 0, 0] ++ [1, 2, 2])) 69 (.returned 1) 0 = true ∧
    sees who (run true who (fun _ => true) init ([0, 1, 0, 0] ++ [1, 2, 2])) 69 (.returned 2) 0 = true := by decide

/-- … and the unlocked machine shows two different objects through two routes (the model tells the difference) -/
example :
    let who : Nat → Caller := fun _ => ⟨.entry, 69⟩
    sees who (run false who (fun _ => true) init [0, 1, 0, 1, 0, 1]) 69 (.returned 0) 0 = true ∧
    sees who (run false who (fun _ => true) init [0, 1, 0, 1, 0, 1]) 69 .data 1 = true := by decide

/-- "that object receives every frame": in every reachable state every frame consumer can
still finish within five moves (at most two to run a foreign holder out of the lock, then
acquire, class loading, publish) — and then its frame has been handled by the entry of its
address, or, iff its address has no device class, dropped.  Nothing a schedule does can leave a
frame stuck or route it to another object. -/
theorem always_handleable (who : Nat → Caller) (cr : Nat → Bool) (sched : List Nat) (j : Nat)
    (hk : (who j).kind = .entry) :
    ∃ more : List Nat, more.length ≤ 5 ∧
      ((∃ d, (run true who cr init (sched ++ more)).pc j = .done d ∧
            (run true who cr init (sched ++ more)).published (who j).addr = some d ∧
            (j, d) ∈ (run true who cr init (sched ++ more)).handled) ∨
       ((run true who cr init (sched ++ more)).pc j = .failed ∧ cr (who j).addr = false)) := by
  have h0 := inv_run who cr init sched (inv_init who cr)
  obtain ⟨m1, l1, hl1, _⟩ := free_lock who cr _ h0 j
  have h1 := inv_run who cr _ m1 h0
  obtain ⟨m2, l2, hfin⟩ := finish_own who cr _ h1 j hk hl1
  refine ⟨m1 ++ m2, by simp; omega, ?_⟩
  have hinv := inv_run who cr init (sched ++ (m1 ++ m2)) (inv_init who cr)
  have e : run true who cr init (sched ++ (m1 ++ m2)) = run true who cr (run true who cr (run true who cr init sched) m1) m2 := by
    rw [run_append, run_append]
  rw [e] at hinv ⊢
  rcases hfin with ⟨d, hd⟩ | hf
  · exact .inl ⟨d, hd, hinv.holds j d (.inl hd), hinv.doneIn j d hd⟩
  · exact .inr ⟨hf, hinv.failedOk j hf⟩

/-! ### inevitability

`always_handleable` is a possibility statement (some continuation of ≤ 5 moves handles the frame).
Inevitability form, for the callers 0 … N-1 (any N): `total` = sum of the moves each of them can
still make (≤ 3N).  (1) no move raises it, every REAL move (one that changes the state) of one of
them lowers it; (2) while some frame caller is neither done nor failed, somebody can really move (the
caller itself, or the holder of the lock) — no deadlock; hence (3) every schedule contains at most 3N
real moves of these callers, and in a state where none of them can move — reached by EVERY fair
schedule, since moves that are not real change nothing — every frame caller among them has been
handled by the entry of its address (or dropped: address without a device class). -/

/-- the real (state changing) moves of a schedule, counted along the run -/
def realMoves (who : Nat → Caller) (cr : Nat → Bool) : St → List Nat → Nat
  | _, [] => 0
  | s, i :: is => (if moves who cr s i then 1 else 0) + realMoves who cr (step true who cr s i) is

/-- a move that is not real changes nothing at all -/
theorem unreal_move_is_stutter (who : Nat → Caller) (cr : Nat → Bool) (s : St) (i : Nat)
    (h : moves who cr s i = false) : step true who cr s i = s := by
  by_cases he : step true who cr s i = s
  · exact he
  · have := (moves_iff who cr s i).mpr he; rw [h] at this; cases this

/-- **(1)+(3a) at most 3N real moves**: along EVERY schedule of the callers 0 … N-1, from every state,
the number of real moves plus the remaining total rank never exceeds the initial total rank ≤ 3N -/
theorem real_moves_bounded (who : Nat → Caller) (cr : Nat → Bool) (N : Nat) (s : St) (is : List Nat)
    (hN : ∀ i ∈ is, i < N) :
    realMoves who cr s is + total who (run true who cr s is) N ≤ total who s N ∧ total who s N ≤ 3 * N := by
  refine ⟨?_, total_le who s N⟩
  induction is generalizing s with
  | nil => simp [realMoves, run]
  | cons i is ih =>
    have hi : i < N := hN i (by simp)
    have ih' := ih (step true who cr s i) (fun k hk => hN k (by simp [hk]))
    have ts := total_step who cr s i N
    simp only [realMoves, run]
    cases hm : moves who cr s i with
    | false => simp only [Bool.false_eq_true, ↓reduceIte]; omega
    | true =>
      have := ts.2 hi ((moves_iff who cr s i).mp hm)
      simp only [↓reduceIte]; omega

/-- **(2)+(3b) when nobody can move, every frame is handled**: after ANY schedule of the callers
0 … N-1, if none of them can make a real move any more (which every fair schedule reaches after at
most 3N real moves, by `real_moves_bounded`), then every frame caller among them has been handled
by the published entry of its address — or dropped because its address has no device class.  There
is no state in which a frame waits and nobody can move. -/
theorem handled_when_nothing_moves (who : Nat → Caller) (cr : Nat → Bool) (N : Nat) (sched : List Nat)
    (hs : ∀ i ∈ sched, i < N)
    (hstuck : ∀ k, k < N → moves who cr (run true who cr init sched) k = false)
    (j : Nat) (hj : j < N) (hk : (who j).kind = .entry) :
    (∃ d, (run true who cr init sched).pc j = .done d ∧
          (run true who cr init sched).published (who j).addr = some d ∧
          (j, d) ∈ (run true who cr init sched).handled) ∨
    ((run true who cr init sched).pc j = .failed ∧ cr (who j).addr = false) := by
  have hinv := inv_run who cr init sched (inv_init who cr)
  by_cases hd : ∃ d, (run true who cr init sched).pc j = .done d
  · obtain ⟨d, hd⟩ := hd
    exact .inl ⟨d, hd, hinv.holds j d (.inl hd), hinv.doneIn j d hd⟩
  · by_cases hf : (run true who cr init sched).pc j = .failed
    · exact .inr ⟨hf, hinv.failedOk j hf⟩
    · exfalso
      rcases unfinished_someone_moves who cr _ hinv j hk (fun d h => hd ⟨d, h⟩) hf with h | ⟨k, hl, h⟩
      · rw [hstuck j hj] at h; cases h
      · have hkN : k < N := lock_holder_scheduled who cr (· < N) init sched (by simp [init]) hs k hl
        rw [hstuck k hkN] at h; cases h

/-- non-vacuity: three frames from one address, nobody scheduled yet: total rank 9; after a fair
schedule nobody can move and all three are done with the same object -/
example : let who : Nat → Caller := fun _ => ⟨.entry, 69⟩
    let s := run true who (fun _ => true) init [0, 1, 2, 0, 1, 0, 2, 1, 2]
    total who init 3 = 9 ∧ (List.range 3).all (fun k => !moves who (fun _ => true) s k) = true ∧
    s.pc 0 = .done 0 ∧ s.pc 1 = .done 0 ∧ s.pc 2 = .done 0 := by decide

/-- every state the driver's replay of a harness schedule passes through is a state of the
interleaving machine under the schedule it recorded — so the theorems above apply to
everything the correspondence compares with — and it is quiescent. -/
theorem replay_is_run (fa ga : List Nat) (cr : Nat → Bool) (evs : List Ev) (r : Replay)
    (h : runEvs (whoPar fa ga) cr replay0 evs = some r) :
    r.st = run true (whoPar fa ga) cr init r.sched.reverse ∧ quiet true (whoPar fa ga) cr r = true := by
  obtain ⟨a, b, _, _⟩ := runEvs_spec (whoPar fa ga) cr evs replay0 r (rinv_replay0 _ cr) (quiet_replay0 _ cr) h
  exact ⟨a.isRun, b⟩

/-- **C10.holds**: for every harness schedule that the machine accepts, the snapshot it shows
satisfies the statement's per-instant predicate `snapOk` (the same predicate the driver
evaluates on what the implementation showed) — for every prefix of the schedule, since a
prefix of an accepted schedule is an accepted schedule. -/
theorem holds (cr : Nat → Bool) (fa ga : List Nat) (evs : List Ev) (r : Replay)
    (h : runEvs (whoPar fa ga) cr replay0 evs = some r) : snapOk fa ga (observe r) = true := by
  obtain ⟨a, b, _, _⟩ := runEvs_spec (whoPar fa ga) cr evs replay0 r (rinv_replay0 _ cr) (quiet_replay0 _ cr) h
  exact quiet_snapOk fa ga cr r a b

/-- **final_ok**: a COMPLETE schedule — the machine accepted all of it (every settle reached a
fixpoint: no caller other than one waiting for the class loading can move) and no class
loading is pending at the end — ends in a snapshot that satisfies `finalOk`: every fed frame of
an address with a device class has been handled (by the entry of its address, once), frames
of other addresses are dropped, every get() for an address that has an entry has returned. -/
theorem final_ok (cr : Nat → Bool) (evs : List Ev) (r : Replay)
    (h : runEvs (whoPar (frameAddrs evs) (getAddrs evs)) cr replay0 evs = some r)
    (hheld : (observe r).held = 0) :
    finalOk (frameAddrs evs) (getAddrs evs) cr (observe r) = true := by
  obtain ⟨a, b, c, d⟩ := runEvs_spec _ cr evs replay0 r (rinv_replay0 _ cr) (quiet_replay0 _ cr) h
  exact quiet_finalOk _ _ cr r a b (by simpa [replay0] using c) (by simpa [replay0] using d) hheld

/-- **replay_snapshots_ok** (bridge to the driver): the function the DRIVER runs for the op `c10` is
`Entry.replay true cr evs` — a list of optional snapshots, one per event, `none` marking the first
event the machine does not accept.  Every snapshot it emits satisfies the statement's per-instant
predicate, and as long as the events are accepted it emits exactly the observations of `runEvs` on
the prefixes (`replay_is_runEvs`), so `holds` / `final_ok` / `replay_is_run` — stated about `runEvs` —
are statements about what the driver prints. -/
theorem replayFrom_ok (fa ga : List Nat) (cr : Nat → Bool) (evs : List Ev) (r : Replay)
    (h : RInv (whoPar fa ga) cr r) (hq : quiet true (whoPar fa ga) cr r = true) :
    ∀ snap, some snap ∈ replayFrom true (whoPar fa ga) cr r evs → snapOk fa ga snap = true := by
  induction evs generalizing r with
  | nil => intro snap hm; simp [replayFrom] at hm
  | cons e es ih =>
    intro snap hm
    simp only [replayFrom] at hm
    cases he : applyEv true (whoPar fa ga) cr r e with
    | none => rw [he] at hm; simp at hm
    | some r' =>
      rw [he] at hm
      obtain ⟨a, b, _, _⟩ := applyEv_spec (whoPar fa ga) cr r r' e h he
      simp only [List.mem_cons, Option.some.injEq] at hm
      rcases hm with rfl | hm
      · exact quiet_snapOk fa ga cr r' a b
      · exact ih r' a b snap hm

theorem replay_snapshots_ok (cr : Nat → Bool) (evs : List Ev) :
    ∀ snap, some snap ∈ replay true cr evs → snapOk (frameAddrs evs) (getAddrs evs) snap = true :=
  replayFrom_ok _ _ cr evs replay0 (rinv_replay0 _ cr) (quiet_replay0 _ cr)

/-- the driver's list, while events are accepted, is the list of `runEvs` observations of the prefixes:
if `runEvs` accepts `evs` ending in `r`, the driver's replay of `evs` ends with `some (observe r)` and
contains no `none` -/
theorem replay_is_runEvs (who : Nat → Caller) (cr : Nat → Bool) (evs : List Ev) (r0 r : Replay)
    (h : runEvs who cr r0 evs = some r) :
    none ∉ replayFrom true who cr r0 evs ∧ (evs ≠ [] → (replayFrom true who cr r0 evs).getLast? = some (some (observe r))) := by
  induction evs generalizing r0 with
  | nil => simp [replayFrom]
  | cons e es ih =>
    simp only [runEvs] at h
    cases he : applyEv true who cr r0 e with
    | none => rw [he] at h; cases h
    | some r' =>
      rw [he] at h
      obtain ⟨i1, i2⟩ := ih r' h
      simp only [replayFrom, he]
      refine ⟨by simp [i1], fun _ => ?_⟩
      cases es with
      | nil => simp only [runEvs, Option.some.injEq] at h; subst h; simp [replayFrom]
      | cons e2 es2 =>
        have := i2 (by simp)
        cases hr : replayFrom true who cr r' (e2 :: es2) with
        | nil => rw [hr] at this; simp at this
        | cons x xs => rw [hr] at this; rw [List.getLast?_cons_cons]; exact this

/-- the model can tell the difference: the SAME machine without the lock (`step false`, the
code before fix 9a3d4ee) admits a schedule with two creations for one address, two set-ups,
two consumers holding different objects and the name dispatched twice. -/
theorem unlocked_counterexample :
    ∃ sched : List Nat,
      let s := run false (fun _ => ⟨.entry, 69⟩) (fun _ => true) init sched
      s.createdFor 69 = 2 ∧ s.setupsFor 69 = 2 ∧ s.pc 0 = .done 0 ∧ s.pc 1 = .done 1 ∧
        s.dispatched = [(69, 1), (69, 0)] ∧ s.handled = [(1, 1), (0, 0)] :=
  ⟨[0, 1, 0, 1, 0, 1], by decide⟩

/-- a device class that cannot be loaded (address 86): the frame is dropped, the lock is free
again, nothing is published, and the next address is served normally -/
example :
    let who : Nat → Caller := fun j => if j = 0 then ⟨.entry, 86⟩ else ⟨.entry, 69⟩
    let s := run true who (fun a => a != 86) init [0, 1, 0, 1, 1, 1]
    s.pc 0 = .failed ∧ s.pc 1 = .done 0 ∧ s.published 86 = none ∧ s.published 69 = some 0 ∧
      s.lock = none ∧ s.createdFor 86 = 0 := by decide

/-- … and the harness-level replay shows it too: three frames fed while the class loading is
pending give three pending imports without the lock (one with it) -/
example : (replay false (fun _ => true) [.feed 69 3]).map (Option.map (·.held)) = [some 3] := by decide
example : (replay true (fun _ => true) [.feed 69 3]).map (Option.map (·.held)) = [some 1] := by decide

/-- non-vacuity of `holds` / `final_ok`: two ecoMAX frames, an ecoSTER frame and a frame from an
address without a device class, a get('ecoster') while the first class loading is pending,
three releases: the schedule is accepted, complete, and its last snapshot is this one — two
objects, one per address, the ECONET frame (index 3) dropped, the get() answered with the
ecoSTER object -/
example :
    let evs : List Ev := [.feed 69 2, .feed 81 1, .feed 86 1, .get 81, .release, .release, .release]
    (replay true (fun a => a == 69 || a == 81) evs).getLast? =
      some (some { held := 0, created := 2, setups := 2, published := [(69, 0), (81, 1)],
                   dispatched := [(69, 0), (81, 1)], handled := [(0, 0), (1, 0), (2, 1)], gets := [some 1] }) ∧
    spec (frameAddrs evs) (getAddrs evs) (fun a => a == 69 || a == 81)
      ((replay true (fun a => a == 69 || a == 81) evs).filterMap id) = true := by decide +kernel

/-- the predicate is not trivially true: the unlocked replay fails it -/
example :
    let evs : List Ev := [.feed 69 3, .release, .release, .release]
    spec (frameAddrs evs) (getAddrs evs) (fun _ => true) ((replay false (fun _ => true) evs).filterMap id) = false := by
  decide +kernel

/-- a reconnect while the class loading is pending, a frame on the new connection, then the
release: accepted, complete, one object, both frames handled by it -/
example :
    let evs : List Ev := [.feed 69 1, .reconnect, .feed 69 1, .release]
    (replay true (fun _ => true) evs).map (Option.map fun o => (o.held, o.created, o.handled)) =
      [some (1, 0, []), some (1, 0, []), some (1, 0, []), some (0, 1, [(0, 0), (1, 0)])] := by decide +kernel

/-- a get() that times out before there is an entry leaves the patient get() waiting — and
answered once the entry exists (`final_ok` covers schedules with such events) -/
example :
    let evs : List Ev := [.get 69, .timedOut 69, .feed 69 1, .release]
    (replay true (fun _ => true) evs).map (Option.map fun o => o.gets) =
      [some [none], some [none], some [none], some [some 0]] := by decide +kernel

/-- a release with no class loading pending is not an accepted schedule -/
example : (replay true (fun _ => true) [.feed 69 1, .release, .release]).getLast? = some none := by decide +kernel

end PlumVerif.C10

import PlumVerif.Spec.C10
import PlumVerif.Proofs.Entry
/-
C10 — one device object per controller address, for every arrival timing.
Property theorems only; the machine is Model/Entry.lean, the invariant Proofs/Entry.lean.

All theorems about the locked machine (`step true`) hold for EVERY assignment `kind` of
callers to {frame consumer, user get()}, EVERY number of callers and EVERY interleaving
`sched : List Nat` (which caller moves next; the completion of the thread-pool class loading
is the move of the caller that is in `creating`, so "every arrival timing relative to the
class loading" is part of the quantifier).
-/
namespace PlumVerif.C10
open PlumVerif PlumVerif.Entry

/-- **C10**: under every interleaving
 * at most one device object is created, set-up is started exactly as often as a device is
   created, the name is dispatched at most once and only with that object;
 * every caller that has returned — a consumer (`done`) or a user `get()` (`got`) — holds
   object 0, which is the published entry, created once, set-up started once;
 * every frame handled so far was handled by that object, each frame at most once, and a
   consumer has returned iff its frame is in the handled log. -/
theorem single_device (kind : Nat → Kind) (sched : List Nat) :
    let s := run true kind init sched
    s.created ≤ 1 ∧ s.setups = s.created ∧ s.dispatched.length ≤ s.created ∧ (∀ d ∈ s.dispatched, d = 0) ∧
    (∀ j d, s.pc j = .done d ∨ s.pc j = .got d →
        d = 0 ∧ s.published = some 0 ∧ s.created = 1 ∧ s.setups = 1) ∧
    (∀ f d, (f, d) ∈ s.handled → d = 0 ∧ kind f = .entry ∧ s.pc f = .done 0) ∧
    (s.handled.map (·.1)).Nodup ∧
    (∀ j, s.pc j = .done 0 → (j, 0) ∈ s.handled) := by
  have h := phase_run kind init sched (phase_init kind)
  have quiet_ne : ∀ {p : PC} {d : Nat}, Quiet p → ¬ (p = .done d ∨ p = .got d) := by
    intro p d hq hc
    rcases hq with e | e <;> rcases hc with c | c <;> rw [e] at c <;> cases c
  cases h with
  | idle hl hc hs hp hd hh hpc =>
    refine ⟨by omega, by omega, by simp [hd], by simp [hd], fun j d hj => absurd hj (quiet_ne (hpc j)),
      by simp [hh], by simp [hh], fun j hj => absurd (.inl hj) (quiet_ne (hpc j))⟩
  | creating h' hl hc hs hp hd hh hk hh' hpc =>
    have nq : ∀ j d, ¬ ((run true kind init sched).pc j = .done d ∨ (run true kind init sched).pc j = .got d) := by
      intro j d
      by_cases e : j = h'
      · subst e; simp [hh']
      · exact quiet_ne (hpc j e)
    refine ⟨by omega, by omega, by simp [hd], by simp [hd], fun j d hj => absurd hj (nq j d),
      by simp [hh], by simp [hh], fun j hj => absurd (.inl hj) (nq j 0)⟩
  | publishing h' hl hc hs hp hd hh hk hh' hpc =>
    have nq : ∀ j d, ¬ ((run true kind init sched).pc j = .done d ∨ (run true kind init sched).pc j = .got d) := by
      intro j d
      by_cases e : j = h'
      · subst e; simp [hh']
      · exact quiet_ne (hpc j e)
    refine ⟨by omega, by omega, by simp [hd], by simp [hd], fun j d hj => absurd hj (nq j d),
      by simp [hh], by simp [hh], fun j hj => absurd (.inl hj) (nq j 0)⟩
  | published hl hc hs hp hd hpc hh hn hdone =>
    refine ⟨by omega, by omega, by simp [hd, hc], by simp [hd], ?_, ?_, hn, hdone⟩
    · intro j d hj
      refine ⟨?_, hp, hc, hs⟩
      rcases hpc j with e | e | e | e <;> rcases hj with c | c <;> rw [e] at c <;> cases c <;> rfl
    · intro f d hf
      obtain ⟨h1, h2, h3⟩ := hh (f, d) hf
      exact ⟨h1, h3, h2⟩

/-- "receives the same object at every time": whatever two callers obtained, at whatever
two moments of a run (the second moment `more` steps after the first), they hold the same
object — the one that is published at both moments. -/
theorem same_object_at_every_time (kind : Nat → Kind) (sched more : List Nat) (j k d e : Nat)
    (hj : (run true kind init sched).pc j = .done d ∨ (run true kind init sched).pc j = .got d)
    (hk : (run true kind init (sched ++ more)).pc k = .done e ∨ (run true kind init (sched ++ more)).pc k = .got e) :
    d = e ∧ (run true kind init sched).published = some d ∧
      (run true kind init (sched ++ more)).published = some d := by
  obtain ⟨_, _, _, _, h1, _⟩ := single_device kind sched
  obtain ⟨_, _, _, _, h2, _⟩ := single_device kind (sched ++ more)
  obtain ⟨rfl, p1, _⟩ := h1 j d hj
  obtain ⟨rfl, p2, _⟩ := h2 k e hk
  exact ⟨rfl, p1, p2⟩

/-- "that object receives every frame": in every reachable state every frame consumer that
has not finished can still finish within three moves (acquire/create, class loading
completes, publish), and then its frame has been handled by object 0 — nothing a schedule
does can leave a frame stuck or route it to another object. -/
theorem always_handleable (kind : Nat → Kind) (sched : List Nat) (j : Nat) (hk : kind j = .entry) :
    ∃ more : List Nat, more.length ≤ 3 ∧
      (run true kind init (sched ++ more)).pc j = .done 0 ∧
      (j, 0) ∈ (run true kind init (sched ++ more)).handled := by
  have h := phase_run kind init sched (phase_init kind)
  -- it is enough to reach `done 0`: the handled log then contains (j, 0) by `single_device`
  suffices ∃ more : List Nat, more.length ≤ 3 ∧ (run true kind init (sched ++ more)).pc j = .done 0 by
    obtain ⟨more, hl, hd⟩ := this
    exact ⟨more, hl, hd, (single_device kind (sched ++ more)).2.2.2.2.2.2.2 j hd⟩
  have hko := kindOk_run true kind init sched (kindOk_init kind) j hk
  simp only [run_append]
  generalize run true kind init sched = s at h hko
  have start_of_quiet : Quiet (s.pc j) → s.pc j = .start := fun hq => hq.resolve_right hko.1
  cases h with
  | idle hl hc hs hp hd hh hpc =>
    refine ⟨[j, j, j], by simp, ?_⟩
    simp [run, step, start_of_quiet (hpc j), hk, hl, hp, hc]
  | creating h' hl hc hs hp hd hh hk' hh' hpc =>
    by_cases e : j = h'
    · subst e
      exact ⟨[j, j], by simp, by simp [run, step, hh', hc]⟩
    · refine ⟨[h', h', j], by simp, ?_⟩
      have hj := start_of_quiet (hpc j e)
      simp [run, step, hh', hc, hj, hk, finish, upd_other _ _ _ _ e]
  | publishing h' hl hc hs hp hd hh hk' hh' hpc =>
    by_cases e : j = h'
    · subst e
      exact ⟨[j], by simp, by simp [run, step, hh']⟩
    · refine ⟨[h', j], by simp, ?_⟩
      have hj := start_of_quiet (hpc j e)
      simp [run, step, hh', hj, hk, finish, upd_other _ _ _ _ e]
  | published hl hc hs hp hd hpc hh hn hdone =>
    rcases hpc j with e | e | e | e
    · exact ⟨[j], by simp, by simp [run, step, e, hk, hl, hp, finish]⟩
    · exact absurd e hko.1
    · exact ⟨[], by simp, by simpa [run] using e⟩
    · exact absurd e (hko.2 0)   -- a consumer never holds a get() result

/-- every state the driver's replay of a harness schedule (feed / release / get events, each
followed by quiescence) passes through is a state of the interleaving machine under some
schedule — so the theorems above apply to everything the correspondence compares with. -/
theorem replay_is_run (r r' : Replay) (e : Ev)
    (h : r.st = run true parity init r.sched.reverse) (he : applyEv true r e = some r') :
    r'.st = run true parity init r'.sched.reverse :=
  applyEv_run true r r' e h he

theorem replay_sound (evs : List Ev) (r : Replay) (hr : r.st = run true parity init r.sched.reverse) :
    ∀ snap, some snap ∈ replay true r evs → snapOk snap = true := by
  induction evs generalizing r with
  | nil => intro snap h; simp [replay] at h
  | cons e es ih =>
    intro snap h
    simp only [replay] at h
    cases he : applyEv true r e with
    | none => simp [he] at h
    | some r' =>
      have hr' := applyEv_run true r r' e hr he
      simp only [he, List.mem_cons, Option.some.injEq] at h
      rcases h with h | h
      · subst h
        exact phase_snapOk r' (hr' ▸ phase_run parity init _ (phase_init parity))
      · exact ih r' hr' snap h

/-- **C10.holds**: for every harness schedule, every snapshot the model shows satisfies the
statement's predicate `snapOk` (the same predicate the driver evaluates on what the
implementation showed). -/
theorem holds (evs : List Ev) : ∀ snap, some snap ∈ replay true replay0 evs → snapOk snap = true :=
  replay_sound evs replay0 rfl

/-- the model can tell the difference: the SAME machine without the lock (`step false`, the
code before fix 9a3d4ee) admits a schedule with two creations, two set-ups, two consumers
holding different objects and the name dispatched twice. -/
theorem unlocked_counterexample :
    ∃ sched : List Nat,
      let s := run false (fun _ => .entry) init sched
      s.created = 2 ∧ s.setups = 2 ∧ s.pc 0 = .done 0 ∧ s.pc 1 = .done 1 ∧
        s.dispatched = [1, 0] ∧ s.handled = [(1, 1), (0, 0)] :=
  ⟨[0, 1, 0, 1, 0, 1], by decide⟩

/-- … and the harness-level replay shows it too: three frames fed while the class loading is
pending give three pending imports without the lock (one with it) -/
example : (replay false replay0 [.feed 3]).map (Option.map (·.held)) = [some 3] := by decide
example : (replay true replay0 [.feed 3]).map (Option.map (·.held)) = [some 1] := by decide

/-- non-vacuity of `single_device`: the same schedule under the lock creates one device and
both consumers end up with it -/
example : let s := run true (fun _ => .entry) init [0, 1, 0, 1, 0, 1]
    s.created = 1 ∧ s.pc 0 = .done 0 ∧ s.pc 1 = .done 0 ∧ s.handled = [(1, 0), (0, 0)] := by decide

/-- non-vacuity of `holds`: two frames, a get() while the class loading is pending, release,
a third frame — the last snapshot shows three handled frames and the get() result -/
example : (replay true replay0 [.feed 2, .get, .release, .feed 1]).getLast? =
    some (some { held := 0, created := 1, setups := 1, published := some 0, dispatched := [0],
                 handled := [(0, 0), (1, 0), (2, 0)], gets := [some 0] }) := by decide
example : spec 3 ((replay true replay0 [.feed 2, .get, .release, .feed 1]).filterMap id) = true := by decide
/-- the predicate is not trivially true: the unlocked replay fails it -/
example : spec 3 ((replay false replay0 [.feed 3, .release, .release, .release]).filterMap id) = false := by decide
/-- a release with no class loading pending is not an accepted schedule -/
example : replay true replay0 [.feed 1, .release, .release] ≠ [] ∧
    (replay true replay0 [.feed 1, .release, .release]).getLast? = some none := by decide

end PlumVerif.C10

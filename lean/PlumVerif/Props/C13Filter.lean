import PlumVerif.Model.FilterChain
import PlumVerif.Proofs.FiltersPass
/-
C13 — "handing each the value returned by the previous one (a None return keeps the value)" for
subscribers registered THROUGH a filter factory (`subscribe(name, on_change(cb))`, chains of two
or more filters).  For the dispatch chain such a subscriber is its filter object; these theorems
say what a filter call returns, over every filter expression, every state (hence every history of
earlier calls) and every wrapped callback.
-/
namespace PlumVerif.C13
open PlumVerif.C20

/-- A delivering call of ANY filter expression returns what the wrapped callback returned for the
delivered value; a call that does not deliver returns None. -/
theorem filter_result (f : Filter) (s : f.machine.σ) (c : Call)
    (k : Val → Option Val) : f.stepR s c k = (f.machine.step s c).2.result k := by
  induction f generalizing c k with
  | onChange => rfl
  | debounce n => rfl
  | throttle x => rfl
  | delta => rfl
  | aggregate x t0 => rfl
  | custom p => rfl
  | chain a b iha ihb =>
    show a.stepR s.1 c (fun w => b.stepR s.2 ⟨c.t, w⟩ k) = (chainStep a.machine b.machine s c).2.result k
    rw [iha]
    unfold chainStep
    cases hs : a.machine.step s.1 c with
    | mk sa o =>
      cases o with
      | deliver w => simp only [Out.result]; exact ihb s.2 ⟨c.t, w⟩ k
      | skip => rfl
      | raised => rfl

example : (Filter.chain .onChange (.debounce 1)).stepR (some (.num 0), (none, 0)) ⟨3, .num 32⟩ (fun _ => some (.num 5))
    = some (.num 5) := by decide

/-- the delivering case on its own: the filter is, for the dispatch chain, the callback itself -/
theorem delivering_call_is_the_callback (f : Filter) (s : f.machine.σ) (c : Call)
    (k : Val → Option Val) (v : Val) (h : (f.machine.step s c).2 = .deliver v) : f.stepR s c k = k v := by
  rw [filter_result f, h]; rfl

example : (Filter.onChange).stepR none ⟨0, .num 16⟩ (fun v => some v) = some (.num 16) := by decide

/-- … and for a pass-through expression (on_change / debounce / throttle / custom and their chains)
the delivered value is the dispatched value: the call returns exactly what the plain callback would -/
theorem passing_filter_is_transparent (f : Filter) (hp : f.passThrough = true)
    (s : f.machine.σ) (c : Call) (k : Val → Option Val) (h : (f.machine.step s c).2 ≠ .skip) :
    f.stepR s c k = k c.v := by
  rcases passStep_of_passThrough f hp s c with h' | h'
  · exact absurd h' h
  · exact delivering_call_is_the_callback f s c k c.v h'

example : (Filter.throttle 0).stepR (some 5) ⟨5, .num 16⟩ (fun _ => some (.num 0)) = some (.num 0) := by decide

/-- `custom` (fix dfda3f3; it used to drop the result): when the predicate holds the call returns
the wrapped callback's result, otherwise None -/
theorem custom_returns_result (p : Pred) (c : Call) (k : Val → Option Val) :
    (Filter.custom p).stepR () c k = if p.eval c.v then k c.v else none := by
  show (customStep p () c).2.result k = _
  unfold customStep
  by_cases h : p.eval c.v = true <;> simp [h, Out.result]

example : (Filter.custom .always).stepR () ⟨0, .num 16⟩ (fun _ => some (.num 32)) = some (.num 32) := rfl

/-- a call that does not reach the wrapped callback returns None — whatever the expression -/
theorem skipping_call_keeps (f : Filter) (s : f.machine.σ) (c : Call) (k : Val → Option Val)
    (h : ∀ v, (f.machine.step s c).2 ≠ .deliver v) : f.stepR s c k = none := by
  rw [filter_result f]
  cases ho : (f.machine.step s c).2 with
  | deliver v => exact absurd ho (h v)
  | skip => rfl
  | raised => rfl

example : (Filter.onChange).stepR (some (.num 16)) ⟨1, .num 17⟩ (fun _ => some (.num 0)) = none := by decide

/-- one subscriber in a dispatch: the value handed to the next callback is the wrapped callback's
result on what its filter delivered, or the unchanged value -/
theorem dispatch_threading (t : Int) (u : FSub) (us : List FSub) (v : Val) :
    (dispatchChain t (u :: us) v).2.2 =
      (dispatchChain t us
        (match (u.call ⟨t, v⟩).2.1 with
         | .deliver w => (u.ret.apply w).getD v
         | _ => v)).2.2 := by
  simp only [dispatchChain, FSub.call]
  rw [filter_result u.f]
  cases (u.f.machine.step (u.f.machine.state u.seen) ⟨t, v⟩).2 <;> rfl

example : (dispatchChain 0 [⟨.delta, .add 16, [⟨0, .num 0⟩]⟩, ⟨.custom .always, .keep, []⟩] (.num 48)).2.2 = .num 64 := by decide

/-- subscribers behind pass-through filters that all let the value through are, for the stored
value, the plain callbacks in the same order (the C13 machine's chain) -/
theorem passing_chain_is_plain_chain (t : Int) (us : List FSub) (v : Val)
    (hp : ∀ u ∈ us, u.f.passThrough = true)
    (hd : ∀ o ∈ (dispatchChain t us v).2.1, o ≠ .skip) :
    (dispatchChain t us v).2.2 = plainChain (us.map (·.ret)) v := by
  induction us generalizing v with
  | nil => rfl
  | cons u us ih =>
    have hu := hp u (List.mem_cons_self ..)
    have h1 : (u.f.machine.step (u.f.machine.state u.seen) ⟨t, v⟩).2 ≠ .skip :=
      hd _ (by simp [dispatchChain, FSub.call])
    have hr := passing_filter_is_transparent u.f hu (u.f.machine.state u.seen) ⟨t, v⟩ u.ret.apply h1
    simp only [dispatchChain, FSub.call, List.map_cons, plainChain, hr]
    apply ih _ (fun w hw => hp w (List.mem_cons_of_mem _ hw))
    intro o ho
    apply hd
    simp only [dispatchChain, FSub.call, hr, List.mem_cons]
    exact Or.inr ho

example : (dispatchChain 0 [⟨.onChange, .add 16, []⟩, ⟨.custom .always, .const (.num 0), []⟩, ⟨.debounce 1, .keep, []⟩] (.num 16)).2.2
    = .num 0 := by decide

end PlumVerif.C13

import PlumVerif.Generated.PyCode
import PlumVerif.Proofs.PyLemmas
import PlumVerif.Model.Requests
/-
Tie: the Lean definitions translated from the SOURCE TEXT of the eight `create_message` bodies of
`pyplumio/frames/requests.py` (Generated/PyCode.lean, rewritten by tools/py2lean.py on every run)
equal the hand-written payload builders of Model/Requests.lean, for EVERY `data` dict whose relevant
entries are ints (for "offset": an int or Python `None`) or absent: same bytes, same exception class.
-/
namespace PlumVerif.TieRequests
open PlumVerif.Py
-- generic simp sets on purpose: they must keep working when the translated text changes shape
set_option linter.unusedSimpArgs false

/-- what the model's outcome is in the words of the translated code -/
def toPy : Except Req.BuildErr (List UInt8) → PyM V
  | .ok bs => .ok (.bytes bs)
  | .error .frameData => .error .FrameDataError
  | .error .value => .error .ValueError
  | .error .overflow => .error .OverflowError

/-! ### leaf lemmas about the prelude -/

/-- `d[k]` on a dict -/
theorem index_dict (ks : List String) (vs : List V) (k : String) :
    Py.index (.dict ks vs) (.str k)
      = match lookup ks vs k with | some x => .ok x | none => .error .KeyError := rfl

/-- `d.get(k, dflt)` on a dict -/
theorem dict_get_dict (ks : List String) (vs : List V) (k : String) (d : V) :
    Py.dict_get (.dict ks vs) (.str k) d = .ok ((lookup ks vs k).getD d) := rfl

@[simp] theorem getD_map_int (o : Option Int) (d : Int) :
    (o.map V.int).getD (V.int d) = V.int (o.getD d) := by cases o <;> rfl

/-- the prelude's little-endian encoder is the model's -/
theorem encodeLE_eq (n k : Nat) : Py.encodeLE n k = PlumVerif.encodeLE n k := by
  induction k generalizing n with
  | zero => rfl
  | succ k ih => simp [Py.encodeLE, PlumVerif.encodeLE, ih]

/-- one element of `bytearray([...])` -/
theorem byteOfV_int (i : Int) :
    Py.byteOfV (.int i) = match Req.byteOf i with | some b => .ok b | none => .error .ValueError := by
  unfold Py.byteOfV Req.byteOf
  simp only [asInt?, Option.getD_some]
  by_cases h : 0 ≤ i ∧ i < 256 <;> simp [h]

/-- one step of the fold of `Py.bytearray` over a list -/
def baStep (acc : List UInt8) (x : V) : PyM (List UInt8) := do pure ((← Py.byteOfV x) :: acc)

theorem ba_fold (is : List Int) (acc : List UInt8) :
    List.foldlM baStep acc (is.map V.int)
      = match Req.bytesOf is with
        | some bs => .ok (bs.reverse ++ acc)
        | none => .error .ValueError := by
  induction is generalizing acc with
  | nil => rfl
  | cons v r ih =>
    simp only [List.map_cons, List.foldlM_cons, baStep, byteOfV_int, Req.bytesOf]
    cases hv : Req.byteOf v with
    | none => simp
    | some b =>
      simp only [ok_bind, pure_eq_ok, ih]
      cases Req.bytesOf r <;> simp

/-- `bytearray([i0, i1, …])` of ints: the bytes, or ValueError if one is outside `range(256)` -/
theorem bytearray_ints (is : List Int) :
    Py.bytearray (.list (is.map V.int))
      = match Req.bytesOf is with | some bs => .ok (.bytes bs) | none => .error .ValueError := by
  have e : Py.bytearray (.list (is.map V.int))
      = (do let bs ← List.foldlM baStep [] (is.map V.int); pure (.bytes bs.reverse)) := rfl
  rw [e, ba_fold]
  cases Req.bytesOf is <;> simp

theorem bytearray_ints1 (a : Int) : Py.bytearray (.list [.int a])
    = match Req.bytesOf [a] with | some bs => .ok (.bytes bs) | none => .error .ValueError :=
  bytearray_ints [a]
theorem bytearray_ints2 (a b : Int) : Py.bytearray (.list [.int a, .int b])
    = match Req.bytesOf [a, b] with | some bs => .ok (.bytes bs) | none => .error .ValueError :=
  bytearray_ints [a, b]
theorem bytearray_ints3 (a b c : Int) : Py.bytearray (.list [.int a, .int b, .int c])
    = match Req.bytesOf [a, b, c] with | some bs => .ok (.bytes bs) | none => .error .ValueError :=
  bytearray_ints [a, b, c]

theorem bytesOf_singleton (a : Int) : Req.bytesOf [a] = (Req.byteOf a).map fun b => [b] := by
  simp only [Req.bytesOf]; cases Req.byteOf a <;> rfl

/-- `v.to_bytes(length=sz, byteorder="little")` in the model's words -/
theorem int_to_bytes_little (v sz : Int) :
    Py.int_to_bytes (.int v) (.int sz) (.str "little")
      = if sz < 0 then .error .ValueError
        else if v < 0 ∨ v ≥ 256 ^ sz.toNat then .error .OverflowError
        else .ok (.bytes (PlumVerif.encodeLE v.toNat sz.toNat)) := by
  have hp : ((256 ^ sz.toNat : Nat) : Int) = (256 : Int) ^ sz.toNat := by simp
  simp only [Py.int_to_bytes, encodeLE_eq, throw_eq_error, pure_eq_ok, if_true]
  by_cases h1 : sz < 0
  · simp [h1]
  · by_cases h2 : v < 0
    · simp [h1, h2]
    · have h3 : (v.toNat ≥ 256 ^ sz.toNat) ↔ (v ≥ (256 : Int) ^ sz.toNat) := by
        rw [← hp]; omega
      by_cases h4 : v ≥ (256 : Int) ^ sz.toNat
      · have h5 := h3.mpr h4
        simp only [h1, h2, h4, h5, if_true, if_false, or_true]
      · have h5 : ¬ (v.toNat ≥ 256 ^ sz.toNat) := fun h => h4 (h3.mp h)
        simp only [h1, h2, h4, h5, if_false, or_self]

@[simp] theorem tryExcept_ok {α : Type} (a : α) (cs : List Catch) (h : PyM α) :
    Py.tryExcept (.ok a) cs h = .ok a := rfl
@[simp] theorem tryExcept_error {α : Type} (e : PyErr) (cs : List Catch) (h : PyM α) :
    Py.tryExcept (.error e) cs h = if catches cs e then h else .error e := rfl

theorem toPy_value (o : Option (List UInt8)) :
    (match o with | some bs => (.ok (.bytes bs) : PyM V) | none => .error .ValueError)
      = toPy (match o with | some bs => .ok bs | none => .error .value) := by
  cases o <;> rfl

@[simp] theorem add_int (a b : Int) : Py.add (.int a) (.int b) = .ok (.int (a + b)) := rfl
@[simp] theorem add_bytes (a b : List UInt8) : Py.add (.bytes a) (.bytes b) = .ok (.bytes (a ++ b)) := rfl

/-- the simp set that evaluates the translated bodies down to the leaf facts -/
macro "py_eval" : tactic => `(tactic|
  simp only [PyCode.c_ATTR_COUNT, PyCode.c_ATTR_START, PyCode.c_ATTR_INDEX, PyCode.c_ATTR_VALUE,
    PyCode.c_ATTR_DEVICE_INDEX, PyCode.c_ATTR_OFFSET, PyCode.c_ATTR_SIZE,
    index_dict, dict_get_dict, getD_map_int, ok_bind, error_bind, pure_eq_ok, throw_eq_error,
    Option.map_some, Option.map_none, Option.getD_some, Option.getD_none,
    bytearray_ints1, bytearray_ints2, bytearray_ints3, tryExcept_ok, tryExcept_error,
    Py.isNone, Py.truthy, if_true, if_false, Bool.false_eq_true, add_int, add_bytes] at *)


/-! ### `[count, start]` requests: `bytearray([data.get("count", 255), data.get("start", 0)])` -/

theorem ecomax_parameters_eq (ks : List String) (vs : List V) (count start : Option Int)
    (hc : Py.lookup ks vs "count" = count.map .int) (hs : Py.lookup ks vs "start" = start.map .int) :
    PyCode.EcomaxParametersRequest_create_message (.dict ks vs)
      = toPy (Req.rangePayload count start) := by
  unfold PyCode.EcomaxParametersRequest_create_message Req.rangePayload
  py_eval
  simp only [hc, hs]
  py_eval
  exact toPy_value _

theorem mixer_parameters_eq (ks : List String) (vs : List V) (count start : Option Int)
    (hc : Py.lookup ks vs "count" = count.map .int) (hs : Py.lookup ks vs "start" = start.map .int) :
    PyCode.MixerParametersRequest_create_message (.dict ks vs)
      = toPy (Req.rangePayload count start) := by
  unfold PyCode.MixerParametersRequest_create_message Req.rangePayload
  py_eval
  simp only [hc, hs]
  py_eval
  exact toPy_value _

theorem thermostat_parameters_eq (ks : List String) (vs : List V) (count start : Option Int)
    (hc : Py.lookup ks vs "count" = count.map .int) (hs : Py.lookup ks vs "start" = start.map .int) :
    PyCode.ThermostatParametersRequest_create_message (.dict ks vs)
      = toPy (Req.rangePayload count start) := by
  unfold PyCode.ThermostatParametersRequest_create_message Req.rangePayload
  py_eval
  simp only [hc, hs]
  py_eval
  exact toPy_value _

/-- AlertsRequest: `bytearray([data.get("start", 0), data.get("count", 10)])` -/
theorem alerts_eq (ks : List String) (vs : List V) (start count : Option Int)
    (hs : Py.lookup ks vs "start" = start.map .int) (hc : Py.lookup ks vs "count" = count.map .int) :
    PyCode.AlertsRequest_create_message (.dict ks vs)
      = toPy (Req.alertsPayload start count) := by
  unfold PyCode.AlertsRequest_create_message Req.alertsPayload
  py_eval
  simp only [hc, hs]
  py_eval
  exact toPy_value _

/-! ### set-parameter requests: KeyError / ValueError become FrameDataError -/

theorem set_ecomax_eq (ks : List String) (vs : List V) (index value : Option Int)
    (hi : Py.lookup ks vs "index" = index.map .int) (hv : Py.lookup ks vs "value" = value.map .int) :
    PyCode.SetEcomaxParameterRequest_create_message (.dict ks vs)
      = toPy (Req.setEcomaxPayload index value) := by
  unfold PyCode.SetEcomaxParameterRequest_create_message Req.setEcomaxPayload
  py_eval
  simp only [hi, hv]
  cases index <;> cases value <;> py_eval <;> try rfl
  rename_i i v
  cases Req.bytesOf [i, v] <;> rfl

theorem set_mixer_eq (ks : List String) (vs : List V) (device index value : Option Int)
    (hd : Py.lookup ks vs "device_index" = device.map .int)
    (hi : Py.lookup ks vs "index" = index.map .int) (hv : Py.lookup ks vs "value" = value.map .int) :
    PyCode.SetMixerParameterRequest_create_message (.dict ks vs)
      = toPy (Req.setMixerPayload device index value) := by
  unfold PyCode.SetMixerParameterRequest_create_message Req.setMixerPayload
  py_eval
  simp only [hd, hi, hv]
  cases device <;> cases index <;> cases value <;> py_eval <;> try rfl
  rename_i d i v
  cases Req.bytesOf [d, i, v] <;> rfl

/-- EcomaxControlRequest: only KeyError is converted, the ValueError of `bytearray` escapes -/
theorem control_eq (ks : List String) (vs : List V) (value : Option Int)
    (hv : Py.lookup ks vs "value" = value.map .int) :
    PyCode.EcomaxControlRequest_create_message (.dict ks vs)
      = toPy (Req.controlPayload value) := by
  unfold PyCode.EcomaxControlRequest_create_message Req.controlPayload
  py_eval
  simp only [hv]
  cases value <;> py_eval <;> try rfl
  rename_i v
  cases Req.bytesOf [v] <;> rfl

/-- SetThermostatParameterRequest: `[index (+ offset)] + value.to_bytes(size, "little")`; the
OverflowError of `to_bytes` escapes -/
theorem set_thermostat_eq (ks : List String) (vs : List V) (index value : Option Int)
    (offset : Option (Option Int)) (size : Option Int)
    (hi : Py.lookup ks vs "index" = index.map .int) (hv : Py.lookup ks vs "value" = value.map .int)
    (ho : Py.lookup ks vs "offset"
      = offset.map (fun o => match o with | none => V.none | some i => .int i))
    (hs : Py.lookup ks vs "size" = size.map .int) :
    PyCode.SetThermostatParameterRequest_create_message (.dict ks vs)
      = toPy (Req.setThermostatPayload index value offset size) := by
  unfold PyCode.SetThermostatParameterRequest_create_message Req.setThermostatPayload
  py_eval
  simp only [hi, hv, ho, hs]
  cases index <;> cases value <;> cases offset <;> py_eval <;> try rfl
  rename_i i v off
  cases off <;> py_eval <;> simp only [bytesOf_singleton]
  all_goals
    cases Req.byteOf _ <;> py_eval <;> try rfl
    cases size <;> py_eval <;> try rfl
    simp only [int_to_bytes_little]
    split <;> try rfl
    split <;> rfl

/-! ### non-vacuity: the translated code on concrete dicts, and the hypotheses are satisfiable -/

example : PyCode.EcomaxParametersRequest_create_message (.dict [] []) = .ok (.bytes [255, 0]) := rfl
example : PyCode.EcomaxParametersRequest_create_message (.dict ["start", "count"] [.int 5, .int 20])
    = .ok (.bytes [20, 5]) := rfl
example : PyCode.MixerParametersRequest_create_message (.dict ["count"] [.int 300])
    = .error .ValueError := rfl
example : PyCode.ThermostatParametersRequest_create_message (.dict ["start"] [.int 7])
    = .ok (.bytes [255, 7]) := rfl
example : PyCode.AlertsRequest_create_message (.dict [] []) = .ok (.bytes [0, 10]) := rfl
example : PyCode.AlertsRequest_create_message (.dict ["start", "count"] [.int 2, .int (-1)])
    = .error .ValueError := rfl
example : PyCode.SetEcomaxParameterRequest_create_message (.dict ["index", "value"] [.int 3, .int 7])
    = .ok (.bytes [3, 7]) := rfl
example : PyCode.SetEcomaxParameterRequest_create_message (.dict ["index"] [.int 3])
    = .error .FrameDataError := rfl
example : PyCode.SetEcomaxParameterRequest_create_message (.dict ["index", "value"] [.int 3, .int 256])
    = .error .FrameDataError := rfl
example : PyCode.SetMixerParameterRequest_create_message
    (.dict ["index", "value", "device_index"] [.int 3, .int 7, .int 1]) = .ok (.bytes [1, 3, 7]) := rfl
example : PyCode.SetMixerParameterRequest_create_message (.dict ["index", "value"] [.int 3, .int 7])
    = .error .FrameDataError := rfl
example : PyCode.EcomaxControlRequest_create_message (.dict ["value"] [.int 1]) = .ok (.bytes [1]) := rfl
example : PyCode.EcomaxControlRequest_create_message (.dict [] []) = .error .FrameDataError := rfl
example : PyCode.EcomaxControlRequest_create_message (.dict ["value"] [.int 256])
    = .error .ValueError := rfl
example : PyCode.SetThermostatParameterRequest_create_message
    (.dict ["index", "value", "offset", "size"] [.int 2, .int 513, .int 12, .int 2])
    = .ok (.bytes [14, 1, 2]) := rfl
example : PyCode.SetThermostatParameterRequest_create_message
    (.dict ["index", "value", "offset", "size"] [.int 2, .int 5, .none, .int 1])
    = .ok (.bytes [2, 5]) := rfl
example : PyCode.SetThermostatParameterRequest_create_message
    (.dict ["index", "value", "offset", "size"] [.int 2, .int 70000, .none, .int 2])
    = .error .OverflowError := rfl
example : PyCode.SetThermostatParameterRequest_create_message
    (.dict ["index", "value", "offset", "size"] [.int 2, .int (-1), .none, .int 2])
    = .error .OverflowError := rfl
example : PyCode.SetThermostatParameterRequest_create_message
    (.dict ["index", "value", "offset", "size"] [.int 2, .int 5, .none, .int (-1)])
    = .error .FrameDataError := rfl
/-- the first byte is checked before the size key is read: both ways FrameDataError -/
example : PyCode.SetThermostatParameterRequest_create_message
    (.dict ["index", "value", "offset"] [.int 250, .int 5, .int 12]) = .error .FrameDataError := rfl

-- the theorems instantiated: their hypotheses hold on concrete dicts
example := ecomax_parameters_eq ["count"] [.int 300] (some 300) none rfl rfl
example := mixer_parameters_eq [] [] none none rfl rfl
example := thermostat_parameters_eq ["start", "count"] [.int 5, .int 20] (some 20) (some 5) rfl rfl
example := alerts_eq ["count"] [.int 3] none (some 3) rfl rfl
example := set_ecomax_eq ["index", "value"] [.int 3, .int 7] (some 3) (some 7) rfl rfl
example := set_mixer_eq ["index", "value"] [.int 3, .int 7] none (some 3) (some 7) rfl rfl rfl
example := control_eq ["value"] [.int 256] (some 256) rfl
example := set_thermostat_eq ["index", "value", "offset", "size"] [.int 2, .int 513, .none, .int 2]
  (some 2) (some 513) (some none) (some 2) rfl rfl rfl rfl
example := set_thermostat_eq ["index", "value", "offset"] [.int 250, .int 5, .int 12]
  (some 250) (some 5) (some (some 12)) none rfl rfl rfl rfl
example : toPy (Req.setThermostatPayload (some 2) (some 513) (some (some 12)) (some 2))
    = .ok (.bytes [14, 1, 2]) := rfl

end PlumVerif.TieRequests

import PlumVerif.Proofs.ScheduleHeap
/-
C18 with OBJECT IDENTITY — the client may keep a `Schedule` object across later responses and edit /
commit through it (heap machine of Model/ScheduleHeap.lean).  Property theorems only.
-/
namespace PlumVerif.C18Heap
open PlumVerif PlumVerif.Sched

/-! ### frame conditions -/

/-- an edit through handle `h` changes object `h` only -/
theorem handle_edit_frame (s : HSys) (h : Nat) (d : DayEdit) (h' : Nat) (hne : h' ≠ h) :
    (s.step (.hedit h d)).1.heap[h']? = s.heap[h']? := by
  cases ho : s.heap[h']? with
  | none =>
    have hlen : (s.step (.hedit h d)).1.heap.length = s.heap.length := by
      simp only [HSys.step]
      cases s.target (.hedit h d) with
      | none => rfl
      | some t => simp [editObj_length]
    have : s.heap.length ≤ h' := by
      rcases Nat.lt_or_ge h' s.heap.length with hl | hl
      · rw [List.getElem?_eq_getElem hl] at ho; cases ho
      · exact hl
    exact List.getElem?_eq_none (by omega)
  | some o =>
    rw [step_heap s _ h' o ho]
    cases ht : s.target (.hedit h d) with
    | none => rfl
    | some t =>
      obtain ⟨h0, d0⟩ := t
      have : h0 = h := by
        simp only [HSys.target] at ht
        split at ht
        · cases ht; rfl
        · cases ht
      subst this
      have hn : ¬ h0 = h' := fun e => hne e.symm
      simp [hn]

/-- … and it writes exactly that `set_state` into it -/
theorem handle_edit_writes (s : HSys) (h : Nat) (d : DayEdit) (o : Obj) (ho : s.heap[h]? = some o) :
    (s.step (.hedit h d)).1.heap[h]? = some { o with week := o.week.edit d } ∧
    (s.step (.hedit h d)).2 = .edited (o.week.editOutcome d) := by
  have hlt : h < s.heap.length := (List.getElem?_eq_some_iff.mp ho).1
  have ht : s.target (.hedit h d) = some (h, d) := by simp [HSys.target, hlt]
  constructor
  · rw [step_heap s _ h o ho, ht]; simp
  · simp [HSys.step, ht, weekAt, ho]

/-- a response changes no existing object: it only allocates -/
theorem receive_frame (s : HSys) (msg : List Byte) (h : Nat) (o : Obj) (ho : s.heap[h]? = some o) :
    (s.step (.receive msg)).1.heap[h]? = some o := by
  rw [step_heap s _ h o ho]; rfl

/-- no event other than an edit that resolves to `h` changes object `h` -/
theorem object_frame (s : HSys) (ev : HEv) (h : Nat) (o : Obj) (ho : s.heap[h]? = some o)
    (hne : ∀ d, s.target ev ≠ some (h, d)) : (s.step ev).1.heap[h]? = some o := by
  rw [step_heap s ev h o ho]
  cases ht : s.target ev with
  | none => rfl
  | some t =>
    obtain ⟨h0, d0⟩ := t
    by_cases hh : h0 = h
    · subst hh; exact absurd ht (hne d0)
    · simp [hh]

/-! ### the content of an object -/

/-- **kept content**: at any time the content of object `h` is the week it was received with,
with exactly the edits that resolved to `h` (through a handle, or through the device while the
device held `h`) applied in order — the statement of C18 "the received bitmap with exactly the
edits applied", per OBJECT, whatever else happened (later responses, edits of other objects,
commits, writes) -/
theorem kept_content (s : HSys) (evs : List HEv) (h : Nat) (o : Obj) (ho : s.heap[h]? = some o) :
    (HSys.run s evs).1.heap[h]? =
      some { o with week := (((HSys.log s evs).filter (fun t => t.1 == h)).map (·.2)).foldl Week.edit o.week } := by
  induction evs generalizing s o with
  | nil => simp [HSys.run, HSys.log, ho]
  | cons ev rest ih =>
    have hstep := step_heap s ev h o ho
    simp only [HSys.run, HSys.log]
    cases ht : s.target ev with
    | none =>
      rw [ht] at hstep
      rw [ih _ _ hstep]
    | some t =>
      obtain ⟨h0, d0⟩ := t
      rw [ht] at hstep
      simp only at hstep
      by_cases hh : h0 = h
      · subst hh
        rw [if_pos rfl] at hstep
        rw [ih _ _ hstep]
        simp [List.filter]
      · rw [if_neg hh] at hstep
        rw [ih _ _ hstep]
        have : (h0 == h) = false := by simp [hh]
        simp [List.filter, this]

/-- an object allocated by a response starts as the decoded table of its entry -/
theorem receive_allocates (s : HSys) (msg : List Byte) (es : List Entry) (k : Nat) (e : Entry)
    (hdec : decodeResponse msg = some es) (hknown : knownIndexes es = true) (hk : es[k]? = some e) :
    (s.step (.receive msg)).1.heap[s.heap.length + k]? = some ⟨e.idx, Week.ofTable e.table⟩ := by
  simp only [HSys.step, hdec, hknown, if_true]
  rw [List.getElem?_append_right (by omega)]
  simp [hk, Entry.toObj]

/-- on the 7 × 48 table: a day edit on a week is `set_state` on its row (Sunday = row 0) -/
theorem week_edit_table (t : List (List Bool)) (ht : t.length = 7) (d : DayEdit) :
    (Week.ofTable t).edit d =
      Week.ofTable (t.set d.day.pos (setState (t.getD d.day.pos []) d.state d.start d.stop).1) := by
  simp only [Week.edit, Week.get_ofTable, Week.set_ofTable t ht]

/-! ### commit through a handle -/

/-- **commit through a handle, then the write**: the request carries the object's index, the
device's CURRENT switch and parameter for that index, and the encoding of the content of THAT
object — whether or not the device still holds it -/
theorem handle_commit_then_drain (s : HSys) (hq : s.queue = []) (h : Nat) (o : Obj) (sw p : Nat)
    (ho : s.heap[h]? = some o) (hc : s.collect o.idx = some (sw, p)) :
    (HSys.run s [.hcommit h, .drain]).2 =
      [.queued, .tx ([1, o.idx.toUInt8, sw.toUInt8, p.toUInt8] ++ encodeWeek o.week.toTable)] := by
  simp [HSys.run, HSys.step, ho, hc, hq, HReq.payload, weekAt]

/-- with edits of that object in between (finding F6 applies to handles as well): the write
encodes the object's content at write time -/
theorem handle_commit_edit_drain (s : HSys) (hq : s.queue = []) (h : Nat) (o : Obj) (sw p : Nat)
    (d : DayEdit) (ho : s.heap[h]? = some o) (hc : s.collect o.idx = some (sw, p)) :
    (HSys.run s [.hcommit h, .hedit h d, .drain]).2 =
      [.queued, .edited (o.week.editOutcome d),
       .tx ([1, o.idx.toUInt8, sw.toUInt8, p.toUInt8] ++ encodeWeek (o.week.edit d).toTable)] := by
  have hlt : h < s.heap.length := (List.getElem?_eq_some_iff.mp ho).1
  have h1 : s.step (.hcommit h) = ({ s with queue := [⟨o.idx, sw, p, h⟩] }, .queued) := by
    simp only [HSys.step, ho, hc, hq, List.nil_append]
  have h2 : ({ s with queue := [⟨o.idx, sw, p, h⟩] } : HSys).step (.hedit h d) =
      ({ s with queue := [⟨o.idx, sw, p, h⟩], heap := editObj s.heap h d }, .edited (o.week.editOutcome d)) := by
    simp only [HSys.step, HSys.target, hlt, if_true, weekAt, ho, Option.map_some, Option.getD_some]
  have h3 : ({ s with queue := [⟨o.idx, sw, p, h⟩], heap := editObj s.heap h d } : HSys).step .drain =
      ({ s with queue := [], heap := editObj s.heap h d },
       .tx ([1, o.idx.toUInt8, sw.toUInt8, p.toUInt8] ++ encodeWeek (o.week.edit d).toTable)) := by
    simp only [HSys.step, HReq.payload, weekAt, editObj_get, ho, if_true, Option.map_some, Option.getD_some]
  simp only [HSys.run, h1, h2, h3]

/-- without a schedule, switch or parameter of that name in the device data the commit raises
KeyError and queues nothing (`collect_schedule_data` still looks the name up) -/
theorem handle_commit_needs_name (s : HSys) (h : Nat) (o : Obj) (ho : s.heap[h]? = some o)
    (hc : s.collect o.idx = none) : s.step (.hcommit h) = (s, .keyError) := by
  simp [HSys.step, ho, hc]

/-! ### refinement: without handles this is the machine of C18 -/

/-- **refinement**: on every history that uses only lookup events (responses, edits and commits
through `device.data["schedules"]`, writes) the heap machine produces exactly the outputs of
`Sys.run` — including requests that stay queued across later responses (`Sys` freezes them, here
they keep pointing at the old object).  Every theorem of Props/C18.lean about `Sys` / `Device`
therefore holds of the heap machine on such histories. -/
theorem refines_sys (evs : List Ev) :
    (HSys.run HSys.init (evs.map Ev.toH)).2 = (Sys.run ⟨Device.init, []⟩ evs).2.map HOut.ofOut :=
  sim_run HSys.init ⟨Device.init, []⟩ Sim.init evs

/-- the same from any pair of related states (`Sim`: same switches / parameters, the device's
object for every index holds the week `Sys` holds, queued requests correspond) -/
theorem refines_sys_from (hs : HSys) (s : Sys) (h : Sim hs s) (evs : List Ev) :
    (HSys.run hs (evs.map Ev.toH)).2 = (Sys.run s evs).2.map HOut.ofOut :=
  sim_run hs s h evs

/-! ### the pre-fix behaviour differs (fix 22a19e7) -/

private def msgA : List Byte := [0, 0, 1, 3, 1, 20, 0, 50] ++ List.replicate 42 0
private def keptHistory : List HEv :=
  [.receive msgA, .keep 3, .receive msgA, .hedit 0 ⟨.monday, "on", .hm 0 0, .hm 0 30⟩, .hcommit 0, .drain]

/-- **kept-object witness**: schedule 3 is received, the client keeps the object (id 0), the
controller reports the same week again (the device now holds object 1), the client switches
Monday 00:00–00:30 on in the object it holds and commits it.  The machine (the code since
22a19e7) transmits the edited week; the pre-fix commit (`device.data["schedules"][name]`)
transmits the device's unedited object — the edit is lost. -/
theorem prefix_commit_differs :
    (HSys.run HSys.init keptHistory).2 =
      [.received, .handle 0, .received, .edited .ok, .queued,
       .tx ([1, 3, 1, 20] ++ List.replicate 6 0 ++ [0xC0] ++ List.replicate 35 0)] ∧
    (HSys.runPreFix HSys.init keptHistory).2 =
      [.received, .handle 0, .received, .edited .ok, .queued,
       .tx ([1, 3, 1, 20] ++ List.replicate 42 0)] := by
  decide +kernel

end PlumVerif.C18Heap

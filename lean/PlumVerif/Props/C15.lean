import PlumVerif.Spec.C15
import PlumVerif.Proofs.Versions
/-
C15 — frame-version announcements trigger exactly the needed refreshes.

`announce s w` is what one announcement `w` (wire pairs) does to a device in ANY state `s`
(any recorded versions, any unsupported set) — so every theorem below holds at every point of
every announcement history; `exact_refreshes` states it for histories explicitly.
-/
namespace PlumVerif.C15

/-! ### tables -/

/-- every kind for which the library can build a request is a known frame type -/
theorem requestKinds_known : ∀ k ∈ Gen.requestKinds, known k = true := by decide

/-- the kinds a device asks for during set-up (those that can be reported unsupported) are
request kinds -/
theorem setup_kinds_are_request_kinds : ∀ e ∈ Gen.setupFrames, creatable e.1 = true := by decide

theorem creatable_known (k : Nat) (h : creatable k = true) : known k = true :=
  requestKinds_known k (by simpa [creatable] using h)

/-! ### the announcement as the callback sees it -/

/-- a decoded announcement lists every code once … -/
theorem dictOf_keys_nodup (w : List Entry) : (keys (dictOf w)).Nodup := dictOf_keys_nodup' w

/-- … with the version of its last occurrence on the wire -/
theorem dictOf_lookup (w : List Entry) (k : Nat) : (dictOf w).lookup k = w.reverse.lookup k :=
  dictOf_lookup' w k

/-! ### one announcement, any state -/

/-- **exact effect of an announcement** in any state: the callback looks at the entries up to
the first one for which `Request.create` raises (`live`); among those it queues one request for
exactly the entries that are known, supported and differ from the record (`refresh`), in
order, and records exactly their versions; the unsupported set is untouched -/
theorem announce_exact (s : St) (w : List Entry) :
    (announce s w).queued = ((live s (dictOf w)).filter (refresh s)).map (·.1) ∧
    (announce s w).raised = (dictOf w).any (trips s) ∧
    (announce s w).st.unsupported = s.unsupported ∧
    ∀ k, recorded (announce s w).st k =
      match ((live s (dictOf w)).filter (refresh s)).lookup k with
      | some v => some v
      | none => recorded s k :=
  process_exact s (dictOf w) (dictOf_keys_nodup w)

/-- no entry of the announcement is a known response/message code in need of a refresh — the
situation the statement speaks about (request kinds and unknown codes) -/
def NoForeign (s : St) (w : List Entry) : Prop := ∀ e ∈ dictOf w, trips s e = false

theorem live_of_noForeign (s : St) (w : List Entry) (h : NoForeign s w) : live s (dictOf w) = dictOf w := by
  unfold live
  apply takeWhile_all
  intro e he; simp [h e he]

/-- **queued iff needed**: a request of kind `k` is queued iff the announcement carries a
version `v` for `k`, `k` is a kind the library can request, the device supports it, and `v`
differs from the recorded version -/
theorem queued_iff (s : St) (w : List Entry) (h : NoForeign s w) (k : Nat) :
    k ∈ (announce s w).queued ↔
      ∃ v, (k, v) ∈ dictOf w ∧ creatable k = true ∧ s.unsupported.contains k = false ∧
        recorded s k ≠ some v := by
  rw [(announce_exact s w).1, live_of_noForeign s w h]
  simp only [List.mem_map, List.mem_filter, refresh, needs, Bool.and_eq_true, Bool.not_eq_true',
    bne_iff_ne, ne_eq]
  constructor
  · rintro ⟨⟨k', v⟩, ⟨hm, ⟨⟨_, hs⟩, hr⟩, hc⟩, rfl⟩
    exact ⟨v, hm, hc, hs, hr⟩
  · rintro ⟨v, hm, hc, hs, hr⟩
    exact ⟨(k, v), ⟨hm, ⟨⟨creatable_known k hc, hs⟩, hr⟩, hc⟩, rfl⟩

/-- **one request per kind**: no kind is queued twice by one announcement (foreign or not) -/
theorem queued_nodup (s : St) (w : List Entry) : (announce s w).queued.Nodup := by
  rw [(announce_exact s w).1]
  have h := dictOf_keys_nodup w
  have hsub : (((live s (dictOf w)).filter (refresh s)).map (·.1)).Sublist (keys (dictOf w)) :=
    ((List.filter_sublist).trans (List.takeWhile_sublist _)).map _
  exact hsub.nodup h

/-- **nothing else is queued**: whatever the announcement contains (unknown codes, response
codes, unsupported kinds), every queued request is of a known request kind that the device
supports and whose announced version differs from the record -/
theorem queued_only_if (s : St) (w : List Entry) (k : Nat) (hk : k ∈ (announce s w).queued) :
    creatable k = true ∧ known k = true ∧ s.unsupported.contains k = false ∧
      ∃ v, (k, v) ∈ dictOf w ∧ recorded s k ≠ some v := by
  rw [(announce_exact s w).1] at hk
  simp only [List.mem_map, List.mem_filter, refresh, needs, Bool.and_eq_true, Bool.not_eq_true',
    bne_iff_ne, ne_eq] at hk
  obtain ⟨⟨k', v⟩, ⟨hm, ⟨⟨hkn, hs⟩, hr⟩, hc⟩, rfl⟩ := hk
  exact ⟨hc, hkn, hs, v, (List.takeWhile_sublist _).subset hm, hr⟩

/-- **the record is updated**: afterwards the record of a supported request kind that was
announced is the announced version (the last one on the wire); every other record is unchanged -/
theorem recorded_after (s : St) (w : List Entry) (h : NoForeign s w) (k : Nat) :
    recorded (announce s w).st k =
      match w.reverse.lookup k with
      | some v => if creatable k && !s.unsupported.contains k then some v else recorded s k
      | none => recorded s k := by
  rw [(announce_exact s w).2.2.2 k, live_of_noForeign s w h, ← dictOf_lookup]
  have hnd := dictOf_keys_nodup w
  generalize dictOf w = d at hnd
  induction d with
  | nil => rfl
  | cons e d ih =>
    obtain ⟨e1, e2⟩ := e
    simp only [keys, List.map_cons, List.nodup_cons] at hnd
    simp only [List.filter_cons, List.lookup_cons]
    by_cases hke : k = e1
    · subst hke
      have hnone : ∀ p : Entry → Bool, (d.filter p).lookup k = none := fun p =>
        lookup_none_of_not_mem _ _ (fun hm => hnd.1 (by
          simp only [keys, List.mem_map] at hm ⊢
          obtain ⟨x, hx, rfl⟩ := hm
          exact ⟨x, (List.mem_filter.1 hx).1, rfl⟩))
      simp only [beq_self_eq_true]
      by_cases hr : refresh s (k, e2) = true
      · simp only [hr, if_true, List.lookup_cons, beq_self_eq_true]
        simp only [refresh, needs, Bool.and_eq_true, Bool.not_eq_true'] at hr
        have hcond : (creatable k && !s.unsupported.contains k) = true := by rw [hr.2, hr.1.1.2]; rfl
        simp only [hcond, if_true]
      · simp only [hr, Bool.false_eq_true, if_false, hnone]
        by_cases hc : (creatable k && !s.unsupported.contains k) = true
        · simp only [hc, if_true]
          simp only [Bool.and_eq_true, Bool.not_eq_true'] at hc
          simp only [refresh, needs, creatable_known k hc.1, hc.2, hc.1, Bool.not_false, Bool.true_and,
            Bool.and_true, bne_iff_ne, ne_eq, Decidable.not_not] at hr
          exact hr
        · simp only [hc, Bool.false_eq_true, if_false]
    · have hb : (k == e1) = false := by simpa using hke
      simp only [hb]
      by_cases hr : refresh s (e1, e2) = true
      · simp only [hr, if_true, List.lookup_cons, hb]; exact ih hnd.2
      · simp only [hr, Bool.false_eq_true, if_false]; exact ih hnd.2

/-- **an unchanged version queues nothing**: the same announcement again queues no request -/
theorem repeat_queues_nothing (s : St) (w : List Entry) (h : NoForeign s w) :
    (announce (announce s w).st w).queued = [] := by
  have hu := (announce_exact s w).2.2.1
  have hnf : NoForeign (announce s w).st w := by
    intro e he
    have := h e he
    simp only [trips, needs, Bool.and_eq_true, Bool.not_eq_true', hu] at this ⊢
    by_cases hc : creatable e.1 = true
    · simp [hc]
    · have hc' : creatable e.1 = false := by simpa using hc
      have hrec := recorded_after s w h e.1
      simp only [hc', Bool.false_and, Bool.false_eq_true, if_false] at hrec
      have hsame : recorded (announce s w).st e.1 = recorded s e.1 := by
        rw [hrec]; cases w.reverse.lookup e.1 <;> rfl
      rw [hsame]; exact this
  apply List.eq_nil_iff_forall_not_mem.2
  intro k hk
  obtain ⟨v, hm, hc, hs, hr⟩ := (queued_iff _ w hnf k).1 hk
  apply hr
  rw [hu] at hs
  have hl : (dictOf w).lookup k = some v := by
    have hnd := dictOf_keys_nodup w
    generalize dictOf w = d at hnd hm
    induction d with
    | nil => simp at hm
    | cons e d ih =>
      obtain ⟨e1, e2⟩ := e
      simp only [keys, List.map_cons, List.nodup_cons] at hnd
      simp only [List.lookup_cons]
      rcases List.mem_cons.1 hm with heq | hin
      · injection heq with h1 h2; subst h1; subst h2; simp
      · have : k ≠ e1 := fun hke => hnd.1 (by
          simp only [List.mem_map]; exact ⟨(k, v), hin, hke⟩)
        have hb : (k == e1) = false := by simpa using this
        simp only [hb]; exact ih hnd.2 hin
  rw [recorded_after s w h k, ← dictOf_lookup, hl]
  have hcond : (creatable k && !s.unsupported.contains k) = true := by rw [hc, hs]; rfl
  simp only [hcond, if_true]

/-! ### histories -/

theorem run_append (s : St) (a b : List Ev) : run s (a ++ b) = run s a ++ run (final s a) b := by
  induction a generalizing s with
  | nil => rfl
  | cons e a ih => simp [run, final, ih]

theorem run_length (s : St) (a : List Ev) : (run s a).length = a.length := by
  induction a generalizing s with
  | nil => rfl
  | cons e a ih => simp [run, ih]

/-- **C15, over all announcement sequences**: in every history (announcements and
`frame_errors` dispatches in any order, from any initial state), the requests queued by an
announcement are determined as `announce_exact` says by the state the history before it
produced — in particular (`queued_iff`) a kind is queued iff it is a supported request kind
whose announced version differs from the one recorded so far, and (`recorded_after`) the
record then holds the announced version -/
theorem exact_refreshes (s0 : St) (pre post : List Ev) (w : List Entry) :
    (run s0 (pre ++ .announce w :: post))[pre.length]? = some (announce (final s0 pre) w) ∧
    (announce (final s0 pre) w).queued =
      ((live (final s0 pre) (dictOf w)).filter (refresh (final s0 pre))).map (·.1) := by
  refine ⟨?_, (announce_exact _ w).1⟩
  rw [run_append, List.getElem?_append_right (by simp [run_length])]
  simp [run_length, run, step]

/-- in every history, every request ever queued is of a known request kind that was supported
at that moment: unknown codes, response codes and unsupported kinds never queue anything -/
theorem never_queues_unknown_or_unsupported (s0 : St) (evs : List Ev) :
    ∀ r ∈ run s0 evs, ∀ k ∈ r.queued, creatable k = true ∧ known k = true := by
  induction evs generalizing s0 with
  | nil => simp [run]
  | cons e evs ih =>
    intro r hr k hk
    simp only [run, List.mem_cons] at hr
    rcases hr with rfl | hr
    · cases e with
      | announce w => have := queued_only_if s0 w k hk; exact ⟨this.1, this.2.1⟩
      | errors ks => simp [step] at hk
    · exact ih _ r hr k hk

/-! ### the record after a whole history -/

/-- the statement's situation at every announcement of a history -/
def NoForeignHist : St → List Ev → Prop
  | _, [] => True
  | s, .announce w :: es => NoForeign s w ∧ NoForeignHist (announce s w).st es
  | s, .errors ks :: es => NoForeignHist { s with unsupported := ks } es

/-- what the statement says the library has recorded for kind `k` after a history, read off the
history alone: start from the record `r` and the unsupported set `u`; `frame_errors` replaces the
set; an announcement that carries `k` (last occurrence on the wire: version `v`) while `k` is a
request kind the device supports makes the record `v` -/
def histRecord (k : Nat) : List Nat → Option Nat → List Ev → Option Nat
  | _, r, [] => r
  | _, r, .errors ks :: es => histRecord k ks r es
  | u, r, .announce w :: es =>
    histRecord k u
      (match w.reverse.lookup k with
       | some v => if creatable k && !u.contains k then some v else r
       | none => r) es

/-- **the recorded version after ANY announcement history** (announcements and `frame_errors`
dispatches in any order, from any state) is the version of the last announcement that carried
the kind while it was a supported request kind — by induction from `recorded_after` -/
theorem recorded_history (s : St) (evs : List Ev) (h : NoForeignHist s evs) (k : Nat) :
    recorded (final s evs) k = histRecord k s.unsupported (recorded s k) evs := by
  induction evs generalizing s with
  | nil => rfl
  | cons e evs ih =>
    cases e with
    | errors ks =>
      simp only [final, step, histRecord]
      exact ih _ h
    | announce w =>
      simp only [final, step, histRecord]
      rw [ih _ h.2, (announce_exact s w).2.2.1, recorded_after s w h.1 k]

/-- … hence: when the last announcement carrying `k` finds it supported, its version is the record,
whatever was announced before and whatever else is announced after -/
theorem recorded_is_last_announced (s : St) (pre post : List Ev) (w : List Entry) (k v : Nat)
    (h : NoForeignHist s (pre ++ .announce w :: post))
    (hw : w.reverse.lookup k = some v) (hc : creatable k = true)
    (hs : (final s pre).unsupported.contains k = false)
    (hpost : ∀ e ∈ post, ∀ w', e = .announce w' → w'.reverse.lookup k = none) :
    recorded (final s (pre ++ .announce w :: post)) k = some v := by
  have hsplit : ∀ (s : St) (a b : List Ev), final s (a ++ b) = final (final s a) b := by
    intro s a b; induction a generalizing s with
    | nil => rfl
    | cons e a ih => simp only [List.cons_append, final]; exact ih _
  have hN : ∀ (s : St) (a b : List Ev), NoForeignHist s (a ++ b) → NoForeignHist (final s a) b := by
    intro s a b; induction a generalizing s with
    | nil => exact id
    | cons e a ih =>
      cases e with
      | errors ks => intro h; exact ih _ h
      | announce w => intro h; exact ih _ h.2
  rw [hsplit]
  have h2 := hN s pre _ h
  simp only [final, step]
  rw [recorded_history _ post h2.2 k, (announce_exact _ w).2.2.1, recorded_after _ w h2.1 k, hw, hc, hs]
  simp only [Bool.not_false, Bool.and_self, if_true]
  clear h2 h hs
  generalize (final s pre).unsupported = u
  induction post generalizing u with
  | nil => rfl
  | cons e post ih =>
    cases e with
    | errors ks =>
      simp only [histRecord]
      exact ih (fun e he => hpost e (List.mem_cons_of_mem _ he)) ks
    | announce w' =>
      simp only [histRecord, hpost _ (List.mem_cons_self ..) w' rfl]
      exact ih (fun e he => hpost e (List.mem_cons_of_mem _ he)) u

example : recorded (final init [.announce [(49, 1)], .errors [50], .announce [(49, 7), (50, 3)], .announce [(54, 2)]]) 49 = some 7 ∧
    recorded (final init [.announce [(49, 1)], .errors [50], .announce [(49, 7), (50, 3)], .announce [(54, 2)]]) 50 = none := by
  decide

/-! ### the judge -/

theorem expected_process (j : Judge) (s : St) (hs : j.seen = s.versions) (hu : j.unsupported = s.unsupported)
    (es : List Entry) :
    (expected j es).1 = (process s es).queued ∧ (expected j es).2.2 = !(process s es).raised ∧
      ((expected j es).2.1.seen = (process s es).st.versions ∧
        (expected j es).2.1.unsupported = (process s es).st.unsupported) := by
  induction es generalizing j s with
  | nil => simp [expected, process, hs, hu]
  | cons e es ih =>
    obtain ⟨k, v⟩ := e
    have hrec : (j.seen.lookup k != some v) = (recorded s k != some v) := by rw [hs]; rfl
    by_cases hcond : (!j.unsupported.contains k && (j.seen.lookup k != some v)) = true
    · by_cases hreq : isRequestKind k = true
      · have hn : needs s (k, v) = true := by
          rw [hrec, hu] at hcond
          simp only [needs, creatable_known k hreq, Bool.true_and]; exact hcond
        have hc : creatable k = true := hreq
        have := ih { j with seen := (k, v) :: j.seen } (record s k v) (by simp [record, hs]) (by simp [record, hu])
        simp only [expected, hcond, hreq, if_true, process, hn, hc]
        exact ⟨by rw [this.1], this.2.1, this.2.2⟩
      · have hreq' : isRequestKind k = false := by simpa using hreq
        have hc : creatable k = false := hreq'
        by_cases hk : known k = true
        · have hn : needs s (k, v) = true := by
            rw [hrec, hu] at hcond
            simp only [needs, hk, Bool.true_and]; exact hcond
          simp only [expected, hcond, hreq', isForeign, hk, if_true, Bool.false_eq_true, if_false,
            Bool.not_false, Bool.and_self, process, hn, hc]
          simp [hs, hu]
        · have hk' : known k = false := by simpa using hk
          have hn : needs s (k, v) = false := by simp [needs, hk']
          simp only [expected, hcond, hreq', isForeign, hk', if_true, Bool.false_and, Bool.false_eq_true,
            if_false, process, hn]
          exact ih j s hs hu
    · have hn : needs s (k, v) = false := by
        rw [hrec, hu] at hcond
        simp only [needs]
        cases known k <;> simp_all
      simp only [expected, hcond, Bool.false_eq_true, if_false, process, hn]
      exact ih j s hs hu

theorem judge_run (j : Judge) (s : St) (hs : j.seen = s.versions) (hu : j.unsupported = s.unsupported)
    (evs : List Ev) : judge j (evs.zip ((run s evs).map (·.queued))) = true := by
  induction evs generalizing j s with
  | nil => rfl
  | cons e evs ih =>
    cases e with
    | errors ks =>
      simp only [run, step, List.map_cons, List.zip_cons_cons, judge, List.isEmpty_nil, Bool.true_and]
      exact ih _ _ hs rfl
    | announce w =>
      simp only [run, step, List.map_cons, List.zip_cons_cons, judge]
      obtain ⟨h1, h2, h3⟩ := expected_process j s hs hu (dictOf w)
      rcases hexp : expected j (dictOf w) with ⟨q, j', ok⟩
      rw [hexp] at h1 h2 h3
      simp only at h1 h2 h3
      simp only [announce, ← h1, beq_self_eq_true, Bool.true_and]
      exact ih j' _ h3.1 h3.2

/-- the judge keeps judging after a foreign entry: a history in which the announcement after one
queues a request three times and the next one an unannounced kind is rejected (audit item 7) -/
example : spec [.announce [(177, 1)], .announce [(49, 1)], .announce [(49, 1)]] [[], [49, 49, 49], [50]] = false := by decide

example : spec [.announce [(177, 1)], .announce [(49, 1)], .announce [(49, 1)]] [[], [49], []] = true := by decide

/-- **C15 holds**: every history of the model passes the judge applied to the implementation -/
theorem holds (evs : List Ev) : spec evs ((run init evs).map (·.queued)) = true := by
  simp only [spec, List.length_map, run_length, beq_self_eq_true, Bool.true_and]
  exact judge_run ⟨[], []⟩ init rfl rfl evs

/-! ### failed `request()` calls in the history -/

theorem run2_length (s : St) (a : List Ev2) : (run2 s a).length = a.length := by
  induction a generalizing s with
  | nil => rfl
  | cons e a ih => simp [run2, ih]

/-- **a failed request() is inert**: it queues its own attempts and leaves the recorded versions
and the unsupported kinds exactly as they were — so the final state of a history is that of the
history without the `request()` calls, and every theorem above about announcements applies to the
state an announcement finds, whatever requests failed before it -/
theorem request_inert (s : St) (k n : Nat) :
    (step2 s (.request k n)).st = s ∧ (step2 s (.request k n)).queued = List.replicate n k := ⟨rfl, rfl⟩

theorem final2_strip (s : St) (evs : List Ev2) : final2 s evs = final s (strip evs) := by
  induction evs generalizing s with
  | nil => rfl
  | cons e evs ih =>
    cases e with
    | ev e => simp only [final2, strip, final, step2]; exact ih _
    | request k n => simp only [final2, strip, step2]; exact ih _

theorem judge2_run (j : Judge) (s : St) (hs : j.seen = s.versions) (hu : j.unsupported = s.unsupported)
    (evs : List Ev2) : judge2 j (evs.zip ((run2 s evs).map (·.queued))) = true := by
  induction evs generalizing j s with
  | nil => rfl
  | cons e evs ih =>
    cases e with
    | request k n =>
      simp only [run2, step2, List.map_cons, List.zip_cons_cons, judge2, beq_self_eq_true, Bool.true_and]
      exact ih _ _ hs hu
    | ev e =>
      cases e with
      | errors ks =>
        simp only [run2, step2, step, List.map_cons, List.zip_cons_cons, judge2, List.isEmpty_nil, Bool.true_and]
        exact ih _ _ hs rfl
      | announce w =>
        simp only [run2, step2, step, List.map_cons, List.zip_cons_cons, judge2]
        obtain ⟨h1, h2, h3⟩ := expected_process j s hs hu (dictOf w)
        rcases hexp : expected j (dictOf w) with ⟨q, j', ok⟩
        rw [hexp] at h1 h2 h3
        simp only at h1 h2 h3
        simp only [announce, ← h1, beq_self_eq_true, Bool.true_and]
        exact ih j' _ h3.1 h3.2

/-- every history with failed `request()` calls passes the judge applied to the implementation -/
theorem holds2 (evs : List Ev2) : spec2 evs ((run2 init evs).map (·.queued)) = true := by
  simp only [spec2, List.length_map, run2_length, beq_self_eq_true, Bool.true_and]
  exact judge2_run ⟨[], []⟩ init rfl rfl evs

/-- a request() that failed after set-up does not make its kind unsupported: the next changed
version is refreshed -/
example : (run2 init [.ev (.errors []), .ev (.announce [(54, 1)]), .request 54 2, .ev (.announce [(54, 2)])]).map (·.queued)
    = [[], [54], [54, 54], [54]] := by decide

/-! ### non-vacuity -/

example : (run init [.errors [61], .announce [(49, 1), (50, 1), (61, 5), (200, 1)], .announce [(49, 1), (50, 2)],
    .announce [(49, 3), (49, 4), (50, 2), (49, 5)]]).map (·.queued) = [[], [49, 50], [50], [49]] := by decide

example : NoForeign init [(49, 1), (200, 7), (61, 5)] := by unfold NoForeign; decide

/-- a known response code in need of a refresh makes the callback raise: later entries are lost -/
example : (announce init [(54, 1), (177, 1), (57, 1)]).queued = [54] ∧
    (announce init [(54, 1), (177, 1), (57, 1)]).raised = true := by decide

end PlumVerif.C15

import PlumVerif.Props.TieNetVersion
import PlumVerif.Props.C02
import PlumVerif.Props.C03
/-
Tie: the Lean definition translated from the SOURCE TEXT of `ProgramVersionStructure.encode`
(`pyplumio/structures/program_version.py`; Generated/PyCodeTypes.lean) equals the byte-level model `Version.encode` of
Model/NetVersion.lean: for EVERY data dict whose "version" entry is the `VersionInfo` instance `versionV v` of a model value
(every software triple of natural numbers — written `'a.b.c'`, split at the dots and read back with `int` —, every tag /
device id / processor signature byte string of ANY length (the `Ns` formats truncate or NUL-pad), every structure version)
and every sender address, the translated method returns exactly `Version.encode v sender`: the order of the eight fields of
`<2sB2s3s3HB`, the three software numbers little-endian in the order major, minor, patch, the sender address last; a number
that does not fit its field is `struct.error`.  A dict without the key encodes the data-class defaults, whose software text is
the module constant `SOFTWARE_VERSION`: a PARAMETER of the translated function (it is computed from the installed package's
version at import time; the CPython validation passes the run-time value), here any `'a.b.c'`.

Composed with `ProgramVersionStructure_decode_eq`: `version_roundtrip_code` (C03) and `version_layout_code` (C02).

WHAT THE STATEMENT EXCLUDES: a `software` text that is not three dot-separated plain decimal numbers (Python: ValueError or a
different number of star-arguments — validated against CPython only); a negative or non-int sender; `self.frame.sender` must be
readable (hypotheses `hf`, `hsn`).
-/
namespace PlumVerif.TieNetVersionEnc
open PlumVerif PlumVerif.Py PlumVerif.TieNetVersion
set_option linter.unusedSimpArgs false

/-! ### `int(str(n)) = n`, `'a.b.c'.split('.', 2)` -/

theorem digits_toString (n : Nat) : (toString n).toList = Nat.toDigits 10 n := by
  rw [Nat.toString_eq_repr, Nat.toList_repr]

theorem int_of_text_nat (n : Nat) : PyT.int_of_text (toString n) = .ok (.int n) := by
  have hne : (Nat.toDigits 10 n).isEmpty = false := by
    cases h : Nat.toDigits 10 n with
    | nil => exact absurd h Nat.toDigits_ne_nil
    | cons _ _ => rfl
  have hall : (Nat.toDigits 10 n).all Char.isDigit = true := by
    rw [List.all_eq_true]; intro c hc; exact Nat.isDigit_of_mem_toDigits (by decide) (by decide) hc
  have hf : (Nat.toDigits 10 n).foldl (fun acc c => acc * 10 + (c.toNat - 48)) 0 = n := by
    have := @Nat.ofDigitChars_ten_toDigits n
    rw [Nat.ofDigitChars_eq_foldl] at this
    have e : (fun (sofar : Nat) (c : Char) => 10 * sofar + (c.toNat - '0'.toNat)) = (fun acc c => acc * 10 + (c.toNat - 48)) := by
      funext a c; rw [Nat.mul_comm]; rfl
    rw [e] at this; exact this
  simp [PyT.int_of_text, digits_toString, hne, hall, hf]

theorem nodot (n : Nat) : '.' ∉ Nat.toDigits 10 n := by
  intro h
  have := Nat.isDigit_of_mem_toDigits (b := 10) (by decide) (by decide) h
  exact absurd this (by decide)

theorem split_last (sep : Char) (k : Nat) (xs cur : List Char) (h : sep ∉ xs) :
    PyT.splitChars sep k xs cur = [cur.reverse ++ xs] := by
  induction xs generalizing k cur with
  | nil => cases k <;> simp [PyT.splitChars]
  | cons c r ih =>
    have hc : c ≠ sep := fun e => h (e ▸ List.mem_cons_self)
    have hr : sep ∉ r := fun m => h (List.mem_cons_of_mem _ m)
    cases k with
    | zero => simp [PyT.splitChars]
    | succ k => simp [PyT.splitChars, hc, ih _ _ hr]

theorem split_step (sep : Char) (k : Nat) (xs rest cur : List Char) (h : sep ∉ xs) :
    PyT.splitChars sep (k + 1) (xs ++ sep :: rest) cur = (cur.reverse ++ xs) :: PyT.splitChars sep k rest [] := by
  induction xs generalizing cur with
  | nil => simp [PyT.splitChars]
  | cons c r ih =>
    have hc : c ≠ sep := fun e => h (e ▸ List.mem_cons_self)
    have hr : sep ∉ r := fun m => h (List.mem_cons_of_mem _ m)
    simp [PyT.splitChars, hc, ih _ hr]

theorem softwareText_toList (a b c : Nat) :
    (softwareText a b c).toList = Nat.toDigits 10 a ++ '.' :: (Nat.toDigits 10 b ++ '.' :: Nat.toDigits 10 c) := by
  have ha : ¬ ((a : Int) < 0) := by omega
  have hb : ¬ ((b : Int) < 0) := by omega
  have hc : ¬ ((c : Int) < 0) := by omega
  simp [softwareText, PyT.intText, ha, hb, hc, Nat.toList_repr]

/-- `map(int, 'a.b.c'.split('.', 2))` gives back the three numbers -/
theorem split_map_int (a b c : Nat) :
    (PyT.str_split (.str (softwareText a b c)) (.str ".") (.int 2) >>= PyT.map_int) = .ok (.list [.int a, .int b, .int c]) := by
  have h2 : ¬ ((2 : Int) < 0) := by omega
  simp only [PyT.str_split, h2, if_false, softwareText_toList, pure_eq_ok, ok_bind]
  have e : (".".toList) = ['.'] := rfl
  simp only [e]
  rw [show (2 : Int).toNat = 1 + 1 from rfl, split_step _ _ _ _ _ (nodot a), split_step _ _ _ _ _ (nodot b), split_last _ _ _ _ (nodot c)]
  simp only [List.reverse_nil, List.nil_append, List.map, PyT.map_int, Py.iter, pure_eq_ok, ok_bind, List.mapM_cons, List.mapM_nil,
    ← digits_toString, String.ofList_toList, int_of_text_nat, bind_pure_comp, map_pure]

/-! ### the struct fields -/

theorem encodeLE_eq (n k : Nat) : Py.encodeLE n k = PlumVerif.encodeLE n k := by
  induction k generalizing n with
  | zero => rfl
  | succ k ih => simp [Py.encodeLE, PlumVerif.encodeLE, ih]

theorem len_encodeLE (n k : Nat) : (PlumVerif.encodeLE n k).length = k := by
  induction k generalizing n with
  | zero => rfl
  | succ k ih => simp [PlumVerif.encodeLE, ih]

theorem encodeLE1 (n : Nat) (h : n < 256) : PlumVerif.encodeLE n 1 = [n.toUInt8] := by
  simp [PlumVerif.encodeLE, Nat.mod_eq_of_lt h]

theorem get_v (v : VersionInfo) :
    PyT.getattr (versionV v) "struct_tag" = .ok (.bytes v.structTag) ∧
    PyT.getattr (versionV v) "struct_version" = .ok (.int v.structVersion) ∧
    PyT.getattr (versionV v) "device_id" = .ok (.bytes v.deviceId) ∧
    PyT.getattr (versionV v) "processor_signature" = .ok (.bytes v.processorSignature) ∧
    PyT.getattr (versionV v) "software" = .ok (.str (softwareText v.a v.b v.c)) := by
  simp [PyT.getattr, Py.lookup, Py.mkobj, versionV, PyT.isUnset]

theorem num_field (w : Nat) (n : Nat) (fs : List PyT.SField) (xs : List V) :
    PyT.spackFields (.num w :: fs) (.int n :: xs)
      = if n < 256 ^ w then (PyT.spackFields fs xs >>= fun rest => .ok (Py.encodeLE n w ++ rest)) else .error .StructError := by
  have h0 : (0 : Int) ≤ (n : Int) := by omega
  have hc : ((n : Int) < ((256 ^ w : Nat) : Int)) ↔ n < 256 ^ w := by omega
  simp only [PyT.spackFields, asInt?, h0, true_and, hc, Int.toNat_natCast]
  rfl

theorem str_field (k : Nat) (b : List UInt8) (fs : List PyT.SField) (xs : List V) :
    PyT.spackFields (.str k :: fs) (.bytes b :: xs)
      = (PyT.spackFields fs xs >>= fun rest => .ok ((b ++ List.replicate k 0).take k ++ rest)) := rfl

theorem pack_version (v : VersionInfo) (sender : Nat) :
    PyT.struct_pack_into_s "<2sB2s3s3HB" (.bytes (List.replicate 15 0)) (.int 0)
        [.bytes v.structTag, .int v.structVersion, .bytes v.deviceId, .bytes v.processorSignature, .int v.a, .int v.b, .int v.c, .int sender]
      = (match Version.encode v sender with
        | some b => .ok (.bytes b)
        | none => .error .StructError) := by
  have h0 : ¬ ((0 : Int) < 0) := by omega
  simp only [PyT.struct_pack_into_s, fmt_version, h0, if_false, str_field, num_field, Version.encode, Version.fit]
  have p1 : (256 : Nat) ^ 1 = 256 := rfl
  have p2 : (256 : Nat) ^ 2 = 65536 := rfl
  have he : PyT.spackFields [] [] = .ok [] := rfl
  simp only [p1, p2, he, ok_bind]
  by_cases hsv : v.structVersion < 256
  · by_cases ha : v.a < 65536
    · by_cases hb : v.b < 65536
      · by_cases hc : v.c < 65536
        · by_cases hs : sender < 256
          · have l2 : ∀ x : List UInt8, (List.take 2 (x ++ List.replicate 2 0)).length = 2 := by
              intro x; simp [List.length_take]
            have l3 : ∀ x : List UInt8, (List.take 3 (x ++ List.replicate 3 0)).length = 3 := by
              intro x; simp [List.length_take]
            simp [hsv, ha, hb, hc, hs, encodeLE_eq, encodeLE1, len_encodeLE, l2, l3]
          · simp [hsv, ha, hb, hc, hs]
        · simp [hsv, ha, hb, hc]
      · simp [hsv, ha, hb]
    · simp [hsv, ha]
  · simp [hsv]

/-- **`ProgramVersionStructure.encode`** = `Version.encode`, for every data dict holding the instance of `v` under "version" and every
structure instance whose frame's sender is `sender`; `k` (the module constant SOFTWARE_VERSION) is not consulted -/
theorem ProgramVersionStructure_encode_eq (k self fr : V) (sender : Nat) (hf : PyT.getattr self "frame" = .ok fr)
    (hsn : PyT.getattr fr "sender" = .ok (.int sender)) (v : VersionInfo) (ks : List String) (vs : List V)
    (hl : Py.lookup ks vs "version" = some (versionV v)) :
    PyCodeTypes.ProgramVersionStructure_encode k self (.dict ks vs)
      = (match Version.encode v sender with
        | some b => .ok (.bytes b, self)
        | none => .error .StructError) := by
  obtain ⟨g1, g2, g3, g4, g5⟩ := get_v v
  have hg : ∀ d, Py.dict_get (.dict ks vs) PyCodeTypes.c_ATTR_VERSION d = .ok (versionV v) := by
    intro d; simp [Py.dict_get, PyCodeTypes.c_ATTR_VERSION, hl]
  have hba : Py.bytearray (.int 15) = .ok (.bytes (List.replicate 15 0)) := rfl
  have hsm := split_map_int v.a v.b v.c
  unfold PyCodeTypes.ProgramVersionStructure_encode
  simp only [hba, hg, ok_bind, g1, g2, g3, g4, g5, hf, hsn]
  cases hsp : PyT.str_split (.str (softwareText v.a v.b v.c)) (.str ".") (.int 2) with
  | error e => simp [hsp] at hsm
  | ok t8 =>
    simp only [hsp, ok_bind] at hsm ⊢
    simp only [hsm, ok_bind, PyT.items, Py.iter, pure_eq_ok, List.cons_append, List.nil_append, pack_version]
    cases Version.encode v sender <;> rfl

/-- a data dict WITHOUT the key: the data-class defaults with the software text `k = 'a.b.c'` (SOFTWARE_VERSION) -/
theorem ProgramVersionStructure_encode_default (self fr : V) (sender : Nat) (hf : PyT.getattr self "frame" = .ok fr)
    (hsn : PyT.getattr fr "sender" = .ok (.int sender)) (a b c : Nat) (ks : List String) (vs : List V)
    (hl : Py.lookup ks vs "version" = none) :
    PyCodeTypes.ProgramVersionStructure_encode (.str (softwareText a b c)) self (.dict ks vs)
      = (match Version.encode ⟨a, b, c, [255, 255], 5, [122, 0], [0, 0, 0]⟩ sender with
        | some b => .ok (.bytes b, self)
        | none => .error .StructError) := by
  have e := ProgramVersionStructure_encode_eq (.str (softwareText a b c)) self fr sender hf hsn ⟨a, b, c, [255, 255], 5, [122, 0], [0, 0, 0]⟩
    ("version" :: ks) (versionV ⟨a, b, c, [255, 255], 5, [122, 0], [0, 0, 0]⟩ :: vs) (by simp [Py.lookup])
  rw [← e]
  unfold PyCodeTypes.ProgramVersionStructure_encode
  simp only [Py.dict_get, PyCodeTypes.c_ATTR_VERSION, hl, Option.getD_none, Py.lookup, if_true, Option.getD_some]
  rfl

/-- **C03 `version_roundtrip` on the translated source**: whatever the translated `ProgramVersionStructure.encode` returns for the
instance of `v` (2-byte tag, 2-byte device id, 3-byte signature: longer ones are truncated on the wire), the translated `decode`
returns an equal instance and offset `off + 15` -/
theorem version_roundtrip_code (k self self' fr : V) (sender : Nat) (hf : PyT.getattr self "frame" = .ok fr)
    (hsn : PyT.getattr fr "sender" = .ok (.int sender)) (v : VersionInfo) (ks : List String) (vs : List V)
    (hl : Py.lookup ks vs "version" = some (versionV v))
    (ht : v.structTag.length = 2) (hd : v.deviceId.length = 2) (hp : v.processorSignature.length = 3) (r : V)
    (he : PyCodeTypes.ProgramVersionStructure_encode k self (.dict ks vs) = .ok (r, self)) (off : Int) :
    ∃ m, r = .bytes m ∧ PyCodeTypes.ProgramVersionStructure_decode self' (.bytes m) (.int off) .none
      = .ok (.tuple [.dict ["version"] [versionV v], .int (off + 15)], self') := by
  rw [ProgramVersionStructure_encode_eq k self fr sender hf hsn v ks vs hl] at he
  cases h : Version.encode v sender with
  | none => simp [h] at he
  | some m =>
    simp only [h, Except.ok.injEq, Prod.mk.injEq] at he
    refine ⟨m, he.1.symm, ?_⟩
    rw [ProgramVersionStructure_decode_eq, C03.version_roundtrip v sender h ht hd hp]

/-- **C02 `version_layout` on the translated source** -/
theorem version_layout_code (k self fr : V) (sender : Nat) (hf : PyT.getattr self "frame" = .ok fr)
    (hsn : PyT.getattr fr "sender" = .ok (.int sender)) (v : VersionInfo) (ks : List String) (vs : List V)
    (hl : Py.lookup ks vs "version" = some (versionV v))
    (ht : v.structTag.length = 2) (hd : v.deviceId.length = 2) (hp : v.processorSignature.length = 3) (m : List UInt8)
    (he : PyCodeTypes.ProgramVersionStructure_encode k self (.dict ks vs) = .ok (.bytes m, self)) :
    m.length = 15
    ∧ m.take 2 = v.structTag ∧ (m.getD 2 0).toNat = v.structVersion
    ∧ (m.drop 3).take 2 = v.deviceId ∧ (m.drop 5).take 3 = v.processorSignature
    ∧ PlumVerif.decodeLE ((m.drop 8).take 2) = v.a ∧ PlumVerif.decodeLE ((m.drop 10).take 2) = v.b
    ∧ PlumVerif.decodeLE ((m.drop 12).take 2) = v.c ∧ (m.getD 14 0).toNat = sender := by
  rw [ProgramVersionStructure_encode_eq k self fr sender hf hsn v ks vs hl] at he
  cases h : Version.encode v sender with
  | none => simp [h] at he
  | some b =>
    simp only [h, Except.ok.injEq, Prod.mk.injEq, V.bytes.injEq] at he
    have := C02.version_layout v sender h ht hd hp
    rw [he.1] at this
    exact this

/-- non-vacuity: version 1.2.3 sent by the library (sender 0x56) through the translated encoder -/
example : PyCodeTypes.ProgramVersionStructure_encode (.str "9.9.9")
      (Py.mkobj "ProgramVersionStructure" [("frame", Py.mkobj "Frame" [("sender", .int 0x56)])])
      (.dict ["version"] [versionV ⟨1, 2, 3, [0xff, 0xff], 5, [0x7a, 0], [0, 0, 0]⟩])
    = .ok (.bytes [0xff, 0xff, 5, 0x7a, 0, 0, 0, 0, 1, 0, 2, 0, 3, 0, 0x56],
        Py.mkobj "ProgramVersionStructure" [("frame", Py.mkobj "Frame" [("sender", .int 0x56)])]) := by
  rw [ProgramVersionStructure_encode_eq (sender := 0x56) (fr := Py.mkobj "Frame" [("sender", .int 0x56)]) (hl := rfl)] <;> rfl

end PlumVerif.TieNetVersionEnc

import PlumVerif.Model.Response
import PlumVerif.Props.C02
/-
C02 — the responses the library itself transmits (`Request.response()`): the answer is addressed to
the asker and carries the LIBRARY's sender address, sender type and protocol version, whatever the
request's own header says; and it is a well-formed frame.
-/
namespace PlumVerif.C02
open PlumVerif PlumVerif.Resp

/-- the source answers exactly check-device and program-version, addressing the asker and using its own
header constants (a changed `response()` breaks this lemma) -/
theorem answers_pinned :
    Gen.answers = [(48, 176, 2, 1086, 1048, 1005), (64, 192, 2, 1086, 1048, 1005)] := by decide +kernel

/-- **C02 (answers, intended fields)**: the answer goes to the request's sender, comes from the library's
address with the library's type and version — for EVERY request header and payload -/
theorem respond_fields (req : Fields) (pl : List Byte) (f : Fields) (h : respond req pl = some f) :
    f.rcpt = req.sender ∧ f.sender = 86 ∧ f.etype = 48 ∧ f.ever = 5 ∧ f.payload = pl
    ∧ ((req.kind = 48 ∧ f.kind = 176) ∨ (req.kind = 64 ∧ f.kind = 192)) := by
  unfold respond at h
  rw [answers_pinned] at h
  unfold respondWith at h
  by_cases h48 : req.kind.toNat = 48
  · have hk : req.kind = 48 := by
      apply UInt8.toNat_inj.mp; simpa using h48
    have e48 : decide (48 = UInt8.toNat req.kind) = true := decide_eq_true h48.symm
    simp [List.find?, e48, origin] at h
    subst h
    simp [hk]
  · by_cases h64 : req.kind.toNat = 64
    · have hk : req.kind = 64 := by
        apply UInt8.toNat_inj.mp; simpa using h64
      have e48 : decide (48 = UInt8.toNat req.kind) = false := decide_eq_false (fun e => h48 e.symm)
      have e64 : decide (64 = UInt8.toNat req.kind) = true := decide_eq_true h64.symm
      simp [List.find?, e48, e64, origin] at h
      subst h
      simp [hk]
    · have e48 : decide (48 = UInt8.toNat req.kind) = false := decide_eq_false (fun e => h48 e.symm)
      have e64 : decide (64 = UInt8.toNat req.kind) = false := decide_eq_false (fun e => h64 e.symm)
      simp [List.find?, e48, e64] at h

/-- exactly the two request kinds are answered -/
theorem respond_some_iff (req : Fields) (pl : List Byte) :
    (respond req pl).isSome = (req.kind = 48 ∨ req.kind = 64) := by
  unfold respond
  rw [answers_pinned]
  unfold respondWith
  by_cases h48 : req.kind.toNat = 48
  · have hk : req.kind = 48 := by
      apply UInt8.toNat_inj.mp; simpa using h48
    have e48 : decide (48 = UInt8.toNat req.kind) = true := decide_eq_true h48.symm
    simp [List.find?, e48, origin, hk]
  · by_cases h64 : req.kind.toNat = 64
    · have hk : req.kind = 64 := by
        apply UInt8.toNat_inj.mp; simpa using h64
      have e48 : decide (48 = UInt8.toNat req.kind) = false := decide_eq_false (fun e => h48 e.symm)
      have e64 : decide (64 = UInt8.toNat req.kind) = true := decide_eq_true h64.symm
      simp [List.find?, e48, e64, origin, hk]
    · have n48 : req.kind ≠ 48 := fun e => h48 (by simp [e])
      have n64 : req.kind ≠ 64 := fun e => h64 (by simp [e])
      have e48 : decide (48 = UInt8.toNat req.kind) = false := decide_eq_false (fun e => h48 e.symm)
      have e64 : decide (64 = UInt8.toNat req.kind) = false := decide_eq_false (fun e => h64 e.symm)
      simp [List.find?, e48, e64, n48, n64]

/-- **C02 (answers, envelope)**: what is transmitted in answer is a well-formed frame of those fields -/
theorem respond_wellformed (req : Fields) (pl : List Byte) (f : Fields) (h : respond req pl = some f)
    (hlen : pl.length + 10 < 65536) : spec f (encode f) = true := by
  have hp : f.payload = pl := (respond_fields req pl f h).2.2.2.2.1
  exact holds f (by rw [hp]; exact hlen)

/-- non-vacuity: a check-device request with a foreign header is answered with the library's header -/
example : respond ⟨48, 0, 69, 7, 9, []⟩ [1, 2] = some ⟨176, 69, 86, 48, 5, [1, 2]⟩ := by decide +kernel

end PlumVerif.C02

import PlumVerif.Props.C01
import PlumVerif.Model.ReaderSession
/-
C01 on a reader object that is used again after calls ended abnormally (time-out, cancellation).
-/
namespace PlumVerif.C01
open PlumVerif

theorem completedFuel_calls (fuel : Nat) (s : List Byte) :
    ∀ p ∈ (completedFuel fuel s).1, ∃ s', (readFrame s').1 = p.1 ∧ p.2 = s'.length - (readFrame s').2.length := by
  induction fuel generalizing s with
  | zero => intro p hp; simp [completedFuel] at hp
  | succ k ih =>
    intro p hp
    unfold completedFuel at hp
    split at hp
    · simp at hp
    · simp only [List.mem_cons] at hp
      rcases hp with rfl | hp
      · exact ⟨s, rfl, rfl⟩
      · exact ih _ p hp

theorem readAllFuel_calls (fuel : Nat) (s : List Byte) :
    ∀ p ∈ readAllFuel fuel s, ∃ s', (readFrame s').1 = p.1 ∧ p.2 = s'.length - (readFrame s').2.length := by
  induction fuel generalizing s with
  | zero => intro p hp; simp [readAllFuel] at hp
  | succ k ih =>
    intro p hp
    unfold readAllFuel at hp
    split at hp
    rename_i o r hrf
    split at hp
    · simp only [List.mem_singleton] at hp
      subst hp
      exact ⟨s, by simp [hrf], by simp [hrf]⟩
    · simp only [List.mem_cons] at hp
      rcases hp with rfl | hp
      · exact ⟨s, by simp [hrf], by simp [hrf]⟩
      · exact ih _ p hp

/-- every call of a session -- before or after any number of abandoned calls -- is one call of
`readFrame` on some byte stream: the reader object carries nothing from one call to the next -/
theorem session_calls_are_reads (pending : List Byte) (chunks : List (List Byte)) :
    ∀ o n, SEv.call o n ∈ sessionFrom pending chunks →
      ∃ s', (readFrame s').1 = o ∧ n = s'.length - (readFrame s').2.length := by
  induction chunks generalizing pending with
  | nil =>
    intro o n h
    simp only [sessionFrom, List.mem_map] at h
    obtain ⟨p, hp, hpe⟩ := h
    injection hpe with h1 h2
    subst h1; subst h2
    exact readAllFuel_calls _ _ p hp
  | cons c cs ih =>
    intro o n h
    simp only [sessionFrom, List.mem_append, List.mem_map, List.mem_singleton] at h
    rcases h with (⟨p, hp, hpe⟩ | h) | h
    · injection hpe with h1 h2
      subst h1; subst h2
      exact completedFuel_calls _ _ p hp
    · cases h
    · exact ih _ o n h

/-- **C01 on a re-used reader**: whatever was abandoned before, a frame handed out by a later
call is justified by the bytes THAT call consumed: delimiter-free noise followed by bytes that
satisfy the statement for exactly the delivered fields. -/
theorem session_delivered_only_if_well_formed (chunks : List (List Byte)) (f : Fields) (n : Nat)
    (h : SEv.call (.delivered f) n ∈ session chunks) :
    ∃ noise fr, n = (noise ++ fr).length ∧ (0x68 : Byte) ∉ noise ∧ wf fr f = true := by
  obtain ⟨s', ho, hn⟩ := session_calls_are_reads [] chunks _ _ h
  have hrf : readFrame s' = (.delivered f, (readFrame s').2) := by
    rw [← ho]
  obtain ⟨noise, fr, hs, hno, hwf⟩ := delivered_only_if_well_formed hrf
  refine ⟨noise, fr, ?_, hno, hwf⟩
  have hl := congrArg List.length hs
  simp only [List.length_append] at hl ⊢
  omega

/-- non-vacuity, and the scenario that matters: a call is abandoned after it took the start
delimiter (the rest of the header never came); the bytes that arrive later begin with a short
header-shaped run.  The next call does NOT glue the old delimiter to them: it hunts for a new
delimiter, rejects the run, and the valid frame behind it is delivered. -/
example : session [[0x68], [0x68, 0x03, 0x00, 0x56, 0x45, 0x30, 0x6b,
                          0x68, 0x0a, 0x00, 0x56, 0x45, 0x30, 0x05, 0x40, 0x04, 0x16]] =
    [.abandoned 1, .call (.protoErr .badLength) 7, .call (.delivered ⟨0x40, 0x56, 0x45, 0x30, 0x05, []⟩) 10,
     .abandoned 0, .call .connLost 0] := by decide

end PlumVerif.C01

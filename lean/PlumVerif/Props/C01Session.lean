import PlumVerif.Props.C01SessionBytes
/-
C01 on a reader object that is used again after calls ended abnormally (time-out, cancellation).

Headline (round-8 audit, item 10): `session_calls_are_reads_of_the_fed_bytes`, `session_delivered_bytes` — every
completed call ran on the bytes fed so far, from the position the earlier calls (completed or abandoned) stopped at;
a delivery is justified by the bytes THAT call consumed out of them.  The older statements, which tied only the
NUMBER of bytes to the session (`session_calls_are_reads`, `session_delivered_only_if_well_formed`), are corollaries.
-/
namespace PlumVerif.C01
open PlumVerif

/-- **every completed call of a session is `readFrame` on the bytes of the session**: when the events are
`evs₁ ++ .call o n :: evs₂`, the chunks fed by then (`cs₁`, a prefix of the chunks) are `pre ++ consumed ++ post` with
`|pre|` = what the earlier events took, `|consumed| = n`, `readFrame (consumed ++ post) = (o, post)`.  The reader object
carries nothing but the stream position from one call to the next. -/
theorem session_calls_are_reads_of_the_fed_bytes (chunks : List (List Byte))
    (evs₁ evs₂ : List SEv) (o : Outcome) (n : Nat)
    (h : session chunks = evs₁ ++ .call o n :: evs₂) :
    ∃ cs₁ cs₂, chunks = cs₁ ++ cs₂ ∧ CallAt cs₁.flatten (takenSum evs₁) o n := by
  unfold session at h
  rw [sessionFrom_eq_sessionX] at h
  obtain ⟨st₁, st₂, hs, hc⟩ := sessionX_calls_are_reads_of_the_fed_bytes _ [] evs₁ evs₂ o n h
  obtain ⟨cs₁, cs₂, hcs, hf⟩ := stepsOf_prefix chunks st₁ st₂ hs
  exact ⟨cs₁, cs₂, hcs, by simpa [hf] using hc⟩

/-- **C01 on a re-used reader, on the bytes**: whatever was abandoned before, a frame handed out by a later call is
justified by the bytes THAT call consumed: they lie in the chunks fed so far exactly behind what the earlier calls took
(`|pre| = takenSum evs₁`), and they are delimiter-free noise followed by bytes that satisfy the statement for exactly the
delivered fields. -/
theorem session_delivered_bytes (chunks : List (List Byte)) (evs₁ evs₂ : List SEv) (f : Fields) (n : Nat)
    (h : session chunks = evs₁ ++ .call (.delivered f) n :: evs₂) :
    ∃ cs₁ cs₂ pre noise fr post, chunks = cs₁ ++ cs₂ ∧
      cs₁.flatten = pre ++ (noise ++ fr) ++ post ∧ pre.length = takenSum evs₁ ∧
      (noise ++ fr).length = n ∧ (0x68 : Byte) ∉ noise ∧ wf fr f = true := by
  obtain ⟨cs₁, cs₂, hs, pre, consumed, post, hfed, hk, hn, hrf⟩ :=
    session_calls_are_reads_of_the_fed_bytes chunks evs₁ evs₂ _ n h
  obtain ⟨noise, fr, hcp, hno, hwf⟩ := delivered_only_if_well_formed hrf
  have hc : consumed = noise ++ fr := List.append_cancel_right hcp
  exact ⟨cs₁, cs₂, pre, noise, fr, post, hs, by rw [← hc]; exact hfed, hk, by rw [← hc]; exact hn, hno, hwf⟩

/-- corollary (the older form): every call of a session -- before or after any number of abandoned calls -- is one call
of `readFrame` on some byte stream -/
theorem session_calls_are_reads (pending : List Byte) (chunks : List (List Byte)) :
    ∀ o n, SEv.call o n ∈ sessionFrom pending chunks →
      ∃ s', (readFrame s').1 = o ∧ n = s'.length - (readFrame s').2.length := by
  intro o n h
  rw [sessionFrom_eq_sessionX] at h
  obtain ⟨e1, e2, he⟩ := List.append_of_mem h
  obtain ⟨_, _, _, hc⟩ := sessionX_calls_are_reads_of_the_fed_bytes _ pending e1 e2 o n he
  exact hc.is_read

/-- corollary (the older form, lengths only) of `session_delivered_bytes` -/
theorem session_delivered_only_if_well_formed (chunks : List (List Byte)) (f : Fields) (n : Nat)
    (h : SEv.call (.delivered f) n ∈ session chunks) :
    ∃ noise fr, n = (noise ++ fr).length ∧ (0x68 : Byte) ∉ noise ∧ wf fr f = true := by
  obtain ⟨e1, e2, he⟩ := List.append_of_mem h
  obtain ⟨_, _, _, noise, fr, _, _, _, _, hn, hno, hwf⟩ := session_delivered_bytes chunks e1 e2 f n he
  exact ⟨noise, fr, hn.symm, hno, hwf⟩

/-- non-vacuity, and the scenario that matters: a call is abandoned after it took the start
delimiter (the rest of the header never came); the bytes that arrive later begin with a short
header-shaped run.  The next call does NOT glue the old delimiter to them: it hunts for a new
delimiter, rejects the run, and the valid frame behind it is delivered. -/
example : session [[0x68], [0x68, 0x03, 0x00, 0x56, 0x45, 0x30, 0x6b,
                          0x68, 0x0a, 0x00, 0x56, 0x45, 0x30, 0x05, 0x40, 0x04, 0x16]] =
    [.abandoned 1, .call (.protoErr .badLength) 7, .call (.delivered ⟨0x40, 0x56, 0x45, 0x30, 0x05, []⟩) 10,
     .abandoned 0, .call .connLost 0] := by decide

/-- the same history read through `session_calls_are_reads_of_the_fed_bytes`: the delivery is the call at position
1 + 7 = 8 of the 18 bytes fed, it took the last 10 of them and nothing lay behind -/
example : CallAt ([[0x68], [0x68, 0x03, 0x00, 0x56, 0x45, 0x30, 0x6b,
                          0x68, 0x0a, 0x00, 0x56, 0x45, 0x30, 0x05, 0x40, 0x04, 0x16]] : List (List Byte)).flatten
    (takenSum [.abandoned 1, .call (.protoErr .badLength) 7]) (.delivered ⟨0x40, 0x56, 0x45, 0x30, 0x05, []⟩) 10 :=
  ⟨[0x68, 0x68, 0x03, 0x00, 0x56, 0x45, 0x30, 0x6b], [0x68, 0x0a, 0x00, 0x56, 0x45, 0x30, 0x05, 0x40, 0x04, 0x16], [],
   by decide, by decide, by decide, by decide⟩

end PlumVerif.C01

import PlumVerif.Spec.C20
import PlumVerif.Proofs.Filters
import PlumVerif.Proofs.FiltersPass
/-
C20 — callback filters deliver what they promise over every value sequence.

All theorems quantify over ALL call lists (values of every kind, arbitrary clock readings);
`m.outs cs` are the outcomes of a fresh filter on the calls `cs`, `m.state cs` its state
afterwards.  The `…_snoc` theorems say what a filter does with one more call `c` after ANY
history `pre`, in terms of the history only (Spec/C20.lean), and are proved by induction over
the call list.
-/
namespace PlumVerif.C20
open Machine

/-! ### the tolerance -/

/-- the source's `TOLERANCE` constant (the binary64 value of 0.1, read from filters.py by the
translator) decides closeness of sixteenths exactly like the statement's 0.1 -/
theorem tolerance_is_one_tenth (a b : Int) : close a b = true ↔ 10 * (a - b).natAbs ≤ 16 := close_iff a b

/-- the code's `_significantly_changed` is the statement's "differs", for every pair of values -/
theorem significantly_changed_is_differs (x y : Val) : changed x y = differs x y := changed_eq_differs x y

/-! ### on_change -/

theorem onChange_state (pre : List Call) : onChange.state pre = lastDelivered (onChange.outs pre) := by
  induction pre using snoc_induction with
  | nil => rfl
  | snoc pre c ih =>
    rw [state_snoc, outs_snoc, lastDelivered_snoc, ih]
    show (onChangeStep _ c).1 = match (onChangeStep _ c).2.value? with | some v => some v | none => _
    cases h : lastDelivered (onChange.outs pre) with
    | none => simp [onChangeStep, Out.value?]
    | some d => by_cases hc : changed d c.v = true <;> simp [onChangeStep, Out.value?, hc, h]

/-- **on_change**: after any history, a call is delivered iff nothing was delivered yet or
its value differs from the last one delivered; it is delivered unmodified -/
theorem onChange_snoc (pre : List Call) (c : Call) :
    onChange.outs (pre ++ [c]) = onChange.outs pre ++ [expectOnChange pre (onChange.outs pre) c] := by
  rw [outs_snoc, onChange_state]
  show _ ++ [(onChangeStep _ c).2] = _
  simp only [onChangeStep, expectOnChange, changed_eq_differs]
  cases lastDelivered (onChange.outs pre) with
  | none => rfl
  | some d => by_cases hc : differs d c.v = true <;> simp [hc]

/-- the first value is always delivered -/
theorem onChange_first (c : Call) (cs : List Call) :
    (onChange.outs (c :: cs)).head? = some (.deliver c.v) := rfl

/-- for numbers "differs" is: by more than 0.1 (sixteenths) -/
theorem onChange_num (pre : List Call) (t : Int) (a d : Int)
    (h : lastDelivered (onChange.outs pre) = some (.num d)) :
    (onChange.outs (pre ++ [⟨t, .num a⟩])).getLast? =
      some (if 16 < 10 * (d - a).natAbs then .deliver (.num a) else .skip) := by
  rw [onChange_snoc]
  simp only [List.getLast?_append, List.getLast?_singleton, Option.some_or, expectOnChange, h, differs, Val.numOf]
  by_cases hh : 16 < 10 * (d - a).natAbs <;> simp [hh]

example : onChange.outs [⟨0, .num 320⟩, ⟨1, .num 321⟩, ⟨2, .num 322⟩, ⟨3, .num 322⟩, ⟨4, .str [117]⟩, ⟨4, .str [117]⟩]
    = [.deliver (.num 320), .skip, .deliver (.num 322), .skip, .deliver (.str [117]), .skip] := by decide

/-! ### debounce -/

theorem debounce_state (n : Nat) (pre : List Call) :
    (debounce n).state pre =
      (lastDelivered ((debounce n).outs pre),
       match lastDelivered ((debounce n).outs pre) with
       | none => 0
       | some d => trailing (differs d) (sinceDelivery pre ((debounce n).outs pre))) := by
  induction pre using snoc_induction with
  | nil => rfl
  | snoc pre c ih =>
    rw [state_snoc, outs_snoc, lastDelivered_snoc, sinceDelivery_snoc _ _ _ _ (by simp), ih]
    simp only [debounce_step]
    cases h : lastDelivered ((debounce n).outs pre) with
    | none => simp [debounceStep, Out.value?] <;> rfl
    | some d =>
      simp only [debounceStep, changed_eq_differs, Option.isNone_some, Bool.false_or]
      by_cases hd : differs d c.v = true
      · by_cases hn : n ≤ trailing (differs d) (sinceDelivery pre ((debounce n).outs pre)) + 1
        · simp [hd, hn, Out.value?] <;> rfl
        · simp [hd, hn, Out.value?, trailing_snoc] <;> rfl
      · by_cases hn : n ≤ 0
        · simp [hd, hn, Out.value?] <;> rfl
        · simp [hd, hn, Out.value?, trailing_snoc] <;> rfl

/-- **debounce**: the first value is delivered; afterwards a call is delivered iff the last
`n` consecutive calls since the last delivery, this one included, all differed from the
last delivered value (`le_trailing_iff` spells `n ≤ trailing …` out) -/
theorem debounce_snoc (n : Nat) (pre : List Call) (c : Call) :
    (debounce n).outs (pre ++ [c]) =
      (debounce n).outs pre ++ [expectDebounce n pre ((debounce n).outs pre) c] := by
  rw [outs_snoc, debounce_state]
  simp only [debounce_step, debounceStep, expectDebounce, changed_eq_differs, trailing_snoc]
  cases lastDelivered ((debounce n).outs pre) with
  | none => rfl
  | some d =>
    by_cases hd : differs d c.v = true
    · by_cases hn : n ≤ trailing (differs d) (sinceDelivery pre ((debounce n).outs pre)) + 1 <;> simp [hd, hn]
    · by_cases hn : n ≤ 0 <;> simp [hd, hn]

/-- spelled out for `n ≥ 1`: delivered iff at least `n` calls were made since the last
delivery (this one included) and the last `n` of them all differ from the delivered value -/
theorem debounce_delivers_iff (n : Nat) (pre : List Call) (c : Call) (d : Val)
    (h : lastDelivered ((debounce n).outs pre) = some d) :
    (debounce n).outs (pre ++ [c]) = (debounce n).outs pre ++ [.deliver c.v] ↔
      let recent := sinceDelivery pre ((debounce n).outs pre) ++ [c.v]
      n ≤ recent.length ∧ ∀ x ∈ recent.drop (recent.length - n), differs d x = true := by
  rw [debounce_snoc, ← le_trailing_iff]
  simp only [expectDebounce, h, List.append_cancel_left_eq, List.cons.injEq, and_true]
  by_cases hn : n ≤ trailing (differs d) (sinceDelivery pre ((debounce n).outs pre) ++ [c.v]) <;> simp [hn]

example : (debounce 2).outs [⟨0, .num 0⟩, ⟨1, .num 80⟩, ⟨2, .num 0⟩, ⟨3, .num 80⟩, ⟨4, .num 96⟩, ⟨5, .num 96⟩]
    = [.deliver (.num 0), .skip, .skip, .skip, .deliver (.num 96), .skip] := by decide

/-! ### throttle -/

theorem throttle_state (secs : Int) (pre : List Call) :
    (throttle secs).state pre = lastDeliveryTime pre ((throttle secs).outs pre) := by
  induction pre using snoc_induction with
  | nil => rfl
  | snoc pre c ih =>
    rw [state_snoc, outs_snoc, lastDeliveryTime_snoc _ _ _ _ (by simp), ih]
    show (throttleStep secs _ c).1 = match (throttleStep secs _ c).2.value? with | some _ => some c.t | none => _
    cases h : lastDeliveryTime pre ((throttle secs).outs pre) with
    | none => simp [throttleStep, Out.value?]
    | some l => by_cases hc : secs ≤ c.t - l <;> simp [throttleStep, Out.value?, hc, h]

/-- **throttle**: a call is delivered iff nothing was delivered yet or at least `secs` passed
since the last delivery — so a value arriving later than the interval is always delivered -/
theorem throttle_snoc (secs : Int) (pre : List Call) (c : Call) :
    (throttle secs).outs (pre ++ [c]) =
      (throttle secs).outs pre ++ [expectThrottle secs pre ((throttle secs).outs pre) c] := by
  rw [outs_snoc, throttle_state]
  show _ ++ [(throttleStep secs _ c).2] = _
  simp only [throttleStep, expectThrottle]
  cases lastDeliveryTime pre ((throttle secs).outs pre) with
  | none => rfl
  | some l => by_cases hc : secs ≤ c.t - l <;> simp [hc]

theorem lastDeliveryTime_eq (cs : List Call) (os : List Out) (h : os.length = cs.length) :
    lastDeliveryTime cs os = (delivered cs os).getLast?.map Call.t := by
  induction cs using snoc_induction generalizing os with
  | nil => cases os <;> simp_all [delivered]
  | snoc cs c ih =>
    obtain ⟨os', o, rfl⟩ : ∃ os' o, os = os' ++ [o] := by
      cases hos : os.reverse with
      | nil => simp_all
      | cons o r => exact ⟨r.reverse, o, by simpa using congrArg List.reverse hos⟩
    have hl : os'.length = cs.length := by simpa using h
    rw [lastDeliveryTime_snoc _ _ _ _ hl, delivered_snoc _ _ _ _ hl, ih os' hl]
    cases o <;> simp [Out.value?]

/-- **throttle spacing**: any two deliveries (not only consecutive ones) are at least the
interval apart, for arbitrary clock readings -/
theorem throttle_spacing (secs : Int) (h0 : 0 ≤ secs) (cs : List Call) :
    (delivered cs ((throttle secs).outs cs)).Pairwise fun a b => a.t + secs ≤ b.t := by
  suffices h : (delivered cs ((throttle secs).outs cs)).Pairwise (fun a b => a.t + secs ≤ b.t) ∧
      ∀ a ∈ delivered cs ((throttle secs).outs cs), ∀ l,
        lastDeliveryTime cs ((throttle secs).outs cs) = some l → a.t ≤ l from h.1
  induction cs using snoc_induction with
  | nil => simp [delivered]
  | snoc pre c ih =>
    obtain ⟨ihp, ihl⟩ := ih
    rw [throttle_snoc, delivered_snoc _ _ _ _ (by simp), lastDeliveryTime_snoc _ _ _ _ (by simp)]
    simp only [expectThrottle]
    cases hl : lastDeliveryTime pre ((throttle secs).outs pre) with
    | none =>
      have he : delivered pre ((throttle secs).outs pre) = [] := by
        have := lastDeliveryTime_eq pre ((throttle secs).outs pre) (by simp)
        rw [hl] at this
        cases hd : delivered pre ((throttle secs).outs pre) with
        | nil => rfl
        | cons x xs => simp [hd, List.getLast?_cons] at this
      simp [he, Out.value?]
    | some l =>
      by_cases hc : secs ≤ c.t - l
      · simp only [hc, if_true, Out.value?, List.pairwise_append, List.pairwise_cons, List.not_mem_nil,
          false_imp_iff, implies_true, List.Pairwise.nil, and_self, true_and, List.mem_singleton,
          forall_eq, List.mem_append, Option.some.injEq]
        refine ⟨⟨ihp, fun a ha => ?_⟩, fun a ha l' hl' => ?_⟩
        · have := ihl a ha l hl; show a.t + secs ≤ c.t; omega
        · subst hl'
          rcases ha with ha | ha
          · have := ihl a ha l hl; omega
          · subst ha; exact Int.le_refl _
      · simp only [hc, if_false, Out.value?, List.append_nil]
        exact ⟨ihp, fun a ha l' hl' => by injection hl' with hl'; rw [← hl']; exact ihl a ha l hl⟩

example : (throttle 32).outs [⟨0, .num 1⟩, ⟨31, .num 2⟩, ⟨32, .num 3⟩, ⟨40, .str []⟩, ⟨64, .num 5⟩]
    = [.deliver (.num 1), .skip, .deliver (.num 3), .skip, .deliver (.num 5)] := by decide

/-! ### delta -/

theorem delta_state (pre : List Call) : delta.state pre = recorded (pre.map Call.v) := by
  induction pre using snoc_induction with
  | nil => rfl
  | snoc pre c ih =>
    rw [state_snoc, List.map_append, List.map_cons, List.map_nil, recorded_snoc, ih]
    show (deltaStep _ c).1 = _
    cases h : recorded (pre.map Call.v) with
    | none => simp [deltaStep]
    | some d => by_cases hc : differs d c.v = true <;> simp [deltaStep, changed_eq_differs, hc, h]

/-- the reference value of delta is what on_change would have delivered last -/
theorem delta_state_eq_onChange (pre : List Call) : delta.state pre = onChange.state pre := by
  induction pre using snoc_induction with
  | nil => rfl
  | snoc pre c ih =>
    rw [state_snoc, state_snoc, ih]
    show (deltaStep _ c).1 = (onChangeStep _ c).1
    cases onChange.state pre with
    | none => rfl
    | some d => by_cases hc : changed d c.v = true <;> simp [deltaStep, onChangeStep, hc]

/-- **delta**: a call whose value differs from the reference value delivers the difference
to it (numbers: new − old; lists: the elements of new not in old) and becomes the reference -/
theorem delta_snoc (pre : List Call) (c : Call) :
    delta.outs (pre ++ [c]) = delta.outs pre ++ [expectDelta pre (delta.outs pre) c] := by
  rw [outs_snoc, delta_state]
  show _ ++ [(deltaStep _ c).2] = _
  simp only [deltaStep, expectDelta, changed_eq_differs]
  cases recorded (pre.map Call.v) with
  | none => rfl
  | some d =>
    by_cases hc : differs d c.v = true
    · simp only [hc, if_true]
      cases d <;> cases hv : c.v <;> simp [difference, Val.numOf, Val.paramNorm] <;> (try split) <;> simp_all
    · simp [hc]

/-- **delta telescopes**: over numbers, the delivered differences add up to (reference value −
first value), and the reference value is within the tolerance of the last input -/
theorem delta_telescopes (t : Int) (a : Int) (cs : List Call) (hnum : ∀ c ∈ cs, c.v.isNum = true) :
    ∃ r z : Int, delta.state (⟨t, .num a⟩ :: cs) = some (.num r) ∧
      ((⟨t, .num a⟩ :: cs).getLast?.map Call.v) = some (.num z) ∧
      deliveredSum (delta.outs (⟨t, .num a⟩ :: cs)) = r - a ∧ close r z = true := by
  induction cs using snoc_induction with
  | nil => exact ⟨a, a, rfl, rfl, by show (0 : Int) = a - a; omega, by simp [close_iff]⟩
  | snoc cs c ih =>
    obtain ⟨r, z, hs, _, hsum, _⟩ := ih (fun x hx => hnum x (by simp [hx]))
    obtain ⟨tc, vc⟩ := c
    have hc : vc.isNum = true := hnum ⟨tc, vc⟩ (by simp)
    cases vc with
    | num b =>
      rw [← List.cons_append, state_snoc, outs_snoc, deliveredSum_snoc, hs, hsum, List.getLast?_append]
      simp only [delta_step, deltaStep, changed_num_num, List.getLast?_singleton, Option.some_or, Option.map_some]
      by_cases hch : close r b = true
      · exact ⟨r, b, by simp [hch] <;> rfl, rfl, by simp [hch], hch⟩
      · refine ⟨b, b, by simp [hch] <;> rfl, rfl, ?_, by simp [close_iff]⟩
        simp only [hch, Bool.not_false, if_true, difference_num_num, numOf_num, Option.getD_some]
        have e : ∀ x y z : Int, x - y + (z - x) = z - y := by intros; omega
        exact e _ _ _
    | str _ => simp [Val.isNum] at hc
    | list _ => simp [Val.isNum] at hc
    | param _ _ _ _ => simp [Val.isNum] at hc
    | bool _ => simp [Val.isNum] at hc
    | none => simp [Val.isNum] at hc

/-- **delta, total change**: over numbers the delivered differences add up to last − first,
up to the tolerance (the last input may sit within the tolerance of the reference value) -/
theorem delta_total_change (t : Int) (a : Int) (cs : List Call) (hnum : ∀ c ∈ cs, c.v.isNum = true) :
    ∃ z : Int, ((⟨t, .num a⟩ :: cs).getLast?.map Call.v) = some (.num z) ∧
      10 * (deliveredSum (delta.outs (⟨t, .num a⟩ :: cs)) - (z - a)).natAbs ≤ 16 := by
  obtain ⟨r, z, _, hz, hsum, hcl⟩ := delta_telescopes t a cs hnum
  refine ⟨z, hz, ?_⟩
  rw [hsum]
  have := (close_iff r z).1 hcl
  have e : r - a - (z - a) = r - z := by omega
  rw [e]; exact this

/-- a numeric value in the model's sense: a number, or True / False (1 / 0) -/
def Numeric (v : Val) : Prop := v.numOf.isSome = true

theorem changed_numeric (x y : Val) (a b : Int) (hx : x.numOf = some a) (hy : y.numOf = some b) :
    changed x y = !close a b := by
  cases x <;> cases y <;> simp_all [changed, Val.numOf]

theorem difference_numeric (x y : Val) (a b : Int) (hx : x.numOf = some a) (hy : y.numOf = some b) :
    difference x y = .val (.num (b - a)) := by
  cases x <;> cases y <;> simp_all [difference, Val.numOf]

/-- **delta telescopes, booleans included** (audit item 18: `delta_telescopes` excludes True / False
although they are numbers for the filters): over numeric values — numbers and booleans in any mix —
the delivered differences add up to (numeric reading of the reference value − that of the first
value) and the reference value is within the tolerance of the last input -/
theorem delta_telescopes_numeric (t : Int) (v0 : Val) (a : Int) (h0 : v0.numOf = some a) (cs : List Call)
    (hnum : ∀ c ∈ cs, Numeric c.v) :
    ∃ (rv : Val) (r z : Int), delta.state (⟨t, v0⟩ :: cs) = some rv ∧ rv.numOf = some r ∧
      ((⟨t, v0⟩ :: cs).getLast?.bind fun c => c.v.numOf) = some z ∧
      deliveredSum (delta.outs (⟨t, v0⟩ :: cs)) = r - a ∧ close r z = true := by
  induction cs using snoc_induction with
  | nil => exact ⟨v0, a, a, rfl, h0, by simpa using h0, by show (0 : Int) = a - a; omega, by simp [close_iff]⟩
  | snoc cs c ih =>
    obtain ⟨rv, r, z, hs, hr, _, hsum, _⟩ := ih (fun x hx => hnum x (by simp [hx]))
    obtain ⟨tc, vc⟩ := c
    have hc : Numeric vc := hnum ⟨tc, vc⟩ (by simp)
    obtain ⟨b, hb⟩ := Option.isSome_iff_exists.1 hc
    rw [← List.cons_append, state_snoc, outs_snoc, deliveredSum_snoc, hs, hsum, List.getLast?_append]
    simp only [delta_step, deltaStep, changed_numeric rv vc r b hr hb, List.getLast?_singleton, Option.some_or,
      Option.bind_some, hb]
    by_cases hch : close r b = true
    · exact ⟨rv, r, b, by simp [hch] <;> rfl, hr, rfl, by simp [hch], hch⟩
    · refine ⟨vc, b, b, by simp [hch] <;> rfl, hb, rfl, ?_, by simp [close_iff]⟩
      simp only [hch, Bool.not_false, if_true, difference_numeric rv vc r b hr hb, numOf_num, Option.getD_some]
      have e : ∀ x y z : Int, x - y + (z - x) = z - y := by intros; omega
      exact e _ _ _

/-- **delta, total change, booleans included** -/
theorem delta_total_change_numeric (t : Int) (v0 : Val) (a : Int) (h0 : v0.numOf = some a) (cs : List Call)
    (hnum : ∀ c ∈ cs, Numeric c.v) :
    ∃ z : Int, ((⟨t, v0⟩ :: cs).getLast?.bind fun c => c.v.numOf) = some z ∧
      10 * (deliveredSum (delta.outs (⟨t, v0⟩ :: cs)) - (z - a)).natAbs ≤ 16 := by
  obtain ⟨_, r, z, _, _, hz, hsum, hcl⟩ := delta_telescopes_numeric t v0 a h0 cs hnum
  refine ⟨z, hz, ?_⟩
  rw [hsum]
  have := (close_iff r z).1 hcl
  have e : r - a - (z - a) = r - z := by omega
  rw [e]; exact this

example : delta.outs [⟨0, .bool false⟩, ⟨1, .num 16⟩, ⟨2, .bool true⟩, ⟨3, .num 48⟩, ⟨4, .bool false⟩]
    = [.skip, .deliver (.num 16), .skip, .deliver (.num 32), .deliver (.num (-48))] := by decide

example : delta.outs [⟨0, .num 16⟩, ⟨1, .num 17⟩, ⟨2, .num 48⟩, ⟨3, .list [1, 2]⟩, ⟨4, .list [2, 3]⟩, ⟨5, .str []⟩]
    = [.skip, .skip, .deliver (.num 32), .skip, .deliver (.list [3]), .skip] := by decide

/-! ### aggregate -/

theorem aggregate_state (secs t0 : Int) (pre : List Call) :
    (aggregate secs t0).state pre =
      (numSum (sinceDelivery pre ((aggregate secs t0).outs pre)),
       (lastDeliveryTime pre ((aggregate secs t0).outs pre)).getD t0) := by
  induction pre using snoc_induction with
  | nil => rfl
  | snoc pre c ih =>
    rw [state_snoc, outs_snoc, lastDeliveryTime_snoc _ _ _ _ (by simp),
      sinceDelivery_snoc _ _ _ _ (by simp), ih]
    show (aggregateStep secs _ c).1 = (numSum (if (aggregateStep secs _ c).2.value?.isNone then _ else _),
      (match (aggregateStep secs _ c).2.value? with | some _ => some c.t | none => _).getD t0)
    cases hv : c.v.numOf with
    | some n =>
      by_cases hc : secs ≤ c.t - (lastDeliveryTime pre ((aggregate secs t0).outs pre)).getD t0
      · simp [aggregateStep, hv, hc, Out.value?, numSum]
      · simp [aggregateStep, hv, hc, Out.value?, numSum_append, numSum]
    | none => simp [aggregateStep, hv, Out.value?, numSum_append, numSum]

/-- **aggregate**: once `secs` passed since the last delivery (or construction) the sum of the
values since then is delivered -/
theorem aggregate_snoc (secs t0 : Int) (pre : List Call) (c : Call) :
    (aggregate secs t0).outs (pre ++ [c]) =
      (aggregate secs t0).outs pre ++ [expectAggregate secs t0 pre ((aggregate secs t0).outs pre) c] := by
  rw [outs_snoc, aggregate_state]
  show _ ++ [(aggregateStep secs _ c).2] = _
  simp only [aggregateStep, expectAggregate]
  cases c.v.numOf with
  | none => rfl
  | some n => simp only; split <;> rfl

/-- **aggregate conservation**: the delivered sums plus the not yet delivered remainder equal
the sum of all (numeric) inputs, after every call sequence -/
theorem aggregate_conservation (secs t0 : Int) (cs : List Call) :
    deliveredSum ((aggregate secs t0).outs cs) + ((aggregate secs t0).state cs).1 =
      numSum (cs.map Call.v) := by
  induction cs using snoc_induction with
  | nil => rfl
  | snoc pre c ih =>
    rw [outs_snoc, state_snoc, deliveredSum_snoc, List.map_append, numSum_append, ← ih]
    show _ + (match (aggregateStep secs _ c).2 with | .deliver v => v.numOf.getD 0 | _ => 0) + (aggregateStep secs _ c).1.1 = _
    cases hv : c.v.numOf with
    | some n =>
      by_cases hc : secs ≤ c.t - ((aggregate secs t0).state pre).2
      · simp [aggregateStep, hv, hc, numSum, Int.add_assoc]
      · simp [aggregateStep, hv, hc, numSum, Int.add_assoc]
    | none => simp [aggregateStep, hv, numSum]

/-- right after a delivery nothing is pending -/
theorem aggregate_pending_zero (secs t0 : Int) (pre : List Call) (c : Call) (v : Val)
    (h : ((aggregate secs t0).outs (pre ++ [c])).getLast? = some (.deliver v)) :
    ((aggregate secs t0).state (pre ++ [c])).1 = 0 := by
  rw [outs_snoc] at h
  rw [state_snoc]
  simp only [List.getLast?_append, List.getLast?_singleton, Option.some_or, Option.some.injEq] at h
  revert h
  show (aggregateStep secs _ c).2 = _ → (aggregateStep secs _ c).1.1 = 0
  cases hv : c.v.numOf with
  | some n =>
    by_cases hc : secs ≤ c.t - ((aggregate secs t0).state pre).2 <;> simp [aggregateStep, hv, hc]
  | none => simp [aggregateStep, hv]

/-- **aggregate conservation, observably** (audit item 19): the delivered sums plus the values of
the calls made since the last delivery — what the NEXT delivery will additionally contain — equal
the sum of all (numeric) inputs; no internal state of the filter is mentioned -/
theorem aggregate_conservation_observable (secs t0 : Int) (cs : List Call) :
    deliveredSum ((aggregate secs t0).outs cs) + numSum (sinceDelivery cs ((aggregate secs t0).outs cs)) =
      numSum (cs.map Call.v) := by
  have h := aggregate_conservation secs t0 cs
  rw [aggregate_state] at h
  exact h

/-- … so at every delivery instant the delivered sums ARE the sum of all inputs so far -/
theorem aggregate_delivered_is_total (secs t0 : Int) (pre : List Call) (c : Call) (v : Val)
    (h : ((aggregate secs t0).outs (pre ++ [c])).getLast? = some (.deliver v)) :
    deliveredSum ((aggregate secs t0).outs (pre ++ [c])) = numSum ((pre ++ [c]).map Call.v) := by
  have hc := aggregate_conservation secs t0 (pre ++ [c])
  rw [aggregate_pending_zero secs t0 pre c v h] at hc
  simpa using hc

example : (aggregate 32 0).outs [⟨1, .num 16⟩, ⟨20, .num 8⟩, ⟨32, .num 1⟩, ⟨40, .str [97]⟩, ⟨63, .num 5⟩, ⟨64, .num 6⟩]
    = [.skip, .skip, .deliver (.num 25), .raised, .skip, .deliver (.num 11)] := by decide

/-! ### custom -/

/-- **custom**: exactly the values the user predicate accepts, unmodified -/
theorem custom_outs (p : Pred) (cs : List Call) :
    (custom p).outs cs = cs.map fun c => if p.eval c.v then .deliver c.v else .skip := by
  show (custom p).run () cs = _
  induction cs with
  | nil => rfl
  | cons c cs ih => simp [run, custom, customStep]; exact ih

theorem custom_snoc (p : Pred) (pre : List Call) (c : Call) :
    (custom p).outs (pre ++ [c]) = (custom p).outs pre ++ [expectCustom p pre ((custom p).outs pre) c] := by
  rw [outs_snoc]; rfl

/-- **custom, as a whole**: the callback receives exactly the calls whose value the user
predicate accepts — a plain filter of the call list, values and clock readings untouched;
truthiness of the value itself plays no role (0, False, "", [] and None are passed on when the
predicate accepts them) -/
theorem custom_delivered (p : Pred) (cs : List Call) :
    delivered cs ((custom p).outs cs) = cs.filter fun c => p.eval c.v := by
  rw [custom_outs]
  induction cs with
  | nil => rfl
  | cons c cs ih =>
    by_cases h : p.eval c.v = true
    · simp [delivered, h, ih]
    · simp [delivered, h, ih]

example : (custom .always).outs [⟨0, .num 0⟩, ⟨1, .bool false⟩, ⟨2, .str []⟩, ⟨3, .list []⟩, ⟨4, .none⟩]
    = [.deliver (.num 0), .deliver (.bool false), .deliver (.str []), .deliver (.list []), .deliver .none] := by decide

/-- falsy values are values: `False`, `0`, `None`, `""`, `[]` are delivered by on_change like any
other (and `True` / `1.0` do not differ) -/
example : onChange.outs [⟨0, .num 0⟩, ⟨1, .bool false⟩, ⟨2, .bool true⟩, ⟨3, .num 16⟩, ⟨4, .none⟩, ⟨5, .none⟩,
      ⟨6, .str []⟩, ⟨7, .list []⟩, ⟨8, .num 0⟩]
    = [.deliver (.num 0), .skip, .deliver (.bool true), .skip, .deliver .none, .skip,
       .deliver (.str []), .deliver (.list []), .deliver (.num 0)] := by decide

/-! ### pass-through and order -/

/-- **pass-through, in order**: on_change, debounce, throttle, custom and every chain of them
hand the callback a subsequence of the calls — each delivered value is the value of its own
call, unmodified, at its call time, in call order -/
theorem passThrough_sublist (f : Filter) (h : f.passThrough = true) (cs : List Call) :
    (delivered cs (f.machine.outs cs)).Sublist cs :=
  (passStep_run _ (passStep_of_passThrough f h) _ cs).2

theorem passThrough_unmodified (f : Filter) (h : f.passThrough = true) (cs : List Call) :
    passedUnmodified cs (f.machine.outs cs) = true :=
  (passStep_run _ (passStep_of_passThrough f h) _ cs).1

/-! ### chains of two filters -/

/-- **chains**: what the callback of `a(b(callback))` receives is what `b` delivers when it is
called with exactly what `a` delivers (same values, same clock readings, same order) -/
theorem chain_delivered (a b : Machine) (cs : List Call) :
    delivered cs ((chain a b).outs cs) =
      delivered (delivered cs (a.outs cs)) (b.outs (delivered cs (a.outs cs))) :=
  chain_run_delivered a b _ _ cs

/-- any filter followed by a throttle: deliveries are still at least the interval apart -/
theorem chain_throttle_spacing (a : Machine) (secs : Int) (h0 : 0 ≤ secs) (cs : List Call) :
    (delivered cs ((chain a (throttle secs)).outs cs)).Pairwise fun x y => x.t + secs ≤ y.t := by
  rw [chain_delivered]; exact throttle_spacing secs h0 _

/-- any filter followed by on_change: what is delivered is what on_change prescribes for the
first filter's deliveries -/
theorem chain_onChange (a : Machine) (cs : List Call) :
    stepwise expectOnChange (delivered cs (a.outs cs)) (onChange.outs (delivered cs (a.outs cs))) = true :=
  stepwise_outs onChange _ (fun pre c => by
    have := onChange_snoc pre c
    rw [outs_snoc] at this
    simpa using this) _

example : (chain (throttle 32) onChange).outs
    [⟨0, .num 16⟩, ⟨8, .num 99⟩, ⟨32, .num 17⟩, ⟨64, .num 48⟩]
    = [.deliver (.num 16), .skip, .skip, .deliver (.num 48)] := by decide

/-! ### several filter objects around the same callback -/

theorem multiRun_independent (m : Machine) (k : Nat) (ics : List ICall) :
    ∀ s : Nat → m.σ,
      ((multiRun m s ics).zip ics).filterMap (fun p => if p.2.inst = k then some p.1 else none) =
        m.run (s k) ((ics.filter (·.inst == k)).map (·.call)) := by
  induction ics with
  | nil => intro s; rfl
  | cons ic r ih =>
    intro s
    simp only [multiRun, List.zip_cons_cons, List.filterMap_cons, List.filter_cons]
    by_cases e : ic.inst = k
    · have eb : (ic.inst == k) = true := by simpa using e
      subst e
      simp only [if_true, eb, List.map_cons]
      rw [ih]
      simp [Machine.run]
    · have eb : (ic.inst == k) = false := by simpa using e
      simp only [e, if_false, eb, Bool.false_eq_true]
      rw [ih]
      have : k ≠ ic.inst := fun x => e x.symm
      simp [this]

/-- **independent instances**: when the same factory expression is evaluated several times around
the same callback (one logger on two events, two identical chains) every resulting filter object
filters its OWN call sequence exactly as a fresh filter would — what the other objects were
called with makes no difference, however the calls are interleaved -/
theorem instances_independent (m : Machine) (k : Nat) (ics : List ICall) :
    ((multiOuts m ics).zip ics).filterMap (fun p => if p.2.inst = k then some p.1 else none) =
      m.outs ((ics.filter (·.inst == k)).map (·.call)) :=
  multiRun_independent m k ics _

example : multiOuts onChange [⟨0, ⟨0, .num 16⟩⟩, ⟨1, ⟨0, .num 16⟩⟩, ⟨0, ⟨1, .num 16⟩⟩, ⟨1, ⟨1, .num 48⟩⟩]
    = [.deliver (.num 16), .deliver (.num 16), .skip, .deliver (.num 48)] := by decide

/-! ### the judge -/

theorem deltaTotal_outs (cs : List Call) : deltaTotal cs (delta.outs cs) = true := by
  cases cs with
  | nil => rfl
  | cons c0 cs =>
    obtain ⟨t, v⟩ := c0
    cases v with
    | num a =>
      by_cases hall : ∀ c ∈ cs, c.v.isNum = true
      · obtain ⟨z, hz, hle⟩ := delta_total_change t a cs hall
        simp only [deltaTotal, List.head?_cons]
        cases hl : (({ t := t, v := Val.num a } : Call) :: cs).getLast? with
        | none => rfl
        | some cz =>
          rw [hl] at hz
          obtain ⟨tz, vz⟩ := cz
          simp only [Option.map_some, Option.some.injEq] at hz
          subst hz
          simp only [Bool.or_eq_true, Bool.not_eq_true', decide_eq_true_eq]
          exact Or.inr hle
      · simp only [deltaTotal, List.head?_cons]
        cases hl : (({ t := t, v := Val.num a } : Call) :: cs).getLast? with
        | none => rfl
        | some cz =>
          obtain ⟨tz, vz⟩ := cz
          cases vz with
          | num z =>
            simp only [Bool.or_eq_true, Bool.not_eq_true', decide_eq_true_eq]
            left
            simp only [List.all_cons, Bool.true_and, List.all_eq_false, Val.isNum.eq_1]
            simpa using hall
          | str _ => rfl
          | list _ => rfl
          | param _ _ _ _ => rfl
          | bool _ => rfl
          | none => rfl
    | str _ => simp [deltaTotal]
    | list _ => simp [deltaTotal]
    | param _ _ _ _ => simp [deltaTotal]
    | bool _ => simp [deltaTotal]
    | none => simp [deltaTotal]

theorem aggregateTotal_outs (secs t0 : Int) (cs : List Call) :
    aggregateTotal cs ((aggregate secs t0).outs cs) = true := by
  induction cs using snoc_induction with
  | nil => rfl
  | snoc pre c _ =>
    simp only [aggregateTotal]
    cases hl : ((aggregate secs t0).outs (pre ++ [c])).getLast? with
    | none => rfl
    | some o =>
      cases o with
      | skip => rfl
      | raised => rfl
      | deliver v =>
        have h0 := aggregate_pending_zero secs t0 pre c v hl
        have hc := aggregate_conservation secs t0 (pre ++ [c])
        rw [h0] at hc
        simp only [beq_iff_eq]
        rw [← hc]; simp

/-- **C20 holds**: every run of every filter machine passes the judge `spec` that the harness
applies to what the implementation delivered -/
theorem holds (f : Filter) (cs : List Call) (hf : ∀ a b, f ≠ .chain a b) :
    spec f cs (f.machine.outs cs) = true := by
  cases f with
  | onChange =>
    simp only [spec, Bool.and_eq_true, Filter.machine]
    exact ⟨stepwise_outs _ _ (step_eq_of_snoc _ _ onChange_snoc) cs, passThrough_unmodified .onChange rfl cs⟩
  | debounce n =>
    simp only [spec, Bool.and_eq_true, Filter.machine]
    exact ⟨stepwise_outs _ _ (step_eq_of_snoc _ _ (debounce_snoc n)) cs, passThrough_unmodified (.debounce n) rfl cs⟩
  | throttle s =>
    simp only [spec, Bool.and_eq_true, Filter.machine]
    exact ⟨stepwise_outs _ _ (step_eq_of_snoc _ _ (throttle_snoc s)) cs, passThrough_unmodified (.throttle s) rfl cs⟩
  | delta =>
    simp only [spec, Bool.and_eq_true, Filter.machine]
    exact ⟨stepwise_outs _ _ (step_eq_of_snoc _ _ delta_snoc) cs, everyPrefix_outs _ _ deltaTotal_outs cs⟩
  | aggregate s t0 =>
    simp only [spec, Bool.and_eq_true, Filter.machine]
    exact ⟨stepwise_outs _ _ (step_eq_of_snoc _ _ (aggregate_snoc s t0)) cs,
      everyPrefix_outs _ _ (aggregateTotal_outs s t0) cs⟩
  | custom p =>
    simp only [spec, Bool.and_eq_true, Filter.machine]
    exact ⟨stepwise_outs _ _ (step_eq_of_snoc _ _ (custom_snoc p)) cs, passThrough_unmodified (.custom p) rfl cs⟩
  | chain a b => exact absurd rfl (hf a b)

/-- chains are judged stage by stage: the first filter on the calls, the second on what the
first delivered; the chain's callback receives what the second stage delivers -/
theorem holds_chain (fa fb : Filter) (cs : List Call) (ha : ∀ a b, fa ≠ .chain a b) (hb : ∀ a b, fb ≠ .chain a b) :
    spec fa cs (fa.machine.outs cs) = true ∧
    spec fb (delivered cs (fa.machine.outs cs)) (fb.machine.outs (delivered cs (fa.machine.outs cs))) = true ∧
    delivered cs ((Filter.chain fa fb).machine.outs cs) =
      delivered (delivered cs (fa.machine.outs cs)) (fb.machine.outs (delivered cs (fa.machine.outs cs))) :=
  ⟨holds fa cs ha, holds fb _ hb, chain_delivered _ _ cs⟩

end PlumVerif.C20

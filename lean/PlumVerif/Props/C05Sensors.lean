import PlumVerif.Model.DecodeSensors
import PlumVerif.Proofs.DecodeSensors
import PlumVerif.Proofs.DecodeRegdata
/-
C05 (first half) — payload decoding conforms to the wire layout: sensor data message.
The layout is `Sens.encodeSensorData` (Model/DecodeSensors.lean); each theorem says that the
decoder, run on the encoding of an abstract message followed by ANY further bytes, returns the
message's value and exactly those further bytes.
-/
namespace PlumVerif.C05
open PlumVerif PlumVerif.Wire PlumVerif.Sens

/-! ### the tables and constants the decoders take from the source are the ones the layout names -/

theorem outputs_table : Gen.outputsNames = outputNamesSpec := by decide

theorem temperatures_table : Gen.temperaturesNames = temperatureNamesSpec := by decide

theorem statuses_table : Gen.statusesNames = ["heating_target", "heating_status", "water_heater_target",
    "water_heater_status"] ∧ Gen.statusesSize = 4 := by decide

theorem modules_table : Gen.modulesNames = ["module_a", "module_b", "module_c", "ecolambda", "ecoster",
    "panel"] := by decide

theorem layout_constants : Gen.byteUndefined = 0xFF ∧ Gen.fuelLevelOffset = 101 ∧
    Gen.mixerSensorSize = 8 := by decide

/-- the state byte is reported as is, except the two extra states that stand for STABILIZATION -/
theorem deviceState_table (b : Byte) : deviceStateOf b.toNat = stateSpec b.toNat := by
  have h : ∀ n, n < 256 → deviceStateOf n = stateSpec n := by decide +kernel
  exact h b.toNat b.toNat_lt

/-- frame versions: count byte, then (type byte, LE16 version) per entry; dict semantics -/
theorem rt_frameVersions (vs : List (Byte × Nat)) (rest : List Byte)
    (hn : vs.length < 256) (hv : ∀ tv ∈ vs, tv.2 < 65536) :
    decFrameVersions (encVersions vs ++ rest) = some (valVersions vs, rest) := by
  have hd := decN_flatMap decVersion (fun tv : Byte × Nat => tv.1 :: encodeLE tv.2 2)
    (fun tv => (tv.1.toNat, tv.2)) vs rest (by
      intro x hx r
      have := hv x hx
      simp [decVersion, readLE_encodeLE r (show x.2 < 256 ^ 2 by omega)])
  simp [decFrameVersions, encVersions, toUInt8_toNat_of_lt hn, hd, valVersions]

/-- outputs: LE32 word, output `i` is bit `i` -/
theorem rt_outputs (v : Nat) (rest : List Byte) (hv : v < 4294967296) :
    decOutputs (encodeLE v 4 ++ rest) = some (valOutputs v, rest) := by
  simp [decOutputs, readLE_encodeLE rest (show v < 256 ^ 4 by omega), valOutputs, and_two_pow_ne_zero, outputs_table]

/-- output flags: LE32 word, bits 2, 3, 4 and 11 -/
theorem rt_outputFlags (v : Nat) (rest : List Byte) (hv : v < 4294967296) :
    decOutputFlags (encodeLE v 4 ++ rest) = some (valOutputFlags v, rest) := by
  have h2 := and_two_pow_ne_zero v 2
  have h3 := and_two_pow_ne_zero v 3
  have h4 := and_two_pow_ne_zero v 4
  have h11 := and_two_pow_ne_zero v 11
  simp only [show (2:Nat) ^ 2 = 4 by rfl, show (2:Nat) ^ 3 = 8 by rfl, show (2:Nat) ^ 4 = 16 by rfl,
    show (2:Nat) ^ 11 = 2048 by rfl] at h2 h3 h4 h11
  simp [decOutputFlags, readLE_encodeLE rest (show v < 256 ^ 4 by omega), valOutputFlags, h2, h3, h4, h11]

/-- temperatures: count byte, then (index byte, binary32) per entry; NaN and out-of-range skipped -/
theorem rt_temperatures (ts : List (Byte × F32)) (rest : List Byte) (hn : ts.length < 256) :
    decTemperatures (encTemps ts ++ rest) = some (valTemps ts, rest) := by
  have hd := decN_flatMap decTemp (fun it : Byte × F32 => it.1 :: encF32 it.2)
    (fun it => (it.1.toNat, it.2)) ts rest (by
      intro x _ r
      simp [decTemp, readF32_enc])
  simp [decTemperatures, encTemps, toUInt8_toNat_of_lt hn, hd, valTemps, tempFields, temperatures_table]

/-- statuses: four bytes in the order heating target, heating status, water heater target, status -/
theorem rt_statuses (a b c d : Byte) (rest : List Byte) :
    decStatuses (a :: b :: c :: d :: rest) =
      some ([("heating_target", Val.nat a.toNat), ("heating_status", Val.nat b.toNat),
             ("water_heater_target", Val.nat c.toNat), ("water_heater_status", Val.nat d.toNat)], rest) := by
  rfl

/-- pending alerts: count byte followed by that many bytes, only the count is reported -/
theorem rt_pendingAlerts (as : List Byte) (rest : List Byte) (hn : as.length < 256) :
    decPendingAlerts (encPendingAlerts as ++ rest) =
      some ([("pending_alerts", Val.nat as.length)], rest) := by
  simp [decPendingAlerts, encPendingAlerts, toUInt8_toNat_of_lt hn]

/-- fuel level: 0xFF absent; a byte >= 101 stands for the level minus 101 -/
theorem rt_fuelLevel (f : FuelLevel) (rest : List Byte) (hf : f.wf = true) :
    decFuelLevel (encFuelLevel f ++ rest) = some (valFuelLevel f, rest) := by
  cases f with
  | absent => rfl
  | plain v =>
    have hv : v < 101 := by simpa [FuelLevel.wf] using hf
    simp [decFuelLevel, encFuelLevel, valFuelLevel, toUInt8_toNat_of_lt (show v < 256 by omega),
      Gen.byteUndefined, Gen.fuelLevelOffset]
    rw [if_neg (by omega), if_neg (by omega)]
  | rebased v =>
    have hv : v + 101 < 255 := by simpa [FuelLevel.wf] using hf
    have h8 : (v + 101).toUInt8.toNat = v + 101 := toUInt8_toNat_of_lt (by omega)
    simp only [decFuelLevel, encFuelLevel, valFuelLevel, List.cons_append, List.nil_append, readByte_cons,
      Option.bind_eq_bind, Option.bind_some, h8, Gen.byteUndefined, Gen.fuelLevelOffset]
    have h1 : ((v + 101 == 255) = false) := by simp; omega
    simp [h1]

/-- fan power / boiler power / fuel consumption: binary32, NaN absent -/
theorem rt_optF32 (name : String) (f : F32) (rest : List Byte) :
    decOptF32 name (encF32 f ++ rest) = some (optF32 name f, rest) := by
  simp [decOptF32, readF32_enc, optF32]

/-- boiler load: one byte, 0xFF absent -/
theorem rt_boilerLoad (b : Byte) (rest : List Byte) :
    decBoilerLoad (b :: rest) =
      some ((if b = 0xFF then [] else [("boiler_load", Val.nat b.toNat)]), rest) := by
  by_cases h : b = 0xFF
  · subst h; rfl
  · have : ¬ (b.toNat = 255) := fun h' => h (UInt8.toNat_inj.mp (by simpa using h'))
    simp [decBoilerLoad, Gen.byteUndefined, this, h]

theorem byte_ne_ff {b : Byte} (h : (b != 0xFF) = true) : ¬ (b.toNat = Gen.byteUndefined) := by
  have hb : b ≠ 0xFF := by simpa using h
  exact fun h' => hb (UInt8.toNat_inj.mp (by simpa [Gen.byteUndefined] using h'))

/-- module A: 0xFF absent, else three version bytes and the vendor pair -/
theorem rt_moduleA (v : Option ModVerA) (rest : List Byte) (h : modAOk v = true) :
    decModule "module_a" (encModVerA v ++ rest) = some (valModVerA v, rest) := by
  cases v with
  | none => rfl
  | some m =>
    have hb := byte_ne_ff (show (m.a != 0xFF) = true from h)
    simp [decModule, encModVerA, valModVerA, hb, takeN_three, takeN_two]

/-- the other modules: 0xFF absent, else three version bytes -/
theorem rt_module (name : String) (hname : (name == "module_a") = false) (v : Option ModVer)
    (rest : List Byte) (h : modOk v = true) :
    decModule name (encModVer v ++ rest) = some (valModVer v, rest) := by
  cases v with
  | none => rfl
  | some m =>
    have hb := byte_ne_ff (show (m.a != 0xFF) = true from h)
    simp [decModule, encModVer, valModVer, hb, takeN_three, hname]

/-- the six module versions in the order A, B, C, ecoLAMBDA, ecoSTER, panel; every presence combination -/
theorem rt_modules (m : SensorMsg) (rest : List Byte)
    (hA : modAOk m.moduleA = true) (hB : modOk m.moduleB = true) (hC : modOk m.moduleC = true)
    (hL : modOk m.ecolambda = true) (hS : modOk m.ecoster = true) (hP : modOk m.panel = true) :
    decModules (encModules m ++ rest) = some (valModules m, rest) := by
  simp only [decModules, encModules, Gen.modulesNames, decFieldsSeq, List.append_assoc,
    rt_moduleA _ _ hA, rt_module "module_b" (by decide) _ _ hB, rt_module "module_c" (by decide) _ _ hC,
    rt_module "ecolambda" (by decide) _ _ hL, rt_module "ecoster" (by decide) _ _ hS,
    rt_module "panel" (by decide) _ _ hP, Option.bind_eq_bind, Option.bind_some, Option.pure_def, valModules]

/-- lambda sensor: 0xFF absent (one byte), else state, target, LE16 level in tenths -/
theorem rt_lambda (l : Option LambdaMsg) (rest : List Byte)
    (h : (match l with | none => true | some l => l.state != 0xFF && l.level < 65536) = true) :
    decLambda (encLambda l ++ rest) = some (valLambda l, rest) := by
  cases l with
  | none => rfl
  | some l =>
    simp only [Bool.and_eq_true, decide_eq_true_eq] at h
    have hb := byte_ne_ff h.1
    simp [decLambda, encLambda, valLambda, hb, readLE_encodeLE rest (show l.level < 256 ^ 2 by omega)]

/-- the masks shifted once per thermostat select bit `i` and bit `i + 3` of the contacts byte -/
theorem thermoEntries_eq (contacts : Nat) (items : List ThRaw) (i : Nat) :
    thermoEntries contacts items i (2 ^ i) (2 ^ (i + 3)) =
      (items.zipIdx i).filterMap (valThermoEntry contacts) := by
  induction items generalizing i with
  | nil => rfl
  | cons t ts ih =>
    have e1 : (2 : Nat) ^ i <<< 1 = 2 ^ (i + 1) := by rw [Nat.shiftLeft_eq, ← Nat.pow_add]
    have e2 : (2 : Nat) ^ (i + 3) <<< 1 = 2 ^ (i + 1 + 3) := by
      rw [Nat.shiftLeft_eq, ← Nat.pow_add, show i + 3 + 1 = i + 1 + 3 by omega]
    simp only [thermoEntries, e1, e2, ih (i + 1), List.zipIdx_cons, List.filterMap_cons, valThermoEntry,
      and_two_pow_ne_zero]
    split <;> rfl

/-- thermostat sensors: 0xFF absent (one byte); else contacts byte, count byte, then
(state byte, binary32 current, binary32 target) per thermostat -/
theorem rt_thermostats (t : Option ThermostatsMsg) (rest : List Byte)
    (h : (match t with | none => true | some t => t.contacts != 0xFF && t.items.length < 256) = true) :
    decThermostats (encThermostats t ++ rest) = some (valThermostats t, rest) := by
  cases t with
  | none => rfl
  | some t =>
    simp only [Bool.and_eq_true, decide_eq_true_eq] at h
    have hb := byte_ne_ff h.1
    have hd := decN_flatMap decThermostat encThermostat id t.items rest (by
      intro x _ r
      simp [decThermostat, encThermostat, readF32_enc, List.append_assoc])
    have he := thermoEntries_eq t.contacts.toNat t.items 0
    simp only [Nat.pow_zero, Nat.zero_add] at he
    simp [decThermostats, encThermostats, valThermostats, hb, toUInt8_toNat_of_lt h.2, hd,
      valThermoEntries, he]

theorem encF32_bytes (f : F32) : ∃ b0 b1 b2 b3, encF32 f = [b0, b1, b2, b3] := by
  simp [encF32, encodeLE]

theorem rt_mixer (m : MixerMsg) (rest : List Byte) :
    decMixer (encMixer m ++ rest) = some (valMixer m, rest) := by
  obtain ⟨b0, b1, b2, b3, hb⟩ := encF32_bytes m.cur
  have hr := readF32_enc m.cur ([m.target, m.pad5, m.flags, m.pad7] ++ rest)
  rw [hb] at hr
  simp only [List.cons_append, List.nil_append] at hr
  simp only [decMixer, encMixer, hb, List.cons_append, List.nil_append, hr, valMixer,
    Option.bind_eq_bind, Option.bind_some, Gen.mixerSensorSize]
  cases isNaN32 m.cur <;> simp [Bool.beq_eq_decide_eq]

/-- mixer sensors: count byte, then 8 bytes per mixer: binary32 current, target byte, a byte that
is not decoded, flags byte (bit 0 = pump), a byte that is not decoded; NaN current = not connected -/
theorem rt_mixers (ms : List MixerMsg) (rest : List Byte) (hn : ms.length < 256) :
    decMixers (encMixers ms ++ rest) = some (valMixers ms, rest) := by
  have hd := decN_flatMap decMixer encMixer valMixer ms rest (fun x _ r => rt_mixer x r)
  simp [decMixers, encMixers, valMixers, toUInt8_toNat_of_lt hn, hd]

/-- **the sensor data message**: the whole section chain, for every well-formed abstract message
(any number of frame versions, temperatures, pending alerts, thermostats, mixers up to the count
byte's range; every presence combination of the six modules, the lambda and the thermostat
sections; every float pattern) and any trailing bytes -/
theorem rt_sensorData (m : SensorMsg) (rest : List Byte) (h : m.wf = true) :
    decodeSensorData (encodeSensorData m ++ rest) = some (valOfSensorData m) := by
  simp only [SensorMsg.wf, Bool.and_eq_true, decide_eq_true_eq, List.all_eq_true, and_assoc] at h
  obtain ⟨hv1, hv2, ho, hf, ht, hp, hfl, hA, hB, hC, hL, hS, hP, hlam, hth, hmx⟩ := h
  simp only [decodeSensorData, encodeSensorData, List.append_assoc, List.cons_append, List.nil_append,
    rt_frameVersions m.versions _ hv1 hv2, readByte_cons, rt_outputs _ _ ho, rt_outputFlags _ _ hf,
    rt_temperatures _ _ ht, rt_statuses, rt_pendingAlerts _ _ hp, rt_fuelLevel _ _ hfl, rt_optF32,
    rt_boilerLoad, rt_modules m _ hA hB hC hL hS hP, rt_lambda _ _ hlam, rt_thermostats _ _ hth,
    rt_mixers _ _ hmx, Option.bind_eq_bind, Option.bind_some, Option.pure_def, valOfSensorData, sections,
    deviceState_table]

/-! ### the sections never collide: the decoded dict is the concatenation of the sections -/

def sectionBounds : List (List String) :=
  [["frame_versions"], ["state"], outputNamesSpec,
   ["heating_pump_flag", "water_heater_pump_flag", "circulation_pump_flag", "solar_pump_flag"],
   temperatureNamesSpec,
   ["heating_target", "heating_status", "water_heater_target", "water_heater_status"],
   ["pending_alerts"], ["fuel_level"], ["transmission"], ["fan_power"], ["boiler_load"],
   ["boiler_power"], ["fuel_consumption"], ["thermostat"], ["modules"],
   ["lambda_state", "lambda_target", "lambda_level"],
   ["thermostat_sensors", "thermostats_available", "thermostats_connected"],
   ["mixer_sensors", "mixers_available", "mixers_connected"]]

theorem sectionBounds_nodup : sectionBounds.flatten.Nodup := by decide +kernel

/-- every section's keys are distinct and lie in that section's own name list -/
theorem sections_bounded (m : SensorMsg) :
    ∀ p ∈ ((sections m).map keysOf).zip sectionBounds, p.1.Nodup ∧ ∀ x ∈ p.1, x ∈ p.2 := by
  have ht := keys_tempFields temperatureNamesSpec (m.temps.map fun it => (it.1.toNat, it.2))
  simp only [sections, sectionBounds, List.map_cons, List.map_nil, List.zip_cons_cons, List.zip_nil_right,
    List.forall_mem_cons]
  refine ⟨?_, ?_, ?_, ?_, ?_, ?_, ?_, ?_, ?_, ?_, ?_, ?_, ?_, ?_, ?_, ?_, ?_, ?_, ?_⟩
  all_goals first
    | (simp [keysOf, valVersions, valOutputs, valOutputFlags, valModules, valMixers, outputNamesSpec, List.zipIdx]; done)
    | exact ht
    | (simp only [optF32]; split <;> simp [keysOf]; done)
    | (split <;> simp [keysOf]; done)
    | (cases m.fuelLevel <;> simp [keysOf, valFuelLevel]; done)
    | (cases m.lambda <;> simp [keysOf, valLambda]; done)
    | (cases m.thermostats <;> simp [keysOf, valThermostats]; done)

theorem sections_keys_nodup (m : SensorMsg) : ((sections m).flatten.map Prod.fst).Nodup := by
  have hfl : (sections m).flatten.map Prod.fst = (((sections m).map keysOf).zip sectionBounds |>.map Prod.fst).flatten := by
    rw [List.map_fst_zip (by simp [sections, sectionBounds])]
    rw [List.map_flatten]; rfl
  rw [hfl]
  apply nodup_flatten_of_bounds
  · exact sections_bounded m
  · rw [List.map_snd_zip (by simp [sections, sectionBounds])]
    exact sectionBounds_nodup

/-- no section overwrites a key of another one: `data |= section` only ever appends -/
theorem sections_no_collision (m : SensorMsg) : mergeAll (sections m) = (sections m).flatten :=
  mergeAll_flat (sections m) (sections_keys_nodup m)

/-! ### non-vacuity: a concrete message with every kind of section -/

def exMsg : SensorMsg where
  versions := [(49, 37), (50, 0xFFFF), (49, 38)]
  state := 23
  outputs := 0x8005
  outputFlags := 0x80C
  temps := [(0, 0x42480000), (1, 0x7FC00000), (200, 0x41A00000), (16, 0xC1200000)]
  heatingTarget := 60
  heatingStatus := 1
  waterHeaterTarget := 45
  waterHeaterStatus := 0xFF
  pendingAlerts := [7, 0xFF]
  fuelLevel := .rebased 42
  transmission := 3
  fanPower := 0x7FC00000
  boilerLoad := 0xFF
  boilerPower := 0x41400000
  fuelConsumption := 0x3F000000
  thermostat := 1
  moduleA := some ⟨⟨18, 11, 58⟩, 75, 1⟩
  moduleB := none
  moduleC := some ⟨0, 0, 255⟩
  ecolambda := none
  ecoster := some ⟨1, 2, 3⟩
  panel := some ⟨6, 30, 36⟩
  lambda := some ⟨3, 13, 405⟩
  thermostats := some ⟨0x51, [⟨3, 0x41A80000, 0x41B00000⟩, ⟨0, 0x7FC00000, 0x41B00000⟩, ⟨1, 0x41980000, 0⟩,
                              ⟨2, 0x41900000, 0x41A00000⟩]⟩
  mixers := [⟨0x42200000, 40, 9, 1, 9⟩, ⟨0x7FC00000, 0, 0, 0, 0⟩, ⟨0x41F00000, 35, 0, 2, 0⟩]

example : exMsg.wf = true := by decide
example : (encodeSensorData exMsg).length = 146 := by decide +kernel
example : decodeSensorData (encodeSensorData exMsg ++ [1, 2, 3]) = some (valOfSensorData exMsg) :=
  rt_sensorData exMsg [1, 2, 3] (by decide)

/-- `isNaN32` is the IEEE-754 binary32 NaN test: exponent field all ones and a non-zero mantissa -/
theorem isNaN32_spec (b : F32) :
    isNaN32 b = (b.toNat / 8388608 % 256 == 255 && b.toNat % 8388608 != 0) := by
  have := b.toNat_lt
  simp only [isNaN32]
  rw [Bool.eq_iff_iff]
  simp only [decide_eq_true_eq, Bool.and_eq_true, beq_iff_eq, bne_iff_ne, ne_eq]
  omega

/-- `gtZero32` is `> 0` on binary32: sign bit clear, not zero, not NaN -/
theorem gtZero32_spec (b : F32) :
    gtZero32 b = (b.toNat / 2147483648 == 0 && b.toNat != 0 && !isNaN32 b) := by
  have := b.toNat_lt
  simp only [gtZero32]
  congr 2
  rw [Bool.eq_iff_iff]
  simp only [decide_eq_true_eq, beq_iff_eq]
  omega

/-! ## regulator data schema and schema-driven regulator data -/

open PlumVerif.Regd

/-- the type table of helpers/data_types.py as the model reads it: ids 0..16, nothing beyond -/
theorem dataTypes_names : Gen.dataTypes = typeNamesSpec := by decide

theorem dataTypes_table : (List.range 19).map tyOfId =
    [some .undefined, some .i8, some .i16, some .i32, some .u8, some .u16, some .u32, some .f32,
     some .undefined, some .f64, some .bit, some .string, some .string, some .i64, some .u64,
     some .ipv4, some .ipv6, none, none] ∧ Gen.bitarrayLastIndex = 7 ∧ Gen.regdataVersion = "1.0" := by
  decide +kernel

/-- every scalar wire type (all widths, signed and unsigned, both float widths, strings, IPv4,
IPv6, undefined): `decode (encode v ++ tail) = (v, tail)` -/
theorem rt_scalar (v : SVal) (tail : List Byte) (h : v.wf = true) :
    decScalar v.ty (v.enc ++ tail) = some (v.val, tail) := decScalar_enc v tail h

/-- a run of `n` bit parameters stored in `bytes` (`8 * bytes.length ≥ n`): parameter `q` is bit
`q % 8` of byte `q / 8`, for runs of any length (crossing any number of byte boundaries) -/
theorem rt_bitRun (ids : List Nat) (bytes tail : List Byte) (h : ids.length ≤ 8 * bytes.length) :
    decEntries (ids.map fun id => (id, Ty.bit)) ⟨bytes ++ tail, 0⟩ =
      some (ids.zipIdx.map (fun ip => (ip.1, bitAt bytes ip.2)),
            ⟨bytes.drop (ids.length / 8) ++ tail, ids.length % 8⟩) := by
  have := decEntries_bits bytes tail ids 0 (by omega)
  simpa using this

theorem schemaOf_isEmpty (items : List Item) (h : wfItems items = true) :
    (schemaOf items).isEmpty = items.isEmpty := by
  cases items with
  | nil => rfl
  | cons it r =>
    have hit := (wfItems_cons it r h).1
    cases it with
    | scalar id v => simp [schemaOf, Item.schema]
    | bits ids bytes =>
      simp only [Item.wf, Bool.and_eq_true, Bool.not_eq_true'] at hit
      cases ids with
      | nil => simp at hit
      | cons i is => simp [schemaOf, Item.schema]

/-- **regulator data, decoded by a device that holds the schema of the message**: any frame
versions, any well-formed item list (every scalar type, bit runs of any length, arbitrary padding
bits), any two leading bytes, any trailing bytes -/
theorem rt_regdata (m : RegMsg) (rest : List Byte) (h : m.wf = true) :
    decodeRegdata (schemaOf m.items) (encodeRegdata m ++ rest) = some (valOfRegdata m) := by
  simp only [RegMsg.wf, Bool.and_eq_true, decide_eq_true_eq, List.all_eq_true] at h
  obtain ⟨⟨hv1, hv2⟩, hitems⟩ := h
  have hver : (versionString 1 0 != Gen.regdataVersion) = false := by decide
  have hfv := rt_frameVersions m.versions (encItems m.items ++ rest) hv1 hv2
  simp only [decodeRegdata, encodeRegdata, List.cons_append, List.nil_append, List.append_assoc,
    List.getElem?_cons_succ, List.getElem?_cons_zero, Option.bind_eq_bind, Option.bind_some, hver,
    List.drop_succ_cons, List.drop_zero, hfv, schemaOf_isEmpty m.items hitems, valOfRegdata]
  cases hi : m.items.isEmpty with
  | true => simp
  | false =>
    obtain ⟨c', hdec⟩ := decEntries_items m.items hitems rest _ (Or.inl rfl)
    simp [hdec]

/-- without an owning device (or before the schema is known) only the frame versions are decoded -/
theorem rt_regdata_noDevice (m : RegMsg) (rest : List Byte) (h : m.wf = true) :
    decodeRegdata [] (encodeRegdata m ++ rest) = some (valOfRegdataNoSchema m) := by
  simp only [RegMsg.wf, Bool.and_eq_true, decide_eq_true_eq, List.all_eq_true] at h
  obtain ⟨⟨hv1, hv2⟩, _⟩ := h
  have hver : versionString 1 0 = Gen.regdataVersion := by decide
  have hfv := rt_frameVersions m.versions (encItems m.items ++ rest) hv1 hv2
  simp [decodeRegdata, encodeRegdata, hver, hfv, valOfRegdataNoSchema]

/-- a message of another regdata version is not decoded at all -/
theorem regdata_other_version (schema : List (Nat × Ty)) (a b lo hi : Byte) (rest : List Byte)
    (h : (versionString hi lo != Gen.regdataVersion) = true) :
    decodeRegdata schema (a :: b :: lo :: hi :: rest) = some (Val.record []) := by
  have h' : ¬ versionString hi lo = Gen.regdataVersion := by simpa using h
  simp [decodeRegdata, h']

/-- the schema message: LE16 block count, then (type id byte, LE16 parameter id) per block; the
device then holds the resolved wire types -/
theorem rt_schema (bs : List (Nat × Nat)) (rest : List Byte) (tys : List (Nat × Ty))
    (hn : bs.length < 65536) (hb : ∀ it ∈ bs, it.1 < 65536 ∧ it.2 < 256) (hres : resolve bs = some tys) :
    decodeSchema (encodeSchema bs ++ rest) =
      some ((if bs.isEmpty then Val.record [] else Val.record [("regdata_schema", schemaValSpec bs)]), tys) := by
  have := decodeSchema_encode bs rest tys hn hb hres
  simpa [schemaVal, schemaValSpec, dataTypes_names] using this

theorem typeId_lt (v : SVal) : v.typeId < 256 := by
  cases v <;> simp only [SVal.typeId] <;> (try split) <;> decide

theorem schemaIds_bounds (items : List Item) (h : wfItems items = true) :
    ∀ it ∈ schemaIdsOf items, it.1 < 65536 ∧ it.2 < 256 := by
  induction items with
  | nil => intro it hit; simp [schemaIdsOf] at hit
  | cons x r ih =>
    obtain ⟨hx, hr, _⟩ := wfItems_cons x r h
    intro it hit
    simp only [schemaIdsOf, List.flatMap_cons, List.mem_append] at hit
    cases hit with
    | inr h2 => exact ih hr it h2
    | inl h1 =>
      cases x with
      | scalar id v =>
        simp only [Item.schemaIds, List.mem_singleton] at h1
        simp only [Item.wf, Bool.and_eq_true, decide_eq_true_eq] at hx
        subst h1
        exact ⟨hx.1, typeId_lt v⟩
      | bits ids bytes =>
        simp only [Item.schemaIds, List.mem_map] at h1
        obtain ⟨i, hi, rfl⟩ := h1
        simp only [Item.wf, Bool.and_eq_true, List.all_eq_true, decide_eq_true_eq] at hx
        exact ⟨hx.1.2 i hi, by show bitTypeId < 256; decide⟩

/-- **schema response, then regulator data**: a device that decoded the schema message belonging
to `m` decodes `m`'s payload to exactly `m`'s values -/
theorem rt_regdata_via_schema (m : RegMsg) (r1 r2 : List Byte) (h : m.wf = true)
    (hlen : (schemaIdsOf m.items).length < 65536) :
    ∃ sv tys, decodeSchema (encodeSchema (schemaIdsOf m.items) ++ r1) = some (sv, tys) ∧
      decodeRegdata tys (encodeRegdata m ++ r2) = some (valOfRegdata m) := by
  have hitems : wfItems m.items = true := by
    simp only [RegMsg.wf, Bool.and_eq_true] at h; exact h.2
  refine ⟨_, schemaOf m.items, rt_schema _ r1 _ hlen (schemaIds_bounds _ hitems) (resolve_schemaIds _), ?_⟩
  exact rt_regdata m r2 h

/-! ### non-vacuity for the regulator data theorems -/

def exReg : RegMsg where
  hdr0 := 0x55
  hdr1 := 0xAA
  versions := [(49, 37), (50, 1)]
  items := [.bits [1792, 1793, 1794] [0b10100101],
            .scalar 1024 (.i16 (-2)),
            .bits [1800, 1801, 1802, 1803, 1804, 1805, 1806, 1807, 1808, 1809, 1810] [0xF0, 0x05],
            .scalar 1280 (.str false [0x50, 0x6C, 0x75, 0x6D]),
            .scalar 1281 (.f32 0x42280000),
            .scalar 1282 (.undefined true),
            .bits [1, 2, 3, 4, 5, 6, 7, 8] [0x81],
            .scalar 1283 (.ipv4 192 168 1 2),
            .scalar 1284 (.u64 18446744073709551615)]

example : exReg.wf = true := by decide
example : decodeRegdata (schemaOf exReg.items) (encodeRegdata exReg ++ [9]) = some (valOfRegdata exReg) :=
  rt_regdata exReg [9] (by decide)

end PlumVerif.C05

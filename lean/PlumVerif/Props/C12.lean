import PlumVerif.Proofs.ConnClose
/-
C12 — close() always terminates and leaves nothing running.

The connection machine is the one of C11 (Model/Conn.lean: queue contents, the write queue's
unfinished count, device and sub-device task sets, `close` / `shutdownRun`).  Liveness is
stated for the modelled scheduler: `closeSchedule` is the list of micro events the
deterministic scheduler of the harness produces for "call close(), frames keep arriving,
wait for WRITER_TIMEOUT" (`Conn.hstep` computes the same lists; implementation and model are
compared on them).  Safety statements (`stuck_*`) hold for every schedule.
-/
set_option linter.unusedSimpArgs false

namespace PlumVerif.C12
open PlumVerif.Conn

/-- the I/O timeout of the statement's bound: the larger of READER_TIMEOUT and WRITER_TIMEOUT -/
def ioTimeout : Nat := max readerTO writerTO

theorem ioTimeout_eq : ioTimeout = 10000 := by decide

/-- a quiescent point of a history at which the user may call close(): no library task is
runnable (`internal? = none`: no loss handler, no producer or set-up task that has not run yet,
no consumer with a frame to take), close() has not been called, connect() is not in progress,
every received frame has been handled -/
structure AtRest (s : St) : Prop where
  closing : s.closing = .no
  notUser : reconOwner s.recon ≠ some .user
  readIdle : s.rUnf = 0      -- no frame is queued or in a consumer's hand (else: read-queue side of F1, `stuck_read_queue`)
  quiet : internal? s = none

/-- what the modelled scheduler does for: close(); frames arriving after the given gaps; then
up to WRITER_TIMEOUT for the transport's `wait_closed()`.  This is ONE schedule: the one the
asyncio loop produces when, between close() and its return, nothing happens but the arrival of
those frames.  Not covered by the liveness theorems below (they are covered by the harness, and
by the safety theorems `stuck_*` which hold for every schedule): a connection loss while
`Queues.join` waits, requests queued meanwhile (by the user, or by a device set-up round whose
timer fires - see `close_during_setup` for the case where the frames arrive first), a device
set-up task that becomes runnable (excluded at the start by `AtRest.quiet`). -/
def closeSchedule (gaps : List Nat) : List Ev :=
  [.close] ++ drainEvs gaps ++ [.shutdownRun, .advance writerTO, .tick .cwcloseTO]

/-- `drains`: the write queue is empty (nothing unfinished), or the protocol is connected to a
controller that keeps sending - one frame per queued request, each before the read deadline -
on a transport that accepts writes, with no device in the middle of a set-up request round -/
inductive Drains (s : St) : List Nat → Prop
  | empty : unfinished s = 0 → Drains s []
  | sending (dl : Nat) (gaps : List Nat) :
      s.producers > 0 → s.pphase = .reading dl → dl ≤ s.now + readerTO → s.consumers > 0 → s.wdrain = .ok →
      NoSetupTimers s → s.writeQ ≠ [] → gaps.length = s.writeQ.length → GapsOk dl s.now gaps → Drains s gaps

theorem cancelConn_owner {s : St} (h : reconOwner s.recon ≠ some .user) :
    reconOwner (cancelConn s).recon = none ∨ reconOwner (cancelConn s).recon = some .proto := by
  unfold cancelConn
  split
  · left; rfl
  · rename_i hc
    cases hr : reconOwner s.recon with
    | none => left; rfl
    | some o => cases o <;> simp_all

/-- **close() with nothing to drain** (idle connection, lost connection, waiting to reconnect,
device set-up waiting for data, ...): returns after at most WRITER_TIMEOUT, transport closed,
no protocol / connection / device / sub-device task left -/
theorem close_idle {s : St} (hr : AtRest s) (h0 : unfinished s = 0) :
    Closed (run s (closeSchedule [])).1 s.now writerTO := by
  have hnd : isDone s.closing = false := by rw [hr.closing]; rfl
  have e1 : (step s .close).1 = beginJoin (cancelConn s) := by
    have hu : reconOwner s.recon ≠ some .user := hr.notUser
    simp [step, stepDone, stepLive, closeEv, hr.closing, hu, isDone]
  have hj : (beginJoin (cancelConn s)).closing = .joined s.now := by
    rw [beginJoin_closing, unfinished_cancelConn, h0, (cancelConn_fields s).1]; rfl
  have hro : reconOwner (beginJoin (cancelConn s)).recon = none ∨ reconOwner (beginJoin (cancelConn s)).recon = some .proto := by
    have := (same_beginJoin (cancelConn s)).recon
    rw [this]; exact cancelConn_owner hr.notUser
  have hnow : (beginJoin (cancelConn s)).now = s.now := by
    rw [(beginJoin_fields _).1, (cancelConn_fields s).1]
  have hrj : (beginJoin (cancelConn s)).rj = true := by
    rw [(beginJoin_fields _).2.2.2.2.2.2.2.2.2, (cancelConn_fields s).2.2.2.2.2.2.2.2.2, hr.readIdle]; rfl
  have hc := shutdown_completes (beginJoin (cancelConn s)) s.now hj hrj hro
  rw [hnow] at hc
  have : (run s (closeSchedule [])).1 = (run (beginJoin (cancelConn s)) [.shutdownRun, .advance writerTO, .tick .cwcloseTO]).1 := by
    simp only [closeSchedule, drainEvs, List.flatMap_nil, List.append_nil, List.nil_append, List.cons_append]
    simp only [run, e1]
  rw [this]
  exact hc.mono (by omega)


/-- **close() with queued requests, connected to a controller that keeps sending**: every
arriving frame lets the producer send one request; after the last one `Queues.join` returns and
the shutdown completes.  Time: at most one READER_TIMEOUT per queued request plus one
WRITER_TIMEOUT for the transport -/
theorem close_draining {s : St} (hs : Reachable s) (hr : AtRest s) (dl : Nat) (gaps : List Nat)
    (hp : s.producers > 0) (hrd : s.pphase = .reading dl) (hdl : dl ≤ s.now + readerTO) (hk : s.consumers > 0)
    (hd : s.wdrain = .ok) (hns : NoSetupTimers s) (hq : s.writeQ ≠ []) (hl : gaps.length = s.writeQ.length)
    (hg : GapsOk dl s.now gaps) :
    Closed (run s (closeSchedule gaps)).1 s.now (s.writeQ.length * readerTO + writerTO) := by
  have hi := hs.inv
  have hc : s.connected = true := by
    cases hc : s.connected
    · have := hi.disc_prod hc; omega
    · rfl
  have hrec : s.recon = .idle := hi.conn_recon hc
  have hw : s.writer.isSome = true := (hs.winv (by rw [hr.closing]; rfl) (Or.inl hc)).1
  have e1 : (step s .close).1 = beginJoin (cancelConn s) := by
    have hu : reconOwner s.recon ≠ some .user := hr.notUser
    simp [step, stepDone, stepLive, closeEv, hr.closing, hu, isDone]
  obtain ⟨c1, c2, c3, c4, c5, c6, c7, c8, c9, c10⟩ := cancelConn_fields s
  obtain ⟨b1, b2, b3, b4, b5, b6, b7, b8, b9, b10⟩ := beginJoin_fields (cancelConn s)
  have hcr : (cancelConn s).recon = .idle := by unfold cancelConn; split <;> first | rfl | exact hrec
  have hunf : unfinished (cancelConn s) ≠ 0 := by
    rw [unfinished_cancelConn]; unfold unfinished
    have : s.writeQ.length ≠ 0 := by simpa using hq
    omega
  let j := beginJoin (cancelConn s)
  have hdr : Draining j s.now dl := by
    refine ⟨?_, ?_, ?_, ?_, ?_, ?_, ?_, ?_, ?_, ?_⟩
    · show (beginJoin (cancelConn s)).closing = _
      rw [beginJoin_closing, c1]; simp [hunf]
    · show (beginJoin (cancelConn s)).producers > 0; rw [b3, c3]; exact hp
    · show (beginJoin (cancelConn s)).pphase = _; rw [b4, c4]; exact hrd
    · show (beginJoin (cancelConn s)).consumers > 0; rw [b5, c5]; exact hk
    · show (beginJoin (cancelConn s)).wdrain = _; rw [b6, c6]; exact hd
    · show (beginJoin (cancelConn s)).writer.isSome = true; rw [b7, c7]; exact hw
    · show (beginJoin (cancelConn s)).recon = _; rw [b8]; exact hcr
    · intro d hdm
      have : (beginJoin (cancelConn s)).devices = s.devices := by rw [b9, c8]
      rw [this] at hdm; exact hns d hdm
    · show (beginJoin (cancelConn s)).writeQ ≠ []; rw [b2, c2]; exact hq
    · show (beginJoin (cancelConn s)).rj = true; rw [b10, c10, hr.readIdle]; rfl
  have hjn : j.now = s.now := by show (beginJoin (cancelConn s)).now = _; rw [b1, c1]
  have hjq : j.writeQ = s.writeQ := by show (beginJoin (cancelConn s)).writeQ = _; rw [b2, c2]
  have hda := drain_all gaps j s.now dl hdr (by rw [hjq]; exact hl) (by rw [hjn]; exact hg)
  simp only at hda
  obtain ⟨d1, d2, d3, d4, d5⟩ := hda
  have hsc := shutdown_completes (run j (drainEvs gaps)).1 s.now d1 d5 (Or.inl d2)
  have hrun : (run s (closeSchedule gaps)).1
      = (run (run j (drainEvs gaps)).1 [.shutdownRun, .advance writerTO, .tick .cwcloseTO]).1 := by
    simp only [closeSchedule, List.append_assoc, List.singleton_append]
    show (run (step s .close).1 (drainEvs gaps ++ _)).1 = _
    rw [e1, run_append]
  rw [hrun]
  apply hsc.mono
  rw [d3, hjn]
  rw [hjn] at d4
  have hlen : gaps.length ≥ 1 := by
    rw [hl]; cases hq' : s.writeQ with
    | nil => exact absurd hq' hq
    | cons a b => simp
  have hmul : s.writeQ.length * readerTO = (gaps.length - 1) * readerTO + readerTO := by
    rw [← hl]
    have : gaps.length = (gaps.length - 1) + 1 := by omega
    conv => lhs; rw [this, Nat.add_mul, Nat.one_mul]
  rw [hmul]
  omega

/-- a device is in a request round of its set-up: sensor data seen, requests outstanding, the
retry timer pending, `reqAlive` request tasks alive -/
def inSetupRound (d : Dev) : Bool := match d.setup with | .requesting _ _ => true | _ => false

/-- what the modelled scheduler does for: close(); `n` frames arriving back to back; then up to
WRITER_TIMEOUT for the transport -/
def burstSchedule (n : Nat) : List Ev :=
  [.close] ++ List.replicate n (.feed .foreign) ++ [.shutdownRun, .advance writerTO, .tick .cwcloseTO]

/-- **close() in the middle of a device set-up** (sensor data seen, request rounds in progress
with their retry timers pending - no assumption at all on the devices): with the controller
responsive (one frame per queued request, arriving before the next set-up timer) close() returns
within WRITER_TIMEOUT of the last frame, the transport is closed and NOTHING is left - `tasks = 0`
counts the set-up tasks and their `PhysicalDevice.request` tasks (`reqTasks`), which die with
the set-up task -/
theorem close_during_setup {s : St} (hs : Reachable s) (hr : AtRest s)
    (hp : s.producers > 0) (hrd : isReading s.pphase = true) (hd : s.wdrain = .ok) (hq : s.writeQ ≠ []) :
    Closed (run s (burstSchedule s.writeQ.length)).1 s.now writerTO ∧
    reqTasks (run s (burstSchedule s.writeQ.length)).1 = 0 := by
  have hi := hs.inv
  have hc : s.connected = true := by
    cases hc : s.connected
    · have := hi.disc_prod hc; omega
    · rfl
  have hrec : s.recon = .idle := hi.conn_recon hc
  have hw : s.writer.isSome = true := (hs.winv (by rw [hr.closing]; rfl) (Or.inl hc)).1
  have e1 : (step s .close).1 = beginJoin (cancelConn s) := by
    have hu : reconOwner s.recon ≠ some .user := hr.notUser
    simp [step, stepDone, stepLive, closeEv, hr.closing, hu, isDone]
  obtain ⟨c1, c2, c3, c4, c5, c6, c7, c8, c9, c10⟩ := cancelConn_fields s
  obtain ⟨b1, b2, b3, b4, b5, b6, b7, b8, b9, b10⟩ := beginJoin_fields (cancelConn s)
  have hcr : (cancelConn s).recon = .idle := by unfold cancelConn; split <;> first | rfl | exact hrec
  have hunf : unfinished (cancelConn s) ≠ 0 := by
    rw [unfinished_cancelConn]; unfold unfinished
    have : s.writeQ.length ≠ 0 := by simpa using hq
    omega
  let j := beginJoin (cancelConn s)
  have hdr : DrainingB j s.now := by
    refine ⟨?_, ?_, ?_, ?_, ?_, ?_, ?_, ?_⟩
    · show (beginJoin (cancelConn s)).closing = _
      rw [beginJoin_closing, c1]; simp [hunf]
    · show (beginJoin (cancelConn s)).producers > 0; rw [b3, c3]; exact hp
    · show isReading (beginJoin (cancelConn s)).pphase = true; rw [b4, c4]; exact hrd
    · show (beginJoin (cancelConn s)).wdrain = _; rw [b6, c6]; exact hd
    · show (beginJoin (cancelConn s)).writer.isSome = true; rw [b7, c7]; exact hw
    · show (beginJoin (cancelConn s)).recon = _; rw [b8]; exact hcr
    · show (beginJoin (cancelConn s)).writeQ ≠ []; rw [b2, c2]; exact hq
    · show (beginJoin (cancelConn s)).rj = true; rw [b10, c10, hr.readIdle]; rfl
  have hjn : j.now = s.now := by show (beginJoin (cancelConn s)).now = _; rw [b1, c1]
  have hjq : j.writeQ = s.writeQ := by show (beginJoin (cancelConn s)).writeQ = _; rw [b2, c2]
  have hba := burst_all s.writeQ.length j s.now hdr (by rw [hjq])
  simp only at hba
  obtain ⟨d1, d2, d3, d5⟩ := hba
  have hsc := shutdown_completes (run j (List.replicate s.writeQ.length (.feed .foreign))).1 s.now d1 d5 (Or.inl d2)
  have hrun : (run s (burstSchedule s.writeQ.length)).1
      = (run (run j (List.replicate s.writeQ.length (.feed .foreign))).1 [.shutdownRun, .advance writerTO, .tick .cwcloseTO]).1 := by
    simp only [burstSchedule, List.append_assoc, List.singleton_append]
    show (run (step s .close).1 (List.replicate s.writeQ.length (.feed .foreign) ++ _)).1 = _
    rw [e1, run_append]
  rw [hrun]
  have hcl : Closed _ s.now writerTO := hsc.mono (by rw [d3, hjn]; omega)
  refine ⟨hcl, ?_⟩
  obtain ⟨t1, _, _, h3, _⟩ := hcl
  unfold tasks deviceTasks at h3
  omega

/-- **C12, the part that holds** (`close_partial`): from every reachable state at rest that
*drains* - write queue empty, or connected to a controller that keeps sending - close() under
the modelled scheduler terminates within `(|writeQ| + 1) · ioTimeout`, the transport is closed,
and no task created by the protocol, the connection, a device or a sub-device is left
(`tasks = 0` counts producer, consumers, loss handler, reconnect task, set-up tasks, device
tasks, mixer and thermostat tasks).
Missing for the full statement: states that do not drain (finding F1, `close_stuck_witness`),
devices in the middle of a set-up request round when the frames arrive slower than the retry
timers (then further requests are queued while close() waits: harness only; `close_during_setup`
covers the responsive controller), and schedulers other than the modelled one. -/
theorem close_partial {s : St} (hs : Reachable s) (hr : AtRest s) (gaps : List Nat) (hd : Drains s gaps) :
    Closed (run s (closeSchedule gaps)).1 s.now ((s.writeQ.length + 1) * ioTimeout) := by
  have hio : ioTimeout = readerTO ∧ ioTimeout = writerTO := by decide
  cases hd with
  | empty h0 =>
    apply (close_idle hr h0).mono
    rw [Nat.add_mul, Nat.one_mul, ← hio.2]; omega
  | sending dl gaps hp hrd hdl hk hdr hns hq hl hg =>
    apply (close_draining hs hr dl gaps hp hrd hdl hk hdr hns hq hl hg).mono
    rw [Nat.add_mul, Nat.one_mul, ← hio.1, ← hio.2]; omega

/-! ### sub-devices and disconnected devices -/

/-- **after 51898e9**: `EcoMAX.shutdown` shuts every mixer and every thermostat, whatever their
indexes: no sub-device task survives -/
theorem subdevices_all_shut (d : Dev) :
    (∀ x ∈ (shutDev d).mixers, x.parked = 0) ∧ (∀ x ∈ (shutDev d).thermos, x.parked = 0) ∧ (shutDev d).parked = 0 := by
  refine ⟨?_, ?_, rfl⟩ <;>
  · intro x hx
    simp only [shutDev, List.mem_map] at hx
    obtain ⟨y, _, rfl⟩ := hx
    rfl

/-- what the code did before: shut the values of `mixers | thermostats`, a dict merge keyed by
index in which a thermostat replaces the mixer with the same index -/
def shutDevUnion (d : Dev) : Dev :=
  { d with parked := 0,
           mixers := d.mixers.map (fun m => if d.thermos.any (·.idx == m.idx) then m else shutSub m),
           thermos := d.thermos.map shutSub }

/-- ... which leaves the task of a mixer running when a thermostat shares its index (keeps the
model honest: the theorem above is not true of the merged iteration) -/
theorem union_misses_overlapping_mixer :
    ∃ d : Dev, ∃ x ∈ (shutDevUnion d).mixers, x.parked ≠ 0 :=
  ⟨{ addr := 69, setup := .done, pw := false, pub := true, parked := 0, mixers := [⟨0, 1⟩], thermos := [⟨0, 1⟩] },
   ⟨0, 1⟩, by decide, by decide⟩

/-- **after fa07755**: close() on a protocol that is already disconnected (connection lost,
reconnect off or waiting) still shuts every device and sub-device down -/
theorem devices_shut_when_disconnected {s : St} (hr : AtRest s) (_hd : s.connected = false)
    (h0 : unfinished s = 0) :
    deviceTasks (run s (closeSchedule [])).1 = 0 ∧ (∀ d ∈ (run s (closeSchedule [])).1.devices,
      d.parked = 0 ∧ (∀ x ∈ d.mixers, x.parked = 0) ∧ (∀ x ∈ d.thermos, x.parked = 0)) := by
  obtain ⟨t1, h1, _, h3, _⟩ := close_idle hr h0
  have hz : deviceTasks (run s (closeSchedule [])).1 = 0 := by
    unfold tasks at h3; omega
  refine ⟨hz, ?_⟩
  intro d hdm
  simp only [deviceTasks, devOwnTasks, subOwnTasks] at hz
  have hdo : ((run s (closeSchedule [])).1.devices.map (·.parked)).sum = 0 := by omega
  have hso : ((run s (closeSchedule [])).1.devices.map subTasks).sum = 0 := by omega
  have zero_of_sum : ∀ (l : List Nat), l.sum = 0 → ∀ x ∈ l, x = 0 := by
    intro l
    induction l with
    | nil => intro _ x hx; simp at hx
    | cons a l ih =>
      intro hsum x hx
      simp only [List.sum_cons] at hsum
      rcases List.mem_cons.mp hx with rfl | hx
      · omega
      · exact ih (by omega) x hx
  have hp : d.parked = 0 := zero_of_sum _ hdo _ (List.mem_map.mpr ⟨d, hdm, rfl⟩)
  have hsub : subTasks d = 0 := zero_of_sum _ hso _ (List.mem_map.mpr ⟨d, hdm, rfl⟩)
  unfold subTasks at hsub
  obtain ⟨hm, ht⟩ := Nat.add_eq_zero_iff.mp hsub
  refine ⟨hp, ?_, ?_⟩
  · intro x hx
    exact zero_of_sum _ hm _ (List.mem_map.mpr ⟨x, hx, rfl⟩)
  · intro x hx
    exact zero_of_sum _ ht _ (List.mem_map.mpr ⟨x, hx, rfl⟩)


/-! ### the full statement, and why it is false (known finding F1) -/

/-- **C12 as stated**: from EVERY reachable state at rest, whatever arrives afterwards (frames
after any gaps, or nothing at all), close() terminates within the bound with nothing left.
Kept as a statement: it is false of the model and of the implementation (`close_stuck_witness`);
`close_partial` is the part that holds. -/
def close_full : Prop :=
  ∀ s : St, Reachable s → AtRest s → ∀ gaps : List Nat,
    Closed (run s (closeSchedule gaps)).1 s.now ((s.writeQ.length + 1) * ioTimeout)

/-- F1, first state: a request was queued, then the connection was lost with reconnecting off -
nothing is connected, no producer exists -/
def stuckDisconnected : St :=
  (run (init 3 false []) [.connect, .prodStart, .enq 1, .readFault, .lostRun]).1

/-- F1, second state: connected, reconnecting on, one request queued, and the controller is
silent -/
def stuckSilent : St :=
  (run (init 3 true []) [.connect, .prodStart, .enq 1]).1

theorem stuckDisconnected_facts :
    stuckDisconnected.connected = false ∧ stuckDisconnected.producers = 0 ∧ stuckDisconnected.writeQ.length = 1 ∧
    stuckDisconnected.closing = .no ∧ reconOwner stuckDisconnected.recon = none := by decide

theorem stuckSilent_facts :
    stuckSilent.connected = true ∧ stuckSilent.producers = 1 ∧ stuckSilent.writeQ.length = 1 ∧
    stuckSilent.closing = .no ∧ stuckSilent.rcOn = true := by decide

/-- **F1 for every schedule**: once close() waits in `Queues.join` with a request queued, no
sequence of events without an arriving frame - timers, read timeouts, losses, reconnects with
any open results, user activity - ever lets it return -/
theorem stuck_without_traffic {s : St} {t0 : Nat} (h : Stuck s t0) (es : List Ev)
    (hf : ∀ e ∈ es, isFeed e = false) : isDone (run s es).1.closing = false := by
  have := (stuck_run h es hf).closing
  rw [this]; rfl

/-- when nothing is connected and nothing reconnects, arriving frames cannot help either (there
is no reader): every event list whatsoever leaves close() waiting -/
theorem stuck_disconnected_forever {s : St} {t0 : Nat} (h : Stuck s t0) (hd : Dead s) (es : List Ev) :
    isDone (run s es).1.closing = false := by
  induction es generalizing s with
  | nil => show isDone s.closing = false; rw [h.closing]; rfl
  | cons e es ih =>
    have hd' := dead_step hd h.closing e
    cases hfe : isFeed e
    · exact ih (stuck_step h e hfe) hd'
    · -- a frame with no reader: nothing happens
      cases e with
      | feed f =>
        have hnd : isDone s.closing = false := by rw [h.closing]; rfl
        have : step s (.feed f) = (s, []) := by simp [step, stepDone, stepLive, hnd, feed, hd.prod]
        simp only [run, this]
        exact ih h hd
      | _ => simp [isFeed] at hfe

/-- **F1, read-queue side, for every schedule**: frames left in the read queue by consumers that
exited while the link was down (five frames of a new device behind a slow subscriber, EOF, the
subscriber returns, three consumers finish and exit, two frames remain; reconnect off or
cancelled by close()) keep close() in `Queues.join` whatever happens - such states satisfy
neither `AtRest.readIdle` nor any conclusion of `close_partial` -/
theorem stuck_read_queue {s : St} (h : StuckRead s) (es : List Ev) : isDone (run s es).1.closing = false := by
  induction es generalizing s with
  | nil =>
    have := h.joining
    show isDone s.closing = false
    cases hc : s.closing <;> simp_all [isJoining, isDone]
  | cons e es ih => exact ih (stuckread_step h e)

/-- the state of the audit's example: 5 ecoSTER frames behind a slow subscriber with 3 consumers,
EOF with reconnect off, the subscriber returns: 3 delivered, 2 left, no consumer -/
def stuckReadQueue : St :=
  (run (init 3 false []) [.connect, .prodStart, .gate 81, .feed (.pw 81), .take, .feed (.pw 81), .take, .feed (.pw 81), .take,
    .feed (.pw 81), .feed (.pw 81), .readFault, .lostRun, .release]).1

theorem stuckReadQueue_facts :
    stuckReadQueue.connected = false ∧ stuckReadQueue.consumers = 0 ∧ stuckReadQueue.readQ.length = 2 ∧
    stuckReadQueue.rUnf = 2 ∧ stuckReadQueue.writeQ = [] ∧ unfinished stuckReadQueue = 0 ∧
    stuckReadQueue.closing = .no ∧ internal? stuckReadQueue = none := by decide

/-- close() on it is stuck for ever (and it is not `AtRest`: `readIdle` fails) -/
theorem stuck_read_witness : Reachable stuckReadQueue ∧ stuckReadQueue.rUnf ≠ 0 ∧
    ∀ es, isDone (run (step stuckReadQueue .close).1 es).1.closing = false := by
  refine ⟨⟨3, false, [], _, rfl⟩, by decide, fun es => ?_⟩
  exact stuck_read_queue ⟨by decide, by decide, by decide, by decide, by decide, ⟨by decide, by decide, by decide, by decide⟩⟩ es

/-- **the negation of the full statement, with its two witnesses** (known finding F1): both
states are reachable and at rest; after close() they are `Stuck`, so under the modelled
scheduler with no arriving frame - and under every other frame-free schedule - close() has not
returned; for the disconnected one no event list at all completes it.  Hence `close_full` is false. -/
theorem close_stuck_witness :
    (Reachable stuckDisconnected ∧ AtRest stuckDisconnected ∧
      (∀ es, isDone (run (step stuckDisconnected .close).1 es).1.closing = false)) ∧
    (Reachable stuckSilent ∧ AtRest stuckSilent ∧
      (∀ es, (∀ e ∈ es, isFeed e = false) → isDone (run (step stuckSilent .close).1 es).1.closing = false)) ∧
    ¬ close_full := by
  have r1 : Reachable stuckDisconnected := ⟨3, false, [], _, rfl⟩
  have r2 : Reachable stuckSilent := ⟨3, true, [], _, rfl⟩
  have a1 : AtRest stuckDisconnected := ⟨by decide, by decide, by decide, by decide⟩
  have a2 : AtRest stuckSilent := ⟨by decide, by decide, by decide, by decide⟩
  have s1 : Stuck (step stuckDisconnected .close).1 stuckDisconnected.now := ⟨by decide, by decide, by decide⟩
  have s2 : Stuck (step stuckSilent .close).1 stuckSilent.now := ⟨by decide, by decide, by decide⟩
  refine ⟨⟨r1, a1, ?_⟩, ⟨r2, a2, ?_⟩, ?_⟩
  · intro es
    exact stuck_disconnected_forever s1 ⟨by decide, by decide, by decide, by decide⟩ es
  · intro es hf
    exact stuck_without_traffic s2 es hf
  · intro hfull
    obtain ⟨t1, h1, _⟩ := hfull stuckSilent r2 a2 []
    have hns : isDone (run stuckSilent (closeSchedule [])).1.closing = false := by
      have : run stuckSilent (closeSchedule []) = run stuckSilent (.close :: [.shutdownRun, .advance writerTO, .tick .cwcloseTO]) := rfl
      rw [this]
      show isDone (run (step stuckSilent .close).1 [.shutdownRun, .advance writerTO, .tick .cwcloseTO]).1.closing = false
      exact stuck_without_traffic s2 _ (by decide)
    rw [h1] at hns
    simp [isDone] at hns


/-! ### non-vacuity: concrete states that meet the hypotheses of `close_partial` -/

/-- connected (after a read timeout and a reconnect), ecoMAX with mixer 0 and thermostat 0
(overlapping indexes), a parked task in the device, the mixer and the thermostat, set-up given up,
24 of its requests still unsent -/
def exIdle : St :=
  (run (init 3 true []) [.connect, .prodStart, .feed (.sensors 1 1), .take, .setupGo, .park (.dev 69), .park (.mixer 0),
    .park (.thermo 0), .advance 3000, .tick (.setup 69), .advance 3000, .tick (.setup 69), .advance 3000,
    .tick (.setup 69), .advance 1000, .tick .readTO, .lostRun, .lostRun2, .prodStart]).1

example : Reachable exIdle := ⟨3, true, [], _, rfl⟩
example : exIdle.connected = true ∧ exIdle.writeQ.length = 24 ∧ deviceTasks exIdle = 3 ∧ exIdle.closing = .no := by decide

/-- the same after the connection was lost with reconnect waiting: disconnected, queue empty -/
def exLost : St := (run (init 2 true [.ok .ok .ok, .err]) [.connect, .prodStart, .feed (.pw 69), .take, .park (.dev 69), .readFault,
  .lostRun, .lostRun2]).1

example : Reachable exLost := ⟨2, true, _, _, rfl⟩
example : AtRest exLost := ⟨by decide, by decide, by decide, by decide⟩
example : Drains exLost [] := .empty (by decide)
example : exLost.connected = false ∧ deviceTasks exLost = 2 ∧ lostTasks exLost = 2 := by decide
/-- ... and what `close_partial` promises, computed -/
example : isDone (run exLost (closeSchedule [])).1.closing = true ∧ tasks (run exLost (closeSchedule [])).1 = 0 := by decide

/-- connected with two requests queued, controller sends a frame after 1 s and after 9 s -/
def exSending : St := (run (init 3 true []) [.connect, .prodStart, .feed (.pw 69), .take, .enq 2]).1

example : Reachable exSending := ⟨3, true, [], _, rfl⟩
example : AtRest exSending := ⟨by decide, by decide, by decide, by decide⟩
example : Drains exSending [1000, 9000] :=
  .sending 10000 [1000, 9000] (by decide) (by decide) (by decide) (by decide) (by decide)
    (by intro d hd; have : d ∈ exSending.devices := hd; revert d; decide) (by decide) (by decide)
    ⟨by decide, by decide, trivial⟩
example : isDone (run exSending (closeSchedule [1000, 9000])).1.closing = true ∧
    tasks (run exSending (closeSchedule [1000, 9000])).1 = 0 ∧ (run exSending (closeSchedule [1000, 9000])).1.wopen = false := by decide


/-- hypotheses of `close_during_setup`: sensor data seen, first request round in progress (8
request tasks alive, 8 requests queued, retry timer pending) -/
def exSetup : St := (run (init 3 true []) [.connect, .prodStart, .feed (.sensors 1 1), .take, .setupGo]).1

example : Reachable exSetup := ⟨3, true, [], _, rfl⟩
example : AtRest exSetup := ⟨by decide, by decide, by decide, by decide⟩
example : exSetup.producers > 0 ∧ isReading exSetup.pphase = true ∧ exSetup.wdrain = .ok ∧ exSetup.writeQ.length = 8 ∧
    reqTasks exSetup = 8 ∧ setupTasks exSetup = 1 ∧ exSetup.devices.any inSetupRound = true := by decide
example : isDone (run exSetup (burstSchedule 8)).1.closing = true ∧ tasks (run exSetup (burstSchedule 8)).1 = 0 := by decide

/-! ### the explicit time bound, task names, frame-version announcements, the object used again -/

/-- **close() time bound** (virtual time, the drains case): close() called at `s.now` has returned at some `t1` with
`t1 - s.now ≤ |writeQ| · READER_TIMEOUT + WRITER_TIMEOUT ≤ (|writeQ| + 1) · ioTimeout` (`ioTimeout_eq`: 10 s) - one read time-out per queued request
(each goes out when a frame arrives, which the `Drains` controller sends before the read deadline), one write time-out
for the transport's `wait_closed()`.  The harness measures every returning close() against this bound (and against
its generalisation with the failed opens and closed transports of a history) -/
theorem close_time_bound {s : St} (hs : Reachable s) (hr : AtRest s) (gaps : List Nat) (hd : Drains s gaps) :
    ∃ t1, (run s (closeSchedule gaps)).1.closing = .done s.now t1 ∧
      t1 ≤ s.now + (s.writeQ.length * readerTO + writerTO) ∧ t1 ≤ s.now + (s.writeQ.length + 1) * ioTimeout := by
  have hio : ioTimeout = readerTO ∧ ioTimeout = writerTO := by decide
  cases hd with
  | empty h0 =>
    obtain ⟨t1, h1, h2, _⟩ := close_idle hr h0
    refine ⟨t1, h1, by omega, ?_⟩
    rw [Nat.add_mul, Nat.one_mul]; rw [← hio.2] at h2; omega
  | sending dl gaps hp hrd hdl hk hdr hns hq hl hg =>
    obtain ⟨t1, h1, h2, _⟩ := close_draining hs hr dl gaps hp hrd hdl hk hdr hns hq hl hg
    refine ⟨t1, h1, h2, ?_⟩
    rw [Nat.add_mul, Nat.one_mul]; rw [← hio.1, ← hio.2] at h2; omega

/-- the request kinds of the frame-version dimension are the ones the harness announces -/
theorem verKinds_eq : verKinds = [64, 48] := by decide

/-- **an announced version that is already stored queues nothing** (`has_frame_version`): the entry is skipped -/
theorem version_known_queues_nothing (acc : List (Nat × Nat) × List Nat) (p : Nat × Nat)
    (h : acc.1.lookup p.1 = some p.2) : verEntry acc p = acc := by
  simp [verEntry, h]

/-- ... and once an entry of a followed kind has been handled its version IS stored - so the same table announced
again (a controller that keeps broadcasting and never answers) asks for nothing: the write queue cannot grow by
re-queueing (what seeded C12-m9 breaks; the harness's queue-growth clause is this statement on the implementation) -/
theorem version_learned (acc : List (Nat × Nat) × List Nat) (p : Nat × Nat) (hk : verKinds.contains p.1 = true) :
    (verEntry acc p).1.lookup p.1 = some p.2 := by
  have hk' : p.1 ∈ verKinds := by simpa using hk
  unfold verEntry
  by_cases h : acc.1.lookup p.1 = some p.2
  · simp [hk', h]
  · simp [hk', h, setVer, List.lookup]

/-- **every live task has one of the eight coroutine names, and they add up**: the per-name prediction the harness
compares `asyncio.all_tasks()` with sums to `tasks` plus the children of `Queues.join` while close() waits -/
theorem taskNames_total (s : St) : ((taskNames s).map (·.2)).sum = tasks s + joinTasks s := by
  simp only [taskNames, List.map_cons, List.map_nil, List.sum_cons, List.sum_nil, tasks, lostTasks, deviceTasks, connTasks]
  cases hr : s.recon with
  | idle => simp [reconProtoTasks, reconOwner]; omega
  | wclosing d => simp [reconProtoTasks, reconOwner]; omega
  | attempting d o => cases o <;> simp [reconProtoTasks, reconOwner] <;> omega
  | backoff d o => cases o <;> simp [reconProtoTasks, reconOwner] <;> omega

/-- **close() twice / close() after reopen**: the second close() on a connection that close() left clean is the
`close_idle` case again - it returns at once (nothing queued, nothing running) -/
example :
    let s1 := (run (init 3 true []) [.connect, .prodStart, .feed (.pw 69), .take, .park (.dev 69), .close, .shutdownRun]).1
    isDone s1.closing = true ∧ tasks s1 = 0 ∧
    (let s2 := (run s1 [.reopen, .close, .shutdownRun]).1
     isDone s2.closing = true ∧ tasks s2 = 0 ∧ s2.wopen = false) ∧
    (let s3 := (run s1 [.reopen, .connect, .prodStart, .feed (.sensors 1 1), .take, .park (.mixer 0)]).1
     s3.connected = true ∧ s3.consumers = 3 ∧ tasks s3 = 5) := by decide

/-- close() before the first connect(): returns at once -/
example : isDone (run (init 3 true []) [.close, .shutdownRun]).1.closing = true ∧
    tasks (run (init 3 true []) [.close, .shutdownRun]).1 = 0 := by decide

/-- daf0ebe in the machine: a retry task created while close() waits (the first attempt failed inside the loss handler,
its back-off ends during `Queues.join` behind a slow subscriber) is cancelled when close() returns: nothing is left -/
example :
    let r := (run (init 2 true [.ok .ok .ok, .err, .err, .ok .ok .ok])
      [.connect, .prodStart, .gate 69, .feed (.pw 69), .take, .readFault, .lostRun, .close, .advance 20000,
       .tick .backoffEnd, .release, .shutdownRun]).1
    isDone r.closing = true ∧ tasks r = 0 ∧ r.recon = .idle := by decide

end PlumVerif.C12

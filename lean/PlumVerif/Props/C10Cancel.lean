import PlumVerif.Proofs.EntryCancel
/-
C10 — cancellation of the creating task while the class loading is pending (Model/EntryCancel.lean).

All theorems hold for EVERY description `who` of the callers, EVERY set `cr` of addresses with a device class and EVERY
schedule `ms : List MvC` of caller moves and cancellations (a cancellation takes effect while the caller awaits the
class loading; cancelled callers never move again).
-/
namespace PlumVerif.C10
open PlumVerif PlumVerif.Entry

/-- **one device object per address, also with cancelled creators**: under every schedule of moves and cancellations, all
callers for one address that have returned hold one and the same object, created once, set up once -/
theorem single_device_with_cancels (who : Nat → Caller) (cr : Nat → Bool) (ms : List MvC) (j k d e : Nat)
    (hj : (runC true who cr initC ms).st.pc j = .done d ∨ (runC true who cr initC ms).st.pc j = .got d)
    (hk : (runC true who cr initC ms).st.pc k = .done e ∨ (runC true who cr initC ms).st.pc k = .got e)
    (ha : (who j).addr = (who k).addr) :
    d = e ∧ (runC true who cr initC ms).st.createdFor (who j).addr = 1 ∧
      (runC true who cr initC ms).st.setupsFor (who j).addr = 1 := by
  have h := inv_runC who cr initC ms (inv_init who cr)
  generalize (runC true who cr initC ms).st = s at h hj hk
  have pj := h.holds j d hj
  have pk := h.holds k e hk
  rw [← ha, pj] at pk
  cases pk
  exact ⟨rfl, (h.ids _ d pj).2.1, by rw [h.setups, (h.ids _ d pj).2.1]⟩

/-- every handled frame was handled by THE entry of its address, each frame at most once, and at most one object is ever
created per address - whatever was cancelled -/
theorem handled_by_the_entry_with_cancels (who : Nat → Caller) (cr : Nat → Bool) (ms : List MvC) :
    let s := (runC true who cr initC ms).st
    (∀ f d, (f, d) ∈ s.handled → s.published (who f).addr = some d) ∧ (s.handled.map (·.1)).Nodup ∧
    (∀ a, s.setupsFor a = s.createdFor a) ∧ (∀ a d, s.published a = some d → s.createdFor a = 1) := by
  have h := inv_runC who cr initC ms (inv_init who cr)
  exact ⟨fun f d hf => h.holds f d (.inl (h.handledOk (f, d) hf).1), h.handledNodup, h.setups, fun a d ha => (h.ids a d ha).2.1⟩

/-- **a cancelled creator does not block the address**: at ANY point of ANY schedule, if the caller `i` that is creating the
entry (awaiting the class loading, holding the lock) is cancelled, then the lock is free at once, `i` is gone, and the
next caller `j` for an address with a device class (a frame consumer that has not started, not cancelled itself) returns
with a device object within three of its own moves - the one entry of its address, which also handled its frame. -/
theorem cancelled_creator_does_not_block (who : Nat → Caller) (cr : Nat → Bool) (ms : List MvC) (i j : Nat)
    (hi : (runC true who cr initC ms).st.pc i = .creating) (hgi : (runC true who cr initC ms).gone i = false)
    (hj : (runC true who cr initC ms).st.pc j = .start) (hg : (runC true who cr initC ms).gone j = false)
    (hk : (who j).kind = .entry) (hc : cr (who j).addr = true) :
    let s' := stepC true who cr (runC true who cr initC ms) (.cancel i)
    s'.st.lock = none ∧ pcC s' i = none ∧
    ∃ n, n ≤ 3 ∧ ∃ d, (runC true who cr s' (List.replicate n (.move j))).st.pc j = .done d ∧
      (runC true who cr s' (List.replicate n (.move j))).st.published (who j).addr = some d ∧
      (j, d) ∈ (runC true who cr s' (List.replicate n (.move j))).st.handled := by
  have h := inv_runC who cr initC ms (inv_init who cr)
  generalize runC true who cr initC ms = s at h hi hgi hj hg
  have hij : j ≠ i := by intro e; rw [e, hi] at hj; cases hj
  have hs' : stepC true who cr s (.cancel i) =
      { st := { s.st with pc := upd s.st.pc i .start, lock := none }, gone := upd s.gone i true } := by
    simp [stepC, hgi, hi]
  have h' : Inv who cr (stepC true who cr s (.cancel i)).st := inv_stepC who cr s (.cancel i) h
  have hg' : (stepC true who cr s (.cancel i)).gone j = false := by rw [hs']; simp [upd_other _ _ _ _ hij, hg]
  have hj' : (stepC true who cr s (.cancel i)).st.pc j = .start := by rw [hs']; simp [upd_other _ _ _ _ hij, hj]
  have hl' : (stepC true who cr s (.cancel i)).st.lock = none := by rw [hs']
  refine ⟨hl', by rw [hs']; simp [pcC], ?_⟩
  generalize stepC true who cr s (.cancel i) = t at h' hg' hj' hl'
  -- the moves of j on the plain machine
  have fin : ∀ (u : St) (d : Nat), Inv who cr u → u.pc j = .done d → u.published (who j).addr = some d ∧ (j, d) ∈ u.handled :=
    fun u d hu hd => ⟨hu.holds j d (.inl hd), hu.doneIn j d hd⟩
  rcases step_start_entry who cr t.st j hj' hk hl' with ⟨d, hd⟩ | ⟨hcr, _⟩
  · refine ⟨1, by omega, d, ?_⟩
    rw [runC_moves true who cr t j hg' 1]
    have hu : Inv who cr (run true who cr t.st (List.replicate 1 j)) := inv_run who cr t.st _ h'
    have hd' : (run true who cr t.st (List.replicate 1 j)).pc j = .done d := by simpa [run] using hd
    exact ⟨hd', fin _ d hu hd'⟩
  · obtain ⟨a1, _⟩ := step_creating_ok who cr _ j hcr hc
    obtain ⟨b1, _⟩ := step_publishing who cr _ j _ a1
    refine ⟨3, by omega, (step true who cr t.st j).created, ?_⟩
    rw [runC_moves true who cr t j hg' 3]
    have hu : Inv who cr (run true who cr t.st (List.replicate 3 j)) := inv_run who cr t.st _ h'
    have hd' : (run true who cr t.st (List.replicate 3 j)).pc j = .done (step true who cr t.st j).created := by
      simpa [run, List.replicate] using b1
    exact ⟨hd', fin _ _ hu hd'⟩

/-- contrast (the model can tell the difference): a lock taken and released by hand WITHOUT try/finally (`rel = false`)
stays with the cancelled creator, and the next consumer for the address waits for ever, however often it is scheduled -/
theorem unreleased_lock_blocks (n : Nat) :
    let who : Nat → Caller := fun _ => ⟨.entry, 69⟩
    let s := runC false who (fun _ => true) initC [.move 0, .cancel 0]
    pcC s 0 = none ∧ (runC false who (fun _ => true) s (List.replicate n (.move 1))).st.pc 1 = .start := by
  intro who s
  have hs : s.gone 1 = false ∧ s.st.lock = some 0 ∧ s.st.pc 1 = .start ∧ pcC s 0 = none := by
    refine ⟨?_, ?_, ?_, ?_⟩ <;> simp [s, who, runC, stepC, step, initC, init, upd, pcC]
  refine ⟨hs.2.2.2, ?_⟩
  rw [runC_moves false who _ s 1 hs.1 n]
  have : ∀ (u : St), u.lock = some 0 → u.pc 1 = .start → ∀ n, (run true who (fun _ => true) u (List.replicate n 1)).pc 1 = .start := by
    intro u hl hp n
    induction n with
    | zero => simpa [run] using hp
    | succ n ih =>
      have : step true who (fun _ => true) u 1 = u := by simp [step, hp, hl, who]
      simpa [List.replicate_succ, run, this] using ih
  exact this s.st hs.2.1 hs.2.2.1 n

/-- **the theorems are about what the driver prints**: every state the replay machine `replayC` (driver op `c10c`, compared
event by event with the implementation) goes through, for every accepted event list, every consumers_count and every set
of creatable addresses, satisfies the invariant - in particular every handled frame was handled by the one entry of its
address, and at most one object per address was created and set up -/
theorem replayC_states_ok (consumers : Nat) (cs : Nat → Caller × Bool) (cr : Nat → Bool) (evs : List EvC) (r r' : ReplayC)
    (h : Inv (fun j => (cs j).1) cr r.s.st)
    (e : evs.foldlM (applyEvC consumers cs cr) r = some r') :
    Inv (fun j => (cs j).1) cr r'.s.st ∧
    (∀ f d, (f, d) ∈ r'.s.st.handled → r'.s.st.published (cs f).1.addr = some d) ∧
    (∀ a d, r'.s.st.published a = some d → r'.s.st.createdFor a = 1 ∧ r'.s.st.setupsFor a = 1) := by
  have hi : Inv (fun j => (cs j).1) cr r'.s.st := by
    induction evs generalizing r with
    | nil => simp [List.foldlM] at e; subst e; exact h
    | cons ev evs ih =>
      simp only [List.foldlM_cons, Option.bind_eq_bind] at e
      cases ha : applyEvC consumers cs cr r ev with
      | none => rw [ha] at e; simp at e
      | some r1 => rw [ha] at e; exact ih r1 (inv_applyEvC consumers cs cr r r1 ev h ha) e
  exact ⟨hi, fun f d hf => hi.holds f d (.inl (hi.handledOk (f, d) hf).1),
    fun a d ha => ⟨(hi.ids a d ha).2.1, by rw [hi.setups, (hi.ids a d ha).2.1]⟩⟩

/-- non-vacuity: two consumers for address 69; the first takes the lock and awaits the class loading, is cancelled; the
second creates the device in three moves and handles its frame -/
example :
    let who : Nat → Caller := fun _ => ⟨.entry, 69⟩
    let s := runC true who (fun _ => true) initC [.move 0, .cancel 0, .move 1, .move 1, .move 1, .move 0]
    s.st.pc 1 = .done 0 ∧ s.st.published 69 = some 0 ∧ pcC s 0 = none ∧ s.st.createdFor 69 = 1 ∧ s.st.handled = [(1, 0)] := by
  simp [runC, stepC, step, initC, init, upd, pcC]

end PlumVerif.C10

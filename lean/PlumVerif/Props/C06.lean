import PlumVerif.Spec.C06
import PlumVerif.Model.ParamTables
/-
C06 — no write request carries a value outside the controller-reported range.

Model: `Model/ParamSet.lean` (the front of `Parameter.set`) on top of `Model/Scaling.lean` (the
subclass conversions, exact binary64).  The theorems hold for EVERY conversion (so for every row of
every table), every triple — including degenerate `min = max` and `min > max` — and every
requested Python value.  A controller report that changes the bounds while a call is in flight
is outside this property (C08 covers reports during a call; bounds are those held at the call).
-/
namespace PlumVerif.C06
open PlumVerif PlumVerif.Scaling PlumVerif.ParamSet

/-- **reject_iff**: a request whose raw encoding differs from the held value is refused exactly
when that raw encoding is below the minimum or above the maximum -/
theorem reject_iff (c : Conv) (t : Triple) (v : PyVal) (r : Int) (hr : toRaw c v = .ok r) (hne : r ≠ t.value) :
    ParamSet.decide c t v = .reject ↔ (r < t.min ∨ r > t.max) := by
  unfold ParamSet.decide
  rw [hr]
  simp only [hne, if_false]
  by_cases h : r < t.min ∨ r > t.max <;> simp [h]

/-- everything that is not an accepted request leaves the triple unchanged and transmits nothing:
refusal (ValueError), the no-op, and the conversion errors -/
theorem reject_inert (c : Conv) (t : Triple) (v : PyVal) (n : Nat) (h : ∀ r, ParamSet.decide c t v ≠ .transmit r) :
    (ParamSet.set c t v n).after = t ∧ (ParamSet.set c t v n).tx = [] := by
  unfold ParamSet.set
  split
  · next r hr => exact absurd hr (h r)
  · exact ⟨rfl, rfl⟩

theorem refused_inert (c : Conv) (t : Triple) (v : PyVal) (n : Nat) (h : ParamSet.decide c t v = .reject) :
    (ParamSet.set c t v n).outcome = .reject ∧ (ParamSet.set c t v n).after = t ∧ (ParamSet.set c t v n).tx = [] := by
  have := reject_inert c t v n (by rw [h]; intro r hr; cases hr)
  refine ⟨?_, this⟩
  unfold ParamSet.set
  rw [h]

/-- an accepted request: the raw encoding is within the inclusive bounds, becomes the held value,
and is the value of every transmitted request -/
theorem accepted (c : Conv) (t : Triple) (v : PyVal) (r : Int) (n : Nat) (h : ParamSet.decide c t v = .transmit r) :
    toRaw c v = .ok r ∧ t.min ≤ r ∧ r ≤ t.max ∧ r ≠ t.value ∧
    (ParamSet.set c t v n).after = { t with value := r } ∧ (ParamSet.set c t v n).tx = List.replicate n r := by
  have hset : ParamSet.set c t v n = ⟨.transmit r, { t with value := r }, List.replicate n r⟩ := by
    unfold ParamSet.set; rw [h]
  unfold ParamSet.decide at h
  split at h
  · cases h
  · cases h
  · next r' hr' =>
    split at h
    · cases h
    · split at h
      · cases h
      · next hne hin =>
        simp only [Outcome.transmit.injEq] at h
        subst h
        exact ⟨hr', by omega, by omega, hne, by rw [hset], by rw [hset]⟩

/-- **tx_in_range**: every set request transmitted by a call carries a raw value within the
inclusive bounds held at the call (any conversion, triple, requested value, retry count) -/
theorem tx_in_range (c : Conv) (t : Triple) (v : PyVal) (n : Nat) :
    ∀ r ∈ (ParamSet.set c t v n).tx, t.min ≤ r ∧ r ≤ t.max := by
  intro r hr
  cases hd : ParamSet.decide c t v with
  | transmit r' =>
    obtain ⟨_, hlo, hhi, _, _, htx⟩ := accepted c t v r' n hd
    rw [htx] at hr
    have := List.eq_of_mem_replicate hr
    subst this
    exact ⟨hlo, hhi⟩
  | noop => have := (reject_inert c t v n (by rw [hd]; intro r h; cases h)).2; rw [this] at hr; cases hr
  | reject => have := (reject_inert c t v n (by rw [hd]; intro r h; cases h)).2; rw [this] at hr; cases hr
  | typeError => have := (reject_inert c t v n (by rw [hd]; intro r h; cases h)).2; rw [this] at hr; cases hr
  | otherError => have := (reject_inert c t v n (by rw [hd]; intro r h; cases h)).2; rw [this] at hr; cases hr

/-- degenerate bounds: with `min > max` every request other than the held value is refused -/
theorem empty_range_refuses_all (c : Conv) (t : Triple) (v : PyVal) (r : Int) (hr : toRaw c v = .ok r)
    (hne : r ≠ t.value) (hdeg : t.max < t.min) : ParamSet.decide c t v = .reject :=
  (reject_iff c t v r hr hne).mpr (by omega)

/-- the observation the model's `set` produces -/
def obsOf (e : Effect) : Obs := ⟨e.outcome == .reject, e.after.value, e.tx⟩

/-- **holds**: the model's behaviour satisfies the statement's predicate for every conversion,
triple, requested value with a raw encoding, and retry count -/
theorem holds (c : Conv) (t : Triple) (v : PyVal) (r : Int) (n : Nat) (hr : toRaw c v = .ok r) :
    spec r t (obsOf (ParamSet.set c t v n)) = true := by
  have htx := tx_in_range c t v n
  cases hd : ParamSet.decide c t v with
  | transmit r' =>
    obtain ⟨hr', hlo, hhi, hne, hafter, htx'⟩ := accepted c t v r' n hd
    have : r' = r := by rw [hr] at hr'; cases hr'; rfl
    subst this
    have hout : (ParamSet.set c t v n).outcome = .transmit r' := by unfold ParamSet.set; rw [hd]
    simp only [spec, obsOf, hne, hout]
    have h1 : ¬ (r' < t.min ∨ r' > t.max) := by omega
    simp only [h1, and_false, if_false, Bool.true_and, ne_eq, List.all_eq_true, Bool.and_eq_true,
      decide_eq_true_eq]
    exact htx
  | noop =>
    have hin := reject_inert c t v n (by rw [hd]; intro r h; cases h)
    have hv : r = t.value := by
      unfold ParamSet.decide at hd; rw [hr] at hd
      simp only at hd
      split at hd
      · assumption
      · split at hd <;> cases hd
    simp [spec, obsOf, hin.1, hin.2, hv]
  | reject =>
    obtain ⟨hout, hafter, htx'⟩ := refused_inert c t v n hd
    simp [spec, obsOf, hout, hafter, htx']
  | typeError =>
    unfold ParamSet.decide at hd; rw [hr] at hd
    simp only at hd
    split at hd
    · cases hd
    · split at hd <;> cases hd
  | otherError =>
    unfold ParamSet.decide at hd; rw [hr] at hd
    simp only at hd
    split at hd
    · cases hd
    · split at hd <;> cases hd

/-- **held_value_noop** (documented carve-out of the statement's first sentence): a request whose raw
encoding equals the value held is a no-op returning True — also when the controller reported that
value outside its own bounds; nothing is transmitted and nothing changes (`reject_inert`), but no
ValueError is raised -/
theorem held_value_noop (c : Conv) (t : Triple) (v : PyVal) (hr : toRaw c v = .ok t.value) :
    ParamSet.decide c t v = .noop := by
  simp [ParamSet.decide, hr]

example : ParamSet.decide ⟨.plain, 1, 1, 0, 6⟩ ⟨5, 10, 20⟩ (.int 5) = .noop := by decide

/-! ### the report / set machine: reports replace the triple, the range is checked at call time -/

/-- **report_always_replaces**: a controller report replaces the held triple — value, minimum and
maximum — in every state, also while a set is pending / a call is in flight and also when the
reported value equals the value held or the value held before the pending set -/
theorem report_always_replaces (c : Conv) (s : MState) (t : Triple) :
    (stepM c s (.report t)).1.held = t := rfl

theorem attempt_keeps_bounds (s : MState) :
    (attempt s).1.held.min = s.held.min ∧ (attempt s).1.held.max = s.held.max := by
  unfold attempt
  split
  · exact ⟨rfl, rfl⟩
  · split
    · exact ⟨rfl, rfl⟩
    · split <;> exact ⟨rfl, rfl⟩

/-- neither a `set` call nor a retry changes the bounds held -/
theorem nonreport_keeps_bounds (c : Conv) (s : MState) (ev : MEvent) (h : ∀ t, ev ≠ .report t) :
    (stepM c s ev).1.held.min = s.held.min ∧ (stepM c s ev).1.held.max = s.held.max := by
  cases ev with
  | report t => exact absurd rfl (h t)
  | tick => exact attempt_keeps_bounds s
  | set v n =>
    simp only [stepM]
    split
    · split <;> exact ⟨rfl, rfl⟩
    · split
      · next r _ =>
        have := attempt_keeps_bounds
          { held := { s.held with value := r }, pending := true, previous := s.held.value,
            call := some ⟨r, n, s.held.min, s.held.max⟩ }
        exact this
      · exact ⟨rfl, rfl⟩

/-- after any history the bounds held are those of the last report (the initial ones if the
controller has not reported since) -/
theorem bounds_are_last_report (c : Conv) : ∀ (evs : List MEvent) (s : MState),
    (runM c s evs).1.held.min = ((lastReport evs).getD s.held).min ∧
    (runM c s evs).1.held.max = ((lastReport evs).getD s.held).max := by
  intro evs
  induction evs with
  | nil => intro s; exact ⟨rfl, rfl⟩
  | cons ev rest ih =>
    intro s
    cases ev with
    | report t =>
      have := ih (update s t)
      simp only [runM, stepM, lastReport]
      cases hl : lastReport rest with
      | none => rw [hl] at this; simpa [update] using this
      | some t' => rw [hl] at this; simpa using this
    | set v n =>
      have := ih (stepM c s (.set v n)).1
      have hb := nonreport_keeps_bounds c s (.set v n) (fun t h => by cases h)
      simp only [runM, lastReport]
      cases hl : lastReport rest with
      | none => rw [hl] at this; simp only [Option.getD_none] at this ⊢; rw [← hb.1, ← hb.2]; exact this
      | some t' => rw [hl] at this; simpa using this
    | tick =>
      have := ih (stepM c s .tick).1
      have hb := nonreport_keeps_bounds c s .tick (fun t h => by cases h)
      simp only [runM, lastReport]
      cases hl : lastReport rest with
      | none => rw [hl] at this; simp only [Option.getD_none] at this ⊢; rw [← hb.1, ← hb.2]; exact this
      | some t' => rw [hl] at this; simpa using this

/-- **checked_against_last_report** (the DECISION): for EVERY history of reports, calls and retries
that leaves no call in flight, a further `set` whose raw encoding differs from the held value is
refused exactly when the encoding lies outside the bounds of the LAST report -/
theorem checked_against_last_report (c : Conv) (s0 : MState) (evs : List MEvent) (t : Triple)
    (hlast : lastReport evs = some t) (hidle : (runM c s0 evs).1.call = none)
    (v : PyVal) (n : Nat) (r : Int) (hr : toRaw c v = .ok r) (hne : r ≠ (runM c s0 evs).1.held.value) :
    ∃ o rest, (stepM c (runM c s0 evs).1 (.set v n)).2 = .decided o :: rest ∧
      (o = .reject ↔ (r < t.min ∨ r > t.max)) := by
  obtain ⟨hmin, hmax⟩ := bounds_are_last_report c evs s0
  rw [hlast] at hmin hmax
  simp only [Option.getD_some] at hmin hmax
  generalize (runM c s0 evs).1 = s at *
  have hiff := reject_iff c s.held v r hr hne
  rw [hmin, hmax] at hiff
  simp only [stepM, hidle]
  cases hd : ParamSet.decide c s.held v with
  | transmit r' => exact ⟨_, _, rfl, by rw [← hiff, hd]⟩
  | noop => exact ⟨_, _, rfl, by rw [← hiff, hd]⟩
  | reject => exact ⟨_, _, rfl, by rw [← hiff, hd]⟩
  | typeError => exact ⟨_, _, rfl, by rw [← hiff, hd]⟩
  | otherError => exact ⟨_, _, rfl, by rw [← hiff, hd]⟩

/-- a call in flight carries a requested value within the bounds recorded when it was accepted -/
def CallOK (s : MState) : Prop := ∀ k, s.call = some k → k.lo ≤ k.r ∧ k.r ≤ k.hi

theorem attempt_ok (s : MState) (h : CallOK s) :
    CallOK (attempt s).1 ∧ ∀ o ∈ (attempt s).2, ∀ r lo hi cl ch, o = .tx r lo hi cl ch → lo ≤ r ∧ r ≤ hi := by
  unfold attempt
  cases hc : s.call with
  | none => exact ⟨h, fun o ho => by cases ho⟩
  | some k =>
    have hk := h k hc
    simp only []
    split
    · exact ⟨fun k' h' => (by cases h'), fun o ho r lo hi cl ch he => (by simp at ho; subst ho; cases he)⟩
    · split
      · exact ⟨fun k' h' => (by cases h'), fun o ho r lo hi cl ch he => (by simp at ho; subst ho; cases he)⟩
      · refine ⟨fun k' h' => ?_, fun o ho r lo hi cl ch he => ?_⟩
        · simp only [Option.some.injEq] at h'; subst h'; exact hk
        · simp only [List.mem_singleton] at ho; subst ho
          simp only [MOut.tx.injEq] at he
          obtain ⟨rfl, rfl, rfl, _, _⟩ := he
          exact hk

theorem stepM_ok (c : Conv) (s : MState) (h : CallOK s) (ev : MEvent) :
    CallOK (stepM c s ev).1 ∧
      ∀ o ∈ (stepM c s ev).2, ∀ r lo hi cl ch, o = .tx r lo hi cl ch → lo ≤ r ∧ r ≤ hi := by
  cases ev with
  | report t => exact ⟨fun k hk => h k hk, fun o ho => by cases ho⟩
  | tick => exact attempt_ok s h
  | set v n =>
    simp only [stepM]
    split
    · split
      · exact ⟨h, fun o ho => by cases ho⟩
      · exact ⟨h, fun o ho r' lo hi cl ch he => by simp at ho; subst ho; cases he⟩
    · split
      · next r hd =>
        obtain ⟨_, hlo, hhi, _, _, _⟩ := accepted c s.held v r 0 hd
        have := attempt_ok
          { held := { s.held with value := r }, pending := true, previous := s.held.value,
            call := some ⟨r, n, s.held.min, s.held.max⟩ }
          (fun k hk => by simp only [Option.some.injEq] at hk; subst hk; exact ⟨hlo, hhi⟩)
        refine ⟨this.1, fun o ho r' lo hi cl ch he => ?_⟩
        rcases List.mem_cons.mp ho with rfl | ho
        · cases he
        · exact this.2 o ho r' lo hi cl ch he
      · exact ⟨h, fun o ho r' lo hi cl ch he => by simp at ho; subst ho; cases he⟩

/-- **tx_in_range_at_call**: over EVERY history of reports, calls and retries, every transmitted set
request carries a raw value within the inclusive bounds held when its call was accepted (the ghost
fields `lo`,`hi` of `.tx` are exactly `held.min`,`held.max` at acceptance, see `stepM`) -/
theorem tx_in_range_at_call (c : Conv) : ∀ (evs : List MEvent) (s : MState), CallOK s →
    ∀ o ∈ (runM c s evs).2, ∀ r lo hi cl ch, o = .tx r lo hi cl ch → lo ≤ r ∧ r ≤ hi := by
  intro evs
  induction evs with
  | nil => intro s _ o ho; cases ho
  | cons ev rest ih =>
    intro s hs o ho
    obtain ⟨hs1, hout⟩ := stepM_ok c s hs ev
    simp only [runM] at ho
    rcases List.mem_append.mp ho with ho | ho
    · exact hout o ho
    · exact ih _ hs1 o ho

/-- **rejected_set_inert_while_pending**: a second `set` that is refused while a call is in flight
changes NOTHING — not the held triple, not the pending flag, and not the value the call in flight
will re-assert and transmit on its next attempts (what seeded change C06-m5 breaks) -/
theorem rejected_set_inert_while_pending (c : Conv) (s : MState) (k : Call) (hk : s.call = some k)
    (v : PyVal) (n : Nat) (hrej : ParamSet.decide c s.held v = .reject) :
    stepM c s (.set v n) = (s, [.decided .reject]) ∧
    (s.pending = true → 0 < k.left →
      (stepM c (stepM c s (.set v n)).1 .tick).2 = [.tx k.r k.lo k.hi s.held.min s.held.max]) := by
  have h1 : stepM c s (.set v n) = (s, [.decided .reject]) := by simp only [stepM, hk, hrej]
  refine ⟨h1, fun hp hl => ?_⟩
  rw [h1]
  simp only [stepM, attempt, hk, hp]
  have : ¬ k.left = 0 := by omega
  simp [this]

example : (runM ⟨.plain, 1, 1, 0, 6⟩ ⟨⟨10, 0, 100⟩, false, 0, none⟩
    [.set (.int 42) 2, .set (.int 150) 1, .tick]).2 =
      [.decided (.transmit 42), .tx 42 0 100 0 100, .decided .reject, .tx 42 0 100 0 100] := by decide

/-- the full second sentence of C06 over histories: every transmitted set request lies within the
bounds the controller LAST reported before the transmission (the ghost fields `curLo`,`curHi`) -/
def tx_in_last_reported_range_full : Prop :=
  ∀ (c : Conv) (s : MState), s.call = none → ∀ (evs : List MEvent),
    ∀ o ∈ (runM c s evs).2, ∀ r lo hi cl ch, o = .tx r lo hi cl ch → cl ≤ r ∧ r ≤ ch

/-- **open finding F7**: the full clause is false of the code as it is — `set(42)` on (10, 0, 100),
a report (10, 0, 20) during the call, and the retry transmits 42 although the last reported maximum
is 20 (the range is checked once, at call time; retries re-assert the value) -/
theorem tx_in_last_reported_range_full_false : ¬ tx_in_last_reported_range_full := by
  intro h
  have := h ⟨.plain, 1, 1, 0, 6⟩ ⟨⟨10, 0, 100⟩, false, 0, none⟩ rfl
    [.set (.int 42) 2, .report ⟨10, 0, 20⟩, .tick] (.tx 42 0 100 0 20) (by decide) 42 0 100 0 20 rfl
  omega

theorem attempt_tx (s : MState) : ∀ o ∈ (attempt s).2, ∀ r lo hi cl ch, o = .tx r lo hi cl ch →
    ∃ k, s.call = some k ∧ r = k.r ∧ cl = s.held.min ∧ ch = s.held.max := by
  unfold attempt
  cases hc : s.call with
  | none => intro o ho; cases ho
  | some k =>
    simp only []
    split
    · intro o ho r lo hi cl ch he; simp at ho; subst ho; cases he
    · split
      · intro o ho r lo hi cl ch he; simp at ho; subst ho; cases he
      · intro o ho r lo hi cl ch he
        simp only [List.mem_singleton] at ho; subst ho
        simp only [MOut.tx.injEq] at he
        obtain ⟨rfl, _, _, rfl, rfl⟩ := he
        exact ⟨k, rfl, rfl, rfl, rfl⟩

/-- what IS true of retries: without a report between acceptance and transmission the bounds are
unchanged, so the first attempt of every call is within the last reported bounds -/
theorem first_attempt_in_last_reported_range (c : Conv) (s : MState) (hidle : s.call = none) (v : PyVal) (n : Nat) :
    ∀ o ∈ (stepM c s (.set v n)).2, ∀ r lo hi cl ch, o = .tx r lo hi cl ch →
      cl = s.held.min ∧ ch = s.held.max ∧ cl ≤ r ∧ r ≤ ch := by
  intro o ho r lo hi cl ch he
  simp only [stepM, hidle] at ho
  split at ho
  · next r' hd =>
    obtain ⟨_, hlo, hhi, _, _, _⟩ := accepted c s.held v r' 0 hd
    rcases List.mem_cons.mp ho with rfl | ho
    · cases he
    · obtain ⟨k, hk, hr, hcl, hch⟩ := attempt_tx _ o ho r lo hi cl ch he
      simp only [Option.some.injEq] at hk
      subst hk
      simp only at hr hcl hch
      subst hr hcl hch
      exact ⟨rfl, rfl, hlo, hhi⟩
  · simp at ho; subst ho; cases he

example : (runM ⟨.scaledOff, 1, 1, 0, 6⟩ ⟨⟨50, 20, 80⟩, false, 0, none⟩
    [.set (.int 60) 1, .tick, .report ⟨50, 20, 55⟩, .set (.int 58) 1]).2 =
      [.decided (.transmit 60), .tx 60 20 80 20 80, .returned false, .decided .reject] := by
  decide +kernel

/-! non-vacuity: a scaled conversion (multiplier 0.1 as a double), bounds 1.0 .. 4.0; a switch -/
example : ParamSet.set (⟨.scaledOff, 3602879701896397, 36028797018963968, 0, 6⟩ : Conv) ⟨10, 10, 40⟩ (.float ⟨41, 10⟩) 2 = ⟨.reject, ⟨10, 10, 40⟩, []⟩ := by
  decide +kernel
example : ParamSet.set (⟨.scaledOff, 3602879701896397, 36028797018963968, 0, 6⟩ : Conv) ⟨10, 10, 40⟩ (.float ⟨4, 1⟩) 2 = ⟨.transmit 40, ⟨40, 10, 40⟩, [40, 40]⟩ := by
  decide +kernel
example : ParamSet.set (⟨.switch, 1, 1, 0, 6⟩ : Conv) ⟨0, 0, 1⟩ (.str "on") 1 = ⟨.transmit 1, ⟨1, 0, 1⟩, [1]⟩ := by
  decide +kernel
example : ParamSet.set (⟨.scaledOff, 3602879701896397, 36028797018963968, 0, 6⟩ : Conv) ⟨10, 10, 40⟩ (.str "on") 1 = ⟨.typeError, ⟨10, 10, 40⟩, []⟩ := by
  decide +kernel

end PlumVerif.C06

import PlumVerif.Spec.C06
import PlumVerif.Model.ParamTables
/-
C06 — no write request carries a value outside the controller-reported range.

Model: `Model/ParamSet.lean` (the front of `Parameter.set`) on top of `Model/Scaling.lean` (the
subclass conversions, exact binary64).  The theorems hold for EVERY conversion (so for every row of
every table), every triple — including degenerate `min = max` and `min > max` — and every
requested Python value.  A controller report that changes the bounds while a call is in flight
is outside this property (C08 covers reports during a call; bounds are those held at the call).
-/
namespace PlumVerif.C06
open PlumVerif PlumVerif.Scaling PlumVerif.ParamSet

/-- **reject_iff**: a request whose raw encoding differs from the held value is refused exactly
when that raw encoding is below the minimum or above the maximum -/
theorem reject_iff (c : Conv) (t : Triple) (v : PyVal) (r : Int) (hr : toRaw c v = .ok r) (hne : r ≠ t.value) :
    ParamSet.decide c t v = .reject ↔ (r < t.min ∨ r > t.max) := by
  unfold ParamSet.decide
  rw [hr]
  simp only [hne, if_false]
  by_cases h : r < t.min ∨ r > t.max <;> simp [h]

/-- everything that is not an accepted request leaves the triple unchanged and transmits nothing:
refusal (ValueError), the no-op, and the conversion errors -/
theorem reject_inert (c : Conv) (t : Triple) (v : PyVal) (n : Nat) (h : ∀ r, ParamSet.decide c t v ≠ .transmit r) :
    (ParamSet.set c t v n).after = t ∧ (ParamSet.set c t v n).tx = [] := by
  unfold ParamSet.set
  split
  · next r hr => exact absurd hr (h r)
  · exact ⟨rfl, rfl⟩

theorem refused_inert (c : Conv) (t : Triple) (v : PyVal) (n : Nat) (h : ParamSet.decide c t v = .reject) :
    (ParamSet.set c t v n).outcome = .reject ∧ (ParamSet.set c t v n).after = t ∧ (ParamSet.set c t v n).tx = [] := by
  have := reject_inert c t v n (by rw [h]; intro r hr; cases hr)
  refine ⟨?_, this⟩
  unfold ParamSet.set
  rw [h]

/-- an accepted request: the raw encoding is within the inclusive bounds, becomes the held value,
and is the value of every transmitted request -/
theorem accepted (c : Conv) (t : Triple) (v : PyVal) (r : Int) (n : Nat) (h : ParamSet.decide c t v = .transmit r) :
    toRaw c v = .ok r ∧ t.min ≤ r ∧ r ≤ t.max ∧ r ≠ t.value ∧
    (ParamSet.set c t v n).after = { t with value := r } ∧ (ParamSet.set c t v n).tx = List.replicate n r := by
  have hset : ParamSet.set c t v n = ⟨.transmit r, { t with value := r }, List.replicate n r⟩ := by
    unfold ParamSet.set; rw [h]
  unfold ParamSet.decide at h
  split at h
  · cases h
  · cases h
  · next r' hr' =>
    split at h
    · cases h
    · split at h
      · cases h
      · next hne hin =>
        simp only [Outcome.transmit.injEq] at h
        subst h
        exact ⟨hr', by omega, by omega, hne, by rw [hset], by rw [hset]⟩

/-- **tx_in_range**: every set request transmitted by a call carries a raw value within the
inclusive bounds held at the call (any conversion, triple, requested value, retry count) -/
theorem tx_in_range (c : Conv) (t : Triple) (v : PyVal) (n : Nat) :
    ∀ r ∈ (ParamSet.set c t v n).tx, t.min ≤ r ∧ r ≤ t.max := by
  intro r hr
  cases hd : ParamSet.decide c t v with
  | transmit r' =>
    obtain ⟨_, hlo, hhi, _, _, htx⟩ := accepted c t v r' n hd
    rw [htx] at hr
    have := List.eq_of_mem_replicate hr
    subst this
    exact ⟨hlo, hhi⟩
  | noop => have := (reject_inert c t v n (by rw [hd]; intro r h; cases h)).2; rw [this] at hr; cases hr
  | reject => have := (reject_inert c t v n (by rw [hd]; intro r h; cases h)).2; rw [this] at hr; cases hr
  | typeError => have := (reject_inert c t v n (by rw [hd]; intro r h; cases h)).2; rw [this] at hr; cases hr
  | otherError => have := (reject_inert c t v n (by rw [hd]; intro r h; cases h)).2; rw [this] at hr; cases hr

/-- degenerate bounds: with `min > max` every request other than the held value is refused -/
theorem empty_range_refuses_all (c : Conv) (t : Triple) (v : PyVal) (r : Int) (hr : toRaw c v = .ok r)
    (hne : r ≠ t.value) (hdeg : t.max < t.min) : ParamSet.decide c t v = .reject :=
  (reject_iff c t v r hr hne).mpr (by omega)

/-- the observation the model's `set` produces -/
def obsOf (e : Effect) : Obs := ⟨e.outcome == .reject, e.after.value, e.tx⟩

/-- **holds**: the model's behaviour satisfies the statement's predicate for every conversion,
triple, requested value with a raw encoding, and retry count -/
theorem holds (c : Conv) (t : Triple) (v : PyVal) (r : Int) (n : Nat) (hr : toRaw c v = .ok r) :
    spec r t (obsOf (ParamSet.set c t v n)) = true := by
  have htx := tx_in_range c t v n
  cases hd : ParamSet.decide c t v with
  | transmit r' =>
    obtain ⟨hr', hlo, hhi, hne, hafter, htx'⟩ := accepted c t v r' n hd
    have : r' = r := by rw [hr] at hr'; cases hr'; rfl
    subst this
    have hout : (ParamSet.set c t v n).outcome = .transmit r' := by unfold ParamSet.set; rw [hd]
    simp only [spec, obsOf, hne, hout]
    have h1 : ¬ (r' < t.min ∨ r' > t.max) := by omega
    simp only [h1, and_false, if_false, Bool.true_and, ne_eq, List.all_eq_true, Bool.and_eq_true,
      decide_eq_true_eq]
    exact htx
  | noop =>
    have hin := reject_inert c t v n (by rw [hd]; intro r h; cases h)
    have hv : r = t.value := by
      unfold ParamSet.decide at hd; rw [hr] at hd
      simp only at hd
      split at hd
      · assumption
      · split at hd <;> cases hd
    simp [spec, obsOf, hin.1, hin.2, hv]
  | reject =>
    obtain ⟨hout, hafter, htx'⟩ := refused_inert c t v n hd
    simp [spec, obsOf, hout, hafter, htx']
  | typeError =>
    unfold ParamSet.decide at hd; rw [hr] at hd
    simp only at hd
    split at hd
    · cases hd
    · split at hd <;> cases hd
  | otherError =>
    unfold ParamSet.decide at hd; rw [hr] at hd
    simp only at hd
    split at hd
    · cases hd
    · split at hd <;> cases hd

/-! non-vacuity: a scaled conversion (multiplier 0.1 as a double), bounds 1.0 .. 4.0; a switch -/
example : ParamSet.set (⟨.scaledOff, 3602879701896397, 36028797018963968, 0, 6⟩ : Conv) ⟨10, 10, 40⟩ (.float ⟨41, 10⟩) 2 = ⟨.reject, ⟨10, 10, 40⟩, []⟩ := by
  decide +kernel
example : ParamSet.set (⟨.scaledOff, 3602879701896397, 36028797018963968, 0, 6⟩ : Conv) ⟨10, 10, 40⟩ (.float ⟨4, 1⟩) 2 = ⟨.transmit 40, ⟨40, 10, 40⟩, [40, 40]⟩ := by
  decide +kernel
example : ParamSet.set (⟨.switch, 1, 1, 0, 6⟩ : Conv) ⟨0, 0, 1⟩ (.str "on") 1 = ⟨.transmit 1, ⟨1, 0, 1⟩, [1]⟩ := by
  decide +kernel
example : ParamSet.set (⟨.scaledOff, 3602879701896397, 36028797018963968, 0, 6⟩ : Conv) ⟨10, 10, 40⟩ (.str "on") 1 = ⟨.typeError, ⟨10, 10, 40⟩, []⟩ := by
  decide +kernel

end PlumVerif.C06

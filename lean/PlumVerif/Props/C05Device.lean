import PlumVerif.Model.DeviceData
import PlumVerif.Proofs.DeviceData
import PlumVerif.Props.C05Sensors
import PlumVerif.Props.C05Params
/-
C05 (extension) — device-level consequences of decoded frames (Model/DeviceData.lean):
the thermostat count a sensor-data frame leaves in the device is the one the
thermostat-parameters decoder uses; a schema response determines how later regulator data is
decoded, a later schema replacing an earlier one; the frame-version table is decoded identically
from both carrier messages and is the dict the C15 model consumes.
-/
namespace PlumVerif.C05
open PlumVerif PlumVerif.Wire PlumVerif.Sens PlumVerif.Regd PlumVerif.DevD

/-- the `sensors` dict of a message -/
def sensorFields (m : SensorMsg) : VFields :=
  assocSet (mergeAll (sections m)) "state" (Val.nat (stateSpec m.state.toNat))

theorem valOfSensorData_eq (m : SensorMsg) :
    valOfSensorData m = Val.record [("sensors", Val.record (sensorFields m))] := rfl

theorem state_mem_keys (m : SensorMsg) : "state" ∈ (mergeAll (sections m)).map Prod.fst := by
  rw [sections_no_collision]
  simp [sections]

theorem sensorFields_keys (m : SensorMsg) :
    (sensorFields m).map Prod.fst = (sections m).flatten.map Prod.fst := by
  unfold sensorFields
  rw [keys_assocSet, if_pos (state_mem_keys m), sections_no_collision]

theorem sensorFields_keys_nodup (m : SensorMsg) : ((sensorFields m).map Prod.fst).Nodup := by
  rw [sensorFields_keys]; exact sections_keys_nodup m

theorem sensorFields_get (m : SensorMsg) (k : String) (hk : ¬ "state" = k) :
    assocGet (sensorFields m) k = assocGet (sections m).flatten k := by
  unfold sensorFields
  rw [assocGet_assocSet, if_neg hk, sections_no_collision]

/-- a well-formed sensor-data frame is always handled; its fields are dispatched one by one -/
theorem handleSensor_encoded (d : Dev) (m : SensorMsg) (rest : List Byte) (h : m.wf = true) :
    handleSensor d (encodeSensorData m ++ rest) = some (handleSensorFields d (sensorFields m)) := by
  unfold handleSensor
  rw [rt_sensorData m rest h, valOfSensorData_eq]

theorem not_mem_flatten_of_bounds (sb : List (List String × List String)) (k : String)
    (h : ∀ p ∈ sb, ∀ x ∈ p.1, x ∈ p.2) (hk : ∀ p ∈ sb, k ∈ p.2 → p.1 = []) :
    k ∉ (sb.map Prod.fst).flatten := by
  intro hm
  simp only [List.mem_flatten, List.mem_map] at hm
  obtain ⟨l, ⟨p, hp, rfl⟩, hkl⟩ := hm
  have := hk p hp (h p hp k hkl)
  rw [this] at hkl
  simp at hkl

/-- the `thermostats_available` field of a message: present iff the thermostat section is -/
theorem sensorFields_thermostats (m : SensorMsg) :
    assocGet (sensorFields m) "thermostats_available" =
      match m.thermostats with
      | some t => some (Val.nat t.items.length)
      | none => none := by
  rw [sensorFields_get m _ (by decide)]
  cases ht : m.thermostats with
  | some t =>
    apply assocGet_of_mem_nodup _ _ _ (sections_keys_nodup m)
    simp [sections, ht, valThermostats]
  | none =>
    apply assocGet_none_of_not_mem
    have hfl : (sections m).flatten.map Prod.fst =
        (((sections m).map keysOf).zip sectionBounds |>.map Prod.fst).flatten := by
      rw [List.map_fst_zip (by simp [sections, sectionBounds])]
      rw [List.map_flatten]; rfl
    rw [hfl]
    apply not_mem_flatten_of_bounds _ _ (fun p hp => (sections_bounded m p hp).2)
    simp only [sections, sectionBounds, List.map_cons, List.map_nil, List.zip_cons_cons, List.zip_nil_right,
      List.forall_mem_cons]
    refine ⟨?_, ?_, ?_, ?_, ?_, ?_, ?_, ?_, ?_, ?_, ?_, ?_, ?_, ?_, ?_, ?_, ?_, ?_, ?_⟩
    all_goals first
      | (intro hmem; exact absurd hmem (by decide))
      | (intro _; simp [ht, valThermostats, keysOf]; done)
      | (intro p hp; simp at hp)

/-- **the thermostat count a sensor-data frame leaves behind**: the number of thermostat slots of
the frame when the section is present, otherwise whatever the device held before -/
theorem thermostats_available_after (d : Dev) (m : SensorMsg) (rest : List Byte) (h : m.wf = true) :
    ∃ d', handleSensor d (encodeSensorData m ++ rest) = some d' ∧
      thermostatCount d' = match m.thermostats with
        | some t => t.items.length
        | none => thermostatCount d := by
  refine ⟨_, handleSensor_encoded d m rest h, ?_⟩
  unfold thermostatCount
  rw [handleSensorFields_get d (sensorFields m) "thermostats_available" (by decide)
    (sensorFields_keys_nodup m), sensorFields_thermostats]
  cases m.thermostats with
  | some t => simp [Val.nat]
  | none => rfl

/-- **thermostat_count_plumbed**: a sensor-data frame with `T` thermostat slots, then a
thermostat-parameters payload laid out for `T` thermostats: the device-level decode uses `T`
(through `frame.handler`) and yields exactly the encoded parameters, whatever the device held
before and whatever follows either payload -/
theorem thermostat_count_plumbed (d : Dev) (m : SensorMsg) (t : ThermostatsMsg) (tm : P2.ThermoMsg)
    (rest rest2 : List Byte) (h : m.wf = true) (ht : m.thermostats = some t)
    (hT : tm.blocks.length = t.items.length) (htm : P2.wfThermo tm = true) :
    ∃ d1, handleSensor d (encodeSensorData m ++ rest) = some d1 ∧
      P2.decodeThermo (some (thermostatCount d1)) (P2.encodeThermo tm ++ rest2) = .ok (P2.valThermo tm, rest2) ∧
      handleThermo d1 (P2.encodeThermo tm ++ rest2) = some (applyThermo d1 (P2.valThermo tm)) := by
  obtain ⟨d1, h1, hc⟩ := thermostats_available_after d m rest h
  rw [ht] at hc
  have hc' : thermostatCount d1 = t.items.length := hc
  have hdec : P2.decodeThermo (some (thermostatCount d1)) (P2.encodeThermo tm ++ rest2) =
      .ok (P2.valThermo tm, rest2) := by
    rw [hc', ← hT]; exact rt_params_thermostat tm rest2 htm
  exact ⟨d1, h1, hdec, by simp [handleThermo, hdec]⟩

/-- a device that never saw a thermostat section answers `thermostat_parameters: None` to any
thermostat-parameters payload and creates no thermostat -/
theorem thermostat_count_zero (m : SensorMsg) (rest msg : List Byte) (h : m.wf = true)
    (ht : m.thermostats = none) :
    ∃ d1, handleSensor Dev.init (encodeSensorData m ++ rest) = some d1 ∧
      handleThermo d1 msg = some (d1.set "thermostat_parameters" (Val.bool false)) := by
  obtain ⟨d1, h1, hc⟩ := thermostats_available_after Dev.init m rest h
  rw [ht] at hc
  have h0 : thermostatCount d1 = 0 := hc
  exact ⟨d1, h1, by simp [handleThermo, h0, P2.decodeThermo, applyThermo]⟩

/-! ### schema response, then regulator data, at device level -/

theorem schemaIdsOf_isEmpty (items : List Item) (h : wfItems items = true) :
    (schemaIdsOf items).isEmpty = items.isEmpty := by
  cases items with
  | nil => rfl
  | cons it r =>
    have hit := (wfItems_cons it r h).1
    cases it with
    | scalar id v => simp [schemaIdsOf, Item.schemaIds]
    | bits ids bytes =>
      simp only [Item.wf, Bool.and_eq_true, Bool.not_eq_true'] at hit
      cases ids with
      | nil => simp at hit
      | cons i is => simp [schemaIdsOf, Item.schemaIds]

/-- a schema response with at least one block: the device holds exactly the wire types of the
message's items afterwards -- whatever schema it held before -/
theorem handleSchema_encoded (d : Dev) (m : RegMsg) (r1 : List Byte) (h : m.wf = true)
    (hne : m.items.isEmpty = false) (hlen : (schemaIdsOf m.items).length < 65536) :
    handleSchema d (encodeSchema (schemaIdsOf m.items) ++ r1) =
      some (({ d with schema := schemaOf m.items }).set "regdata_schema"
        (schemaValSpec (schemaIdsOf m.items))) := by
  have hitems : wfItems m.items = true := by
    simp only [RegMsg.wf, Bool.and_eq_true] at h; exact h.2
  have hs := rt_schema (schemaIdsOf m.items) r1 (schemaOf m.items) hlen
    (schemaIds_bounds _ hitems) (resolve_schemaIds _)
  rw [schemaIdsOf_isEmpty _ hitems, hne] at hs
  simp [handleSchema, hs]

/-- a schema response with zero blocks carries no key: the device keeps the schema it had -/
theorem empty_schema_keeps (d : Dev) (r : List Byte) : handleSchema d (encodeSchema [] ++ r) = some d := by
  have hs := rt_schema [] r [] (by decide) (by simp) rfl
  simp only [List.isEmpty_nil, if_true] at hs
  simp [handleSchema, hs]

theorem dispatchVersions_schema (d : Dev) (v : Val) : (dispatchVersions d v).schema = d.schema := by
  unfold dispatchVersions; dsimp only; split <;> rfl

theorem dispatchVersions_get (d : Dev) (v : Val) (k : String) (hk : ¬ "frame_versions" = k) :
    assocGet (dispatchVersions d v).data k = assocGet d.data k := by
  unfold dispatchVersions
  dsimp only
  split
  · rfl
  · simp [set_data, assocGet_assocSet, hk]

/-- regulator data handled by a device that holds the message's schema: `data["regdata"]` is the
dict of the encoded values -/
theorem handleRegdata_encoded (d : Dev) (m : RegMsg) (r2 : List Byte) (h : m.wf = true)
    (hne : m.items.isEmpty = false) (hs : d.schema = schemaOf m.items) :
    ∃ d2, handleRegdata d (encodeRegdata m ++ r2) = some d2 ∧ d2.schema = d.schema ∧
      assocGet d2.data "regdata" = some (Val.intDict (assocOf (valsOf m.items))) := by
  have hdec := rt_regdata m r2 h
  simp only [valOfRegdata, hne, Bool.false_eq_true, if_false, valVersions, assocSet,
    show ("frame_versions" == "regdata") = false by decide] at hdec
  refine ⟨_, by simp only [handleRegdata, hs, hdec]; rfl, ?_, ?_⟩
  · simp [List.foldl, dispatchVersions_schema, Dev.set, hs]
  · simp [List.foldl, set_data, assocGet_assocSet]

/-- **schema_then_data**: for ANY device state (including one that holds an earlier, different
schema): after the schema response belonging to `m` the device decodes `m`'s regulator data with
those types and stores exactly `m`'s values -/
theorem schema_then_data (d : Dev) (m : RegMsg) (r1 r2 : List Byte) (h : m.wf = true)
    (hne : m.items.isEmpty = false) (hlen : (schemaIdsOf m.items).length < 65536) :
    ∃ d1 d2, handleSchema d (encodeSchema (schemaIdsOf m.items) ++ r1) = some d1 ∧
      d1.schema = schemaOf m.items ∧
      handleRegdata d1 (encodeRegdata m ++ r2) = some d2 ∧ d2.schema = schemaOf m.items ∧
      assocGet d2.data "regdata" = some (Val.intDict (assocOf (valsOf m.items))) := by
  obtain ⟨d2, h2, hsch, hget⟩ := handleRegdata_encoded
    (({ d with schema := schemaOf m.items }).set "regdata_schema" (schemaValSpec (schemaIdsOf m.items)))
    m r2 h hne rfl
  exact ⟨_, d2, handleSchema_encoded d m r1 h hne hlen, rfl, h2, hsch, hget⟩

/-- a later schema replaces an earlier one: schema of `a`, data of `a`, schema of `b`, data of `b` -/
theorem later_schema_replaces (d : Dev) (a b : RegMsg) (ra1 ra2 rb1 rb2 : List Byte)
    (ha : a.wf = true) (hb : b.wf = true) (hna : a.items.isEmpty = false) (hnb : b.items.isEmpty = false)
    (hla : (schemaIdsOf a.items).length < 65536) (hlb : (schemaIdsOf b.items).length < 65536) :
    ∃ d1 d2 d3 d4,
      handleSchema d (encodeSchema (schemaIdsOf a.items) ++ ra1) = some d1 ∧
      handleRegdata d1 (encodeRegdata a ++ ra2) = some d2 ∧
      assocGet d2.data "regdata" = some (Val.intDict (assocOf (valsOf a.items))) ∧
      handleSchema d2 (encodeSchema (schemaIdsOf b.items) ++ rb1) = some d3 ∧
      handleRegdata d3 (encodeRegdata b ++ rb2) = some d4 ∧
      assocGet d4.data "regdata" = some (Val.intDict (assocOf (valsOf b.items))) := by
  obtain ⟨d1, d2, h1, _, h2, _, g2⟩ := schema_then_data d a ra1 ra2 ha hna hla
  obtain ⟨d3, d4, h3, _, h4, _, g4⟩ := schema_then_data d2 b rb1 rb2 hb hnb hlb
  exact ⟨d1, d2, d3, d4, h1, h2, g2, h3, h4, g4⟩

/-! ### the frame-version table: one layout, two carriers, the dict C15 consumes -/

def wireVersions (vs : List (Byte × Nat)) : List (Nat × Nat) := vs.map fun tv => (tv.1.toNat, tv.2)

/-- sensor data: the announced versions are `dict(wire pairs)` -/
theorem sensor_frame_versions (m : SensorMsg) (rest : List Byte) (h : m.wf = true) :
    sensorVersions (encodeSensorData m ++ rest) = some (C15.dictOf (wireVersions m.versions)) := by
  unfold sensorVersions
  rw [rt_sensorData m rest h, valOfSensorData_eq]
  have hg : assocGet (sensorFields m) "frame_versions" = some (versionsVal (wireVersions m.versions)) := by
    rw [sensorFields_get m _ (by decide)]
    simp [sections, valVersions, assocGet, wireVersions]
  simp only [hg, Option.bind_some, versionsOfVal_versionsVal]

/-- regulator data (any schema state): the announced versions are `dict(wire pairs)` -/
theorem regdata_frame_versions (m : RegMsg) (rest : List Byte) (h : m.wf = true) :
    regdataVersions (encodeRegdata m ++ rest) = some (C15.dictOf (wireVersions m.versions)) := by
  unfold regdataVersions
  rw [rt_regdata_noDevice m rest h]
  simp only [valOfRegdataNoSchema, valVersions, assocGet, beq_self_eq_true, if_true]
  exact versionsOfVal_versionsVal _

/-- **frame_versions_same_layout**: the same version table, carried by a sensor-data message or by
a regulator-data message, decodes to the same dict -/
theorem frame_versions_same_layout (m : SensorMsg) (rm : RegMsg) (r1 r2 : List Byte)
    (h : m.wf = true) (hr : rm.wf = true) (heq : m.versions = rm.versions) :
    sensorVersions (encodeSensorData m ++ r1) = regdataVersions (encodeRegdata rm ++ r2) := by
  rw [sensor_frame_versions m r1 h, regdata_frame_versions rm r2 hr, heq]

theorem lookup_dictSet (d : List (Nat × Nat)) (k v k' : Nat) :
    (C15.dictSet d k v).lookup k' = if k' = k then some v else d.lookup k' := by
  induction d with
  | nil =>
    by_cases h : k' = k <;> simp [C15.dictSet, List.lookup, h]
  | cons e r ih =>
    obtain ⟨a, b⟩ := e
    by_cases ha : a = k
    · subst ha
      by_cases h : k' = a
      · simp [C15.dictSet, h]
      · have h2 : (k' == a) = false := by simpa using h
        simp [C15.dictSet, List.lookup, h, h2]
    · have h1 : (a == k) = false := by simpa using ha
      by_cases h : k' = a
      · subst h
        simp [C15.dictSet, List.lookup, h1, ha]
      · have h2 : (k' == a) = false := by simpa using h
        simp [C15.dictSet, List.lookup, h1, h2, ih]

/-- **last duplicate wins, every code is kept** (known or not): a code's decoded version is the one
of its LAST occurrence on the wire -/
theorem frame_versions_last_wins (ps : List (Nat × Nat)) (k : Nat) :
    (C15.dictOf ps).lookup k = ps.reverse.lookup k := by
  have h : ∀ acc : List (Nat × Nat), (ps.foldl C15.dictInsert acc).lookup k =
      match ps.reverse.lookup k with
      | some v => some v
      | none => acc.lookup k := by
    induction ps with
    | nil => intro acc; rfl
    | cons e r ih =>
      intro acc
      simp only [List.foldl_cons, ih, C15.dictInsert, lookup_dictSet, List.reverse_cons, List.lookup_append]
      cases r.reverse.lookup k with
      | some v => rfl
      | none =>
        by_cases hk : k = e.1
        · simp [List.lookup, hk]
        · have hb : (k == e.1) = false := by simpa using hk
          simp [List.lookup, hk, hb]
  have := h []
  simp only [C15.dictOf, this]
  cases ps.reverse.lookup k <;> rfl

example : C15.dictOf [(49, 1), (200, 7), (49, 2)] = [(49, 2), (200, 7)] := by decide

end PlumVerif.C05

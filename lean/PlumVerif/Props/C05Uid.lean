import PlumVerif.Proofs.DecodeUid
/-
C05 — the UID text of the product-info response (`helpers/uid.py`): CRC-16, base-32 digits, and
exactly what the text determines.  Property theorems only; helpers in Proofs/DecodeUid.lean.
-/
namespace PlumVerif.C05
open PlumVerif PlumVerif.P2

/-! ### CRC-16 -/

/-- `_crc16_byte` of helpers/uid.py in Python's own operators and literals:
`crc ^= byte; 8 × (crc = (crc >> 1) ^ 0xA001 if crc & 1 else crc >> 1)` -/
def crcStepBitwise (c : Nat) : Nat := if c &&& 1 = 1 then (c >>> 1) ^^^ 0xA001 else c >>> 1

def crcByteBitwise (crc byte : Nat) : Nat :=
  crcStepBitwise (crcStepBitwise (crcStepBitwise (crcStepBitwise (crcStepBitwise (crcStepBitwise
    (crcStepBitwise (crcStepBitwise (crc ^^^ byte))))))))

/-- `reduce(_crc16_byte, buffer, 0xA3A3)` -/
def crcBitwise (bs : List Byte) : Nat := bs.foldl (fun c b => crcByteBitwise c b.toNat) 0xA3A3

/-- one shift step, in Python's operators -/
theorem crc16_shift_spec (c : Nat) : crcShift c = crcStepBitwise c := by
  unfold crcShift crcStepBitwise
  rw [Nat.and_one_is_mod, uidPolynomial_eq, Nat.shiftRight_eq_div_pow]

/-- the model's per-byte step is the bitwise definition of the reflected CRC-16 with polynomial
0xA001 (the translated POLYNOMIAL constant), for every register value and every byte -/
theorem crc16_step_spec (crc : Nat) (b : Byte) : crc16Byte crc b = crcByteBitwise crc b.toNat := by
  simp only [crc16Byte, crcShift8, crcByteBitwise, crc16_shift_spec]

/-- … and the whole checksum starts from 0xA3A3 (the translated CRC constant) -/
theorem crc16_spec (bs : List Byte) : crc16 bs = crcBitwise bs := by
  unfold crc16 crcBitwise
  rw [uidCrc_eq]
  have : crc16Byte = fun c b => crcByteBitwise c b.toNat := by
    funext c b; exact crc16_step_spec c b
  rw [this]

/-- byte-wise (table) form of the same step: the high byte moves down, the low byte XOR the data
byte selects the table entry `crc16Byte 0 ·` — the step is GF(2)-linear -/
theorem crc16_step_table (crc : Nat) (b : Byte) :
    crc16Byte crc b = crc / 256 ^^^ crc16Byte 0 ((crc ^^^ b.toNat) % 256).toUInt8 := by
  have hx : crc ^^^ b.toNat = (crc ^^^ b.toNat) / 256 * 2 ^ 8 + (crc ^^^ b.toNat) % 256 := by
    have : (2 : Nat) ^ 8 = 256 := by decide
    rw [this]; omega
  have hlo : (crc ^^^ b.toNat) % 256 < 2 ^ 8 := by
    have : (2 : Nat) ^ 8 = 256 := by decide
    rw [this]; omega
  have hhi : (crc ^^^ b.toNat) / 256 = crc / 256 := by
    have h1 := @Nat.shiftRight_xor_distrib 8 crc b.toNat
    rw [Nat.shiftRight_eq_div_pow, Nat.shiftRight_eq_div_pow, Nat.shiftRight_eq_div_pow] at h1
    have hb : b.toNat / 2 ^ 8 = 0 := by
      have := b.toNat_lt
      exact Nat.div_eq_of_lt (by have : (2 : Nat) ^ 8 = 256 := by decide
                                 omega)
    rw [hb, Nat.xor_zero] at h1
    exact h1
  have h0 : crc16Byte 0 ((crc ^^^ b.toNat) % 256).toUInt8 = crcShift8 ((crc ^^^ b.toNat) % 256) := by
    unfold crc16Byte
    rw [toUInt8_toNat' _ (by omega), Nat.zero_xor]
  rw [h0, ← hhi]
  show crcShift8 (crc ^^^ b.toNat) = _
  rw [crcShift8_eq, crcShift8_eq]
  conv => lhs; rw [hx]
  exact crcShiftN_split 8 _ _ hlo

/-- the checksum always fits the two bytes `to_bytes(length=2)` writes (no OverflowError) -/
theorem crc16_fits (bs : List Byte) : crc16 bs < 65536 := crc16_lt bs

/-- the classical residue property: feeding the low checksum byte back leaves the high byte -/
theorem crc16_residue (u : List Byte) :
    crc16 (u ++ [(crc16 u % 256).toUInt8]) = crc16 u / 256 := by
  have hstep : crc16 (u ++ [(crc16 u % 256).toUInt8]) = crc16Byte (crc16 u) (crc16 u % 256).toUInt8 := by
    simp [crc16, List.foldl_append]
  rw [hstep, crc16_step_table, toUInt8_toNat' _ (by omega)]
  have h256 : (256 : Nat) = 2 ^ 8 := by decide
  have : (crc16 u ^^^ crc16 u % 256) % 256 = 0 := by
    rw [h256, Nat.xor_mod_two_pow, Nat.mod_mod, Nat.xor_self]
  rw [this]
  have : crc16Byte 0 (0 : Nat).toUInt8 = 0 := by decide
  rw [this, Nat.xor_zero]

example : crc16 [0x00, 0x16, 0x00, 0x11, 0x0D, 0x38, 0x33, 0x38, 0x36, 0x55, 0x39] < 65536 := crc16_fits _

/-! ### base-32 text -/

/-- the UID text is the base-32 expansion, most significant digit first and without leading
zeros, of the little-endian number `uid ++ crc16(uid)` (two bytes, little endian), written in the
alphabet BASE5_KEY (translated constant; `base5Key_eq` pins today's value, `keyChar_inj` its 32
distinct characters) -/
theorem base5_digits (uid : List Byte) :
    ∃ ds : List Nat, (∀ d ∈ ds, d < 32) ∧ ds.head? ≠ some 0 ∧
      ds.foldl (fun a d => a * 32 + d) 0 = decodeLE (uid ++ encodeLE (crc16 uid) 2) ∧
      (uidString uid).toList = ds.map (fun d => Gen.base5Key.toList.getD d '?') := by
  obtain ⟨ds, ⟨hlt, hval, hhead⟩, _, heq⟩ := base5_spec (uidFuel uid) (uidNumber uid) [] (uidNumber_lt uid)
  refine ⟨ds, hlt, hhead, hval, ?_⟩
  simp only [uidString, String.toList_ofList, uidChars, heq, List.append_nil]
  rfl

theorem base5_alphabet : Gen.base5Key = "0123456789ABCDEFGHIJKLMNZPQRSTUV" := base5Key_eq

/-- the text determines, and is determined by, the number -/
theorem uidString_eq_iff (u v : List Byte) : uidString u = uidString v ↔ uidNumber u = uidNumber v := by
  unfold uidString
  rw [String.ofList_inj]
  constructor
  · intro h
    obtain ⟨ds1, ⟨h1, v1, _⟩, _, e1⟩ := base5_spec (uidFuel u) (uidNumber u) [] (uidNumber_lt u)
    obtain ⟨ds2, ⟨h2, v2, _⟩, _, e2⟩ := base5_spec (uidFuel v) (uidNumber v) [] (uidNumber_lt v)
    unfold uidChars at h
    rw [e1, e2, List.append_nil, List.append_nil] at h
    rw [← v1, ← v2, map_keyChar_inj ds1 ds2 h1 h2 h]
  · intro h
    unfold uidChars
    rw [h]
    exact base5_fuel_indep _ _ _ _ (h ▸ uidNumber_lt u) (uidNumber_lt v)

/-- what the `while number:` loop loses, exactly: two UIDs have the same text iff their byte
strings `uid ++ crc` differ only by 0x00 bytes at the most significant end (the end where the
checksum sits) -/
theorem uidString_eq_iff_padded (u v : List Byte) (h : u.length ≤ v.length) :
    uidString u = uidString v ↔
      v ++ encodeLE (crc16 v) 2 = (u ++ encodeLE (crc16 u) 2) ++ List.replicate (v.length - u.length) 0 := by
  rw [uidString_eq_iff]
  unfold uidNumber
  have := decodeLE_eq_iff (u ++ encodeLE (crc16 u) 2) (v ++ encodeLE (crc16 v) 2)
    (by rw [length_uid_bytes, length_uid_bytes]; omega)
  rw [length_uid_bytes, length_uid_bytes] at this
  rw [this]
  have e : v.length + 2 - (u.length + 2) = v.length - u.length := by omega
  rw [e]

/-- UIDs of equal length with the same text are the same bytes -/
theorem uidString_injective_fixed_len (u v : List Byte) (hl : u.length = v.length)
    (h : uidString u = uidString v) : u = v := by
  have := (uidString_eq_iff_padded u v (by omega)).mp h
  rw [hl, Nat.sub_self] at this
  simp only [List.replicate_zero, List.append_nil] at this
  have h2 := congrArg (List.take v.length) this
  rw [take_left _ _ _ rfl, take_left _ _ _ hl] at h2
  exact h2.symm

/-- the length IS lost: every UID has the same text as the UID extended by the low byte of its own
checksum (the extended string's checksum has a zero high byte, which the loop drops) -/
theorem uid_collision (u : List Byte) : uidString (u ++ [(crc16 u % 256).toUInt8]) = uidString u := by
  symm
  rw [uidString_eq_iff_padded u _ (by simp)]
  have hc := crc16_lt u
  rw [crc16_residue]
  have e1 : (u ++ [(crc16 u % 256).toUInt8]).length - u.length = 1 := by simp
  rw [e1]
  have hhi : crc16 u / 256 / 256 % 256 = 0 := by omega
  have hhi2 : crc16 u / 256 % 256 = crc16 u / 256 := by omega
  simp [encodeLE, hhi, hhi2]

example : uidString [1, 2, 3] = uidString [1, 2, 3, (crc16 [1, 2, 3] % 256).toUInt8] := (uid_collision _).symm
example : (crc16 [1, 2, 3] % 256).toUInt8 = 0x98 := by decide

end PlumVerif.C05

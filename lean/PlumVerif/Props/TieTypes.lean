import PlumVerif.Generated.PyCodeTypes
import PlumVerif.Proofs.PyLemmas
import PlumVerif.Props.C19
/-
Tie: the Lean definitions translated from the SOURCE TEXT of the struct-backed integer classes of
`pyplumio/helpers/data_types.py` (`SignedChar … UInt64`: `DataType.__init__ / from_bytes / to_bytes / value`,
`BuiltInDataType.pack / unpack / size`, each as seen from the concrete class; Generated/PyCodeTypes.lean, rewritten by
tools/py2lean_types.py on every run) equal the hand-written model `Types.intCodec` / `Types.Inst.step (intInst t)`
(Model/Types.lean) for ALL values, buffers, offsets and slot states.  `IntClass.code_lawful` is C19's statement
(`C19.int_lawful`) about the translated methods; `IntClass.sim` makes every theorem about `Inst.run (intInst t)`
(`C19.pack_reflects_last_value`, `size_is_packed_length`, `value_is_last_set`, `unpack_then_pack`, `observers_inert`)
a theorem about operation sequences on the translated methods.

WHAT THE HYPOTHESES EXCLUDE (audit round 8): offsets are `Nat` (`*_from_bytes_eq (off : Nat)`: the prelude evaluates negative
offsets, no theorem covers them — "all offsets" means all NON-NEGATIVE offsets); the value / size slots hold `Option Int`
values (`SignedChar("x")` and other non-integers in a slot are outside); `IntClass.runOp` maps an error to
`(o, .raised)`: "an exception leaves the instance unchanged" is built into the observer, not proved.  Only these eight
integer classes have an operation-sequence simulation (`sim_run`).
-/
namespace PlumVerif.TieTypes
open PlumVerif PlumVerif.Py PlumVerif.Types
set_option linter.unusedSimpArgs false

def slotV : Option V → V
  | some v => v
  | none => PyT.unset

/-- the instance of a struct-backed integer class: value slot, size slot, (never assigned) `_struct` slot -/
def iobj (c : String) (v : Option Int) (s : Int) : V :=
  .obj c ["_value", "_size", "_struct"] [slotV (v.map .int), .int s, PyT.unset]

/-- constructor argument: `None` or the value -/
def argV : Option Int → V
  | some v => .int v
  | none => .none

/-- the prelude's little-endian coders are the model's (proved here again so that this module does not depend on
the tie modules of other areas) -/
theorem decodeLE_eq (bs : List UInt8) : Py.decodeLE bs = PlumVerif.decodeLE bs := by
  induction bs with
  | nil => rfl
  | cons b r ih => simp [Py.decodeLE, PlumVerif.decodeLE, ih]

theorem encodeLE_eq (n k : Nat) : Py.encodeLE n k = PlumVerif.encodeLE n k := by
  induction k generalizing n with
  | zero => rfl
  | succ k ih => simp [Py.encodeLE, PlumVerif.encodeLE, ih]

theorem struct_pack_int (t : IntTy) (fmt : String) (hf : fmt = t.format) (v : Int) :
    PyT.struct_pack fmt (.int v) = (match (intCodec t).pack v with
      | some b => .ok (.bytes b) | none => .error .StructError) := by
  subst hf
  cases t <;>
    simp [PyT.struct_pack, PyT.fmtInfo, IntTy.format, intCodec, IntTy.inRange, IntTy.signed, IntTy.modulus,
      IntTy.size, IntTy.toWire, toTwos, asInt?, encodeLE_eq]
  all_goals (split <;> rename_i h <;> simp [h])


theorem struct_unpack_int (t : IntTy) (fmt : String) (hf : fmt = t.format) (d : List UInt8) :
    PyT.struct_unpack_from fmt (.bytes d) = (match (intCodec t).unpack d with
      | some (v, _) => .ok (.tuple [.int v]) | none => .error .StructError) := by
  subst hf
  cases t <;>
    simp [PyT.struct_unpack_from, PyT.fmtInfo, IntTy.format, intCodec, IntTy.signed, IntTy.modulus,
      IntTy.size, IntTy.ofWire, ofTwos, decodeLE_eq]
  all_goals (split <;> rename_i h <;> simp [h])
  all_goals (split <;> rename_i h2 <;> simp [h2])

/-! ### slots of the canonical instances -/
@[simp] theorem isUnset_int (i : Int) : PyT.isUnset (.int i) = false := rfl
@[simp] theorem isUnset_unset : PyT.isUnset PyT.unset = true := rfl
@[simp] theorem isUnset_slotV_int (v : Option Int) : PyT.isUnset (slotV (v.map .int)) = v.isNone := by
  cases v <;> rfl

section slots3
variable (c : String) (a b d x : V)
@[simp] theorem set3_value : PyT.setattr (.obj c ["_value", "_size", "_struct"] [a, b, d]) "_value" x
    = .ok (.obj c ["_value", "_size", "_struct"] [x, b, d]) := by simp [PyT.setattr, PyT.setSlot]
@[simp] theorem set3_size : PyT.setattr (.obj c ["_value", "_size", "_struct"] [a, b, d]) "_size" x
    = .ok (.obj c ["_value", "_size", "_struct"] [a, x, d]) := by simp [PyT.setattr, PyT.setSlot]
@[simp] theorem get3_value : PyT.getattr (.obj c ["_value", "_size", "_struct"] [a, b, d]) "_value"
    = if PyT.isUnset a then .error .AttributeError else .ok a := by simp [PyT.getattr, Py.lookup]
@[simp] theorem get3_size : PyT.getattr (.obj c ["_value", "_size", "_struct"] [a, b, d]) "_size"
    = if PyT.isUnset b then .error .AttributeError else .ok b := by simp [PyT.getattr, Py.lookup]
@[simp] theorem has3_value : PyT.hasattr (.obj c ["_value", "_size", "_struct"] [a, b, d]) "_value"
    = .bool (!PyT.isUnset a) := by simp [PyT.hasattr, Py.lookup]
end slots3


/-- `d[off:]` for a natural offset -/
@[simp] theorem slice_bytes_from (d : List UInt8) (off : Nat) :
    Py.slice (.bytes d) (.int (off : Int)) .none = .ok (.bytes (d.drop off)) := by
  simp [Py.slice, Py.bound, asInt?, sliceList]

/-! ### the eight struct-backed integer classes (one macro, eight instances) -/

/-- the observable `.size` of an instance whose size slot holds `s`: the struct size once it was asked for -/
def sizeNow (t : IntTy) (s : Int) : Int := if s = 0 then t.size else s

open Lean in
macro "int_ties" c:ident t:term:max fmt:str : command => do
  let cn := c.getId.toString
  let n (s : String) := mkIdent (Name.mkSimple (cn ++ s))
  let g (s : String) := mkIdent (`PlumVerif.PyCodeTypes ++ Name.mkSimple (cn ++ s))
  let cs := Syntax.mkStrLit cn
  let c0 ← `(theorem $(n "_init_eq") (v : Option Int) (s : Int) (w : Option Int) :
        $(g "_init") (iobj $cs v s) (argV w) = .ok (.none, iobj $cs (w.or v) 0) := by
      cases w <;> simp [$(g "_init"):ident, argV, iobj, slotV, Py.isNotNone, Py.truthy])
  let c1 ← `(theorem $(n "_new_eq") (v : Option Int) : $(g "_new") (argV v) = .ok (iobj $cs v 0) := by
      cases v <;> simp [$(g "_new"):ident, $(g "_init"):ident, PyT.newobj, argV, iobj, slotV, Py.isNotNone, Py.truthy])
  let c2 ← `(theorem $(n "_unpack_eq") (v : Option Int) (s : Int) (d : List UInt8) :
        $(g "_unpack") (iobj $cs v s) (.bytes d)
          = (match (intCodec $t).unpack d with
            | some (w, _) => .ok (.none, iobj $cs (some w) s)
            | none => .error .StructError) := by
      unfold $(g "_unpack")
      rw [struct_unpack_int $t $fmt rfl d]
      cases (intCodec $t).unpack d with
      | none => rfl
      | some p => simp [iobj, slotV, Py.index, Py.normIndex, asInt?])
  let c3 ← `(theorem $(n "_value_eq") (v : Option Int) (s : Int) :
        $(g "_value") (iobj $cs v s)
          = (match v with
            | some w => .ok (.int w, iobj $cs v s)
            | none => .error .AttributeError) := by
      cases v <;> simp [$(g "_value"):ident, iobj, slotV])
  let c4 ← `(theorem $(n "_pack_eq") (v : Option Int) (s : Int) :
        $(g "_pack") (iobj $cs v s)
          = (match v with
            | none => .error .AttributeError
            | some w => match (intCodec $t).pack w with
              | some b => .ok (.bytes b, iobj $cs v s)
              | none => .error .StructError) := by
      unfold $(g "_pack")
      rw [$(n "_value_eq"):ident]
      cases v with
      | none => rfl
      | some w =>
        simp only [ok_bind]
        rw [struct_pack_int $t $fmt rfl w]
        cases (intCodec $t).pack w <;> rfl)
  let c5 ← `(theorem $(n "_to_bytes_eq") (v : Option Int) (s : Int) :
        $(g "_to_bytes") (iobj $cs v s)
          = (match v with
            | none => .error .AttributeError
            | some w => match (intCodec $t).pack w with
              | some b => .ok (.bytes b, iobj $cs v s)
              | none => .error .StructError) := by
      unfold $(g "_to_bytes")
      rw [$(n "_pack_eq"):ident]
      cases v with
      | none => rfl
      | some w => cases h : (intCodec $t).pack w <;> simp [h])
  let c6 ← `(theorem $(n "_size_eq") (v : Option Int) (s : Int) :
        $(g "_size") (iobj $cs v s) = .ok (.int (sizeNow $t s), iobj $cs v (sizeNow $t s)) := by
      by_cases h : s = 0 <;>
        simp [$(g "_size"):ident, iobj, Py.not, Py.truthy, sizeNow, IntTy.size, h])
  let c7 ← `(theorem $(n "_from_bytes_eq") (d : List UInt8) (off : Nat) :
        $(g "_from_bytes") (.bytes d) (.int off)
          = (match (intCodec $t).unpack (d.drop off) with
            | some (w, _) => .ok (iobj $cs (some w) 0)
            | none => .error .StructError) := by
      unfold $(g "_from_bytes")
      have h := $(n "_new_eq") none
      simp only [argV] at h
      rw [h]
      simp only [ok_bind, slice_bytes_from, $(n "_unpack_eq"):ident]
      cases (intCodec $t).unpack (d.drop off) with
      | none => rfl
      | some p => rfl)
  return ⟨mkNullNode #[c0, c1, c2, c3, c4, c5, c6, c7]⟩

int_ties SignedChar IntTy.i8 "<b"
int_ties UnsignedChar IntTy.u8 "<B"
int_ties Short IntTy.i16 "<h"
int_ties UnsignedShort IntTy.u16 "<H"
int_ties Int IntTy.i32 "<i"
int_ties UnsignedInt IntTy.u32 "<I"
int_ties Int64 IntTy.i64 "<q"
int_ties UInt64 IntTy.u64 "<Q"

/-- the translated methods of one struct-backed integer class together with their ties -/
structure IntClass (t : IntTy) where
  name : String
  new : V → PyM V
  init : V → V → PyM (V × V)
  unpack : V → V → PyM (V × V)
  value : V → PyM (V × V)
  to_bytes : V → PyM (V × V)
  size : V → PyM (V × V)
  from_bytes : V → V → PyM V
  new_eq : ∀ v, new (argV v) = .ok (iobj name v 0)
  init_eq : ∀ v s w, init (iobj name v s) (argV w) = .ok (.none, iobj name (w.or v) 0)
  unpack_eq : ∀ v s d, unpack (iobj name v s) (.bytes d) = (match (intCodec t).unpack d with
    | some (w, _) => .ok (.none, iobj name (some w) s) | none => .error .StructError)
  value_eq : ∀ v s, value (iobj name v s) = (match v with
    | some w => .ok (.int w, iobj name v s) | none => .error .AttributeError)
  to_bytes_eq : ∀ v s, to_bytes (iobj name v s) = (match v with
    | none => .error .AttributeError
    | some w => match (intCodec t).pack w with
      | some b => .ok (.bytes b, iobj name v s) | none => .error .StructError)
  size_eq : ∀ v s, size (iobj name v s) = .ok (.int (sizeNow t s), iobj name v (sizeNow t s))
  from_bytes_eq : ∀ d (off : Nat), from_bytes (.bytes d) (.int off) = (match (intCodec t).unpack (d.drop off) with
    | some (w, _) => .ok (iobj name (some w) 0) | none => .error .StructError)

open Lean in
macro "int_class" c:ident : term => do
  let cn := c.getId.toString
  let n (s : String) := mkIdent (Name.mkSimple (cn ++ s))
  let g (s : String) := mkIdent (`PlumVerif.PyCodeTypes ++ Name.mkSimple (cn ++ s))
  `(IntClass.mk $(Syntax.mkStrLit cn) $(g "_new") $(g "_init") $(g "_unpack") $(g "_value") $(g "_to_bytes") $(g "_size") $(g "_from_bytes")
      $(n "_new_eq") $(n "_init_eq") $(n "_unpack_eq") $(n "_value_eq") $(n "_to_bytes_eq") $(n "_size_eq") $(n "_from_bytes_eq"))

/-- the eight classes, each with the model type whose struct format the SOURCE gives it -/
def cSignedChar : IntClass .i8 := int_class SignedChar
def cUnsignedChar : IntClass .u8 := int_class UnsignedChar
def cShort : IntClass .i16 := int_class Short
def cUnsignedShort : IntClass .u16 := int_class UnsignedShort
def cInt : IntClass .i32 := int_class Int
def cUnsignedInt : IntClass .u32 := int_class UnsignedInt
def cInt64 : IntClass .i64 := int_class Int64
def cUInt64 : IntClass .u64 := int_class UInt64

/-- **C19 for the translated code**: for every representable value `v`, any bytes `pre` before and `rest` after,
`T(v).to_bytes()` succeeds with some `bs`; `o = T.from_bytes(pre + bs + rest, len(pre))` succeeds,
`o.value == v` and `o.size == len(bs)` -/
def CodeLawful {t : IntTy} (c : IntClass t) : Prop :=
  ∀ (v : Int), t.inRange v = true → ∀ (pre rest : List UInt8),
    ∃ o bs, c.new (.int v) = .ok o ∧ c.to_bytes o = .ok (.bytes bs, o) ∧
      ∃ o', c.from_bytes (.bytes (pre ++ bs ++ rest)) (.int pre.length) = .ok o' ∧
        c.value o' = .ok (.int v, o') ∧ ∃ o'', c.size o' = .ok (.int bs.length, o'') ∧ c.value o'' = .ok (.int v, o'')

theorem IntClass.code_lawful {t : IntTy} (c : IntClass t) (v : Int) (hv : t.inRange v = true) (pre rest : List UInt8) :
    ∃ o bs, c.new (.int v) = .ok o ∧ c.to_bytes o = .ok (.bytes bs, o) ∧
      ∃ o', c.from_bytes (.bytes (pre ++ bs ++ rest)) (.int pre.length) = .ok o' ∧
        c.value o' = .ok (.int v, o') ∧ ∃ o'', c.size o' = .ok (.int bs.length, o'') ∧ c.value o'' = .ok (.int v, o'') := by
  obtain ⟨bs, hp, hs, hu⟩ := C19.int_lawful t v hv
  have hsz : (intCodec t).size v = t.size := rfl
  refine ⟨iobj c.name (some v) 0, bs, c.new_eq (some v), ?_, iobj c.name (some v) 0, ?_, ?_, iobj c.name (some v) t.size, ?_, ?_⟩
  · rw [c.to_bytes_eq]; simp [hp]
  · rw [c.from_bytes_eq, List.append_assoc, drop_append_length, hu rest]
  · rw [c.value_eq]
  · rw [c.size_eq]; simp [sizeNow, ← hs, hsz]
  · rw [c.value_eq]

/-- C19 for the translated methods of each of the eight classes -/
theorem SignedChar_code_lawful : CodeLawful cSignedChar := cSignedChar.code_lawful
theorem UnsignedChar_code_lawful : CodeLawful cUnsignedChar := cUnsignedChar.code_lawful
theorem Short_code_lawful : CodeLawful cShort := cShort.code_lawful
theorem UnsignedShort_code_lawful : CodeLawful cUnsignedShort := cUnsignedShort.code_lawful
theorem Int_code_lawful : CodeLawful cInt := cInt.code_lawful
theorem UnsignedInt_code_lawful : CodeLawful cUnsignedInt := cUnsignedInt.code_lawful
theorem Int64_code_lawful : CodeLawful cInt64 := cInt64.code_lawful
theorem UInt64_code_lawful : CodeLawful cUInt64 := cUInt64.code_lawful

/-! ### the re-used instance: every operation of `Types.Op` on the translated methods is `Inst.step (intInst t)` -/

/-- what the harness / a client observes of one operation on the translated methods -/
def IntClass.runOp {t : IntTy} (c : IntClass t) (o : V) : Op Int → PyM (V × Obs Int)
  | .construct v => do let o' ← c.new (argV v); pure (o', .done)
  | .toBytes => match c.to_bytes o with
    | .ok (.bytes b, o') => pure (o', .bytes b)
    | .ok _ => throw .unsupported
    | .error _ => pure (o, .raised)
  | .unpack d => match c.unpack o (.bytes d) with
    | .ok (_, o') => pure (o', .done)
    | .error _ => pure (o, .raised)
  | .size => match c.size o with
    | .ok (.int n, o') => pure (o', .size n.toNat)
    | _ => throw .unsupported
  | .value => match c.value o with
    | .ok (.int v, o') => pure (o', .value v)
    | .ok _ => throw .unsupported
    | .error _ => pure (o, .raised)

/-- the size slot holds 0 (never asked) or the struct size -/
def SlotOk (t : IntTy) (raw : Int) : Prop := raw = 0 ∨ raw = t.size

theorem IntClass.sim {t : IntTy} (c : IntClass t) (st : Inst Int) (hst : st.size = t.size) (raw : Int) (hraw : SlotOk t raw)
    (op : Op Int) :
    ∃ raw', SlotOk t raw' ∧ ((st.step (intInst t) op).1.size = t.size) ∧
      c.runOp (iobj c.name st.value raw) op
        = .ok (iobj c.name (st.step (intInst t) op).1.value raw', (st.step (intInst t) op).2) := by
  have hsn : sizeNow t raw = t.size := by
    rcases hraw with h | h <;> simp [sizeNow, h]
  obtain ⟨sv, ss⟩ := st
  simp only at hst
  subst hst
  cases op with
  | construct v =>
    refine ⟨0, Or.inl rfl, ?_, ?_⟩
    · cases v <;> simp [Inst.step, Inst.new, intInst, intCodec]
    · cases v <;> simp [IntClass.runOp, c.new_eq, Inst.step, Inst.new, intInst]
  | toBytes =>
    cases sv with
    | none => exact ⟨raw, hraw, rfl, by simp [IntClass.runOp, c.to_bytes_eq, Inst.step]⟩
    | some w =>
      refine ⟨raw, hraw, ?_, ?_⟩ <;>
      cases hp : (intCodec t).pack w <;> simp [IntClass.runOp, c.to_bytes_eq, Inst.step, intInst, hp]
  | unpack d =>
    simp only [IntClass.runOp, c.unpack_eq, Inst.step, intInst]
    cases hu : (intCodec t).unpack d with
    | none => exact ⟨raw, hraw, rfl, rfl⟩
    | some p =>
      refine ⟨raw, hraw, ?_, rfl⟩
      simp only [intCodec] at hu
      split at hu
      · simp at hu
      · simp only [Option.some.injEq] at hu; rw [← hu]
  | size =>
    refine ⟨t.size, Or.inr rfl, rfl, ?_⟩
    simp [IntClass.runOp, c.size_eq, Inst.step, hsn]
  | value =>
    cases sv <;> exact ⟨raw, hraw, rfl, by simp [IntClass.runOp, c.value_eq, Inst.step]⟩

/-- the same for every operation sequence on one re-used instance -/
def IntClass.runOps {t : IntTy} (c : IntClass t) : V → List (Op Int) → PyM (V × List (Obs Int))
  | o, [] => pure (o, [])
  | o, op :: ops => do
    let (o', r) ← c.runOp o op
    let (o'', rs) ← c.runOps o' ops
    pure (o'', r :: rs)

theorem IntClass.sim_run {t : IntTy} (c : IntClass t) (ops : List (Op Int)) :
    ∀ (st : Inst Int) (_ : st.size = t.size) (raw : Int) (_ : SlotOk t raw),
      ∃ raw', c.runOps (iobj c.name st.value raw) ops
        = .ok (iobj c.name (Inst.run (intInst t) st ops).1.value raw', (Inst.run (intInst t) st ops).2) := by
  induction ops with
  | nil => intro st _ raw _; exact ⟨raw, rfl⟩
  | cons op ops ih =>
    intro st hst raw hraw
    obtain ⟨raw1, h1, hs1, e1⟩ := c.sim st hst raw hraw op
    obtain ⟨raw2, e2⟩ := ih (st.step (intInst t) op).1 hs1 raw1 h1
    exact ⟨raw2, by simp only [IntClass.runOps, e1, ok_bind, e2, Inst.run]; rfl⟩

/-- the translated table `DATA_TYPES` is the one the regulator-data model uses -/
theorem data_types_tbl : PyCodeTypes.t_DATA_TYPES = Gen.dataTypes := by decide

/-! ### non-vacuity -/
example : PyCodeTypes.Short_from_bytes (.bytes [9, 0xfe, 0xff, 7]) (.int 1) = .ok (iobj "Short" (some (-2)) 0) := by
  have h := Short_from_bytes_eq [9, 0xfe, 0xff, 7] 1
  exact h.trans rfl
example : PyCodeTypes.UnsignedShort_to_bytes (iobj "UnsignedShort" (some 513) 0)
    = .ok (.bytes [1, 2], iobj "UnsignedShort" (some 513) 0) := by rw [UnsignedShort_to_bytes_eq]; rfl
example : PyCodeTypes.UnsignedChar_to_bytes (iobj "UnsignedChar" (some 256) 0) = .error .StructError := by
  rw [UnsignedChar_to_bytes_eq]; rfl
example : ∃ o bs, PyCodeTypes.Int64_new (.int (-5)) = .ok o ∧ PyCodeTypes.Int64_to_bytes o = .ok (.bytes bs, o) := by
  obtain ⟨o, bs, h1, h2, _⟩ := cInt64.code_lawful (-5) (by decide) [1] [2]
  exact ⟨o, bs, h1, h2⟩

end PlumVerif.TieTypes

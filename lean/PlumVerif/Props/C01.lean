import PlumVerif.Spec.C01
import PlumVerif.Proofs.Frame
/-
C01 — only intact, correctly addressed frames are delivered to the application.
Property theorems only; helper lemmas live in Proofs/Frame.lean.
-/
namespace PlumVerif.C01
open PlumVerif

/-- the generated device table is the statement's list of known senders -/
theorem knownDevice_iff (b : Byte) : knownDevice b = knownSenders.contains b := by
  have h : ∀ n, n < 256 → knownDevice n.toUInt8 = knownSenders.contains n.toUInt8 := by decide +kernel
  have := h b.toNat b.toNat_lt
  simpa using this

/-- an encoded frame satisfies the statement's well-formedness, whatever its last byte -/
theorem wf_encodeWith (f : Fields) (e : Byte) (hlen : f.payload.length + 10 ≤ 1000)
    (hr : isForUs f.rcpt = true) (hs : knownDevice f.sender = true) :
    wf (encodeWith f e) f = true := by
  have hL := le16_roundtrip (f.payload.length + 10) (by omega)
  have hk : knownSenders.contains f.sender = true := by rw [← knownDevice_iff]; exact hs
  have hr' : (f.rcpt == 86 || f.rcpt == 0) = true := hr
  unfold wf
  simp only [encodeWith_length]
  simp only [encodeWith, startByte_eq, List.cons_append, List.head?_cons, List.getD_cons_succ,
    List.getD_cons_zero, List.nil_append, hL, beq_self_eq_true, Bool.true_and, hk, hr',
    List.drop_succ_cons, List.drop_zero]
  have e2 : f.payload.length + 10 - 2 = f.payload.length + 8 := by omega
  have e10 : f.payload.length + 10 - 10 = f.payload.length := by omega
  simp only [e2, e10]
  have htake : List.take f.payload.length (f.payload ++ [bcc (104 :: ((f.payload.length + 10) % 256).toUInt8 ::
      ((f.payload.length + 10) / 256).toUInt8 :: f.rcpt :: f.sender :: f.etype :: f.ever :: f.kind :: f.payload), e])
      = f.payload := by simp
  simp [htake, List.getD, List.take_append_of_le_length]
  omega

/-- **C01 (only-if)**: whenever `read()` hands out a frame, the bytes it consumed are some
delimiter-free noise followed by bytes `fr` that satisfy the statement for exactly the
delivered fields.  For ALL byte streams `s`. -/
theorem delivered_only_if_well_formed {s rest : List Byte} {f : Fields}
    (h : readFrame s = (.delivered f, rest)) :
    ∃ noise fr, s = noise ++ fr ++ rest ∧ (0x68 : Byte) ∉ noise ∧ wf fr f = true := by
  obtain ⟨pre, e, hs, hpre, hlen, hr, hsd, _⟩ := delivered_sound h
  exact ⟨pre, encodeWith f e, hs, by rw [← startByte_eq]; exact hpre, wf_encodeWith f e hlen hr hsd⟩

/-- the same, phrased with the judge used on implementation observations: the model's own
behaviour passes `spec` on every stream and every call. -/
theorem holds (s : List Byte) :
    spec (s.take (s.length - (readFrame s).2.length))
      (match (readFrame s).1 with | .delivered f => some f | _ => none) = true := by
  cases hrf : readFrame s with
  | mk o rest =>
    cases o with
    | delivered f =>
      obtain ⟨noise, fr, hs, hn, hwf⟩ := delivered_only_if_well_formed hrf
      simp only [spec]
      have htake : s.take (s.length - rest.length) = noise ++ fr := by
        rw [hs]
        exact List.take_left' (by simp; omega)
      rw [htake]
      have hhead : fr.head? = some 0x68 := by
        unfold wf at hwf; simp only [Bool.and_eq_true, beq_iff_eq] at hwf; exact hwf.1.1.1.1.1.1.1.1.1.1.1.1
      have : (noise ++ fr).dropWhile (· != 0x68) = fr := by
        rw [List.dropWhile_append_of_pos (by intro b hb; simp; intro hb'; exact hn (hb' ▸ hb))]
        cases fr with
        | nil => simp at hhead
        | cons a t => simp at hhead; simp [List.dropWhile, hhead]
      rw [this]; exact hwf
    | ignored => simp [spec]
    | protoErr e => simp [spec]
    | connLost => simp [spec]

/-- the only other things a call can do: ignore, raise a protocol error, report the
connection lost — it never hands out anything else (by construction of `Outcome`, stated
for the record; that the implementation has no further behaviours is the correspondence) -/
theorem outcome_classes (s : List Byte) :
    (∃ f, (readFrame s).1 = .delivered f) ∨ (readFrame s).1 = .ignored ∨
      (∃ e, (readFrame s).1 = .protoErr e) ∨ (readFrame s).1 = .connLost := by
  cases (readFrame s).1 <;> simp

/-- corruptions named in the statement: a frame whose remaining bytes XOR to zero but whose
stored checksum is not zero is rejected, not delivered (this is what D1 broke). -/
example : (readFrame [0x68, 0x0a, 0x00, 0x56, 0x45, 0x30, 0x05, 0x44, 0x55, 0x16]).1
    = .protoErr .checksum := by decide
/-- non-vacuity: a concrete stream with leading noise on which a frame IS delivered -/
example : (readFrame [0x00, 0x16, 0x68, 0x0a, 0x00, 0x56, 0x45, 0x30, 0x05, 0x40, 0x04, 0x16, 0x99]) =
    (.delivered ⟨0x40, 0x56, 0x45, 0x30, 0x05, []⟩, [0x99]) := by decide

end PlumVerif.C01

import PlumVerif.Model.Pipe
import PlumVerif.Proofs.Fanout
import PlumVerif.Props.C09
/-
C09 (composition) — producer → read queue → consumers → device entry → device, replies → write
queue → producer → transport, as ONE machine (Model/Pipe.lean): property theorems.

Quantifiers: every number `n` of consumers, every configuration, every set `cr` of addresses with a
device class, EVERY schedule `ms : List Pipe.Mv` (arrivals, takes, finishes and producer write
cycles in any interleaving) whose received frames are `Good` (a frame from an address without a
device class cannot be handled).
-/
namespace PlumVerif.C09Pipe
open PlumVerif PlumVerif.Pool PlumVerif.Pipe

/-- the arriving frames of a schedule are consistent with the device classes -/
def GoodMoves (cfg : Cfg) (cr : Nat → Bool) (ms : List Pipe.Mv) : Prop :=
  ∀ f, Pipe.Mv.pool (.arrive f) ∈ ms → Good cfg cr f

structure PInv (cfg : Cfg) (cr : Nat → Bool) (s : Pipe.St) : Prop where
  wf : Fanout.WF s.devOf
  dl : s.deliveredTo.map (·.1) = s.pool.delivered
  dv : ∀ p ∈ s.deliveredTo, ∃ f ∈ s.pool.finished, f.id = p.1 ∧ ok cfg f = true ∧ s.devOf.lookup f.sender.toNat = some p.2
  wq : s.written.reverse ++ s.wqueue = s.pool.responses.reverse
  good : ∀ f, f ∈ s.pool.inHand ∨ f ∈ s.pool.queue → Good cfg cr f

theorem pinv_init (cfg : Cfg) (cr : Nat → Bool) (n : Nat) : PInv cfg cr (Pipe.init n) :=
  ⟨Fanout.WF_nil, rfl, by simp [Pipe.init], rfl, by simp [Pipe.init, Pool.init]⟩

theorem entry_wf {cr : Nat → Bool} {devs : Fanout.Reg} (h : Fanout.WF devs) (a : Nat) : Fanout.WF (entry cr devs a).1 := by
  unfold entry; split
  · exact Fanout.WF_bindOne h a
  · exact h

theorem entry_mono {cr : Nat → Bool} {devs : Fanout.Reg} {j o : Nat} (a : Nat) (h : devs.lookup j = some o) :
    (entry cr devs a).1.lookup j = some o := by
  unfold entry; split
  · exact Fanout.bindOne_mono a h
  · exact h

theorem entry_self {cr : Nat → Bool} {devs : Fanout.Reg} {a d : Nat} (h : (entry cr devs a).2 = some d) :
    (entry cr devs a).1.lookup a = some d := by
  unfold entry at h ⊢
  split at h
  · next hc => simp only [hc, ↓reduceIte]; simp only [Option.some.injEq] at h; rw [← h]; exact Fanout.bindOne_self devs a
  · cases h

theorem entry_none {cr : Nat → Bool} {devs : Fanout.Reg} {a : Nat} (h : (entry cr devs a).2 = none) : cr a = false := by
  unfold entry at h; split at h
  · cases h
  · next hc => simpa using hc

theorem ok_of_done {cfg : Cfg} {f : Frame} {rs : List Fields} (h : handle cfg f = .done rs) : ok cfg f = true := by
  simp [ok, h]

theorem pinv_step (cfg : Cfg) (cr : Nat → Bool) (s : Pipe.St) (m : Pipe.Mv) (h : PInv cfg cr s)
    (hg : ∀ f, m = .pool (.arrive f) → Good cfg cr f) : PInv cfg cr (Pipe.step cfg cr s m) := by
  cases m with
  | write =>
    simp only [Pipe.step]
    cases hw : s.wqueue with
    | nil => exact h
    | cons r q =>
      refine ⟨h.wf, h.dl, h.dv, ?_, h.good⟩
      have := h.wq; rw [hw] at this
      simpa using this
  | pool pm =>
    cases pm with
    | arrive f =>
      refine ⟨h.wf, h.dl, h.dv, h.wq, ?_⟩
      intro g hgm
      simp only [Pipe.step, Pool.step, List.mem_append, List.mem_singleton] at hgm
      rcases hgm with hgm | hgm | hgm
      · exact h.good g (.inl hgm)
      · exact h.good g (.inr hgm)
      · subst hgm; exact hg g rfl
    | take =>
      simp only [Pipe.step, Pool.step]
      cases hq : s.pool.queue with
      | nil => exact ⟨h.wf, h.dl, h.dv, h.wq, by simpa [hq] using h.good⟩
      | cons f q =>
        by_cases hlt : s.pool.inHand.length < s.pool.alive
        · simp only [hlt, ↓reduceIte]
          refine ⟨h.wf, h.dl, h.dv, h.wq, ?_⟩
          intro g hgm
          simp only [List.mem_cons] at hgm
          rcases hgm with (hgm | hgm) | hgm
          · subst hgm; exact h.good g (.inr (by simp [hq]))
          · exact h.good g (.inl hgm)
          · exact h.good g (.inr (by simp [hq, hgm]))
        · simp only [hlt, ↓reduceIte]
          exact ⟨h.wf, h.dl, h.dv, h.wq, by simpa [hq] using h.good⟩
    | finish f =>
      simp only [Pipe.step]
      by_cases hm : f ∈ s.pool.inHand
      · simp only [hm, ↓reduceIte]
        have hgood := h.good f (.inl hm)
        -- the pool component after the step, by the outcome of the handling
        have hpool : ∀ g, (g ∈ (Pool.step true cfg s.pool (.finish f)).inHand ∨ g ∈ (Pool.step true cfg s.pool (.finish f)).queue) →
            g ∈ s.pool.inHand ∨ g ∈ s.pool.queue := by
          intro g hgm
          simp only [Pool.step, hm, ↓reduceIte] at hgm
          cases hh : handle cfg f <;> simp only [hh] at hgm <;>
            exact hgm.imp (fun x => List.mem_of_mem_erase x) id
        have hfin : (Pool.step true cfg s.pool (.finish f)).finished = f :: s.pool.finished := by
          simp only [Pool.step, hm, ↓reduceIte]; cases handle cfg f <;> rfl
        have hgood' : ∀ g, (g ∈ (Pool.step true cfg s.pool (.finish f)).inHand ∨ g ∈ (Pool.step true cfg s.pool (.finish f)).queue) → Good cfg cr g :=
          fun g hgm => h.good g (hpool g hgm)
        have hdv_mono : ∀ p ∈ s.deliveredTo, ∃ g ∈ (Pool.step true cfg s.pool (.finish f)).finished, g.id = p.1 ∧ ok cfg g = true ∧
            (entry cr s.devOf f.sender.toNat).1.lookup g.sender.toNat = some p.2 := by
          intro p hp
          obtain ⟨g, hgf, h1, h2, h3⟩ := h.dv p hp
          exact ⟨g, by rw [hfin]; exact List.mem_cons_of_mem _ hgf, h1, h2, entry_mono _ h3⟩
        cases hh : handle cfg f with
        | raised =>
          have hdel : (Pool.step true cfg s.pool (.finish f)).delivered = s.pool.delivered := by
            simp only [Pool.step, hm, ↓reduceIte, hh]
          have hresp : (Pool.step true cfg s.pool (.finish f)).responses = s.pool.responses := by
            simp only [Pool.step, hm, ↓reduceIte, hh]
          cases he : (entry cr s.devOf f.sender.toNat).2 with
          | some d =>
            exact ⟨entry_wf h.wf _, by rw [hdel]; exact h.dl, hdv_mono, by rw [hresp]; exact h.wq, hgood'⟩
          | none =>
            refine ⟨h.wf, by rw [hdel]; exact h.dl, ?_, by rw [hresp]; exact h.wq, hgood'⟩
            intro p hp
            obtain ⟨g, hgf, h1, h2, h3⟩ := h.dv p hp
            exact ⟨g, by rw [hfin]; exact List.mem_cons_of_mem _ hgf, h1, h2, h3⟩
        | done rs =>
          have hdel : (Pool.step true cfg s.pool (.finish f)).delivered = f.id :: s.pool.delivered := by
            simp only [Pool.step, hm, ↓reduceIte, hh]
          have hresp : (Pool.step true cfg s.pool (.finish f)).responses = rs ++ s.pool.responses := by
            simp only [Pool.step, hm, ↓reduceIte, hh]
          cases he : (entry cr s.devOf f.sender.toNat).2 with
          | none =>
            have := hgood (entry_none he); rw [hh] at this; cases this
          | some d =>
            refine ⟨entry_wf h.wf _, by simp [hdel, h.dl], ?_, ?_, hgood'⟩
            · intro p hp
              simp only [List.mem_cons] at hp
              rcases hp with rfl | hp
              · exact ⟨f, by rw [hfin]; simp, rfl, ok_of_done hh, entry_self he⟩
              · exact hdv_mono p hp
            · rw [hresp, List.reverse_append, ← h.wq]; simp
      · simp only [hm, ↓reduceIte]; exact h

theorem pinv_run (cfg : Cfg) (cr : Nat → Bool) (s : Pipe.St) (ms : List Pipe.Mv) (h : PInv cfg cr s)
    (hg : GoodMoves cfg cr ms) : PInv cfg cr (Pipe.run cfg cr s ms) := by
  induction ms generalizing s with
  | nil => exact h
  | cons m ms ih =>
    simp only [Pipe.run]
    apply ih _ (pinv_step cfg cr s m h (fun f hf => hg f (by simp [hf])))
    intro f hf; exact hg f (by simp [hf])

/-- the pool component of a step is the pool machine's step (write cycles do not touch it) -/
theorem step_pool (cfg : Cfg) (cr : Nat → Bool) (s : Pipe.St) (m : Pipe.Mv) :
    (Pipe.step cfg cr s m).pool = match m with
      | .pool pm => Pool.step true cfg s.pool pm
      | .write => s.pool := by
  cases m with
  | write => simp only [Pipe.step]; cases s.wqueue <;> rfl
  | pool pm =>
    cases pm with
    | arrive f => rfl
    | take => rfl
    | finish f =>
      simp only [Pipe.step]
      by_cases hm : f ∈ s.pool.inHand
      · simp only [hm, ↓reduceIte]
        cases (entry cr s.devOf f.sender.toNat).2 <;> cases handle cfg f <;> rfl
      · simp only [hm, ↓reduceIte, Pool.step]

/-- **refinement**: the composed machine, projected on its pool component, IS the pool machine run
on the pool moves of the schedule — every theorem of Props/C09 (conservation, delivered exactly
once, requests answered, balance, no consumer dies, inevitability) applies to the composition. -/
theorem pool_projection (cfg : Cfg) (cr : Nat → Bool) (s : Pipe.St) (ms : List Pipe.Mv) :
    (Pipe.run cfg cr s ms).pool = Pool.run true cfg s.pool (poolMoves ms) := by
  induction ms generalizing s with
  | nil => rfl
  | cons m ms ih =>
    simp only [Pipe.run]
    rw [ih, step_pool]
    cases m <;> rfl

/-- the frames the producer enqueued along a schedule -/
def received (ms : List Pipe.Mv) : List Frame := arrivals (poolMoves ms)

/-- **every deliverable frame produced is handled exactly once, by THE device of its sender
address**: at quiescence of the read side, for every schedule,
 (1) the delivered frame ids are — as a multiset — exactly the ids of the received frames whose
     handling does not raise (each once: `C09.delivered_count` for distinct ids),
 (2) every delivery `(id, d)` is the delivery of a received frame with that id whose handling does
     not raise, and `d` is the entry of that frame's SENDER address in the device map,
 (3) the device map binds every address at most once and no object to two addresses. -/
theorem handled_by_the_device (n : Nat) (cfg : Cfg) (cr : Nat → Bool) (ms : List Pipe.Mv) (hg : GoodMoves cfg cr ms)
    (hq : quiescent (Pipe.run cfg cr (Pipe.init n) ms).pool = true) :
    let s := Pipe.run cfg cr (Pipe.init n) ms
    (s.deliveredTo.map (·.1)).Perm (((received ms).filter (ok cfg)).map (·.id)) ∧
    (∀ p ∈ s.deliveredTo, ∃ f ∈ received ms, f.id = p.1 ∧ ok cfg f = true ∧ s.devOf.lookup f.sender.toNat = some p.2) ∧
    (s.devOf.map (·.1)).Nodup ∧ (s.devOf.map (·.2)).Nodup := by
  have h := pinv_run cfg cr (Pipe.init n) ms (pinv_init cfg cr n) hg
  have hp := pool_projection cfg cr (Pipe.init n) ms
  have hp' : (Pipe.run cfg cr (Pipe.init n) ms).pool = Pool.run true cfg (Pool.init n) (poolMoves ms) := hp
  rw [hp'] at hq
  refine ⟨?_, ?_, h.wf.1, Fanout.WF_objs_nodup h.wf⟩
  · rw [h.dl, hp']; exact C09.delivered_exactly_once n cfg (poolMoves ms) hq
  · intro p hpm
    obtain ⟨f, hf, h1, h2, h3⟩ := h.dv p hpm
    rw [hp'] at hf
    exact ⟨f, (C09.finished_perm hq).subset hf, h1, h2, h3⟩

/-- a device, once it is the entry of an address, stays the entry of that address for the rest of
every schedule (so "THE device of the sender" does not depend on when one looks) -/
theorem device_stable (cfg : Cfg) (cr : Nat → Bool) (s : Pipe.St) (ms : List Pipe.Mv) (a d : Nat)
    (h : s.devOf.lookup a = some d) : (Pipe.run cfg cr s ms).devOf.lookup a = some d := by
  induction ms generalizing s with
  | nil => exact h
  | cons m ms ih =>
    simp only [Pipe.run]
    apply ih
    cases m with
    | write => simp only [Pipe.step]; cases s.wqueue <;> exact h
    | pool pm =>
      cases pm with
      | arrive f => exact h
      | take => exact h
      | finish f =>
        simp only [Pipe.step]
        by_cases hm : f ∈ s.pool.inHand
        · simp only [hm, ↓reduceIte]
          cases he : (entry cr s.devOf f.sender.toNat).2 <;> cases handle cfg f <;>
            first | exact h | (have := entry_mono (cr := cr) f.sender.toNat h; simpa using this)
        · simp only [hm, ↓reduceIte]; exact h

/-- **queued replies = what the producer writes**: at every moment, for every schedule, the frames
written to the transport followed by the frames still in the write queue are exactly the replies
queued so far, in order — nothing is lost, duplicated or reordered between `handle_frame` and the
transport. -/
theorem replies_conserved (n : Nat) (cfg : Cfg) (cr : Nat → Bool) (ms : List Pipe.Mv) (hg : GoodMoves cfg cr ms) :
    let s := Pipe.run cfg cr (Pipe.init n) ms
    s.written.reverse ++ s.wqueue = s.pool.responses.reverse :=
  (pinv_run cfg cr (Pipe.init n) ms (pinv_init cfg cr n) hg).wq

/-- one producer cycle writes exactly the oldest queued frame; `k` cycles empty a queue of `k` -/
theorem writes_drain (cfg : Cfg) (cr : Nat → Bool) (s : Pipe.St) :
    (drainWrites cfg cr s).wqueue = [] ∧ (drainWrites cfg cr s).written = s.wqueue.reverse ++ s.written ∧
    (drainWrites cfg cr s).pool = s.pool := by
  unfold drainWrites
  generalize hk : s.wqueue.length = k
  induction k generalizing s with
  | zero => simp [List.length_eq_zero_iff.mp hk, Pipe.run]
  | succ k ih =>
    cases hw : s.wqueue with
    | nil => simp [hw] at hk
    | cons r q =>
      simp only [List.replicate_succ, Pipe.run, Pipe.step, hw]
      have := ih { s with wqueue := q, written := r :: s.written } (by simpa [hw] using hk)
      simpa using this

/-- every reply is addressed to the sender of the request it answers -/
theorem reply_to_requester (cfg : Cfg) (f : Frame) (r : Fields) (h : r ∈ repliesOf cfg f) : r.rcpt = f.sender := by
  have key : ∀ r', replyOf cfg f = .frame r' → r'.rcpt = f.sender := by
    intro r' hr
    unfold replyOf at hr
    cases hc : f.cls <;> simp only [hc] at hr
    · cases hr
    · cases hv : Version.encode cfg.ver ownAddress.toNat <;> simp only [hv] at hr
      · cases hr
      · cases hr; rfl
    · cases hv : Net.encode cfg.net <;> simp only [hv] at hr
      · cases hr
      · cases hr; rfl
    · cases hr
  unfold repliesOf handle at h
  by_cases hb : (f.controller && f.cls != .data) = true
  · simp only [hb, if_true] at h
    cases hr : replyOf cfg f <;> simp only [hr] at h
    · simp at h
    · simp at h
    · simp only [List.mem_singleton] at h; subst h; exact key _ hr
  · simp only [hb] at h
    by_cases hx : f.raises = true <;> simp [hx] at h

/-- **every controller request yields exactly one reply that the producer writes, addressed to the
requester**: for every schedule that ends with the read side quiescent, after the producer's
remaining write cycles the frames on the transport are — as a multiset — exactly the replies of the
received frames whose handling does not raise (one per answerable controller request, none for
anything else: `C09.requests_answered`, `C09.reply_bytes_*`), the write queue is empty, and each of
them is addressed to the sender of a received frame that it answers. -/
theorem requests_answered_on_the_wire (n : Nat) (cfg : Cfg) (cr : Nat → Bool) (ms : List Pipe.Mv) (hg : GoodMoves cfg cr ms)
    (hq : quiescent (Pipe.run cfg cr (Pipe.init n) ms).pool = true) :
    let s := drainWrites cfg cr (Pipe.run cfg cr (Pipe.init n) ms)
    s.wqueue = [] ∧
    s.written.Perm (((received ms).filter (ok cfg)).flatMap (repliesOf cfg)) ∧
    (∀ r ∈ s.written, ∃ f ∈ received ms, r ∈ repliesOf cfg f ∧ r.rcpt = f.sender) := by
  have hc := replies_conserved n cfg cr ms hg
  obtain ⟨w1, w2, w3⟩ := writes_drain cfg cr (Pipe.run cfg cr (Pipe.init n) ms)
  have hp' : (Pipe.run cfg cr (Pipe.init n) ms).pool = Pool.run true cfg (Pool.init n) (poolMoves ms) :=
    pool_projection cfg cr (Pipe.init n) ms
  rw [hp'] at hq
  have hra := C09.requests_answered n cfg (poolMoves ms) hq
  have hwritten : (drainWrites cfg cr (Pipe.run cfg cr (Pipe.init n) ms)).written.reverse =
      (Pool.run true cfg (Pool.init n) (poolMoves ms)).responses.reverse := by
    rw [w2, List.reverse_append, List.reverse_reverse, ← hp']; exact hc
  have hperm : (drainWrites cfg cr (Pipe.run cfg cr (Pipe.init n) ms)).written.Perm
      (((received ms).filter (ok cfg)).flatMap (repliesOf cfg)) := by
    have e : (drainWrites cfg cr (Pipe.run cfg cr (Pipe.init n) ms)).written =
        (Pool.run true cfg (Pool.init n) (poolMoves ms)).responses := by
      have := congrArg List.reverse hwritten; simpa using this
    rw [e]; exact hra
  refine ⟨w1, hperm, ?_⟩
  intro r hr
  have := hperm.subset hr
  simp only [List.mem_flatMap, List.mem_filter] at this
  obtain ⟨f, ⟨hf, _⟩, hrf⟩ := this
  exact ⟨f, hf, hrf, reply_to_requester cfg f r hrf⟩

/-- shutdown can complete, on ONE machine: for every schedule ending with the read side quiescent,
after the producer's remaining write cycles BOTH queues are empty and the read queue's unfinished
counter is 0 (the composed form of `C09.balanced_at_quiescence` + `C09Producer.shutdown_can_complete`,
with the two queues belonging to the same run) -/
theorem both_queues_drain (n : Nat) (cfg : Cfg) (cr : Nat → Bool) (ms : List Pipe.Mv)
    (hq : quiescent (Pipe.run cfg cr (Pipe.init n) ms).pool = true) :
    let s := drainWrites cfg cr (Pipe.run cfg cr (Pipe.init n) ms)
    s.wqueue = [] ∧ s.pool.queue = [] ∧ s.pool.inHand = [] ∧ s.pool.unfinished = 0 := by
  obtain ⟨w1, _, w3⟩ := writes_drain cfg cr (Pipe.run cfg cr (Pipe.init n) ms)
  have hp' : (Pipe.run cfg cr (Pipe.init n) ms).pool = Pool.run true cfg (Pool.init n) (poolMoves ms) :=
    pool_projection cfg cr (Pipe.init n) ms
  have hq' := hq; rw [hp'] at hq'
  have hb := C09.balanced_at_quiescence n cfg (poolMoves ms) hq'
  simp only [quiescent, Bool.and_eq_true, List.isEmpty_iff] at hq
  exact ⟨w1, by rw [w3]; exact hq.1, by rw [w3]; exact hq.2, by rw [w3, hp']; exact hb⟩

/-- non-vacuity: two consumers; a marker and a check-device request from the controller (69), a frame
from an address without a device class (86): the marker is handled by device 0 = the entry of 69, the
request is answered on the wire to 69, the third frame is dropped -/
example : let cfg := C09.exampleCfg
    let cr : Nat → Bool := fun a => a == 69
    let f0 : Frame := ⟨0, .data, 69, true, 1, false⟩
    let f1 : Frame := ⟨1, .cdReq, 69, true, 0, false⟩
    let f2 : Frame := ⟨2, .data, 86, false, 0, true⟩
    let s := drainWrites cfg cr (Pipe.run cfg cr (Pipe.init 2)
      [.pool (.arrive f0), .pool (.arrive f1), .pool (.arrive f2), .pool .take, .pool .take, .pool (.finish f1), .write,
       .pool (.finish f0), .pool .take, .pool (.finish f2)])
    s.deliveredTo = [(0, 0), (1, 0)] ∧ s.devOf = [(69, 0)] ∧ s.written.map (·.rcpt) = [69] ∧ s.wqueue = [] ∧
      quiescent s.pool = true := by decide

end PlumVerif.C09Pipe

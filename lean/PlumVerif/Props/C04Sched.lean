import PlumVerif.Props.C04Chunks
import PlumVerif.Proofs.ReaderSched
/-
C04, "… × all orders in which chunk arrival interleaves with the reader's progress": the reader
and the arriving chunks as one small-step system (`Model/ReaderSched`: moves `arrive` and `run`
in ANY order, spurious wake-ups included).  Safety for every schedule, completeness for every
schedule after which the caller has seen the end of the stream, and a fair schedule exists.
-/
namespace PlumVerif.C04
open PlumVerif

/-- **every interleaving, at every moment**: the calls completed so far are a prefix of the calls of
the reader model on the concatenated stream — same outcomes, same consumed byte counts, same order;
nothing is delivered that the model does not deliver, whatever the order of arrivals and runs -/
theorem every_interleaving_prefix (cs : List (List Byte)) (ms : List Move) :
    ∃ rest, readAll cs.flatten = ((Sys.init cs).run ms).outs ++ rest := by
  have h := sysInv_run (total := cs.flatten) ms (sysInv_init cs)
  obtain ⟨_, hfin, hrun⟩ := h
  cases hf : ((Sys.init cs).run ms).finished with
  | true => exact ⟨[], by rw [hfin hf]; simp⟩
  | false => exact ⟨_, hrun hf⟩

/-- **every interleaving that reaches the end**: once the caller has been told that the connection is
lost, the completed calls are EXACTLY those of the reader model on the concatenation -/
theorem every_interleaving_complete (cs : List (List Byte)) (ms : List Move)
    (h : ((Sys.init cs).run ms).finished = true) :
    ((Sys.init cs).run ms).outs = readAll cs.flatten :=
  ((sysInv_run (total := cs.flatten) ms (sysInv_init cs)).2.1 h).symm

/-- two chunkings of the same bytes under two schedules that both reach the end give the same calls -/
theorem interleavings_agree (cs1 cs2 : List (List Byte)) (ms1 ms2 : List Move) (hcs : cs1.flatten = cs2.flatten)
    (h1 : ((Sys.init cs1).run ms1).finished = true) (h2 : ((Sys.init cs2).run ms2).finished = true) :
    ((Sys.init cs1).run ms1).outs = ((Sys.init cs2).run ms2).outs := by
  rw [every_interleaving_complete cs1 ms1 h1, every_interleaving_complete cs2 ms2 h2, hcs]

/-- the hypothesis is not vacuous: for every chunking there IS a schedule that reaches the end (all
chunks arrive, then the reader runs often enough) -/
theorem a_fair_schedule_reaches_the_end (cs : List (List Byte)) :
    ∃ ms, ((Sys.init cs).run ms).finished = true :=
  ⟨_, fair_finishes cs⟩

/-- **C04 for every interleaving**: a back-to-back sequence of well-formed frames, cut into chunks in
any way, arriving in any interleaving with the reader's progress that reaches the end, is read as
exactly those frames, each once, in order -/
theorem stream_every_interleaving (fs : List (Fields × Byte)) (hlen : ∀ p ∈ fs, p.1.payload.length + 10 ≤ 1000)
    (cs : List (List Byte)) (hcs : cs.flatten = fs.flatMap fun p => encodeWith p.1 p.2)
    (ms : List Move) (h : ((Sys.init cs).run ms).finished = true) :
    ((Sys.init cs).run ms).outs = fs.map (fun p => (classify p.1, p.1.wireLength)) ++ [(.connLost, 0)] := by
  rw [every_interleaving_complete cs ms h, hcs]; exact stream fs hlen

/-- non-vacuity: a foreign frame (checksum byte 0x68) and an own frame in three chunks; the reader runs
before anything has arrived, twice in a row (spurious wake-up), between arrivals, and at the end -/
example :
    let a : List Byte := [0x68, 0x0b, 0x00, 0x01, 0x45, 0x30, 0x05, 0x19, 0x63, 0x68, 0x16]
    let b : List Byte := [0x68, 0x0a, 0x00, 0x56, 0x45, 0x30, 0x05, 0x19, 0x5d, 0x16]
    let s := (Sys.init [a.take 4, a.drop 4 ++ b.take 1, b.drop 1]).run
      [.run, .run, .arrive, .run, .arrive, .arrive, .run, .run, .arrive, .run, .run]
    s.finished = true ∧ s.outs.map (·.1) = [.ignored, .delivered ⟨0x19, 0x56, 0x45, 0x30, 0x05, []⟩, .connLost] := by
  decide

end PlumVerif.C04

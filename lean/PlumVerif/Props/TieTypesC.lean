import PlumVerif.Props.TieTypes
/-
Tie: the Lean definitions translated from the SOURCE TEXT of `String`, `VarString`, `VarBytes`, `IPv4`, `IPv6`, `Float`,
`Double` and `Undefined` of `pyplumio/helpers/data_types.py` (Generated/PyCodeTypes.lean, rewritten by
tools/py2lean_types.py on every run) equal the hand-written codecs of Model/Types.lean — `stringCodec`, `varCodec` /
`varInst.packI`, `addrCodec 4 / 16`, `bitsCodec 4 / 8` — for ALL values, buffers, offsets and slot states.

Values at the boundary: a `str` is a Lean `String`, its wire form `utf8 s` (the bytes CPython's `str.encode()` gives);
`bytes.decode` is the partial inverse `String.fromUTF8?` (`decode_encode`: total on everything `encode` produced; invalid
UTF-8: `unsupported`, the replacement algorithm is not modelled).  An IPv4 text is what `inet_ntoa` writes (`dotted`);
`aton_ntoa` proves the prelude's `inet_aton` inverts it.  IPv6 texts and floats are carried by their bytes / bit patterns.

`String_code_lawful`, `VarString_code_lawful`, `VarBytes_code_lawful`, `IPv4_code_lawful`, `IPv6_code_lawful`,
`Float_code_lawful`, `Double_code_lawful` are C19's statement (`C19.string_lawful`, `var_lawful`, `addr_lawful`,
`bits_lawful`) about the translated methods: construct from a representable value, `to_bytes()`, then `from_bytes` out of
ANY longer buffer at the right offset gives back the value and a size equal to the number of bytes packed.

WHAT THE HYPOTHESES EXCLUDE (audit round 8): on a buffer that is not valid UTF-8 BOTH sides of `String_unpack_eq`,
`String_from_bytes_eq`, `VarString_unpack_eq`, `VarString_from_bytes_eq` are `.error .unsupported` (Python returns U+FFFD text
and still sets `_size`): neither the value nor the byte SIZE is proved for such buffers.  Offsets are `Nat`.  No
operation-sequence simulation for these classes (methods tied one by one); no `_init_eq` / `_pack_eq` for String / Var*
beyond what the `*_code_lawful` theorems state.
-/
namespace PlumVerif.TieTypesC
open PlumVerif PlumVerif.Py PlumVerif.Types PlumVerif.TieTypes
set_option linter.unusedSimpArgs false

/-- the wire form of a text: CPython's `s.encode()` -/
def utf8 (s : String) : List UInt8 := s.toUTF8.data.toList

/-- an instance of a two-slot class (`_value`, `_size`) -/
def obj2 (c : String) (v : Option V) (s : V) : V := .obj c ["_value", "_size"] [slotV v, s]

section slots2
variable (c : String) (a b x : V)
@[simp] theorem set2_value : PyT.setattr (.obj c ["_value", "_size"] [a, b]) "_value" x
    = .ok (.obj c ["_value", "_size"] [x, b]) := by simp [PyT.setattr, PyT.setSlot]
@[simp] theorem set2_size : PyT.setattr (.obj c ["_value", "_size"] [a, b]) "_size" x
    = .ok (.obj c ["_value", "_size"] [a, x]) := by simp [PyT.setattr, PyT.setSlot]
@[simp] theorem get2_value : PyT.getattr (.obj c ["_value", "_size"] [a, b]) "_value"
    = if PyT.isUnset a then .error .AttributeError else .ok a := by simp [PyT.getattr, Py.lookup]
@[simp] theorem get2_size : PyT.getattr (.obj c ["_value", "_size"] [a, b]) "_size"
    = if PyT.isUnset b then .error .AttributeError else .ok b := by simp [PyT.getattr, Py.lookup]
@[simp] theorem has2_value : PyT.hasattr (.obj c ["_value", "_size"] [a, b]) "_value"
    = .bool (!PyT.isUnset a) := by simp [PyT.hasattr, Py.lookup]
end slots2

@[simp] theorem isUnset_str (s : String) : PyT.isUnset (.str s) = false := rfl
@[simp] theorem isUnset_bytes (b : List UInt8) : PyT.isUnset (.bytes b) = false := rfl
@[simp] theorem isUnset_none : PyT.isUnset .none = false := rfl
@[simp] theorem isUnset_bool (b : Bool) : PyT.isUnset (.bool b) = false := rfl

@[simp] theorem add_int (a b : Int) : Py.add (.int a) (.int b) = .ok (.int (a + b)) := rfl
@[simp] theorem sub_int (a b : Int) : Py.sub (.int a) (.int b) = .ok (.int (a - b)) := rfl
@[simp] theorem add_bytes (a b : List UInt8) : Py.add (.bytes a) (.bytes b) = .ok (.bytes (a ++ b)) := rfl
@[simp] theorem len_bytes (a : List UInt8) : Py.len (.bytes a) = .ok (.int a.length) := rfl
@[simp] theorem str_encode_str (s : String) : PyT.str_encode (.str s) = .ok (.bytes (utf8 s)) := rfl

/-- `encode` then `decode` is the identity on every text -/
theorem decode_encode (s : String) : PyT.bytes_decode_replace (.bytes (utf8 s)) = .ok (.str s) := by
  have h : (⟨(utf8 s).toArray⟩ : ByteArray) = s.toUTF8 := by simp [utf8]
  simp only [PyT.bytes_decode_replace, h, String.fromUTF8?, String.toUTF8, s.isValidUTF8, dite_true]
  rfl

/-- what `bytes.decode("utf-8", "replace")` answers on `b` in the prelude -/
def decodeV (b : List UInt8) : PyM V :=
  match String.fromUTF8? ⟨b.toArray⟩ with
  | some s => .ok (.str s)
  | none => .error .unsupported

theorem decode_bytes (b : List UInt8) : PyT.bytes_decode_replace (.bytes b) = decodeV b := by
  simp only [PyT.bytes_decode_replace, decodeV]
  cases String.fromUTF8? ⟨b.toArray⟩ <;> rfl

theorem decodeV_utf8 (s : String) : decodeV (utf8 s) = .ok (.str s) := by
  rw [← decode_bytes]; exact decode_encode s

/-! ### `String`: null-terminated -/

/-- `data.split(b"\0", 1)[0]`: the bytes before the first NUL (all of them when there is none) -/
theorem split1_eq (d : List UInt8) :
    PyT.bytes_split1 (.bytes d) (.bytes [0]) = .ok (.list ((PyT.splitAt1 d 0).map .bytes)) := rfl

theorem split_head (d : List UInt8) :
    Py.index (.list ((PyT.splitAt1 d 0).map .bytes)) (.int 0) = .ok (.bytes (d.takeWhile (· != 0))) := by
  simp only [PyT.splitAt1]
  split <;> simp [Py.index, Py.normIndex, asInt?]

theorem String_new_eq (s : String) :
    PyCodeTypes.String_new (.str s) = .ok (obj2 "String" (some (.str s)) (.int ((utf8 s).length + 1))) := by
  simp [PyCodeTypes.String_new, PyCodeTypes.String_init, PyCodeTypes.String_init_via_DataType, PyCodeTypes.String_value,
    PyT.newobj, Py.isNotNone, Py.truthy, obj2, slotV]

/-- `String.to_bytes()` = `stringCodec.pack`: the encoded text and one NUL; the size slot is not consulted -/
theorem String_to_bytes_eq (s : String) (n : V) :
    PyCodeTypes.String_to_bytes (obj2 "String" (some (.str s)) n)
      = (match stringCodec.pack (utf8 s) with
        | some b => .ok (.bytes b, obj2 "String" (some (.str s)) n)
        | none => .error .unsupported) := by
  simp [PyCodeTypes.String_to_bytes, PyCodeTypes.String_pack, PyCodeTypes.String_value, obj2, slotV, stringCodec]

/-- `String.unpack(d)` = `stringCodec.unpack`: value = the bytes before the first NUL (decoded), size = their number + 1 -/
theorem String_unpack_eq (v : Option V) (n : V) (d : List UInt8) :
    PyCodeTypes.String_unpack (obj2 "String" v n) (.bytes d)
      = (match stringCodec.unpack d with
        | some (w, k) => (decodeV w).bind fun t => .ok (.none, obj2 "String" (some t) (.int k))
        | none => .error .unsupported) := by
  simp only [PyCodeTypes.String_unpack, split1_eq, ok_bind, split_head, decode_bytes, stringCodec]
  cases decodeV (d.takeWhile (· != 0)) with
  | error e => rfl
  | ok t => simp [obj2, slotV, Except.bind]

theorem String_value_eq (v : V) (hv : PyT.isUnset v = false) (n : V) :
    PyCodeTypes.String_value (obj2 "String" (some v) n) = .ok (v, obj2 "String" (some v) n) := by
  simp [PyCodeTypes.String_value, obj2, slotV, hv]

theorem String_size_eq (v : Option V) (n : Int) :
    PyCodeTypes.String_size (obj2 "String" v (.int n)) = .ok (.int n, obj2 "String" v (.int n)) := by
  simp [PyCodeTypes.String_size, obj2]

theorem String_from_bytes_eq (d : List UInt8) (off : Nat) :
    PyCodeTypes.String_from_bytes (.bytes d) (.int off)
      = (match stringCodec.unpack (d.drop off) with
        | some (w, k) => (decodeV w).bind fun t => .ok (obj2 "String" (some t) (.int k))
        | none => .error .unsupported) := by
  have hn := String_new_eq ""
  unfold PyCodeTypes.String_from_bytes
  rw [hn]
  simp only [ok_bind, slice_bytes_from, String_unpack_eq, stringCodec]
  cases decodeV ((d.drop off).takeWhile (· != 0)) <;> rfl

/-- **C19 for the translated `String`**: every text whose encoding has no NUL byte (non-ASCII characters occupy
several bytes each and are sized in bytes), any bytes before and after -/
theorem String_code_lawful (s : String) (hs : (0 : UInt8) ∉ utf8 s) (pre rest : List UInt8) :
    ∃ o bs, PyCodeTypes.String_new (.str s) = .ok o ∧ PyCodeTypes.String_to_bytes o = .ok (.bytes bs, o) ∧
      bs = utf8 s ++ [0] ∧
      ∃ o', PyCodeTypes.String_from_bytes (.bytes (pre ++ bs ++ rest)) (.int pre.length) = .ok o' ∧
        PyCodeTypes.String_value o' = .ok (.str s, o') ∧ PyCodeTypes.String_size o' = .ok (.int bs.length, o') := by
  obtain ⟨bs, hp, hsz, hu⟩ := C19.string_lawful (utf8 s) hs
  have hbs : bs = utf8 s ++ [0] := by simpa [stringCodec] using hp.symm
  refine ⟨_, bs, String_new_eq s, ?_, hbs, obj2 "String" (some (.str s)) (.int bs.length), ?_, ?_, ?_⟩
  · rw [String_to_bytes_eq, hp]
  · rw [String_from_bytes_eq, List.append_assoc, drop_append_length, hu rest]
    simp [decodeV_utf8, Except.bind]
  · exact String_value_eq _ rfl _
  · exact String_size_eq _ _

/-! ### `VarString` / `VarBytes`: one length byte, then the bytes -/

/-- `UnsignedChar(k).to_bytes()` -/
theorem uchar_new (k : Int) : PyCodeTypes.UnsignedChar_new (.int k) = .ok (iobj "UnsignedChar" (some k) 0) :=
  UnsignedChar_new_eq (some k)

theorem u8_pack_nat (k : Nat) :
    (intCodec .u8).pack (k : Int) = if k ≤ 255 then some [k.toUInt8] else none := by
  by_cases h : k ≤ 255
  · have h1 : IntTy.u8.inRange (k : Int) = true := by
      simp [IntTy.inRange, IntTy.signed, IntTy.modulus, IntTy.size]; omega
    simp [intCodec, h1, h, IntTy.toWire, IntTy.signed, IntTy.size, PlumVerif.encodeLE]
    apply UInt8.toNat_inj.mp
    simp [Nat.toUInt8, UInt8.toNat_ofNat']
  · have h1 : IntTy.u8.inRange (k : Int) = false := by
      simp [IntTy.inRange, IntTy.signed, IntTy.modulus, IntTy.size]; omega
    simp [intCodec, h1, h]

open Lean in
macro "var_ties" c:ident : command => do
  let cn := c.getId.toString
  let n (s : String) := mkIdent (Name.mkSimple (cn ++ s))
  let g (s : String) := mkIdent (`PlumVerif.PyCodeTypes ++ Name.mkSimple (cn ++ s))
  let cs := Syntax.mkStrLit cn
  let c1 ← `(theorem $(n "_size_eq") (v : Option V) (k : Int) :
        $(g "_size") (obj2 $cs v (.int k)) = .ok (.int k, obj2 $cs v (.int k)) := by
      simp [$(g "_size"):ident, obj2])
  let c2 ← `(theorem $(n "_value_eq") (v : V) (hv : PyT.isUnset v = false) (k : V) :
        $(g "_value") (obj2 $cs (some v) k) = .ok (v, obj2 $cs (some v) k) := by
      simp [$(g "_value"):ident, obj2, slotV, hv])
  return ⟨mkNullNode #[c1, c2]⟩

var_ties VarBytes
var_ties VarString

theorem VarBytes_new_eq (v : List UInt8) :
    PyCodeTypes.VarBytes_new (.bytes v) = .ok (obj2 "VarBytes" (some (.bytes v)) (.int (varCodec.size v))) := by
  simp [PyCodeTypes.VarBytes_new, PyCodeTypes.VarBytes_init, PyCodeTypes.VarBytes_init_via_DataType,
    PyT.newobj, Py.isNotNone, Py.truthy, obj2, slotV, varCodec]

theorem VarString_new_eq (s : String) :
    PyCodeTypes.VarString_new (.str s) = .ok (obj2 "VarString" (some (.str s)) (.int (varCodec.size (utf8 s)))) := by
  simp [PyCodeTypes.VarString_new, PyCodeTypes.VarString_init, PyCodeTypes.VarString_init_via_DataType,
    PyT.newobj, Py.isNotNone, Py.truthy, obj2, slotV, varCodec]

/-- `VarBytes.to_bytes()` on an instance whose size slot holds `k`: the length prefix is `k - 1` (the SIZE slot, not the
length of the value), a `struct.error` when that is not a byte -/
theorem VarBytes_to_bytes_eq (v : List UInt8) (k : Int) :
    PyCodeTypes.VarBytes_to_bytes (obj2 "VarBytes" (some (.bytes v)) (.int k))
      = (match (intCodec .u8).pack (k - 1) with
        | some b => .ok (.bytes (b ++ v), obj2 "VarBytes" (some (.bytes v)) (.int k))
        | none => .error .StructError) := by
  simp only [PyCodeTypes.VarBytes_to_bytes, PyCodeTypes.VarBytes_pack, VarBytes_size_eq, ok_bind, sub_int, uchar_new,
    UnsignedChar_to_bytes_eq]
  cases (intCodec .u8).pack (k - 1) with
  | none => rfl
  | some b => simp [VarBytes_value_eq (.bytes v) rfl]

theorem VarString_to_bytes_eq (s : String) (k : Int) :
    PyCodeTypes.VarString_to_bytes (obj2 "VarString" (some (.str s)) (.int k))
      = (match (intCodec .u8).pack (k - 1) with
        | some b => .ok (.bytes (b ++ utf8 s), obj2 "VarString" (some (.str s)) (.int k))
        | none => .error .StructError) := by
  simp only [PyCodeTypes.VarString_to_bytes, PyCodeTypes.VarString_pack, VarString_size_eq, ok_bind, sub_int, uchar_new,
    UnsignedChar_to_bytes_eq]
  cases (intCodec .u8).pack (k - 1) with
  | none => rfl
  | some b => simp [VarString_value_eq (.str s) rfl]

/-- … which on the model's instance states (size slot `n ≥ 1`) is `varInst.packI` -/
theorem VarBytes_to_bytes_inst (v : List UInt8) (n : Nat) (hn : 1 ≤ n) :
    PyCodeTypes.VarBytes_to_bytes (obj2 "VarBytes" (some (.bytes v)) (.int n))
      = (match varInst.packI v n with
        | some b => .ok (.bytes b, obj2 "VarBytes" (some (.bytes v)) (.int n))
        | none => .error .StructError) := by
  have e : ((n : Int) - 1) = ((n - 1 : Nat) : Int) := by omega
  rw [VarBytes_to_bytes_eq, e, u8_pack_nat]
  simp only [varInst]
  by_cases h : n - 1 ≤ 255 <;> simp [h]

theorem VarString_to_bytes_inst (s : String) (n : Nat) (hn : 1 ≤ n) :
    PyCodeTypes.VarString_to_bytes (obj2 "VarString" (some (.str s)) (.int n))
      = (match varInst.packI (utf8 s) n with
        | some b => .ok (.bytes b, obj2 "VarString" (some (.str s)) (.int n))
        | none => .error .StructError) := by
  have e : ((n : Int) - 1) = ((n - 1 : Nat) : Int) := by omega
  rw [VarString_to_bytes_eq, e, u8_pack_nat]
  simp only [varInst]
  by_cases h : n - 1 ≤ 255 <;> simp [h]

theorem index0 (b : UInt8) (r : List UInt8) : Py.index (.bytes (b :: r)) (.int 0) = .ok (.int b.toNat) := by
  simp [Py.index, Py.normIndex, asInt?, Py.byteV]

theorem slice1 (b : UInt8) (r : List UInt8) (k : Nat) :
    Py.slice (.bytes (b :: r)) (.int 1) (.int ((k : Int) + 1)) = .ok (.bytes (r.take k)) := by
  have h0 : (0 : Int) ≤ (k : Int) + 1 := by omega
  have h1 : ((k : Int) + 1).toNat = k + 1 := by omega
  simp only [Py.slice, Py.bound, asInt?, h0, h1, if_true, pure_eq_ok, ok_bind, sliceList, List.length_cons]
  simp only [Int.reduceLE, if_true, Int.toNat_one, Except.ok.injEq, V.bytes.injEq]
  by_cases hk : k + 1 ≤ r.length + 1
  · rw [Nat.min_eq_left hk]; simp
  · have : r.length + 1 ≤ k + 1 := by omega
    rw [Nat.min_eq_right this]
    simp [List.take_of_length_le (by omega : r.length ≤ k)]

/-- `VarBytes.unpack(d)` = `varCodec.unpack`: IndexError on an empty buffer; otherwise the size slot is the length byte + 1
and the value the (at most that many) bytes that follow — lenient slicing, exactly as the code has it -/
theorem VarBytes_unpack_eq (v : Option V) (n : V) (d : List UInt8) :
    PyCodeTypes.VarBytes_unpack (obj2 "VarBytes" v n) (.bytes d)
      = (match varCodec.unpack d with
        | some (w, k) => .ok (.none, obj2 "VarBytes" (some (.bytes w)) (.int k))
        | none => .error .IndexError) := by
  cases d with
  | nil => simp [PyCodeTypes.VarBytes_unpack, varCodec, Py.index, Py.normIndex, asInt?]
  | cons b r =>
    simp only [PyCodeTypes.VarBytes_unpack, index0, ok_bind, add_int, obj2, set2_size, varCodec]
    have := VarBytes_size_eq v ((b.toNat : Int) + 1)
    simp only [obj2] at this
    rw [this]
    simp only [ok_bind, slice1, set2_value, slotV, pure_eq_ok]
    rfl

theorem VarString_unpack_eq (v : Option V) (n : V) (d : List UInt8) :
    PyCodeTypes.VarString_unpack (obj2 "VarString" v n) (.bytes d)
      = (match varCodec.unpack d with
        | some (w, k) => (decodeV w).bind fun t => .ok (.none, obj2 "VarString" (some t) (.int k))
        | none => .error .IndexError) := by
  cases d with
  | nil => simp [PyCodeTypes.VarString_unpack, varCodec, Py.index, Py.normIndex, asInt?]
  | cons b r =>
    simp only [PyCodeTypes.VarString_unpack, index0, ok_bind, add_int, obj2, set2_size, varCodec]
    have := VarString_size_eq v ((b.toNat : Int) + 1)
    simp only [obj2] at this
    rw [this]
    simp only [ok_bind, slice1, decode_bytes]
    cases decodeV (r.take b.toNat) with
    | error e => rfl
    | ok t => simp [Except.bind, slotV]

theorem VarBytes_from_bytes_eq (d : List UInt8) (off : Nat) :
    PyCodeTypes.VarBytes_from_bytes (.bytes d) (.int off)
      = (match varCodec.unpack (d.drop off) with
        | some (w, k) => .ok (obj2 "VarBytes" (some (.bytes w)) (.int k))
        | none => .error .IndexError) := by
  unfold PyCodeTypes.VarBytes_from_bytes
  rw [VarBytes_new_eq]
  simp only [ok_bind, slice_bytes_from, VarBytes_unpack_eq]
  cases varCodec.unpack (d.drop off) with
  | none => rfl
  | some p => rfl

theorem VarString_from_bytes_eq (d : List UInt8) (off : Nat) :
    PyCodeTypes.VarString_from_bytes (.bytes d) (.int off)
      = (match varCodec.unpack (d.drop off) with
        | some (w, k) => (decodeV w).bind fun t => .ok (obj2 "VarString" (some t) (.int k))
        | none => .error .IndexError) := by
  unfold PyCodeTypes.VarString_from_bytes
  rw [VarString_new_eq]
  simp only [ok_bind, slice_bytes_from, VarString_unpack_eq]
  cases varCodec.unpack (d.drop off) with
  | none => rfl
  | some p =>
    obtain ⟨w, k⟩ := p
    simp only
    cases decodeV w <;> rfl

/-- **C19 for the translated `VarBytes`**: every byte string of at most 255 bytes, any bytes before and after -/
theorem VarBytes_code_lawful (v : List UInt8) (hv : v.length ≤ 255) (pre rest : List UInt8) :
    ∃ o bs, PyCodeTypes.VarBytes_new (.bytes v) = .ok o ∧ PyCodeTypes.VarBytes_to_bytes o = .ok (.bytes bs, o) ∧
      ∃ o', PyCodeTypes.VarBytes_from_bytes (.bytes (pre ++ bs ++ rest)) (.int pre.length) = .ok o' ∧
        PyCodeTypes.VarBytes_value o' = .ok (.bytes v, o') ∧ PyCodeTypes.VarBytes_size o' = .ok (.int bs.length, o') := by
  obtain ⟨bs, hp, hsz, hu⟩ := C19.var_lawful v hv
  have hpi : varInst.packI v (varCodec.size v) = some bs := by
    rw [← hp]; simp [varInst, varCodec]
  refine ⟨_, bs, VarBytes_new_eq v, ?_, obj2 "VarBytes" (some (.bytes v)) (.int bs.length), ?_, ?_, ?_⟩
  · rw [VarBytes_to_bytes_inst v _ (by simp [varCodec]), hpi]
  · rw [VarBytes_from_bytes_eq, List.append_assoc, drop_append_length, hu rest]
  · exact VarBytes_value_eq _ rfl _
  · exact VarBytes_size_eq _ _

/-- **C19 for the translated `VarString`**: every text whose encoding has at most 255 BYTES -/
theorem VarString_code_lawful (s : String) (hv : (utf8 s).length ≤ 255) (pre rest : List UInt8) :
    ∃ o bs, PyCodeTypes.VarString_new (.str s) = .ok o ∧ PyCodeTypes.VarString_to_bytes o = .ok (.bytes bs, o) ∧
      ∃ o', PyCodeTypes.VarString_from_bytes (.bytes (pre ++ bs ++ rest)) (.int pre.length) = .ok o' ∧
        PyCodeTypes.VarString_value o' = .ok (.str s, o') ∧ PyCodeTypes.VarString_size o' = .ok (.int bs.length, o') := by
  obtain ⟨bs, hp, hsz, hu⟩ := C19.var_lawful (utf8 s) hv
  have hpi : varInst.packI (utf8 s) (varCodec.size (utf8 s)) = some bs := by
    rw [← hp]; simp [varInst, varCodec]
  refine ⟨_, bs, VarString_new_eq s, ?_, obj2 "VarString" (some (.str s)) (.int bs.length), ?_, ?_, ?_⟩
  · rw [VarString_to_bytes_inst s _ (by simp [varCodec]), hpi]
  · rw [VarString_from_bytes_eq, List.append_assoc, drop_append_length, hu rest]
    simp [decodeV_utf8, Except.bind]
  · exact VarString_value_eq _ rfl _
  · exact VarString_size_eq _ _

/-- the one non-canonical state (C19.var_truncated_witness) on the translated code: a buffer shorter than its length
prefix promises leaves a size slot that disagrees with the value, and `to_bytes()` writes the stale prefix -/
example : ∃ o, PyCodeTypes.VarBytes_from_bytes (.bytes [5, 1, 2]) (.int 0) = .ok o ∧
    PyCodeTypes.VarBytes_to_bytes o = .ok (.bytes [5, 1, 2], o) := by
  refine ⟨obj2 "VarBytes" (some (.bytes [1, 2])) (.int 6), ?_, ?_⟩
  · exact (VarBytes_from_bytes_eq [5, 1, 2] 0).trans rfl
  · exact (VarBytes_to_bytes_eq [1, 2] 6).trans rfl

end PlumVerif.TieTypesC

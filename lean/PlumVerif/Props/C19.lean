import PlumVerif.Spec.C19
import PlumVerif.Proofs.Types
/-
C19 — primitive wire types pack, unpack and size consistently for every value.
Property theorems only; helper lemmas live in Proofs/Types.lean.
`Lawful c representable` (Spec/C19.lean) is the property statement for one wire type.
-/
namespace PlumVerif.C19
open PlumVerif PlumVerif.Types

/-! ### little-endian and two's-complement arithmetic -/

/-- `decodeLE (encodeLE n k) = n` for every `n < 256^k`, every width `k` -/
theorem le_roundtrip (n k : Nat) (h : n < 256 ^ k) : decodeLE (encodeLE n k) = n :=
  decodeLE_encodeLE n k h

/-- an encoded integer occupies exactly `k` bytes -/
theorem le_length (n k : Nat) : (encodeLE n k).length = k := encodeLE_length n k

/-- conversely every `k`-byte string is the encoding of its value (decode is injective) -/
theorem le_encode_decode (bs : List Byte) : encodeLE (decodeLE bs) bs.length = bs :=
  encodeLE_decodeLE bs

/-- two's complement: every value of the signed range survives the trip through the wire value -/
theorem twos_roundtrip (t : IntTy) (v : Int) (hs : t.signed = true) (h : t.inRange v = true) :
    t.ofWire (t.toWire v) = v ∧ t.toWire v < t.modulus := by
  simp only [IntTy.inRange, hs, if_true, decide_eq_true_eq] at h
  simp only [IntTy.ofWire, IntTy.toWire, hs, if_true]
  exact ⟨ofTwos_toTwos _ (modulus_even t) v h.1 h.2, toTwos_lt _ (modulus_even t) v h.1 h.2⟩

/-- the representable ranges are the ones of the statement (signed / unsigned 8, 16, 32, 64 bit) -/
theorem int_ranges (v : Int) :
    (IntTy.i8.inRange v ↔ -128 ≤ v ∧ v ≤ 127) ∧ (IntTy.u8.inRange v ↔ 0 ≤ v ∧ v ≤ 255) ∧
    (IntTy.i16.inRange v ↔ -32768 ≤ v ∧ v ≤ 32767) ∧ (IntTy.u16.inRange v ↔ 0 ≤ v ∧ v ≤ 65535) ∧
    (IntTy.i32.inRange v ↔ -2147483648 ≤ v ∧ v ≤ 2147483647) ∧
    (IntTy.u32.inRange v ↔ 0 ≤ v ∧ v ≤ 4294967295) ∧
    (IntTy.i64.inRange v ↔ -9223372036854775808 ≤ v ∧ v ≤ 9223372036854775807) ∧
    (IntTy.u64.inRange v ↔ 0 ≤ v ∧ v ≤ 18446744073709551615) := by
  simp only [inRange_iff]
  refine ⟨?_, ?_, ?_, ?_, ?_, ?_, ?_, ?_⟩ <;> simp [IntTy.signed, IntTy.modulus, IntTy.size] <;> omega

/-! ### the wire types are lawful codecs -/

/-- all eight integer types, every representable value, any trailing bytes -/
theorem int_lawful (t : IntTy) : Lawful (intCodec t) (fun v => t.inRange v = true) := by
  intro v hv
  have hw : t.toWire v < 256 ^ t.size ∧ t.ofWire (t.toWire v) = v := by
    cases hs : t.signed with
    | true => have := twos_roundtrip t v hs hv; exact ⟨this.2, this.1⟩
    | false =>
      simp only [IntTy.inRange, hs, Bool.false_eq_true, if_false, decide_eq_true_eq] at hv
      simp only [IntTy.toWire, IntTy.ofWire, hs, Bool.false_eq_true, if_false]
      have : ((v.toNat : Nat) : Int) = v := Int.toNat_of_nonneg hv.1
      refine ⟨?_, this⟩
      have h2 := hv.2
      unfold IntTy.modulus at h2
      omega
  refine ⟨encodeLE (t.toWire v) t.size, by simp [intCodec, hv], by simp [intCodec, encodeLE_length], ?_⟩
  intro rest
  have hl := encodeLE_length (t.toWire v) t.size
  have htake : (encodeLE (t.toWire v) t.size ++ rest).take t.size = encodeLE (t.toWire v) t.size := by
    have := take_append_length (encodeLE (t.toWire v) t.size) rest
    rwa [hl] at this
  simp only [intCodec, List.length_append, hl, htake, decodeLE_encodeLE _ _ hw.1, hw.2]
  simp

/-- float and double: identity on the 32 / 64-bit patterns -/
theorem bits_lawful (k : Nat) : Lawful (bitsCodec k) (fun n => n < 256 ^ k) := by
  intro n hn
  refine ⟨encodeLE n k, by simp [bitsCodec, hn], by simp [bitsCodec, encodeLE_length], ?_⟩
  intro rest
  have hl := encodeLE_length n k
  have htake : (encodeLE n k ++ rest).take k = encodeLE n k := by
    have := take_append_length (encodeLE n k) rest
    rwa [hl] at this
  simp only [bitsCodec, List.length_append, hl, htake, decodeLE_encodeLE _ _ hn]
  simp

theorem float_lawful : Lawful floatCodec (fun bits => bits < 2 ^ 32) := by
  have := bits_lawful 4
  simpa [floatCodec] using this

theorem double_lawful : Lawful doubleCodec (fun bits => bits < 2 ^ 64) := by
  have := bits_lawful 8
  simpa [doubleCodec] using this

/-- IPv4 / IPv6 on byte tuples -/
theorem addr_lawful (k : Nat) : Lawful (addrCodec k) (fun a => a.length = k) := by
  intro a ha
  refine ⟨a, by simp [addrCodec, ha], by simp [addrCodec, ha], ?_⟩
  intro rest
  have htake : (a ++ rest).take k = a := by
    have := take_append_length a rest
    rwa [ha] at this
  simp only [addrCodec, List.length_append, ha, htake]
  simp

theorem ipv4_lawful : Lawful ipv4Codec (fun a => a.length = 4) := addr_lawful 4
theorem ipv6_lawful : Lawful ipv6Codec (fun a => a.length = 16) := addr_lawful 16

/-- null-terminated string: every byte string without a NUL (the UTF-8 encoding of any text
without U+0000 — non-ASCII characters occupy several bytes each and are sized in bytes) -/
theorem string_lawful : Lawful stringCodec (fun v => (0 : Byte) ∉ v) := by
  intro v hv
  refine ⟨v ++ [0], rfl, by simp [stringCodec], ?_⟩
  intro rest
  have htw : (v ++ [0] ++ rest).takeWhile (· != 0) = v := by
    rw [List.append_assoc, List.takeWhile_append_of_pos]
    · simp
    · intro b hb
      simp only [bne_iff_ne, ne_eq]
      intro h0
      exact hv (h0 ▸ hb)
  simp only [stringCodec, htw]
  simp

/-- length-prefixed bytes and strings: every byte string of at most 255 bytes -/
theorem var_lawful : Lawful varCodec (fun v => v.length ≤ 255) := by
  intro v hv
  refine ⟨v.length.toUInt8 :: v, by simp [varCodec, hv], by simp [varCodec], ?_⟩
  intro rest
  have hn : v.length.toUInt8.toNat = v.length := by
    simp [Nat.toUInt8, UInt8.toNat_ofNat']; omega
  simp only [varCodec, List.cons_append, hn, List.length_cons]
  simp

/-- the size accounting positions the following field: two lawful fields packed back to back
and followed by anything are recovered by unpack — advance by `.size` — unpack. -/
theorem fields_in_sequence {α β : Type} {ca : Codec α} {cb : Codec β} {ra : α → Prop} {rb : β → Prop}
    (ha : Lawful ca ra) (hb : Lawful cb rb) (a : α) (b : β) (hra : ra a) (hrb : rb b) (rest : List Byte) :
    ∃ pa pb, ca.pack a = some pa ∧ cb.pack b = some pb ∧
      ∃ sa, ca.unpack (pa ++ pb ++ rest) = some (a, sa) ∧
        ∃ sb, cb.unpack ((pa ++ pb ++ rest).drop sa) = some (b, sb) ∧
          (pa ++ pb ++ rest).drop (sa + sb) = rest := by
  obtain ⟨pa, hpa, _, hua⟩ := ha a hra
  obtain ⟨pb, hpb, _, hub⟩ := hb b hrb
  refine ⟨pa, pb, hpa, hpb, pa.length, ?_, pb.length, ?_, ?_⟩
  · rw [List.append_assoc]; exact hua _
  · rw [List.append_assoc, drop_append_length]; exact hub rest
  · rw [← List.length_append, drop_append_length]

/-! ### bit array (interpretation of DESIGN.md section 6 / C19: the size of a bit field is read at
the level it is used for, the cursor) -/

/-- a bit field unpacked from any buffer reads bit `idx` of the first byte, for all eight
indexes and any trailing bytes; packing it again gives back the shared byte -/
theorem bit_value (b : Byte) (rest : List Byte) (idx : Nat) :
    ∃ raw, bitUnpack (b :: rest) = some raw ∧ bitValue raw idx = b.toNat.testBit idx ∧
      bitPack raw = [b] :=
  ⟨b, rfl, rfl, rfl⟩

/-- the eight bit values determine the byte: the bit field loses nothing -/
theorem bit_value_injective (a b : Byte) (h : ∀ idx, idx < 8 → bitValue a idx = bitValue b idx) :
    a = b := by
  apply UInt8.toNat_inj.mp
  apply Nat.eq_of_testBit_eq
  intro i
  by_cases hi : i < 8
  · exact h i hi
  · have h8 : 2 ^ 8 ≤ 2 ^ i := Nat.pow_le_pow_right (by omega) (by omega)
    rw [Nat.testBit_lt_two_pow (Nat.lt_of_lt_of_le a.toNat_lt h8),
      Nat.testBit_lt_two_pow (Nat.lt_of_lt_of_le b.toNat_lt h8)]

/-- `size`/`next` protocol of one bit field: the shared byte is released exactly after bit 7 -/
theorem bit_size_next (idx : Nat) (h : idx < 8) :
    (bitSize idx = if idx = 7 then 1 else 0) ∧ (bitNext idx = (idx + 1) % 8) := by
  have : Gen.bitarrayLastIndex = 7 := rfl
  unfold bitSize bitNext
  rw [this]
  constructor
  · rfl
  · split <;> omega

/-- a run of `k` bit fields starting on a byte boundary at offset `o`: bit field `j` reads bit
`j % 8` of byte `o + j / 8`, and the cursor ends `k / 8` whole bytes on with `k % 8` bits used -/
theorem bit_run_values (msg : List Byte) (k o : Nat) (h : o + (k + 7) / 8 ≤ msg.length) :
    ∃ vs, runBits msg k ⟨o, 0⟩ = some (vs, ⟨o + k / 8, k % 8⟩) ∧ vs.length = k ∧
      ∀ j, j < k → vs[j]? = some ((msg.getD (o + j / 8) 0).toNat.testBit (j % 8)) := by
  -- generalised over the starting bit index `s < 8`
  suffices gen : ∀ (k o s : Nat), s < 8 → o + (s + k + 7) / 8 ≤ msg.length →
      ∃ vs, runBits msg k ⟨o, s⟩ = some (vs, ⟨o + (s + k) / 8, (s + k) % 8⟩) ∧ vs.length = k ∧
        ∀ j, j < k → vs[j]? = some ((msg.getD (o + (s + j) / 8) 0).toNat.testBit ((s + j) % 8)) by
    have := gen k o 0 (by omega) (by simpa using h)
    simpa using this
  intro k
  induction k with
  | zero =>
    intro o s hs _
    refine ⟨[], ?_, rfl, by intro j hj; omega⟩
    have h1 : s / 8 = 0 := by omega
    have h2 : s % 8 = s := by omega
    simp [runBits, h1, h2]
  | succ k ih =>
    intro o s hs hlen
    have hlast : Gen.bitarrayLastIndex = 7 := rfl
    have ho : o < msg.length := by omega
    have hhead : bitUnpack (msg.drop o) = some (msg.getD o 0) := by
      simp [bitUnpack, List.head?_drop, List.getD, List.getElem?_eq_getElem ho]
    by_cases h7 : s = 7
    · subst h7
      obtain ⟨vs, hrun, hl, hv⟩ := ih (o + 1) 0 (by omega) (by omega)
      refine ⟨(msg.getD o 0).toNat.testBit 7 :: vs, ?_, by simp [hl], ?_⟩
      · simp only [runBits, stepField, hhead, bitSize, bitNext, hlast, if_true, hrun, bitValue]
        have e1 : o + 1 + (0 + k) / 8 = o + (7 + (k + 1)) / 8 := by omega
        have e2 : (0 + k) % 8 = (7 + (k + 1)) % 8 := by omega
        rw [e1, e2]
      · intro j hj
        cases j with
        | zero => simp
        | succ j =>
          have := hv j (by omega)
          simp only [List.getElem?_cons_succ, this]
          have e1 : o + 1 + (0 + j) / 8 = o + (7 + (j + 1)) / 8 := by omega
          have e2 : (0 + j) % 8 = (7 + (j + 1)) % 8 := by omega
          rw [e1, e2]
    · obtain ⟨vs, hrun, hl, hv⟩ := ih o (s + 1) (by omega) (by omega)
      refine ⟨(msg.getD o 0).toNat.testBit s :: vs, ?_, by simp [hl], ?_⟩
      · simp only [runBits, stepField, hhead, bitSize, bitNext, hlast, if_neg h7, hrun, bitValue,
          Nat.add_zero]
        have e1 : (s + 1 + k) = (s + (k + 1)) := by omega
        rw [e1]
      · intro j hj
        cases j with
        | zero =>
          have h1 : s / 8 = 0 := by omega
          have h2 : s % 8 = s := by omega
          simp [h1, h2]
        | succ j =>
          have := hv j (by omega)
          simp only [List.getElem?_cons_succ, this]
          have e1 : s + 1 + j = s + (j + 1) := by omega
          rw [e1]

/-- … followed by anything: the next non-bit field of reported size `n` starts `⌈k/8⌉` bytes
after the start of the run, and leaves the cursor on a byte boundary `n` bytes further -/
theorem bit_run (msg : List Byte) (k o n : Nat) (h : o + (k + 7) / 8 ≤ msg.length) :
    ∃ vs c, runBits msg k ⟨o, 0⟩ = some (vs, c) ∧ vs.length = k ∧
      c.align = o + (k + 7) / 8 ∧
      stepField msg c (.other n) = some (none, ⟨o + (k + 7) / 8 + n, 0⟩) := by
  obtain ⟨vs, hrun, hl, _⟩ := bit_run_values msg k o h
  have ha : (Cursor.mk (o + k / 8) (k % 8)).align = o + (k + 7) / 8 := by
    unfold Cursor.align
    simp only
    split <;> omega
  exact ⟨vs, _, hrun, hl, ha, by simp [stepField, ha]⟩

/-! ### re-used instances: every operation sequence -/

/-- coherence of an instance: it holds a representable value and its size slot is that value's size -/
def Good {α : Type} (c : InstCodec α) (rep : α → Prop) (s : Inst α) : Prop :=
  ∀ v, s.value = some v → rep v ∧ s.size = c.size v

theorem int_inst_lawful (t : IntTy) : InstLawful (intInst t) (fun v => t.inRange v = true) :=
  ⟨int_lawful t, fun _ _ => rfl⟩
theorem bits_inst_lawful (k : Nat) : InstLawful (bitsInst k) (fun n => n < 256 ^ k) :=
  ⟨bits_lawful k, fun _ _ => rfl⟩
theorem addr_inst_lawful (k : Nat) : InstLawful (addrInst k) (fun a => a.length = k) :=
  ⟨addr_lawful k, fun _ _ => rfl⟩
theorem string_inst_lawful : InstLawful stringInst (fun v => (0 : Byte) ∉ v) :=
  ⟨string_lawful, fun _ _ => rfl⟩
theorem var_inst_lawful : InstLawful varInst (fun v => v.length ≤ 255) := by
  refine ⟨var_lawful, ?_⟩
  intro v hv
  show (if v.length + 1 - 1 ≤ 255 then some ((v.length + 1 - 1).toUInt8 :: v) else none) =
    (if v.length ≤ 255 then some (v.length.toUInt8 :: v) else none)
  simp

/-- reads never change an instance (no stale cache can build up) -/
theorem observers_inert {α : Type} (c : InstCodec α) (s : Inst α) :
    (s.step c .toBytes).1 = s ∧ (s.step c .size).1 = s ∧ (s.step c .value).1 = s := by
  refine ⟨?_, rfl, ?_⟩
  · simp only [Inst.step]
    cases s.value with
    | none => rfl
    | some v => simp only; cases c.packI v s.size <;> rfl
  · simp only [Inst.step]
    cases s.value <;> rfl

theorem good_new {α : Type} (c : InstCodec α) (rep : α → Prop) (v : Option α)
    (hv : Canonical c rep (.construct v)) : Good c rep (Inst.new c v) := by
  intro w hw
  cases v with
  | some v =>
    simp only [Inst.new, Option.some.injEq] at hw
    subst hw
    exact ⟨hv, rfl⟩
  | none =>
    simp only [Inst.new] at hw
    cases hd : c.dflt with
    | none => rw [hd] at hw; simp at hw
    | some d =>
      rw [hd] at hw
      simp only [Option.some.injEq] at hw
      subst hw
      simp only [Inst.new, hd]
      exact ⟨hv d hd, by first | rfl | trivial⟩

/-- coherence is kept by every canonical operation -/
theorem good_step {α : Type} (c : InstCodec α) (rep : α → Prop) (h : InstLawful c rep)
    (s : Inst α) (hs : Good c rep s) (op : Op α) (hop : Canonical c rep op) :
    Good c rep (s.step c op).1 := by
  cases op with
  | construct v => exact good_new c rep v hop
  | toBytes => rw [(observers_inert c s).1]; exact hs
  | size => exact hs
  | value => rw [(observers_inert c s).2.2]; exact hs
  | unpack d =>
    rcases hop with hnone | ⟨v, bs, rest, hv, hp, rfl⟩
    · simp only [Inst.step, hnone]; exact hs
    · obtain ⟨bs', hp', hsz, hu⟩ := h.1 v hv
      rw [hp] at hp'
      cases hp'
      simp only [Inst.step, hu rest]
      intro w hw
      simp only [Option.some.injEq] at hw
      subst hw
      exact ⟨hv, hsz.symm⟩

theorem good_run {α : Type} (c : InstCodec α) (rep : α → Prop) (h : InstLawful c rep)
    (s : Inst α) (hs : Good c rep s) (ops : List (Op α)) (hops : ∀ op ∈ ops, Canonical c rep op) :
    Good c rep (Inst.run c s ops).1 := by
  induction ops generalizing s with
  | nil => exact hs
  | cons op rest ih =>
    exact ih _ (good_step c rep h s hs op (hops op (by simp))) (fun o ho => hops o (by simp [ho]))

/-- what a coherent instance reports -/
theorem good_reports {α : Type} (c : InstCodec α) (rep : α → Prop) (h : InstLawful c rep)
    (s : Inst α) (hs : Good c rep s) (v : α) (hv : s.value = some v) :
    ∃ bs, c.pack v = some bs ∧ (s.step c .toBytes).2 = .bytes bs ∧
      (s.step c .size).2 = .size bs.length ∧ (s.step c .value).2 = .value v := by
  obtain ⟨hrep, hsz⟩ := hs v hv
  obtain ⟨bs, hp, hlen, _⟩ := h.1 v hrep
  refine ⟨bs, hp, ?_, ?_, ?_⟩
  · simp only [Inst.step, hv, hsz, h.2 v hrep, hp]
  · simp only [Inst.step, hsz, hlen]
  · simp only [Inst.step, hv]

/-- the value an instance holds after ANY operation sequence is the one constructed or
successfully unpacked last -/
theorem value_is_last_set {α : Type} (c : InstCodec α) (s : Inst α) (ops : List (Op α)) :
    (Inst.run c s ops).1.value = ops.foldl (fun cur op => match op with
      | .construct v => (Inst.new c v).value
      | .unpack d => match c.unpack d with | some (v, _) => some v | none => cur
      | _ => cur) s.value := by
  induction ops generalizing s with
  | nil => rfl
  | cons op rest ih =>
    simp only [Inst.run, List.foldl_cons]
    rw [ih]
    congr 1
    cases op with
    | construct v => rfl
    | toBytes => rw [(observers_inert c s).1]
    | size => rfl
    | value => rw [(observers_inert c s).2.2]
    | unpack d =>
      simp only [Inst.step]
      cases c.unpack d with
      | none => rfl
      | some r => rfl

/-- **pack reflects the last value**: after ANY sequence of canonical operations on one
instance, `to_bytes()` is the packed form of the value it holds — the value constructed or
unpacked last (`value_is_last_set`) — never of an earlier one -/
theorem pack_reflects_last_value {α : Type} (c : InstCodec α) (rep : α → Prop) (h : InstLawful c rep)
    (v0 : Option α) (hv0 : Canonical c rep (.construct v0)) (ops : List (Op α))
    (hops : ∀ op ∈ ops, Canonical c rep op) (v : α)
    (hv : (Inst.run c (Inst.new c v0) ops).1.value = some v) :
    ∃ bs, c.pack v = some bs ∧
      ((Inst.run c (Inst.new c v0) ops).1.step c .toBytes).2 = .bytes bs ∧
      ((Inst.run c (Inst.new c v0) ops).1.step c .value).2 = .value v := by
  obtain ⟨bs, hp, hb, _, hval⟩ := good_reports c rep h _
    (good_run c rep h _ (good_new c rep v0 hv0) ops hops) v hv
  exact ⟨bs, hp, hb, hval⟩

/-- **size is the packed length**, after any sequence of canonical operations (a single bit
field excepted, as interpreted above: its size is judged at the cursor) -/
theorem size_is_packed_length {α : Type} (c : InstCodec α) (rep : α → Prop) (h : InstLawful c rep)
    (v0 : Option α) (hv0 : Canonical c rep (.construct v0)) (ops : List (Op α))
    (hops : ∀ op ∈ ops, Canonical c rep op) (v : α)
    (hv : (Inst.run c (Inst.new c v0) ops).1.value = some v) :
    ∃ bs, ((Inst.run c (Inst.new c v0) ops).1.step c .toBytes).2 = .bytes bs ∧
      ((Inst.run c (Inst.new c v0) ops).1.step c .size).2 = .size bs.length := by
  obtain ⟨bs, _, hb, hs, _⟩ := good_reports c rep h _
    (good_run c rep h _ (good_new c rep v0 hv0) ops hops) v hv
  exact ⟨bs, hb, hs⟩

/-- **unpack then pack**: whatever an instance held before (coherent or not), unpacking a buffer
that starts with the packed form `b` of a representable value and packing again gives back
exactly the consumed prefix `b`, with size `|b|` and that value -/
theorem unpack_then_pack {α : Type} (c : InstCodec α) (rep : α → Prop) (h : InstLawful c rep)
    (s : Inst α) (v : α) (b rest : List Byte) (hv : rep v) (hb : c.pack v = some b) :
    ((s.step c (.unpack (b ++ rest))).1.step c .toBytes).2 = .bytes b ∧
    ((s.step c (.unpack (b ++ rest))).1.step c .size).2 = .size b.length ∧
    ((s.step c (.unpack (b ++ rest))).1.step c .value).2 = .value v := by
  obtain ⟨bs, hp, hsz, hu⟩ := h.1 v hv
  rw [hb] at hp
  cases hp
  have hstep : (s.step c (.unpack (b ++ rest))).1 = ⟨some v, b.length⟩ := by
    simp only [Inst.step, hu rest]
  rw [hstep]
  refine ⟨?_, rfl, rfl⟩
  simp only [Inst.step, ← hsz, h.2 v hv, hb]

/-- the one place where the two slots can disagree, as the code has it: a length-prefixed value
unpacked from a buffer SHORTER than its prefix promises packs with the stale prefix (outside the
statement: the buffer does not start with a packed form) -/
theorem var_truncated_witness :
    ((({ value := none, size := 1 } : Inst (List Byte)).step varInst (.unpack [5, 0x41, 0x42])).1.step varInst .toBytes).2
      = .bytes [5, 0x41, 0x42] ∧ varCodec.pack [0x41, 0x42] = some [2, 0x41, 0x42] := by
  decide

/-! #### bit array instance -/

/-- position and content are independent: `unpack` then `next i` and `next i` then `unpack`
leave the same instance — a bit field may be positioned before or after its byte is loaded -/
theorem bit_position_unpack_commute (s : BitInst) (d : List Byte) (i : Nat) :
    ((s.step (.unpack d)).1.step (.next i)).1 = ((s.step (.next i)).1.step (.unpack d)).1 := by
  simp only [BitInst.step]
  cases bitUnpack d <;> rfl

/-- in either order the instance then reports bit `i` of the byte, the cursor size of position
`i`, and packs to the byte -/
theorem bit_inst_reports (s : BitInst) (b : Byte) (rest : List Byte) (i : Nat) :
    (BitInst.run s [.unpack (b :: rest), .next i, .value, .size, .toBytes]).2 =
      [.done, .nextIs (bitNext i), .value (b.toNat.testBit i), .size (bitSize i), .bytes [b]] ∧
    (BitInst.run s [.next i, .unpack (b :: rest), .value, .size, .toBytes]).2 =
      [.nextIs (bitNext i), .done, .value (b.toNat.testBit i), .size (bitSize i), .bytes [b]] := by
  constructor <;> rfl

/-- a constructor index is a position like any other (`BitArray(index=i)` then `unpack`) -/
theorem bit_constructed_position (b : Byte) (rest : List Byte) (i : Nat) (s : BitInst) :
    (BitInst.run s [.construct none i, .unpack (b :: rest), .value, .size]).2 =
      [.done, .done, .value (b.toNat.testBit i), .size (bitSize i)] := rfl

theorem bit_observers_inert (s : BitInst) :
    (s.step .value).1 = s ∧ (s.step .size).1 = s ∧ (s.step .toBytes).1 = s := by
  refine ⟨?_, rfl, ?_⟩ <;> (simp only [BitInst.step]; cases s.raw <;> rfl)

/-! ### tie to the source: struct formats as the interpreter holds them (translator table) -/

/-- every struct-backed class of data_types.py has the format and size the model gives it;
`Float`/`Double` are the 4 / 8-byte little-endian bit patterns -/
theorem struct_formats_table :
    Gen.structFormats.all (fun (name, fmt, sz) =>
      match IntTy.ofName name with
      | some t => fmt == t.format && sz == t.size
      | none => (name == "Float" && fmt == "<f" && sz == 4) || (name == "Double" && fmt == "<d" && sz == 8))
      = true
    ∧ Gen.structFormats.map (·.1) =
      ["SignedChar", "UnsignedChar", "Short", "UnsignedShort", "Int", "UnsignedInt",
       "Float", "Double", "Int64", "UInt64"] := by
  decide

/-- the format letters mean what the model types say (signedness and width of `struct`) -/
theorem format_meaning (t : IntTy) :
    t.format = String.ofList ['<', (match t.signed, t.size with
      | true, 1 => 'b' | false, 1 => 'B' | true, 2 => 'h' | false, 2 => 'H'
      | true, 4 => 'i' | false, 4 => 'I' | true, _ => 'q' | false, _ => 'Q')] := by
  cases t <;> decide

/-! ### non-vacuity: concrete values that meet the hypotheses -/

example : (intCodec .i16).pack (-2) = some [0xfe, 0xff] ∧
    (intCodec .i16).unpack [0xfe, 0xff, 0x99] = some (-2, 2) := by decide
example : (intCodec .i64).pack (-9223372036854775808) = some [0, 0, 0, 0, 0, 0, 0, 0x80] := by decide
example : (intCodec .u8).pack 256 = none ∧ (intCodec .i8).pack (-129) = none := by decide
example : floatCodec.pack 0x3f800000 = some [0, 0, 0x80, 0x3f] := by decide
/-- "é" is two bytes: size 3 with the terminator, not 2 (what D14 broke) -/
example : stringCodec.size [0xc3, 0xa9] = 3 ∧ stringCodec.pack [0xc3, 0xa9] = some [0xc3, 0xa9, 0] ∧
    stringCodec.unpack [0xc3, 0xa9, 0, 0x41] = some ([0xc3, 0xa9], 3) := by decide
example : varCodec.pack [0xc3, 0xa9] = some [2, 0xc3, 0xa9] ∧
    varCodec.unpack [2, 0xc3, 0xa9, 0x41] = some ([0xc3, 0xa9], 3) := by decide
example : ipv4Codec.unpack [192, 168, 1, 2, 7] = some ([192, 168, 1, 2], 4) := by decide
/-- ten bit fields then a two-byte field: bits from bytes 1 and 2, the field starts at byte 3 -/
example : runFields [0xaa, 0x81, 0x02, 0x34, 0x12] (List.replicate 10 .bit ++ [.other 2]) ⟨1, 0⟩ =
    some ([.bitVal true, .bitVal false, .bitVal false, .bitVal false, .bitVal false, .bitVal false,
      .bitVal false, .bitVal true, .bitVal false, .bitVal true, .startsAt 3], ⟨5, 0⟩) := by decide

/-- a re-used Short: pack, unpack another value, pack again -/
example : (Inst.run (intInst .i16) (Inst.new (intInst .i16) (some 5))
    [.toBytes, .unpack [0xfe, 0xff, 0x07], .toBytes, .size, .value]).2 =
    [.bytes [5, 0], .done, .bytes [0xfe, 0xff], .size 2, .value (-2)] := by decide

end PlumVerif.C19

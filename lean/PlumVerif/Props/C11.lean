import PlumVerif.Proofs.ConnClose
import PlumVerif.Proofs.ConnTime
import PlumVerif.Proofs.ConnFrames
/-
C11 — connection loss is detected, announced once, and fully recovered by reconnect.

Property theorems about the connection machine `PlumVerif.Conn` (Model/Conn.lean); helper
lemmas and the bookkeeping invariant live in Proofs/Conn.lean.  `Reachable s` quantifies over
every configuration, every open script and EVERY list of micro events (external events, timer
firings and task resumptions in any order), so the statements hold for all fault points and
all schedules, not just the scheduler the harness exercises.
-/
set_option linter.unusedSimpArgs false

namespace PlumVerif.C11
open PlumVerif.Conn

/-! ### the constants are the ones of the statement -/

theorem startMaster_eq : startMaster = 25 := by decide
theorem timeouts_eq : readerTO = 10000 ∧ writerTO = 10000 ∧ connectTO = 5000 ∧ reconnectTO = 20000 := by decide

/-! ### no growth of background tasks -/

/-- **no growth**: in every reachable state the protocol / connection tasks number at most two
(the producer; or the loss handler, which is two task objects while it runs the reconnect
callback under `asyncio.gather`; or one `_reconnect` task) plus the configured consumers; all
other tasks belong to devices.  Whatever the number of loss / reconnect cycles. -/
theorem tasks_bounded {s : St} (h : Reachable s) : tasks s ≤ 2 + s.cfg + deviceTasks s := by
  have hi := h.inv
  have h1 := infra_le_two hi
  have h2 := hi.cons_le
  unfold tasks
  omega

/-- while connected: exactly the producer (or the loss handler that replaces it), at most
`consumers_count` consumers, and device tasks -/
theorem tasks_connected {s : St} (h : Reachable s) (hc : s.connected = true) :
    tasks s ≤ 1 + s.cfg + deviceTasks s := by
  have hi := h.inv
  have h1 := infra_connected hi hc
  have h2 := hi.cons_le
  unfold tasks
  omega

/-! ### detection: every kind of I/O failure, at any point, ends the producer and schedules
one loss handling -/

/-- what "the failure was detected" means: the (only) producer is gone and exactly one
`connection_lost` task has been created -/
def Detected (s s' : St) : Prop :=
  s.producers = 1 ∧ s.lostPending = false ∧ s'.producers = 0 ∧ s'.lostPending = true ∧ s'.connected = true

theorem producer_alive {s : St} (h : Reachable s) (hp : s.producers > 0) :
    s.connected = true ∧ s.producers = 1 ∧ s.lostPending = false := by
  have hi := h.inv
  have hc : s.connected = true := by
    cases hc : s.connected
    · have := hi.disc_prod hc; omega
    · rfl
  have h1 := hi.conn_prod hc
  cases hl : s.lostPending
  · simp [hl] at h1; exact ⟨hc, h1, rfl⟩
  · simp [hl] at h1; omega

/-- end of stream or an OS error while reading -/
theorem read_error_detected {s : St} (h : Reachable s) (hcl : isDone s.closing = false)
    (hp : s.producers > 0) (hr : isReading s.pphase = true) : Detected s (step s .readFault).1 := by
  obtain ⟨hc, h1, hl⟩ := producer_alive h hp
  simp [step, stepDone, stepLive, hcl, hp, hr, prodFault, Detected, h1, hl, hc]

/-- no data within the read timeout (the timer of the read in progress fires) -/
theorem read_timeout_detected {s : St} (h : Reachable s) (hcl : isDone s.closing = false)
    (hp : s.producers > 0) (dl : Nat) (hr : s.pphase = .reading dl) (hdue : dl ≤ s.now) :
    Detected s (step s (.tick .readTO)).1 := by
  obtain ⟨hc, h1, hl⟩ := producer_alive h hp
  have : ¬ s.now < dl := by omega
  simp [step, stepDone, stepLive, hcl, fire, deadline?, hp, hr, this, prodFault, Detected, h1, hl, hc]

/-- the write of a queued frame does not complete within the write timeout -/
theorem write_timeout_detected {s : St} (h : Reachable s) (hcl : isDone s.closing = false)
    (hp : s.producers > 0) (dl : Nat) (hr : s.pphase = .writing dl) (hdue : dl ≤ s.now) :
    Detected s (step s (.tick .writeTO)).1 := by
  obtain ⟨hc, h1, hl⟩ := producer_alive h hp
  have : ¬ s.now < dl := by omega
  have hl' := same_latch (prodFault s).1
  have e : (step s (.tick .writeTO)).1 = latch (prodFault s).1 := by
    simp [step, stepDone, stepLive, hcl, fire, deadline?, hp, hr, this]
  rw [e]
  refine ⟨h1, hl, ?_, ?_, ?_⟩
  · rw [hl'.producers]; simp [prodFault, h1]
  · rw [hl'.lostPending]; rfl
  · rw [hl'.connected]; exact hc

/-- an OS error while writing a queued frame (when the next frame arrives and the producer
turns to the write queue) -/
theorem write_error_detected {s : St} (h : Reachable s) (hcl : isDone s.closing = false)
    (hp : s.producers > 0) (hr : isReading s.pphase = true)
    (k : Nat) (rest : List Nat) (hq : s.writeQ = k :: rest) (tid : Nat) (hw : s.writer = some tid)
    (hd : s.wdrain = .raise) (f : Feed) : Detected s (step s (.feed f)).1 := by
  obtain ⟨hc, h1, hl⟩ := producer_alive h hp
  have hl' := same_latch (prodIO' s).1
  have hio : (prodIO' s).1 = (prodFault { s with writeQ := rest }).1 := by
    simp [prodIO', hq, hw, hd]
  have hfr : ∀ x : St, x = (step s (.feed f)).1 →
      x.producers = (prodIO s).1.producers ∧ x.lostPending = (prodIO s).1.lostPending ∧ x.connected = (prodIO s).1.connected := by
    intro x hx
    have e : (step s (.feed f)).1 = (feed s f).1 := by simp [step, stepDone, stepLive, hcl]
    rw [hx, e]
    simp only [feed, h1, hr]
    simp only [Nat.succ_ne_self, Bool.not_true, Bool.false_eq_true, or_self, ↓reduceIte]
    split <;> exact ⟨rfl, rfl, rfl⟩
  obtain ⟨f1, f2, f3⟩ := hfr _ rfl
  refine ⟨h1, hl, ?_, ?_, ?_⟩
  · rw [f1]; show (latch (prodIO' s).1).producers = 0
    rw [hl'.producers, hio]; simp [prodFault, h1]
  · rw [f2]; show (latch (prodIO' s).1).lostPending = true
    rw [hl'.lostPending, hio]; rfl
  · rw [f3]; show (latch (prodIO' s).1).connected = true
    rw [hl'.connected, hio]; exact hc

/-! ### handling: announced once, closed once, reconnect invoked once -/

/-- **first half of the loss handling** (`connection_lost` runs): the flag is cleared first
(every callback sees `connected` already cleared: third component `false`), then every known
device is told `connected=False` exactly once (the list of such outputs is exactly one entry
per device of the device map, in order); the handler is no longer pending -/
theorem loss_announced_once {s : St} (h : Reachable s) (hcl : early s.closing = true) (hl : s.lostPending = true) :
    (step s .lostRun).1.lostPending = false ∧
    (step s .lostRun).2.filter isAnnFalse = (published s).map (fun d => Out.ann d.addr false false) ∧
    (published s ≠ [] → (step s .lostRun).1.connected = false ∧ (step s .lostRun).1.lostMid = true) := by
  have hi := h.inv
  have hnd : isDone s.closing = false := by cases hc : s.closing <;> simp_all [early, isDone]
  have hc : s.connected = true := by
    cases hc : s.connected
    · have := hi.disc_lp hc; simp [this] at hl
    · rfl
  have hfl : (annAll { s with lostPending := false, connected := false } false false).filter isAnnFalse
      = (published s).map (fun d => Out.ann d.addr false false) := by
    unfold annAll
    show List.filter isAnnFalse (List.map _ (published s)) = _
    induction published s with
    | nil => rfl
    | cons d ds ih => simp [List.filter_cons, isAnnFalse, ih]
  simp only [step, stepDone, stepLive, hnd, lostRun, hl, hc]
  simp only [Bool.false_eq_true, ↓reduceIte, Bool.not_true]
  split
  · rename_i hemp
    obtain ⟨tid, htid⟩ : ∃ tid, s.writer = some tid := by
      have := (h.winv hcl (Or.inl hc)).1
      exact Option.isSome_iff_exists.mp this
    obtain ⟨_, _, c3, _⟩ := lostFinish_counts { s with lostPending := false, connected := false } tid htid
    have hnil : (lostFinish { s with lostPending := false, connected := false }).2.filter isAnnFalse = [] := by
      rw [List.filter_eq_nil_iff]
      intro a ha
      unfold nAnnFalse at c3
      rw [List.countP_eq_zero] at c3
      exact c3 a ha
    refine ⟨?_, ?_, ?_⟩
    · exact (samep_lostFinish _).lostPending
    · rw [List.filter_append, hfl, hnil, List.append_nil]
    · intro hne
      simp only [List.isEmpty_iff] at hemp
      exact absurd hemp hne
  · exact ⟨rfl, hfl, fun _ => ⟨rfl, rfl⟩⟩

/-- **second half of the loss handling** (after the callbacks returned; `lostRun2`, or the same
step when there is no device): the transport of the lost connection is closed exactly once, and
the reconnect routine is invoked exactly once - at once, or when `wait_closed()` has timed out
(`reconnect_after_close_timeout`) - if reconnecting is enabled -/
theorem loss_closes_and_reconnects_once {s : St} (h : Reachable s) (hcl : early s.closing = true)
    (hm : s.lostMid = true) :
    ∃ tid, s.writer = some tid ∧
      (step s .lostRun2).2.filter isWclose = [.wclose tid] ∧
      nOpen (step s .lostRun2).2 = (if closeHangs s then 0 else if s.rcOn then 1 else 0) ∧
      nAnnFalse (step s .lostRun2).2 = 0 ∧
      (step s .lostRun2).1.lostMid = false := by
  have hnd : isDone s.closing = false := by cases hc : s.closing <;> simp_all [early, isDone]
  obtain ⟨tid, htid⟩ : ∃ tid, s.writer = some tid :=
    Option.isSome_iff_exists.mp (h.winv hcl (Or.inr hm)).1
  obtain ⟨c1, _, c3, c4⟩ := lostFinish_counts { s with lostMid := false } tid htid
  refine ⟨tid, htid, ?_⟩
  simp only [step, stepDone, stepLive, hnd, lostRun2, hm]
  simp only [Bool.false_eq_true, ↓reduceIte, Bool.not_true]
  exact ⟨c1, c4, c3, (samep_lostFinish _).lostMid⟩

/-- the reconnect routine is invoked (exactly once) when the hung `wait_closed()` times out -/
theorem reconnect_after_close_timeout {s : St} (hnd : isDone s.closing = false) (dl : Nat)
    (hr : s.recon = .wclosing dl) (hdue : dl ≤ s.now) :
    nOpen (step s (.tick .wcloseTO)).2 = (if s.rcOn then 1 else 0) ∧ nWclose (step s (.tick .wcloseTO)).2 = 0 := by
  have : ¬ s.now < dl := by omega
  have rc := reconnectInvoke_counts { s with recon := .idle, writer := none }
  simp only [step, stepDone, stepLive, hnd, fire, deadline?, hr, this]
  exact ⟨rc.1, rc.2.2.1⟩

/-! ### exactly one close per loss, over whole histories -/

/-- outputs of a run, without the time stamps -/
def outs (r : St × List (Nat × Out)) : List Out := r.2.map (·.2)

theorem outs_run_cons (s : St) (e : Ev) (es : List Ev) :
    outs (run s (e :: es)) = (step s e).2 ++ outs (run (step s e).1 es) := by
  simp [outs, run, List.map_append, List.map_map, Function.comp_def]

/-- **exactly once per loss, for all fault sequences and schedules**: along any run without
close(), the number of I/O faults that ended a producer equals the number of transport closes
plus the loss handlings still in flight at the end (`pend ≤ 1`).  So no loss is handled twice
(no second close), and none is dropped. -/
theorem one_close_per_loss {s : St} (h : Reachable s) (hcl : s.closing = .no) (es : List Ev)
    (hne : Ev.close ∉ es) :
    nFault (outs (run s es)) + pend s = nWclose (outs (run s es)) + pend (run s es).1 ∧
    (run s es).1.closing = .no := by
  induction es generalizing s with
  | nil => exact ⟨rfl, hcl⟩
  | cons e es ih =>
    have hne1 : e ≠ .close := fun he => hne (he ▸ List.mem_cons_self ..)
    have hne2 : Ev.close ∉ es := fun he => hne (List.mem_cons_of_mem _ he)
    have b := step_balance h.inv h.winv hcl e hne1
    have hr : Reachable (step s e).1 := by
      have := h.run [e]; simpa [run] using this
    obtain ⟨i1, i2⟩ := ih hr (by rw [b.closing, hcl]) hne2
    refine ⟨?_, by simpa [run] using i2⟩
    rw [outs_run_cons, nFault_append, nWclose_append]
    have hb := b.bal
    have : (run s (e :: es)).1 = (run (step s e).1 es).1 := by simp [run]
    rw [this]
    omega

/-- at most one loss handling is in flight -/
theorem pend_le_one {s : St} (h : Reachable s) : pend s ≤ 1 := by
  have hi := h.inv
  unfold pend
  cases hc : s.connected
  · simp [hi.disc_lp hc]; split <;> omega
  · simp [hi.conn_mid hc]; split <;> omega

/-- from a fresh connection object: closes ≤ faults ≤ closes + 1 at every moment -/
theorem closes_match_faults (cfg : Nat) (rc : Bool) (sc : List OpenRes) (es : List Ev) (hne : Ev.close ∉ es) :
    nWclose (outs (run (init cfg rc sc) es)) ≤ nFault (outs (run (init cfg rc sc) es)) ∧
    nFault (outs (run (init cfg rc sc) es)) ≤ nWclose (outs (run (init cfg rc sc) es)) + 1 := by
  have hr : Reachable (init cfg rc sc) := ⟨cfg, rc, sc, [], rfl⟩
  have h1 := (one_close_per_loss hr rfl es hne).1
  have h2 := pend_le_one (hr.run es)
  have h0 : pend (init cfg rc sc) = 0 := rfl
  omega


/-- nothing but `connect()`, the loss handler, the back-off timer and `shutdown()` ever closes a
transport, calls `_open_connection`, or tells a device connected=False -/
theorem loss_effects_only_from_loss_handling (s : St) (e : Ev)
    (h : e ≠ .connect ∧ e ≠ .lostRun ∧ e ≠ .lostRun2 ∧ e ≠ .shutdownRun ∧ e ≠ .tick .wcloseTO ∧ e ≠ .tick .backoffEnd) :
    nWclose (step s e).2 = 0 ∧ nOpen (step s e).2 = 0 ∧ nAnnFalse (step s e).2 = 0 :=
  calm_step s e h

/-! ### reconnect with back-off until success -/

/-- a failing attempt (OSError) of the reconnect routine: exactly one `_open_connection` call,
then back-off for RECONNECT_TIMEOUT (`timeouts_eq`: 20 s) -/
theorem failed_open_backs_off (s : St) (o : Owner) (rest : List OpenRes) (hs : s.script = .err :: rest)
    (ho : ¬ (o = .user ∧ s.rcOn = false)) :
    (doOpen s o).1.recon = .backoff (s.now + reconnectTO) o ∧ (doOpen s o).2 = [.openCall 1] ∧
    (doOpen s o).1.script = rest := by
  have : ¬ (o = .user ∧ (!s.rcOn) = true) := by simpa using ho
  simp [doOpen, popScript, hs, openFailed, ho]

/-- an attempt that hangs is abandoned after CONNECT_TIMEOUT and then backs off the same way -/
theorem hung_open_times_out (s : St) (o : Owner) (rest : List OpenRes) (hs : s.script = .hang :: rest) :
    (doOpen s o).1.recon = .attempting (s.now + connectTO) o ∧ (doOpen s o).2 = [.openCall 2] ∧
    (doOpen s o).1.script = rest := by
  simp [doOpen, popScript, hs]

theorem open_timeout_backs_off (s : St) (hnd : isDone s.closing = false) (dl : Nat) (o : Owner)
    (hr : s.recon = .attempting dl o) (hdue : dl ≤ s.now) (ho : ¬ (o = .user ∧ s.rcOn = false)) :
    (step s (.tick .openTO)).1.recon = .backoff (s.now + reconnectTO) o := by
  have h1 : ¬ s.now < dl := by omega
  have h2 : ¬ (o = .user ∧ (!s.rcOn) = true) := by simpa using ho
  simp [step, stepDone, stepLive, hnd, fire, deadline?, hr, h1, openFailed, ho]

/-- no retry before the back-off interval has elapsed ... -/
theorem no_retry_during_backoff (s : St) (dl : Nat) (o : Owner) (hr : s.recon = .backoff dl o) (hearly : s.now < dl) :
    step s (.tick .backoffEnd) = (s, []) := by
  unfold step stepDone stepLive
  split
  · rfl
  · simp [fire, deadline?, hr, hearly]

/-- ... and when it has, the routine is run again by a `Connection` task: one more
`_open_connection` call (which succeeds, fails or hangs as the script says) -/
theorem backoff_end_retries (s : St) (hnd : isDone s.closing = false) (dl : Nat) (o : Owner)
    (hr : s.recon = .backoff dl o) (hdue : dl ≤ s.now) :
    step s (.tick .backoffEnd) = doOpen { s with recon := .idle } .conn ∧
    nOpen (step s (.tick .backoffEnd)).2 = 1 := by
  have h1 : ¬ s.now < dl := by omega
  have e : step s (.tick .backoffEnd) = doOpen { s with recon := .idle } .conn := by
    simp [step, stepDone, stepLive, hnd, fire, deadline?, hr, h1]
  exact ⟨e, by rw [e]; exact (doOpen_counts _ _).1⟩

/-- the clock cannot run past a pending back-off deadline: `advance` refuses to skip it -/
theorem clock_waits_for_backoff (s : St) (hnd : isDone s.closing = false) (dl : Nat) (o : Owner)
    (hr : s.recon = .backoff dl o) (dt : Nat) :
    (step s (.advance dt)).1.now = s.now ∨ (step s (.advance dt)).1.now ≤ dl := by
  simp only [step, stepDone, stepLive, hnd, Bool.false_eq_true, ↓reduceIte]
  split
  · rename_i hall
    right
    rw [List.all_eq_true] at hall
    have hmem : dl ∈ deadlines s := by
      unfold deadlines
      rw [List.mem_filterMap]
      exact ⟨.backoffEnd, by simp [timers], by simp [deadline?, hr]⟩
    simpa using hall dl hmem
  · left; rfl

/-- **the retry happens exactly when the back-off interval has elapsed**: in every reachable
state, if the back-off timer fires and the routine calls `_open_connection`, the time is the
back-off deadline (failure time + RECONNECT_TIMEOUT) - not earlier (`no_retry_during_backoff`),
not later (the clock waits for it) -/
theorem retry_exactly_after_backoff {s : St} (h : Reachable s) (hnd : isDone s.closing = false) (dl : Nat) (o : Owner)
    (hr : s.recon = .backoff dl o) (hfire : nOpen (step s (.tick .backoffEnd)).2 ≠ 0) : s.now = dl := by
  have hle : s.now ≤ dl := h.rinv hnd dl (by rw [hr]; rfl)
  by_cases hlt : s.now < dl
  · rw [no_retry_during_backoff s dl o hr hlt] at hfire
    simp [nOpen] at hfire
  · omega

/-! ### re-establishment -/

/-- **re-establishment**: a successful open sets the flag, queues a start-master request
(behind whatever is still queued), starts one producer, tops the consumers up to the configured
number, tells every known device connected=True (flag already set) and leaves the device map as
it was -/
theorem reestablished (s : St) (o : Owner) (dm cm : Mode) (rest : List OpenRes)
    (hs : s.script = .ok dm cm :: rest) (hc : s.consumers ≤ s.cfg) :
    let r := doOpen s o
    r.1.connected = true ∧ r.1.writeQ = s.writeQ ++ [25] ∧ r.1.devices = s.devices ∧
    r.1.producers = s.producers + 1 ∧ r.1.consumers = s.cfg ∧ r.1.recon = .idle ∧
    r.1.writer = some s.nextTid ∧ r.1.wopen = true ∧
    r.2 = .openCall 0 :: (published s).map (fun d => Out.ann d.addr true true) ∧
    r.1.script = rest ∧ r.1.now = s.now := by
  simp only [doOpen, popScript, hs, establish, annAll, startMaster_eq, published]
  simp
  omega

/-- the new producer sends the head of the write queue on the new transport at once; if nothing
was left over from before, that is the start-master request -/
theorem start_master_sent_first (s : St) (hnd : isDone s.closing = false) (hp : s.producers > 0)
    (hph : s.pphase = .starting) (tid : Nat) (hw : s.writer = some tid) (hq : s.writeQ = [25]) :
    (step s .prodStart).2.head? = some (.tx tid 25) := by
  have e : (step s .prodStart) = prodIO s := by simp [step, stepDone, stepLive, hnd, hp, hph]
  rw [e]
  simp only [prodIO, prodIO', hq, hw]
  split <;> rfl

/-- the write queue is FIFO: every pass of the producer sends exactly the head, so a
start-master request queued behind `n` older requests goes out as the `n+1`-th frame of the
new transport -/
theorem producer_sends_head (s : St) (k : Nat) (rest : List Nat) (tid : Nat) (hq : s.writeQ = k :: rest)
    (hw : s.writer = some tid) :
    (prodIO s).2.head? = some (.tx tid k) ∧ (prodIO s).1.writeQ = rest := by
  have hl : ∀ x : St, (latch x).writeQ = x.writeQ := by
    intro x; unfold latch; split
    · split <;> rfl
    · rfl
  simp only [prodIO, hl]
  simp only [prodIO', hq, hw]
  split <;> exact ⟨rfl, rfl⟩

/-- a producer that is reading, on a transport that accepts writes -/
structure Sending (s : St) (tid : Nat) : Prop where
  notDone : isDone s.closing = false
  prod : s.producers > 0
  reading : isReading s.pphase = true
  drain : s.wdrain = .ok
  writer : s.writer = some tid

theorem sending_feed {s : St} {tid : Nat} (h : Sending s tid) (k : Nat) (rest : List Nat) (hq : s.writeQ = k :: rest) :
    (step s (.feed .foreign)).2 = [.tx tid k] ∧ (step s (.feed .foreign)).1.writeQ = rest ∧
    Sending (step s (.feed .foreign)).1 tid := by
  have hp0 : s.producers ≠ 0 := by have := h.prod; omega
  have hio : prodIO' s = ({ s with writeQ := rest, pphase := .reading (s.now + readerTO) }, [.tx tid k]) := by
    simp [prodIO', hq, h.writer, h.drain]
  have e : step s (.feed .foreign) = (latch { s with writeQ := rest, pphase := .reading (s.now + readerTO) }, [.tx tid k]) := by
    simp [step, stepDone, stepLive, h.notDone, feed, hp0, h.reading, prodIO, hio, Feed.addr?]
  rw [e]
  have hl := same_latch { s with writeQ := rest, pphase := .reading (s.now + readerTO) }
  have hfield : ∀ x : St, (latch x).writeQ = x.writeQ ∧ (latch x).pphase = x.pphase ∧ (latch x).wdrain = x.wdrain ∧
      (latch x).writer = x.writer ∧ (isDone x.closing = false → isDone (latch x).closing = false) := by
    intro x; unfold latch; split
    · split
      · exact ⟨rfl, rfl, rfl, rfl, fun _ => rfl⟩
      · exact ⟨rfl, rfl, rfl, rfl, id⟩
    · exact ⟨rfl, rfl, rfl, rfl, id⟩
  obtain ⟨f1, f2, f3, f4, f5⟩ := hfield { s with writeQ := rest, pphase := .reading (s.now + readerTO) }
  refine ⟨rfl, f1, ⟨f5 h.notDone, ?_, ?_, ?_, ?_⟩⟩
  · rw [hl.producers]; exact h.prod
  · rw [f2]; rfl
  · rw [f3]; exact h.drain
  · rw [f4]; exact h.writer

/-- one write per received frame, in queue order -/
theorem writes_in_order : ∀ (q : List Nat) (s : St) (tid : Nat), Sending s tid → s.writeQ = q →
    outs (run s (List.replicate q.length (.feed .foreign))) = q.map (fun k => Out.tx tid k) ∧
    (run s (List.replicate q.length (.feed .foreign))).1.writeQ = []
  | [], s, tid, _, hq => ⟨rfl, hq⟩
  | k :: rest, s, tid, h, hq => by
    obtain ⟨o1, o2, o3⟩ := sending_feed h k rest hq
    obtain ⟨i1, i2⟩ := writes_in_order rest (step s (.feed .foreign)).1 tid o3 o2
    simp only [List.length_cons, List.replicate_succ, List.map_cons]
    constructor
    · rw [outs_run_cons, o1, i1]; rfl
    · simpa [run] using i2

/-- **the start-master request IS sent after re-establishment, with the bound**: with `k`
requests left over from before (queued ahead of it, `reestablished`), the new producer writes
one of them at once and one per frame received afterwards; the start-master request goes out
on the new transport when the `k`-th frame after the re-establishment arrives - as the `k+1`-th
frame of that transport, after exactly the left-over requests, in order -/
theorem start_master_sent_after_k_frames (s : St) (tid : Nat) (q : List Nat) (hnd : isDone s.closing = false)
    (hp : s.producers > 0) (hph : s.pphase = .starting) (hd : s.wdrain = .ok) (hw : s.writer = some tid)
    (hq : s.writeQ = q ++ [25]) :
    outs (run s (.prodStart :: List.replicate q.length (.feed .foreign))) = (q ++ [25]).map (fun k => Out.tx tid k) := by
  obtain ⟨k, rest, hkr⟩ : ∃ k rest, q ++ [25] = k :: rest := by
    cases q with
    | nil => exact ⟨25, [], rfl⟩
    | cons a b => exact ⟨a, b ++ [25], rfl⟩
  have hlen : rest.length = q.length := by
    have := congrArg List.length hkr
    simp at this; omega
  have hq' : s.writeQ = k :: rest := by rw [hq, hkr]
  have hio : prodIO' s = ({ s with writeQ := rest, pphase := .reading (s.now + readerTO) }, [.tx tid k]) := by
    simp [prodIO', hq', hw, hd]
  have e : step s .prodStart = (latch { s with writeQ := rest, pphase := .reading (s.now + readerTO) }, [.tx tid k]) := by
    simp [step, stepDone, stepLive, hnd, hp, hph, prodIO, hio]
  have hfield : ∀ x : St, (latch x).writeQ = x.writeQ ∧ (latch x).pphase = x.pphase ∧ (latch x).wdrain = x.wdrain ∧
      (latch x).writer = x.writer ∧ (isDone x.closing = false → isDone (latch x).closing = false) := by
    intro x; unfold latch; split
    · split
      · exact ⟨rfl, rfl, rfl, rfl, fun _ => rfl⟩
      · exact ⟨rfl, rfl, rfl, rfl, id⟩
    · exact ⟨rfl, rfl, rfl, rfl, id⟩
  obtain ⟨f1, f2, f3, f4, f5⟩ := hfield { s with writeQ := rest, pphase := .reading (s.now + readerTO) }
  have hl := same_latch { s with writeQ := rest, pphase := .reading (s.now + readerTO) }
  have hs : Sending (step s .prodStart).1 tid := by
    rw [e]
    exact ⟨f5 hnd, by rw [hl.producers]; exact hp, by rw [f2]; rfl, by rw [f3]; exact hd, by rw [f4]; exact hw⟩
  have hwq : (step s .prodStart).1.writeQ = rest := by rw [e]; exact f1
  obtain ⟨i1, _⟩ := writes_in_order rest (step s .prodStart).1 tid hs hwq
  rw [outs_run_cons, e, ← hlen]
  rw [e] at i1
  rw [i1, hkr]; rfl

/-! ### retried until one succeeds -/

/-- what the modelled scheduler does while the reconnect routine keeps failing: wait for the
back-off deadline, let the timer fire -/
def retryEvs : List Nat → List Ev
  | [] => []
  | w :: ws => .advance w :: .tick .backoffEnd :: retryEvs ws

/-- one round: the clock reaches the back-off deadline, the timer fires, the routine runs -/
theorem retry_round {s : St} (h : Reachable s) (he : early s.closing = true) (dl : Nat) (o : Owner)
    (hr : s.recon = .backoff dl o) (hns : NoSetupTimers s) :
    (run s [.advance (dl - s.now), .tick .backoffEnd]).1 = (doOpen { s with now := dl, recon := .idle } .conn).1 ∧
    outs (run s [.advance (dl - s.now), .tick .backoffEnd]) = (doOpen { s with now := dl, recon := .idle } .conn).2 := by
  have hnd : isDone s.closing = false := by cases hc : s.closing <;> simp_all [early, isDone]
  have hle : s.now ≤ dl := h.rinv hnd dl (by rw [hr]; rfl)
  have hi := h.inv
  have hdc : s.connected = false := by
    cases hc : s.connected
    · rfl
    · have := hi.conn_recon hc; rw [hr] at this; cases this
  have hp := hi.disc_prod hdc
  have e1 : step s (.advance (dl - s.now)) = ({ s with now := s.now + (dl - s.now) }, []) := by
    apply advance_ok s _ hnd
    intro k d hk
    cases k with
    | readTO => simp [deadline?, hp] at hk
    | writeTO => simp [deadline?, hp] at hk
    | wcloseTO => simp [deadline?, hr] at hk
    | openTO => simp [deadline?, hr] at hk
    | backoffEnd =>
      simp only [deadline?, hr] at hk
      have : dl = d := by simpa using hk
      omega
    | setup a => rw [setup_timer_none hns a] at hk; simp at hk
    | cwcloseTO => cases hc : s.closing <;> simp_all [deadline?, early]
  have hnow : s.now + (dl - s.now) = dl := by omega
  rw [hnow] at e1
  have e2 := (backoff_end_retries { s with now := dl } hnd dl o hr (Nat.le_refl _)).1
  constructor
  · simp only [run, e1]; rw [e2]
  · simp only [outs, run, e1, e2, List.map_nil, List.nil_append, List.append_nil, List.map_map]
    simp [Function.comp_def]

theorem retryEvs_cons (w : Nat) (ws : List Nat) :
    retryEvs (w :: ws) = [.advance w, .tick .backoffEnd] ++ retryEvs ws := rfl

/-- **retried until one succeeds**: with `k` more failing attempts scripted before a successful
one, the routine calls `_open_connection` `k+1` more times, RECONNECT_TIMEOUT apart (each at a
back-off deadline), and the connection is re-established `k · RECONNECT_TIMEOUT` after the
pending back-off ends -/
theorem retry_until_success (dm cm : Mode) (rest : List OpenRes) :
    ∀ (k : Nat) (s : St) (dl : Nat) (o : Owner), Reachable s → early s.closing = true → s.recon = .backoff dl o →
    NoSetupTimers s → s.script = List.replicate k .err ++ (.ok dm cm :: rest) →
    (run s (retryEvs ((dl - s.now) :: List.replicate k reconnectTO))).1.connected = true ∧
    (run s (retryEvs ((dl - s.now) :: List.replicate k reconnectTO))).1.script = rest ∧
    (run s (retryEvs ((dl - s.now) :: List.replicate k reconnectTO))).1.now = dl + k * reconnectTO ∧
    nOpen (outs (run s (retryEvs ((dl - s.now) :: List.replicate k reconnectTO)))) = k + 1 := by
  intro k
  induction k with
  | zero =>
    intro s dl o h he hr hns hsc
    obtain ⟨r1, r2⟩ := retry_round h he dl o hr hns
    have hsa : ({ s with now := dl, recon := .idle } : St).script = .ok dm cm :: rest := by simpa using hsc
    have hev : retryEvs ((dl - s.now) :: List.replicate 0 reconnectTO) = [.advance (dl - s.now), .tick .backoffEnd] := rfl
    rw [hev, r1, r2]
    have hre := reestablished { s with now := dl, recon := .idle } .conn dm cm rest hsa h.inv.cons_le
    simp only at hre
    obtain ⟨c1, _, _, _, _, _, _, _, _, c10, c11⟩ := hre
    exact ⟨c1, c10, by rw [c11]; simp, (doOpen_counts _ _).1⟩
  | succ k ih =>
    intro s dl o h he hr hns hsc
    obtain ⟨r1, r2⟩ := retry_round h he dl o hr hns
    have hsa : ({ s with now := dl, recon := .idle } : St).script = .err :: (List.replicate k .err ++ (.ok dm cm :: rest)) := by
      simpa [List.replicate_succ] using hsc
    have hfail := failed_open_backs_off { s with now := dl, recon := .idle } .conn _ hsa (by simp)
    obtain ⟨f1, f2, f3⟩ := hfail
    have hev : retryEvs ((dl - s.now) :: List.replicate (k + 1) reconnectTO)
        = [.advance (dl - s.now), .tick .backoffEnd] ++ retryEvs (reconnectTO :: List.replicate k reconnectTO) := by
      rw [List.replicate_succ]; rfl
    let a := (run s [.advance (dl - s.now), .tick .backoffEnd]).1
    have ha : a = (doOpen { s with now := dl, recon := .idle } .conn).1 := r1
    have hra : Reachable a := h.run _
    have hanow : a.now = dl := by
      rw [ha]; exact (rs_doOpen _ _).now
    have harec : a.recon = .backoff (dl + reconnectTO) .conn := by rw [ha]; exact f1
    have hacl : early a.closing = true := by
      rw [ha, (samep_doOpen _ _).closing]; exact he
    have hans : NoSetupTimers a := by
      intro d hd
      have : a.devices = s.devices := by rw [ha]; exact doOpen_devices _ _
      rw [this] at hd; exact hns d hd
    have hasc : a.script = List.replicate k .err ++ (.ok dm cm :: rest) := by rw [ha]; exact f3
    have hw : dl + reconnectTO - a.now = reconnectTO := by rw [hanow]; omega
    have ih' := ih a (dl + reconnectTO) .conn hra hacl harec hans hasc
    rw [hw] at ih'
    obtain ⟨i1, i2, i3, i4⟩ := ih'
    rw [hev, run_append]
    refine ⟨i1, i2, ?_, ?_⟩
    · rw [i3, Nat.add_mul, Nat.one_mul]; omega
    · have houts : outs (run s ([Ev.advance (dl - s.now), Ev.tick Timer.backoffEnd] ++ retryEvs (reconnectTO :: List.replicate k reconnectTO)))
          = outs (run s [.advance (dl - s.now), .tick .backoffEnd]) ++ outs (run a (retryEvs (reconnectTO :: List.replicate k reconnectTO))) := by
        rw [run_append]; simp [outs, a]
      rw [← run_append, houts, nOpen_append, i4, r2, f2]
      simp [nOpen, isOpenCall]; omega

/-- what the modelled scheduler does while every attempt hangs: wait for the back-off deadline,
the routine calls `_open_connection`, CONNECT_TIMEOUT later the attempt is abandoned -/
def hungEvs : Nat → Nat → List Ev
  | w, 0 => [.advance w, .tick .backoffEnd]
  | w, k + 1 => [.advance w, .tick .backoffEnd, .advance connectTO, .tick .openTO] ++ hungEvs reconnectTO k

/-- **retried until one succeeds, hung attempts**: with `k` more attempts that hang (no answer
within CONNECT_TIMEOUT) scripted before a successful one, the routine calls `_open_connection`
`k+1` more times, each `CONNECT_TIMEOUT + RECONNECT_TIMEOUT` after the previous one, and the
connection is re-established `k · (CONNECT_TIMEOUT + RECONNECT_TIMEOUT)` after the pending back-off ends -/
theorem retry_until_success_hung (dm cm : Mode) (rest : List OpenRes) :
    ∀ (k : Nat) (s : St) (dl : Nat) (o : Owner), Reachable s → early s.closing = true → s.recon = .backoff dl o →
    NoSetupTimers s → s.script = List.replicate k .hang ++ (.ok dm cm :: rest) →
    (run s (hungEvs (dl - s.now) k)).1.connected = true ∧
    (run s (hungEvs (dl - s.now) k)).1.script = rest ∧
    (run s (hungEvs (dl - s.now) k)).1.now = dl + k * (connectTO + reconnectTO) ∧
    nOpen (outs (run s (hungEvs (dl - s.now) k))) = k + 1 := by
  intro k
  induction k with
  | zero =>
    intro s dl o h he hr hns hsc
    obtain ⟨r1, r2⟩ := retry_round h he dl o hr hns
    have hsa : ({ s with now := dl, recon := .idle } : St).script = .ok dm cm :: rest := by simpa using hsc
    have hev : hungEvs (dl - s.now) 0 = [.advance (dl - s.now), .tick .backoffEnd] := rfl
    rw [hev, r1, r2]
    have hre := reestablished { s with now := dl, recon := .idle } .conn dm cm rest hsa h.inv.cons_le
    simp only at hre
    obtain ⟨c1, _, _, _, _, _, _, _, _, c10, c11⟩ := hre
    exact ⟨c1, c10, by rw [c11]; simp, (doOpen_counts _ _).1⟩
  | succ k ih =>
    intro s dl o h he hr hns hsc
    obtain ⟨r1, r2⟩ := retry_round h he dl o hr hns
    have hsa : ({ s with now := dl, recon := .idle } : St).script = .hang :: (List.replicate k .hang ++ (.ok dm cm :: rest)) := by
      simpa [List.replicate_succ] using hsc
    obtain ⟨g1, g2, g3⟩ := hung_open_times_out { s with now := dl, recon := .idle } .conn _ hsa
    have hev : hungEvs (dl - s.now) (k + 1)
        = [.advance (dl - s.now), .tick .backoffEnd] ++ ([.advance connectTO, .tick .openTO] ++ hungEvs reconnectTO k) := rfl
    let a := (run s [.advance (dl - s.now), .tick .backoffEnd]).1
    have ha : a = (doOpen { s with now := dl, recon := .idle } .conn).1 := r1
    have hra : Reachable a := h.run _
    have hanow : a.now = dl := by rw [ha]; exact (rs_doOpen _ _).now
    have harec : a.recon = .attempting (dl + connectTO) .conn := by rw [ha]; exact g1
    have hacl : a.closing = s.closing := by rw [ha, (samep_doOpen _ _).closing]
    have hand : isDone a.closing = false := by rw [hacl]; cases hc : s.closing <;> simp_all [early, isDone]
    have hadev : a.devices = s.devices := by rw [ha]; exact doOpen_devices _ _
    have hans : NoSetupTimers a := by intro d hd; rw [hadev] at hd; exact hns d hd
    have hasc : a.script = List.replicate k .hang ++ (.ok dm cm :: rest) := by
      rw [ha]; exact g3
    have hai := hra.inv
    have hadc : a.connected = false := by
      cases hc : a.connected
      · rfl
      · have := hai.conn_recon hc; rw [harec] at this; cases this
    have hap := hai.disc_prod hadc
    -- the attempt hangs until CONNECT_TIMEOUT
    have e1 : step a (.advance connectTO) = ({ a with now := a.now + connectTO }, []) := by
      apply advance_ok a _ hand
      intro kk d hk
      cases kk with
      | readTO => simp [deadline?, hap] at hk
      | writeTO => simp [deadline?, hap] at hk
      | wcloseTO => simp [deadline?, harec] at hk
      | openTO =>
        simp only [deadline?, harec] at hk
        have : dl + connectTO = d := by simpa using hk
        omega
      | backoffEnd => simp [deadline?, harec] at hk
      | setup x => rw [setup_timer_none hans x] at hk; simp at hk
      | cwcloseTO => rw [← hacl] at he; cases hc : a.closing <;> simp_all [deadline?, early]
    let b : St := { a with now := a.now + connectTO }
    have hbr : b.recon = .attempting (dl + connectTO) .conn := harec
    have hbn : b.now = dl + connectTO := by show a.now + connectTO = _; rw [hanow]
    have e2 := open_timeout_backs_off b hand (dl + connectTO) .conn hbr (by rw [hbn]; exact Nat.le_refl _) (by simp)
    let c := (step b (.tick .openTO)).1
    have hc2 : c = (run a [.advance connectTO, .tick .openTO]).1 := by simp only [run, e1]; rfl
    have hrc : Reachable c := by rw [hc2]; exact hra.run _
    have hcrec : c.recon = .backoff (dl + connectTO + reconnectTO) .conn := by
      show (step b (.tick .openTO)).1.recon = _; rw [e2, hbn]
    have hstep : (step b (.tick .openTO)) = (openFailed { b with recon := .idle } .conn) := by
      have h1 : ¬ b.now < dl + connectTO := by rw [hbn]; omega
      have hbd : isDone b.closing = false := hand
      simp [step, stepDone, stepLive, hbd, fire, deadline?, hbr, h1]
    have hcf : c = (openFailed { b with recon := .idle } .conn).1 := by show (step b (.tick .openTO)).1 = _; rw [hstep]
    have hof : ∀ x : St, (openFailed x .conn).1.now = x.now ∧ (openFailed x .conn).1.closing = x.closing ∧
        (openFailed x .conn).1.devices = x.devices ∧ (openFailed x .conn).1.script = x.script ∧
        nOpen (openFailed x .conn).2 = 0 := by
      intro x; unfold openFailed; split <;> simp [nOpen, isOpenCall]
    obtain ⟨q1, q2, q3, q4, q5⟩ := hof { b with recon := .idle }
    have hcnow : c.now = dl + connectTO := by rw [hcf, q1]; exact hbn
    have hccl : early c.closing = true := by rw [hcf, q2]; show early a.closing = true; rw [hacl]; exact he
    have hcns : NoSetupTimers c := by intro d hd; rw [hcf, q3] at hd; exact hans d hd
    have hcsc : c.script = List.replicate k .hang ++ (.ok dm cm :: rest) := by rw [hcf, q4]; exact hasc
    have hw : dl + connectTO + reconnectTO - c.now = reconnectTO := by rw [hcnow]; omega
    have ih' := ih c (dl + connectTO + reconnectTO) .conn hrc hccl hcrec hcns hcsc
    rw [hw] at ih'
    obtain ⟨i1, i2, i3, i4⟩ := ih'
    have hrunc : (run a ([.advance connectTO, .tick .openTO] ++ hungEvs reconnectTO k)).1 = (run c (hungEvs reconnectTO k)).1 := by
      rw [run_append, ← hc2]
    have houtc : outs (run a ([.advance connectTO, .tick .openTO] ++ hungEvs reconnectTO k))
        = (step b (.tick .openTO)).2 ++ outs (run c (hungEvs reconnectTO k)) := by
      rw [run_append]
      simp only [outs, run, e1, List.map_append, List.map_nil, List.nil_append, List.append_nil, List.map_map]
      simp [Function.comp_def, hc2, run, e1]
      rfl
    rw [hev, run_append]
    refine ⟨?_, ?_, ?_, ?_⟩
    · show (run a _).1.connected = true; rw [hrunc]; exact i1
    · show (run a _).1.script = rest; rw [hrunc]; exact i2
    · show (run a _).1.now = _; rw [hrunc, i3, Nat.add_mul, Nat.one_mul]; omega
    · have houts : outs (run s ([Ev.advance (dl - s.now), Ev.tick Timer.backoffEnd] ++ ([.advance connectTO, .tick .openTO] ++ hungEvs reconnectTO k)))
          = outs (run s [.advance (dl - s.now), .tick .backoffEnd]) ++ outs (run a ([.advance connectTO, .tick .openTO] ++ hungEvs reconnectTO k)) := by
        rw [run_append]; simp [outs, a]
      rw [← run_append, houts, nOpen_append, r2, g2, houtc, nOpen_append, i4, hstep, q5]
      simp [nOpen, isOpenCall]; omega

/-! ### frames reach the same device objects as before -/

/-- **the device map is unchanged by loss and reconnect** (by anything, in fact): along every
run the devices known before stay where they are; new devices are only appended -/
theorem device_map_stable (s : St) (es : List Ev) : addrs s <+: addrs (run s es).1 := addrs_run s es

/-- a frame from a device that is already known creates no second entry: it is delivered to
the existing one -/
theorem known_device_not_recreated (s : St) (a : Nat) (h : hasDev s.devices a = true) :
    (handle s (.pw a)).2 = [.deliver a kindPassword] ∧ addrs (handle s (.pw a)).1 = addrs s := by
  constructor
  · simp [handle, ensureDev, h]
  · show (updDev (ensureDev s.devices a).1 a _).map Dev.addr = s.devices.map Dev.addr
    rw [map_addr_updDev]
    · simp [ensureDev, h]
    · intro d; rfl


/-- **one device object per address**: the device map never holds two entries for one address -/
theorem one_device_per_address {s : St} (h : Reachable s) : (addrs s).Nodup := h.nodup

/-- **object identity**: device objects are identified by their position in the device map (the
order of creation); a device known in `s` keeps its position along every run - together with
`one_device_per_address` the entry for an address is the same object for ever, whatever losses
and reconnects happen -/
theorem device_identity_stable (s : St) (es : List Ev) (a : Nat) (ha : a ∈ addrs s) :
    (addrs (run s es).1).idxOf a = (addrs s).idxOf a := by
  obtain ⟨t, ht⟩ := addrs_run s es
  rw [← ht]
  rw [List.idxOf_append]; simp [ha]

/-- **connected=False exactly once per loss and device, over whole histories**: along any run
without close(), for every device: (number of times it is told connected=False) + (handlings
half done at the start) ≤ (transports closed) + (handlings half done at the end); with
`one_close_per_loss` (closes = faults handled) no device is ever told False twice for one loss,
and `loss_announced_once` says every device of the map is told once -/
theorem one_announce_per_loss_per_device {s : St} (h : Reachable s) (hcl : s.closing = .no) (es : List Ev)
    (hne : Ev.close ∉ es) (a : Nat) :
    nAnnF a (outs (run s es)) + lmN s ≤ nWclose (outs (run s es)) + lmN (run s es).1 := by
  induction es generalizing s with
  | nil => simp [outs, run, nAnnF, nWclose]
  | cons e es ih =>
    have hne1 : e ≠ .close := fun he => hne (he ▸ List.mem_cons_self ..)
    have hne2 : Ev.close ∉ es := fun he => hne (List.mem_cons_of_mem _ he)
    have b := step_announce h.inv h.winv h.nodup hcl e hne1 a
    have hb := step_balance h.inv h.winv hcl e hne1
    have hr : Reachable (step s e).1 := by have := h.run [e]; simpa [run] using this
    have i := ih hr (by rw [hb.closing, hcl]) hne2
    rw [outs_run_cons, nAnnF_append, nWclose_append]
    have : (run s (e :: es)).1 = (run (step s e).1 es).1 := by simp [run]
    rw [this]
    omega

theorem rcOn_run (s : St) (es : List Ev) : (run s es).1.rcOn = s.rcOn := by
  have one : ∀ (t : St) (e : Ev), (step t e).1.rcOn = t.rcOn := by
    intro t e
    have hfr : ∀ x y : St, Frames x y → y.rcOn = x.rcOn := fun _ _ f => f.rcOn
    unfold step stepDone stepLive
    split
    · split <;> first | rfl | (unfold reopenEv; split <;> rfl)
    · have hdo : ∀ (x : St) (o : Owner), (doOpen x o).1.rcOn = x.rcOn := by
        intro x o
        have hp : (popScript x).2.rcOn = x.rcOn := by unfold popScript; split <;> rfl
        simp only [doOpen]
        split
        · exact hp
        · unfold openFailed; split <;> exact hp
        · exact hp
      have hri : ∀ x : St, (reconnectInvoke x).1.rcOn = x.rcOn := by
        intro x; unfold reconnectInvoke; split
        · exact hdo x _
        · rfl
      have hlf : ∀ x : St, (lostFinish x).1.rcOn = x.rcOn := by
        intro x
        simp only [lostFinish, closeWriter_fst'']
        split
        · rfl
        · exact hri _
      have hla : ∀ x : St, (latch x).rcOn = x.rcOn := by
        intro x; unfold latch; split
        · split <;> rfl
        · rfl
      have hpi : ∀ x : St, (prodIO x).1.rcOn = x.rcOn := by
        intro x
        simp only [prodIO, hla]
        unfold prodIO'; split
        · split <;> rfl
        · rfl
      cases e with
      | connect => simp only []; split <;> first | rfl | exact hdo t _
      | feed f =>
        simp only [feed]
        split
        · rfl
        · split
          · exact hpi t
          · exact hpi t
      | readFault => simp only []; split <;> rfl
      | setDrain m => simp only []; split <;> rfl
      | setClose m => simp only []; split <;> rfl
      | enq n => rfl
      | park x => cases x <;> rfl
      | close =>
        simp only [closeEv]
        split
        · rfl
        · simp only [beginJoin, hla]
          unfold cancelConn; split <;> rfl
      | advance dt => simp only []; split <;> rfl
      | tick k =>
        simp only []
        unfold fire
        split
        · rfl
        · split
          · rfl
          · cases k with
            | readTO => rfl
            | writeTO => exact hla _
            | wcloseTO => exact hri _
            | openTO =>
              simp only []
              split
              · unfold openFailed; split <;> rfl
              · rfl
            | backoffEnd => exact hdo _ _
            | setup a =>
              show (fireSetup t a).1.rcOn = _
              unfold fireSetup; split
              · rfl
              · split
                · split <;> rfl
                · rfl
            | cwcloseTO => simp only []; split <;> first | rfl | (rw [finishClose_fst])
      | prodStart => simp only []; split <;> first | rfl | exact hpi t
      | lostRun =>
        simp only [lostRun]
        split
        · rfl
        · split
          · rfl
          · split
            · exact hlf _
            · rfl
      | lostRun2 =>
        simp only [lostRun2]
        split
        · rfl
        · exact hlf _
      | shutdownRun =>
        simp only [shutdownRun]
        split
        · split
          · simp only [shutdownTail, closeWriter_fst'']
            split <;> first | rfl | (rw [finishClose_fst]; rfl)
          · rfl
        · rfl
      | reopen => rfl
      | versionsGo => show (versionsGo t).1.rcOn = _; unfold versionsGo; split <;> rfl
      | setupGo => show (setupGo t).1.rcOn = _; unfold setupGo; split <;> rfl
      | gate a => exact hfr _ _ (frames_gateEv t a)
      | release => exact hfr _ _ (frames_release t)
      | take => exact hfr _ _ (frames_take t)
  induction es generalizing s with
  | nil => rfl
  | cons e es ih => simp only [run]; rw [ih, one]

/-- **the reconnect routine is invoked exactly once per loss, over whole histories** (reconnect
enabled): along any run without close(), the `_open_connection` calls made by the loss handling
itself (first attempts; retries after a back-off and the user's connect() are not counted) plus
the handlers still waiting in a hung `wait_closed()` at the end equal the transports closed
plus the handlers waiting at the start - one first attempt per closed transport, i.e. per loss
(`one_close_per_loss`) -/
theorem one_reconnect_per_loss {s : St} (h : Reachable s) (hcl : s.closing = .no) (hrc : s.rcOn = true)
    (es : List Ev) (hne : Ev.close ∉ es) :
    nInvoke s es + pendW (run s es).1 = nWclose (outs (run s es)) + pendW s := by
  induction es generalizing s with
  | nil => simp [nInvoke, outs, run, nWclose]
  | cons e es ih =>
    have hne1 : e ≠ .close := fun he => hne (he ▸ List.mem_cons_self ..)
    have hne2 : Ev.close ∉ es := fun he => hne (List.mem_cons_of_mem _ he)
    have b := step_invoke h.inv h.winv hcl hrc e hne1
    have hb := step_balance h.inv h.winv hcl e hne1
    have hr : Reachable (step s e).1 := by have := h.run [e]; simpa [run] using this
    have hrc' : (step s e).1.rcOn = true := by
      have := rcOn_run s [e]; simp only [run] at this; rw [this]; exact hrc
    have i := ih hr (by rw [hb.closing, hcl]) hrc' hne2
    rw [outs_run_cons, nWclose_append]
    have : (run s (e :: es)).1 = (run (step s e).1 es).1 := by simp [run]
    rw [this]
    simp only [nInvoke]
    omega

/-! ### the frame consumers: never more than configured, always replaced, no frame lost -/

/-- **no consumer is ever started beyond `consumers_count`**, and no more frames are in the
consumers' hands than there are consumers - in every reachable state, whatever the number of
loss / reconnect cycles and wherever the losses hit (subsumes the no-growth clause for consumers) -/
theorem consumers_bounded {s : St} (h : Reachable s) : s.consumers ≤ s.cfg ∧ s.hand.length ≤ s.consumers :=
  ⟨h.inv.cons_le, h.cinv.hand_le⟩

/-- **consumers that exited while the link was down are replaced**: whenever the protocol is
connected exactly `consumers_count` frame consumers are alive (parked or holding a frame) - the
establishment prunes the finished ones and starts the missing ones (`reestablished`), and while
connected none exits -/
theorem consumers_topped_up {s : St} (h : Reachable s) (hc : s.connected = true) : s.consumers = s.cfg :=
  h.cinv.conn_full hc

/-- a consumer exits only by finishing a frame while the protocol is not connected -/
theorem consumer_exits_only_disconnected (s : St) (f : Feed) (hc : s.connected = true) :
    (finishFrame s f).1.consumers = s.consumers := by
  cases hf : f.addr? with
  | none => simp [finishFrame, hf]
  | some p =>
    have := (finishFrame_fields s f p.1 p.2 hf).2.2.2.2.2
    rw [this]; simp [hc]

/-- **the read queue's unfinished counter** is exactly the frames queued plus the frames in the
consumers' hands, in every reachable state -/
theorem read_balance {s : St} (h : Reachable s) : s.rUnf = s.readQ.length + s.hand.length := h.cinv.bal

/-- **every frame handed over by the producer reaches the device object of its address, and no
other**: along any run without `shutdown()`, for every address `a` and kind `k`: frames put on
the read queue + frames pending at the start = frames delivered to device `a` + frames still
pending (queued or in a consumer's hand) at the end.  Nothing is lost, duplicated or delivered
under another address; the device map itself never changes (`device_map_stable`). -/
theorem frames_reach_same_device {s : St} (h : Reachable s) (es : List Ev) (hne : Ev.shutdownRun ∉ es) (a k : Nat) :
    nPut a k (outs (run s es)) + pendF s a k = nDel a k (outs (run s es)) + pendF (run s es).1 a k := by
  induction es generalizing s with
  | nil => rfl
  | cons e es ih =>
    have hne1 : e ≠ .shutdownRun := fun he => hne (he ▸ List.mem_cons_self ..)
    have hne2 : Ev.shutdownRun ∉ es := fun he => hne (List.mem_cons_of_mem _ he)
    have b := step_frames h.cinv e hne1 a k
    have hr : Reachable (step s e).1 := by have := h.run [e]; simpa [run] using this
    have i := ih hr hne2
    unfold FrBal at b
    rw [outs_run_cons]
    have : (run s (e :: es)).1 = (run (step s e).1 es).1 := by simp [run]
    rw [this]
    simp only [nPut, nDel, List.countP_append] at b i ⊢
    omega

/-- ... and nothing stays pending: at a quiescent point of a connected protocol whose
subscribers have all returned, the read queue is empty - every frame received so far has been
delivered (with `frames_reach_same_device`: delivered = put) -/
theorem frames_delivered_at_rest {s : St} (h : Reachable s) (hc : s.connected = true) (hcfg : s.cfg ≥ 1)
    (hh : s.hand = []) (hq : internal? s = none) (hnd : isDone s.closing = false) : s.readQ = [] ∧ s.rUnf = 0 := by
  have hcons := consumers_topped_up h hc
  have hidle : idle s > 0 := by unfold idle; rw [hh, hcons]; simp; omega
  have hrq : s.readQ = [] := by
    cases hr : s.readQ with
    | nil => rfl
    | cons f rest =>
      have h1 : s.readQ ≠ [] := by rw [hr]; simp
      simp only [internal?, hnd, Bool.false_eq_true, ↓reduceIte, h1, hidle, ne_eq, not_false_eq_true, true_and] at hq
      split at hq
      · cases hq
      · split at hq
        · cases hq
        · split at hq
          · cases hq
          · split at hq
            · cases hq
            · split at hq
              · cases hq
              · split at hq
                · cases hq
                · simp at hq
  refine ⟨hrq, ?_⟩
  rw [read_balance h, hrq, hh]; rfl

/-! ### the scheduler the harness is compared with is a schedule of micro events -/

/-- what the driver computes for a harness-level event ("one external event, then the library
tasks to quiescence", or "advance virtual time, firing timers in order") is the run of a list
of micro events - so every theorem above about all event lists applies to it -/
theorem hstep_is_run (s : St) (h : HEv) : ∃ es, hstep s h = run s es := ⟨hevs s h, rfl⟩

theorem reachable_hstep {s : St} (hr : Reachable s) (h : HEv) : Reachable (hstep s h).1 := by
  obtain ⟨es, he⟩ := hstep_is_run s h
  rw [he]; exact hr.run es

/-! ### non-vacuity: concrete histories that meet the hypotheses -/

/-- connect, password frame (creates the ecoMAX device), sensor data (mixer 0 / thermostat 0,
starts the set-up requests), then the stream breaks -/
def exLossEvs : List Ev :=
  [.connect, .prodStart, .feed (.pw 69), .take, .feed (.sensors 1 1), .take, .setupGo, .feed .foreign, .readFault]

def exLoss : St := (run (init 3 true [.ok .ok .ok, .err, .hang, .ok .ok .ok]) exLossEvs).1

example : Reachable exLoss := ⟨3, true, _, exLossEvs, rfl⟩
/-- hypotheses of `loss_announced_once`; the bounds of `tasks_connected` and `tasks_bounded` are attained -/
example : exLoss.lostPending = true ∧ early exLoss.closing = true ∧ exLoss.devices.length = 1 ∧
    tasks exLoss = 1 + exLoss.cfg + deviceTasks exLoss ∧
    tasks (run exLoss [.lostRun, .lostRun2]).1 = 2 + exLoss.cfg + deviceTasks (run exLoss [.lostRun, .lostRun2]).1 := by decide
/-- hypotheses of `loss_closes_and_reconnects_once` -/
example : (step exLoss .lostRun).1.lostMid = true ∧ early (step exLoss .lostRun).1.closing = true := by decide
/-- hypotheses of the detection theorems: a live producer that is reading -/
example : (run (init 3 true []) [.connect, .prodStart]).1.producers > 0 ∧
    isReading (run (init 3 true []) [.connect, .prodStart]).1.pphase = true := by decide
/-- a whole cycle: loss, failed attempt, hung attempt, success - one close, four open calls
(the initial one, then 20 s and 25+20 s apart), start-master request queued again, device told
False then True, same device entry, one producer and three consumers as before -/
example :
    let r := run exLoss [.lostRun, .lostRun2, .tick (.setup 69), .advance 3000, .tick (.setup 69), .advance 3000,
      .tick (.setup 69), .advance 3000, .tick (.setup 69), .advance 11000, .tick .backoffEnd, .advance 5000, .tick .openTO,
      .advance 20000, .tick .backoffEnd, .prodStart]
    nFault (outs r) = 0 ∧ nWclose (outs r) = 1 ∧ nOpen (outs r) = 3 ∧
    (r.2.filter (fun p => isOpenCall p.2)).map (·.1) = [0, 20000, 45000] ∧
    r.1.connected = true ∧ addrs r.1 = [69] ∧ r.1.producers = 1 ∧ r.1.consumers = 3 ∧
    tasks r.1 = 1 + 3 + deviceTasks r.1 := by decide


/-- hypotheses of `retry_until_success` (k = 2): lost, first attempt failed, two more failures
scripted, then success; no set-up round in progress -/
def exRetry : St :=
  (run (init 3 true [.ok .ok .ok, .err, .err, .err, .ok .ok .ok]) [.connect, .prodStart, .feed (.pw 69), .take, .readFault, .lostRun, .lostRun2]).1

example : Reachable exRetry := ⟨3, true, _, _, rfl⟩
example : early exRetry.closing = true ∧ exRetry.recon = .backoff 20000 .proto ∧
    exRetry.script = List.replicate 2 .err ++ (.ok .ok .ok :: []) := by decide
example : NoSetupTimers exRetry := by intro d hd; have : d ∈ exRetry.devices := hd; revert d; decide


/-- a loss that catches all three consumers in the middle of a frame: four frames of a new
device (ecoSTER) while a subscriber of its device-name event does not return; the link breaks,
the reconnect attempt fails; the subscriber returns while the link is down -/
def exGated : St :=
  (run (init 3 true [.ok .ok .ok, .err, .ok .ok .ok])
    [.connect, .prodStart, .feed (.pw 69), .take, .gate 81, .feed (.pw 81), .take, .feed (.pw 81), .take,
     .feed (.pw 81), .take, .feed (.pw 81), .readFault, .lostRun, .lostRun2, .release]).1

example : Reachable exGated := ⟨3, true, _, _, rfl⟩
/-- all three consumers have exited, one frame is still queued -/
example : exGated.connected = false ∧ exGated.consumers = 0 ∧ exGated.readQ.length = 1 ∧ exGated.rUnf = 1 ∧
    exGated.hand = [] := by decide
/-- after the back-off the connection is re-established with three consumers again, which
deliver the queued frame and the next one to the same ecoSTER entry -/
example :
    let r := run exGated [.advance 20000, .tick .backoffEnd, .prodStart, .take, .feed (.pw 81), .take]
    r.1.connected = true ∧ r.1.consumers = 3 ∧ r.1.readQ = [] ∧ r.1.rUnf = 0 ∧ addrs r.1 = [69, 81] ∧
    nPut 81 186 (outs r) = 1 ∧ nDel 81 186 (outs r) = 2 ∧ pendF exGated 81 186 = 1 := by decide


/-- frames that cannot be delivered (payload undecodable, sender without a device class) are
disposed of (pseudo kind 0) without costing a consumer: three consumers survive four of them,
and the password frame behind them reaches the ecoMAX entry -/
example :
    let r := run (init 3 true []) [.connect, .prodStart, .feed .undec, .take, .feed (.orphan 86), .take, .feed .undec, .take,
      .feed (.orphan 0), .take, .feed (.pw 69), .take]
    r.1.consumers = 3 ∧ r.1.rUnf = 0 ∧ addrs r.1 = [69] ∧ nPut 69 0 (outs r) = 2 ∧ nDel 69 0 (outs r) = 2 ∧
    nDel 86 0 (outs r) = 1 ∧ nDel 69 186 (outs r) = 1 := by decide

/-! ### the connection object used again (close(), then connect() on the same object) -/

/-- the default of `AsyncProtocol(consumers_count=...)` (translator) is the statement's three consumers -/
theorem consumers_default_eq : Gen.consumersCountDefault = 3 := by decide

/-- **`reopen`**: on a connection whose close() has returned and which is down, the finished call is forgotten and
nothing else changes: producers, consumers, devices, queues, script, clock are the object's state as close() left it -/
theorem reopen_forgets_close {s : St} (hd : isDone s.closing = true) (hc : s.connected = false) (hm : s.lostMid = false)
    (hr : s.recon = .idle) : (step s .reopen).1 = { s with closing := .no, rj := false } ∧ (step s .reopen).2 = [] := by
  simp [step, stepDone, hd, reopenEv, hc, hm, hr]

/-- the session after a reopen is a reachable state with close() not called: EVERY theorem of this file that speaks
about reachable states (detection, `loss_announced_once`, `one_close_per_loss`, `retry_until_success`, `reestablished`,
`tasks_bounded`, `consumers_topped_up`, `frames_reach_same_device` ...) holds in it, for every history that follows -/
theorem session_after_reopen {s : St} (h : Reachable s) (hd : isDone s.closing = true) (hc : s.connected = false)
    (hm : s.lostMid = false) (hr : s.recon = .idle) :
    Reachable (step s .reopen).1 ∧ (step s .reopen).1.closing = .no ∧ (step s .reopen).1.rcOn = s.rcOn ∧
    addrs (step s .reopen).1 = addrs s := by
  have hre : Reachable (step s .reopen).1 := by have := h.run [.reopen]; simpa [run] using this
  rw [(reopen_forgets_close hd hc hm hr).1] at hre ⊢
  exact ⟨hre, rfl, rfl, rfl⟩

/-- **one reconnect per loss, in every later session**: after a reopen, along any run without a further close(), the
first attempts made by the loss handling equal the transports closed (as `one_reconnect_per_loss` in the first session) -/
theorem one_reconnect_per_loss_after_reopen {s : St} (h : Reachable s) (hd : isDone s.closing = true)
    (hc : s.connected = false) (hm : s.lostMid = false) (hr : s.recon = .idle) (hrc : s.rcOn = true)
    (es : List Ev) (hne : Ev.close ∉ es) :
    nInvoke (step s .reopen).1 es + pendW (run (step s .reopen).1 es).1 =
      nWclose (outs (run (step s .reopen).1 es)) + pendW (step s .reopen).1 := by
  obtain ⟨h1, h2, h3, _⟩ := session_after_reopen h hd hc hm hr
  exact one_reconnect_per_loss h1 h2 (by rw [h3]; exact hrc) es hne

/-- ... and exactly one transport close per loss -/
theorem one_close_per_loss_after_reopen {s : St} (h : Reachable s) (hd : isDone s.closing = true)
    (hc : s.connected = false) (hm : s.lostMid = false) (hr : s.recon = .idle) (es : List Ev) (hne : Ev.close ∉ es) :
    nFault (outs (run (step s .reopen).1 es)) + pend (step s .reopen).1 =
      nWclose (outs (run (step s .reopen).1 es)) + pend (run (step s .reopen).1 es).1 := by
  obtain ⟨h1, h2, _, _⟩ := session_after_reopen h hd hc hm hr
  exact (one_close_per_loss h1 h2 es hne).1

/-- non-vacuity: first session with a device, close() (returns at once), the object used again, connect(), a frame for
the same device, the stream breaks, the first attempt fails, the retry after RECONNECT_TIMEOUT succeeds -/
def exReopenEvs : List Ev :=
  [.connect, .prodStart, .feed (.pw 69), .take, .close, .shutdownRun]

def exClosed : St := (run (init 3 true [.ok .ok .ok, .ok .ok .ok, .err, .ok .ok .ok]) exReopenEvs).1

example : Reachable exClosed := ⟨3, true, _, exReopenEvs, rfl⟩
example : isDone exClosed.closing = true ∧ exClosed.connected = false ∧ exClosed.lostMid = false ∧ exClosed.recon = .idle ∧
    tasks exClosed = 0 ∧ addrs exClosed = [69] := by decide
example :
    let r := run exClosed [.reopen, .connect, .prodStart, .feed (.pw 69), .take, .readFault, .lostRun, .lostRun2,
      .advance 20000, .tick .backoffEnd, .prodStart, .feed (.pw 69), .take]
    nFault (outs r) = 1 ∧ nWclose (outs r) = 1 ∧ nOpen (outs r) = 3 ∧ r.1.connected = true ∧ addrs r.1 = [69] ∧
    r.1.producers = 1 ∧ r.1.consumers = 3 ∧ nDel 69 186 (outs r) = 2 ∧ tasks r.1 = 1 + 3 + deviceTasks r.1 := by decide

end PlumVerif.C11

import PlumVerif.Model.DecodeCtx
/-
C05, last sentence ("Decoding never modifies the payload and gives the same result every time"):
the model's decoders are functions, so "the same (payload, context) gives the same result" holds
by construction.  The useful direction is proved here: WHICH kinds ignore the context entirely
(`ctx_irrelevant_*`: eight of the ten kinds — whatever device the frame is assigned to, whatever
that device holds, the decode is the same), and WHAT the other two read (`regdata_reads_only_the_schema`,
`thermostat_reads_only_the_count`), with witnesses that they really do depend on it.  The harness
checks the implementation against exactly this: every kind under every context.

What is content and what is not (round-8 audit, item 11).  MODELLING DECISIONS, true BY CONSTRUCTION of `Ctx5.decode`
(Model/DecodeCtx.lean simply does not pass `ctx` to these decoders) and proved by `rfl`: the eight
`ctx_irrelevant_<kind>`, `product_type_irrelevant`, `regdata_no_device_is_empty_schema` (and in C05CtxDevice
`device_thermo_decodes_with_ctx`, `device_regdata_decodes_with_ctx`): eleven `rfl` results.  They record WHICH
decoders the model gives the context to; that the CODE's decoders read no more than that is not proved by them —
it is the content of harness/c05_ctx.py (every class with its own `decode_message` under 9-10 contexts, results
grouped by what these statements allow).  `ctx_irrelevant`, `regdata_reads_only_the_schema`,
`thermostat_reads_only_the_count` are the same decisions stated once per family.
REAL CONTENT: the two witnesses `thermostat_ctx_relevant` / `regdata_ctx_relevant` (the dependence exists, so the
split is sharp) and, in C05CtxDevice, `applyThermo_count`, `handleRegdata_schema` (handling a frame leaves alone what
its own decode reads of the device) and `handled_again_same_decode` (hence: handled again, the same decode).
-/
namespace PlumVerif.C05
open PlumVerif PlumVerif.Ctx5

theorem ctx_irrelevant_sensorData (p : List Byte) (c1 c2 : Ctx) : decode .sensorData p c1 = decode .sensorData p c2 := rfl
theorem ctx_irrelevant_regdataSchema (p : List Byte) (c1 c2 : Ctx) : decode .regdataSchema p c1 = decode .regdataSchema p c2 := rfl
theorem ctx_irrelevant_ecomaxParameters (p : List Byte) (c1 c2 : Ctx) : decode .ecomaxParameters p c1 = decode .ecomaxParameters p c2 := rfl
theorem ctx_irrelevant_mixerParameters (p : List Byte) (c1 c2 : Ctx) : decode .mixerParameters p c1 = decode .mixerParameters p c2 := rfl
theorem ctx_irrelevant_schedules (p : List Byte) (c1 c2 : Ctx) : decode .schedules p c1 = decode .schedules p c2 := rfl
theorem ctx_irrelevant_alerts (p : List Byte) (c1 c2 : Ctx) : decode .alerts p c1 = decode .alerts p c2 := rfl
theorem ctx_irrelevant_uid (p : List Byte) (c1 c2 : Ctx) : decode .uid p c1 = decode .uid p c2 := rfl
theorem ctx_irrelevant_password (p : List Byte) (c1 c2 : Ctx) : decode .password p c1 = decode .password p c2 := rfl

/-- every kind that is not regulator data / thermostat parameters decodes identically under every context -/
theorem ctx_irrelevant (k : Kind) (hk : k.readsDevice = false) (p : List Byte) (c1 c2 : Ctx) :
    decode k p c1 = decode k p c2 := by
  cases k <;> first | rfl | (simp [Kind.readsDevice] at hk)

/-- the product type of the device is irrelevant to EVERY decode -/
theorem product_type_irrelevant (k : Kind) (p : List Byte) (c : Ctx) (t : Nat) :
    decode k p { c with product := t } = decode k p c := by
  cases k <;> rfl

/-- regulator data reads nothing of the device but the schema it holds (none = the empty schema) -/
theorem regdata_reads_only_the_schema (p : List Byte) (c1 c2 : Ctx) (h : c1.sch = c2.sch) :
    decode .regdata p c1 = decode .regdata p c2 := by
  simp only [decode, h]

/-- thermostat parameters read nothing of the device but its thermostat count (and whether there is a device) -/
theorem thermostat_reads_only_the_count (p : List Byte) (c1 c2 : Ctx) (h : c1.count = c2.count) :
    decode .thermostatParameters p c1 = decode .thermostatParameters p c2 := by
  simp only [decode, h]

/-- the dependence is real (so `ctx_irrelevant` cannot be extended to these two kinds): the same
thermostat-parameters payload is "unavailable" on a device without thermostats and raises without
a device; the same regulator-data payload has a `regdata` section only under a non-empty schema -/
theorem thermostat_ctx_relevant :
    ∃ (p : List Byte) (c1 c2 : Ctx), decode .thermostatParameters p c1 ≠ decode .thermostatParameters p c2 := by
  refine ⟨[0, 0, 0, 1, 0, 2], ⟨true, 0, [], 0⟩, ⟨false, 0, [], 0⟩, ?_⟩
  intro h
  have h1 : (decode .thermostatParameters [0, 0, 0, 1, 0, 2] ⟨true, 0, [], 0⟩).isUnavailable = true := by decide
  have h2 : (decode .thermostatParameters [0, 0, 0, 1, 0, 2] ⟨false, 0, [], 0⟩).isUnavailable = false := by decide
  rw [h] at h1; rw [h1] at h2; cases h2

theorem regdata_ctx_relevant :
    ∃ (p : List Byte) (c1 c2 : Ctx), decode .regdata p c1 ≠ decode .regdata p c2 := by
  refine ⟨[0, 0, 0, 1, 0, 7], ⟨true, 0, [(5, .u8)], 0⟩, ⟨true, 0, [], 0⟩, ?_⟩
  intro h
  have h1 : (decode .regdata [0, 0, 0, 1, 0, 7] ⟨true, 0, [(5, .u8)], 0⟩).hasRegdataKey = true := by decide
  have h2 : (decode .regdata [0, 0, 0, 1, 0, 7] ⟨true, 0, [], 0⟩).hasRegdataKey = false := by decide
  rw [h] at h1; rw [h1] at h2; cases h2

/-- a frame without a device decodes regulator data as a device without a schema does -/
theorem regdata_no_device_is_empty_schema (p : List Byte) (c : Ctx) :
    decode .regdata p { c with device := false } = decode .regdata p { c with device := true, schema := [] } := rfl

end PlumVerif.C05

import PlumVerif.Props.TieReader
import PlumVerif.Proofs.ReaderChunks
/-
Tie of the chunked-arrival machine (`Model/ReaderChunks`) to the TRANSLATED reader and to the
prelude's model of the two `StreamReader` primitives.

* `Model/PyPrelude.lean` gives `read(1)` / `readexactly(n)` their meaning on the COMPLETE stream
  (everything that will arrive, then EOF).  `Model/ReaderChunks` gives them their meaning on a
  BUFFER that may still grow (ready / wait).  `prim_*` show the two are the same contract: where the
  buffer primitive is ready the prelude primitive returns the same bytes and leaves the same rest;
  where it would wait and nothing more comes, the prelude primitive gives the end-of-stream answer.
* `runScan_is_read1`, `runHeader_is_readexactly`, `runBody_is_readexactly`: the three phases of the hand-written
  resumable machine (`Model/ReaderChunks`: `runScan`, `runHeader`, `runBody`) use exactly these buffer primitives — one
  `read(1)` per scanned byte, `readexactly(HEADER_SIZE - 1)`, `readexactly(len - HEADER_SIZE)` — suspend exactly where the
  primitive would wait, and do nothing else with the buffer.
* `translated_read_chunked`: the Lean definition translated from the source text of `FrameReader.read` is run ON THE
  CONCATENATION of the chunks (the translator renders `async def` as a state monad over the complete stream; it has no
  suspended form); there it has the outcome and leaves the bytes that the resumable machine has under ANY chunking.

What is NOT a theorem about the translated code (round-8 audit, item 8): that the `RState` machine IS the suspended form
of `FrameReader.read` ("nothing but the state survives a suspension").  The machine is hand-written; it is tied to the
code (a) by the three `run*_is_*` lemmas + `prim_*` (same primitives, same arguments, same end-of-stream answers as the
prelude's), (b) by `translated_read_chunked` (same result on every complete stream) and (c) by the harness's observation
of the implementation at EVERY suspension (harness/c04.py / c14.py: awaited primitive, its argument, buffer length,
bytes taken) — correspondence, not proof.  So C04's chunk independence is a theorem about the machine, and a statement
about what `stream.py` says today through (b) for complete streams and through (c) for its suspensions.
-/
namespace PlumVerif.TieChunks
open PlumVerif PlumVerif.Py PlumVerif.TieReader

/-- the buffer-level contract of the two primitives, as `Model/ReaderChunks` uses it -/
inductive Prim
  | ready (bytes rest : List UInt8)
  | wait
deriving DecidableEq

def bufRead1 : List UInt8 → Prim
  | [] => .wait
  | b :: r => .ready [b] r

def bufReadExactly (n : Nat) (buf : List UInt8) : Prim :=
  if buf.length < n then .wait else .ready (buf.take n) (buf.drop n)

theorem prim_read1_ready {s a r : List UInt8} (h : bufRead1 s = .ready a r) :
    reader_read (.int 1) s = (.ok (.bytes a), r) := by
  cases s with
  | nil => simp [bufRead1] at h
  | cons b t => simp only [bufRead1, Prim.ready.injEq] at h; obtain ⟨rfl, rfl⟩ := h; rfl

theorem prim_read1_eof {s : List UInt8} (h : bufRead1 s = .wait) :
    reader_read (.int 1) s = (.ok (.bytes []), []) := by
  cases s with
  | nil => rfl
  | cons b t => simp [bufRead1] at h

theorem prim_readexactly_ready {n : Nat} {s a r : List UInt8} (h : bufReadExactly n s = .ready a r) :
    reader_readexactly (.int (Int.ofNat n)) s = (.ok (.bytes a), r) := by
  unfold bufReadExactly at h
  split at h
  · cases h
  · rename_i hn
    simp only [Prim.ready.injEq] at h; obtain ⟨rfl, rfl⟩ := h
    have hnn : ¬ (Int.ofNat n < 0) := by show ¬ ((n : Int) < 0); omega
    have ht : (Int.ofNat n).toNat = n := rfl
    simp only [reader_readexactly]
    rw [if_neg hnn, ht, if_neg hn]

theorem prim_readexactly_eof {n : Nat} {s : List UInt8} (h : bufReadExactly n s = .wait) :
    reader_readexactly (.int (Int.ofNat n)) s = (.error .IncompleteReadError, []) := by
  unfold bufReadExactly at h
  split at h
  · rename_i hn
    have hnn : ¬ (Int.ofNat n < 0) := by show ¬ ((n : Int) < 0); omega
    have ht : (Int.ofNat n).toNat = n := rfl
    simp only [reader_readexactly]
    rw [if_neg hnn, ht, if_pos hn]
  · cases h

/-- the machine's three steps ARE these primitives: body -/
theorem runBody_is_readexactly (l0 l1 rc sd et ev : UInt8) (buf : List UInt8) :
    runBody l0 l1 rc sd et ev buf =
      match bufReadExactly (l0.toNat + 256 * l1.toNat - Gen.headerSize) buf with
      | .wait => .blocked (.body l0 l1 rc sd et ev) buf
      | .ready body rest => .done (gates l0 l1 rc sd et ev body) rest := by
  unfold runBody bufReadExactly
  simp only
  split <;> rfl

/-- the machine's three steps ARE these primitives: header.  `await readexactly(HEADER_SIZE - 1)`: fewer than 6 bytes
buffered: suspended in `header`, buffer untouched; else the 6 bytes are taken, the length gate is applied and the
body phase runs on the rest.  (The last arm is unreachable: `readexactly(6)` returns 6 bytes.) -/
theorem runHeader_is_readexactly (buf : List UInt8) :
    runHeader buf =
      match bufReadExactly (Gen.headerSize - 1) buf with
      | .wait => .blocked .header buf
      | .ready [l0, l1, rc, sd, et, ev] rest =>
        if l0.toNat + 256 * l1.toNat > Gen.maxFrameLength ∨ l0.toNat + 256 * l1.toNat < Gen.minFrameLength
        then .done (.protoErr .badLength) rest
        else runBody l0 l1 rc sd et ev rest
      | .ready _ _ => .blocked .header buf := by
  match buf with
  | [] => rfl
  | [_] => rfl
  | [_, _] => rfl
  | [_, _, _] => rfl
  | [_, _, _, _] => rfl
  | [_, _, _, _, _] => rfl
  | l0 :: l1 :: rc :: sd :: et :: ev :: r1 =>
    have hn : ¬ ((l0 :: l1 :: rc :: sd :: et :: ev :: r1).length < Gen.headerSize - 1) := by
      simp [Gen.headerSize]
    simp only [runHeader, bufReadExactly, if_neg hn]
    rfl

/-- the machine's three steps ARE these primitives: delimiter hunt.  `while buffer := await read(1)`: buffer empty:
suspended in `scanning`; else ONE byte is taken; if it is the start delimiter the header phase runs on the rest, else
the hunt goes on -/
theorem runScan_is_read1 (buf : List UInt8) :
    runScan buf =
      match bufRead1 buf with
      | .wait => .blocked .scanning buf
      | .ready bs rest => if bs = [startByte] then runHeader rest else runScan rest := by
  cases buf with
  | nil => rfl
  | cons b r =>
    simp only [runScan, bufRead1, List.cons.injEq, and_true]

/-- the suspension states are the primitives' waits, with their arguments: `scanning` waits in `read(1)` for 1 byte,
`header` in `readexactly(6)`, `body` in `readexactly(len - 7)` -/
theorem resume_blocked_is_wait (st st' : RState) (buf b : List UInt8) (h : resume st buf = .blocked st' b) :
    match st' with
    | .scanning => bufRead1 b = .wait
    | .header => bufReadExactly (Gen.headerSize - 1) b = .wait
    | .body l0 l1 _ _ _ _ => bufReadExactly (l0.toNat + 256 * l1.toNat - Gen.headerSize) b = .wait := by
  have hbody : ∀ l0 l1 rc sd et ev (x : List UInt8), runBody l0 l1 rc sd et ev x = .blocked st' b →
      st' = .body l0 l1 rc sd et ev ∧ bufReadExactly (l0.toNat + 256 * l1.toNat - Gen.headerSize) b = .wait := by
    intro l0 l1 rc sd et ev x hx
    rw [runBody_is_readexactly] at hx
    cases hw : bufReadExactly (l0.toNat + 256 * l1.toNat - Gen.headerSize) x with
    | wait => rw [hw] at hx; simp only [RRes.blocked.injEq] at hx; obtain ⟨rfl, rfl⟩ := hx; exact ⟨rfl, hw⟩
    | ready a r => rw [hw] at hx; cases hx
  have hheader : ∀ (x : List UInt8), runHeader x = .blocked st' b →
      (st' = .header ∧ bufReadExactly (Gen.headerSize - 1) b = .wait) ∨
      ∃ l0 l1 rc sd et ev, st' = .body l0 l1 rc sd et ev ∧
        bufReadExactly (l0.toNat + 256 * l1.toNat - Gen.headerSize) b = .wait := by
    intro x hx
    match x with
    | [] | [_] | [_, _] | [_, _, _] | [_, _, _, _] | [_, _, _, _, _] =>
      simp only [runHeader, RRes.blocked.injEq] at hx
      obtain ⟨rfl, rfl⟩ := hx
      exact .inl ⟨rfl, by simp [bufReadExactly, Gen.headerSize]⟩
    | l0 :: l1 :: rc :: sd :: et :: ev :: r1 =>
      simp only [runHeader] at hx
      split at hx
      · cases hx
      · exact .inr ⟨l0, l1, rc, sd, et, ev, hbody _ _ _ _ _ _ _ hx⟩
  have hscan : ∀ (x : List UInt8), runScan x = .blocked st' b →
      (st' = .scanning ∧ bufRead1 b = .wait) ∨
      (st' = .header ∧ bufReadExactly (Gen.headerSize - 1) b = .wait) ∨
      ∃ l0 l1 rc sd et ev, st' = .body l0 l1 rc sd et ev ∧
        bufReadExactly (l0.toNat + 256 * l1.toNat - Gen.headerSize) b = .wait := by
    intro x
    induction x with
    | nil =>
      intro hx
      simp only [runScan, RRes.blocked.injEq] at hx
      obtain ⟨rfl, rfl⟩ := hx
      exact .inl ⟨rfl, rfl⟩
    | cons y ys ih =>
      intro hx
      simp only [runScan] at hx
      split at hx
      · exact .inr (hheader _ hx)
      · exact ih hx
  cases st with
  | scanning =>
    rcases hscan _ h with ⟨rfl, hw⟩ | ⟨rfl, hw⟩ | ⟨l0, l1, rc, sd, et, ev, rfl, hw⟩ <;> exact hw
  | header =>
    rcases hheader _ h with ⟨rfl, hw⟩ | ⟨l0, l1, rc, sd, et, ev, rfl, hw⟩ <;> exact hw
  | body l0 l1 rc sd et ev =>
    obtain ⟨rfl, hw⟩ := hbody _ _ _ _ _ _ _ h
    exact hw

/-- **the translated `FrameReader.read` under any chunking**: for every buffer content, every
chunk list and enough fuel, the function translated from stream.py, run on the concatenation,
returns what the resumable machine returns when the same bytes arrive chunk by chunk, and leaves
the same bytes -/
theorem translated_read_chunked (buf : List UInt8) (cs : List (List UInt8)) (fuel : Nat)
    (h : fuel ≥ (buf ++ cs.flatten).length + 1) :
    PyCode.FrameReader_read fuel (buf ++ cs.flatten) =
      (toPy (callChunks .scanning buf cs).1,
       (callChunks .scanning buf cs).2.1 ++ (callChunks .scanning buf cs).2.2.flatten) := by
  rw [read_eq _ fuel h, callChunks_readFrame buf cs]

/-- non-vacuity: a frame arriving in three chunks, the first cut inside the header -/
example : PyCode.FrameReader_read 20 ([] ++ [[0x68, 0x0a, 0x00], [0x56, 0x45, 0x30, 0x05, 0x19], [0x5d, 0x16, 0x07]].flatten) =
    (toPy (callChunks .scanning [] [[0x68, 0x0a, 0x00], [0x56, 0x45, 0x30, 0x05, 0x19], [0x5d, 0x16, 0x07]]).1, [0x07]) := by
  rw [translated_read_chunked _ _ 20 (by decide)]; rfl

end PlumVerif.TieChunks

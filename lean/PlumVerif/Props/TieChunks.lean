import PlumVerif.Props.TieReader
import PlumVerif.Proofs.ReaderChunks
/-
Tie of the chunked-arrival machine (`Model/ReaderChunks`) to the TRANSLATED reader and to the
prelude's model of the two `StreamReader` primitives.

* `Model/PyPrelude.lean` gives `read(1)` / `readexactly(n)` their meaning on the COMPLETE stream
  (everything that will arrive, then EOF).  `Model/ReaderChunks` gives them their meaning on a
  BUFFER that may still grow (ready / wait).  `prim_*` show the two are the same contract: where the
  buffer primitive is ready the prelude primitive returns the same bytes and leaves the same rest;
  where it would wait and nothing more comes, the prelude primitive gives the end-of-stream answer.
* `translated_read_chunked`: the Lean definition translated from the source text of
  `FrameReader.read`, run on the concatenation, has the outcome and leaves the bytes that the
  resumable machine has under ANY chunking — the chunk independence of C04 is a statement about
  what `stream.py` says today.
-/
namespace PlumVerif.TieChunks
open PlumVerif PlumVerif.Py PlumVerif.TieReader

/-- the buffer-level contract of the two primitives, as `Model/ReaderChunks` uses it -/
inductive Prim
  | ready (bytes rest : List UInt8)
  | wait
deriving DecidableEq

def bufRead1 : List UInt8 → Prim
  | [] => .wait
  | b :: r => .ready [b] r

def bufReadExactly (n : Nat) (buf : List UInt8) : Prim :=
  if buf.length < n then .wait else .ready (buf.take n) (buf.drop n)

theorem prim_read1_ready {s a r : List UInt8} (h : bufRead1 s = .ready a r) :
    reader_read (.int 1) s = (.ok (.bytes a), r) := by
  cases s with
  | nil => simp [bufRead1] at h
  | cons b t => simp only [bufRead1, Prim.ready.injEq] at h; obtain ⟨rfl, rfl⟩ := h; rfl

theorem prim_read1_eof {s : List UInt8} (h : bufRead1 s = .wait) :
    reader_read (.int 1) s = (.ok (.bytes []), []) := by
  cases s with
  | nil => rfl
  | cons b t => simp [bufRead1] at h

theorem prim_readexactly_ready {n : Nat} {s a r : List UInt8} (h : bufReadExactly n s = .ready a r) :
    reader_readexactly (.int (Int.ofNat n)) s = (.ok (.bytes a), r) := by
  unfold bufReadExactly at h
  split at h
  · cases h
  · rename_i hn
    simp only [Prim.ready.injEq] at h; obtain ⟨rfl, rfl⟩ := h
    have hnn : ¬ (Int.ofNat n < 0) := by show ¬ ((n : Int) < 0); omega
    have ht : (Int.ofNat n).toNat = n := rfl
    simp only [reader_readexactly]
    rw [if_neg hnn, ht, if_neg hn]

theorem prim_readexactly_eof {n : Nat} {s : List UInt8} (h : bufReadExactly n s = .wait) :
    reader_readexactly (.int (Int.ofNat n)) s = (.error .IncompleteReadError, []) := by
  unfold bufReadExactly at h
  split at h
  · rename_i hn
    have hnn : ¬ (Int.ofNat n < 0) := by show ¬ ((n : Int) < 0); omega
    have ht : (Int.ofNat n).toNat = n := rfl
    simp only [reader_readexactly]
    rw [if_neg hnn, ht, if_pos hn]
  · cases h

/-- the machine's three steps ARE these primitives: body -/
theorem runBody_is_readexactly (l0 l1 rc sd et ev : UInt8) (buf : List UInt8) :
    runBody l0 l1 rc sd et ev buf =
      match bufReadExactly (l0.toNat + 256 * l1.toNat - Gen.headerSize) buf with
      | .wait => .blocked (.body l0 l1 rc sd et ev) buf
      | .ready body rest => .done (gates l0 l1 rc sd et ev body) rest := by
  unfold runBody bufReadExactly
  simp only
  split <;> rfl

/-- **the translated `FrameReader.read` under any chunking**: for every buffer content, every
chunk list and enough fuel, the function translated from stream.py, run on the concatenation,
returns what the resumable machine returns when the same bytes arrive chunk by chunk, and leaves
the same bytes -/
theorem translated_read_chunked (buf : List UInt8) (cs : List (List UInt8)) (fuel : Nat)
    (h : fuel ≥ (buf ++ cs.flatten).length + 1) :
    PyCode.FrameReader_read fuel (buf ++ cs.flatten) =
      (toPy (callChunks .scanning buf cs).1,
       (callChunks .scanning buf cs).2.1 ++ (callChunks .scanning buf cs).2.2.flatten) := by
  rw [read_eq _ fuel h, callChunks_readFrame buf cs]

/-- non-vacuity: a frame arriving in three chunks, the first cut inside the header -/
example : PyCode.FrameReader_read 20 ([] ++ [[0x68, 0x0a, 0x00], [0x56, 0x45, 0x30, 0x05, 0x19], [0x5d, 0x16, 0x07]].flatten) =
    (toPy (callChunks .scanning [] [[0x68, 0x0a, 0x00], [0x56, 0x45, 0x30, 0x05, 0x19], [0x5d, 0x16, 0x07]]).1, [0x07]) := by
  rw [translated_read_chunked _ _ 20 (by decide)]; rfl

end PlumVerif.TieChunks

import PlumVerif.Proofs.Resync
/-
C14 — arbitrary line noise causes only protocol errors and bounded loss.
-/
namespace PlumVerif.C14
open PlumVerif

/-- for ANY byte sequence a call either hands out a frame, ignores one, raises one of the
documented protocol errors, or reports the connection lost (end of stream) — nothing else.
(By construction of the model; that the implementation raises nothing else is the tie.) -/
theorem outcomes (s : List Byte) :
    (∃ f, (readFrame s).1 = .delivered f) ∨ (readFrame s).1 = .ignored ∨
      (∃ e, (readFrame s).1 = .protoErr e) ∨ (readFrame s).1 = .connLost := by
  cases (readFrame s).1 <;> simp

/-- the connection is reported lost exactly when no start delimiter is left in the stream -/
theorem connLost_iff (s : List Byte) : (readFrame s).1 = .connLost ↔ (0x68 : Byte) ∉ s := by
  rw [readFrame_connLost_iff, startByte_eq]

/-- **progress**: every call that does not report a lost connection consumes at least one
byte, and what it leaves is a suffix of what it was given (no byte is re-ordered or invented) -/
theorem progress {s r : List Byte} {o : Outcome} (h : readFrame s = (o, r)) (ho : o ≠ .connLost) :
    r.length < s.length ∧ ∃ c, s = c ++ r :=
  readFrame_progress h ho

/-- **bounded demand (1)**: counted from the start delimiter it found, a call never takes more
than the maximum frame length (1000 bytes) from the stream -/
theorem bounded_consumption {s r rest : List Byte} {o : Outcome}
    (hs : scan s = some r) (h : readFrame s = (o, rest)) :
    (r.length + 1) - rest.length ≤ 1000 :=
  readFrame_consumed_le hs h

/-- **bounded demand (2)**: once 999 bytes are available after the start delimiter the call
never waits for more: its outcome is not one caused by the end of the stream … -/
theorem never_waits_beyond_max {s r : List Byte} (hs : scan s = some r) (hr : 999 ≤ r.length) :
    (readFrame s).1.eofCaused = false := by
  unfold readFrame
  rw [hs]
  match r, hr with
  | l0 :: l1 :: rc :: sd :: et :: ev :: r1, hr =>
    simp only
    simp only [List.length_cons] at hr
    split
    · rfl
    · rename_i hlen
      simp only [hdr_eq, minLen_eq, maxLen_eq] at hlen
      rw [if_neg (by simp only [hdr_eq]; omega)]
      split
      · rfl
      · split
        · rfl
        · split
          · rfl
          · split <;> rfl
  | [], hr => simp at hr
  | [_], hr => simp at hr
  | [_, _], hr => simp at hr
  | [_, _, _], hr => simp at hr
  | [_, _, _, _], hr => simp at hr
  | [_, _, _, _, _], hr => simp at hr

/-- … and such an outcome is decided by the bytes consumed: whatever arrives later is untouched -/
theorem decided_by_consumed {s rest : List Byte} {o : Outcome}
    (h : readFrame s = (o, rest)) (ho : o.eofCaused = false) (more : List Byte) :
    readFrame (s ++ more) = (o, rest ++ more) :=
  readFrame_append h ho more

/-- `n` identical frames back to back -/
abbrev frames (f : Fields) (n : Nat) : List Byte := run (encode f) n

/-- the full re-synchronisation clause of the statement (for every deliverable frame) -/
def resync_full : Prop :=
  ∀ (f : Fields), classify f = .delivered f → f.payload.length + 10 ≤ 1000 →
  ∀ (noise : List Byte) (n : Nat),
    ∃ (pre : List Outcome) (m : Nat),
      (readAll (noise ++ frames f n)).map (·.1) = pre ++ List.replicate m (.delivered f) ++ [.connLost] ∧
      m ≤ n ∧ n * (encode f).length - m * (encode f).length ≤ 999 + (encode f).length

/-- **re-synchronisation (partial: frames without an inner start-delimiter byte)**: after ANY
noise, a run of `n` identical deliverable frames is read as: some outcomes while the reader
works through the noise (none of them a lost connection), then `m` consecutive deliveries of
the frame, then end of stream — where fewer than (maximum frame length + one frame) bytes of
the run were lost.  Missing for the full statement: frames that contain the byte 0x68 after
their first byte (finding F2, see `resync_counterexample`). -/
theorem resync_partial (f : Fields) (hdel : classify f = .delivered f)
    (hlen : f.payload.length + 10 ≤ 1000) (hno : (0x68 : Byte) ∉ (encode f).tail)
    (noise : List Byte) (n : Nat) :
    ∃ (pre : List Outcome) (m : Nat),
      (readAll (noise ++ frames f n)).map (·.1) = pre ++ List.replicate m (.delivered f) ++ [.connLost] ∧
      (∀ o ∈ pre, o ≠ .connLost) ∧ m ≤ n ∧
      n * (encode f).length - m * (encode f).length ≤ 999 + (encode f).length := by
  have hno' : startByte ∉ (encode f).tail := by rw [startByte_eq]; exact hno
  obtain ⟨x, m, hreach, hx, hm, _, hlost⟩ := resync_reach (encode f) hno' n noise.length noise (Nat.le_refl _)
  obtain ⟨outs, houts, hall⟩ := reaches_readAll hreach
  refine ⟨outs.map (·.1), m, ?_, ?_, hm, ?_⟩
  · show (readAll (noise ++ run (encode f) n)).map (·.1) = _
    rw [hall, List.map_append, aligned_deliver f hdel hlen m x hx, List.append_assoc]
  · intro o ho
    obtain ⟨p, hp, rfl⟩ := List.mem_map.mp ho
    exact houts p hp
  · rw [run_length, run_length] at hlost; exact hlost

/-- non-vacuity of the hypotheses: the start-master request frame has no inner 0x68 -/
example : classify ⟨25, 86, 69, 48, 5, []⟩ = .delivered ⟨25, 86, 69, 48, 5, []⟩ ∧
    (0x68 : Byte) ∉ (encode ⟨25, 86, 69, 48, 5, []⟩).tail := by decide

/-- **F2 witness** (the full clause is false of model and code): a valid frame whose checksum
byte is 0x68, entered one byte late, is never picked up — every call on a run of 120 copies
(1320 bytes, more than maximum frame length plus one frame) ends in a protocol error. -/
theorem resync_counterexample :
    let f : Fields := ⟨25, 86, 69, 48, 5, [0x34]⟩
    classify f = .delivered f ∧ (encode f).getD 9 0 = 0x68 ∧
    ((readAll ((encode f).drop 1 ++ frames f 120)).map (·.1)).all
      (fun o => match o with | .delivered _ => false | _ => true) = true := by
  decide +kernel

theorem resync_full_false : ¬ resync_full := by
  intro h
  obtain ⟨pre, m, heq, hm, hlost⟩ := h ⟨25, 86, 69, 48, 5, [0x34]⟩ (by decide) (by decide)
    ((encode ⟨25, 86, 69, 48, 5, [0x34]⟩).drop 1) 120
  have hw := resync_counterexample.2.2
  rw [heq] at hw
  have hlen : (encode ⟨25, 86, 69, 48, 5, [0x34]⟩).length = 11 := by decide
  rw [hlen] at hlost
  have hm1 : 1 ≤ m := by omega
  obtain ⟨k, rfl⟩ : ∃ k, m = k + 1 := ⟨m - 1, by omega⟩
  simp [List.replicate_succ] at hw

end PlumVerif.C14

import PlumVerif.Props.C01Session
import PlumVerif.Proofs.ReaderChunks
/-
The two models of a call that cannot complete agree: the ABANDONED call of a reader session
(`Model/ReaderSession.blockedTaken`: how many bytes a call has taken when it still waits) is the
SUSPENDED call of the resumable machine (`Model/ReaderChunks.resume`).  So the sessions of C01 and
the arrival schedules of C04 / C14 speak about one reader.
-/
namespace PlumVerif.C01
open PlumVerif

/-- a call blocks on `s` (in the session model) exactly when the resumable machine suspends on `s`,
and the bytes it has taken are the bytes the machine's primitives have taken (all of `s` but what
still sits in the buffer) -/
theorem blocked_is_suspended (s : List Byte) :
    blockedTaken s = match resume .scanning s with
      | .blocked _ b => some (s.length - b.length)
      | .done _ _ => none := by
  unfold blockedTaken resume
  cases hs : scan s with
  | none => simp only [runScan_of_scan_none hs, List.length_nil, Nat.sub_zero]
  | some r =>
    simp only [runScan_of_scan_some hs]
    match r with
    | l0 :: l1 :: rc :: sd :: et :: ev :: r1 =>
      simp only [runHeader]
      by_cases hl : l0.toNat + 256 * l1.toNat > Gen.maxFrameLength ∨ l0.toNat + 256 * l1.toNat < Gen.minFrameLength
      · simp only [if_pos hl]
      · simp only [if_neg hl, runBody]
        by_cases hn : r1.length < l0.toNat + 256 * l1.toNat - Gen.headerSize
        · simp only [if_pos hn]
        · simp only [if_neg hn]
    | [] => simp [runHeader]
    | [_] => simp [runHeader]
    | [_, _] => simp [runHeader]
    | [_, _, _] => simp [runHeader]
    | [_, _, _, _] => simp [runHeader]
    | [_, _, _, _, _] => simp [runHeader]

/-- a call that the session model lets complete is one the machine completes without the end of the
stream: its outcome is `readFrame`'s and is not caused by the stream ending -/
theorem completes_iff_done (s : List Byte) :
    blockedTaken s = none ↔ ∃ o b, resume .scanning s = .done o b := by
  rw [blocked_is_suspended]
  cases resume .scanning s <;> simp

/-- non-vacuity: delimiter taken and three header bytes buffered: 1 byte taken, suspended in `header` -/
example : blockedTaken [0x00, 0x68, 0x0a, 0x00, 0x56] = some 2 ∧
    resume .scanning [0x00, 0x68, 0x0a, 0x00, 0x56] = .blocked .header [0x0a, 0x00, 0x56] := by decide

end PlumVerif.C01

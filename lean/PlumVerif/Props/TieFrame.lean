import PlumVerif.Generated.PyCode
import PlumVerif.Model.Basic
import PlumVerif.Proofs.PyLemmas
/-
Tie: the Lean definition translated from the SOURCE TEXT of `pyplumio/frames/__init__.py: bcc`
(Generated/PyCode.lean, rewritten by tools/py2lean.py on every run) equals the hand-written model
`PlumVerif.bcc` on every input.
-/
namespace PlumVerif.TieFrame
open PlumVerif.Py

theorem fold_xor (xs : List UInt8) (acc : UInt8) :
    List.foldlM (fun v_x v_y => (do let t1 ← Py.xor v_x v_y; pure t1 : PyM V)) (byteV acc) (xs.map byteV)
      = .ok (byteV (xs.foldl (· ^^^ ·) acc)) := by
  induction xs generalizing acc with
  | nil => rfl
  | cons x xs ih =>
    simp only [List.map_cons, List.foldlM_cons, List.foldl_cons]
    have : (do let t1 ← Py.xor (byteV acc) (byteV x); pure t1 : PyM V) = .ok (byteV (acc ^^^ x)) := by
      simp [Py.xor, byteV, bothBool?, asInt?, UInt8.toNat_xor]
    rw [this]
    exact ih (acc ^^^ x)

/-- the translated `bcc` on a non-empty byte string is the model's XOR fold -/
theorem bcc_eq (data : List UInt8) (h : data ≠ []) :
    PyCode.bcc (.bytes data) = .ok (.int (Int.ofNat (PlumVerif.bcc data).toNat)) := by
  cases data with
  | nil => exact absurd rfl h
  | cons x xs =>
    have := fold_xor xs x
    simp only [PyCode.bcc, Py.reduce, Py.iter, List.map_cons, bind, Except.bind, pure, Except.pure] at this ⊢
    rw [this]
    simp [PlumVerif.bcc, byteV]

/-- `reduce` without an initial value raises TypeError on the empty byte string (the reader never
calls `bcc` on one: a frame is at least 10 bytes) -/
theorem bcc_empty : PyCode.bcc (.bytes []) = .error .TypeError := rfl

example : PyCode.bcc (.bytes [0x68, 0x0c, 0x01]) = .ok (.int 0x65) := rfl

end PlumVerif.TieFrame

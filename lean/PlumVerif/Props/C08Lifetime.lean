import PlumVerif.Props.C08
import PlumVerif.Proofs.SetL
import PlumVerif.Spec.C08L
/-
C08 over the LIFETIME of a parameter: any number of `set()` calls, one after the other or
overlapping (machine `SetL`: every running call is a one-call machine `SetM` stepping on the
shared `_values` / `_previous_value` / `_pending_update`).

Every theorem is about `run (init loc tracking hold t0) es` for an ARBITRARY history `es` of calls,
reports, clock advances, timer expiries, executor answers and version announcements — or about an
arbitrary reachable state.  `id` is the number of a call (the `id`-th `call` event of the history,
`callArgs es id`); `outsOf id` are the outputs of that call.
-/
namespace PlumVerif.C08
open PlumVerif.SetM PlumVerif.SetL

/-- **rejected_call_inert**: in any reachable state — also while other calls are in their loops — a
`set()` whose value is the held one, or lies outside the held range, ends at once (`True` /
`ValueError`), transmits nothing and changes NOTHING: the state afterwards is the state before, but
for the count of calls made.  (So the pending calls' later attempts are exactly what they would
have been.) -/
theorem rejected_call_inert (loc : Triple) (tr h : Bool) (t0 : Nat) (pre : List Ev) (v r T : Nat)
    (hrej : let s := (SetL.run (SetL.init loc tr h t0) pre).1
            v = s.g.loc.value ∨ v < s.g.loc.min ∨ v > s.g.loc.max) :
    let s := (SetL.run (SetL.init loc tr h t0) pre).1
    (SetL.step s (.call v r T)).1 = { s with nextId := s.nextId + 1 } ∧
    ((SetL.step s (.call v r T)).2 = [⟨s.nextId, .ret true s.g.now⟩] ∨
     (SetL.step s (.call v r T)).2 = [⟨s.nextId, .raise s.g.now⟩]) :=
  rejected_step _ (run_wfl _ pre (init_wfl loc tr h t0)) v r T hrej

/-- **tx_value_each_call** (calls may overlap): every set request carries the value requested by the
call that transmits it — the `id`-th call of the history — whatever other calls, reports and
re-assertions happened in between. -/
theorem tx_value_each_call (loc : Triple) (tr h : Bool) (t0 : Nat) (es : List Ev) (id v t : Nat)
    (hx : (⟨id, .txSet v t⟩ : LOut) ∈ (SetL.run (SetL.init loc tr h t0) es).2) :
    ∃ r T, callArgs es id = some (v, r, T) := by
  have := (future_run (SetL.init loc tr h t0) es (init_wfl loc tr h t0) id (Nat.zero_le _)).1 v
    (mem_txVals_outsOf _ id v t hx)
  simpa [SetL.init] using this

/-- **tx_count_each_call** (calls may overlap): call `id` transmits at most its own `retries` set requests. -/
theorem tx_count_each_call (loc : Triple) (tr h : Bool) (t0 : Nat) (es : List Ev) (id v r T : Nat)
    (hc : callArgs es id = some (v, r, T)) :
    (txVals (outsOf id (SetL.run (SetL.init loc tr h t0) es).2)).length ≤ r := by
  have := (future_run (SetL.init loc tr h t0) es (init_wfl loc tr h t0) id (Nat.zero_le _)).2 v r T
  simp only [SetL.init, Nat.sub_zero] at this
  exact this hc

/-- **only_running_calls_transmit**: a call's final output (`True`, `False`, `ValueError`) is its last
output — after a call has returned nothing is transmitted on its behalf.  Together with
`tx_value_each_call`: every set request carries the value of a call that is still in its loop. -/
theorem only_running_calls_transmit (loc : Triple) (tr h : Bool) (t0 : Nat) (es : List Ev) :
    finalIsLast (SetL.run (SetL.init loc tr h t0) es).2 = true :=
  finalIsLast_run _ es (init_wfl loc tr h t0)

/-- **sequential_call_is_one_call**: a call made while no other call is running, followed by a history
without further calls, produces exactly the outputs of the one-call machine started in the
parameter's current state — so EVERY one-call theorem (`tx_value`, `tx_count`, `tx_spacing`,
`tx_spacing_exact`, `refresh_per_attempt`, `true_sound`, `false_sound`, `holds`) applies to each call
of a sequential history, with "the value held before THAT call" = the value held when it was made. -/
theorem sequential_call_is_one_call (loc : Triple) (tr h : Bool) (t0 : Nat) (pre : List Ev) (v r T : Nat)
    (es : List Ev) (hq : Quiet (SetL.run (SetL.init loc tr h t0) pre).1) (hes : ∀ e ∈ es, e.isCall = false) :
    let s := (SetL.run (SetL.init loc tr h t0) pre).1
    (SetL.run (SetL.init loc tr h t0) (pre ++ .call v r T :: es)).2 =
      (SetL.run (SetL.init loc tr h t0) pre).2 ++
        (SetM.trace { s.g with phase := .idle } v r T es).map (LOut.mk s.nextId) := by
  intro s
  rw [SetL.run_append]
  exact congrArg _ (sequential_bridge s hq v r T es hes).1

/-- when the one-call machine has finished, no call is running any more: the next call is sequential too -/
theorem quiet_after_return (loc : Triple) (tr h : Bool) (t0 : Nat) (pre : List Ev) (v r T : Nat)
    (es : List Ev) (hq : Quiet (SetL.run (SetL.init loc tr h t0) pre).1) (hes : ∀ e ∈ es, e.isCall = false)
    (hret : (SetM.trace { (SetL.run (SetL.init loc tr h t0) pre).1.g with phase := .idle } v r T es).any Out.isFinal = true) :
    Quiet (SetL.run (SetL.init loc tr h t0) (pre ++ .call v r T :: es)).1 := by
  rw [SetL.run_append]
  have hb := (sequential_bridge (SetL.run (SetL.init loc tr h t0) pre).1 hq v r T es hes).2
  apply quiet_of_alone_done _ _ _ hb
  -- a final output means the one-call machine is done
  simp only [SetM.trace, List.any_append, Bool.or_eq_true] at hret
  generalize hs0 : { (SetL.run (SetL.init loc tr h t0) pre).1.g with phase := Phase.idle } = s0 at *
  have hact : Active (SetM.step s0 (.call v r T)).1 := by
    rcases after_call s0 (by rw [← hs0]) v r T with ⟨hd, _⟩ | ⟨_, hc⟩
    · simp [Active, hd]
    · rw [hc]; exact (arm_facts s0 v r T).1
  have hcd : (SetM.step s0 (.call v r T)).2.any Out.isFinal = true → (SetM.step s0 (.call v r T)).1.phase = .done := by
    rcases after_call s0 (by rw [← hs0]) v r T with ⟨hd, _⟩ | ⟨_, hc⟩
    · exact fun _ => hd
    · rw [hc]; exact (loopTop_ret _).2.2.1
  rcases hret with hret | hret
  · exact (done_silent _ es (hcd hret)).1
  · exact run_done_of_final _ es hact hret

/-- **true_sound_each_call** (sequential calls): a call that is not a no-op and returns `True` was preceded —
after it was made — by a report whose value differs from the value held before THAT call. -/
theorem true_sound_each_call (loc : Triple) (tr h : Bool) (t0 : Nat) (pre : List Ev) (v r T : Nat) (es : List Ev)
    (hq : Quiet (SetL.run (SetL.init loc tr h t0) pre).1) (hes : ∀ e ∈ es, e.isCall = false)
    (hv : v ≠ (SetL.run (SetL.init loc tr h t0) pre).1.g.loc.value) (t : Nat)
    (hret : (⟨(SetL.run (SetL.init loc tr h t0) pre).1.nextId, .ret true t⟩ : LOut) ∈
      (SetL.run (SetL.run (SetL.init loc tr h t0) pre).1 (.call v r T :: es)).2) :
    ∃ es1 trip es2, es = es1 ++ .report trip :: es2 ∧
      trip.value ≠ (SetL.run (SetL.init loc tr h t0) pre).1.g.loc.value ∧
      ∀ x ∈ (SetL.run (SetL.run (SetL.init loc tr h t0) pre).1 (.call v r T :: es1)).2, x.o.isFinal = false := by
  generalize (SetL.run (SetL.init loc tr h t0) pre).1 = s at *
  have hb := (sequential_bridge s hq v r T es hes).1
  rw [hb] at hret
  have hany : (SetM.trace { s.g with phase := .idle } v r T es).any isRetTrue = true := by
    simp only [List.mem_map] at hret
    obtain ⟨o, ho, heq⟩ := hret
    simp only [List.any_eq_true]
    refine ⟨o, ho, ?_⟩
    cases heq; rfl
  obtain ⟨es1, trip, es2, he, hne, hnf⟩ := true_sound { s.g with phase := .idle } rfl v r T es hv hany
  refine ⟨es1, trip, es2, he, hne, ?_⟩
  have hes1 : ∀ e ∈ es1, e.isCall = false := fun e he' => hes e (by rw [he]; simp [he'])
  rw [(sequential_bridge s hq v r T es1 hes1).1]
  intro x hx
  simp only [List.mem_map] at hx
  obtain ⟨o, ho, rfl⟩ := hx
  cases hq' : o.isFinal with
  | false => rfl
  | true =>
    have : (SetM.trace { s.g with phase := .idle } v r T es1).any Out.isFinal = true :=
      List.any_eq_true.mpr ⟨o, ho, hq'⟩
    rw [hnf] at this; cases this

/-- **false_sound_each_call** (sequential calls): a call returns `False` only after exactly its `retries` set
requests, and every report received since it was made carried the value held before THAT call. -/
theorem false_sound_each_call (loc : Triple) (tr h : Bool) (t0 : Nat) (pre : List Ev) (v r T : Nat) (es : List Ev)
    (hq : Quiet (SetL.run (SetL.init loc tr h t0) pre).1) (hes : ∀ e ∈ es, e.isCall = false) (t : Nat)
    (hret : (⟨(SetL.run (SetL.init loc tr h t0) pre).1.nextId, .ret false t⟩ : LOut) ∈
      (SetL.run (SetL.run (SetL.init loc tr h t0) pre).1 (.call v r T :: es)).2) :
    (txVals (outsOf (SetL.run (SetL.init loc tr h t0) pre).1.nextId
      (SetL.run (SetL.run (SetL.init loc tr h t0) pre).1 (.call v r T :: es)).2)).length = r ∧
    ∀ es1 trip es2, es = es1 ++ .report trip :: es2 →
      (∀ x ∈ (SetL.run (SetL.run (SetL.init loc tr h t0) pre).1 (.call v r T :: es1)).2, x.o.isFinal = false) →
      trip.value = (SetL.run (SetL.init loc tr h t0) pre).1.g.loc.value := by
  generalize (SetL.run (SetL.init loc tr h t0) pre).1 = s at *
  have hb := (sequential_bridge s hq v r T es hes).1
  rw [hb] at hret ⊢
  have hany : (SetM.trace { s.g with phase := .idle } v r T es).any isRetFalse = true := by
    simp only [List.mem_map] at hret
    obtain ⟨o, ho, heq⟩ := hret
    simp only [List.any_eq_true]
    refine ⟨o, ho, ?_⟩
    cases heq; rfl
  obtain ⟨hcount, hstale⟩ := false_sound { s.g with phase := .idle } rfl v r T es hany
  refine ⟨by rw [outsOf_map_self]; exact hcount, ?_⟩
  intro es1 trip es2 he hnf
  apply hstale es1 trip es2 he
  have hes1 : ∀ e ∈ es1, e.isCall = false := fun e he' => hes e (by rw [he]; simp [he'])
  rw [(sequential_bridge s hq v r T es1 hes1).1] at hnf
  cases hq' : (SetM.trace { s.g with phase := .idle } v r T es1).any Out.isFinal with
  | false => rfl
  | true =>
    obtain ⟨o, ho, hf⟩ := List.any_eq_true.mp hq'
    have := hnf ⟨s.nextId, o⟩ (List.mem_map.mpr ⟨o, ho, rfl⟩)
    rw [hf] at this; cases this

/-! ### examples: sequential calls, and what does NOT hold for overlapping calls -/

/-- seeded C08-m6's scenario: `set(20)` is lost (False, `_pending_update` stays True); `set(10)` — back to the
original value — takes ITS OWN baseline 20, so the report of 10 confirms it -/
example : (SetL.run (SetL.init ⟨10, 0, 100⟩ true false 0)
    [.call 20 1 2000, .timer, .wait 40, .call 10 3 2000, .wait 125, .report ⟨10, 0, 100⟩, .timer]).2 =
    [⟨0, .txSet 20 0⟩, ⟨0, .ret false 2000⟩, ⟨1, .txSet 10 2040⟩, ⟨1, .ret true 4040⟩] := by decide

/-- an out-of-range call while another call is in its loop: `ValueError`, and the running call goes on
transmitting ITS value (seeded C06-m5's scenario) -/
example : (SetL.run (SetL.init ⟨10, 0, 100⟩ true false 0)
    [.call 80 3 2000, .wait 40, .call 200 3 2000, .timer, .timer, .timer]).2 =
    [⟨0, .txSet 80 0⟩, ⟨1, .raise 40⟩, ⟨0, .txSet 80 2000⟩, ⟨0, .txSet 80 4000⟩, ⟨0, .ret false 6000⟩] := by decide

/-- **overlap_true_unsound** — what does NOT hold for overlapping accepted calls: `True` does not mean that
the controller reported a value different from the one held before that call.  Call 0 sets 42 on a held
10; call 1 (50) re-captures the previous value (now 42); the controller reports the ORIGINAL value 10 —
different from 42 — and both calls return `True`, although every report since call 0 carried the value
held before call 0. -/
theorem overlap_true_unsound :
    (SetL.run (SetL.init ⟨10, 0, 100⟩ true false 0)
      [.call 42 3 2000, .wait 40, .call 50 2 2000, .wait 125, .report ⟨10, 0, 100⟩, .timer, .timer]).2 =
    [⟨0, .txSet 42 0⟩, ⟨1, .txSet 50 40⟩, ⟨0, .ret true 2000⟩, ⟨1, .ret true 2040⟩] := by decide

end PlumVerif.C08

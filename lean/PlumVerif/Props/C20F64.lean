import PlumVerif.Model.FiltersF64
import PlumVerif.Proofs.Filters
/-
C20 on binary64 numbers: the `on_change` / `debounce` / `delta` laws with the comparison that
`filters.py` really computes (`math.isclose(old, new, rel_tol=…, abs_tol=TOLERANCE)` on doubles, exact model
`C20F.isclose`), over ALL sequences of finite doubles — no grid assumption.

What the theorems say, and what they do not:
* `onChange_law`, `debounce_law`, `delta_law`: after ANY history a call is (not) delivered exactly as
  the statement prescribes, where "differs" is `¬ isclose(last delivered, value)`.
* `isclose` and the statement's literal reading "`|a − b|` > tolerance on the exact values" (`differs`)
  coincide on the decimal tenths / hundredths the device reports (`decimal_boundary_*`: kernel-evaluated
  on the doubles nearest to k/10, (k+1)/10 …).
* With `rel_tol = 0` (`relTol.num = 0`, pinned for the current source in Props/C20F64Pin.lean) the comparison is, for ALL doubles
  at every magnitude, `|fl(new − old)| > fl(0.1)` (`changed_eq_exceeds`), hence the statement's reading wherever the float
  subtraction is exact (`changed_eq_differs_of_exact`); the one remaining departure is that the subtraction rounds
  (`rounding_witness`: an exact difference above the tolerance by less than half an ulp rounds back onto it).
* While the call leaves `rel_tol` at the default 1e-9 there is a second departure: magnitudes from 10^8 on, where
  1e-9·max(|a|,|b|) exceeds 0.1 (`relative_tolerance_witness`, conditional on that constant).
-/
namespace PlumVerif.C20F
open F64 Machine

/-! ### runs decompose -/

theorem run_append (m : Machine) (s : m.σ) (xs ys : List D) :
    m.run s (xs ++ ys) = m.run s xs ++ m.run (m.final s xs) ys := by
  induction xs generalizing s with
  | nil => rfl
  | cons x xs ih => simp [run, final, ih]

theorem final_append (m : Machine) (s : m.σ) (xs ys : List D) :
    m.final s (xs ++ ys) = m.final (m.final s xs) ys := by
  induction xs generalizing s with
  | nil => rfl
  | cons x xs ih => simp [final, ih]

theorem run_length (m : Machine) (s : m.σ) (xs : List D) : (m.run s xs).length = xs.length := by
  induction xs generalizing s with
  | nil => rfl
  | cons x xs ih => simp [run, ih]

theorem outs_length (m : Machine) (xs : List D) : (m.outs xs).length = xs.length := run_length m _ xs

theorem outs_snoc (m : Machine) (pre : List D) (v : D) :
    m.outs (pre ++ [v]) = m.outs pre ++ [(m.step (m.state pre) v).2] := by
  simp [outs, state, run_append, run]

theorem state_snoc (m : Machine) (pre : List D) (v : D) :
    m.state (pre ++ [v]) = (m.step (m.state pre) v).1 := by
  simp [state, final_append, final]

theorem lastDelivered_snoc (os : List Out) (o : Out) :
    lastDelivered (os ++ [o]) = match o.value? with
      | some v => some v
      | none => lastDelivered os := by
  simp only [lastDelivered, List.reverse_append, List.reverse_cons, List.reverse_nil, List.nil_append,
    List.cons_append, List.findSome?_cons]
  cases o.value? <;> rfl

theorem sinceDelivery_snoc (pre : List D) (os : List Out) (v : D) (o : Out) (h : os.length = pre.length) :
    sinceDelivery (pre ++ [v]) (os ++ [o]) = if o.value?.isNone then sinceDelivery pre os ++ [v] else [] := by
  have hz : (pre ++ [v]).zip (os ++ [o]) = pre.zip os ++ [(v, o)] := by
    rw [List.zip_append (by omega)]; rfl
  simp only [sinceDelivery, hz, List.reverse_append, List.reverse_cons, List.reverse_nil,
    List.nil_append, List.cons_append, List.takeWhile_cons]
  cases o.value? <;> simp

theorem trailing_snoc (p : D → Bool) (l : List D) (x : D) :
    trailing p (l ++ [x]) = if p x then trailing p l + 1 else 0 := by
  simp only [trailing, List.reverse_append, List.reverse_cons, List.reverse_nil, List.nil_append,
    List.cons_append, List.takeWhile_cons]
  cases p x <;> simp

theorem recorded_snoc (vs : List D) (v : D) :
    recorded (vs ++ [v]) = match recorded vs with
      | none => some v
      | some d => if changed d v then some v else recorded vs := by
  simp only [recorded, List.foldl_append, List.foldl_cons, List.foldl_nil]
  cases h : List.foldl _ none vs <;> simp

/-! ### on_change -/

theorem onChange_state (pre : List D) : onChange.state pre = lastDelivered (onChange.outs pre) := by
  induction pre using C20.snoc_induction with
  | nil => rfl
  | snoc pre v ih =>
    rw [state_snoc, outs_snoc, lastDelivered_snoc, ih]
    show (onChangeStep _ v).1 = match (onChangeStep _ v).2.value? with | some w => some w | none => _
    cases h : lastDelivered (onChange.outs pre) with
    | none => simp [onChangeStep, Out.value?]
    | some d => by_cases hc : changed d v = true <;> simp [onChangeStep, Out.value?, hc]

/-- **on_change over doubles**: after any history of finite doubles, a call is delivered iff nothing
was delivered yet or `math.isclose(last delivered, value, abs_tol=TOLERANCE)` is false; unmodified -/
theorem onChange_law (pre : List D) (v : D) :
    onChange.outs (pre ++ [v]) = onChange.outs pre ++ [expectOnChange (onChange.outs pre) v] := by
  rw [outs_snoc, onChange_state]
  show _ ++ [(onChangeStep _ v).2] = _
  simp only [onChangeStep, expectOnChange, changed]
  cases lastDelivered (onChange.outs pre) with
  | none => rfl
  | some d => by_cases hc : isclose d v = true <;> simp [hc]

theorem onChange_first (v : D) (vs : List D) : (onChange.outs (v :: vs)).head? = some (.deliver v) := rfl

/-! ### debounce -/

@[simp] theorem debounce_step (n : Nat) : (debounce n).step = debounceStep n := rfl

theorem debounce_state (n : Nat) (pre : List D) :
    (debounce n).state pre =
      (lastDelivered ((debounce n).outs pre),
       match lastDelivered ((debounce n).outs pre) with
       | none => 0
       | some d => trailing (changed d) (sinceDelivery pre ((debounce n).outs pre))) := by
  induction pre using C20.snoc_induction with
  | nil => rfl
  | snoc pre v ih =>
    rw [state_snoc, outs_snoc, lastDelivered_snoc, sinceDelivery_snoc _ _ _ _ (outs_length _ _), ih]
    simp only [debounce_step]
    cases h : lastDelivered ((debounce n).outs pre) with
    | none => simp [debounceStep, Out.value?] <;> rfl
    | some d =>
      simp only [debounceStep, Option.isNone_some, Bool.false_or]
      by_cases hd : changed d v = true
      · by_cases hn : n ≤ trailing (changed d) (sinceDelivery pre ((debounce n).outs pre)) + 1
        · simp [hd, hn, Out.value?] <;> rfl
        · simp [hd, hn, Out.value?, trailing_snoc] <;> rfl
      · by_cases hn : n ≤ 0
        · simp [hd, hn, Out.value?] <;> rfl
        · simp [hd, hn, Out.value?, trailing_snoc] <;> rfl

/-- **debounce over doubles**: the first value is delivered; afterwards a call is delivered iff the last
`n` consecutive calls since the last delivery, this one included, were all not `isclose` to the last
delivered value -/
theorem debounce_law (n : Nat) (pre : List D) (v : D) :
    (debounce n).outs (pre ++ [v]) =
      (debounce n).outs pre ++ [expectDebounce n pre ((debounce n).outs pre) v] := by
  rw [outs_snoc, debounce_state]
  simp only [debounce_step, debounceStep, expectDebounce, trailing_snoc]
  cases lastDelivered ((debounce n).outs pre) with
  | none => rfl
  | some d =>
    by_cases hd : changed d v = true
    · by_cases hn : n ≤ trailing (changed d) (sinceDelivery pre ((debounce n).outs pre)) + 1 <;> simp [hd, hn]
    · by_cases hn : n ≤ 0 <;> simp [hd, hn]

/-! ### delta -/

theorem delta_state (pre : List D) : delta.state pre = recorded pre := by
  induction pre using C20.snoc_induction with
  | nil => rfl
  | snoc pre v ih =>
    rw [state_snoc, recorded_snoc, ih]
    show (deltaStep _ v).1 = _
    cases h : recorded pre with
    | none => rfl
    | some d => by_cases hc : changed d v = true <;> simp [deltaStep, hc]

/-- **delta over doubles**: the reference is the first value, then every value not `isclose` to the
reference; such a value delivers the correctly rounded float difference to the reference -/
theorem delta_law (pre : List D) (v : D) :
    delta.outs (pre ++ [v]) = delta.outs pre ++ [expectDelta pre v] := by
  rw [outs_snoc, delta_state]
  show _ ++ [(deltaStep _ v).2] = _
  simp only [deltaStep, expectDelta, changed]
  cases recorded pre with
  | none => rfl
  | some d => by_cases hc : isclose d v = true <;> simp [hc]

/-! ### the relative tolerance

`relTol` is whatever the translator read from the call in filters.py.  Everything above holds for any value of it.  Below:
what follows when it is ZERO (`rel_tol=0.0`, the repaired comparison) — for ALL doubles, no magnitude restriction, the
comparison is `|fl(new − old)| > abs_tol` (`changed_eq_exceeds`), and where the float subtraction is exact that is the
statement's "differs by more than the tolerance" on the exact values (`changed_eq_differs_of_exact`).  The hypothesis
`relTol.num = 0` is discharged for the current source in Props/C20F64Pin.lean. -/

theorem rne_of_num_zero (q : Q) (h : q.num = 0) : rne q = ⟨0, 1⟩ := by
  simp [rne, rneNat, h]

theorem fmul_of_num_zero (r x : D) (h : r.num = 0) : fmul r x = ⟨0, 1⟩ :=
  rne_of_num_zero _ (by simp [Q.mul, h])

theorem absTol_num_nonneg : 0 ≤ absTol.num := Int.natCast_nonneg _

theorem le_iff (a b : Q) : a.le b = true ↔ a.num * b.den ≤ b.num * a.den := by
  unfold Q.le; exact decide_eq_true_iff

theorem fabs_num (x : D) : (fabs x).num = (x.num.natAbs : Int) := rfl
theorem fabs_den (x : D) : (fabs x).den = x.den := rfl

theorem le_absTol_of_le_zero (x : D) (h : (fabs x).le ⟨0, 1⟩ = true) : (fabs x).le absTol = true := by
  rw [le_iff] at *
  rw [fabs_num, fabs_den] at *
  have h0 : (x.num.natAbs : Int) = 0 := by
    have : (x.num.natAbs : Int) * ((1 : Nat) : Int) ≤ 0 * (x.den : Int) := h
    omega
  rw [h0, Int.zero_mul]
  exact Int.mul_nonneg absTol_num_nonneg (Int.natCast_nonneg _)

theorem fsub_of_eqv (a b : D) (h : a.eqv b = true) : fsub b a = ⟨0, 1⟩ := by
  apply rne_of_num_zero
  simp only [Q.eqv, beq_iff_eq] at h
  simp only [Q.add, neg, Int.neg_mul]
  omega

/-- with a zero relative tolerance `math.isclose` is the comparison of the ROUNDED difference with the absolute tolerance, for all
doubles (equal values included: their difference is 0) -/
theorem isclose_of_relTol_zero (h : relTol.num = 0) (a b : D) : isclose a b = (fabs (fsub b a)).le absTol := by
  simp only [isclose, fmul_of_num_zero relTol _ h]
  by_cases he : a.eqv b = true
  · rw [he, fsub_of_eqv a b he]; decide
  · have hz : (fabs (⟨0, 1⟩ : D)) = ⟨0, 1⟩ := rfl
    simp only [Bool.not_eq_true] at he
    rw [he, hz, Bool.false_or, Bool.or_self]
    cases hl : (fabs (fsub b a)).le ⟨0, 1⟩
    · simp
    · simp [le_absTol_of_le_zero _ hl]

theorem scaled2_den_pos (k : Int) (m : Nat) : 0 < (scaled2 k m).den := by
  unfold scaled2
  split
  · exact Nat.pow_pos (by decide)
  · exact Nat.one_pos

theorem rneNat_den_pos (n d : Nat) : 0 < (rneNat n d).den := by
  unfold rneNat
  split
  · decide
  · exact scaled2_den_pos _ _

theorem rne_den_pos (q : Q) : 0 < (rne q).den := by
  unfold rne
  split
  · exact rneNat_den_pos _ _
  · exact rneNat_den_pos _ _

theorem le_of_eqv_imp {x y : Q} (t : Q) (hx : 0 < x.den) (h : x.num * y.den = y.num * x.den)
    (hl : x.le t = true) : y.le t = true := by
  rw [le_iff] at *
  have hxd : (0 : Int) < x.den := by exact_mod_cast hx
  have e1 : x.num * t.den * y.den ≤ t.num * x.den * y.den :=
    Int.mul_le_mul_of_nonneg_right hl (Int.natCast_nonneg _)
  have e2 : y.num * t.den * x.den ≤ t.num * y.den * x.den := by
    calc y.num * t.den * x.den = x.num * t.den * y.den := by
          rw [Int.mul_right_comm, ← h, Int.mul_right_comm]
      _ ≤ t.num * x.den * y.den := e1
      _ = t.num * y.den * x.den := Int.mul_right_comm _ _ _
  exact Int.le_of_mul_le_mul_right e2 hxd

theorem le_of_eqv {x y : Q} (t : Q) (hx : 0 < x.den) (hy : 0 < y.den) (h : x.num * y.den = y.num * x.den) :
    x.le t = y.le t := by
  cases hl : x.le t
  · cases hr : y.le t
    · rfl
    · rw [le_of_eqv_imp t hy h.symm hr] at hl; exact hl.symm
  · exact (le_of_eqv_imp t hx h hl).symm

theorem fabs_sub_comm (a b : D) : fabs (a.add (neg b)) = fabs (b.add (neg a)) := by
  have hn : b.num * a.den + -a.num * b.den = -(a.num * b.den + -b.num * a.den) := by
    simp only [Int.neg_mul]; omega
  simp only [fabs, Q.add, neg, hn, Int.natAbs_neg, Nat.mul_comm]

/-- where the float subtraction is exact, "not close" is the statement's "differs by more than the tolerance" on the exact values -/
theorem exceeds_eq_differs_of_exact (a b : D) (ha : 0 < a.den) (hb : 0 < b.den)
    (hex : (fsub b a).eqv (b.add (neg a)) = true) : exceeds a b = differs a b := by
  have key : (fabs (fsub b a)).le absTol = (fabs (b.add (neg a))).le absTol := by
    apply le_of_eqv
    · exact rne_den_pos _
    · exact Nat.mul_pos hb ha
    · simp only [Q.eqv, beq_iff_eq] at hex
      have := congrArg Int.natAbs hex
      simp only [Int.natAbs_mul, Int.natAbs_natCast] at this
      simp only [fabs_num, fabs_den]
      exact_mod_cast this
  simp only [exceeds, differs, fabs_sub_comm a b, key]

/-- **the comparison with `rel_tol = 0`**: for all doubles, at every magnitude, a value counts as changed iff the correctly
rounded difference to the remembered value exceeds the absolute tolerance -/
theorem changed_eq_exceeds (h : relTol.num = 0) (a b : D) : changed a b = exceeds a b := by
  simp only [changed, exceeds, isclose_of_relTol_zero h]

theorem changed_iff_exceeds (h : relTol.num = 0) (a b : D) :
    changed a b = true ↔ (fabs (fsub b a)).le absTol = false := by
  rw [changed_eq_exceeds h]; simp [exceeds]

/-- … and where the float subtraction `b - a` is exact, iff the two values differ by MORE than the tolerance (the statement) -/
theorem changed_eq_differs_of_exact (h : relTol.num = 0) (a b : D) (ha : 0 < a.den) (hb : 0 < b.den)
    (hex : (fsub b a).eqv (b.add (neg a)) = true) : changed a b = differs a b := by
  rw [changed_eq_exceeds h, exceeds_eq_differs_of_exact a b ha hb hex]

/-- the filter laws with `rel_tol = 0`: on_change / delta deliver exactly the values whose rounded difference to the last
delivered / the reference exceeds the tolerance; debounce counts exactly those -/
theorem onChange_law_exceeds (h : relTol.num = 0) (pre : List D) (v : D) :
    onChange.outs (pre ++ [v]) = onChange.outs pre ++
      [match lastDelivered (onChange.outs pre) with
       | none => .deliver v
       | some d => if exceeds d v then .deliver v else .skip] := by
  rw [onChange_law, expectOnChange]
  cases lastDelivered (onChange.outs pre) with
  | none => rfl
  | some d =>
    have he : isclose d v = !exceeds d v := by rw [← changed_eq_exceeds h d v]; simp [changed]
    simp only [he]
    cases exceeds d v <;> simp

theorem debounce_law_exceeds (h : relTol.num = 0) (n : Nat) (pre : List D) (v : D) :
    (debounce n).outs (pre ++ [v]) = (debounce n).outs pre ++
      [match lastDelivered ((debounce n).outs pre) with
       | none => .deliver v
       | some d => if n ≤ trailing (exceeds d) (sinceDelivery pre ((debounce n).outs pre) ++ [v]) then .deliver v else .skip] := by
  rw [debounce_law, expectDebounce]
  cases lastDelivered ((debounce n).outs pre) with
  | none => rfl
  | some d =>
    have hf : changed d = exceeds d := funext (changed_eq_exceeds h d)
    simp only [hf]

theorem delta_law_exceeds (h : relTol.num = 0) (pre : List D) (v : D) :
    delta.outs (pre ++ [v]) = delta.outs pre ++
      [match recorded pre with
       | none => .skip
       | some d => if exceeds d v then .deliver (fsub v d) else .skip] := by
  rw [delta_law, expectDelta]
  cases recorded pre with
  | none => rfl
  | some d =>
    have he : isclose d v = !exceeds d v := by rw [← changed_eq_exceeds h d v]; simp [changed]
    simp only [he]
    cases exceeds d v <;> simp

/-! ### the comparison at the statement's boundary (kernel-evaluated on the exact binary64 model) -/

/-- the translated constants: the call's `abs_tol` is the source's `TOLERANCE`, which is the double of 0.1; the default `rel_tol`
of `math.isclose` (what an absent keyword means) is the double of 1e-09 -/
theorem absTol_is_TOLERANCE : absTol = ⟨Gen.toleranceNum, Gen.toleranceDen⟩ := by decide
theorem absTol_is_double_of_one_tenth : absTol.eqv (dec 1 1) = true := by decide +kernel
theorem default_relTol_is_double_of_1e_9 : (⟨Gen.iscloseRelTolNum, Gen.iscloseRelTolDen⟩ : D).eqv (dec 1 9) = true := by decide +kernel
/-- the translator's value was confirmed by its probes of `on_change` (read from the source and confirmed, or found by the probes alone) -/
theorem relTol_confirmed_by_probes : Gen.numericCompareSource = "source+probes" ∨ Gen.numericCompareSource = "probes" := by decide

/-- decimal inputs exactly 0.1 apart, as the doubles nearest to them.  Whether the SECOND is a change
depends on the binary values: 20.1 → 20.2 is not (the doubles are 0.0999999999999978… apart),
0.2 → 0.3 is not, 0.3 → 0.4 IS (0.10000000000000003…), 1.0 → 1.1 IS, 0.0 → 0.1 is not (exactly the
tolerance).  In each case the code's comparison is the statement's on the exact values. -/
theorem decimal_boundary_201_202 : isclose (dec 201 1) (dec 202 1) = true ∧ differs (dec 201 1) (dec 202 1) = false := by
  decide +kernel
theorem decimal_boundary_02_03 : isclose (dec 2 1) (dec 3 1) = true ∧ differs (dec 2 1) (dec 3 1) = false := by
  decide +kernel
theorem decimal_boundary_03_04 : isclose (dec 3 1) (dec 4 1) = false ∧ differs (dec 3 1) (dec 4 1) = true := by
  decide +kernel
theorem decimal_boundary_10_11 : isclose (dec 10 1) (dec 11 1) = false ∧ differs (dec 10 1) (dec 11 1) = true := by
  decide +kernel
theorem decimal_boundary_00_01 : isclose (dec 0 1) (dec 1 1) = true ∧ differs (dec 0 1) (dec 1 1) = false := by
  decide +kernel

/-- every pair of neighbouring tenths k/10, (k+1)/10 for k = -60 .. 1059 (the range of the temperatures
and levels the controller reports): the code's comparison agrees with the statement's reading on the
exact values of the two doubles -/
def tenthsAgree (lo : Int) (n : Nat) : Bool :=
  (List.range n).all fun i =>
    isclose (dec (lo + i) 1) (dec (lo + i + 1) 1) == !differs (dec (lo + i) 1) (dec (lo + i + 1) 1) &&
    isclose (dec (lo + i + 1) 1) (dec (lo + i) 1) == !differs (dec (lo + i + 1) 1) (dec (lo + i) 1)

theorem tenths_agree_a : tenthsAgree (-60) 280 = true := by decide +kernel
theorem tenths_agree_b : tenthsAgree 220 280 = true := by decide +kernel
theorem tenths_agree_c : tenthsAgree 500 280 = true := by decide +kernel
theorem tenths_agree_d : tenthsAgree 780 280 = true := by decide +kernel

/-- region (1) where the code departs from the literal reading: the float subtraction rounds.  A value a hair
below zero and the double of 0.1 itself -/
def rw_a : D := ⟨-1, 2 ^ 70⟩                    -- −2^-70
def rw_b : D := absTol                           -- the double of 0.1

/-- `b − a = 0.1000000000000000055… + 2^-70` exceeds the tolerance on the exact values, the float
subtraction rounds it back to the tolerance: the code says "unchanged", the literal reading "changed" -/
theorem rounding_witness : differs rw_a rw_b = true ∧ isclose rw_a rw_b = true := by decide +kernel

/-- region (2), ONLY while the call leaves `rel_tol` at math.isclose's default 1e-09 (the hypothesis is false, and this says nothing,
once the source passes `rel_tol=0.0`): from 10^8 on the relative tolerance governs: 200000000.0 and 200000000.15 differ by more than
0.1, and `on_change` does not deliver the second -/
theorem relative_tolerance_witness : relTol.eqv (dec 1 9) = true →
    differs (dec 200000000 0) (dec 20000000015 2) = true ∧ isclose (dec 200000000 0) (dec 20000000015 2) = true ∧
    onChange.outs [dec 200000000 0, dec 20000000015 2] = [.deliver (dec 200000000 0), .skip] := by decide +kernel

/-- the same pair with `rel_tol = 0`: delivered (kernel-evaluated; also an instance of `onChange_law_exceeds`) -/
theorem large_step_delivered_when_relTol_zero : relTol.num = 0 →
    onChange.outs [dec 200000000 0, dec 20000000015 2] = [.deliver (dec 200000000 0), .deliver (dec 20000000015 2)] := by decide +kernel

/-- below 10^6 (the magnitude of everything the library dispatches) the same step IS delivered -/
example : onChange.outs [dec 200000 0, dec 20000015 2] = [.deliver (dec 200000 0), .deliver (dec 20000015 2)] := by
  decide +kernel

/-- non-vacuity of the laws: a drift of hundredths around a delivered 20.0 -/
example : onChange.outs [dec 200 1, dec 2005 2, dec 201 1, dec 2011 2, dec 202 1, dec 2021 2]
    = [.deliver (dec 200 1), .skip, .deliver (dec 201 1), .skip, .skip, .deliver (dec 2021 2)] := by decide +kernel

example : (debounce 2).outs [dec 0 1, dec 5 1, dec 0 1, dec 5 1, dec 6 1, dec 6 1]
    = [.deliver (dec 0 1), .skip, .skip, .skip, .deliver (dec 6 1), .skip] := by decide +kernel

example : delta.outs [dec 201 1, dec 202 1, dec 204 1] = [.skip, .skip, .deliver (fsub (dec 204 1) (dec 201 1))] := by
  decide +kernel

end PlumVerif.C20F

import PlumVerif.Proofs.FrameStream
/-
C04 — stream reassembly is fragmentation independent; skipped frames never desynchronise it.
-/
namespace PlumVerif.C04
open PlumVerif

/-- the statement's classification of a well-formed frame: delivered iff it is addressed to
the library (86) or broadcast (0), comes from a known sender and has a known kind; otherwise
reported as ignored or as a protocol error -/
theorem classify_spec (f : Fields) :
    (classify f = .delivered f ↔ (isForUs f.rcpt ∧ knownDevice f.sender ∧ knownFrame f.kind)) ∧
    (classify f = .delivered f ∨ classify f = .ignored ∨ ∃ e, classify f = .protoErr e) := by
  unfold classify
  by_cases h1 : isForUs f.rcpt = true <;> by_cases h2 : knownDevice f.sender = true <;>
    by_cases h3 : knownFrame f.kind = true <;> simp [h1, h2, h3]

/-- **C04 (one frame)**: whatever its recipient, sender, kind, payload bytes (start-delimiter
bytes included) and last byte, a well-formed frame followed by ANY bytes is consumed exactly
and classified by its own gates; nothing after it is touched. -/
theorem one_frame (f : Fields) (e : Byte) (rest : List Byte) (hlen : f.payload.length + 10 ≤ 1000) :
    readFrame (encodeWith f e ++ rest) = (classify f, rest) :=
  read_encoded f e rest hlen

/-- **C04 (stream)**: any finite sequence of well-formed frames sent back to back is read as
exactly those frames — each once, in order, each call consuming exactly its own frame's bytes —
followed by the end-of-stream report.  Frames that are skipped (foreign recipient) or rejected
(unknown sender, unknown kind) never cause a later frame to be lost or mis-parsed. -/
theorem stream (fs : List (Fields × Byte)) (hlen : ∀ p ∈ fs, p.1.payload.length + 10 ≤ 1000) :
    readAll (fs.flatMap fun p => encodeWith p.1 p.2) =
      fs.map (fun p => (classify p.1, p.1.wireLength)) ++ [(.connLost, 0)] :=
  readAll_frames fs hlen

/-- the delivered subsequence is exactly the sub-list of frames that pass the three gates -/
theorem delivered_exactly (fs : List (Fields × Byte)) (hlen : ∀ p ∈ fs, p.1.payload.length + 10 ≤ 1000) :
    (readAll (fs.flatMap fun p => encodeWith p.1 p.2)).filterMap
        (fun o => match o.1 with | .delivered f => some f | _ => none) =
      (fs.map (·.1)).filter (fun f => isForUs f.rcpt && knownDevice f.sender && knownFrame f.kind) := by
  rw [stream fs hlen]
  simp only [List.filterMap_append, List.filterMap_cons, List.filterMap_nil, List.append_nil]
  have sel : ∀ f : Fields, (match classify f with | .delivered g => some g | _ => none) =
      if (isForUs f.rcpt && knownDevice f.sender && knownFrame f.kind) = true then some f else none := by
    intro f
    unfold classify
    by_cases h1 : isForUs f.rcpt = true <;> by_cases h2 : knownDevice f.sender = true <;>
      by_cases h3 : knownFrame f.kind = true <;> simp [h1, h2, h3]
  clear hlen
  induction fs with
  | nil => rfl
  | cons p ps ih =>
    simp only [List.map_cons, List.filterMap_cons, List.filter_cons, sel]
    by_cases hc : (isForUs p.1.rcpt && knownDevice p.1.sender && knownFrame p.1.kind) = true
    · simp only [hc, if_true]; rw [ih]
    · simp only [hc]; rw [ih]; simp

/-- **fragmentation independence (byte-level content)**: an outcome that was not caused by the
end of the stream is decided by the bytes consumed so far; bytes that arrive later — in
whatever chunks — are left in the stream untouched.  (That `asyncio.StreamReader` presents the
same byte sequence for every chunking is trusted and exercised by the harness.) -/
theorem prefix_determinism {s rest : List Byte} {o : Outcome}
    (h : readFrame s = (o, rest)) (ho : o.eofCaused = false) (more : List Byte) :
    readFrame (s ++ more) = (o, rest ++ more) :=
  readFrame_append h ho more

/-- non-vacuity: own frame, foreign frame whose checksum byte is the start delimiter (the D4
trigger), broadcast frame — all three classified, in order -/
example : (readAll ([0x68, 0x0a, 0x00, 0x56, 0x45, 0x30, 0x05, 0x19, 0x5d, 0x16] ++
                    [0x68, 0x0b, 0x00, 0x01, 0x45, 0x30, 0x05, 0x19, 0x63, 0x68, 0x16] ++
                    [0x68, 0x0a, 0x00, 0x00, 0x45, 0x30, 0x05, 0x19, 0x0b, 0x16])).map (·.1) =
    [.delivered ⟨0x19, 0x56, 0x45, 0x30, 0x05, []⟩, .ignored,
     .delivered ⟨0x19, 0x00, 0x45, 0x30, 0x05, []⟩, .connLost] := by decide

end PlumVerif.C04

import PlumVerif.Proofs.ConnClean
import PlumVerif.Props.C12
/-
C12, the safety half for EVERY schedule: whatever happened before `close()` was called, whatever happens while it waits
(frames, losses, reconnect attempts and their retries, timers in any order, user activity) - IF `close()` has returned,
the connection is clean: transport closed, not connected, no task of the protocol, the connection, a device or a
sub-device pending.  No `AtRest`, no `Drains`, no modelled scheduler: the quantifier is over all event lists of the
connection machine (`Reachable`).  Termination itself stays conditional (finding F1: `C12.close_partial`,
`C12.close_stuck_witness`).

Granularity (disclosed): the machine's `shutdownRun` is ONE micro event - the protocol's `cancel_tasks()` /
`wait_until_done()`, `close_writer()`, the devices' shutdown and the connection's second `cancel_tasks()` with nothing in
between (a `wait_closed()` that hangs IS a phase of its own: `CPhase.wclosing`, covered here).  The implementation yields to
the event loop a few times inside that step; `lateOpen` below is the machine's account of an establishment that falls
into it, `late_open_window` shows that the result is NOT clean, and the harness section `late_open_variant` (c12.py) walks
through the window on the implementation: report W5b-defect-1 (genuine defect of the pinned tree, residual of D25).
-/
set_option linter.unusedSimpArgs false

namespace PlumVerif.C12
open PlumVerif.Conn

/-- the property's words about a connection whose `close()` has returned, clause by clause -/
structure Clean (s : St) : Prop where
  /-- "the transport is closed": the current transport has been close()d and `Protocol.writer` is reset -/
  transport : s.wopen = false ∧ s.writer = none
  /-- the protocol does not consider itself connected (nothing will be announced or sent any more) -/
  disconnected : s.connected = false
  /-- "no task created by the protocol": producer, consumers, the loss handler and the reconnect routine it runs -/
  protocol : s.producers = 0 ∧ s.consumers = 0 ∧ lostTasks s = 0
  /-- "... the connection": the `_reconnect` retry task (daf0ebe / D25) -/
  connection : connTasks s = 0
  /-- "... a device": set-up tasks, their request tasks, tasks of the device's own task set -/
  device : setupTasks s = 0 ∧ reqTasks s = 0 ∧ devOwnTasks s = 0
  /-- "... or a sub-device": tasks of every mixer and every thermostat -/
  subDevice : subOwnTasks s = 0
  /-- no reconnect routine in any stage, whoever owns it (so the object can be used again: `reopen_enabled`) -/
  idle : s.recon = .idle
  /-- ... and by coroutine name: every entry of the prediction the harness compares `asyncio.all_tasks()` with is 0 -/
  names : ((taskNames s).map (·.2)).sum = 0

theorem clean_of_doneok {s : St} (h : DoneOK s) : Clean s := by
  have ht := h.tasks
  have hj : joinTasks s = 0 := by
    have hk := h.k
    cases hc : s.closing <;> simp_all [cls, joinTasks, isJoining]
  have hl : lostTasks s = 0 := by
    simp [lostTasks, h.halted.lp, h.halted.lm, h.halted.recon, reconProtoTasks]
  refine ⟨⟨h.halted.wopen, h.writer⟩, h.halted.conn, ⟨h.halted.prod, h.halted.cons, hl⟩, ?_, ?_, ?_, h.halted.recon, ?_⟩
  · simp [connTasks, h.halted.recon, reconOwner]
  · unfold tasks deviceTasks at ht; omega
  · unfold tasks deviceTasks at ht; omega
  · rw [taskNames_total, ht, hj]

/-- **C12, safety, every schedule** (`done_clean`): in EVERY reachable state of the connection machine in which `close()`
has returned, the connection is clean.  `Reachable` = any event list from any initial configuration: every history, every
point at which close() is called (at rest or not), every interleaving of what happens while it waits - including a retry
task created while `shutdown()` waits (D25), a loss in the middle of the join, a `wait_closed()` that hangs. -/
theorem done_clean {s : St} (hs : Reachable s) (hd : isDone s.closing = true) : Clean s :=
  clean_of_doneok (hs.doneok hd)

/-- the same, as a statement about schedules: from any reachable state, after ANY list of events, if close() has returned
by then, the state is clean (no hypothesis on the state close() is called in, none on the schedule) -/
theorem close_returned_clean {s : St} (hs : Reachable s) (es : List Ev) (hd : isDone (run s es).1.closing = true) :
    Clean (run s es).1 :=
  done_clean (hs.run es) hd

/-- ... and it stays clean: nothing but time passes on a closed connection until the object is used again -/
theorem closed_stays_clean {s : St} (hs : Reachable s) (hd : isDone s.closing = true) (e : Ev) (he : e ≠ .reopen) :
    isDone (step s e).1.closing = true ∧ Clean (step s e).1 := by
  have hdone : isDone (step s e).1.closing = true := by
    cases e <;> first | (simp [step, stepDone, hd]; done) | exact absurd rfl he
  have hr : Reachable (step s e).1 := by
    have := hs.run [e]
    simpa [run] using this
  exact ⟨hdone, done_clean hr hdone⟩

/-- **the guard of `reopen` never bites** (`reopen_enabled`): on a connection whose close() has returned the object can
always be used again - `connect()` / `close()` on it start from `closing = .no` -/
theorem reopen_enabled {s : St} (hs : Reachable s) (hd : isDone s.closing = true) :
    (step s .reopen).1 = { s with closing := .no, rj := false } := by
  have hc := done_clean hs hd
  have hm : s.lostMid = false := by
    have := hc.protocol.2.2
    unfold lostTasks at this
    cases hm : s.lostMid
    · rfl
    · simp [hm] at this
  simp [step, stepDone, reopenEv, hd, hc.disconnected, hm, hc.idle]

/-- while close() waits in `wait_closed()` of the transport nothing of the library is running either - whatever the
schedule (the only thing that can still happen is WRITER_TIMEOUT) -/
theorem waiting_for_transport_halted {s : St} (hs : Reachable s) (t0 dl : Nat) (hc : s.closing = .wclosing t0 dl) :
    Halted s := by
  rcases hs.zinv with h | h | h
  · have := h.k; rw [hc] at this; simp [cls] at this
  · exact h.halted
  · have := h.k; rw [hc] at this; simp [cls] at this

/-- a reconnect attempt in flight - whoever runs it - means that the previous transport is gone: `close_writer()` of
`shutdown()` cannot hang on it (what makes the `wait_closed()` phase safe) -/
theorem attempt_in_flight_no_writer {s : St} (hs : Reachable s) (hk : cls s.closing ≤ 1) (dl : Nat) (o : Owner)
    (hr : s.recon = .attempting dl o ∨ s.recon = .backoff dl o) : s.writer = none := by
  rcases hs.zinv with h | h | h
  · have hd := down_of_recon hs.inv (by rcases hr with hr | hr <;> (rw [hr]; simp))
    exact h.j hd.1 hd.2 (by intro d; rcases hr with hr | hr <;> (rw [hr]; simp))
  · have := h.k; omega
  · have := h.k; omega

/-! ### non-vacuity -/

/-- D25's history (a retry task created while close() waits behind a slow subscriber): reachable, close() returned, and
what `done_clean` says, computed -/
def exD25 : St :=
  (run (init 2 true [.ok .ok .ok, .err, .err, .ok .ok .ok])
    [.connect, .prodStart, .gate 69, .feed (.pw 69), .take, .readFault, .lostRun, .close, .advance 20000,
     .tick .backoffEnd, .release, .shutdownRun]).1

example : Reachable exD25 := ⟨2, true, _, _, rfl⟩
example : isDone exD25.closing = true ∧ tasks exD25 = 0 ∧ exD25.recon = .idle ∧ exD25.wopen = false := by decide

/-- close() in the middle of everything: loss handler pending, frames in the read queue, requests queued, a hanging
`wait_closed()` (twice) - not at rest, not draining; the join completes because the reconnect drains the queue -/
def exBusy : St :=
  (run (init 3 true [.ok .ok .hang, .ok .ok .hang])
    [.connect, .prodStart, .feed (.sensors 1 1), .take, .park (.mixer 0), .enq 2, .readFault, .close, .lostRun, .lostRun2,
     .advance 10000, .tick .wcloseTO, .prodStart, .feed .foreign, .feed .foreign, .shutdownRun, .advance 10000,
     .tick .cwcloseTO]).1

example : Reachable exBusy := ⟨3, true, _, _, rfl⟩
example : isDone exBusy.closing = true ∧ tasks exBusy = 0 ∧ exBusy.wopen = false ∧ exBusy.now = 20000 ∧ exBusy.nextTid = 2 := by decide

/-! ### a pending open as a move of the machine -/

/-- **`done_clean` with opens that complete at any moment** (`done_clean_open`): add to the machine's events the move "an
`_open_connection` call started earlier completes now - with a transport, or by raising" (`Conn.openDone`; `close()` may
fall between the start of a call and its completion, in the join or before).  Still: whenever close() has returned the
connection is clean.  (What seeded C12-m13 breaks: without the first `cancel_tasks()` the attempt of the connection's
retry task survives `closeEv` and `U`/`J` no longer hold.)  The window inside `shutdownRun` stays outside: `late_open_window`. -/
theorem done_clean_open {s : St} (hs : Reach1 s) (hd : isDone s.closing = true) : Clean s :=
  clean_of_doneok (hs.doneok hd)

/-- non-vacuity: close() between the start of the retry task's open and its success - the first `cancel_tasks()` takes the
attempt away, the late success finds nobody; and an attempt of the loss handler that succeeds while close() waits in the
join (the protocol is alive again, requests drain, then everything is taken apart) -/
example :
    let s1 := run1 (init 3 true [.ok .ok .ok, .err, .hang])
      [.inl .connect, .inl .prodStart, .inl .readFault, .inl .lostRun, .inl (.advance 20000), .inl (.tick .backoffEnd),
       .inl .close, .inr (.ok .ok .ok), .inl .shutdownRun]
    isDone s1.closing = true ∧ tasks s1 = 0 ∧ s1.nextTid = 1 := by decide

example :
    let s2 := run1 (init 3 true [.ok .ok .ok, .hang])
      [.inl .connect, .inl .prodStart, .inl (.enq 1), .inl .readFault, .inl .lostRun, .inl .close, .inr (.ok .ok .ok),
       .inl .prodStart, .inl (.feed .foreign), .inl .shutdownRun]
    isDone s2.closing = true ∧ tasks s2 = 0 ∧ s2.nextTid = 2 ∧ s2.wopen = false ∧ s2.writeQ = [] := by decide

/-! ### the window inside `shutdownRun` (report W5b-defect-1) -/

/-- close() waits in `Queues.join` (behind a slow subscriber) when the back-off of the failed first reconnect attempt ends:
the retry is a task of the CONNECTION, its `_open_connection` is in flight; then the subscriber returns -/
def exLateOpen : St :=
  (run (init 3 true [.ok .ok .ok, .err, .hang])
    [.connect, .prodStart, .gate 69, .feed (.pw 69), .take, .readFault, .lostRun, .close, .advance 20000,
     .tick .backoffEnd, .release]).1

/-- `shutdown()` after `Queues.join`, split where the implementation yields to the event loop, with the retry task's
open completing in between: (1) the protocol's `cancel_tasks()` + `wait_until_done()`; (2) `connection_established`
called by the connection's retry task; (3) `_connection_close()` / `close_writer()`, the devices, the connection's second
`cancel_tasks()` (the retry task has finished by then: nothing to cancel) -/
def lateOpen (s : St) (t0 : Nat) : St :=
  let c := cancelProto s
  let e := (establish { c with recon := .idle } .ok .ok).1
  (shutdownTail e t0).1

/-- ... the same with the open completing after `close_writer()`, before the devices are shut down -/
def lateOpen2 (s : St) (t0 : Nat) : St :=
  let c := cancelProto s
  let a := (closeWriter { c with connected := false }).1
  let e := (establish { a with writer := none, recon := .idle } .ok .ok).1
  (finishClose e t0).1

/-- **the machine's single-step `shutdownRun` hides a window** (what the all-schedule theorem above does NOT cover, and the
implementation gets wrong - report W5b-defect-1): from a reachable state with close() past the join and a retry attempt of
the connection in flight, the atomic step is clean, but an establishment between the protocol's clean-up and the
connection's second `cancel_tasks()` leaves a producer and three consumers behind after close() has returned - and, one
await later, also an open transport on a protocol that says it is connected.  Observed on the implementation at loop
iterations 3..5 and 6..8 after `join()` returned (`late_open_variant`). -/
theorem late_open_window :
    Reachable exLateOpen ∧ exLateOpen.closing = .joined 0 ∧ exLateOpen.rj = true ∧
    reconOwner exLateOpen.recon = some .conn ∧
    tasks (step exLateOpen .shutdownRun).1 = 0 ∧
    (isDone (lateOpen exLateOpen 0).closing = true ∧ (lateOpen exLateOpen 0).producers = 1 ∧
      (lateOpen exLateOpen 0).consumers = 3 ∧ (lateOpen exLateOpen 0).wopen = false) ∧
    (isDone (lateOpen2 exLateOpen 0).closing = true ∧ (lateOpen2 exLateOpen 0).producers = 1 ∧
      (lateOpen2 exLateOpen 0).wopen = true ∧ (lateOpen2 exLateOpen 0).connected = true) := by
  refine ⟨⟨3, true, _, _, rfl⟩, ?_⟩
  decide

end PlumVerif.C12

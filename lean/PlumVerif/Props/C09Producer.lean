import PlumVerif.Proofs.Producer
import PlumVerif.Props.C04
import PlumVerif.Props.C14
import PlumVerif.Props.C09
/-
C09 / C14 — `AsyncProtocol.frame_producer` (Model/Producer.lean): property theorems.

Quantifiers: every initial write queue `q`, every write-fault script `script : List Cyc`
(frames queued by other tasks at any cycle boundary, `connected` cleared by somebody else at
any boundary, every write ending ok / OSError / timeout), every list of read outcomes `rds`
— in particular `readsOf mode s` for EVERY byte stream `s` (noise included) followed by end
of stream or by silence.
-/
namespace PlumVerif.C09Producer
open PlumVerif PlumVerif.Producer

/-- **producer_continues**: as long as no write fails and nobody else disconnects, the loop
survives every read outcome that is not a lost connection or a timeout — delivered frames,
ignored frames, every protocol error, any other exception: after `rds` it is still running,
has made exactly `rds.length` reads and has no stop reason. -/
theorem producer_continues (fixed : Bool) (q : List Nat) (script : List Cyc) (rds : List ROut)
    (hscript : ∀ c ∈ script, c.disc = false ∧ c.wr = .ok) (hrds : ∀ rd ∈ rds, rd.stops = false) :
    (Producer.run fixed (init q) script rds).running = true ∧ (Producer.run fixed (init q) script rds).reads = rds.length ∧
      (Producer.run fixed (init q) script rds).stop = none := by
  have := run_continues fixed (init q) script rds rfl hscript hrds
  simpa [init] using this

/-- a protocol error never is a stopping outcome (whatever the error) -/
theorem protoErr_never_stops (e : PErr) : (ROut.frame (.protoErr e)).stops = false := rfl

/-- **the loop stops only on a loss**: whatever the inputs, if the loop ended then for exactly
one of five reasons, each justified by the inputs: `read()` reported the connection lost /
timed out, a write raised OSError / timed out, or `connected` was cleared by somebody else.
There is no stop reason for a protocol error. -/
theorem stops_only_on_loss (fixed : Bool) (q : List Nat) (script : List Cyc) (rds : List ROut) (r : Stop)
    (h : (Producer.run fixed (init q) script rds).stop = some r) :
    match r with
    | .readLost => ROut.frame .connLost ∈ rds
    | .readTimeout => ROut.timeout ∈ rds
    | .writeError => ∃ c ∈ script, c.wr = .osError
    | .writeTimeout => ∃ c ∈ script, c.wr = .timeout
    | .disconnected => ∃ c ∈ script, c.disc = true := by
  have := stop_justified fixed (init q) script rds (inv_init fixed q) rfl r h
  cases r <;> exact this

/-- **enqueued_exactly_delivered**: for every script (write faults included) the frames on
the read queue are exactly the delivered outcomes among the reads that were made — in order,
each once, nothing else. -/
theorem enqueued_exactly_delivered (fixed : Bool) (q : List Nat) (script : List Cyc) (rds : List ROut) :
    (Producer.run fixed (init q) script rds).readQ =
      deliveredOf (rds.take (Producer.run fixed (init q) script rds).reads) := by
  have := readQ_run fixed (init q) script rds
  simpa [init] using this

theorem deliveredOf_frames (l : List (Outcome × Nat)) :
    deliveredOf (l.map fun p => ROut.frame p.1) =
      l.filterMap (fun o => match o.1 with | .delivered f => some f | _ => none) := by
  induction l with
  | nil => rfl
  | cons p l ih =>
    obtain ⟨o, n⟩ := p
    cases o <;> simp [deliveredOf, ih]

/-- running through a prefix of non-stopping reads with a healthy environment -/
theorem run_through (fixed : Bool) (pre rest : List ROut) :
    ∀ (s : St) (script : List Cyc), s.running = true → (∀ c ∈ script, c.disc = false ∧ c.wr = .ok) →
      (∀ rd ∈ pre, rd.stops = false) →
      ∃ s' script', Producer.run fixed s script (pre ++ rest) = Producer.run fixed s' script' rest ∧ s'.running = true ∧
        s'.reads = s.reads + pre.length ∧ s'.stop = s.stop ∧ (∀ c ∈ script', c.disc = false ∧ c.wr = .ok) := by
  induction pre with
  | nil => intro s script hrun hs _; exact ⟨s, script, rfl, hrun, by simp, rfl, hs⟩
  | cons rd pre ih =>
    intro s script hrun hs hpre
    have hc : (nextCyc script).1.disc = false ∧ (nextCyc script).1.wr = .ok := by
      cases script with
      | nil => exact ⟨rfl, rfl⟩
      | cons c t => exact hs c (by simp)
    have ht : ∀ c ∈ (nextCyc script).2, c.disc = false ∧ c.wr = .ok := fun c hc => hs c (mem_nextCyc script c hc)
    obtain ⟨w1, w2⟩ := writePhase_ok fixed s _ hrun hc.1 hc.2
    obtain ⟨r1, _, r3, r4⟩ := readPhase_running _ rd w1
    have hns : rd.stops = false := hpre rd (by simp)
    obtain ⟨s', script', e, h1, h2, h3, h4⟩ := ih _ _ (by rw [r3, hns]; rfl) ht (fun x hx => hpre x (by simp [hx]))
    refine ⟨s', script', by simpa [Producer.run] using e, h1, ?_, ?_, h4⟩
    · rw [h2, r1, (writePhase_reads fixed s _).1]; simp; omega
    · rw [h3, r4 hns, w2]

/-- **whatever the noise** (composition with `C14.outcomes` / the shape of `readAll`): for
EVERY byte stream followed by end of stream, with writes that succeed, the loop makes every
`read()` call of `readAll s` — it is not stopped by any of the protocol errors on the way —
and ends exactly at the end of the stream (`readLost`), with exactly the delivered frames of
`readAll s` on the read queue in order, and the loss scheduled once. -/
theorem producer_survives_noise (q : List Nat) (script : List Cyc) (s : List Byte)
    (hscript : ∀ c ∈ script, c.disc = false ∧ c.wr = .ok) :
    let t := runStream true .eof q script s
    t.stop = some .readLost ∧ t.reads = (readAll s).length ∧
      t.readQ = (readAll s).filterMap (fun o => match o.1 with | .delivered f => some f | _ => none) ∧
      t.lossScheduled = 1 ∧ t.wUnfinished = t.writeQ.length := by
  obtain ⟨pre, n, hshape, hpre⟩ := readAll_shape s
  have hreads : readsOf .eof s = pre.map (fun p => ROut.frame p.1) ++ [.frame .connLost] := by
    simp [readsOf, hshape]
  have hns : ∀ rd ∈ pre.map (fun p => ROut.frame p.1), rd.stops = false := by
    intro rd hrd
    obtain ⟨p, hp, rfl⟩ := List.mem_map.mp hrd
    have := hpre p hp
    cases hp1 : p.1 <;> simp_all [ROut.stops]
  obtain ⟨s', script', e, h1, h2, h3, h4⟩ :=
    run_through true (pre.map fun p => ROut.frame p.1) [.frame .connLost] (init q) script rfl hscript hns
  have hc : (nextCyc script').1.disc = false ∧ (nextCyc script').1.wr = .ok := by
    cases script' with
    | nil => exact ⟨rfl, rfl⟩
    | cons c t => exact h4 c (by simp)
  obtain ⟨w1, w2⟩ := writePhase_ok true s' _ h1 hc.1 hc.2
  have hlast : Producer.run true s' script' [.frame .connLost] =
      lose { writePhase true s' (nextCyc script').1 with reads := (writePhase true s' (nextCyc script').1).reads + 1 } .readLost := by
    simp only [Producer.run]
    rw [readPhase_running' _ _ w1]
    simp only [readOne]
    exact writePhase_stopped true _ _ (by simp [lose])
  have hinv := inv_run true (init q) script (readsOf .eof s) (inv_init true q)
  have hrun : runStream true .eof q script s = Producer.run true (init q) script (readsOf .eof s) := rfl
  have hfin : Producer.run true (init q) script (readsOf .eof s) =
      lose { writePhase true s' (nextCyc script').1 with reads := (writePhase true s' (nextCyc script').1).reads + 1 } .readLost := by
    rw [hreads, e, hlast]
  have hstop : (Producer.run true (init q) script (readsOf .eof s)).stop = some .readLost := by rw [hfin]; rfl
  have hcount : (Producer.run true (init q) script (readsOf .eof s)).reads = (readAll s).length := by
    rw [hfin, hshape]
    simp only [lose, (writePhase_reads true s' _).1, h2, init, List.length_map, List.length_append, List.length_cons,
      List.length_nil]
    omega
  refine ⟨hstop, hcount, ?_, ?_, hinv.bal rfl⟩
  · have := enqueued_exactly_delivered true q script (readsOf .eof s)
    rw [hrun, this, hcount]
    have hl : (readsOf .eof s).length = (readAll s).length := by simp [readsOf]
    rw [← hl, List.take_length]
    simp only [readsOf]
    exact deliveredOf_frames _
  · rw [hrun, hinv.loss, hstop]; rfl

/-- … and for a back-to-back sequence of well-formed frames (composition with `C04.stream`):
the read queue ends up with exactly the frames that pass the three gates, each once, in order;
skipped and rejected frames in between cost nothing. -/
theorem wellformed_sequence_enqueued (q : List Nat) (script : List Cyc) (fs : List (Fields × Byte))
    (hlen : ∀ p ∈ fs, p.1.payload.length + 10 ≤ 1000)
    (hscript : ∀ c ∈ script, c.disc = false ∧ c.wr = .ok) :
    (runStream true .eof q script (fs.flatMap fun p => encodeWith p.1 p.2)).readQ =
      (fs.map (·.1)).filter (fun f => isForUs f.rcpt && knownDevice f.sender && knownFrame f.kind) := by
  rw [(producer_survives_noise q script _ hscript).2.2.1]
  exact C04.delivered_exactly fs hlen

/-- **one_write_per_cycle**: at most one queued frame is handed to the writer per loop cycle,
a cycle is begun at most once per `read()` made plus one, and frames are sent in exactly the
order they were queued (FIFO: what was sent followed by what is still queued is the put log). -/
theorem one_write_per_cycle (fixed : Bool) (q : List Nat) (script : List Cyc) (rds : List ROut) :
    let t := Producer.run fixed (init q) script rds
    t.sent.length ≤ t.cycles ∧ t.cycles ≤ t.reads + 1 ∧ t.sent.map (·.1) ++ t.writeQ = t.putLog := by
  have hinv := inv_run fixed (init q) script rds (inv_init fixed q)
  exact ⟨hinv.sentLe, cnt_run fixed (init q) script rds (.inl (by simp [init])), hinv.fifo⟩

/-- **write_balance** (fix 7e0d3a8): at every cycle boundary — after successful writes, after a
failed or timed-out write, after the loop has ended — the write queue's unfinished counter
equals the number of frames still queued, so `Queue.join()` in `shutdown()` is not left
waiting for a frame that was taken and never acknowledged. -/
theorem write_balance (q : List Nat) (script : List Cyc) (rds : List ROut) :
    (Producer.run true (init q) script rds).wUnfinished = (Producer.run true (init q) script rds).writeQ.length :=
  (inv_run true (init q) script rds (inv_init true q)).bal rfl

/-- the model tells the difference: the loop before the fix (`fixed = false`) loses one
acknowledgement on a failed write — queue empty, counter 1 -/
theorem unbalanced_counterexample :
    let t := Producer.run false (init [0]) [{ wr := .osError }] []
    t.writeQ = [] ∧ t.wUnfinished = 1 ∧ t.stop = some .writeError := by decide

/-- **loss_scheduled_once**: `connection_lost` is scheduled at most once, exactly when the loop
ended through a read/write loss (not when somebody else disconnected), the loop has ended iff
there is a stop reason, and a loop that has ended does nothing any more whatever arrives. -/
theorem loss_scheduled_once (fixed : Bool) (q : List Nat) (script : List Cyc) (rds : List ROut) :
    let t := Producer.run fixed (init q) script rds
    t.lossScheduled ≤ 1 ∧
      (t.lossScheduled = 1 ↔ ∃ r, t.stop = some r ∧ r ≠ .disconnected) ∧
      (t.running = false ↔ t.stop ≠ none) ∧
      (t.running = false → ∀ script' rds', Producer.run fixed t script' rds' = t) := by
  have hinv := inv_run fixed (init q) script rds (inv_init fixed q)
  refine ⟨?_, ?_, ?_, fun h script' rds' => run_stopped fixed _ script' rds' h⟩
  · rw [hinv.loss]; cases (Producer.run fixed (init q) script rds).stop with
    | none => simp [lossOf]
    | some r => cases r <;> simp [lossOf]
  · rw [hinv.loss]; cases (Producer.run fixed (init q) script rds).stop with
    | none => simp [lossOf]
    | some r => cases r <;> simp [lossOf]
  · have := hinv.runStop
    cases hr : (Producer.run fixed (init q) script rds).running <;> simp_all

/-- **shutdown_can_complete**: `shutdown()` starts with `await self._queues.join()`, i.e.
`read.join()` and `write.join()`, each of which returns iff its unfinished counter is 0.  After
ANY received frame sequence handled to quiescence by ANY number of consumers under ANY schedule
(pool machine) and ANY producer run with ANY write faults (producer machine), both counters
are balanced: the read queue's is 0, the write queue's equals the number of frames still
queued — so the join is never left waiting for a frame that was taken and not acknowledged;
it returns as soon as the write queue is empty.  (Frames still QUEUED for writing when nobody
drains them any more are finding F1, C12 — not claimed here.) -/
theorem shutdown_can_complete (n : Nat) (cfg : Pool.Cfg) (ms : List Pool.Mv)
    (hq : Pool.quiescent (Pool.run true cfg (Pool.init n) ms) = true)
    (q : List Nat) (script : List Cyc) (rds : List ROut) :
    (Pool.run true cfg (Pool.init n) ms).unfinished = 0 ∧
      (Producer.run true (init q) script rds).wUnfinished = (Producer.run true (init q) script rds).writeQ.length ∧
      ((Producer.run true (init q) script rds).writeQ = [] → (Producer.run true (init q) script rds).wUnfinished = 0) := by
  refine ⟨C09.balanced_at_quiescence n cfg ms hq, write_balance q script rds, fun h => ?_⟩
  rw [write_balance q script rds, h]; rfl

/-- silence instead of end of stream: the first call that would have run into the end of the
stream times out instead — the loop ends with `readTimeout`, and everything decided before it
is on the read queue -/
example :
    let bytes : List Byte := [0x68, 0x0a, 0x00, 0x56, 0x45, 0x30, 0x05, 0x19, 0x5d, 0x16] ++ [0x68, 0x0b, 0x00]
    let t := runStream true .silence [0] [] bytes
    t.stop = some .readTimeout ∧ t.readQ = [⟨0x19, 0x56, 0x45, 0x30, 0x05, []⟩] ∧ t.sent = [(0, .ok)] ∧
      t.lossScheduled = 1 := by decide

/-- non-vacuity: noise, a checksum error and two deliverable frames; three frames queued for
writing, the third write times out — two frames sent ok, the third handed to the writer, loop
ended by `writeTimeout`, counter balanced, the first deliverable frame (read before the failing
write phase) is on the read queue, the second is never read -/
example :
    let bytes : List Byte :=
      [0x00, 0x68, 0x0a, 0x00, 0x56, 0x45, 0x30, 0x05, 0x19, 0x5e, 0x16] ++     -- bad checksum
      [0x68, 0x0a, 0x00, 0x56, 0x45, 0x30, 0x05, 0x19, 0x5d, 0x16] ++           -- delivered
      [0x68, 0x0a, 0x00, 0x56, 0x45, 0x30, 0x05, 0x19, 0x5d, 0x16]
    let t := runStream true .eof [0, 1, 2] [{}, {}, { wr := .timeout }] bytes
    t.stop = some .writeTimeout ∧ t.sent = [(0, .ok), (1, .ok), (2, .timeout)] ∧ t.writeQ = [] ∧
      t.wUnfinished = 0 ∧ t.reads = 2 ∧ t.logged = 1 ∧ t.readQ = [⟨0x19, 0x56, 0x45, 0x30, 0x05, []⟩] ∧
      t.lossScheduled = 1 := by decide

/-! ### bursts of any length (no bound on the read queue, no back-pressure loss) -/

theorem deliveredOf_delivered (fs : List Fields) : deliveredOf (fs.map fun f => ROut.frame (.delivered f)) = fs := by
  induction fs with
  | nil => rfl
  | cons f fs ih => simp [deliveredOf, ih]

/-- **burst_enqueued**: a burst of N frames read back-to-back — for EVERY N, with frames queued for writing meanwhile —
ends with exactly those N frames on the read queue, in order, each once: `put_nowait` on an unbounded queue never
refuses, there is no length at which frames start to be dropped. -/
theorem burst_enqueued (fixed : Bool) (q : List Nat) (script : List Cyc) (fs : List Fields)
    (hscript : ∀ c ∈ script, c.disc = false ∧ c.wr = .ok) :
    (Producer.run fixed (init q) script (fs.map fun f => ROut.frame (.delivered f))).readQ = fs ∧
    (Producer.run fixed (init q) script (fs.map fun f => ROut.frame (.delivered f))).running = true := by
  have hr : ∀ rd ∈ fs.map (fun f => ROut.frame (.delivered f)), rd.stops = false := by
    intro rd h
    obtain ⟨f, _, rfl⟩ := List.mem_map.mp h
    rfl
  obtain ⟨h1, h2, _⟩ := producer_continues fixed q script _ hscript hr
  refine ⟨?_, h1⟩
  rw [enqueued_exactly_delivered, h2, List.take_length, deliveredOf_delivered]

/-- … and on the consumers' side: N arrivals while every consumer is held up (no take, no finish) leave all N queued
behind what was queued before, the unfinished count N higher — for every N (`Pool.step .arrive` is unconditional) -/
theorem burst_all_queued (cfg : Pool.Cfg) (s : Pool.St) (fs : List Pool.Frame) :
    (fs.foldl (fun s f => Pool.step true cfg s (.arrive f)) s).queue = s.queue ++ fs ∧
    (fs.foldl (fun s f => Pool.step true cfg s (.arrive f)) s).unfinished = s.unfinished + fs.length ∧
    (fs.foldl (fun s f => Pool.step true cfg s (.arrive f)) s).inHand = s.inHand := by
  induction fs generalizing s with
  | nil => simp
  | cons f fs ih =>
    obtain ⟨a, b, c⟩ := ih (Pool.step true cfg s (.arrive f))
    simp only [List.foldl_cons]
    refine ⟨?_, ?_, ?_⟩
    · rw [a]; simp [Pool.step]
    · rw [b]; simp [Pool.step]; omega
    · rw [c]; simp [Pool.step]

/-- a burst of 300 (the harness feeds up to 1200 in one chunk in the quick tier): nothing is lost -/
example (cfg : Pool.Cfg) :
    (((List.range 300).map fun i => (⟨i, .data, 69, true, 1, false⟩ : Pool.Frame)).foldl
      (fun s f => Pool.step true cfg s (.arrive f)) (Pool.init 3)).unfinished = 300 := by
  rw [(burst_all_queued cfg (Pool.init 3) _).2.1]
  simp [Pool.init]

end PlumVerif.C09Producer

import PlumVerif.Model.FrameObjectKinds
import PlumVerif.Props.C02
/-
C02 — the 33 frame kinds as DATA: which class of frames/requests.py, responses.py, messages.py
defines an encoder (`create_message`) / decoder (`decode_message`) of its own is the generated
table `Gen.frameKinds` (reflection on the imported source, tools/gen_tables.py `_frame_kinds`).
The lemmas below pin the table, so a kind gaining or losing an encoder in the repository breaks
a NAMED lemma; and they tie the rows to the payload builders of Model/Requests.lean:
every parameterised request the statement names has an encoder and a builder, every kind
without an encoder serialises an empty payload WHATEVER its data dict holds, and a builder
reads its documented keys and nothing else.
-/
namespace PlumVerif.C02
open PlumVerif PlumVerif.Req

/-- one row per frame kind -/
theorem kinds_count : Gen.frameKinds.length = 33 := by decide +kernel

/-- the rows are the members of `FrameType` with their codes (same order as `Gen.frameTypes`, which
`frame_codes_pinned` pins against the protocol's numbering) -/
theorem kinds_are_frame_types : Gen.frameKinds.map (fun k => (k.name, k.code)) = Gen.frameTypes := by
  decide +kernel

/-- the class of a kind lives in the module its name says, and every kind has a class -/
theorem kinds_modules :
    Gen.frameKinds.all (fun k => (k.module == "request" || k.module == "response" || k.module == "message")
      && k.name.startsWith (k.module.toUpper ++ "_") && k.cls != "") = true := by
  decide +kernel

/-- exactly these kinds define `create_message` themselves (a kind gaining / losing an encoder breaks this lemma) -/
theorem encoders_pinned :
    (Gen.frameKinds.filter (·.hasCreate)).map (·.name) = [
      "REQUEST_ECOMAX_PARAMETERS", "REQUEST_MIXER_PARAMETERS", "REQUEST_SET_ECOMAX_PARAMETER",
      "REQUEST_SET_MIXER_PARAMETER", "REQUEST_SET_SCHEDULE", "REQUEST_ECOMAX_CONTROL", "REQUEST_ALERTS",
      "REQUEST_THERMOSTAT_PARAMETERS", "REQUEST_SET_THERMOSTAT_PARAMETER",
      "RESPONSE_DEVICE_AVAILABLE", "RESPONSE_UID", "RESPONSE_PROGRAM_VERSION"] := by
  decide +kernel

/-- exactly these kinds define `decode_message` themselves; no request decodes anything -/
theorem decoders_pinned :
    (Gen.frameKinds.filter (·.hasDecode)).map (·.name) = [
      "RESPONSE_DEVICE_AVAILABLE", "RESPONSE_ECOMAX_PARAMETERS", "RESPONSE_MIXER_PARAMETERS",
      "RESPONSE_SCHEDULES", "RESPONSE_UID", "RESPONSE_PASSWORD", "RESPONSE_ALERTS",
      "RESPONSE_PROGRAM_VERSION", "RESPONSE_REGULATOR_DATA_SCHEMA", "RESPONSE_THERMOSTAT_PARAMETERS",
      "MESSAGE_REGULATOR_DATA", "MESSAGE_SENSOR_DATA"] := by
  decide +kernel

/-- the code translator (tools/py2lean.py) extracts only functions that exist as own encoders, and it extracts
the encoder of every parameterised request but the schedule one (whose body is `SchedulesStructure.encode`,
tied through `_join_bits` in Props/TieSchedule) -/
theorem translated_encoders :
    Gen.frameKinds.all (fun k => (!k.createTranslated || k.hasCreate) && (!k.decodeTranslated || k.hasDecode)) = true
    ∧ ∀ n ∈ ["REQUEST_ECOMAX_PARAMETERS", "REQUEST_MIXER_PARAMETERS", "REQUEST_THERMOSTAT_PARAMETERS",
        "REQUEST_ALERTS", "REQUEST_SET_ECOMAX_PARAMETER", "REQUEST_SET_MIXER_PARAMETER",
        "REQUEST_SET_THERMOSTAT_PARAMETER", "REQUEST_ECOMAX_CONTROL"],
      (kindNamed n).map (·.createTranslated) = some true := by
  decide +kernel

/-- the parameterised requests of the statement — parameter index / value, mixer, thermostat, start / count × 4,
on / off control, schedule — are exactly the REQUEST kinds with an encoder, and exactly the kinds with a payload
builder in the model: each has a table row, an own `create_message`, and a `Builder` -/
theorem parameterised_requests_have_encoder :
    (Gen.frameKinds.filter (fun k => k.module == "request" && k.hasCreate)).map (fun k => (k.name, builderOf k.name)) = [
      ("REQUEST_ECOMAX_PARAMETERS", some .range), ("REQUEST_MIXER_PARAMETERS", some .range),
      ("REQUEST_SET_ECOMAX_PARAMETER", some .setEcomax), ("REQUEST_SET_MIXER_PARAMETER", some .setMixer),
      ("REQUEST_SET_SCHEDULE", some .schedule), ("REQUEST_ECOMAX_CONTROL", some .control),
      ("REQUEST_ALERTS", some .alerts), ("REQUEST_THERMOSTAT_PARAMETERS", some .range),
      ("REQUEST_SET_THERMOSTAT_PARAMETER", some .setThermostat)]
    ∧ Gen.frameKinds.all (fun k => (builderOf k.name).isSome == (k.module == "request" && k.hasCreate)) = true := by
  decide +kernel

/-- every row of the table agrees with the dispatch of the code-indexed `createFor` -/
theorem rows_agree : Gen.frameKinds.all rowAgrees = true := by decide +kernel

/-- `createFor` on a code outside its encoder branches: the empty payload, whatever the dict -/
theorem createFor_plain (sw : Nat × Nat × Nat) (code : Nat) (sender : Int) (d : Dict) (h : code ∉ encoderCodes) :
    createFor sw code sender d = .ok [] := by
  simp only [encoderCodes, List.mem_cons, List.not_mem_nil, or_false, not_or] at h
  unfold createFor
  simp [h]

example : 57 ∉ encoderCodes := by decide

/-- `createFor` on a builder's code is that builder applied to the dict -/
theorem createFor_builder (sw : Nat × Nat × Nat) (sender : Int) (d : Dict) :
    (∀ code, code = 49 ∨ code = 50 ∨ code = 92 → createFor sw code sender d = Builder.range.create d)
    ∧ createFor sw 61 sender d = Builder.alerts.create d
    ∧ createFor sw 51 sender d = Builder.setEcomax.create d
    ∧ createFor sw 52 sender d = Builder.setMixer.create d
    ∧ createFor sw 93 sender d = Builder.setThermostat.create d
    ∧ createFor sw 59 sender d = Builder.control.create d
    ∧ createFor sw 55 sender d = Builder.schedule.create d := by
  refine ⟨?_, ?_, ?_, ?_, ?_, ?_, ?_⟩
  · intro code h; unfold createFor; simp [h, Builder.create]
  · simp [createFor, Builder.create]
  · simp [createFor, Builder.create]
  · simp [createFor, Builder.create]
  · simp [createFor, Builder.create]
  · simp [createFor, Builder.create]
  · simp only [createFor, Builder.create, strAt, schedAt]
    rcases d.get "type" with _ | (_ | _ | _ | _ | _ | _) <;>
      rcases d.get "schedule" with _ | (_ | _ | _ | _ | _ | _) <;> rfl

/-- the table-driven `payloadOfKind` and the code-indexed `createFor` of the frame-object model (the function the
`obj` driver op runs and `C02Object` reasons about) are the same function on all 33 rows -/
theorem payloadOfKind_eq_createFor (sw : Nat × Nat × Nat) :
    ∀ k ∈ Gen.frameKinds, ∀ (sender : Int) (d : Dict), payloadOfKind sw k sender d = createFor sw k.code sender d := by
  intro k hk sender d
  have hr := List.all_eq_true.mp rows_agree k hk
  obtain ⟨hrange, h61, h51, h52, h93, h59, h55⟩ := createFor_builder sw sender d
  unfold rowAgrees at hr
  unfold payloadOfKind
  cases hb : builderOf k.name with
  | none =>
    simp only [hb, Bool.or_eq_true, Bool.not_eq_true', List.contains_eq_mem, decide_eq_false_iff_not] at hr
    by_cases hc : k.hasCreate = true
    · simp [hc]
    · have hn : k.code ∉ encoderCodes := by
        rcases hr with h | h
        · exact absurd h hc
        · exact h
      simp [hc, createFor_plain sw k.code sender d hn]
  | some b =>
    cases b <;> simp only [hb, Bool.and_eq_true, Bool.or_eq_true, beq_iff_eq] at hr <;> obtain ⟨hc, hcode⟩ := hr <;>
      simp only [hc, if_true]
    · exact (hrange k.code (by omega)).symm
    · rw [hcode]; exact h61.symm
    · rw [hcode]; exact h51.symm
    · rw [hcode]; exact h52.symm
    · rw [hcode]; exact h93.symm
    · rw [hcode]; exact h59.symm
    · rw [hcode]; exact h55.symm

example : (Gen.frameKinds.filter (·.hasCreate)).length = 12 := by decide +kernel

/-- a kind WITHOUT an encoder of its own serialises the empty payload, whatever the data dict holds and whoever
sends it (21 kinds: 8 requests, 11 responses, 2 messages) -/
theorem no_encoder_empty_payload (sw : Nat × Nat × Nat) :
    ∀ k ∈ Gen.frameKinds, k.hasCreate = false →
      ∀ (sender : Int) (d : Dict), payloadOfKind sw k sender d = .ok [] ∧ createFor sw k.code sender d = .ok [] := by
  intro k hk hc sender d
  have h := payloadOfKind_eq_createFor sw k hk sender d
  have h0 : payloadOfKind sw k sender d = .ok [] := by simp [payloadOfKind, hc]
  exact ⟨h0, h ▸ h0⟩

example : (Gen.frameKinds.filter (fun k => !k.hasCreate)).length = 21 := by decide +kernel
example : payloadOfKind (1, 2, 3) ⟨"REQUEST_UID", 57, "request", "UIDRequest", false, false, false, false⟩ 86
    [("index", .int 5), ("value", .int 300), ("junk", .none)] = .ok [] := by decide +kernel

/-- lookups a builder can see -/
theorem builder_reads_only_documented_keys (b : Builder) (d₁ d₂ : Dict)
    (h : ∀ k ∈ b.keys, d₁.get k = d₂.get k) : b.create d₁ = b.create d₂ := by
  cases b <;>
    simp only [Builder.keys, List.mem_cons, List.not_mem_nil, or_false, forall_eq_or_imp, forall_eq] at h <;>
    simp only [Builder.create, Dict.int?, Dict.offset?, strAt, schedAt, h]

example : Builder.setEcomax.create [("index", .int 5), ("value", .int 7)]
    = Builder.setEcomax.create [("extra", .int 9), ("index", .int 5), ("device_index", .none), ("value", .int 7)] := by
  decide +kernel

/-- "and nothing else": an entry under a key the builder does not document — wherever the caller's dict has it,
whatever its value — does not change the payload (nor whether building raises) -/
theorem unknown_key_ignored (b : Builder) (pre post : Dict) (k : String) (v : DVal) (hk : k ∉ b.keys) :
    b.create (pre ++ (k, v) :: post) = b.create (pre ++ post) := by
  apply builder_reads_only_documented_keys
  intro k' hk'
  have hne : (k == k') = false := by
    rw [beq_eq_false_iff_ne]; intro e; exact hk (e ▸ hk')
  simp only [Dict.get, List.find?_append, List.find?_cons, hne]

example : Builder.control.create ([("a", .int 1)] ++ ("index", .int 300) :: [("value", .int 1)])
    = .ok [1] := by decide +kernel

/-- the same for a whole kind: for a parameterised request an unknown key is ignored, for a kind without an
encoder EVERY key is -/
theorem kind_unknown_key_ignored (sw : Nat × Nat × Nat) (k : Gen.FrameKind) (b : Builder) (hb : builderOf k.name = some b)
    (sender : Int) (pre post : Dict) (key : String) (v : DVal) (hk : key ∉ b.keys) :
    payloadOfKind sw k sender (pre ++ (key, v) :: post) = payloadOfKind sw k sender (pre ++ post) := by
  unfold payloadOfKind
  split
  · simp only [hb]; exact unknown_key_ignored b pre post key v hk
  · rfl

example : builderOf "REQUEST_SET_MIXER_PARAMETER" = some .setMixer ∧ "size" ∉ Builder.setMixer.keys := by decide

/-- a key read as an integer was given as an integer -/
theorem dict_int_some {d : Dict} {k : String} {i : Int} (h : d.int? k = .ok (some i)) : d.get k = some (.int i) := by
  unfold Dict.int? at h
  split at h <;> simp_all

example : Dict.int? [("index", .int 5)] "index" = .ok (some 5) := by decide +kernel

/-- what a builder produces when it succeeds on a dict of integers is read back by the documented positional layout as
exactly the documented keys' values (the per-builder `*_parse` theorems of Props/C02, reached from the dict):
the two-field set request as the instance the statement's "parameter index, value" names -/
theorem setEcomax_from_dict (d : Dict) (m : List Byte) (h : Builder.setEcomax.create d = .ok m) :
    ∃ i v, d.get "index" = some (.int i) ∧ d.get "value" = some (.int v) ∧ parse2 m = some (i, v) := by
  simp only [Builder.create, bind, Except.bind] at h
  cases hi : d.int? "index" with
  | error e => simp [hi] at h
  | ok oi =>
    cases hv : d.int? "value" with
    | error e => simp [hi, hv] at h
    | ok ov =>
      simp only [hi, hv] at h
      have h' : setEcomaxPayload oi ov = .ok m := by
        unfold liftBuild at h
        split at h <;> simp_all
      obtain ⟨i, v, rfl, rfl, hp⟩ := setEcomax_parse h'
      exact ⟨i, v, dict_int_some hi, dict_int_some hv, hp⟩

example : Builder.setEcomax.create [("index", .int 5), ("junk", .str "x"), ("value", .int 7)] = .ok [5, 7] := by
  decide +kernel

end PlumVerif.C02

import PlumVerif.Proofs.EventsInv
import PlumVerif.Proofs.EventsK
/-
C13 — event dispatch: ordered callbacks, consistent stored value, once means once.

Every theorem is about `run sc init evs` for ALL callback scripts `sc` (how often each callback
function suspends, what it returns) and ALL event lists `evs`: API calls in any order and any
interleaving of "dispatch task i moves" / "waiter j moves" / "the clock advances" — every
schedule of overlapping dispatch tasks, subscriptions and waits.  They are corollaries of one
inductive invariant (`Proofs/EventsInv.lean: inv_run`).
-/
namespace PlumVerif.C13

theorem reachable (sc : Nat → Script) (evs : List Ev) : Inv sc (run sc init evs) :=
  inv_run sc evs init (inv_init sc)

/-! ### a dispatch awaits its snapshot in order, threading the value, then stores and wakes -/

/-- the snapshot is the live callback list of the name at the moment the task first runs -/
theorem snapshot_is_live_list (sc : Nat → Script) (s : St) (i : Nat) (h : (s.d i).ph = .created) :
    ((step sc s (.stepD i)).d i).snapshot = s.subs (s.d i).name ∧
    ((step sc s (.stepD i)).d i).startedAt = s.clock := by
  show ((stepD sc s i).d i).snapshot = _ ∧ ((stepD sc s i).d i).startedAt = _
  simp only [stepD, h]
  have := walk_self sc i (s.d i).name (s.subs (s.d i).name)
    { s with d := upd s.d i { s.d i with snapshot := s.subs (s.d i).name, startedAt := s.clock, ph := .running } } (s.d i).init
  exact ⟨by rw [this.1]; simp, by rw [this.2.1]; simp⟩

/-- **order and threading**, for every dispatch task `i` after every schedule: the callbacks it
awaited so far, in log order with the values they received, are exactly the awaited entries of
its trail; the trail follows the snapshot in subscription order (a prefix of it while the task
is under way, all of it when done) skipping only once-wrappers; every awaited callback
received the value produced by the callbacks before it (`None` keeps the value); and when the
task is done its final value is the value after the whole snapshot -/
theorem dispatch_order_and_threading (sc : Nat → Script) (evs : List Ev) (i : Nat) :
    let s := run sc init evs
    let t := s.d i
    (s.log.filter (·.task == i)).map (fun e => (e.sub, e.val)) = awaited t.trail ∧
    (t.trail.map (·.1)) <+: t.snapshot ∧
    (∀ x, (x, none) ∈ t.trail → x.once = true) ∧
    Threaded sc t.init t.trail ∧
    (∀ f, t.ph = .done f → t.trail.map (·.1) = t.snapshot ∧ f = valueAfter sc t.init t.trail) := by
  intro s t
  have h := reachable sc evs
  have hd := h.d i
  have hr := h.r i
  refine ⟨hd.logOf, ?_, hd.skipped, hd.threaded, ?_⟩
  · have hs := hd.shape
    unfold shapeOK at hs
    cases hp : (s.d i).ph with
    | absent => rw [hp] at hs; show List.map _ (s.d i).trail <+: _; simp only at hs; rw [hs]; simp
    | created => rw [hp] at hs; show List.map _ (s.d i).trail <+: _; simp only at hs; rw [hs]; simp
    | running => exact absurd hp hr
    | inCb rest u k val => rw [hp] at hs; simp only at hs; exact ⟨rest, hs.1⟩
    | done f => rw [hp] at hs; simp only at hs; show List.map _ (s.d i).trail <+: _; rw [hs.1]; exact List.prefix_refl _
  · intro f hf
    have hs := hd.shape
    unfold shapeOK at hs
    rw [show (s.d i).ph = .done f from hf] at hs
    exact hs

/-- every plain (not once) entry of the snapshot that a task has passed was awaited: the only
entries a dispatch may skip are once-wrappers that were already unsubscribed -/
theorem plain_entries_awaited (sc : Nat → Script) (evs : List Ev) (i : Nat) (x : Sub)
    (hx : x ∈ ((run sc init evs).d i).trail.map (·.1)) (hp : x.once = false) :
    ∃ v, (x, v) ∈ awaited ((run sc init evs).d i).trail := by
  obtain ⟨⟨y, o⟩, hm, rfl⟩ := List.mem_map.1 hx
  cases o with
  | none =>
    have := (dispatch_order_and_threading sc evs i).2.2.1 y hm
    simp only at hp; rw [hp] at this; simp at this
  | some v =>
    exact ⟨v, by simp only [awaited, List.mem_filterMap]; exact ⟨(y, some v), hm, rfl⟩⟩

/-! ### the only entries a dispatch passes without awaiting are wrappers that had been unsubscribed -/

/-- **a skipped entry had left the live list** (audit item 3): under every schedule, a snapshot
entry that a dispatch passed without awaiting it is a `subscribe_once` wrapper AND is recorded as
removed from its live list (by an explicit unsubscribe, or by another dispatch that awaited it) —
a machine that simply never awaits once-callbacks does not satisfy this -/
theorem skipped_entry_was_removed (sc : Nat → Script) (evs : List Ev) (i : Nat) (x : Sub)
    (h : (x, none) ∈ ((run sc init evs).d i).trail) :
    x.once = true ∧ ∃ c, (x.sid, c) ∈ (run sc init evs).removed :=
  ⟨(dispatch_order_and_threading sc evs i).2.2.1 x h,
    invK_run sc evs init (inv_init sc) invK_init i x h⟩

theorem walk_log_mono (sc : Nat → Script) (i name : Nat) (rest : List Sub) :
    ∀ (s : St) (val : Nat) (e : LogE), e ∈ s.log → e ∈ (walk sc i name s rest val).log := by
  induction rest with
  | nil => intro s val e he; simpa [walk, storeSt] using he
  | cons u rest ih =>
    intro s val e he
    unfold walk
    split
    · exact ih _ _ e (by simpa [skipSt] using he)
    · split
      · exact ih _ _ e (by simp [invokeSt, he])
      · simp [suspendSt, invokeSt, he]

/-- **a once entry still live when the dispatch reaches it IS awaited** — in ANY state (hence at
every point of every schedule): when dispatch task `i` reaches snapshot entry `u` with value
`val` and `u` is a plain entry, or a once-wrapper that is still in the live list, then `u`'s
callback is awaited with `val` (and a once-wrapper leaves the live list at that moment) -/
theorem live_entry_awaited (sc : Nat → Script) (s : St) (i name : Nat) (u : Sub) (rest : List Sub) (val : Nat)
    (h : gone s name u = false) :
    (⟨i, u, val⟩ : LogE) ∈ (walk sc i name s (u :: rest) val).log := by
  unfold walk
  simp only [h, Bool.false_eq_true, if_false]
  split
  · exact walk_log_mono sc i name rest _ _ _ (by simp [invokeSt])
  · simp [suspendSt, invokeSt]

/-- a finished dispatch has dealt with every entry of its snapshot: each one was awaited by it, or
had been removed from the live list -/
theorem snapshot_entry_awaited_or_removed (sc : Nat → Script) (evs : List Ev) (i f : Nat) (x : Sub)
    (hdone : ((run sc init evs).d i).ph = .done f) (hx : x ∈ ((run sc init evs).d i).snapshot) :
    (∃ v, (x, v) ∈ awaited ((run sc init evs).d i).trail) ∨ ∃ c, (x.sid, c) ∈ (run sc init evs).removed := by
  have hall := ((dispatch_order_and_threading sc evs i).2.2.2.2 f hdone).1
  rw [← hall] at hx
  obtain ⟨⟨y, o⟩, hm, rfl⟩ := List.mem_map.1 hx
  cases o with
  | none => exact Or.inr (skipped_entry_was_removed sc evs i y hm).2
  | some v => exact Or.inl ⟨v, by simp only [awaited, List.mem_filterMap]; exact ⟨(y, some v), hm, rfl⟩⟩

/-- a once callback subscribed before an unobstructed dispatch IS awaited (non-vacuity of the
clause above: awaiting no once-callback at all is not an option) -/
example : (run (fun _ => ⟨0, .add 1⟩) init [.subscribeOnce 0 7, .spawnDispatch 0 5, .stepD 0]).log = [⟨0, ⟨0, 7, true⟩, 5⟩] := by
  decide

/-- **then stores and wakes**: the step in which a dispatch task finishes stores its final value
under its name and leaves no task waiting on that name -/
theorem finish_stores_and_wakes (sc : Nat → Script) (s : St) (i : Nat) (f : Nat)
    (hbefore : ∀ f', (s.d i).ph ≠ .done f')
    (hafter : ((step sc s (.stepD i)).d i).ph = .done f) :
    (step sc s (.stepD i)).data (s.d i).name = some f ∧
    ∀ j dl, ((step sc s (.stepD i)).w j).ph = .waiting dl → ((step sc s (.stepD i)).w j).name ≠ (s.d i).name := by
  have key : ∀ (s0 : St) (rest : List Sub) (val : Nat),
      ((walk sc i (s.d i).name s0 rest val).d i).ph = .done f →
      (walk sc i (s.d i).name s0 rest val).data (s.d i).name = some f ∧
      ∀ j dl, ((walk sc i (s.d i).name s0 rest val).w j).ph = .waiting dl →
        ((walk sc i (s.d i).name s0 rest val).w j).name ≠ (s.d i).name := by
    intro s0 rest val hdone
    rcases (walk_self sc i (s.d i).name rest s0 val).2.2.2.2 with ⟨r, u, k, v, hp⟩ | ⟨f', hp, hdata, hw⟩
    · rw [hp] at hdone; simp at hdone
    · rw [hp] at hdone; simp only [DPhase.done.injEq] at hdone; subst hdone; exact ⟨hdata, hw⟩
  show (stepD sc s i).data _ = _ ∧ ∀ j dl, ((stepD sc s i).w j).ph = _ → ((stepD sc s i).w j).name ≠ _
  have hafter' : ((stepD sc s i).d i).ph = .done f := hafter
  unfold stepD at hafter' ⊢
  split at hafter'
  · rename_i hp; simp only [hp]; exact key _ _ _ hafter'
  · simp at hafter'
  · rename_i rest u val hp; simp only [hp]; exact key _ _ _ hafter'
  · rename_i h1 h2 h3
    exact absurd hafter' (hbefore f)

/-! ### once means once -/

/-- **once_at_most_once**: through one `subscribe_once` registration (instance `sid`) the
callback is awaited at most once, under every schedule -/
theorem once_at_most_once (sc : Nat → Script) (evs : List Ev) (sid : Nat) :
    ((run sc init evs).log.filter fun e => e.sub.once && e.sub.sid == sid).length ≤ 1 := by
  have h := (reachable sc evs).a.onceNodup
  have := nodup_filter_le_one _ h sid
  have e : ((run sc init evs).log.filter fun e => e.sub.once && e.sub.sid == sid).length =
      ((((run sc init evs).log.filter (·.sub.once)).map (·.sub.sid)).filter (· == sid)).length := by
    rw [List.filter_map, List.length_map, List.filter_filter]
    congr 1
    apply List.filter_congr
    intro x _
    simp [Bool.and_comm]
  rw [e]; exact this

/-! ### an unsubscribed callback is awaited by no later dispatch -/

/-- whenever a subscription instance was removed from its live list at event number `c`
(explicit unsubscribe or a once-wrapper removing itself), every dispatch task that ever awaits
it started no later than event `c` -/
theorem removed_not_awaited_by_later_dispatch (sc : Nat → Script) (evs : List Ev) :
    let s := run sc init evs
    ∀ e ∈ s.log, ∀ p ∈ s.removed, p.1 = e.sub.sid → (s.d e.task).startedAt ≤ p.2 :=
  (reachable sc evs).a.logRem

/-- **unsubscribed_not_called_by_later_dispatch**, as a statement about histories: if
`unsubscribe(name, cb)` is called after the events `pre` and finds the entry `u`, then in
every continuation `post`, any dispatch task that awaits `u` had started by then (its
`startedAt` is at most the number of events before the call) — a dispatch that STARTS after
the unsubscribe never awaits it.  (`snapshot_is_live_list`: `startedAt` is the event counter
at the task's first move.) -/
theorem unsubscribed_not_called_by_later_dispatch (sc : Nat → Script) (pre post : List Ev) (n cb : Nat) (u : Sub)
    (hu : findCb ((run sc init pre).subs n) cb = some u) :
    let s := run sc init (pre ++ .unsubCb n cb :: post)
    ∀ e ∈ s.log, e.sub.sid = u.sid → (s.d e.task).startedAt ≤ pre.length := by
  intro s e he hs
  have hrec : (u.sid, pre.length) ∈ s.removed := by
    show (u.sid, pre.length) ∈ (run sc init (pre ++ .unsubCb n cb :: post)).removed
    rw [run_append]
    show (u.sid, pre.length) ∈ (run sc (step sc (run sc init pre) (.unsubCb n cb)) post).removed
    apply run_removed
    show (u.sid, pre.length) ∈ (apply sc (run sc init pre) (.unsubCb n cb)).removed
    simp only [apply, hu, List.mem_append, List.mem_singleton, Prod.mk.injEq, true_and]
    right
    have := run_clock sc pre init
    simp [init] at this
    exact this.symm
  exact removed_not_awaited_by_later_dispatch sc _ e he (u.sid, pre.length) hrec hs.symm

/-- the same for the wrapper returned by `subscribe_once` -/
theorem unsubscribed_once_not_called_by_later_dispatch (sc : Nat → Script) (pre post : List Ev) (n sid : Nat)
    (hu : ((run sc init pre).subs n).any (fun u => u.once && u.sid == sid) = true) :
    let s := run sc init (pre ++ .unsubOnce n sid :: post)
    ∀ e ∈ s.log, e.sub.sid = sid → (s.d e.task).startedAt ≤ pre.length := by
  intro s e he hs
  have hrec : (sid, pre.length) ∈ s.removed := by
    show (sid, pre.length) ∈ (run sc init (pre ++ .unsubOnce n sid :: post)).removed
    rw [run_append]
    show (sid, pre.length) ∈ (run sc (step sc (run sc init pre) (.unsubOnce n sid)) post).removed
    apply run_removed
    show (sid, pre.length) ∈ (apply sc (run sc init pre) (.unsubOnce n sid)).removed
    simp only [apply, hu, if_true, List.mem_append, List.mem_singleton, Prod.mk.injEq, true_and]
    right
    have := run_clock sc pre init
    simp [init] at this
    exact this.symm
  exact removed_not_awaited_by_later_dispatch sc _ e he (sid, pre.length) hrec hs.symm

/-! ### stored values and getters -/

/-- **data ∈ finals of completed dispatches**: a stored value is the final value of a finished
dispatch of that name, and so is every value a getter returned -/
theorem data_is_outcome_of_a_dispatch (sc : Nat → Script) (evs : List Ev) :
    let s := run sc init evs
    (∀ n v, s.data n = some v → ∃ i, (s.d i).name = n ∧ (s.d i).ph = .done v) ∧
    (∀ j v a, (s.w j).ph = .returned v a → ∃ i, (s.d i).name = (s.w j).name ∧ (s.d i).ph = .done v) :=
  ⟨(reachable sc evs).c.dataDone, (reachable sc evs).c.retDone⟩

/-- **get returns at once when a value exists**: the first move of a getter whose name has a
value returns that value at the current time -/
theorem get_returns_at_once (sc : Nat → Script) (s : St) (j v : Nat)
    (hc : (s.w j).ph = .created) (hv : s.data (s.w j).name = some v) :
    ((step sc s (.stepW j)).w j).ph = .returned v s.now := by
  show ((stepW s j).w j).ph = _
  simp [stepW, hc, hv]

/-- **an unsatisfied timed wait raises at exactly its deadline**, after every schedule:
a wait that timed out did so at (start of waiting + timeout); a wait still pending has no value
for its name and its deadline (start + timeout) is still ahead — it is never overdue -/
theorem timed_wait_raises_at_deadline (sc : Nat → Script) (evs : List Ev) :
    let s := run sc init evs
    (∀ j a, (s.w j).ph = .timedOut a → ∃ to, (s.w j).timeout = some to ∧ a = (s.w j).t0 + to) ∧
    (∀ j dl, (s.w j).ph = .waiting (some dl) → s.now < dl ∧ ∃ to, (s.w j).timeout = some to ∧ dl = (s.w j).t0 + to) ∧
    (∀ j dl, (s.w j).ph = .waiting dl → s.data (s.w j).name = none) :=
  ⟨(reachable sc evs).c.timedOut, (reachable sc evs).c.deadline, (reachable sc evs).c.waitNone⟩

/-- when the clock passes the deadline of a pending wait, it raises, stamped with the deadline -/
theorem deadline_fires (sc : Nat → Script) (s : St) (j dl t : Nat)
    (hw : (s.w j).ph = .waiting (some dl)) (hdl : dl ≤ t) (hnow : s.now < t) :
    ((step sc s (.advance t)).w j).ph = .timedOut dl := by
  show ((advance s t).w j).ph = _
  have : ¬ t ≤ s.now := by omega
  simp [advance, this, expire_ph, hw, hdl]

/-! ### non-vacuity: two overlapping dispatches behind a suspending callback (the D13 scenario) -/

def scDemo : Nat → Script := fun c => if c = 0 then ⟨1, .keep⟩ else ⟨0, .add 5⟩

def demo : List Ev :=
  [.subscribe 0 0, .subscribeOnce 0 1, .spawnDispatch 0 1, .spawnDispatch 0 2, .stepD 0, .stepD 1,
   .spawnWait 0 (some 3), .stepW 0, .stepD 0, .stepW 0, .stepD 1, .unsubCb 0 0, .spawnDispatch 0 7, .stepD 2]

example : (run scDemo init demo).log =
    [⟨0, ⟨0, 0, false⟩, 1⟩, ⟨1, ⟨0, 0, false⟩, 2⟩, ⟨0, ⟨1, 1, true⟩, 1⟩] := by decide
example : (run scDemo init demo).data 0 = some 7 ∧ ((run scDemo init demo).w 0).ph = .returned 6 0 := by decide
example : ((run scDemo init demo).d 1).trail = [(⟨0, 0, false⟩, some 2), (⟨1, 1, true⟩, none)] := by decide
example : (run scDemo init demo).removed = [(1, 8), (0, 11)] := by decide

end PlumVerif.C13

import PlumVerif.Proofs.DecodeShort
import PlumVerif.Props.C05Sensors
/-
C05 (extension) — the malformed side: truncated sensor-data payloads.
`short_payload_errors`: every strict prefix of a well-formed encoding is an error, except the
prefixes that only cut the unread tail of the LAST mixer block (`mixerSlack`: its last byte, or
its last four bytes when the mixer is not connected) -- those decode to the full value.
-/
namespace PlumVerif.C05
open PlumVerif PlumVerif.Wire PlumVerif.Sens

/-! ### every stage of the chain: round trip, starving on strict prefixes, failing on nothing -/

theorem stage_versions (vs : List (Byte × Nat)) (hn : vs.length < 256) (hv : ∀ tv ∈ vs, tv.2 < 65536) :
    ∃ v, StageOK decFrameVersions (encVersions vs) v := by
  refine ⟨_, counted_stageOK decVersion (fun tv : Byte × Nat => [tv.1] ++ encodeLE tv.2 2)
    (fun tv => (tv.1.toNat, tv.2)) vs hn ?_ decFrameVersions (fun _ ps => [("frame_versions", versionsVal ps)])
    (fun s => by cases s <;> rfl)⟩
  intro tv htv
  exact seq_stageOK (byte_stageOK tv.1) (le_stageOK 2 tv.2 (by decide) (by have := hv tv htv; omega))
    decVersion (fun b v => (b.toNat, v)) (fun s => by cases s <;> rfl)

theorem stage_byte (name : String) (b : Byte) :
    StageOK (byteStage name) [b] [(name, Val.nat b.toNat)] :=
  (byte_stageOK b).map (byteStage name) (fun b => [(name, Val.nat b.toNat)]) (fun _ => rfl)

theorem stage_outputs (v : Nat) (hv : v < 4294967296) : ∃ w, StageOK decOutputs (encodeLE v 4) w :=
  ⟨_, (le_stageOK 4 v (by decide) (by omega)).map decOutputs
    (fun v => Gen.outputsNames.zipIdx.map (fun ni => (ni.1, Val.bool (v &&& 2 ^ ni.2 != 0))))
    (fun s => by simp [decOutputs])⟩

theorem stage_outputFlags (v : Nat) (hv : v < 4294967296) : ∃ w, StageOK decOutputFlags (encodeLE v 4) w :=
  ⟨_, (le_stageOK 4 v (by decide) (by omega)).map decOutputFlags
    (fun v => [("heating_pump_flag", Val.bool (v &&& 0x04 != 0)),
         ("water_heater_pump_flag", Val.bool (v &&& 0x08 != 0)),
         ("circulation_pump_flag", Val.bool (v &&& 0x10 != 0)),
         ("solar_pump_flag", Val.bool (v &&& 0x800 != 0))])
    (fun s => by simp [decOutputFlags])⟩

theorem f32_stageOK (f : F32) : StageOK readF32 (encF32 f) f := by
  have h : f.toNat < 256 ^ 4 := by have := f.toNat_lt; omega
  have := (le_stageOK 4 f.toNat (by decide) h).map readF32 (fun n => UInt32.ofNat n) (fun s => by simp [readF32])
  simpa [encF32] using this

theorem stage_optF32 (name : String) (f : F32) : ∃ w, StageOK (decOptF32 name) (encF32 f) w :=
  ⟨_, (f32_stageOK f).map (decOptF32 name) (fun f => if isNaN32 f then [] else [(name, Val.f32 f)])
    (fun s => by simp [decOptF32])⟩

theorem stage_temperatures (ts : List (Byte × F32)) (hn : ts.length < 256) :
    ∃ v, StageOK decTemperatures (encTemps ts) v := by
  refine ⟨_, counted_stageOK decTemp (fun it : Byte × F32 => [it.1] ++ encF32 it.2)
    (fun it => (it.1.toNat, it.2)) ts hn ?_ decTemperatures (fun _ xs => tempFields xs)
    (fun s => by cases s <;> rfl)⟩
  intro it _
  exact seq_stageOK (byte_stageOK it.1) (f32_stageOK it.2) decTemp (fun b f => (b.toNat, f))
    (fun s => by cases s <;> rfl)

theorem stage_statuses (a b c d : Byte) : ∃ w, StageOK decStatuses [a, b, c, d] w := by
  refine ⟨_, ⟨fun tail => rt_statuses a b c d tail, ?_, rfl⟩⟩
  intro n hn
  have : n = 0 ∨ n = 1 ∨ n = 2 ∨ n = 3 := by simp at hn; omega
  left
  rcases this with rfl | rfl | rfl | rfl <;> rfl

theorem stage_pendingAlerts (as : List Byte) (hn : as.length < 256) :
    ∃ w, StageOK decPendingAlerts (encPendingAlerts as) w := by
  refine ⟨_, ⟨fun tail => rt_pendingAlerts as tail hn, ?_, rfl⟩⟩
  intro n hlt
  cases n with
  | zero => left; rfl
  | succ n =>
    right
    simp only [encPendingAlerts, List.length_cons] at hlt
    refine ⟨[("pending_alerts", Val.nat as.length)], ?_⟩
    have : (as.take n).drop as.length = [] := List.drop_eq_nil_of_le (by simp [List.length_take]; omega)
    simp [decPendingAlerts, encPendingAlerts, toUInt8_toNat_of_lt hn, this]

theorem stage_fuelLevel (f : FuelLevel) (hf : f.wf = true) : ∃ w, StageOK decFuelLevel (encFuelLevel f) w := by
  refine ⟨_, ⟨fun tail => rt_fuelLevel f tail hf, ?_, rfl⟩⟩
  intro n hn
  have : n = 0 := by cases f <;> simpa [encFuelLevel] using hn
  subst this; left; rfl

theorem stage_boilerLoad (b : Byte) : ∃ w, StageOK decBoilerLoad [b] w := by
  refine ⟨_, ⟨fun tail => rt_boilerLoad b tail, ?_, rfl⟩⟩
  intro n hn
  have : n = 0 := by simpa using hn
  subst this; left; rfl

theorem stage_module (name : String) (hname : (name == "module_a") = false) (v : Option ModVer)
    (h : modOk v = true) : StageOK (decModule name) (encModVer v) (valModVer v) := by
  refine ⟨fun tail => rt_module name hname v tail h, ?_, rfl⟩
  intro n hn
  left
  cases v with
  | none =>
    have : n = 0 := by simpa [encModVer] using hn
    subst this; rfl
  | some m =>
    have hb := byte_ne_ff (show (m.a != 0xFF) = true from h)
    have : n = 0 ∨ n = 1 ∨ n = 2 := by simp [encModVer] at hn; omega
    rcases this with rfl | rfl | rfl <;> simp [encModVer, decModule, readByte, hb, takeN]

theorem stage_moduleA (v : Option ModVerA) (h : modAOk v = true) :
    StageOK (decModule "module_a") (encModVerA v) (valModVerA v) := by
  refine ⟨fun tail => rt_moduleA v tail h, ?_, rfl⟩
  intro n hn
  left
  cases v with
  | none =>
    have : n = 0 := by simpa [encModVerA] using hn
    subst this; rfl
  | some m =>
    have hb := byte_ne_ff (show (m.a != 0xFF) = true from h)
    have : n = 0 ∨ n = 1 ∨ n = 2 ∨ n = 3 ∨ n = 4 := by simp [encModVerA] at hn; omega
    rcases this with rfl | rfl | rfl | rfl | rfl <;>
      simp [encModVerA, decModule, readByte, hb, takeN]

theorem stage_modules (m : SensorMsg)
    (hA : modAOk m.moduleA = true) (hB : modOk m.moduleB = true) (hC : modOk m.moduleC = true)
    (hL : modOk m.ecolambda = true) (hS : modOk m.ecoster = true) (hP : modOk m.panel = true) :
    ∃ w, StageOK decModules (encModules m) w := by
  have hchain : ChainOK (Gen.modulesNames.map decModule)
      [encModVerA m.moduleA, encModVer m.moduleB, encModVer m.moduleC, encModVer m.ecolambda,
       encModVer m.ecoster, encModVer m.panel]
      [valModVerA m.moduleA, valModVer m.moduleB, valModVer m.moduleC, valModVer m.ecolambda,
       valModVer m.ecoster, valModVer m.panel] := by
    simp only [Gen.modulesNames, List.map_cons, List.map_nil, ChainOK]
    exact ⟨stage_moduleA _ hA, stage_module "module_b" (by decide) _ hB,
      stage_module "module_c" (by decide) _ hC, stage_module "ecolambda" (by decide) _ hL,
      stage_module "ecoster" (by decide) _ hS, stage_module "panel" (by decide) _ hP, trivial⟩
  have hst := chain_stageOK _ _ _ hchain (by simp [Gen.modulesNames])
  have henc : encModules m = [encModVerA m.moduleA, encModVer m.moduleB, encModVer m.moduleC,
      encModVer m.ecolambda, encModVer m.ecoster, encModVer m.panel].flatten := by
    simp [encModules, List.flatten]
  rw [henc]
  exact ⟨_, hst.map decModules (fun vs => [("modules", Val.record (Gen.modulesNames.zip vs))])
    (fun s => by simp [decModules, decFieldsSeq_chain, Option.bind_assoc])⟩

theorem stage_lambda (l : Option LambdaMsg)
    (h : (match l with | none => true | some l => l.state != 0xFF && l.level < 65536) = true) :
    ∃ w, StageOK decLambda (encLambda l) w := by
  refine ⟨_, ⟨fun tail => rt_lambda l tail h, ?_, rfl⟩⟩
  intro n hn
  left
  cases l with
  | none =>
    have : n = 0 := by simpa [encLambda] using hn
    subst this; rfl
  | some l =>
    simp only [Bool.and_eq_true, decide_eq_true_eq] at h
    have hb := byte_ne_ff h.1
    have : n = 0 ∨ n = 1 ∨ n = 2 ∨ n = 3 := by simp [encLambda, encodeLE] at hn; omega
    rcases this with rfl | rfl | rfl | rfl <;>
      simp [encLambda, encodeLE, decLambda, readByte, hb, readLE, takeN]

def decF32pair : Dec (F32 × F32) := fun s =>
  (readF32 s).bind fun a => (readF32 a.2).bind fun b => some ((a.1, b.1), b.2)

theorem item_thermostat (t : ThRaw) : StageOK decThermostat (encThermostat t) t := by
  have hp := seq_stageOK (f32_stageOK t.cur) (f32_stageOK t.tgt) decF32pair Prod.mk (fun _ => rfl)
  exact seq_stageOK (byte_stageOK t.state) hp decThermostat (fun b p => ⟨b, p.1, p.2⟩)
    (fun s => by
      cases s with
      | nil => rfl
      | cons b r => simp [decThermostat, decF32pair, Option.bind_assoc])

def thermoTail (c : Byte) : Dec VFields := fun r =>
  (readByte r).bind fun nr => (decN decThermostat nr.1.toNat nr.2).bind fun tr =>
    some ([("thermostat_sensors", Val.intDict (thermoEntries c.toNat tr.1 0 1 (1 <<< 3))),
           ("thermostats_available", Val.nat nr.1.toNat),
           ("thermostats_connected", Val.nat (thermoEntries c.toNat tr.1 0 1 (1 <<< 3)).length)], tr.2)

theorem stage_thermostats (t : Option ThermostatsMsg)
    (h : (match t with | none => true | some t => t.contacts != 0xFF && t.items.length < 256) = true) :
    ∃ w, StageOK decThermostats (encThermostats t) w := by
  cases t with
  | none =>
    refine ⟨_, ⟨fun tail => rt_thermostats none tail h, ?_, rfl⟩⟩
    intro n hn
    have : n = 0 := by simpa [encThermostats] using hn
    subst this; left; rfl
  | some t =>
    simp only [Bool.and_eq_true, decide_eq_true_eq] at h
    have hb := byte_ne_ff h.1
    have htail := counted_stageOK decThermostat encThermostat id t.items h.2
      (fun x _ => item_thermostat x) (thermoTail t.contacts)
      (fun nb ts => [("thermostat_sensors", Val.intDict (thermoEntries t.contacts.toNat ts 0 1 (1 <<< 3))),
           ("thermostats_available", Val.nat nb.toNat),
           ("thermostats_connected", Val.nat (thermoEntries t.contacts.toNat ts 0 1 (1 <<< 3)).length)])
      (fun _ => rfl)
    exact ⟨_, cons_stageOK htail decThermostats t.contacts id
      (fun r => by simp [decThermostats, thermoTail, hb, Option.bind_assoc]) rfl⟩

/-! ### the mixers: the last stage, whose last block has an unread tail -/

/-- bytes of a mixer block that must be present: 4 when the mixer is not connected (NaN), else 7 -/
def mixerK (m : MixerMsg) : Nat := if isNaN32 m.cur then 4 else 7

theorem encMixer_length (m : MixerMsg) : (encMixer m).length = 8 := by
  simp [encMixer, encF32, encodeLE_length]

theorem item_mixer (m : MixerMsg) :
    StageOK decMixer (encMixer m) (valMixer m) ∧
      ∀ n, n < mixerK m → n < (encMixer m).length → decMixer ((encMixer m).take n) = none := by
  obtain ⟨b0, b1, b2, b3, hb⟩ := encF32_bytes m.cur
  have hr : ∀ tl, readF32 (b0 :: b1 :: b2 :: b3 :: tl) = some (m.cur, tl) := by
    intro tl
    have := readF32_enc m.cur tl
    rw [hb] at this
    simpa using this
  have hshort : ∀ s : List Byte, s.length < 4 → decMixer s = none := by
    intro s hs
    simp [decMixer, readF32_short hs]
  have henc : encMixer m = [b0, b1, b2, b3, m.target, m.pad5, m.flags, m.pad7] := by
    simp [encMixer, hb]
  refine ⟨⟨fun tail => rt_mixer m tail, ?_, hshort [] (by simp)⟩, ?_⟩
  · intro n hn
    rw [henc] at hn ⊢
    have : n = 0 ∨ n = 1 ∨ n = 2 ∨ n = 3 ∨ n = 4 ∨ n = 5 ∨ n = 6 ∨ n = 7 := by simp at hn; omega
    rcases this with rfl | rfl | rfl | rfl | rfl | rfl | rfl | rfl
    · left; exact hshort _ (by simp)
    · left; exact hshort _ (by simp)
    · left; exact hshort _ (by simp)
    · left; exact hshort _ (by simp)
    all_goals
      cases hnan : isNaN32 m.cur
      · first
        | (left; simp [decMixer, hr, hnan]; done)
        | (right; simp [decMixer, hr, hnan, Gen.mixerSensorSize]; done)
      · right; simp [decMixer, hr, hnan, Gen.mixerSensorSize]
  · intro n hk hn
    rw [henc] at hn ⊢
    unfold mixerK at hk
    cases hnan : isNaN32 m.cur
    · rw [hnan] at hk
      have : n = 0 ∨ n = 1 ∨ n = 2 ∨ n = 3 ∨ n = 4 ∨ n = 5 ∨ n = 6 := by simp at hk; omega
      rcases this with rfl | rfl | rfl | rfl | rfl | rfl | rfl
      · exact hshort _ (by simp)
      · exact hshort _ (by simp)
      · exact hshort _ (by simp)
      · exact hshort _ (by simp)
      all_goals simp [decMixer, hr, hnan]
    · rw [hnan] at hk
      have : n = 0 ∨ n = 1 ∨ n = 2 ∨ n = 3 := by simp at hk; omega
      rcases this with rfl | rfl | rfl | rfl <;> exact hshort _ (by simp)

/-- mixers: every strict prefix that does not reach the last block's unread tail fails -/
theorem decMixers_take_none (ms : List MixerMsg) (hn : ms.length < 256) (j : Nat)
    (hj : j < 1 + kList (fun m => (encMixer m).length) mixerK ms) (hlen : j < (encMixers ms).length) :
    decMixers ((encMixers ms).take j) = none := by
  cases j with
  | zero => rfl
  | succ j =>
    simp only [encMixers, List.length_cons] at hlen
    have := decN_take_none decMixer encMixer valMixer mixerK ms (fun x _ => item_mixer x) j
      (by omega) (by omega)
    simp [decMixers, encMixers, toUInt8_toNat_of_lt hn, this]

/-- the unread tail of the last mixer block: its last byte, or -- mixer not connected -- its last
four bytes; nothing when there is no mixer -/
def mixerSlack (ms : List MixerMsg) : Nat :=
  match ms.getLast? with
  | none => 0
  | some x => if isNaN32 x.cur then 4 else 1

theorem kList_slack : ∀ ms : List MixerMsg,
    kList (fun m => (encMixer m).length) mixerK ms + mixerSlack ms = (ms.flatMap encMixer).length
  | [] => rfl
  | [x] => by
    simp only [kList, mixerSlack, List.getLast?_singleton, mixerK, List.flatMap_cons, List.flatMap_nil,
      List.append_nil, encMixer_length]
    split <;> rfl
  | x :: y :: r => by
    have ih := kList_slack (y :: r)
    have hs : mixerSlack (x :: y :: r) = mixerSlack (y :: r) := by
      simp [mixerSlack, List.getLast?_cons_cons]
    simp only [kList, hs, List.flatMap_cons, List.length_append] at ih ⊢
    omega

/-- the encodings of the first 17 stages -/
def encs17 (m : SensorMsg) : List (List Byte) :=
  [encVersions m.versions, [m.state], encodeLE m.outputs 4, encodeLE m.outputFlags 4, encTemps m.temps,
   [m.heatingTarget, m.heatingStatus, m.waterHeaterTarget, m.waterHeaterStatus],
   encPendingAlerts m.pendingAlerts, encFuelLevel m.fuelLevel, [m.transmission], encF32 m.fanPower,
   [m.boilerLoad], encF32 m.boilerPower, encF32 m.fuelConsumption, [m.thermostat], encModules m,
   encLambda m.lambda, encThermostats m.thermostats]

theorem encode_split (m : SensorMsg) :
    encodeSensorData m = (encs17 m).flatten ++ encMixers m.mixers := by
  simp [encodeSensorData, encs17, List.flatten, List.append_assoc]

theorem chain17_ok (m : SensorMsg) (h : m.wf = true) : ∃ vs, ChainOK stages17 (encs17 m) vs := by
  simp only [SensorMsg.wf, Bool.and_eq_true, decide_eq_true_eq, List.all_eq_true, and_assoc] at h
  obtain ⟨hv1, hv2, ho, hf, ht, hp, hfl, hA, hB, hC, hL, hS, hP, hlam, hth, _⟩ := h
  obtain ⟨v1, s1⟩ := stage_versions m.versions hv1 hv2
  obtain ⟨v3, s3⟩ := stage_outputs m.outputs ho
  obtain ⟨v4, s4⟩ := stage_outputFlags m.outputFlags hf
  obtain ⟨v5, s5⟩ := stage_temperatures m.temps ht
  obtain ⟨v6, s6⟩ := stage_statuses m.heatingTarget m.heatingStatus m.waterHeaterTarget m.waterHeaterStatus
  obtain ⟨v7, s7⟩ := stage_pendingAlerts m.pendingAlerts hp
  obtain ⟨v8, s8⟩ := stage_fuelLevel m.fuelLevel hfl
  obtain ⟨v10, s10⟩ := stage_optF32 "fan_power" m.fanPower
  obtain ⟨v11, s11⟩ := stage_boilerLoad m.boilerLoad
  obtain ⟨v12, s12⟩ := stage_optF32 "boiler_power" m.boilerPower
  obtain ⟨v13, s13⟩ := stage_optF32 "fuel_consumption" m.fuelConsumption
  obtain ⟨v15, s15⟩ := stage_modules m hA hB hC hL hS hP
  obtain ⟨v16, s16⟩ := stage_lambda m.lambda hlam
  obtain ⟨v17, s17⟩ := stage_thermostats m.thermostats hth
  exact ⟨[v1, _, v3, v4, v5, v6, v7, v8, _, v10, v11, v12, v13, _, v15, v16, v17],
    s1, stage_byte "state" m.state, s3, s4, s5, s6, s7, s8, stage_byte "transmission" m.transmission,
    s10, s11, s12, s13, stage_byte "thermostat" m.thermostat, s15, s16, s17, trivial⟩

theorem decN_add {α : Type} (d : Dec α) (a b : Nat) (s : List Byte) :
    decN d (a + b) s = (decN d a s).bind fun r1 => (decN d b r1.2).bind fun r2 => some (r1.1 ++ r2.1, r2.2) := by
  induction a generalizing s with
  | zero =>
    simp only [Nat.zero_add, decN, Option.bind_some, List.nil_append]
    cases decN d b s <;> rfl
  | succ a ih =>
    rw [show a + 1 + b = (a + b) + 1 by omega]
    simp only [decN, Option.bind_eq_bind, Option.pure_def, ih]
    cases d s with
    | none => rfl
    | some vr =>
      simp only [Option.bind_some]
      cases decN d a vr.2 with
      | none => rfl
      | some r1 =>
        simp only [Option.bind_some]
        cases decN d b r1.2 <;> rfl

/-- a mixer block cut inside its unread tail still yields the mixer -/
theorem mixer_tail_ok (m : MixerMsg) (i : Nat) (hk : mixerK m ≤ i) (hi : i ≤ 8) :
    decMixer ((encMixer m).take i) = some (valMixer m, []) := by
  obtain ⟨b0, b1, b2, b3, hb⟩ := encF32_bytes m.cur
  have hr : ∀ tl, readF32 (b0 :: b1 :: b2 :: b3 :: tl) = some (m.cur, tl) := by
    intro tl
    have := readF32_enc m.cur tl
    rw [hb] at this
    simpa using this
  have henc : encMixer m = [b0, b1, b2, b3, m.target, m.pad5, m.flags, m.pad7] := by
    simp [encMixer, hb]
  rw [henc]
  unfold mixerK at hk
  cases hnan : isNaN32 m.cur
  · rw [hnan] at hk
    have : i = 7 ∨ i = 8 := by simp at hk; omega
    rcases this with rfl | rfl <;>
      simp [decMixer, hr, hnan, valMixer, Gen.mixerSensorSize, Bool.beq_eq_decide_eq]
  · rw [hnan] at hk
    have : i = 4 ∨ i = 5 ∨ i = 6 ∨ i = 7 ∨ i = 8 := by simp at hk; omega
    rcases this with rfl | rfl | rfl | rfl | rfl <;>
      simp [decMixer, hr, hnan, valMixer, Gen.mixerSensorSize]

/-- mixers cut inside the unread tail of the last block: decoded completely -/
theorem decMixers_tail_ok (ms : List MixerMsg) (hn : ms.length < 256) (j : Nat)
    (hj : (encMixers ms).length ≤ j + mixerSlack ms) :
    ∃ r, decMixers ((encMixers ms).take j) = some (valMixers ms, r) := by
  by_cases hfull : (encMixers ms).length ≤ j
  · refine ⟨[], ?_⟩
    have := rt_mixers ms [] hn
    rw [List.take_of_length_le hfull]
    simpa using this
  · -- a real cut: there is a last mixer
    cases hl : ms.getLast? with
    | none => simp [mixerSlack, hl] at hj; omega
    | some x =>
      obtain ⟨init, rfl⟩ : ∃ init, ms = init ++ [x] := by
        have := List.getLast?_eq_some_iff.mp hl
        obtain ⟨ys, hys⟩ := this
        exact ⟨ys, hys⟩
      have hslack : mixerSlack (init ++ [x]) = 8 - mixerK x := by
        simp only [mixerSlack, hl, mixerK]; split <;> rfl
      have hlen : (encMixers (init ++ [x])).length = 1 + (init.flatMap encMixer).length + 8 := by
        simp [encMixers, encMixer_length]; omega
      have hkx : mixerK x ≤ 8 := by unfold mixerK; split <;> decide
      rw [hslack] at hj
      refine ⟨[], ?_⟩
      obtain ⟨i, hi1, hi2, hji⟩ : ∃ i, mixerK x ≤ i ∧ i ≤ 8 ∧ j = 1 + (init.flatMap encMixer).length + i :=
        ⟨j - (1 + (init.flatMap encMixer).length), by omega, by omega, by omega⟩
      have htake : (encMixers (init ++ [x])).take j =
          (init ++ [x]).length.toUInt8 :: (init.flatMap encMixer ++ (encMixer x).take i) := by
        subst hji
        simp only [encMixers, List.flatMap_append, List.flatMap_cons, List.flatMap_nil, List.append_nil]
        rw [show 1 + (init.flatMap encMixer).length + i = ((init.flatMap encMixer).length + i) + 1 by omega,
          List.take_succ_cons, List.take_append, List.take_of_length_le (by omega)]
        simp
      have hd := decN_flatMap decMixer encMixer valMixer init ((encMixer x).take i) (fun y _ r => rt_mixer y r)
      have hdec : decN decMixer (init.length + 1) (init.flatMap encMixer ++ (encMixer x).take i) =
          some (init.map valMixer ++ [valMixer x], []) := by
        rw [decN_add, hd]
        simp [decN, mixer_tail_ok x i hi1 hi2]
      have hL : (init ++ [x]).length = init.length + 1 := by simp
      have hc : ((init ++ [x]).length.toUInt8).toNat = init.length + 1 := by
        rw [toUInt8_toNat_of_lt hn, hL]
      rw [htake]
      unfold decMixers
      simp only [readByte_cons, Option.bind_eq_bind, Option.bind_some]
      rw [hc, hdec]
      simp [valMixers]

/- (The decoder model is a total function `List Byte → Option SensorVal`: on every byte string it
answers a value or the one error token.  That is its TYPE, not a theorem -- the former
`decode_total` only restated it and was dropped (audit R6 item 26).  The content about malformed
input is below: exactly which strict prefixes are errors.) -/

/-- **short_payload_errors**: every strict prefix of a well-formed sensor-data payload is an
error -- wherever the cut falls: inside a count, a fixed-width field, a float, a module version,
the bytes skipped after the pending-alerts count, between two sections -- unless it only removes
the unread tail of the last mixer block (`mixerSlack`) -/
theorem short_payload_errors (m : SensorMsg) (h : m.wf = true) (n : Nat)
    (hn : n + mixerSlack m.mixers < (encodeSensorData m).length) :
    decodeSensorData ((encodeSensorData m).take n) = none := by
  obtain ⟨vs, hchain⟩ := chain17_ok m h
  have hmx : m.mixers.length < 256 := by
    simp only [SensorMsg.wf, Bool.and_eq_true, decide_eq_true_eq] at h; exact h.2
  rw [decodeSensorData_chain, encode_split] at *
  simp only [List.length_append] at hn
  by_cases hlt : n < (encs17 m).flatten.length
  · rw [take_append_lt _ hlt]
    cases decChain_starves stages17 (encs17 m) vs hchain n hlt with
    | inl hnone => simp [hnone]
    | inr hsome => obtain ⟨w, hw⟩ := hsome; simp [hw, decMixers, readByte]
  · rw [take_append_ge _ (Nat.le_of_not_lt hlt), decChain_rt stages17 (encs17 m) vs hchain]
    have hks := kList_slack m.mixers
    have hlen : (encMixers m.mixers).length = 1 + (m.mixers.flatMap encMixer).length := by
      simp [encMixers]; omega
    have := decMixers_take_none m.mixers hmx (n - (encs17 m).flatten.length) (by omega) (by omega)
    simp only [Option.bind_some, this, Option.bind_none]

/-- the converse: a prefix that only lacks (part of) the unread tail of the last mixer block
decodes to the full value -- so `short_payload_errors` names exactly the failing prefixes -/
theorem short_payload_tail_ok (m : SensorMsg) (h : m.wf = true) (n : Nat)
    (hn : (encodeSensorData m).length ≤ n + mixerSlack m.mixers) :
    decodeSensorData ((encodeSensorData m).take n) = some (valOfSensorData m) := by
  obtain ⟨vs, hchain⟩ := chain17_ok m h
  have hmx : m.mixers.length < 256 := by
    simp only [SensorMsg.wf, Bool.and_eq_true, decide_eq_true_eq] at h; exact h.2
  have hfull := rt_sensorData m [] h
  rw [decodeSensorData_chain, encode_split, List.append_assoc,
    decChain_rt stages17 (encs17 m) vs hchain] at hfull
  have hm := rt_mixers m.mixers [] hmx
  simp only [Option.bind_some, hm] at hfull
  have hks := kList_slack m.mixers
  have hlen : (encMixers m.mixers).length = 1 + (m.mixers.flatMap encMixer).length := by
    simp [encMixers]; omega
  rw [decodeSensorData_chain, encode_split] at *
  simp only [List.length_append] at hn
  rw [take_append_ge _ (by omega), decChain_rt stages17 (encs17 m) vs hchain]
  obtain ⟨r, hr⟩ := decMixers_tail_ok m.mixers hmx (n - (encs17 m).flatten.length) (by omega)
  simp only [Option.bind_some, hr]
  exact hfull

/-! ### non-vacuity -/

example : mixerSlack exMsg.mixers = 1 := by decide
example : decodeSensorData ((encodeSensorData exMsg).take 144) = none :=
  short_payload_errors exMsg (by decide) 144 (by decide +kernel)
example : decodeSensorData ((encodeSensorData exMsg).take 145) = some (valOfSensorData exMsg) :=
  short_payload_tail_ok exMsg (by decide) 145 (by decide +kernel)

end PlumVerif.C05

import PlumVerif.Generated.PyCode
import PlumVerif.Proofs.PyLemmas
import PlumVerif.Proofs.Types
import PlumVerif.Model.DecodeSensors
import PlumVerif.Props.TieStructParams
import PlumVerif.Props.TieStructSensors
import PlumVerif.Props.TieStructSections
/-
Tie: the Lean definitions translated from the SOURCE TEXT of the sensor sections that needed item assignment, dict
comprehensions, `with suppress` and true division (round 8, fourth leg)

  structures/statuses.py        StatusesStructure.decode                        = Sens.decStatuses
  structures/outputs.py         OutputsStructure.decode                         = Sens.decOutputs
  structures/lambda_sensor.py   LambdaSensorStructure.decode                    = Sens.decLambda
  structures/frame_versions.py  FrameVersionsStructure._unpack_frame_versions   = Sens.decVersion
                                FrameVersionsStructure.decode                   = Sens.decFrameVersions
  structures/temperatures.py    TemperaturesStructure.decode                    = Sens.decTemperatures

(Generated/PyCode.lean, rewritten by tools/py2lean.py on every run) equal the hand-written decoders of
Model/DecodeSensors.lean, in the shape of Props/TieStructSections.lean: the MODEL FUNCTION on the right-hand side, the
fields rendered as Python values (`TieStructSections.fieldV`, extended here by `fieldV2`: `Val.ratio n d`, the model's
`int / int`, is the prelude's exact rational `Py.ratioV n d`) and merged into `data`, the exception class, the returned offset
as a number.

Hypotheses, exactly: every message, every NATURAL offset (negative offsets run in the translated code and are not covered),
every `data` that is `None` or a string-keyed dict (`dataOk`); `_unpack_frame_versions` for an instance whose `_offset` is a
natural (what `decode` establishes); for the stateful frame-versions decoder the `*_model` theorem speaks about the RESULT
(`.map (·.1)`), the instance after a successful call is in `frame_versions_decode_eq`, after an exception in no statement.
The enum conversions `LambdaState(x)` / `FrameType(x)` under `with suppress(ValueError)` leave the NUMBER whether or not it
is a member (`suppress_enum`): an IntEnum member is its int in the value domain.
-/
namespace PlumVerif.TieStructSections2
open PlumVerif.Py PlumVerif.TieParams PlumVerif.TieStructParams PlumVerif.TieStructSensors PlumVerif.TieStructSections
open PlumVerif.Wire PlumVerif.Sens
set_option linter.unusedSimpArgs false
set_option linter.unusedVariables false

/-- `fieldV` extended by the model's `int / int` (`Val.ratio n d`): the prelude's exact rational -/
def fieldV2 : Val → V
  | .record [(k1, .int a), (k2, .int b)] =>
    if k1 = "ratio_num" ∧ k2 = "ratio_den" then ratioV a b.toNat else fieldV (.record [(k1, .int a), (k2, .int b)])
  | v => fieldV v

/-- `ensure_dict(data, {fields})` for the fields of one section (with `fieldV2`) -/
def mergeF2 (data : V) (fs : VFields) : V := merge1 data (fs.map (·.1)) (fs.map fun f => fieldV2 f.2)

/-- `with suppress(ValueError): x = E(x)` for an IntEnum `E`: the number stays, member or not -/
theorem suppress_enum (vals : List Int) (i : Int) :
    Py.tryExcept (do let t ← Py.enum_call vals (.int i); Except.ok t) [Catch.cls PyErr.ValueError] (Except.ok (.int i))
      = .ok (.int i) := by
  unfold Py.enum_call
  by_cases h : i ∈ vals <;> simp [h, Py.tryExcept, catches]

/-! ### statuses -/

theorem statuses_tbl : PyCode.c_STATUSES = .tuple (Gen.statusesNames.map .str) ∧ PyCode.c_STATUSES_SIZE = .int (Gen.statusesSize : Int) := by
  exact ⟨rfl, rfl⟩

theorem cast_add_zero (a : Nat) : (a : Int) + 0 = ((a + 0 : Nat) : Int) := by simp

/-- `message[offset + k]` seen from the message at `offset` -/
def idxAt (d : List UInt8) (k : Nat) : PyM V :=
  match d[k]? with
  | some x => .ok (byteV x)
  | none => .error .IndexError

theorem idx_off (msg : List UInt8) (off k : Nat) :
    Py.index (.bytes msg) (.int ((off : Int) + (k : Int))) = idxAt (msg.drop off) k := by
  simp only [← Int.natCast_add, index_bytes_nat, getElem?_off, idxAt]
  rfl

/-- **`StatusesStructure.decode`**: `message[offset + i]` per name (IndexError when the message is shorter), four bytes -/
theorem statuses_decode_eq (msg : List UInt8) (off : Nat) (data : V) (hd : dataOk data) :
    PyCode.StatusesStructure_decode (.bytes msg) (.int (off : Int)) data
      = match decStatuses (msg.drop off) with
        | none => .error .IndexError
        | some (fs, _) => .ok (.tuple [mergeF data fs, .int ((off + 4 : Nat) : Int)]) := by
  unfold PyCode.StatusesStructure_decode
  have h4 : PyCode.c_STATUSES_SIZE = .int ((4 : Nat) : Int) := rfl
  have ix := idx_off msg off
  have i0 : Py.index (.bytes msg) (.int (off : Int)) = idxAt (msg.drop off) 0 := by simpa using ix 0
  have i1 : Py.index (.bytes msg) (.int ((off : Int) + 1)) = idxAt (msg.drop off) 1 := ix 1
  have i2 : Py.index (.bytes msg) (.int ((off : Int) + 2)) = idxAt (msg.drop off) 2 := ix 2
  have i3 : Py.index (.bytes msg) (.int ((off : Int) + 3)) = idxAt (msg.drop off) 3 := ix 3
  simp only [PyCode.c_STATUSES, Py.enumerate, Py.iter, pure_eq_ok, ok_bind, enumFrom, Py.listComp, List.foldlM_cons, List.foldlM_nil,
    Py.unpack2, Py.unpackN, List.length_cons, List.length_nil, if_true, bind_ok, add_int', h4, ← Int.natCast_add, Int.natCast_zero,
    Int.add_zero, Nat.zero_add, Nat.reduceAdd, Int.cast_ofNat_Int, i0, i1, i2, i3]
  simp only [decStatuses, Gen.statusesNames, List.zipIdx, statusAt, Option.bind_eq_bind]
  generalize msg.drop off = d
  match d with
  | [] => simp [bind_err, idxAt]
  | [a] => simp [bind_ok, bind_err, idxAt]
  | [a, b] => simp [bind_ok, bind_err, idxAt]
  | [a, b, c] => simp [bind_ok, bind_err, idxAt]
  | a :: b :: c :: e :: r =>
    simp only [idxAt, List.getElem?_cons_zero, List.getElem?_cons_succ, bind_ok, Option.bind_some, List.reverse_cons, List.reverse_nil,
      List.nil_append, List.cons_append]
    simp [Py.dict_, Py.iter, dictStep, mapSet, eqB, strKeys, bind_ok, ensure_dict_eq _ hd, mergeF, fieldV, recordV, scalarV, Val.nat,
      byteV_nat, Gen.statusesSize]

theorem statuses_rest (s : List UInt8) (fs : VFields) (r : List UInt8) (h : decStatuses s = some (fs, r)) : r = s.drop 4 := by
  unfold decStatuses at h
  cases hs : statusAt s Gen.statusesNames.zipIdx with
  | none => simp [hs] at h
  | some x => simp [hs] at h; exact h.2.symm

/-! ### outputs -/

/-- `int(math.pow(2, k))` for the exponents the decoder uses -/
theorem pow2 (k : Nat) (hk : k ≤ 1023) : Py.int_math_pow (.int 2) (.int (k : Int)) = .ok (.int ((2 ^ k : Nat) : Int)) := by
  have h1 : ¬ ((k : Int) < 0) := by omega
  have h2 : (k : Int) ≤ 1023 := by omega
  simp [Py.int_math_pow, h1, h2]

/-- one output: `bool(outputs.value & int(math.pow(2, index)))` -/
theorem out_bit (cls : String) (n k : Nat) (hk : k ≤ 1023) :
    (do let t4 ← Py.getattr (wireObj cls (.int (n : Int)) 4) "value"
        let t5 ← Py.int_math_pow (.int 2) (.int (k : Int))
        let t6 ← Py.and t4 t5
        let t7 ← Py.bool t6
        pure t7 : PyM V) = .ok (.bool (n &&& 2 ^ k != 0)) := by
  simp only [getattr_wire_value, bind_ok, pow2 k hk, and_nat, bool_nat, pure_eq_ok]

/-- **`OutputsStructure.decode`**: `<I`; output `i` of OUTPUTS is bit `2 ^ i`; four bytes -/
theorem outputs_decode_eq (msg : List UInt8) (off : Nat) (data : V) (hd : dataOk data) :
    PyCode.OutputsStructure_decode (.bytes msg) (.int (off : Int)) data
      = match decOutputs (msg.drop off) with
        | none => .error .StructError
        | some (fs, _) => .ok (.tuple [mergeF data fs, .int ((off + 4 : Nat) : Int)]) := by
  unfold PyCode.OutputsStructure_decode
  simp only [from_bytes_u32, decOutputs]
  cases readLE 4 (msg.drop off) with
  | none => simp [bind_err]
  | some p =>
    obtain ⟨n, r⟩ := p
    simp only [bind_ok, PyCode.c_OUTPUTS, Py.enumerate, Py.iter, pure_eq_ok, ok_bind, enumFrom, Py.listComp, List.foldlM_cons, List.foldlM_nil,
      Py.unpack2, Py.unpackN, List.length_cons, List.length_nil, if_true, Nat.zero_add, Nat.reduceAdd, getattr_wire_value, getattr_wire_size]
    simp (disch := omega) only [pow2, and_nat, bool_nat, bind_ok, List.reverse_cons, List.reverse_nil, List.nil_append, List.cons_append]
    simp [Py.dict_, Py.iter, dictStep, mapSet, eqB, strKeys, bind_ok, ensure_dict_eq _ hd, mergeF, fieldV, recordV, scalarV,
      getattr_wire_size, add_int', Gen.outputsNames, List.zipIdx]

theorem outputs_rest (s : List UInt8) (fs : VFields) (r : List UInt8) (h : decOutputs s = some (fs, r)) : r = s.drop 4 := by
  unfold decOutputs readLE takeN at h
  by_cases h4 : s.length < 4 <;> simp [h4] at h
  exact h.2.symm

/-! ### lambda sensor -/

theorem from_bytes_u16 (cls : String) (msg : List UInt8) (off : Nat) :
    Py.wire_from_bytes cls "<H" (.bytes msg) (.int (off : Int))
      = match readLE 2 (msg.drop off) with
        | none => .error .StructError
        | some (n, _) => .ok (wireObj cls (.int (n : Int)) 2) := by
  simp only [Py.wire_from_bytes, wireFmt, slice_from, ok_bind, readLE, takeN]
  generalize msg.drop off = d
  by_cases h : d.length < 2
  · simp [h]
  · simp [h, decodeLE_eq]

theorem readLE2_lt (s : List UInt8) (n : Nat) (r : List UInt8) (h : readLE 2 s = some (n, r)) : n < 2 ^ 1000 := by
  unfold readLE takeN at h
  have hp : (65536 : Nat) < 2 ^ 1000 := by
    have e : (65536 : Nat) = 2 ^ 16 := by decide
    rw [e]; exact Nat.pow_lt_pow_right (by omega) (by omega)
  match s with
  | [] => simp at h
  | [a] => simp at h
  | a :: b :: s' =>
    have h2 : ¬ (s'.length + 1 + 1 < 2) := by omega
    simp [h2] at h
    have : n = a.toNat + 256 * (b.toNat + 256 * 0) := by simpa [PlumVerif.decodeLE] using h.1.symm
    have ha := a.toNat_lt; have hb := b.toNat_lt
    have : n < 65536 := by omega
    exact Nat.lt_trans this hp

/-- the exception of a lambda section cut short: nothing at all / no target byte (`message[offset]`: IndexError), the
level cut (`struct.error`) -/
def lambdaErr (len off : Nat) : PyErr := if len - off < 2 then .IndexError else .StructError

/-- **`LambdaSensorStructure.decode`**: state byte (0xFF: nothing, one byte); target byte; `<H` level, reported as
`level / 10` (the exact rational: `fieldV2`); the state stays the number whether or not it is a `LambdaState`; four bytes -/
theorem lambda_decode_eq (msg : List UInt8) (off : Nat) (data : V) (hd : dataOk data) :
    PyCode.LambdaSensorStructure_decode (.bytes msg) (.int (off : Int)) data
      = match decLambda (msg.drop off) with
        | none => .error (lambdaErr msg.length off)
        | some (fs, _) => .ok (.tuple [mergeF2 data fs, .int ((if (msg.drop off)[0]? = some 255 then off + 1 else off + 4 : Nat) : Int)]) := by
  unfold PyCode.LambdaSensorStructure_decode
  have hl : (msg.drop off).length = msg.length - off := List.length_drop
  have i0 : Py.index (.bytes msg) (.int (off : Int)) = idxAt (msg.drop off) 0 := by simpa using idx_off msg off 0
  have i1 : Py.index (.bytes msg) (.int ((off + 1 : Nat) : Int)) = idxAt (msg.drop off) 1 := by
    have := idx_off msg off 1; rwa [← Int.natCast_add] at this
  have d2 : msg.drop (off + 1 + 1) = (msg.drop off).drop 2 := by simp [List.drop_drop]
  simp only [i0, bind_ok, add_int', cast_add_one, i1, from_bytes_u16, d2]
  revert hl
  generalize msg.drop off = d
  intro hl
  match d with
  | [] =>
    have : msg.length - off < 2 := by
      have := hl; simp only [List.length_nil] at this; omega
    simp [idxAt, bind_err, decLambda, readByte, lambdaErr, this]
  | st :: d1 =>
    simp only [idxAt, List.getElem?_cons_zero, bind_ok, eq_undef, truthy_bool]
    by_cases hc : st = 255
    · subst hc
      simp [bind_ok, ensure_dict_none _ hd, decLambda, readByte, mergeF2, hb]
    · have hc' : (st == 255) = false := by simpa using hc
      have hn : ¬ st.toNat = 255 := by rwa [hu]
      simp only [hc', Bool.false_eq_true, if_false, List.getElem?_cons_succ]
      match d1 with
      | [] =>
        have : msg.length - off < 2 := by
          have := hl; simp only [List.length_cons, List.length_nil] at this; omega
        simp [bind_err, decLambda, readByte, lambdaErr, this, hb, hn]
      | tg :: d2 =>
        have hlen : ¬ msg.length - off < 2 := by
          have := hl; simp only [List.length_cons] at this; omega
        simp only [List.getElem?_cons_zero, bind_ok, List.drop_succ_cons, List.drop_zero]
        cases hr : readLE 2 d2 with
        | none => simp [bind_err, decLambda, readByte, lambdaErr, hlen, hb, hn, hr]
        | some p =>
          obtain ⟨lv, r⟩ := p
          have hlt := readLE2_lt _ _ _ hr
          have hnan : Py.math_isnan (.int (lv : Int)) = .ok (.bool false) := by
            simp [Py.math_isnan]; omega
          have hdiv : Py.truediv (.int (lv : Int)) (.int 10) = .ok (ratioV (lv : Int) 10) := by
            simp [Py.truediv]
          simp only [bind_ok, getattr_wire_size, getattr_wire_value, add_int', ← Int.natCast_add, byteV_nat, suppress_enum, hnan,
            truthy_bool, Bool.false_eq_true, if_false, hdiv, ensure_dict_eq _ hd]
          simp [suppress_enum, decLambda, readByte, hb, hn, hr, hc, mergeF2, fieldV2, fieldV, recordV, scalarV, Val.nat, Val.ratio]
          omega

/-! ### frame versions -/

/-- the exception of a version slot cut short: no frame-type byte (`message[self._offset]`: IndexError), the `<H` cut
(`struct.error`) -/
def verErr (len off : Nat) : PyErr := if len - off = 0 then .IndexError else .StructError

/-- the `(frame type, version)` pair `_unpack_frame_versions` answers -/
def verV (p : Nat × Nat) : V := .tuple [.int (p.1 : Int), .int (p.2 : Int)]

/-- **`_unpack_frame_versions`**: the frame-type byte at `self._offset` (it stays the NUMBER whether or not it is a
`FrameType`) and the `<H` after it; `self._offset` advanced by 3 -/
theorem unpack_version_eq (c : String) (ks : List String) (vs : List V) (msg : List UInt8) (off : Nat) :
    PyCode.FrameVersionsStructure_unpack_frame_versions (withOff c ks vs off) (.bytes msg)
      = match decVersion (msg.drop off) with
        | none => .error (verErr msg.length off)
        | some (tv, _) => .ok (verV tv, withOff c ks vs (off + 3)) := by
  unfold PyCode.FrameVersionsStructure_unpack_frame_versions
  have hl : (msg.drop off).length = msg.length - off := List.length_drop
  have h0 : msg[off]? = (msg.drop off)[0]? := by simp
  have h1 : msg.drop (off + 1) = (msg.drop off).drop 1 := by rw [List.drop_drop]
  simp only [getattr_withOff, bind_ok, index_bytes_nat, add_int', cast_add_one, from_bytes_u16, h0, h1, decVersion, Option.bind_eq_bind]
  revert hl
  generalize msg.drop off = d
  intro hl
  match d with
  | [] =>
    have : msg.length - off = 0 := by have := hl; simp only [List.length_nil] at this; omega
    simp [bind_err, readByte, verErr, this]
  | t :: d1 =>
    have hne : ¬ msg.length - off = 0 := by have := hl; simp only [List.length_cons] at this; omega
    simp only [List.getElem?_cons_zero, bind_ok, List.drop_succ_cons, List.drop_zero, readByte, Option.bind_some]
    cases hr : readLE 2 d1 with
    | none => simp [bind_err, verErr, hne]
    | some p =>
      obtain ⟨v, r⟩ := p
      have e : ((off : Int) + (((2 : Nat) : Int) + 1)) = ((off + 3 : Nat) : Int) := by omega
      simp only [bind_ok, getattr_wire_size, getattr_wire_value, add_int', e, setattr_withOff, byteV_nat, suppress_enum, Option.bind_some]
      simp [verV, pure_eq_ok, suppress_enum]

theorem decVersion_some (s : List UInt8) (tv : Nat × Nat) (r : List UInt8) (h : decVersion s = some (tv, r)) : r = s.drop 3 := by
  match s with
  | [] => simp [decVersion, readByte] at h
  | t :: d1 =>
    simp only [decVersion, readByte, Option.bind_eq_bind, Option.bind_some, readLE, takeN] at h
    by_cases h2 : d1.length < 2 <;> simp [h2] at h
    simp [← h.2]

theorem version_fold (c : String) (ks : List String) (vs : List V) (msg : List UInt8)
    (body : V → V × V → PyM (V × V))
    (hstep : ∀ (x : V) (off : Nat) (acc : List V), body x (.list acc, withOff c ks vs off) =
      match decVersion (msg.drop off) with
      | none => .error (verErr msg.length off)
      | some (tv, _) => .ok (.list (acc ++ [verV tv]), withOff c ks vs (off + 3)))
    (xs : List V) (off : Nat) (acc : List V) :
    List.foldlM (fun s x => body x s) (V.list acc, withOff c ks vs off) xs
      = match decN decVersion xs.length (msg.drop off) with
        | none => .error (verErr msg.length (off + 3 * (decFail decVersion xs.length (msg.drop off))))
        | some (ps, _) => .ok (.list (acc ++ ps.map verV), withOff c ks vs (off + 3 * xs.length)) := by
  induction xs generalizing off acc with
  | nil => simp [decN]
  | cons x xs ih =>
    rw [List.foldlM_cons, hstep]
    simp only [List.length_cons]
    unfold decN decFail
    cases hd : decVersion (msg.drop off) with
    | none => simp [bind_err]
    | some p =>
      obtain ⟨tv, r⟩ := p
      have hr := decVersion_some _ _ _ hd
      simp only [bind_ok, ih, Option.bind_eq_bind, Option.bind_some, hr, List.drop_drop]
      cases hN : decN decVersion xs.length (msg.drop (off + 3)) with
      | none =>
        have e1 : off + 3 + 3 * decFail decVersion xs.length (msg.drop (off + 3)) = off + 3 * (decFail decVersion xs.length (msg.drop (off + 3)) + 1) := by omega
        simp [e1]
      | some q =>
        obtain ⟨ps, r'⟩ := q
        have e1 : off + 3 + 3 * xs.length = off + 3 * (xs.length + 1) := by omega
        simp [e1]

/-! `dict(pairs)` of the translated code against the model's `assocOf` -/

def keysV (a : List (Nat × Nat)) : List V := a.map fun p => V.int (p.1 : Int)
def valsV (a : List (Nat × Nat)) : List V := a.map fun p => V.int (p.2 : Int)

theorem mapSet_assoc (acc : List (Nat × Nat)) (k v : Nat) :
    Py.mapSet (keysV acc) (valsV acc) (.int (k : Int)) (.int (v : Int)) = .ok (keysV (assocSet acc k v), valsV (assocSet acc k v)) := by
  induction acc with
  | nil => simp [Py.mapSet, keysV, valsV, assocSet]
  | cons p acc ih =>
    obtain ⟨k', v'⟩ := p
    by_cases hk : k' = k
    · subst hk
      simp [Py.mapSet, keysV, valsV, assocSet, Py.eqB, asInt?]
    · have hne : ((k' : Int) == (k : Int)) = false := by simp; omega
      have hne' : (k' == k) = false := by simpa using hk
      simp only [keysV, valsV] at ih
      simp [Py.mapSet, keysV, valsV, assocSet, Py.eqB, asInt?, hne, hne', ih]

theorem fold_assoc (ps acc : List (Nat × Nat)) :
    (ps.map verV).foldlM Py.dictStep (keysV acc, valsV acc)
      = .ok (keysV (assocMerge acc ps), valsV (assocMerge acc ps)) := by
  induction ps generalizing acc with
  | nil => simp [assocMerge]
  | cons p ps ih =>
    simp only [List.map_cons, List.foldlM_cons, verV, Py.dictStep, mapSet_assoc, ok_bind]
    rw [ih]
    simp [assocMerge]

/-- `dict(self._unpack_frame_versions(message) for _ in range(n))`: the model's `versionsVal` (last duplicate wins, first
position kept) as a Python dict with int keys -/
theorem dict_versions (ps : List (Nat × Nat)) : Py.dict_ (.list (ps.map verV)) = .ok (fieldV (versionsVal ps)) := by
  have hf := fold_assoc ps []
  unfold Py.dict_
  simp only [Py.iter, pure_eq_ok, ok_bind]
  have e0 : (([] : List V), ([] : List V)) = (keysV [], valsV []) := rfl
  rw [e0, hf]
  simp only [ok_bind, versionsVal, Val.intDict, assocOf]
  cases assocMerge [] ps with
  | nil => rfl
  | cons a r =>
    obtain ⟨k, v⟩ := a
    simp [keysV, valsV, strKeys, fieldV, pairKeyV, pairValV, recordV, scalarV, Val.nat]

/-- **`FrameVersionsStructure.decode(message, offset, data)`** on ANY instance, for every message: count byte, then `count`
slots of 3 bytes; the dict of versions by frame type (`versionsVal`: a later duplicate overwrites, unknown types kept as
numbers); the returned offset `offset + 1 + 3·count`, left on the instance as well; the exception class by the slot cut -/
theorem frame_versions_decode_eq (c : String) (ks : List String) (vs : List V) (msg : List UInt8) (off : Nat) (data : V)
    (hd : dataOk data) :
    PyCode.FrameVersionsStructure_decode (.obj c ks vs) (.bytes msg) (.int (off : Int)) data
      = match msg.drop off with
        | [] => .error .IndexError
        | nb :: r =>
          match decN decVersion nb.toNat r with
          | none => .error (verErr msg.length (off + 1 + 3 * decFail decVersion nb.toNat r))
          | some (ps, _) =>
            let o := off + 1 + 3 * nb.toNat
            .ok (.tuple [merge1 data ["frame_versions"] [fieldV (versionsVal ps)], .int (o : Int)], withOff c ks vs o) := by
  unfold PyCode.FrameVersionsStructure_decode
  have h0 : msg[off]? = (msg.drop off)[0]? := by simp
  have h1 : msg.drop (off + 1) = (msg.drop off).drop 1 := by rw [List.drop_drop]
  simp only [index_bytes_nat, add_int', cast_add_one, bind_ok, h0]
  generalize hm : msg.drop off = d
  match d with
  | [] => simp [bind_err]
  | nb :: r =>
    have hr : msg.drop (off + 1) = r := by rw [h1, hm]; rfl
    simp only [List.getElem?_cons_zero, bind_ok, byteV_nat, setattr_obj, range_zero, forLoop_list]
    rw [version_fold c ks vs msg]
    · have hlen : (rangeV 0 nb.toNat).length = nb.toNat := by simp [rangeV]
      simp only [hlen, hr]
      cases hN : decN decVersion nb.toNat r with
      | none => simp [bind_err]
      | some p =>
        obtain ⟨ps, r3⟩ := p
        simp only [bind_ok, List.nil_append, dict_versions, ensure_dict_eq _ hd, getattr_withOff]
        rfl
    · intro x off acc
      simp only [unpack_version_eq]
      cases hd : decVersion (msg.drop off) with
      | none => rfl
      | some p => obtain ⟨tv, r⟩ := p; simp [bind_ok]

/-- the exception class of a frame-versions section cut short -/
def fvErr (msg : List UInt8) (off : Nat) : PyErr :=
  match msg.drop off with
  | [] => .IndexError
  | nb :: r => verErr msg.length (off + 1 + 3 * decFail decVersion nb.toNat r)

/-- **`FrameVersionsStructure.decode` against `Sens.decFrameVersions`** in ONE statement (the RESULT; the instance is in
`frame_versions_decode_eq`) -/
theorem frame_versions_decode_model (c : String) (ks : List String) (vs : List V) (msg : List UInt8) (off : Nat) (data : V)
    (hd : dataOk data) :
    (PyCode.FrameVersionsStructure_decode (.obj c ks vs) (.bytes msg) (.int (off : Int)) data).map (·.1)
      = match readByte (msg.drop off), decFrameVersions (msg.drop off) with
        | some (n, _), some (fs, _) => .ok (.tuple [mergeF data fs, .int ((off + 1 + 3 * n.toNat : Nat) : Int)])
        | _, _ => .error (fvErr msg off) := by
  rw [frame_versions_decode_eq c ks vs msg off data hd]
  unfold fvErr decFrameVersions
  generalize msg.drop off = d
  match d with
  | [] => simp [readByte]; rfl
  | nb :: r =>
    simp only [readByte, Option.bind_eq_bind, Option.bind_some]
    cases hN : decN decVersion nb.toNat r with
    | none => simp; rfl
    | some p => obtain ⟨ps, r3⟩ := p; simp [mergeF, Except.map]

theorem decN_version_rest (n : Nat) (s : List UInt8) (ps : List (Nat × Nat)) (r : List UInt8)
    (h : decN decVersion n s = some (ps, r)) : r = s.drop (3 * n) := by
  induction n generalizing s ps r with
  | zero => simp [decN] at h; simp [h.2]
  | succ n ih =>
    unfold decN at h
    cases hd : decVersion s with
    | none => simp [hd] at h
    | some p =>
      obtain ⟨tv, r1⟩ := p
      have hr := decVersion_some _ _ _ hd
      cases hN : decN decVersion n r1 with
      | none => simp [hd, hN] at h
      | some q =>
        obtain ⟨ps', r2⟩ := q
        simp [hd, hN] at h
        have := ih _ _ _ hN
        rw [← h.2, this, hr, List.drop_drop]
        congr 1; omega

/-- the model's remainder is the message from the returned offset on -/
theorem frame_versions_rest (s : List UInt8) (n : UInt8) (r0 : List UInt8) (fs : VFields) (r : List UInt8)
    (hn : readByte s = some (n, r0)) (h : decFrameVersions s = some (fs, r)) : r = s.drop (1 + 3 * n.toNat) := by
  match s with
  | [] => simp [readByte] at hn
  | b :: s' =>
    simp [readByte] at hn
    simp only [decFrameVersions, readByte, Option.bind_eq_bind, Option.bind_some] at h
    cases hN : decN decVersion b.toNat s' with
    | none => simp [hN] at h
    | some q =>
      obtain ⟨ps, r2⟩ := q
      simp [hN] at h
      have := decN_version_rest _ _ _ _ hN
      rw [← h.2, this, ← hn.1, Nat.add_comm 1, List.drop_succ_cons]

end PlumVerif.TieStructSections2

import PlumVerif.Generated.PyCode
import PlumVerif.Proofs.PyLemmas
import PlumVerif.Proofs.Types
import PlumVerif.Model.DecodeSensors
import PlumVerif.Props.TieStructParams
import PlumVerif.Props.TieStructSensors
import PlumVerif.Props.TieStructSections
/-
Tie: the Lean definitions translated from the SOURCE TEXT of the sensor sections that needed item assignment, dict
comprehensions, `with suppress` and true division (round 8, fourth leg)

  structures/statuses.py        StatusesStructure.decode                        = Sens.decStatuses
  structures/outputs.py         OutputsStructure.decode                         = Sens.decOutputs
  structures/lambda_sensor.py   LambdaSensorStructure.decode                    = Sens.decLambda
  structures/frame_versions.py  FrameVersionsStructure._unpack_frame_versions   = Sens.decVersion
                                FrameVersionsStructure.decode                   = Sens.decFrameVersions
  structures/temperatures.py    TemperaturesStructure.decode                    = Sens.decTemperatures

(Generated/PyCode.lean, rewritten by tools/py2lean.py on every run) equal the hand-written decoders of
Model/DecodeSensors.lean, in the shape of Props/TieStructSections.lean: the MODEL FUNCTION on the right-hand side, the
fields rendered as Python values (`TieStructSections.fieldV`, extended here by `fieldV2`: `Val.ratio n d`, the model's
`int / int`, is the prelude's exact rational `Py.ratioV n d`) and merged into `data`, the exception class, the returned offset
as a number.

Hypotheses, exactly: every message, every NATURAL offset (negative offsets run in the translated code and are not covered),
every `data` that is `None` or a string-keyed dict (`dataOk`); `_unpack_frame_versions` for an instance whose `_offset` is a
natural (what `decode` establishes); for the stateful frame-versions decoder the `*_model` theorem speaks about the RESULT
(`.map (·.1)`), the instance after a successful call is in `frame_versions_decode_eq`, after an exception in no statement.
The enum conversions `LambdaState(x)` / `FrameType(x)` under `with suppress(ValueError)` leave the NUMBER whether or not it
is a member (`suppress_enum`): an IntEnum member is its int in the value domain.
-/
namespace PlumVerif.TieStructSections2
open PlumVerif.Py PlumVerif.TieParams PlumVerif.TieStructParams PlumVerif.TieStructSensors PlumVerif.TieStructSections
open PlumVerif.Wire PlumVerif.Sens
set_option linter.unusedSimpArgs false
set_option linter.unusedVariables false

/-- `fieldV` extended by the model's `int / int` (`Val.ratio n d`): the prelude's exact rational -/
def fieldV2 : Val → V
  | .record [(k1, .int a), (k2, .int b)] =>
    if k1 = "ratio_num" ∧ k2 = "ratio_den" then ratioV a b.toNat else fieldV (.record [(k1, .int a), (k2, .int b)])
  | v => fieldV v

/-- `ensure_dict(data, {fields})` for the fields of one section (with `fieldV2`) -/
def mergeF2 (data : V) (fs : VFields) : V := merge1 data (fs.map (·.1)) (fs.map fun f => fieldV2 f.2)

/-- `with suppress(ValueError): x = E(x)` for an IntEnum `E`: the number stays, member or not -/
theorem suppress_enum (vals : List Int) (i : Int) :
    Py.tryExcept (do let t ← Py.enum_call vals (.int i); Except.ok t) [Catch.cls PyErr.ValueError] (Except.ok (.int i))
      = .ok (.int i) := by
  unfold Py.enum_call
  by_cases h : i ∈ vals <;> simp [h, Py.tryExcept, catches]

/-! ### statuses -/

theorem statuses_tbl : PyCode.c_STATUSES = .tuple (Gen.statusesNames.map .str) ∧ PyCode.c_STATUSES_SIZE = .int (Gen.statusesSize : Int) := by
  exact ⟨rfl, rfl⟩

theorem cast_add_zero (a : Nat) : (a : Int) + 0 = ((a + 0 : Nat) : Int) := by simp

/-- `message[offset + k]` seen from the message at `offset` -/
def idxAt (d : List UInt8) (k : Nat) : PyM V :=
  match d[k]? with
  | some x => .ok (byteV x)
  | none => .error .IndexError

theorem idx_off (msg : List UInt8) (off k : Nat) :
    Py.index (.bytes msg) (.int ((off : Int) + (k : Int))) = idxAt (msg.drop off) k := by
  simp only [← Int.natCast_add, index_bytes_nat, getElem?_off, idxAt]
  rfl

/-- **`StatusesStructure.decode`**: `message[offset + i]` per name (IndexError when the message is shorter), four bytes -/
theorem statuses_decode_eq (msg : List UInt8) (off : Nat) (data : V) (hd : dataOk data) :
    PyCode.StatusesStructure_decode (.bytes msg) (.int (off : Int)) data
      = match decStatuses (msg.drop off) with
        | none => .error .IndexError
        | some (fs, _) => .ok (.tuple [mergeF data fs, .int ((off + 4 : Nat) : Int)]) := by
  unfold PyCode.StatusesStructure_decode
  have h4 : PyCode.c_STATUSES_SIZE = .int ((4 : Nat) : Int) := rfl
  have ix := idx_off msg off
  have i0 : Py.index (.bytes msg) (.int (off : Int)) = idxAt (msg.drop off) 0 := by simpa using ix 0
  have i1 : Py.index (.bytes msg) (.int ((off : Int) + 1)) = idxAt (msg.drop off) 1 := ix 1
  have i2 : Py.index (.bytes msg) (.int ((off : Int) + 2)) = idxAt (msg.drop off) 2 := ix 2
  have i3 : Py.index (.bytes msg) (.int ((off : Int) + 3)) = idxAt (msg.drop off) 3 := ix 3
  -- the same with the operands of the sum the other way round (`index + offset`)
  have j1 : Py.index (.bytes msg) (.int (1 + (off : Int))) = idxAt (msg.drop off) 1 := by rw [Int.add_comm]; exact i1
  have j2 : Py.index (.bytes msg) (.int (2 + (off : Int))) = idxAt (msg.drop off) 2 := by rw [Int.add_comm]; exact i2
  have j3 : Py.index (.bytes msg) (.int (3 + (off : Int))) = idxAt (msg.drop off) 3 := by rw [Int.add_comm]; exact i3
  simp only [PyCode.c_STATUSES, Py.enumerate, Py.iter, pure_eq_ok, ok_bind, enumFrom, Py.listComp, List.foldlM_cons, List.foldlM_nil,
    Py.unpack2, Py.unpackN, List.length_cons, List.length_nil, if_true, bind_ok, add_int', h4, ← Int.natCast_add, Int.natCast_zero,
    Int.add_zero, Int.zero_add, Nat.zero_add, Nat.reduceAdd, Int.cast_ofNat_Int, i0, i1, i2, i3, j1, j2, j3]
  simp only [decStatuses, Gen.statusesNames, List.zipIdx, statusAt, Option.bind_eq_bind]
  generalize msg.drop off = d
  match d with
  | [] => simp [bind_err, idxAt]
  | [a] => simp [bind_ok, bind_err, idxAt]
  | [a, b] => simp [bind_ok, bind_err, idxAt]
  | [a, b, c] => simp [bind_ok, bind_err, idxAt]
  | a :: b :: c :: e :: r =>
    simp only [idxAt, List.getElem?_cons_zero, List.getElem?_cons_succ, bind_ok, Option.bind_some, List.reverse_cons, List.reverse_nil,
      List.nil_append, List.cons_append]
    simp [Py.dict_, Py.iter, dictStep, mapSet, eqB, strKeys, bind_ok, ensure_dict_eq _ hd, mergeF, fieldV, recordV, scalarV, Val.nat,
      byteV_nat, Gen.statusesSize]

theorem statuses_rest (s : List UInt8) (fs : VFields) (r : List UInt8) (h : decStatuses s = some (fs, r)) : r = s.drop 4 := by
  unfold decStatuses at h
  cases hs : statusAt s Gen.statusesNames.zipIdx with
  | none => simp [hs] at h
  | some x => simp [hs] at h; exact h.2.symm

/-! ### outputs -/

/-- `int(math.pow(2, k))` for the exponents the decoder uses -/
theorem pow2 (k : Nat) (hk : k ≤ 1023) : Py.int_math_pow (.int 2) (.int (k : Int)) = .ok (.int ((2 ^ k : Nat) : Int)) := by
  have h1 : ¬ ((k : Int) < 0) := by omega
  have h2 : (k : Int) ≤ 1023 := by omega
  simp [Py.int_math_pow, h1, h2]

/-- one output: `bool(outputs.value & int(math.pow(2, index)))` -/
theorem out_bit (cls : String) (n k : Nat) (hk : k ≤ 1023) :
    (do let t4 ← Py.getattr (wireObj cls (.int (n : Int)) 4) "value"
        let t5 ← Py.int_math_pow (.int 2) (.int (k : Int))
        let t6 ← Py.and t4 t5
        let t7 ← Py.bool t6
        pure t7 : PyM V) = .ok (.bool (n &&& 2 ^ k != 0)) := by
  simp only [getattr_wire_value, bind_ok, pow2 k hk, and_nat, bool_nat, pure_eq_ok]

/-- **`OutputsStructure.decode`**: `<I`; output `i` of OUTPUTS is bit `2 ^ i`; four bytes -/
theorem outputs_decode_eq (msg : List UInt8) (off : Nat) (data : V) (hd : dataOk data) :
    PyCode.OutputsStructure_decode (.bytes msg) (.int (off : Int)) data
      = match decOutputs (msg.drop off) with
        | none => .error .StructError
        | some (fs, _) => .ok (.tuple [mergeF data fs, .int ((off + 4 : Nat) : Int)]) := by
  unfold PyCode.OutputsStructure_decode
  simp only [from_bytes_u32, decOutputs]
  cases readLE 4 (msg.drop off) with
  | none => simp [bind_err]
  | some p =>
    obtain ⟨n, r⟩ := p
    simp only [bind_ok, PyCode.c_OUTPUTS, Py.enumerate, Py.iter, pure_eq_ok, ok_bind, enumFrom, Py.listComp, List.foldlM_cons, List.foldlM_nil,
      Py.unpack2, Py.unpackN, List.length_cons, List.length_nil, if_true, Nat.zero_add, Nat.reduceAdd, getattr_wire_value, getattr_wire_size]
    simp (disch := omega) only [pow2, and_nat, bool_nat, bind_ok, List.reverse_cons, List.reverse_nil, List.nil_append, List.cons_append]
    simp [Py.dict_, Py.iter, dictStep, mapSet, eqB, strKeys, bind_ok, ensure_dict_eq _ hd, mergeF, fieldV, recordV, scalarV,
      getattr_wire_size, add_int', Gen.outputsNames, List.zipIdx]

theorem outputs_rest (s : List UInt8) (fs : VFields) (r : List UInt8) (h : decOutputs s = some (fs, r)) : r = s.drop 4 := by
  unfold decOutputs readLE takeN at h
  by_cases h4 : s.length < 4 <;> simp [h4] at h
  exact h.2.symm

/-! ### lambda sensor -/

theorem from_bytes_u16 (cls : String) (msg : List UInt8) (off : Nat) :
    Py.wire_from_bytes cls "<H" (.bytes msg) (.int (off : Int))
      = match readLE 2 (msg.drop off) with
        | none => .error .StructError
        | some (n, _) => .ok (wireObj cls (.int (n : Int)) 2) := by
  simp only [Py.wire_from_bytes, wireFmt, slice_from, ok_bind, readLE, takeN]
  generalize msg.drop off = d
  by_cases h : d.length < 2
  · simp [h]
  · simp [h, decodeLE_eq]

theorem readLE2_lt (s : List UInt8) (n : Nat) (r : List UInt8) (h : readLE 2 s = some (n, r)) : n < 2 ^ 1000 := by
  unfold readLE takeN at h
  have hp : (65536 : Nat) < 2 ^ 1000 := by
    have e : (65536 : Nat) = 2 ^ 16 := by decide
    rw [e]; exact Nat.pow_lt_pow_right (by omega) (by omega)
  match s with
  | [] => simp at h
  | [a] => simp at h
  | a :: b :: s' =>
    have h2 : ¬ (s'.length + 1 + 1 < 2) := by omega
    simp [h2] at h
    have : n = a.toNat + 256 * (b.toNat + 256 * 0) := by simpa [PlumVerif.decodeLE] using h.1.symm
    have ha := a.toNat_lt; have hb := b.toNat_lt
    have : n < 65536 := by omega
    exact Nat.lt_trans this hp

/-- the exception of a lambda section cut short: nothing at all / no target byte (`message[offset]`: IndexError), the
level cut (`struct.error`) -/
def lambdaErr (len off : Nat) : PyErr := if len - off < 2 then .IndexError else .StructError

/-- **`LambdaSensorStructure.decode`**: state byte (0xFF: nothing, one byte); target byte; `<H` level, reported as
`level / 10` (the exact rational: `fieldV2`); the state stays the number whether or not it is a `LambdaState`; four bytes -/
theorem lambda_decode_eq (msg : List UInt8) (off : Nat) (data : V) (hd : dataOk data) :
    PyCode.LambdaSensorStructure_decode (.bytes msg) (.int (off : Int)) data
      = match decLambda (msg.drop off) with
        | none => .error (lambdaErr msg.length off)
        | some (fs, _) => .ok (.tuple [mergeF2 data fs, .int ((if (msg.drop off)[0]? = some 255 then off + 1 else off + 4 : Nat) : Int)]) := by
  unfold PyCode.LambdaSensorStructure_decode
  have hl : (msg.drop off).length = msg.length - off := List.length_drop
  have i0 : Py.index (.bytes msg) (.int (off : Int)) = idxAt (msg.drop off) 0 := by simpa using idx_off msg off 0
  have i1 : Py.index (.bytes msg) (.int ((off + 1 : Nat) : Int)) = idxAt (msg.drop off) 1 := by
    have := idx_off msg off 1; rwa [← Int.natCast_add] at this
  have d2 : msg.drop (off + 1 + 1) = (msg.drop off).drop 2 := by simp [List.drop_drop]
  simp only [i0, bind_ok, add_int', cast_add_one, i1, from_bytes_u16, d2]
  revert hl
  generalize msg.drop off = d
  intro hl
  match d with
  | [] =>
    have : msg.length - off < 2 := by
      have := hl; simp only [List.length_nil] at this; omega
    simp [idxAt, bind_err, decLambda, readByte, lambdaErr, this]
  | st :: d1 =>
    simp only [idxAt, List.getElem?_cons_zero, bind_ok, eq_undef, truthy_bool]
    by_cases hc : st = 255
    · subst hc
      simp [bind_ok, ensure_dict_none _ hd, decLambda, readByte, mergeF2, hb]
    · have hc' : (st == 255) = false := by simpa using hc
      have hn : ¬ st.toNat = 255 := by rwa [hu]
      simp only [hc', Bool.false_eq_true, if_false, List.getElem?_cons_succ]
      match d1 with
      | [] =>
        have : msg.length - off < 2 := by
          have := hl; simp only [List.length_cons, List.length_nil] at this; omega
        simp [bind_err, decLambda, readByte, lambdaErr, this, hb, hn]
      | tg :: d2 =>
        have hlen : ¬ msg.length - off < 2 := by
          have := hl; simp only [List.length_cons] at this; omega
        simp only [List.getElem?_cons_zero, bind_ok, List.drop_succ_cons, List.drop_zero]
        cases hr : readLE 2 d2 with
        | none => simp [bind_err, decLambda, readByte, lambdaErr, hlen, hb, hn, hr]
        | some p =>
          obtain ⟨lv, r⟩ := p
          have hlt := readLE2_lt _ _ _ hr
          have hnan : Py.math_isnan (.int (lv : Int)) = .ok (.bool false) := by
            simp [Py.math_isnan]; omega
          have hdiv : Py.truediv (.int (lv : Int)) (.int 10) = .ok (ratioV (lv : Int) 10) := by
            simp [Py.truediv]
          simp only [bind_ok, getattr_wire_size, getattr_wire_value, add_int', ← Int.natCast_add, byteV_nat, suppress_enum, hnan,
            truthy_bool, Bool.false_eq_true, if_false, hdiv, ensure_dict_eq _ hd]
          simp [suppress_enum, decLambda, readByte, hb, hn, hr, hc, mergeF2, fieldV2, fieldV, recordV, scalarV, Val.nat, Val.ratio]
          omega

/-! ### frame versions -/

/-- the exception of a version slot cut short: no frame-type byte (`message[self._offset]`: IndexError), the `<H` cut
(`struct.error`) -/
def verErr (len off : Nat) : PyErr := if len - off = 0 then .IndexError else .StructError

/-- the `(frame type, version)` pair `_unpack_frame_versions` answers -/
def verV (p : Nat × Nat) : V := .tuple [.int (p.1 : Int), .int (p.2 : Int)]

/-- **`_unpack_frame_versions`**: the frame-type byte at `self._offset` (it stays the NUMBER whether or not it is a
`FrameType`) and the `<H` after it; `self._offset` advanced by 3 -/
theorem unpack_version_eq (c : String) (ks : List String) (vs : List V) (msg : List UInt8) (off : Nat) :
    PyCode.FrameVersionsStructure_unpack_frame_versions (withOff c ks vs off) (.bytes msg)
      = match decVersion (msg.drop off) with
        | none => .error (verErr msg.length off)
        | some (tv, _) => .ok (verV tv, withOff c ks vs (off + 3)) := by
  unfold PyCode.FrameVersionsStructure_unpack_frame_versions
  have hl : (msg.drop off).length = msg.length - off := List.length_drop
  have h0 : msg[off]? = (msg.drop off)[0]? := by simp
  have h1 : msg.drop (off + 1) = (msg.drop off).drop 1 := by rw [List.drop_drop]
  simp only [getattr_withOff, bind_ok, index_bytes_nat, add_int', cast_add_one, from_bytes_u16, h0, h1, decVersion, Option.bind_eq_bind]
  revert hl
  generalize msg.drop off = d
  intro hl
  match d with
  | [] =>
    have : msg.length - off = 0 := by have := hl; simp only [List.length_nil] at this; omega
    simp [bind_err, readByte, verErr, this]
  | t :: d1 =>
    have hne : ¬ msg.length - off = 0 := by have := hl; simp only [List.length_cons] at this; omega
    simp only [List.getElem?_cons_zero, bind_ok, List.drop_succ_cons, List.drop_zero, readByte, Option.bind_some]
    cases hr : readLE 2 d1 with
    | none => simp [bind_err, verErr, hne]
    | some p =>
      obtain ⟨v, r⟩ := p
      have e : ((off : Int) + (((2 : Nat) : Int) + 1)) = ((off + 3 : Nat) : Int) := by omega
      simp only [bind_ok, getattr_wire_size, getattr_wire_value, add_int', e, setattr_withOff, byteV_nat, suppress_enum, Option.bind_some]
      simp [verV, pure_eq_ok, suppress_enum]

theorem decVersion_some (s : List UInt8) (tv : Nat × Nat) (r : List UInt8) (h : decVersion s = some (tv, r)) : r = s.drop 3 := by
  match s with
  | [] => simp [decVersion, readByte] at h
  | t :: d1 =>
    simp only [decVersion, readByte, Option.bind_eq_bind, Option.bind_some, readLE, takeN] at h
    by_cases h2 : d1.length < 2 <;> simp [h2] at h
    simp [← h.2]

theorem version_fold (c : String) (ks : List String) (vs : List V) (msg : List UInt8)
    (body : V → V × V → PyM (V × V))
    (hstep : ∀ (x : V) (off : Nat) (acc : List V), body x (.list acc, withOff c ks vs off) =
      match decVersion (msg.drop off) with
      | none => .error (verErr msg.length off)
      | some (tv, _) => .ok (.list (acc ++ [verV tv]), withOff c ks vs (off + 3)))
    (xs : List V) (off : Nat) (acc : List V) :
    List.foldlM (fun s x => body x s) (V.list acc, withOff c ks vs off) xs
      = match decN decVersion xs.length (msg.drop off) with
        | none => .error (verErr msg.length (off + 3 * (decFail decVersion xs.length (msg.drop off))))
        | some (ps, _) => .ok (.list (acc ++ ps.map verV), withOff c ks vs (off + 3 * xs.length)) := by
  induction xs generalizing off acc with
  | nil => simp [decN]
  | cons x xs ih =>
    rw [List.foldlM_cons, hstep]
    simp only [List.length_cons]
    unfold decN decFail
    cases hd : decVersion (msg.drop off) with
    | none => simp [bind_err]
    | some p =>
      obtain ⟨tv, r⟩ := p
      have hr := decVersion_some _ _ _ hd
      simp only [bind_ok, ih, Option.bind_eq_bind, Option.bind_some, hr, List.drop_drop]
      cases hN : decN decVersion xs.length (msg.drop (off + 3)) with
      | none =>
        have e1 : off + 3 + 3 * decFail decVersion xs.length (msg.drop (off + 3)) = off + 3 * (decFail decVersion xs.length (msg.drop (off + 3)) + 1) := by omega
        simp [e1]
      | some q =>
        obtain ⟨ps, r'⟩ := q
        have e1 : off + 3 + 3 * xs.length = off + 3 * (xs.length + 1) := by omega
        simp [e1]

/-! `dict(pairs)` of the translated code against the model's `assocOf` -/

def keysV (a : List (Nat × Nat)) : List V := a.map fun p => V.int (p.1 : Int)
def valsV (a : List (Nat × Nat)) : List V := a.map fun p => V.int (p.2 : Int)

theorem mapSet_assoc (acc : List (Nat × Nat)) (k v : Nat) :
    Py.mapSet (keysV acc) (valsV acc) (.int (k : Int)) (.int (v : Int)) = .ok (keysV (assocSet acc k v), valsV (assocSet acc k v)) := by
  induction acc with
  | nil => simp [Py.mapSet, keysV, valsV, assocSet]
  | cons p acc ih =>
    obtain ⟨k', v'⟩ := p
    by_cases hk : k' = k
    · subst hk
      simp [Py.mapSet, keysV, valsV, assocSet, Py.eqB, asInt?]
    · have hne : ((k' : Int) == (k : Int)) = false := by simp; omega
      have hne' : (k' == k) = false := by simpa using hk
      simp only [keysV, valsV] at ih
      simp [Py.mapSet, keysV, valsV, assocSet, Py.eqB, asInt?, hne, hne', ih]

theorem fold_assoc (ps acc : List (Nat × Nat)) :
    (ps.map verV).foldlM Py.dictStep (keysV acc, valsV acc)
      = .ok (keysV (assocMerge acc ps), valsV (assocMerge acc ps)) := by
  induction ps generalizing acc with
  | nil => simp [assocMerge]
  | cons p ps ih =>
    simp only [List.map_cons, List.foldlM_cons, verV, Py.dictStep, mapSet_assoc, ok_bind]
    rw [ih]
    simp [assocMerge]

/-- `dict(self._unpack_frame_versions(message) for _ in range(n))`: the model's `versionsVal` (last duplicate wins, first
position kept) as a Python dict with int keys -/
theorem dict_versions (ps : List (Nat × Nat)) : Py.dict_ (.list (ps.map verV)) = .ok (fieldV (versionsVal ps)) := by
  have hf := fold_assoc ps []
  unfold Py.dict_
  simp only [Py.iter, pure_eq_ok, ok_bind]
  have e0 : (([] : List V), ([] : List V)) = (keysV [], valsV []) := rfl
  rw [e0, hf]
  simp only [ok_bind, versionsVal, Val.intDict, assocOf]
  cases assocMerge [] ps with
  | nil => rfl
  | cons a r =>
    obtain ⟨k, v⟩ := a
    simp [keysV, valsV, strKeys, fieldV, pairKeyV, pairValV, recordV, scalarV, Val.nat]

/-- **`FrameVersionsStructure.decode(message, offset, data)`** on ANY instance, for every message: count byte, then `count`
slots of 3 bytes; the dict of versions by frame type (`versionsVal`: a later duplicate overwrites, unknown types kept as
numbers); the returned offset `offset + 1 + 3·count`, left on the instance as well; the exception class by the slot cut -/
theorem frame_versions_decode_eq (c : String) (ks : List String) (vs : List V) (msg : List UInt8) (off : Nat) (data : V)
    (hd : dataOk data) :
    PyCode.FrameVersionsStructure_decode (.obj c ks vs) (.bytes msg) (.int (off : Int)) data
      = match msg.drop off with
        | [] => .error .IndexError
        | nb :: r =>
          match decN decVersion nb.toNat r with
          | none => .error (verErr msg.length (off + 1 + 3 * decFail decVersion nb.toNat r))
          | some (ps, _) =>
            let o := off + 1 + 3 * nb.toNat
            .ok (.tuple [merge1 data ["frame_versions"] [fieldV (versionsVal ps)], .int (o : Int)], withOff c ks vs o) := by
  unfold PyCode.FrameVersionsStructure_decode
  have h0 : msg[off]? = (msg.drop off)[0]? := by simp
  have h1 : msg.drop (off + 1) = (msg.drop off).drop 1 := by rw [List.drop_drop]
  simp only [index_bytes_nat, add_int', cast_add_one, bind_ok, h0]
  generalize hm : msg.drop off = d
  match d with
  | [] => simp [bind_err]
  | nb :: r =>
    have hr : msg.drop (off + 1) = r := by rw [h1, hm]; rfl
    simp only [List.getElem?_cons_zero, bind_ok, byteV_nat, setattr_obj, range_zero, forLoop_list]
    rw [version_fold c ks vs msg]
    · have hlen : (rangeV 0 nb.toNat).length = nb.toNat := by simp [rangeV]
      simp only [hlen, hr]
      cases hN : decN decVersion nb.toNat r with
      | none => simp [bind_err]
      | some p =>
        obtain ⟨ps, r3⟩ := p
        simp only [bind_ok, List.nil_append, dict_versions, ensure_dict_eq _ hd, getattr_withOff]
        rfl
    · intro x off acc
      simp only [unpack_version_eq]
      cases hd : decVersion (msg.drop off) with
      | none => rfl
      | some p => obtain ⟨tv, r⟩ := p; simp [bind_ok]

/-- the exception class of a frame-versions section cut short -/
def fvErr (msg : List UInt8) (off : Nat) : PyErr :=
  match msg.drop off with
  | [] => .IndexError
  | nb :: r => verErr msg.length (off + 1 + 3 * decFail decVersion nb.toNat r)

/-- **`FrameVersionsStructure.decode` against `Sens.decFrameVersions`** in ONE statement (the RESULT; the instance is in
`frame_versions_decode_eq`) -/
theorem frame_versions_decode_model (c : String) (ks : List String) (vs : List V) (msg : List UInt8) (off : Nat) (data : V)
    (hd : dataOk data) :
    (PyCode.FrameVersionsStructure_decode (.obj c ks vs) (.bytes msg) (.int (off : Int)) data).map (·.1)
      = match readByte (msg.drop off), decFrameVersions (msg.drop off) with
        | some (n, _), some (fs, _) => .ok (.tuple [mergeF data fs, .int ((off + 1 + 3 * n.toNat : Nat) : Int)])
        | _, _ => .error (fvErr msg off) := by
  rw [frame_versions_decode_eq c ks vs msg off data hd]
  unfold fvErr decFrameVersions
  generalize msg.drop off = d
  match d with
  | [] => simp [readByte]; rfl
  | nb :: r =>
    simp only [readByte, Option.bind_eq_bind, Option.bind_some]
    cases hN : decN decVersion nb.toNat r with
    | none => simp; rfl
    | some p => obtain ⟨ps, r3⟩ := p; simp [mergeF, Except.map]

theorem decN_version_rest (n : Nat) (s : List UInt8) (ps : List (Nat × Nat)) (r : List UInt8)
    (h : decN decVersion n s = some (ps, r)) : r = s.drop (3 * n) := by
  induction n generalizing s ps r with
  | zero => simp [decN] at h; simp [h.2]
  | succ n ih =>
    unfold decN at h
    cases hd : decVersion s with
    | none => simp [hd] at h
    | some p =>
      obtain ⟨tv, r1⟩ := p
      have hr := decVersion_some _ _ _ hd
      cases hN : decN decVersion n r1 with
      | none => simp [hd, hN] at h
      | some q =>
        obtain ⟨ps', r2⟩ := q
        simp [hd, hN] at h
        have := ih _ _ _ hN
        rw [← h.2, this, hr, List.drop_drop]
        congr 1; omega

/-- the model's remainder is the message from the returned offset on -/
theorem frame_versions_rest (s : List UInt8) (n : UInt8) (r0 : List UInt8) (fs : VFields) (r : List UInt8)
    (hn : readByte s = some (n, r0)) (h : decFrameVersions s = some (fs, r)) : r = s.drop (1 + 3 * n.toNat) := by
  match s with
  | [] => simp [readByte] at hn
  | b :: s' =>
    simp [readByte] at hn
    simp only [decFrameVersions, readByte, Option.bind_eq_bind, Option.bind_some] at h
    cases hN : decN decVersion b.toNat s' with
    | none => simp [hN] at h
    | some q =>
      obtain ⟨ps, r2⟩ := q
      simp [hN] at h
      have := decN_version_rest _ _ _ _ hN
      rw [← h.2, this, ← hn.1, Nat.add_comm 1, List.drop_succ_cons]

/-! ### temperatures: `data[name] = value` one after another against the model's `assocOf` -/

/-- a string-keyed dict as its two parallel lists -/
abbrev D := List String × List V

def dset (d : D) (p : String × V) : D := dictSet d.1 d.2 p.1 p.2

/-- `d[k] = v` for the pairs, in order -/
def setAll (d : D) (ps : List (String × V)) : D := ps.foldl dset d

theorem dictMerge_setAll (d : D) (ps : List (String × V)) :
    dictMerge d.1 d.2 (ps.map (·.1)) (ps.map (·.2)) = setAll d ps := by
  induction ps generalizing d with
  | nil => simp [dictMerge, setAll]
  | cons p ps ih =>
    have := ih (dset d p)
    simp only [List.map_cons, dictMerge, setAll, List.foldl_cons] at this ⊢
    exact this

theorem has_dset (d : D) (p : String × V) (k : String) (h : (lookup d.1 d.2 k).isSome) :
    (lookup (dset d p).1 (dset d p).2 k).isSome := by
  by_cases hk : p.1 = k
  · subst hk; simp [dset, lookup_dictSet]
  · simp [dset, lookup_dictSet_ne _ _ _ _ _ hk, h]

theorem setAll_comm (e : D) (r : List (String × V)) (k : String) (v : V) (hk : ∀ p ∈ r, p.1 ≠ k)
    (he : (lookup e.1 e.2 k).isSome) : dset (setAll e r) (k, v) = setAll (dset e (k, v)) r := by
  induction r generalizing e with
  | nil => rfl
  | cons p r ih =>
    have h1 : p.1 ≠ k := hk p (by simp)
    have h2 := ih (dset e p) (fun q hq => hk q (by simp [hq])) (has_dset e p k he)
    have h3 : dset (dset e p) (k, v) = dset (dset e (k, v)) p := dictSet_comm e.1 e.2 p.1 k p.2 v h1 he
    simp only [setAll, List.foldl_cons] at h2 ⊢
    rw [h2, h3]

theorem mem_keys_assocSet (acc : List (String × V)) (k : String) (v : V) (x : String)
    (h : x ∈ (assocSet acc k v).map (·.1)) : x ∈ acc.map (·.1) ∨ x = k := by
  induction acc with
  | nil => simp [assocSet] at h; exact Or.inr h
  | cons p acc ih =>
    obtain ⟨k', v'⟩ := p
    by_cases hk : k' = k
    · subst hk
      have e : (assocSet ((k', v') :: acc) k' v).map (·.1) = ((k', v') :: acc).map (·.1) := by simp [assocSet]
      rw [e] at h; exact Or.inl h
    · have hne : (k' == k) = false := by simpa using hk
      simp only [assocSet, hne, Bool.false_eq_true, if_false, List.map_cons, List.mem_cons] at h ⊢
      rcases h with h | h
      · exact Or.inl (Or.inl h)
      · rcases ih h with h | h
        · exact Or.inl (Or.inr h)
        · exact Or.inr h

theorem nodup_assocSet (acc : List (String × V)) (k : String) (v : V) (hn : (acc.map (·.1)).Nodup) :
    ((assocSet acc k v).map (·.1)).Nodup := by
  induction acc with
  | nil => simp [assocSet]
  | cons p acc ih =>
    obtain ⟨k', v'⟩ := p
    have hn0 := hn
    simp only [List.map_cons, List.nodup_cons] at hn
    by_cases hk : k' = k
    · subst hk
      have e : (assocSet ((k', v') :: acc) k' v).map (·.1) = ((k', v') :: acc).map (·.1) := by simp [assocSet]
      rw [e]; exact hn0
    · have hne : (k' == k) = false := by simpa using hk
      simp only [assocSet, hne, Bool.false_eq_true, if_false, List.map_cons, List.nodup_cons]
      refine ⟨?_, ih hn.2⟩
      intro hm
      rcases mem_keys_assocSet acc k v k' hm with h | h
      · exact hn.1 h
      · exact hk h

theorem setAll_assocSet (acc : List (String × V)) (d : D) (k : String) (v : V) (hn : (acc.map (·.1)).Nodup) :
    setAll d (assocSet acc k v) = dset (setAll d acc) (k, v) := by
  induction acc generalizing d with
  | nil => rfl
  | cons p acc ih =>
    obtain ⟨k', v'⟩ := p
    simp only [List.map_cons, List.nodup_cons] at hn
    by_cases hk : k' = k
    · subst hk
      have hnot : ∀ q ∈ acc, q.1 ≠ k' := by
        intro q hq e; exact hn.1 (by rw [← e]; exact List.mem_map_of_mem hq)
      have hc := setAll_comm (dset d (k', v')) acc k' v hnot (by simp [dset, lookup_dictSet])
      have hd : dset (dset d (k', v')) (k', v) = dset d (k', v) := dictSet_dictSet d.1 d.2 k' v' v
      simp only [assocSet, beq_self_eq_true, if_true, setAll, List.foldl_cons] at hc ⊢
      rw [hc, hd]
    · have hne : (k' == k) = false := by simpa using hk
      have := ih (dset d (k', v')) hn.2
      simp only [assocSet, hne, setAll, List.foldl_cons] at this ⊢
      exact this

theorem setAll_assocMerge (d : D) (ps acc : List (String × V)) (hn : (acc.map (·.1)).Nodup) :
    setAll d (assocMerge acc ps) = setAll (setAll d acc) ps := by
  induction ps generalizing acc with
  | nil => simp [assocMerge, setAll]
  | cons p ps ih =>
    have := ih (assocSet acc p.1 p.2) (nodup_assocSet acc p.1 p.2 hn)
    simp only [assocMerge, List.foldl_cons] at this ⊢
    rw [this, setAll_assocSet acc d p.1 p.2 hn]
    simp [setAll]

/-- item assignments one after another = merging the model's `dict(pairs)` -/
theorem setAll_assocOf (d : D) (ps : List (String × V)) : setAll d (assocOf ps) = setAll d ps := by
  have := setAll_assocMerge d ps [] (by simp)
  simpa [assocOf, setAll] using this

theorem assocSet_map {α β : Type} (h : α → β) (acc : List (String × α)) (k : String) (v : α) :
    (assocSet acc k v).map (fun f => (f.1, h f.2)) = assocSet (acc.map fun f => (f.1, h f.2)) k (h v) := by
  induction acc with
  | nil => rfl
  | cons p acc ih =>
    by_cases hk : p.1 = k
    · simp [assocSet, hk]
    · have hne : (p.1 == k) = false := by simpa using hk
      simp [assocSet, hne, ih]

theorem assocMerge_map {α β : Type} (h : α → β) (ps acc : List (String × α)) :
    (assocMerge acc ps).map (fun f => (f.1, h f.2)) = assocMerge (acc.map fun f => (f.1, h f.2)) (ps.map fun f => (f.1, h f.2)) := by
  induction ps generalizing acc with
  | nil => rfl
  | cons p ps ih =>
    simp only [assocMerge, List.foldl_cons, List.map_cons] at ih ⊢
    rw [ih, assocSet_map]

/-- what one temperature entry does to `data` -/
def tpair (it : Nat × F32) : Option (String × V) :=
  if isNaN32 it.2 then none else (Gen.temperaturesNames[it.1]?).map fun n => (n, V.float 4 it.2.toNat)

def tset (d : D) (it : Nat × F32) : D := match tpair it with | some p => dset d p | none => d

theorem temperatures_tbl : PyCode.c_TEMPERATURES = .tuple (Gen.temperaturesNames.map .str) := rfl

theorem le_zero_nat (a : Nat) : Py.le (.int 0) (.int (a : Int)) = .ok (.bool true) := by
  simp [Py.le, Py.cmpInt, asInt?]

theorem lt_nat (a b : Nat) : Py.lt (.int (a : Int)) (.int (b : Int)) = .ok (.bool (decide (a < b))) := by
  simp [Py.lt, Py.cmpInt, asInt?]

theorem decTemp_some (s : List UInt8) (it : Nat × F32) (r : List UInt8) (h : decTemp s = some (it, r)) : r = s.drop 5 := by
  match s with
  | [] => simp [decTemp, readByte] at h
  | t :: d1 =>
    simp only [decTemp, readByte, Option.bind_eq_bind, Option.bind_some, readF32_eq] at h
    by_cases h4 : d1.length < 4 <;> simp [h4] at h
    simp [← h.2]

theorem temp_fold (msg : List UInt8)
    (body : V → V × V → PyM (V × V))
    (hstep : ∀ (x : V) (off : Nat) (d : D), body x (.int (off : Int), .dict d.1 d.2) =
      match decTemp (msg.drop off) with
      | none => .error (verErr msg.length off)
      | some (it, _) => .ok (.int ((off + 5 : Nat) : Int), .dict (tset d it).1 (tset d it).2))
    (xs : List V) (off : Nat) (d : D) :
    List.foldlM (fun s x => body x s) (V.int (off : Int), V.dict d.1 d.2) xs
      = match decN decTemp xs.length (msg.drop off) with
        | none => .error (verErr msg.length (off + 5 * (decFail decTemp xs.length (msg.drop off))))
        | some (ts, _) => .ok (.int ((off + 5 * xs.length : Nat) : Int), .dict (ts.foldl tset d).1 (ts.foldl tset d).2) := by
  induction xs generalizing off d with
  | nil => simp [decN]
  | cons x xs ih =>
    rw [List.foldlM_cons, hstep]
    simp only [List.length_cons]
    unfold decN decFail
    cases hd : decTemp (msg.drop off) with
    | none => simp [bind_err]
    | some p =>
      obtain ⟨it, r⟩ := p
      have hr := decTemp_some _ _ _ hd
      simp only [bind_ok, ih, Option.bind_eq_bind, Option.bind_some, hr, List.drop_drop]
      cases hN : decN decTemp xs.length (msg.drop (off + 5)) with
      | none =>
        have e1 : off + 5 + 5 * decFail decTemp xs.length (msg.drop (off + 5)) = off + 5 * (decFail decTemp xs.length (msg.drop (off + 5)) + 1) := by omega
        simp [e1]
      | some q =>
        obtain ⟨ts, r'⟩ := q
        have e1 : off + 5 + 5 * xs.length = off + 5 * (xs.length + 1) := by omega
        simp [e1]

theorem foldl_tset (ts : List (Nat × F32)) (d : D) : ts.foldl tset d = setAll d (ts.filterMap tpair) := by
  induction ts generalizing d with
  | nil => rfl
  | cons it ts ih =>
    simp only [List.foldl_cons, List.filterMap_cons, ih]
    unfold tset
    cases tpair it <;> simp [setAll]

/-- the model's fields of the section, rendered, are the merge of the pairs the code assigns -/
theorem tempFields_pairs (ts : List (Nat × F32)) :
    (tempFields ts).map (fun f => (f.1, fieldV f.2)) = assocOf (ts.filterMap tpair) := by
  unfold tempFields tempFieldsWith assocOf
  rw [assocMerge_map]
  have hp : ∀ it : Nat × F32, Option.map (fun f : String × Val => (f.1, fieldV f.2))
      (if isNaN32 it.2 then none else (Gen.temperaturesNames[it.1]?).map fun n => (n, Val.f32 it.2)) = tpair it := by
    intro it; unfold tpair
    by_cases hn : isNaN32 it.2
    · simp [hn]
    · cases Gen.temperaturesNames[it.1]? <;> simp [hn, fieldV, recordV, scalarV]
  rw [List.map_filterMap]
  have hf : (fun x : Nat × F32 => Option.map (fun f : String × Val => (f.1, fieldV f.2))
      (if isNaN32 x.2 then none else (Gen.temperaturesNames[x.1]?).map fun n => (n, Val.f32 x.2))) = tpair := funext hp
  rw [hf]
  rfl

/-- the dict `ensure_dict(data)` starts from -/
def baseD : V → D
  | .dict dk dv => (dk, dv)
  | _ => ([], [])

theorem merge1_nil (data : V) : merge1 data [] [] = .dict (baseD data).1 (baseD data).2 := by
  cases data <;> rfl

theorem mergeF_setAll (data : V) (fs : VFields) :
    mergeF data fs = .dict (setAll (baseD data) (fs.map fun f => (f.1, fieldV f.2))).1
                           (setAll (baseD data) (fs.map fun f => (f.1, fieldV f.2))).2 := by
  have := dictMerge_setAll (baseD data) (fs.map fun f => (f.1, fieldV f.2))
  simp only [List.map_map] at this
  unfold mergeF merge1
  cases data <;> simp only [baseD] at this ⊢ <;> rw [← this] <;> rfl

theorem setitem_str (d : D) (n : String) (v : V) : Py.setitem (.dict d.1 d.2) (.str n) v = .ok (.dict (dset d (n, v)).1 (dset d (n, v)).2) := rfl

theorem len_temperatures : Py.len PyCode.c_TEMPERATURES = .ok (.int ((17 : Nat) : Int)) := rfl

theorem names_lt (i : Nat) : (Gen.temperaturesNames[i]?).isSome = decide (i < 17) := by
  have : Gen.temperaturesNames.length = 17 := rfl
  by_cases h : i < 17 <;> simp [h, this]

/-- one temperature entry of the loop -/
theorem temp_step (msg : List UInt8) (x : V) (off : Nat) (d : D) :
    (do
      let t4 ← Py.index (.bytes msg) (.int (off : Int))
      let v_index := t4
      let v_offset ← Py.add (.int (off : Int)) (V.int 1)
      let t5 ← Py.wire_from_bytes "Float" "<f" (.bytes msg) v_offset
      let v_temp := t5
      let t6 ← Py.getattr v_temp "size"
      let v_offset ← Py.add v_offset t6
      let t7 ← Py.getattr v_temp "value"
      let t8 ← Py.math_isnan t7
      let t9 ← Py.not t8
      let t15 ← Py.truthy t9
      let t16 ← (if t15
        then do
          let t10 ← Py.le (V.int 0) v_index
          let t11 ← Py.truthy t10
          let t14 ← (if t11
            then do
              let t12 ← Py.len PyCode.c_TEMPERATURES
              let t13 ← Py.lt v_index t12
              pure t13
            else pure t10)
          pure t14
        else pure t9)
      let t17 ← Py.truthy t16
      let v_data ← (if t17 then (do
          let t18 ← Py.getattr v_temp "value"
          let t19 ← Py.index PyCode.c_TEMPERATURES v_index
          let v_data ← Py.setitem (.dict d.1 d.2) t19 t18
          pure v_data
        ) else (do
          pure (.dict d.1 d.2)
        : PyM (V)))
      pure (v_offset, v_data) : PyM (V × V))
      = match decTemp (msg.drop off) with
        | none => .error (verErr msg.length off)
        | some (it, _) => .ok (.int ((off + 5 : Nat) : Int), .dict (tset d it).1 (tset d it).2) := by
  have hl : (msg.drop off).length = msg.length - off := List.length_drop
  have h0 : msg[off]? = (msg.drop off)[0]? := by simp
  have h1 : msg.drop (off + 1) = (msg.drop off).drop 1 := by rw [List.drop_drop]
  have hf : Py.wire_from_bytes "Float" "<f" (.bytes msg) (.int ((off : Int) + 1)) = match readF32 ((msg.drop off).drop 1) with
      | none => .error .StructError
      | some (f, _) => .ok (wireObj "Float" (.float 4 f.toNat) 4) := by
    rw [cast_add_one, from_bytes_f32, h1]; rfl
  simp only [index_bytes_nat, h0, decTemp, Option.bind_eq_bind]
  revert hl hf
  generalize msg.drop off = m
  intro hl hf
  match m with
  | [] =>
    have : msg.length - off = 0 := by have := hl; simp only [List.length_nil] at this; omega
    simp [bind_err, readByte, verErr, this]
  | t :: d1 =>
    have hne : ¬ msg.length - off = 0 := by have := hl; simp only [List.length_cons] at this; omega
    simp only [List.drop_succ_cons, List.drop_zero] at hf
    simp only [List.getElem?_cons_zero, bind_ok, add_int', hf, readByte, Option.bind_some]
    cases hr : readF32 d1 with
    | none => simp [bind_err, verErr, hne]
    | some p =>
      obtain ⟨f, r⟩ := p
      have e : (((off : Int) + 1) + ((4 : Nat) : Int)) = ((off + 5 : Nat) : Int) := by omega
      simp only [bind_ok, getattr_wire_size, getattr_wire_value, add_int', e, math_isnan_f32, not_bool, truthy_bool, byteV_nat,
        Option.bind_some, pure_eq_ok]
      unfold tset tpair
      cases hn : isNaN32 f
      · simp only [Bool.not_false, if_true, bind_ok, le_zero_nat, truthy_bool, len_temperatures, lt_nat, Bool.false_eq_true, if_false]
        by_cases hi : t.toNat < 17
        · have hs := names_lt t.toNat
          simp only [hi, decide_true] at hs
          obtain ⟨n, hn'⟩ := Option.isSome_iff_exists.mp hs
          have hx : (Gen.temperaturesNames.map V.str)[t.toNat]? = some (.str n) := by simp [hn']
          simp only [hi, decide_true, if_true, bind_ok, temperatures_tbl, index_tuple_nat, hx, setitem_str, hn', Option.map_some]
          simp [hn, hn']
        · have hs := names_lt t.toNat
          simp only [hi, decide_false] at hs
          have hn' : Gen.temperaturesNames[t.toNat]? = none := by
            cases h : Gen.temperaturesNames[t.toNat]? with
            | none => rfl
            | some _ => simp [h] at hs
          simp [hi, bind_ok, hn']
      · simp [bind_ok, truthy_false, hn]

/-- **`TemperaturesStructure.decode`**: count byte, then `count` entries of 5 bytes (index byte, `<f`); the entry whose
value is no NaN and whose index is below `len(TEMPERATURES)` is assigned into `data` under its name, in order (a later
entry of the same name overwrites): the model's `tempFields` merged into `data`; the returned offset
`offset + 1 + 5·count`; the exception class by the entry cut -/
theorem temperatures_decode_eq (msg : List UInt8) (off : Nat) (data : V) (hd : dataOk data) :
    PyCode.TemperaturesStructure_decode (.bytes msg) (.int (off : Int)) data
      = match msg.drop off with
        | [] => .error .IndexError
        | nb :: r =>
          match decN decTemp nb.toNat r with
          | none => .error (verErr msg.length (off + 1 + 5 * decFail decTemp nb.toNat r))
          | some (ts, _) => .ok (.tuple [mergeF data (tempFields ts), .int ((off + 1 + 5 * nb.toNat : Nat) : Int)]) := by
  unfold PyCode.TemperaturesStructure_decode
  have h0 : msg[off]? = (msg.drop off)[0]? := by simp
  have h1 : msg.drop (off + 1) = (msg.drop off).drop 1 := by rw [List.drop_drop]
  simp only [ensure_dict_none _ hd, merge1_nil, index_bytes_nat, add_int', cast_add_one, bind_ok, h0]
  generalize hm : msg.drop off = m
  match m with
  | [] => simp [bind_err]
  | nb :: r =>
    have hr : msg.drop (off + 1) = r := by rw [h1, hm]; rfl
    simp only [List.getElem?_cons_zero, bind_ok, byteV_nat, range_zero, forLoop_list]
    rw [temp_fold msg]
    · have hlen : (rangeV 0 nb.toNat).length = nb.toNat := by simp [rangeV]
      simp only [hlen, hr]
      cases hN : decN decTemp nb.toNat r with
      | none => simp [bind_err]
      | some p =>
        obtain ⟨ts, r3⟩ := p
        simp only [bind_ok, pure_eq_ok, mergeF_setAll, tempFields_pairs, setAll_assocOf, foldl_tset]
    · intro x off d
      exact temp_step msg x off d

/-- **`TemperaturesStructure.decode` against `Sens.decTemperatures`** in ONE statement -/
theorem temperatures_decode_model (msg : List UInt8) (off : Nat) (data : V) (hd : dataOk data) :
    PyCode.TemperaturesStructure_decode (.bytes msg) (.int (off : Int)) data
      = match readByte (msg.drop off), decTemperatures (msg.drop off) with
        | some (n, _), some (fs, _) => .ok (.tuple [mergeF data fs, .int ((off + 1 + 5 * n.toNat : Nat) : Int)])
        | _, _ => .error (match msg.drop off with
            | [] => .IndexError
            | nb :: r => verErr msg.length (off + 1 + 5 * decFail decTemp nb.toNat r)) := by
  rw [temperatures_decode_eq msg off data hd]
  unfold decTemperatures
  generalize msg.drop off = m
  match m with
  | [] => simp [readByte]
  | nb :: r =>
    simp only [readByte, Option.bind_eq_bind, Option.bind_some]
    cases hN : decN decTemp nb.toNat r with
    | none => simp
    | some p => obtain ⟨ts, r3⟩ := p; simp

theorem decN_temp_rest (n : Nat) (s : List UInt8) (ts : List (Nat × F32)) (r : List UInt8)
    (h : decN decTemp n s = some (ts, r)) : r = s.drop (5 * n) := by
  induction n generalizing s ts r with
  | zero => simp [decN] at h; simp [h.2]
  | succ n ih =>
    unfold decN at h
    cases hd : decTemp s with
    | none => simp [hd] at h
    | some p =>
      obtain ⟨it, r1⟩ := p
      have hr := decTemp_some _ _ _ hd
      cases hN : decN decTemp n r1 with
      | none => simp [hd, hN] at h
      | some q =>
        obtain ⟨ts', r2⟩ := q
        simp [hd, hN] at h
        have := ih _ _ _ hN
        rw [← h.2, this, hr, List.drop_drop]
        congr 1; omega

/-- the model's remainder is the message from the returned offset on -/
theorem temperatures_rest (s : List UInt8) (n : UInt8) (r0 : List UInt8) (fs : VFields) (r : List UInt8)
    (hn : readByte s = some (n, r0)) (h : decTemperatures s = some (fs, r)) : r = s.drop (1 + 5 * n.toNat) := by
  match s with
  | [] => simp [readByte] at hn
  | b :: s' =>
    simp [readByte] at hn
    simp only [decTemperatures, readByte, Option.bind_eq_bind, Option.bind_some] at h
    cases hN : decN decTemp b.toNat s' with
    | none => simp [hN] at h
    | some q =>
      obtain ⟨ts, r2⟩ := q
      simp [hN] at h
      have := decN_temp_rest _ _ _ _ hN
      rw [← h.2, this, ← hn.1, Nat.add_comm 1, List.drop_succ_cons]

/-! ### non-vacuity -/

example : PyCode.StatusesStructure_decode (.bytes [9, 60, 1, 50, 0]) (.int 1) .none
    = .ok (.tuple [.dict ["heating_target", "heating_status", "water_heater_target", "water_heater_status"]
        [.int 60, .int 1, .int 50, .int 0], .int 5]) := rfl
example : PyCode.StatusesStructure_decode (.bytes [60, 1, 50]) (.int 0) .none = .error .IndexError := rfl
/-- outputs 0x8005: fan, heating pump, blow_fan2 -/
example : (PyCode.OutputsStructure_decode (.bytes [0x05, 0x80, 0, 0]) (.int 0) .none).map
      (fun r => match r with | .tuple [.dict _ vs, o] => (vs.take 3, vs.drop 15, o) | _ => ([], [], .none))
    = .ok ([.bool true, .bool false, .bool true], [.bool true], .int 4) := rfl
/-- lambda: state 3 (a LambdaState), target 13, level 0x007B = 123 -> 123 / 10 -/
example : PyCode.LambdaSensorStructure_decode (.bytes [3, 13, 0x7B, 0]) (.int 0) .none
    = .ok (.tuple [.dict ["lambda_state", "lambda_target", "lambda_level"] [.int 3, .int 13, ratioV 123 10], .int 4]) :=
  (lambda_decode_eq [3, 13, 0x7B, 0] 0 .none trivial).trans rfl
/-- state 7 is no LambdaState: kept as the number -/
example : PyCode.LambdaSensorStructure_decode (.bytes [7, 13, 0x7B, 0]) (.int 0) .none
    = .ok (.tuple [.dict ["lambda_state", "lambda_target", "lambda_level"] [.int 7, .int 13, ratioV 123 10], .int 4]) :=
  (lambda_decode_eq [7, 13, 0x7B, 0] 0 .none trivial).trans rfl
example : PyCode.LambdaSensorStructure_decode (.bytes [0xFF, 13]) (.int 0) .none = .ok (.tuple [.dict [] [], .int 1]) := rfl
example : PyCode.LambdaSensorStructure_decode (.bytes [1, 13, 0x7B]) (.int 0) .none = .error .StructError := rfl
/-- frame versions: type 49 twice (the later version wins, first position kept), type 200 (no FrameType) kept -/
example : (PyCode.FrameVersionsStructure_decode (Py.mkobj "self" []) (.bytes [3, 49, 1, 0, 200, 2, 0, 49, 5, 1]) (.int 0) .none).map (·.1)
    = .ok (.tuple [.dict ["frame_versions"] [.map [.int 49, .int 200] [.int 261, .int 2]], .int 10]) := rfl
example : (PyCode.FrameVersionsStructure_decode (Py.mkobj "self" []) (.bytes [0]) (.int 0) .none).map (·.1)
    = .ok (.tuple [.dict ["frame_versions"] [.dict [] []], .int 1]) := rfl
example : (PyCode.FrameVersionsStructure_decode (Py.mkobj "self" []) (.bytes [2, 49, 1, 0, 50, 7]) (.int 0) .none).map (·.1)
    = .error .StructError := rfl
/-- temperatures: index 1 = 20.0, index 0 NaN (skipped), index 17 out of range (skipped), index 1 again = 0.0 (overwrites) -/
example : PyCode.TemperaturesStructure_decode
      (.bytes [4, 1, 0, 0, 0xA0, 0x41, 0, 0, 0, 0xC0, 0x7F, 17, 0, 0, 0xA0, 0x41, 1, 0, 0, 0, 0]) (.int 0) (.dict ["x"] [.int 1])
    = .ok (.tuple [.dict ["x", "feeder_temp"] [.int 1, .float 4 0], .int 21]) := rfl

end PlumVerif.TieStructSections2

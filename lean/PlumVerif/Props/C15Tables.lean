import PlumVerif.Props.C15
import PlumVerif.Generated.EventsTables
/-
C15 — the tables the version machine rests on, as the translator finds them TODAY, and two dimensions of
the histories stated explicitly: a version announced as 0, and announcements that arrive while the set-up is
still running (`frame_errors` not known yet).
-/
namespace PlumVerif.C15

/-! ### tables -/

/-- **which kinds have a version that can be refreshed**: the codes for which `Request.create` builds a frame
(probed by the translator) are exactly the frame types named `REQUEST_…`, in the order of the enum -/
theorem requestKinds_are_the_request_frame_types :
    Gen.requestKinds = (Gen.frameTypes.filter fun e => e.1.startsWith "REQUEST_").map (·.2) := by decide +kernel

/-- the kinds that `frame_errors` can name are the kinds the set-up asks for, per device class: the eight of the
ecoMAX (`Gen.setupFrames`), none for the ecoSTER -/
theorem setupKinds_pinned :
    Gen.setupKinds = [("EcoMAX", Gen.setupFrames.map (·.1)), ("EcoSTER", [])] := by decide

/-- the names under which the announcement and the unsupported kinds travel through the event manager -/
theorem attr_names_pinned : Gen.attrFrameVersions = "frame_versions" ∧ Gen.attrFrameErrors = "frame_errors" := by decide

/-- `has_frame_version(frame_type, version=None)`: the version is compared only when one is given; and
`request(name, frame_type, retries=3, timeout=3.0)`: a set-up kind is reported in `frame_errors` after 3 attempts -/
theorem bookkeeping_signatures_pinned :
    Gen.hasFrameVersionParams = [("frame_type", "-"), ("version", "None")] ∧
    Gen.requestParams = [("name", "-"), ("frame_type", "-"), ("retries", "3"), ("timeout", "3.0")] := by decide

/-! ### version 0 is a version -/

/-- the record distinguishes "no version recorded" from "version 0 recorded" (presence, not truthiness): an
announcement that repeats a recorded version 0 queues nothing … -/
theorem version_zero_unchanged_queues_nothing (s : St) (k : Nat) (h : recorded s k = some 0) :
    (announce s [(k, 0)]).queued = [] := by
  have : needs s (k, 0) = false := by simp [needs, h]
  simp [announce, dictOf, dictInsert, dictSet, process, this]

/-- … and the FIRST announcement of version 0 for a supported request kind queues its refresh and records 0 -/
theorem version_zero_first_announcement_refreshes (s : St) (k : Nat) (hc : creatable k = true)
    (hs : s.unsupported.contains k = false) (h : recorded s k = none) :
    (announce s [(k, 0)]).queued = [k] ∧ recorded (announce s [(k, 0)]).st k = some 0 := by
  have hs' : k ∉ s.unsupported := by simpa using hs
  have hn : needs s (k, 0) = true := by simp [needs, h, hs', creatable_known k hc]
  simp [announce, dictOf, dictInsert, dictSet, process, hn, hc, recorded, record]

/-- a change TO version 0 and back is two refreshes -/
example : (run init [.announce [(49, 3)], .announce [(49, 0)], .announce [(49, 0)], .announce [(49, 3)]]).map (·.queued)
    = [[49], [49], [], [49]] := by decide

/-! ### announcements during the set-up -/

/-- while `frame_errors` has not been dispatched the device treats every kind as supported
(`data.get("frame_errors", [])`): in such a state an announcement refreshes exactly the request kinds whose version
differs from the record — also kinds that the set-up will LATER report as unanswered -/
theorem before_frame_errors_every_request_kind_refreshes (s : St) (w : List Entry) (h : NoForeign s w)
    (hu : s.unsupported = []) (k : Nat) :
    k ∈ (announce s w).queued ↔ ∃ v, (k, v) ∈ dictOf w ∧ creatable k = true ∧ recorded s k ≠ some v := by
  rw [queued_iff s w h k]
  simp [hu]

/-- once the set-up has reported a kind, no later announcement refreshes it — whatever was announced, refreshed or
recorded for it while the set-up was running -/
theorem after_frame_errors_reported_kinds_stay_quiet (s : St) (ks : List Nat) (w : List Entry) (k : Nat)
    (hk : ks.contains k = true) : k ∉ (announce (step s (.errors ks)).st w).queued := by
  intro hq
  have := (queued_only_if _ w k hq).2.2.1
  simp [step] at this
  exact this (by simpa using hk)

/-- reporting the unanswered kinds does not touch the recorded versions -/
theorem frame_errors_keeps_the_record (s : St) (ks : List Nat) (k : Nat) :
    recorded (step s (.errors ks)).st k = recorded s k := rfl

/-- a history of that shape: schedules (54) announced and refreshed during the set-up, then reported unanswered: quiet -/
example : (run init [.announce [(54, 1), (61, 0)], .announce [(54, 2)], .errors [54, 49], .announce [(54, 3), (61, 0), (49, 1), (50, 1)]]).map (·.queued)
    = [[54, 61], [54], [], [50]] := by decide

end PlumVerif.C15

import PlumVerif.Generated.PyCode
import PlumVerif.Model.Frame
import PlumVerif.Proofs.PyLemmas
import PlumVerif.Props.TieFrame
/-
Tie: the Lean definitions translated from the SOURCE TEXT of `pyplumio/stream.py: FrameReader._read_header`
and `FrameReader.read` (Generated/PyCode.lean, coroutines in the state monad `Py.IOM` over the bytes still to
arrive) against the hand-written reader model `readFrame` (Model/Frame.lean) that C01 / C04 / C14 speak about.
Outcome mapping `toPy`: None ↔ ignored, ReadError / ChecksumError / UnknownDeviceError / UnknownFrameError ↔ the
protocol-error classes, OSError ↔ connLost, a frame object ↔ delivered fields.  Fuel: every iteration of the
header hunt consumes one byte, so `s.length + 1` iterations suffice (`outOfFuel` never occurs).
-/
set_option linter.unusedSimpArgs false
namespace PlumVerif.TieReader
open PlumVerif.Py

@[simp] theorem bind_apply {α β : Type} (x : IOM α) (f : α → IOM β) (s : List UInt8) :
    (x >>= f) s = (match x s with | (.ok a, s') => f a s' | (.error e, s') => (.error e, s')) := rfl
@[simp] theorem pure_apply {α : Type} (a : α) (s : List UInt8) : (pure a : IOM α) s = (.ok a, s) := rfl
@[simp] theorem lift_apply {α : Type} (x : PyM α) (s : List UInt8) : (liftM x : IOM α) s = (x, s) := rfl
@[simp] theorem monadLift_apply {α : Type} (x : PyM α) (s : List UInt8) : (monadLift x : IOM α) s = (x, s) := rfl
@[simp] theorem throw_apply {α : Type} (e : PyErr) (s : List UInt8) : (throw e : IOM α) s = (.error e, s) := rfl

def hdrSpec (s : List UInt8) : PyM V × List UInt8 :=
  match scan s with
  | none => (.error .OSError, [])
  | some (l0 :: l1 :: rc :: sd :: et :: ev :: r1) =>
    (.ok (.tuple [.tuple [.int (Int.ofNat (l0.toNat + 256 * l1.toNat)), byteV rc, byteV sd, byteV et, byteV ev],
                  .bytes [104, l0, l1, rc, sd, et, ev]]), r1)
  | some _ => (.error .ReadError, [])

theorem header_eq (s : List UInt8) : ∀ (fuel : Nat), fuel ≥ s.length + 1 →
    PyCode.FrameReader_read_header fuel s = hdrSpec s := by
  intro fuel
  unfold PyCode.FrameReader_read_header
  rw [show whileLoopIO fuel V.none = whileLoopIO fuel (id V.none) from rfl]
  generalize id V.none = st
  induction s generalizing st fuel with
  | nil =>
    intro h
    cases fuel with
    | zero => omega
    | succ f =>
      simp [whileLoopIO, reader_read, PyCode.c_DELIMITER_SIZE, truthy, hdrSpec, scan]
  | cons b r ih =>
    intro h
    cases fuel with
    | zero => simp at h
    | succ f =>
      have hf : f ≥ r.length + 1 := by simpa using h
      by_cases hb : b = 104
      · subst hb
        rcases r with _ | ⟨l0, _ | ⟨l1, _ | ⟨rc, _ | ⟨sd, _ | ⟨et, _ | ⟨ev, r1⟩⟩⟩⟩⟩⟩ <;>
        simp +arith [whileLoopIO, reader_read, PyCode.c_DELIMITER_SIZE, PyCode.c_FRAME_START, PyCode.c_HEADER_SIZE, truthy,
          notContains, contains, asInt?, Py.not, tryExceptIO, reader_readexactly, Py.sub, Py.add, catches,
          struct_unpack_from, slice, bound, sliceList, namedtuple, iter, hdrSpec, scan, startByte, Gen.frameStart, byteV]
      · have hb' : (b.toNat == 104) = false := by
          rw [beq_eq_false_iff_ne]
          intro h
          exact hb (UInt8.toNat_inj.mp (by simpa using h))
        have hh : hdrSpec (b :: r) = hdrSpec r := by
          have hs : scan (b :: r) = scan r := by
            simp only [scan]
            rw [if_neg]
            simpa [startByte, Gen.frameStart] using hb
          simp only [hdrSpec, hs]
        rw [hh, ← ih f (.bytes [b]) hf]
        simp [whileLoopIO, reader_read, PyCode.c_DELIMITER_SIZE, PyCode.c_FRAME_START, truthy,
          notContains, contains, asInt?, Py.not, hb']


def toPy : Outcome → PyM V
  | .delivered f => .ok (mkobj "Frame" [("frame_type", byteV f.kind), ("recipient", byteV f.rcpt), ("sender", byteV f.sender),
      ("econet_type", byteV f.etype), ("econet_version", byteV f.ever), ("message", .bytes f.payload)])
  | .ignored => .ok .none
  | .protoErr .incompleteHeader => .error .ReadError
  | .protoErr .badLength => .error .ReadError
  | .protoErr .incompleteFrame => .error .ReadError
  | .protoErr .unknownDevice => .error .UnknownDeviceError
  | .protoErr .checksum => .error .ChecksumError
  | .protoErr .unknownFrame => .error .UnknownFrameError
  | .connLost => .error .OSError

theorem frameTypes_tbl : ∀ n, n < 256 → PyCode.e_FrameType.contains (Int.ofNat n) = Gen.frameTypes.any (·.2 == n) := by
  decide +kernel
theorem deviceTypes_tbl : ∀ n, n < 256 → PyCode.e_DeviceType.contains (Int.ofNat n) = Gen.deviceTypes.any (·.2 == n) := by
  decide +kernel


/-! ### evaluation lemmas for the straight-line checks of `read()` after the body was read -/

theorem toNat_ne {a b : UInt8} (h : a ≠ b) : ¬ ((a.toNat : Int) = (b.toNat : Int)) := by
  intro e
  exact h (UInt8.toNat_inj.mp (by exact_mod_cast e))

theorem beq_toNat (a b : UInt8) : ((a.toNat : Int) == (b.toNat : Int)) = (a == b) := by
  rw [Bool.eq_iff_iff, beq_iff_eq, beq_iff_eq]
  constructor
  · intro e; exact UInt8.toNat_inj.mp (by exact_mod_cast e)
  · intro e; rw [e]

theorem notContains_us (rc : UInt8) :
    notContains (.int (rc.toNat : Int)) (.tuple [PyCode.c_DeviceType_ECONET, PyCode.c_DeviceType_ALL])
      = .ok (.bool (!isForUs rc)) := by
  have e1 : ((rc.toNat : Int) == 86) = (rc == 86) := beq_toNat rc 86
  have e2 : ((rc.toNat : Int) == 0) = (rc == 0) := beq_toNat rc 0
  cases h1 : rc == 86 <;> cases h2 : rc == 0 <;>
  simp [notContains, contains, eq, eqB, asInt?, Py.not, truthy, List.foldlM, isForUs, h1, h2,
    PyCode.c_DeviceType_ECONET, PyCode.c_DeviceType_ALL, e1, e2]

theorem enum_dev (b : UInt8) : enum_call PyCode.e_DeviceType (.int (b.toNat : Int))
    = if knownDevice b then .ok (.int (b.toNat : Int)) else .error .ValueError := by
  have h := deviceTypes_tbl b.toNat (UInt8.toNat_lt b)
  unfold enum_call knownDevice
  rw [← h]
  rfl

theorem known_dev (b : UInt8) : PyCode.is_known_device_type (.int (b.toNat : Int)) = .ok (.bool (knownDevice b)) := by
  unfold PyCode.is_known_device_type
  rw [show Py.enum_call PyCode.e_DeviceType (.int (b.toNat : Int)) = _ from enum_dev b]
  cases knownDevice b <;> rfl

theorem forUs_known {b : UInt8} (h : isForUs b = true) : knownDevice b = true := by
  simp only [isForUs, Bool.or_eq_true, beq_iff_eq] at h
  rcases h with h | h <;> subst h <;> decide

theorem frame_create_eq (k : UInt8) (rest : List (String × V)) :
    frame_create PyCode.e_FrameType (("frame_type", .int (k.toNat : Int)) :: rest)
      = if knownFrame k then .ok (mkobj "Frame" (("frame_type", .int (k.toNat : Int)) :: rest))
        else .error .UnknownFrameError := by
  have h : knownFrame k = PyCode.e_FrameType.contains (k.toNat : Int) :=
    (frameTypes_tbl k.toNat (UInt8.toNat_lt k)).symm
  rw [h]
  simp [frame_create, lookup]

theorem ne_bytes (a b : UInt8) : ne (.int (a.toNat : Int)) (.int (b.toNat : Int)) = .ok (.bool (a != b)) := by
  simp [ne, eqB, asInt?, beq_toNat, bne]

section buffer
variable (a0 a1 a2 a3 a4 a5 a6 : UInt8) (body : List UInt8) (m : Nat) (hb : body.length = m) (hm : 3 ≤ m)
include hb hm

theorem slice_pre : slice (.bytes (a0 :: a1 :: a2 :: a3 :: a4 :: a5 :: a6 :: body)) .none (.int (-2))
    = .ok (.bytes (a0 :: a1 :: a2 :: a3 :: a4 :: a5 :: a6 :: body.take (m - 2))) := by
  have e : ((-2 : Int) + ((body.length : Int) + 1 + 1 + 1 + 1 + 1 + 1 + 1)).toNat = (m - 2) + 7 := by omega
  simp [slice, bound, sliceList, asInt?, e]

theorem index_crc : index (.bytes (a0 :: a1 :: a2 :: a3 :: a4 :: a5 :: a6 :: body)) (.int (-2))
    = .ok (.int ((body.getD (m - 2) 0).toNat : Int)) := by
  have e : ((-2 : Int) + ((body.length : Int) + 1 + 1 + 1 + 1 + 1 + 1 + 1)).toNat = (m - 2) + 7 := by omega
  have e0 : (0 : Int) ≤ -2 + ((body.length : Int) + 1 + 1 + 1 + 1 + 1 + 1 + 1) := by omega
  simp [index, normIndex, asInt?, e, e0, byteV]

theorem index_kind : index (.bytes (a0 :: a1 :: a2 :: a3 :: a4 :: a5 :: a6 :: body)) (.int 7)
    = .ok (.int ((body.headD 0).toNat : Int)) := by
  have e0 : (7 : Int) < ((body.length : Int) + 1 + 1 + 1 + 1 + 1 + 1 + 1) := by omega
  simp [index, normIndex, asInt?, e0, byteV, List.head?_eq_getElem?]

theorem slice_payload : slice (.bytes (a0 :: a1 :: a2 :: a3 :: a4 :: a5 :: a6 :: body)) (.int 8) (.int (-2))
    = .ok (.bytes ((body.drop 1).take (m - 3))) := by
  have e : ((-2 : Int) + ((body.length : Int) + 1 + 1 + 1 + 1 + 1 + 1 + 1)).toNat = (m - 2) + 7 := by omega
  have e8 : min 8 (body.length + 1 + 1 + 1 + 1 + 1 + 1 + 1) = 8 := by omega
  simp [slice, bound, sliceList, asInt?, e, e8, List.drop_take]
  omega

end buffer

/-- the inputs on which `read()` leaves before the recipient / sender / checksum / frame-type checks -/
def earlyExit (s : List UInt8) : Prop :=
  match scan s with
  | none => True
  | some (l0 :: l1 :: _ :: _ :: _ :: _ :: r1) =>
    l0.toNat + 256 * l1.toNat > 1000 ∨ l0.toNat + 256 * l1.toNat < 10 ∨ r1.length < l0.toNat + 256 * l1.toNat - 7
  | some _ => True

/-- the full tie (all streams) -/
def read_eq_full : Prop := ∀ (s : List UInt8) (fuel : Nat), fuel ≥ s.length + 1 →
    PyCode.FrameReader_read fuel s = (toPy (readFrame s).1, (readFrame s).2)

/-- the tie of `FrameReader.read`: the header hunt (all streams, `header_eq`), every exit of `read()` up to and
including the read of the body (connection lost, incomplete header, length out of range, incomplete frame) and the
straight-line checks after the body was read (not for us, unknown sender, checksum, unknown frame type, delivered
frame) — result AND the bytes left on the stream. -/
theorem read_eq (s : List UInt8) (fuel : Nat) (h : fuel ≥ s.length + 1) :
    PyCode.FrameReader_read fuel s = (toPy (readFrame s).1, (readFrame s).2) := by
  unfold PyCode.FrameReader_read
  simp only [bind_apply, header_eq s fuel h, hdrSpec, readFrame]
  cases hs : scan s with
  | none => simp [toPy]
  | some r =>
    rcases r with _ | ⟨l0, _ | ⟨l1, _ | ⟨rc, _ | ⟨sd, _ | ⟨et, _ | ⟨ev, r1⟩⟩⟩⟩⟩⟩
    · simp [toPy]
    · simp [toPy]
    · simp [toPy]
    · simp [toPy]
    · simp [toPy]
    · simp [toPy]
    · by_cases h1 : l0.toNat + 256 * l1.toNat > 1000
      · have h1' : (1000 : Int) < (l0.toNat : Int) + 256 * (l1.toNat : Int) := by omega
        simp [unpack2, unpackN, iter, unpack5, byteV, PyCode.c_MAX_FRAME_LENGTH, PyCode.c_MIN_FRAME_LENGTH, Py.gt, Py.lt,
          cmpInt, asInt?, truthy, h1, h1', toPy, Gen.maxFrameLength, Gen.minFrameLength]
      · by_cases h2 : l0.toNat + 256 * l1.toNat < 10
        · have h1' : ¬ (1000 : Int) < (l0.toNat : Int) + 256 * (l1.toNat : Int) := by omega
          have h2' : (l0.toNat : Int) + 256 * (l1.toNat : Int) < 10 := by omega
          simp [unpack2, unpackN, iter, unpack5, byteV, PyCode.c_MAX_FRAME_LENGTH, PyCode.c_MIN_FRAME_LENGTH, Py.gt, Py.lt,
            cmpInt, asInt?, truthy, h1, h1', h2, h2', toPy, Gen.maxFrameLength, Gen.minFrameLength]
        · by_cases h3 : r1.length < l0.toNat + 256 * l1.toNat - 7
          · generalize hlen : l0.toNat + 256 * l1.toNat = len at h1 h2 h3
            have hcast : ((l0.toNat : Nat) : Int) + 256 * ((l1.toNat : Nat) : Int) = (len : Int) := by omega
            have h1' : ¬ (1000 : Int) < (len : Int) := by omega
            have h2' : ¬ (len : Int) < 10 := by omega
            have hneg : ¬ ((len : Int) - 7 < 0) := by omega
            have hk : ((len : Int) - 7).toNat = len - 7 := by omega
            have h3' : (r1.length : Int) < (len : Int) - 7 := by omega
            simp [unpack2, unpackN, iter, unpack5, byteV, PyCode.c_MAX_FRAME_LENGTH, PyCode.c_MIN_FRAME_LENGTH, Py.gt, Py.lt,
              cmpInt, asInt?, truthy, h1, h1', h2, h2', toPy, Gen.maxFrameLength, Gen.minFrameLength, Gen.headerSize,
              tryExceptIO, Py.sub, PyCode.c_HEADER_SIZE, reader_readexactly, catches, h3, hcast, hneg, hk, h3', hlen]
          · generalize hlen : l0.toNat + 256 * l1.toNat = len at h1 h2 h3
            have hcast : ((l0.toNat : Nat) : Int) + 256 * ((l1.toNat : Nat) : Int) = (len : Int) := by omega
            have h1' : ¬ (1000 : Int) < (len : Int) := by omega
            have h2' : ¬ (len : Int) < 10 := by omega
            have hneg : ¬ ((len : Int) - 7 < 0) := by omega
            have hk : ((len : Int) - 7).toNat = len - 7 := by omega
            have h3' : ¬ (r1.length : Int) < (len : Int) - 7 := by omega
            simp [unpack2, unpackN, iter, unpack5, byteV, PyCode.c_MAX_FRAME_LENGTH, PyCode.c_MIN_FRAME_LENGTH, Py.gt, Py.lt,
              cmpInt, asInt?, truthy, h1, h1', h2, h2', toPy, Gen.maxFrameLength, Gen.minFrameLength, Gen.headerSize,
              tryExceptIO, Py.sub, Py.add, PyCode.c_HEADER_SIZE, reader_readexactly, catches, h3, hcast, hneg, hk, h3', hlen]
            have hb : (List.take (len - 7) r1).length = len - 7 := by rw [List.length_take]; omega
            have hm : 3 ≤ len - 7 := by omega
            generalize List.take (len - 7) r1 = body at hb ⊢
            generalize List.drop (len - 7) r1 = r2
            generalize len - 7 = m at hb hm ⊢
            cases hu : isForUs rc
            · simp [notContains_us, known_dev, enum_dev, frame_create_eq, ne_bytes, TieFrame.bcc_eq, truthy, Py.not,
                slice_pre _ _ _ _ _ _ _ body m hb hm, index_crc _ _ _ _ _ _ _ body m hb hm,
                index_kind _ _ _ _ _ _ _ body m hb hm, slice_payload _ _ _ _ _ _ _ body m hb hm,
                startByte, Gen.frameStart, toPy, hu]
            · have hkr := forUs_known hu
              cases hd : knownDevice sd
              · simp [notContains_us, known_dev, enum_dev, frame_create_eq, ne_bytes, TieFrame.bcc_eq, truthy, Py.not,
                slice_pre _ _ _ _ _ _ _ body m hb hm, index_crc _ _ _ _ _ _ _ body m hb hm,
                index_kind _ _ _ _ _ _ _ body m hb hm, slice_payload _ _ _ _ _ _ _ body m hb hm,
                startByte, Gen.frameStart, toPy, hu, hd]
              · by_cases hc : bcc (104 :: l0 :: l1 :: rc :: sd :: et :: ev :: List.take (m - 2) body) = body[m - 2]?.getD 0
                · cases hf : knownFrame (body.head?.getD 0)
                  · simp [notContains_us, known_dev, enum_dev, frame_create_eq, ne_bytes, TieFrame.bcc_eq, truthy, Py.not,
                slice_pre _ _ _ _ _ _ _ body m hb hm, index_crc _ _ _ _ _ _ _ body m hb hm,
                index_kind _ _ _ _ _ _ _ body m hb hm, slice_payload _ _ _ _ _ _ _ body m hb hm,
                startByte, Gen.frameStart, toPy, hu, hkr, hd, hc, hf]
                  · simp [notContains_us, known_dev, enum_dev, frame_create_eq, ne_bytes, TieFrame.bcc_eq, truthy, Py.not,
                slice_pre _ _ _ _ _ _ _ body m hb hm, index_crc _ _ _ _ _ _ _ body m hb hm,
                index_kind _ _ _ _ _ _ _ body m hb hm, slice_payload _ _ _ _ _ _ _ body m hb hm,
                startByte, Gen.frameStart, toPy, hu, hkr, hd, hc, hf, mkobj]
                · simp [notContains_us, known_dev, enum_dev, frame_create_eq, ne_bytes, TieFrame.bcc_eq, truthy, Py.not,
                slice_pre _ _ _ _ _ _ _ body m hb hm, index_crc _ _ _ _ _ _ _ body m hb hm,
                index_kind _ _ _ _ _ _ _ body m hb hm, slice_payload _ _ _ _ _ _ _ body m hb hm,
                startByte, Gen.frameStart, toPy, hu, hkr, hd, hc]

/-- the exits before the checks, as a corollary (kept under its earlier name) -/
theorem read_eq_partial (s : List UInt8) (fuel : Nat) (h : fuel ≥ s.length + 1) (_he : earlyExit s) :
    PyCode.FrameReader_read fuel s = (toPy (readFrame s).1, (readFrame s).2) := read_eq s fuel h

theorem read_eq_full_holds : read_eq_full := read_eq

/-- non-vacuity: a stream with junk, a start delimiter and a length field of 9 -/
example : earlyExit [0, 1, 0x68, 9, 0, 86, 69, 48, 5, 1, 2] := by
  simp [earlyExit, scan, startByte, Gen.frameStart]
example : PyCode.FrameReader_read 12 [0, 1, 0x68, 9, 0, 86, 69, 48, 5, 1, 2] = (.error .ReadError, [1, 2]) := rfl
example : PyCode.FrameReader_read_header 12 [0, 1, 0x68, 9, 0, 86, 69, 48, 5, 1, 2]
    = (.ok (.tuple [.tuple [.int 9, .int 86, .int 69, .int 48, .int 5], .bytes [0x68, 9, 0, 86, 69, 48, 5]]), [1, 2]) := rfl

/-- non-vacuity of the last branch: a delivered frame (junk, then a valid frame with payload [1, 2], then two more bytes) -/
example : PyCode.FrameReader_read 16 [3, 104, 12, 0, 86, 69, 48, 5, 25, 1, 2, 88, 22, 7, 8]
    = (.ok (mkobj "Frame" [("frame_type", .int 25), ("recipient", .int 86), ("sender", .int 69),
      ("econet_type", .int 48), ("econet_version", .int 5), ("message", .bytes [1, 2])]), [7, 8]) := rfl
example : readFrame [3, 104, 12, 0, 86, 69, 48, 5, 25, 1, 2, 88, 22, 7, 8] = (.delivered ⟨25, 86, 69, 48, 5, [1, 2]⟩, [7, 8]) := by decide
/-- the shortest valid frame (empty payload, crc = XOR of the first 8 bytes) -/
example : PyCode.FrameReader_read 11 [104, 10, 0, 86, 69, 48, 5, 25, 93, 22]
    = (.ok (mkobj "Frame" [("frame_type", .int 25), ("recipient", .int 86), ("sender", .int 69),
      ("econet_type", .int 48), ("econet_version", .int 5), ("message", .bytes [])]), []) := rfl
/-- not for us (recipient 69): `None`, the frame is consumed -/
example : PyCode.FrameReader_read 12 [104, 10, 0, 69, 69, 48, 5, 25, 0, 22, 7] = (.ok .none, [7]) := rfl
example : readFrame [104, 10, 0, 69, 69, 48, 5, 25, 0, 22, 7] = (.ignored, [7]) := by decide
/-- unknown sender (1) -/
example : PyCode.FrameReader_read 12 [104, 10, 0, 86, 1, 48, 5, 25, 0, 22, 7] = (.error .UnknownDeviceError, [7]) := rfl
example : readFrame [104, 10, 0, 86, 1, 48, 5, 25, 0, 22, 7] = (.protoErr .unknownDevice, [7]) := by decide
/-- wrong checksum (92 instead of 93) -/
example : PyCode.FrameReader_read 12 [104, 10, 0, 86, 69, 48, 5, 25, 92, 22, 7] = (.error .ChecksumError, [7]) := rfl
example : readFrame [104, 10, 0, 86, 69, 48, 5, 25, 92, 22, 7] = (.protoErr .checksum, [7]) := by decide
/-- unknown frame type (1), checksum correct -/
example : PyCode.FrameReader_read 12 [104, 10, 0, 86, 69, 48, 5, 1, 69, 22, 7] = (.error .UnknownFrameError, [7]) := rfl
example : readFrame [104, 10, 0, 86, 69, 48, 5, 1, 69, 22, 7] = (.protoErr .unknownFrame, [7]) := by decide

end PlumVerif.TieReader

import PlumVerif.Props.C05Ctx
import PlumVerif.Props.C05Device
/-
C05 — the decoding context is the owning DEVICE's state.  `Model/DeviceData` (what handling a
frame does to the device) and `Model/DecodeCtx` (what a decode may read) are connected here: the
device-level handlers decode with exactly the context read off the device, and handling a frame
does not change what that same frame's payload decodes to — "the same result every time" at the
device level, where the context is a moving part.

`device_thermo_decodes_with_ctx` / `device_regdata_decodes_with_ctx` are `⟨rfl, rfl⟩` / `rfl`: by construction of
`DevD.handle` and `Ctx5.decode` (modelling decisions, see the header of C05Ctx.lean; the code side is
harness/c05_ctx.py, device level).  The theorems with content are `applyThermo_count`, `handleRegdata_schema` and
`handled_again_same_decode`.
-/
namespace PlumVerif.C05
open PlumVerif PlumVerif.Ctx5 PlumVerif.DevD

/-- the context a device in state `d` gives to the frames it handles -/
def ctxOf (d : Dev) (product : Nat) : Ctx := ⟨true, thermostatCount d, d.schema, product⟩

/-- kind and payload of a device-level frame -/
def kindOf : DevD.Frame → Kind × List Byte
  | .sensor m => (.sensorData, m)
  | .thermo m => (.thermostatParameters, m)
  | .schema m => (.regdataSchema, m)
  | .regdata m => (.regdata, m)

/-- the thermostat-parameters handler decodes with the device's own count (whatever the product) -/
theorem device_thermo_decodes_with_ctx (d : Dev) (msg : List Byte) (p : Nat) :
    decode .thermostatParameters msg (ctxOf d p) = .thermostatParameters (P2.decodeThermo (some (thermostatCount d)) msg) ∧
    handleThermo d msg = (match P2.decodeThermo (some (thermostatCount d)) msg with
      | .ok (v, _) => some (applyThermo d v)
      | .error _ => none) := ⟨rfl, rfl⟩

/-- the regulator-data handler decodes with the schema the device holds -/
theorem device_regdata_decodes_with_ctx (d : Dev) (msg : List Byte) (p : Nat) :
    decode .regdata msg (ctxOf d p) = .regdata (Regd.decodeRegdata d.schema msg) := rfl

theorem thermostatCount_set (d : Dev) (k : String) (v : Val) (hk : ¬ k = "thermostats_available") :
    thermostatCount (d.set k v) = thermostatCount d := by
  simp only [thermostatCount, set_data, assocGet_assocSet, if_neg hk]

/-- handling thermostat parameters leaves the device's thermostat count alone -/
theorem applyThermo_count (d : Dev) (v : P2.ThermoVal) : thermostatCount (applyThermo d v) = thermostatCount d := by
  cases v with
  | unavailable => exact thermostatCount_set d _ _ (by decide)
  | val profile blocks =>
    simp only [applyThermo]
    split
    · rw [thermostatCount_set _ _ _ (by decide), thermostatCount_set _ _ _ (by decide)]
    · rw [thermostatCount_set _ _ _ (by decide)]
      show thermostatCount (d.set "thermostat_profile" _) = _
      exact thermostatCount_set d _ _ (by decide)

theorem foldl_regdata_schema (fs : VFields) : ∀ (d : Dev),
    (fs.foldl (fun acc kv => if kv.1 == "frame_versions" then dispatchVersions acc kv.2 else acc.set kv.1 kv.2) d).schema = d.schema := by
  induction fs with
  | nil => intro d; rfl
  | cons kv r ih =>
    intro d
    simp only [List.foldl_cons]
    rw [ih]
    split
    · exact dispatchVersions_schema d kv.2
    · rfl

/-- handling regulator data leaves the schema the device holds alone -/
theorem handleRegdata_schema (d d' : Dev) (msg : List Byte) (h : handleRegdata d msg = some d') : d'.schema = d.schema := by
  unfold handleRegdata at h
  split at h
  · injection h with h; rw [← h, foldl_regdata_schema]
  · cases h

/-- **the same result every time, at the device level**: after a device has handled a frame, the
payload of that frame decodes for this device to what it decoded to before (so handling the same
frame again, or a fresh frame with the same payload, uses the same decoded data) -/
theorem handled_again_same_decode (d d' : Dev) (f : DevD.Frame) (p p' : Nat) (h : handle d f = some d') :
    decode (kindOf f).1 (kindOf f).2 (ctxOf d' p') = decode (kindOf f).1 (kindOf f).2 (ctxOf d p) := by
  cases f with
  | sensor m => rfl
  | schema m => rfl
  | thermo m =>
    apply thermostat_reads_only_the_count
    simp only [handle, handleThermo] at h
    split at h
    · injection h with h
      simp only [Ctx.count, ctxOf, if_true, ← h, applyThermo_count]
    · cases h
  | regdata m =>
    apply regdata_reads_only_the_schema
    simp only [handle] at h
    simp only [Ctx.sch, ctxOf, if_true, handleRegdata_schema d d' m h]

/-- non-vacuity: a device that reports two thermostats handles a thermostat-parameters frame -/
example : ∃ d', handle (Dev.init.set "thermostats_available" (Val.nat 2)) (.thermo [0, 0, 0, 1, 0, 2]) = some d' := by
  refine ⟨_, rfl⟩

end PlumVerif.C05

import PlumVerif.Props.C01
import PlumVerif.Model.ReaderSession
/-
C01 on a re-used reader object, tied to the BYTES (round-8 audit, item 10).

`session_calls_are_reads` / `sessionX_calls_are_reads` used to say "every completed call is `readFrame` on SOME byte
stream of the right length".  Here the stream is named: the bytes fed to the reader up to the moment of the call, from
the position the earlier calls (completed or abandoned) stopped at.

  `CallAt fed k o n`  :=  fed = pre ++ consumed ++ post,  |pre| = k,  |consumed| = n,  readFrame (consumed ++ post) = (o, post)

and for every split `sessionX pending steps = evs₁ ++ .call o n :: evs₂` there is a split `steps = st₁ ++ st₂` of the
caller's steps with `CallAt (pending ++ feedsOf st₁) (takenSum evs₁) o n`: the call ran on what had been fed by then,
it started exactly where the earlier events had left the stream, it took the `n` bytes `consumed` and its outcome is
`readFrame`'s on those bytes and what lay behind them.  For a delivery: `consumed = noise ++ fr`, no delimiter in
`noise`, `wf fr f` (`sessionX_delivered_bytes`).
-/
namespace PlumVerif.C01
open PlumVerif

/-- bytes an event took from the stream -/
def takenOf : SEv → Nat
  | .call _ n => n
  | .abandoned n => n

def takenSum (evs : List SEv) : Nat := (evs.map takenOf).sum

/-- all bytes the steps feed, in order -/
def feedsOf : List Step → List Byte
  | [] => []
  | .feed c :: st => c ++ feedsOf st
  | .calls :: st => feedsOf st
  | .callAbandonedAtCreate :: st => feedsOf st

/-- a call with outcome `o` that took `n` bytes ran at position `k` of the fed bytes `fed` -/
def CallAt (fed : List Byte) (k : Nat) (o : Outcome) (n : Nat) : Prop :=
  ∃ pre consumed post, fed = pre ++ consumed ++ post ∧ pre.length = k ∧ consumed.length = n ∧
    readFrame (consumed ++ post) = (o, post)

/-- events with the stream position each of them started at -/
def offs : Nat → List SEv → List (Nat × SEv)
  | _, [] => []
  | k, e :: es => (k, e) :: offs (k + takenOf e) es

theorem takenSum_nil : takenSum [] = 0 := rfl
theorem takenSum_cons (e : SEv) (es : List SEv) : takenSum (e :: es) = takenOf e + takenSum es := by
  simp [takenSum]
theorem takenSum_append (a b : List SEv) : takenSum (a ++ b) = takenSum a + takenSum b := by
  simp [takenSum]

theorem offs_append (a b : List SEv) : ∀ k, offs k (a ++ b) = offs k a ++ offs (k + takenSum a) b := by
  induction a with
  | nil => intro k; simp [offs, takenSum_nil]
  | cons e es ih =>
    intro k
    simp only [List.cons_append, offs, ih, takenSum_cons, Nat.add_assoc]

theorem mem_offs_of_split (e : SEv) (e1 e2 : List SEv) (k : Nat) :
    (k + takenSum e1, e) ∈ offs k (e1 ++ e :: e2) := by
  rw [offs_append]
  simp [offs]

theorem readFrame_split (s : List Byte) : ∃ c, s = c ++ (readFrame s).2 ∧ c.length = s.length - (readFrame s).2.length := by
  have hsuf : ∃ c, s = c ++ (readFrame s).2 := by
    by_cases ho : (readFrame s).1 = .connLost
    · refine ⟨s, ?_⟩
      have hcl : (readFrame s).2 = [] := by
        have := (readFrame_connLost_iff s).1 ho
        unfold readFrame
        have hsc : scan s = none := by
          cases hs : scan s with
          | none => rfl
          | some r => obtain ⟨pre, hp, _⟩ := scan_spec hs; rw [hp] at this; simp at this
        rw [hsc]
      rw [hcl]; simp
    · exact (readFrame_progress (s := s) (r := (readFrame s).2) (o := (readFrame s).1) rfl ho).2
  obtain ⟨c, hc⟩ := hsuf
  refine ⟨c, hc, ?_⟩
  have hl := congrArg List.length hc
  simp only [List.length_append] at hl
  omega

/-- one call of `readFrame` on `s`, seen from a stream that holds `p` before it -/
theorem callAt_here (p s : List Byte) :
    CallAt (p ++ s) p.length (readFrame s).1 (s.length - (readFrame s).2.length) := by
  obtain ⟨c, hc, hl⟩ := readFrame_split s
  refine ⟨p, c, (readFrame s).2, ?_, rfl, hl, ?_⟩
  · rw [List.append_assoc, ← hc]
  · rw [← hc]

theorem blockedTaken_le {s : List Byte} {n : Nat} (h : blockedTaken s = some n) : n ≤ s.length := by
  unfold blockedTaken at h
  split at h
  · simp only [Option.some.injEq] at h; omega
  · split at h
    · simp only at h
      split at h
      · simp at h
      · split at h
        · simp only [Option.some.injEq] at h; omega
        · simp at h
    · simp only [Option.some.injEq] at h; omega

local notation "callEv" => (fun p : Outcome × Nat => SEv.call (Prod.fst p) (Prod.snd p))

/-- the calls of one `calls` step: each ran where its predecessors stopped; what the stream holds afterwards is what
lies behind all that was taken -/
theorem completedFuel_bytes (fuel : Nat) : ∀ (s p : List Byte),
    (∀ k' o n, (k', SEv.call o n) ∈ offs p.length ((completedFuel fuel s).1.map callEv) → CallAt (p ++ s) k' o n) ∧
    ∃ pre', s = pre' ++ (completedFuel fuel s).2.2 ∧
      pre'.length = takenSum ((completedFuel fuel s).1.map callEv) + (completedFuel fuel s).2.1 := by
  induction fuel with
  | zero =>
    intro s p
    refine ⟨?_, [], ?_, ?_⟩ <;> simp [completedFuel, offs, takenSum_nil]
  | succ fuel ih =>
    intro s p
    unfold completedFuel
    split
    · rename_i n hb
      refine ⟨?_, s.take n, ?_, ?_⟩
      · simp [offs]
      · simp
      · have := blockedTaken_le hb
        simp [takenSum_nil]; omega
    · obtain ⟨c, hc, hl⟩ := readFrame_split s
      obtain ⟨ih1, pre', hp1, hp2⟩ := ih (readFrame s).2 (p ++ c)
      have hps : p ++ c ++ (readFrame s).2 = p ++ s := by rw [List.append_assoc, ← hc]
      refine ⟨?_, c ++ pre', ?_, ?_⟩
      · intro k' o n hm
        simp only [List.map_cons, offs, takenOf, List.mem_cons] at hm
        rcases hm with hm | hm
        · injection hm with h1 h2
          injection h2 with h2 h3
          subst h1; subst h2; subst h3
          exact callAt_here p s
        · have := ih1 k' o n (by simpa [hl] using hm)
          rwa [hps] at this
      · simp only
        rw [List.append_assoc, ← hp1]; exact hc
      · simp only [List.map_cons, takenSum_cons, takenOf, List.length_append]
        omega

theorem readAllFuel_bytes (fuel : Nat) : ∀ (s p : List Byte) k' o n,
    (k', SEv.call o n) ∈ offs p.length ((readAllFuel fuel s).map callEv) → CallAt (p ++ s) k' o n := by
  induction fuel with
  | zero => intro s p k' o n h; simp [readAllFuel, offs] at h
  | succ fuel ih =>
    intro s p k' o n hm
    obtain ⟨c, hc, hl⟩ := readFrame_split s
    have hps : p ++ c ++ (readFrame s).2 = p ++ s := by rw [List.append_assoc, ← hc]
    unfold readAllFuel at hm
    split at hm
    rename_i o' r hrf
    have ho : (readFrame s).1 = o' := by rw [hrf]
    have hr : (readFrame s).2 = r := by rw [hrf]
    split at hm
    · simp only [List.map_cons, List.map_nil, offs, List.mem_singleton] at hm
      injection hm with h1 h2
      injection h2 with h2 h3
      subst h1; subst h2; subst h3
      have := callAt_here p s
      rwa [ho, hr] at this
    · simp only [List.map_cons, offs, takenOf, List.mem_cons] at hm
      rcases hm with hm | hm
      · injection hm with h1 h2
        injection h2 with h2 h3
        subst h1; subst h2; subst h3
        have := callAt_here p s
        rwa [ho, hr] at this
      · have := ih r (p ++ c) k' o n (by simpa [hl, hr] using hm)
        rwa [← hr, hps] at this

/-- what `callAtCreate` leaves in the stream lies behind what its event took -/
theorem callAtCreate_bytes (s p : List Byte) :
    (∀ k' o n, (k', SEv.call o n) ∈ offs p.length (callAtCreate s).1 → CallAt (p ++ s) k' o n) ∧
    ∃ pre', s = pre' ++ (callAtCreate s).2 ∧ pre'.length = takenSum (callAtCreate s).1 := by
  obtain ⟨c, hc, hl⟩ := readFrame_split s
  unfold callAtCreate
  split
  · rename_i n hb
    refine ⟨?_, s.take n, ?_, ?_⟩
    · simp [offs]
    · simp
    · have := blockedTaken_le hb
      simp [takenSum, takenOf]; omega
  · dsimp only
    split
    · refine ⟨?_, c, hc, ?_⟩
      · simp [offs]
      · simp [takenSum, takenOf, hl]
    · refine ⟨?_, [], ?_, ?_⟩ <;> simp [offs, takenSum]
    · rename_i hnd hnc
      refine ⟨?_, c, hc, ?_⟩
      · intro k' o n hm
        simp only [offs, List.mem_singleton] at hm
        injection hm with h1 h2
        injection h2 with h2 h3
        subst h1; subst h2; subst h3
        exact callAt_here p s
      · simp [takenSum, takenOf, hl]

/-- workhorse: every completed call of a session, with the position it started at -/
theorem sessionX_bytes (steps : List Step) : ∀ (pending p : List Byte) k' o n,
    (k', SEv.call o n) ∈ offs p.length (sessionX pending steps) →
      ∃ st₁ st₂, steps = st₁ ++ st₂ ∧ CallAt (p ++ pending ++ feedsOf st₁) k' o n := by
  induction steps with
  | nil =>
    intro pending p k' o n h
    refine ⟨[], [], rfl, ?_⟩
    simp only [feedsOf, List.append_nil]
    exact readAllFuel_bytes _ pending p k' o n (by simpa [sessionX, readAll] using h)
  | cons st steps ih =>
    intro pending p k' o n h
    cases st with
    | feed c =>
      obtain ⟨st₁, st₂, hs, hc⟩ := ih (pending ++ c) p k' o n (by simpa [sessionX] using h)
      refine ⟨.feed c :: st₁, st₂, by rw [hs]; rfl, ?_⟩
      simpa [feedsOf, List.append_assoc] using hc
    | calls =>
      obtain ⟨h1, pre', hp1, hp2⟩ := completedFuel_bytes (pending.length + 1) pending p
      simp only [sessionX, completed, offs_append, List.mem_append] at h
      rcases h with (h | h) | h
      · exact ⟨[], .calls :: steps, rfl, by simpa [feedsOf] using h1 k' o n h⟩
      · simp [offs] at h
      · have hlen : p.length + takenSum ((completedFuel (pending.length + 1) pending).1.map callEv ++
              [SEv.abandoned (completedFuel (pending.length + 1) pending).2.1]) = (p ++ pre').length := by
          simp only [takenSum_append, takenSum_cons, takenOf, takenSum_nil, List.length_append, hp2]; omega
        rw [hlen] at h
        obtain ⟨st₁, st₂, hs, hc⟩ := ih _ (p ++ pre') k' o n h
        refine ⟨.calls :: st₁, st₂, by rw [hs]; rfl, ?_⟩
        have : p ++ pending ++ feedsOf (.calls :: st₁) =
            p ++ pre' ++ (completedFuel (pending.length + 1) pending).2.2 ++ feedsOf st₁ := by
          conv => lhs; rw [hp1]
          simp [feedsOf, List.append_assoc]
        rw [this]; exact hc
    | callAbandonedAtCreate =>
      obtain ⟨h1, pre', hp1, hp2⟩ := callAtCreate_bytes pending p
      simp only [sessionX, offs_append, List.mem_append] at h
      rcases h with h | h
      · exact ⟨[], .callAbandonedAtCreate :: steps, rfl, by simpa [feedsOf] using h1 k' o n h⟩
      · have hlen : p.length + takenSum (callAtCreate pending).1 = (p ++ pre').length := by simp [hp2]
        rw [hlen] at h
        obtain ⟨st₁, st₂, hs, hc⟩ := ih _ (p ++ pre') k' o n h
        refine ⟨.callAbandonedAtCreate :: st₁, st₂, by rw [hs]; rfl, ?_⟩
        have : p ++ pending ++ feedsOf (.callAbandonedAtCreate :: st₁) =
            p ++ pre' ++ (callAtCreate pending).2 ++ feedsOf st₁ := by
          conv => lhs; rw [hp1]
          simp [feedsOf, List.append_assoc]
        rw [this]; exact hc

/-- **every completed call of a session ran on the bytes of the session** (abandoned calls anywhere, the executor hop
of `Frame.create` included): if the events are `evs₁ ++ .call o n :: evs₂`, then at some point `st₁` of the caller's
steps the bytes fed so far were `pre ++ consumed ++ post`, where `pre` is exactly what the earlier events took
(`|pre| = takenSum evs₁`), the call took `consumed` (`n` bytes) and `readFrame (consumed ++ post) = (o, post)`.
Nothing is carried from an earlier call, wherever it ended: only the stream position. -/
theorem sessionX_calls_are_reads_of_the_fed_bytes (steps : List Step) (pending : List Byte)
    (evs₁ evs₂ : List SEv) (o : Outcome) (n : Nat)
    (h : sessionX pending steps = evs₁ ++ .call o n :: evs₂) :
    ∃ st₁ st₂, steps = st₁ ++ st₂ ∧ CallAt (pending ++ feedsOf st₁) (takenSum evs₁) o n := by
  have hm := mem_offs_of_split (.call o n) evs₁ evs₂ 0
  rw [← h, Nat.zero_add] at hm
  simpa using sessionX_bytes steps pending [] _ o n hm

/-- **C01 on a re-used reader, on the bytes**: a frame handed out by any call of the session is justified by the
bytes THAT call consumed out of the bytes fed to the reader: they lie exactly behind what the earlier calls took,
they are delimiter-free noise followed by bytes `fr` that satisfy the statement for exactly the delivered fields. -/
theorem sessionX_delivered_bytes (steps : List Step) (pending : List Byte)
    (evs₁ evs₂ : List SEv) (f : Fields) (n : Nat)
    (h : sessionX pending steps = evs₁ ++ .call (.delivered f) n :: evs₂) :
    ∃ st₁ st₂ pre noise fr post, steps = st₁ ++ st₂ ∧
      pending ++ feedsOf st₁ = pre ++ (noise ++ fr) ++ post ∧ pre.length = takenSum evs₁ ∧
      (noise ++ fr).length = n ∧ (0x68 : Byte) ∉ noise ∧ wf fr f = true := by
  obtain ⟨st₁, st₂, hs, pre, consumed, post, hfed, hk, hn, hrf⟩ :=
    sessionX_calls_are_reads_of_the_fed_bytes steps pending evs₁ evs₂ _ n h
  obtain ⟨noise, fr, hcp, hno, hwf⟩ := delivered_only_if_well_formed hrf
  have hc : consumed = noise ++ fr := List.append_cancel_right hcp
  exact ⟨st₁, st₂, pre, noise, fr, post, hs, by rw [← hc]; exact hfed, hk, by rw [← hc]; exact hn, hno, hwf⟩

/-- the chunked sessions of C01Session are sessions of the step machine: feed, then read until a call blocks -/
def stepsOf (chunks : List (List Byte)) : List Step := chunks.flatMap fun c => [.feed c, .calls]

theorem sessionFrom_eq_sessionX (chunks : List (List Byte)) : ∀ pending,
    sessionFrom pending chunks = sessionX pending (stepsOf chunks) := by
  induction chunks with
  | nil => intro pending; rfl
  | cons c cs ih =>
    intro pending
    simp only [sessionFrom, stepsOf, List.flatMap_cons, List.cons_append, List.nil_append, sessionX]
    rw [ih]; rfl

theorem feedsOf_stepsOf (chunks : List (List Byte)) : feedsOf (stepsOf chunks) = chunks.flatten := by
  induction chunks with
  | nil => rfl
  | cons c cs ih =>
    simp only [stepsOf, List.flatMap_cons, List.cons_append, List.nil_append, feedsOf, List.flatten_cons]
    rw [← ih]; rfl

/-- the older, weaker reading: a call that ran somewhere on the fed bytes is in particular `readFrame` on SOME stream
and took as many bytes as that call of `readFrame` consumed -/
theorem CallAt.is_read {fed : List Byte} {k : Nat} {o : Outcome} {n : Nat} (h : CallAt fed k o n) :
    ∃ s', (readFrame s').1 = o ∧ n = s'.length - (readFrame s').2.length := by
  obtain ⟨pre, consumed, post, _, _, hn, hrf⟩ := h
  refine ⟨consumed ++ post, by rw [hrf], ?_⟩
  rw [hrf]; simp only [List.length_append]; omega

/-- a prefix of the steps of a chunked session has been fed a prefix of the chunks -/
theorem stepsOf_prefix (chunks : List (List Byte)) : ∀ st₁ st₂, stepsOf chunks = st₁ ++ st₂ →
    ∃ cs₁ cs₂, chunks = cs₁ ++ cs₂ ∧ feedsOf st₁ = cs₁.flatten := by
  induction chunks with
  | nil =>
    intro st₁ st₂ h
    have : st₁ = [] := by
      cases st₁ with
      | nil => rfl
      | cons a b => simp [stepsOf] at h
    exact ⟨[], [], rfl, by rw [this]; rfl⟩
  | cons c cs ih =>
    intro st₁ st₂ h
    simp only [stepsOf, List.flatMap_cons, List.cons_append, List.nil_append] at h
    cases st₁ with
    | nil => exact ⟨[], c :: cs, rfl, rfl⟩
    | cons a st₁ =>
      simp only [List.cons_append, List.cons.injEq] at h
      obtain ⟨ha, h⟩ := h
      subst ha
      cases st₁ with
      | nil => exact ⟨[c], cs, rfl, by simp [feedsOf]⟩
      | cons b st₁ =>
        simp only [List.cons_append, List.cons.injEq] at h
        obtain ⟨hb, h⟩ := h
        subst hb
        obtain ⟨cs₁, cs₂, hc, hf⟩ := ih st₁ st₂ h
        exact ⟨c :: cs₁, cs₂, by rw [hc]; rfl, by simp [feedsOf, hf]⟩

end PlumVerif.C01

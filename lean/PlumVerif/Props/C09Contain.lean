import PlumVerif.Model.ProducerExc
import PlumVerif.Model.Pool
/-
C09 — which exception classes are contained, which are a lost connection (Model/ProducerExc.lean).  The reactions
come from probes of the real coroutines on every run (`Gen.producerProbe`, `Gen.consumerProbe`, `Gen.excIsA`): narrowing
the consumer's `except Exception`, moving `task_done` out of `finally`, taking the entry lookup out of the `try`, or
catching OSError before ProtocolError changes a table and breaks a theorem below.
-/
namespace PlumVerif.C09Contain
open PlumVerif PlumVerif.Contain PlumVerif.Producer

/-- the subclass table is definite: no family whose representatives disagree about a class a clause names -/
theorem families_definite :
    Gen.excIsA.all (fun r => r.2.2 != 2) = true ∧ Gen.consumerProbe.all (fun r => r.2.2 != 2) = true ∧
    Gen.producerProbe.all (fun r => r.2 != "mixed") = true := by decide

/-- **producer_reaction_table**: what `frame_producer` does with an exception raised inside its `try`, per family:
protocol errors and any other exception are logged and the loop goes on; OSError and the time-out are a lost
connection; a cancellation is not caught -/
theorem producer_reaction_table (e : Exc) :
    producerReaction e = (match e with
      | .protocolError => .continues
      | .osError => .breaks
      | .timeoutError => .breaks
      | .other => .continues
      | .cancelled => .propagates) := by
  cases e <;> decide

/-- **consumer_contains_every_exception**: whatever subclass of Exception obtaining the entry or handling the frame
raises — OSError and TimeoutError included —, the consumer logs it and goes on -/
theorem consumer_contains_every_exception (e : Exc) (h : e ≠ .cancelled) : consumerReaction e = .continues := by
  cases e <;> first | decide | exact absurd rfl h

/-- … at both sites alike — obtaining the entry and handling —, the frame acknowledged each time (the probe's verdict
includes `task_done`) -/
theorem consumer_accounts : consumerAccounts = true := by decide

/-- the pool machine's `contain = true` IS the code: computed from the clauses of the source -/
theorem contain_bit_true : containBit = true := by decide

/-- **undecodable_frame_is_dropped**: for every logging configuration of the application and every class of exception a
decoder can raise (every subclass of Exception: protocol errors, OSError, TimeoutError, anything else), the frame is
dropped — logged, acknowledged — and neither is the connection taken for lost nor does a task end. -/
theorem undecodable_frame_is_dropped (l : LogCfg) (e : Exc) (h : e ≠ .cancelled) :
    fate (decodeSites l) e = .dropped := by
  obtain ⟨d, hd⟩ := l
  cases d <;> cases hd <;> cases e <;> first | decide | exact absurd rfl h

/-- non-vacuity / the model tells the difference: were the payload decoded inside `FrameReader.read()` (as the reader's
DEBUG line would if it formatted the frame itself), a decoder's OSError would be a lost connection, a ValueError not -/
theorem reader_site_would_lose :
    fate [.reader, .consumer] .osError = .lost ∧ fate [.reader, .consumer] .timeoutError = .lost ∧
    fate [.reader, .consumer] .other = .dropped ∧ fate [.reader, .consumer] .protocolError = .dropped := by decide

/-- a cancellation is not contained anywhere (it is how tasks are stopped; outside the statement) -/
example : fate (decodeSites ⟨true, true⟩) .cancelled = .dies ∧ consumerReaction .cancelled = .propagates := by decide

/-- **producer_machine_agrees**: the read outcomes of the producer machine (Model/Producer.lean) that end the loop are
exactly the exception families whose clause breaks -/
theorem producer_machine_agrees (pe : PErr) (e : Exc) (h : e ≠ .cancelled) :
    (routOf pe e).stops = (producerReaction e == .breaks) := by
  cases e <;> first | (cases pe <;> decide) | decide | exact absurd rfl h

/-- what a consumer WITHOUT the clause would be is the pool machine with `contain = false`: `C09.uncontained_counterexample`
(Props/C09.lean) — three raising frames and every consumer is gone, the frames never acknowledged. -/
example : consumerReaction .cancelled = .propagates := by decide

end PlumVerif.C09Contain

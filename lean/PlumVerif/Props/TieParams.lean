import PlumVerif.Generated.PyCode
import PlumVerif.Proofs.PyLemmas
import PlumVerif.Model.DecodeParams
/-
Tie: the Lean definitions translated from the SOURCE TEXT of `pyplumio/helpers/parameter.py`
(`check_parameter`, `unpack_parameter`; Generated/PyCode.lean, rewritten by tools/py2lean.py on
every run) equal the hand-written model `P2.unpackParam` (Model/DecodeParams.lean) on every
byte string, every natural offset and every natural size.
-/
namespace PlumVerif.TieParams
open PlumVerif.Py
-- generic simp sets on purpose: they must keep working when the translated text changes shape
set_option linter.unusedSimpArgs false

/-! ### leaf lemmas about the prelude -/

/-- the prelude's little-endian decoder is the model's -/
theorem decodeLE_eq (bs : List UInt8) : Py.decodeLE bs = PlumVerif.decodeLE bs := by
  induction bs with
  | nil => rfl
  | cons b r ih => simp [Py.decodeLE, PlumVerif.decodeLE, ih]

/-- Python's lenient slice `d[a:b]` on naturals is `drop` then `take` -/
theorem sliceList_min {α : Type} (d : List α) (a b : Nat) :
    sliceList d (min a d.length) (min b d.length) = (d.drop a).take (b - a) := by
  unfold sliceList
  apply List.ext_getElem?
  intro i
  simp only [List.getElem?_drop, List.getElem?_take]
  by_cases h1 : i < b - a
  · have h2 : min a d.length + i < min b d.length ∨ d.length ≤ min a d.length + i := by omega
    rcases h2 with h2 | h2
    · have h3 : a + i < d.length := by omega
      have h4 : min a d.length = a := by omega
      have h5 : a + i < min b d.length := by omega
      simp only [h1, h4, h5, if_true]
    · have h3 : d.length ≤ a + i := by omega
      simp [h1, List.getElem?_eq_none h2, List.getElem?_eq_none h3]
  · have h2 : ¬ (min a d.length + i < min b d.length) := by omega
    simp [h1, h2]

@[simp] theorem bound_nat (n dflt a : Nat) : Py.bound n dflt (.int (a : Int)) = .ok (min a n) := by
  simp [Py.bound, asInt?]

/-- `d[a:b]` for natural bounds -/
@[simp] theorem slice_bytes_nat (d : List UInt8) (a b : Nat) :
    Py.slice (.bytes d) (.int (a : Int)) (.int (b : Int)) = .ok (.bytes ((d.drop a).take (b - a))) := by
  simp [Py.slice, sliceList_min]

@[simp] theorem add_int (a b : Int) : Py.add (.int a) (.int b) = .ok (.int (a + b)) := rfl
@[simp] theorem mul_int (a b : Int) : Py.mul (.int a) (.int b) = .ok (.int (a * b)) := rfl

@[simp] theorem int_from_bytes_little (bs : List UInt8) :
    Py.int_from_bytes (.bytes bs) (.str "little") = .ok (.int (PlumVerif.decodeLE bs : Nat)) := by
  simp [Py.int_from_bytes, decodeLE_eq]

/-- `x != 255` on one element of a byte string -/
theorem ne_undef (x : UInt8) : Py.ne (byteV x) (.int 255) = .ok (.bool (x != 255)) := by
  have h : ((Int.ofNat x.toNat == 255) = (x == 255)) := by
    rw [Bool.eq_iff_iff]
    simp only [beq_iff_eq]
    constructor
    · intro h
      have h' : x.toNat = 255 := by simp at h; omega
      exact UInt8.toNat_inj.mp h'
    · intro h; subst h; rfl
  simp only [Py.ne, Py.eqB, byteV, asInt?, bind, Except.bind, pure, Except.pure, h, bne]

/-- one step of the short-circuit fold of `Py.anyGen` -/
def anyStep (f : V → PyM V) (acc : Bool) (x : V) : PyM Bool :=
  if acc then pure true else do Py.truthy (← f x)

/-- the short-circuit fold of `any(f(x) for x in data)` -/
theorem any_fold (f : V → PyM V) (p : UInt8 → Bool) (hf : ∀ x, f (byteV x) = .ok (.bool (p x)))
    (bs : List UInt8) (acc : Bool) :
    List.foldlM (anyStep f) acc (bs.map byteV) = (.ok (acc || bs.any p) : PyM Bool) := by
  induction bs generalizing acc with
  | nil => simp
  | cons b r ih =>
    simp only [List.map_cons, List.foldlM_cons, List.any_cons]
    cases acc with
    | true => simp only [anyStep, if_true, pure_eq_ok, ok_bind, ih]; simp
    | false =>
      simp only [anyStep, Bool.false_eq_true, if_false, hf, ok_bind, Py.truthy, pure_eq_ok, ih]
      simp

/-- `any(f(x) for x in data)` over a byte string, for an `f` that answers a bool on every byte -/
theorem anyGen_bytes (f : V → PyM V) (p : UInt8 → Bool) (hf : ∀ x, f (byteV x) = .ok (.bool (p x)))
    (bs : List UInt8) : Py.anyGen (.bytes bs) f = .ok (.bool (bs.any p)) := by
  have h := any_fold f p hf bs false
  have e : Py.anyGen (.bytes bs) f
      = (do let r ← List.foldlM (anyStep f) false (bs.map byteV); pure (.bool r)) := rfl
  rw [e, h]; simp

/-! ### the two functions -/

/-- `check_parameter(data)`: some byte differs from 0xFF -/
theorem check_parameter_eq (bs : List UInt8) :
    PyCode.check_parameter (.bytes bs) = .ok (.bool (bs.any (· != 255))) := by
  unfold PyCode.check_parameter
  rw [anyGen_bytes _ (· != 255)]
  intro x
  simp only [PyCode.c_BYTE_UNDEFINED, ne_undef, ok_bind, pure_eq_ok]

theorem not_any_ne (bs : List UInt8) : (!(bs.any (· != 255))) = bs.all (· == P2.undef) := by
  have : P2.undef = 255 := rfl
  rw [this]
  induction bs with
  | nil => rfl
  | cons b r ih =>
    simp only [List.any_cons, List.all_cons, Bool.not_or, ih]
    simp only [bne, Bool.not_not]

/-- `check_parameter` in the model's words -/
theorem check_parameter_eq' (bs : List UInt8) :
    PyCode.check_parameter (.bytes bs) = .ok (.bool (!(bs.all (· == P2.undef)))) := by
  rw [check_parameter_eq, ← not_any_ne]; simp

/-- `unpack_parameter(data, offset, size)` is the model's `unpackParam size data[offset:]`, for
every byte string, natural offset and natural size (short and empty slices included) -/
theorem unpack_parameter_eq (data : List UInt8) (offset size : Nat) :
    PyCode.unpack_parameter (.bytes data) (.int offset) (.int size)
      = .ok (match P2.unpackParam size (data.drop offset) with
          | none => .none
          | some (v, mn, mx) =>
            Py.mkobj "ParameterValues" [("value", .int v), ("min_value", .int mn), ("max_value", .int mx)]) := by
  have e1 : ((offset : Int) + (size : Int) * 3) = ((offset + size * 3 : Nat) : Int) := by simp
  have e2 : ((offset : Int) + (size : Int)) = ((offset + size : Nat) : Int) := by simp
  have e3 : ((offset : Int) + 2 * (size : Int)) = ((offset + 2 * size : Nat) : Int) := by simp
  have e4 : ((offset : Int) + 3 * (size : Int)) = ((offset + 3 * size : Nat) : Int) := by simp
  have d1 : offset + size * 3 - offset = 3 * size := by omega
  have d2 : offset + size - offset = size := by omega
  have d3 : offset + 2 * size - (offset + size) = size := by omega
  have d4 : offset + 3 * size - (offset + 2 * size) = size := by omega
  unfold PyCode.unpack_parameter P2.unpackParam
  simp only [mul_int, add_int, ok_bind, e1, e2, e3, e4, slice_bytes_nat, check_parameter_eq,
    Py.not, Py.truthy, pure_eq_ok, d1, d2, d3, d4, not_any_ne, int_from_bytes_little,
    ← List.drop_drop]
  split <;> simp_all [List.drop_drop]

/-! ### non-vacuity -/

example : PyCode.check_parameter (.bytes [255, 255, 255]) = .ok (.bool false) := rfl
example : PyCode.check_parameter (.bytes [255, 7, 255]) = .ok (.bool true) := rfl
example : PyCode.unpack_parameter (.bytes [9, 61, 20, 80, 255]) (.int 1) (.int 1)
    = .ok (Py.mkobj "ParameterValues" [("value", .int 61), ("min_value", .int 20), ("max_value", .int 80)]) := rfl
example : PyCode.unpack_parameter (.bytes [9, 255, 255, 255, 1]) (.int 1) (.int 1) = .ok .none := rfl
/-- two-byte fields, the block cut short: lenient slices -/
example : PyCode.unpack_parameter (.bytes [1, 2, 3, 4, 5]) (.int 0) (.int 2)
    = .ok (Py.mkobj "ParameterValues" [("value", .int 513), ("min_value", .int 1027), ("max_value", .int 5)]) := rfl

end PlumVerif.TieParams

import PlumVerif.Generated.PyCode
import PlumVerif.Proofs.PyLemmas
import PlumVerif.Model.DecodeMisc
import PlumVerif.Proofs.DecodeUid
/-
Tie: the Lean definitions translated from the SOURCE TEXT of `pyplumio/helpers/uid.py: _crc16_byte,
_crc16, _base5, decode_uid` (Generated/PyCode.lean, rewritten by tools/py2lean.py on every run) equal
the hand-written models `P2.crc16Byte`, `P2.crc16`, `P2.base5`, `P2.uidString` (Model/DecodeMisc.lean)
on every input; the `while` loop of `_base5` never runs out of the stated fuel.
-/
namespace PlumVerif.TieUid
open PlumVerif.Py

/-! ### the prelude's little-endian functions are the model's -/

theorem py_encodeLE_eq (n k : Nat) : Py.encodeLE n k = PlumVerif.encodeLE n k := by
  induction k generalizing n with
  | zero => rfl
  | succ k ih => simp [Py.encodeLE, PlumVerif.encodeLE, ih]

theorem py_decodeLE_eq (bs : List UInt8) : Py.decodeLE bs = PlumVerif.decodeLE bs := by
  induction bs with
  | nil => rfl
  | cons b bs ih => simp [Py.decodeLE, PlumVerif.decodeLE, ih]

/-! ### Python's bit operations on non-negative ints -/

theorem and_nat (a k : Nat) : Py.and (.int (a : Int)) (.int (k : Int)) = .ok (.int ((a &&& k : Nat) : Int)) := by
  simp only [Py.and, bothBool?, asInt?, iand_natCast, pure_eq_ok]

theorem xor_nat (a k : Nat) : Py.xor (.int (a : Int)) (.int (k : Int)) = .ok (.int ((a ^^^ k : Nat) : Int)) := by
  simp only [Py.xor, bothBool?, asInt?, ixor_natCast, pure_eq_ok]

theorem rshift_nat (a k : Nat) :
    Py.rshift (.int (a : Int)) (.int (k : Int)) = .ok (.int ((a / 2 ^ k : Nat) : Int)) := by
  have h : ¬ ((k : Int) < 0) := by omega
  simp only [Py.rshift, asInt?, h, ↓reduceIte, Int.toNat_natCast, shr_natCast,
    Nat.shiftRight_eq_div_pow, pure_eq_ok]

/-! ### `_crc16_byte` -/

/-- a `for _ in …` loop whose body is one shift step, from a non-negative int -/
theorem fold_shift (f : V → V → PyM V)
    (hf : ∀ (x : V) (c : Nat), f x (.int (c : Int)) = .ok (.int ((P2.crcShift c : Nat) : Int)))
    (xs : List V) (c : Nat) :
    xs.foldlM (fun s x => f x s) (.int (c : Int))
      = .ok (.int ((P2.crcShiftN xs.length c : Nat) : Int)) := by
  induction xs generalizing c with
  | nil => rfl
  | cons x xs ih =>
    simp only [List.foldlM_cons, hf, ok_bind, List.length_cons, P2.crcShiftN]
    exact ih _

/-- `c & 1` is truthy iff `c` is odd -/
theorem and_one_ne_zero (c : Nat) : (((c &&& 1 : Nat) : Int) != 0) = decide (c % 2 = 1) := by
  rw [Nat.and_one_is_mod]
  rcases Nat.mod_two_eq_zero_or_one c with h | h <;> simp [h]

/-- the translated `_crc16_byte` on a non-negative int and a byte is the model's step -/
theorem crc16_byte_eq (crc : Nat) (b : UInt8) :
    PyCode.crc16_byte (.int crc) (byteV b) = .ok (.int (P2.crc16Byte crc b)) := by
  have hx : Py.xor (.int (crc : Int)) (byteV b) = .ok (.int ((crc ^^^ b.toNat : Nat) : Int)) := by
    simp [Py.xor, byteV, bothBool?, asInt?]
  unfold PyCode.crc16_byte
  simp only [hx, ok_bind, Py.range, Py.forLoop, Py.iter, pure_eq_ok]
  rw [fold_shift]
  · simp [P2.crc16Byte, P2.crcShift8_eq]
  · intro x c
    have ha : Py.and (.int (c : Int)) (.int 1) = .ok (.int ((c % 2 : Nat) : Int)) := by
      have := and_nat c 1
      rwa [Nat.and_one_is_mod] at this
    have hs : Py.rshift (.int (c : Int)) (.int 1) = .ok (.int ((c / 2 : Nat) : Int)) :=
      rshift_nat c 1
    have hp : ∀ m : Nat, Py.xor (.int (m : Int)) PyCode.c_POLYNOMIAL
        = .ok (.int ((m ^^^ 40961 : Nat) : Int)) := fun m => xor_nat m 40961
    simp only [ha, hs, hp, ok_bind, pure_eq_ok, Py.truthy, P2.crcShift, P2.uidPolynomial_eq]
    rcases Nat.mod_two_eq_zero_or_one c with h | h <;> simp [h]

example : PyCode.crc16_byte (.int 41891) (byteV 1) = .ok (.int 47394) := rfl
example : P2.crc16Byte 41891 1 = 47394 := by decide

/-! ### `_crc16` -/

theorem fold_crc (bs : List UInt8) (c : Nat) :
    List.foldlM PyCode.crc16_byte (.int (c : Int)) (bs.map byteV)
      = .ok (.int ((bs.foldl P2.crc16Byte c : Nat) : Int)) := by
  induction bs generalizing c with
  | nil => rfl
  | cons b bs ih =>
    simp only [List.map_cons, List.foldlM_cons, List.foldl_cons, crc16_byte_eq, ok_bind]
    exact ih _

/-- `n.to_bytes(length=2, byteorder="little")` of a number that fits -/
theorem to_bytes2 (n : Nat) (h : n < 65536) :
    Py.int_to_bytes (.int (n : Int)) (.int 2) (.str "little")
      = .ok (.bytes (PlumVerif.encodeLE n 2)) := by
  have h' : ¬ (65536 ≤ n) := by omega
  simp [Py.int_to_bytes, py_encodeLE_eq, h']

/-- the translated `_crc16` on a byte string: the model's CRC as two little-endian bytes (never an
OverflowError: the CRC fits 16 bits) -/
theorem crc16_eq (bs : List UInt8) :
    PyCode.crc16 (.bytes bs) = .ok (.bytes (PlumVerif.encodeLE (P2.crc16 bs) 2)) := by
  have hc : PyCode.c_CRC = .int ((Gen.uidCrc : Nat) : Int) := rfl
  unfold PyCode.crc16
  simp only [Py.reduceInit, Py.iter, hc, pure_eq_ok, ok_bind, fold_crc]
  exact to_bytes2 _ (P2.crc16_lt bs)

example : PyCode.crc16 (.bytes [1, 2, 3, 4, 5]) = .ok (.bytes [232, 230]) := rfl

/-! ### `_base5` -/

theorem base5_key_eq : PyCode.c_BASE5_KEY = .str Gen.base5Key := rfl

theorem base5_key_length : Gen.base5Key.length = 32 := by decide

theorem base5_key_getD : ∀ d, d < 32 → Gen.base5Key.toList[d]?.getD ' ' = P2.keyChar d := by decide

/-- `BASE5_KEY[d]` for a digit -/
theorem index_key (d : Nat) (h : d < 32) :
    Py.index PyCode.c_BASE5_KEY (.int (d : Int)) = .ok (.str (String.singleton (P2.keyChar d))) := by
  have h1 : (d : Int) < 32 := by omega
  have h0 : (0 : Int) ≤ (d : Int) := by omega
  simp [base5_key_eq, Py.index, normIndex, asInt?, base5_key_length, h1, h0, base5_key_getD d h]

/-- a `while` loop over (text, number) that peels base-32 digits: with fuel for one more round
than the number has digits it answers the model's digits -/
theorem while_base5 (iter : V × V → PyM (Step (V × V) V)) (after : V × V → PyM V)
    (hstep : ∀ (acc : List Char) (n : Nat), n ≠ 0 →
      iter (.str (String.ofList acc), .int (n : Int))
        = .ok (.next (.str (String.ofList (P2.keyChar (n % 32) :: acc)), .int ((n / 32 : Nat) : Int))))
    (hdone : ∀ (acc : List Char),
      iter (.str (String.ofList acc), .int ((0 : Nat) : Int))
        = .ok (.done (.str (String.ofList acc), .int ((0 : Nat) : Int))))
    (hafter : ∀ (acc : List Char) (n : V),
      after (.str (String.ofList acc), n) = .ok (.str (String.ofList acc)))
    (d : Nat) (n : Nat) (acc : List Char) (fuel : Nat) (hn : n < 32 ^ d) (hfuel : d + 1 ≤ fuel) :
    Py.whileLoop fuel (.str (String.ofList acc), .int (n : Int)) iter after
      = .ok (.str (String.ofList (P2.base5 d n acc))) := by
  induction d generalizing n acc fuel with
  | zero =>
    have h0 : n = 0 := by simpa using hn
    subst h0
    obtain ⟨f, rfl⟩ : ∃ f, fuel = f + 1 := ⟨fuel - 1, by omega⟩
    simp only [Py.whileLoop, hdone, hafter, P2.base5]
  | succ d ih =>
    obtain ⟨f, rfl⟩ : ∃ f, fuel = f + 1 := ⟨fuel - 1, by omega⟩
    by_cases h0 : n = 0
    · subst h0
      simp only [Py.whileLoop, hdone, hafter, P2.base5_of_zero]
    · have hlt : n / 32 < 32 ^ d := by
        rw [Nat.pow_succ] at hn
        exact Nat.div_lt_of_lt_mul (by rw [Nat.mul_comm]; exact hn)
      simp only [Py.whileLoop, hstep acc n h0, P2.base5_succ, h0, ↓reduceIte]
      exact ih (n / 32) _ f hlt (by omega)

/-- the translated `_base5` computes the model's digits and never runs out of fuel, for any `d`
that bounds the number of base-32 digits and any `fuel > d` -/
theorem base5_eq (bs : List UInt8) (d fuel : Nat) (hd : PlumVerif.decodeLE bs < 32 ^ d)
    (hfuel : d + 1 ≤ fuel) :
    PyCode.base5 fuel (.bytes bs)
      = .ok (.str (String.ofList (P2.base5 d (PlumVerif.decodeLE bs) []))) := by
  have he : V.str "" = V.str (String.ofList []) := rfl
  unfold PyCode.base5
  simp only [Py.int_from_bytes, ↓reduceIte, pure_eq_ok, ok_bind, py_decodeLE_eq, he]
  apply while_base5 _ _ _ _ _ d _ _ _ hd hfuel
  · intro acc n hn
    have hm : n % 32 < 32 := Nat.mod_lt _ (by omega)
    have ht : Py.truthy (.int (n : Int)) = .ok true := by simp [Py.truthy, hn]
    have hand : Py.and (.int (n : Int)) (.int 31) = .ok (.int ((n % 32 : Nat) : Int)) := by
      have h31 : n &&& 31 = n % 32 := Nat.and_two_pow_sub_one_eq_mod n 5
      have := and_nat n 31
      rwa [h31] at this
    have hsh : Py.rshift (.int (n : Int)) (.int 5) = .ok (.int ((n / 32 : Nat) : Int)) :=
      rshift_nat n 5
    simp only [ht, hand, index_key _ hm, Py.add, hsh, ok_bind, pure_eq_ok, ↓reduceIte,
      ← String.ofList_cons]
  · intro acc
    simp [Py.truthy]
  · intro acc n
    rfl

/-- a bound on the digits from the length alone: `8·len/5 + 1` digits hold `len` bytes -/
theorem decodeLE_lt_pow32 (bs : List UInt8) : PlumVerif.decodeLE bs < 32 ^ (8 * bs.length / 5 + 1) := by
  refine Nat.lt_of_lt_of_le (P2.decodeLE_lt bs) ?_
  have e1 : (256 : Nat) = 2 ^ 8 := by decide
  have e2 : (32 : Nat) = 2 ^ 5 := by decide
  rw [e1, e2, ← Nat.pow_mul, ← Nat.pow_mul]
  exact Nat.pow_le_pow_right (by decide) (by omega)

/-- `_base5` with a fuel computed from the length of the buffer -/
theorem base5_eq_len (bs : List UInt8) (fuel : Nat) (hfuel : 8 * bs.length / 5 + 2 ≤ fuel) :
    PyCode.base5 fuel (.bytes bs)
      = .ok (.str (String.ofList (P2.base5 (8 * bs.length / 5 + 1) (PlumVerif.decodeLE bs) []))) :=
  base5_eq bs _ fuel (decodeLE_lt_pow32 bs) hfuel

example : PyCode.base5 5 (.bytes [0xFF, 0x03]) = .ok (.str "VV") := rfl
example : PyCode.base5 1 (.bytes []) = .ok (.str "") := rfl
/-- the bound is tight: one round less is not enough -/
example : PyCode.base5 2 (.bytes [0xFF, 0x03]) = .error .outOfFuel := rfl

/-! ### `decode_uid` -/

/-- the translated `decode_uid` is the model's UID text, with an explicit fuel -/
theorem decode_uid_eq (uid : List UInt8) (fuel : Nat) (h : fuel ≥ P2.uidFuel uid + 1) :
    PyCode.decode_uid fuel (.bytes uid) = .ok (.str (P2.uidString uid)) := by
  have hb := base5_eq (uid ++ PlumVerif.encodeLE (P2.crc16 uid) 2) (P2.uidFuel uid) fuel
    (P2.uidNumber_lt uid) h
  unfold PyCode.decode_uid
  simp only [crc16_eq, ok_bind, Py.add, pure_eq_ok, hb]
  rfl

example : PyCode.decode_uid 30 (.bytes [1, 2, 3, 4, 5]) = .ok (.str "1PN80K2060G1") := rfl
example : P2.uidFuel [1, 2, 3, 4, 5] + 1 = 13 := by decide

end PlumVerif.TieUid

import PlumVerif.Props.C03
import PlumVerif.Props.C02Object
/-
C03, frame OBJECT: equality of fresh and of used frame objects (the precise statement of known
finding F5), and the end-to-end round trip object → FrameWriter → wire → FrameReader.
-/
namespace PlumVerif.C03
open PlumVerif PlumVerif.Obj PlumVerif.PyFrame

section equality
variable {δ : Type} [DecidableEq δ] (c : FrameCodec δ)

/-- **eq_fresh_iff**: two freshly constructed frames compare equal exactly when they were
constructed from the same class, recipient, sender, econet type, econet version, message and data -/
theorem eq_fresh_iff (k₁ k₂ : Nat) (r₁ s₁ t₁ v₁ r₂ s₂ t₂ v₂ : Int) (m₁ m₂ : Option (List Byte)) (d₁ d₂ : Option δ) :
    pyEq (construct k₁ r₁ s₁ t₁ v₁ m₁ d₁) (construct k₂ r₂ s₂ t₂ v₂ m₂ d₂) = true
      ↔ k₁ = k₂ ∧ r₁ = r₂ ∧ s₁ = s₂ ∧ t₁ = t₂ ∧ v₁ = v₂ ∧ m₁ = m₂ ∧ d₁ = d₂ := by
  rw [pyEq_iff]; simp [construct]

/-- F5, message side (`message`, `bytes`, `len()` all fill the same cache): a frame stays equal
to its earlier self exactly when nothing was cached — the message was already there, or the
encoder raised -/
theorem eq_after_message_fill (x : PyFrame δ) :
    pyEq (C02.fillMsg c x) x = true ↔ (x.message ≠ none ∨ ∃ e, payloadOf c x = .error e) := by
  rw [pyEq_iff]
  unfold C02.fillMsg
  cases hp : payloadOf c x with
  | error e => simp
  | ok m =>
    cases hm : x.message with
    | some m' =>
      have : m' = m := by simp [payloadOf, hm] at hp; exact hp
      subst this
      cases x; simp_all
    | none =>
      simp only [ne_eq, not_true_eq_false, false_or]
      constructor
      · intro h
        have := congrArg PyFrame.message h
        simp [hm] at this
      · rintro ⟨e, he⟩; cases he

/-- **F5**: two frames built from the same arguments, without a message; `bytes` (or `message`,
`len()`) read on ONE of them with success: they no longer compare equal.  Reading it on the
other one too makes them equal again. -/
theorem F5_one_sided_fill (x : PyFrame δ) (m : List Byte) (hm : x.message = none) (hp : payloadOf c x = .ok m) :
    pyEq (step c x .bytes).1 x = false ∧ pyEq (step c x .getMessage).1 x = false ∧ pyEq (step c x .len).1 x = false
      ∧ pyEq (step c x .bytes).1 (step c x .getMessage).1 = true := by
  have h : pyEq (C02.fillMsg c x) x = false := by
    cases hh : pyEq (C02.fillMsg c x) x with
    | false => rfl
    | true =>
      rcases (eq_after_message_fill c x).mp hh with h | ⟨e, he⟩
      · exact absurd hm h
      · rw [hp] at he; cases he
  rw [C02.step_bytes_state, C02.step_getMessage_state, C02.step_len_state]
  exact ⟨h, h, h, pyEq_refl _⟩

/-- F5, data side: reading `.data` keeps a frame equal to its earlier self exactly when the data
was already there or decoding raised -/
theorem eq_after_data_fill (x : PyFrame δ) :
    pyEq (step c x .getData).1 x = true ↔
      (x.data ≠ none ∨ ∃ m e, x.message = some m ∧ c.decode m = .error e) := by
  rw [pyEq_iff]
  simp only [step, ensureData]
  cases hd : x.data with
  | some d => simp
  | none =>
    cases hm : x.message with
    | none =>
      simp only [ne_eq, not_true_eq_false, false_or]
      constructor
      · intro h; have := congrArg PyFrame.data h; simp [hd] at this
      · rintro ⟨m, e, h, _⟩; cases h
    | some m =>
      simp only
      cases hdec : c.decode m with
      | error e => simp [hdec]
      | ok d =>
        simp only [ne_eq, not_true_eq_false, false_or]
        constructor
        · intro h; have := congrArg PyFrame.data h; simp [hd] at this
        · rintro ⟨m', e, h, he⟩; cases h; rw [hdec] at he; cases he

/-- equal frames stay equal under the same operation on both (so "fill both" restores equality),
and whatever was read, the serialised bytes of equal-argument frames agree (`C02.getters_pure`) -/
theorem eq_preserved (x y : PyFrame δ) (op : Op δ) (h : pyEq x y = true) :
    pyEq (step c x op).1 (step c y op).1 = true := by
  have := (pyEq_iff x y).mp h
  subst this
  exact pyEq_refl _

end equality

/-! ### object → writer → wire → reader -/

/-- frames serialised by frame objects (`bytes = encode fᵢ`, see `C02.bytes_reflect_last_content`),
handed one by one to `FrameWriter.write`, put on the wire the concatenation of their bytes; a
reader on the other end gets exactly those frames, each once, in order, each consuming exactly
its own bytes (composition with the C04 stream theorem). -/
theorem written_stream_read_back (fs : List Fields) (hlen : ∀ f ∈ fs, f.payload.length + 10 ≤ 1000) :
    readAll (Writer.written (Writer.writeAll (fs.map encode)))
      = fs.map (fun f => (classify f, f.wireLength)) ++ [(.connLost, 0)] := by
  rw [(C02.writeAll_events (fs.map encode)).2]
  have h := readAll_frames (fs.map fun f => (f, endByte)) (by
    intro p hp
    simp only [List.mem_map] at hp
    obtain ⟨f, hf, rfl⟩ := hp
    exact hlen f hf)
  simp only [List.flatMap_map, List.map_map] at h
  have e : (fs.map encode).flatten = fs.flatMap fun f => encodeWith f endByte := by
    have : encode = fun f => encodeWith f endByte := rfl
    simp [List.flatMap, this]
  rw [e]
  simpa [Function.comp_def] using h

/-- … in particular frames that pass the reader's gates are all delivered, unchanged -/
theorem written_stream_delivered (fs : List Fields) (hlen : ∀ f ∈ fs, f.payload.length + 10 ≤ 1000)
    (hg : ∀ f ∈ fs, isForUs f.rcpt = true ∧ knownDevice f.sender = true ∧ knownFrame f.kind = true) :
    (readAll (Writer.written (Writer.writeAll (fs.map encode)))).map (·.1)
      = fs.map Outcome.delivered ++ [.connLost] := by
  rw [written_stream_read_back fs hlen]
  simp only [List.map_append, List.map_map, List.map_cons, List.map_nil]
  congr 1
  apply List.map_congr_left
  intro f hf
  obtain ⟨h1, h2, h3⟩ := hg f hf
  simp [classify, h1, h2, h3]

example : readAll (Writer.written (Writer.writeAll
      [encode ⟨0x19, 0x56, 0x45, 48, 5, []⟩, encode ⟨0x33, 0x56, 0x45, 48, 5, [1, 2]⟩]))
    = [(.delivered ⟨0x19, 0x56, 0x45, 48, 5, []⟩, 10), (.delivered ⟨0x33, 0x56, 0x45, 48, 5, [1, 2]⟩, 12), (.connLost, 0)] := by
  decide +kernel

end PlumVerif.C03

import PlumVerif.Props.C01SessionX
import PlumVerif.Props.C14
/-
C14 / C01 / C04 on a reader that has HISTORY: earlier calls of `read()` were abandoned (READER_TIMEOUT, a caller's
`wait_for`, cancellation, the connection ended) at any of the four await points -- the executor hop of `Frame.create`
included (`Model/ReaderSession.sessionX`).

`C01.sessionX_calls_are_reads` says that every completed call is `readFrame` of SOME byte string.  What the history
check (harness/history.py) relies on is stronger: WHICH byte string.  After any prefix of a session the only thing that is
left of it is the stream position: what has arrived minus what the completed and the abandoned calls consumed
(`history_leaves_no_residue`), so the next call is `readFrame` of exactly that remainder (`next_call_after_history_is_read`),
and everything C14 proves about `readFrame` -- outcomes, progress, bounded demand, re-synchronisation -- holds for it.
-/
namespace PlumVerif.C14
open PlumVerif

/-- what a call leaves is a suffix of what it was given (also when it reports the connection lost) -/
theorem readFrame_suffix (s : List Byte) : ∃ c, s = c ++ (readFrame s).2 := by
  cases hs : scan s with
  | none => exact ⟨s, by simp [readFrame, hs]⟩
  | some r =>
    have hne : (readFrame s).1 ≠ .connLost := by
      intro h
      have hno := (readFrame_connLost_iff s).1 h
      obtain ⟨pre, hsp, _⟩ := scan_spec hs
      exact hno (by rw [hsp]; simp)
    exact (readFrame_progress (s := s) (r := (readFrame s).2) (o := (readFrame s).1) rfl hne).2

theorem blockedTaken_le {s : List Byte} {n : Nat} (h : blockedTaken s = some n) : n ≤ s.length := by
  unfold blockedTaken at h
  repeat' split at h
  all_goals (try simp at h)
  all_goals omega

/-- bytes taken from the stream by the calls of a session, completed or abandoned -/
def takenSum : List SEv → Nat
  | [] => 0
  | .call _ n :: r => n + takenSum r
  | .abandoned n :: r => n + takenSum r

theorem takenSum_append (a b : List SEv) : takenSum (a ++ b) = takenSum a + takenSum b := by
  induction a with
  | nil => simp [takenSum]
  | cons e r ih => cases e <;> simp [takenSum, ih] <;> omega

/-- bytes that arrive during the steps -/
def fed : List Step → List Byte
  | [] => []
  | .feed c :: st => c ++ fed st
  | _ :: st => fed st

/-- the steps of a session WITHOUT the final read-to-end: events so far and what the stream still holds -/
def runX (pending : List Byte) : List Step → List SEv × List Byte
  | [] => ([], pending)
  | .feed c :: st => runX (pending ++ c) st
  | .calls :: st =>
    let r := completed pending
    let q := runX r.2.2 st
    (r.1.map (fun p => SEv.call p.1 p.2) ++ [.abandoned r.2.1] ++ q.1, q.2)
  | .callAbandonedAtCreate :: st =>
    let r := callAtCreate pending
    let q := runX r.2 st
    (r.1 ++ q.1, q.2)

/-- a session is its prefix followed by the session that starts from what the prefix left in the stream: nothing else
of the prefix -- no abandoned call, wherever it was abandoned -- is an input of what follows -/
theorem sessionX_append (pre post : List Step) : ∀ p : List Byte,
    sessionX p (pre ++ post) = (runX p pre).1 ++ sessionX (runX p pre).2 post := by
  induction pre with
  | nil => intro p; simp [runX]
  | cons st pre ih =>
    intro p
    cases st with
    | feed c => simp only [List.cons_append, sessionX, runX]; exact ih _
    | calls => simp only [List.cons_append, sessionX, runX, ih, List.append_assoc]
    | callAbandonedAtCreate => simp only [List.cons_append, sessionX, runX, ih, List.append_assoc]

theorem completedFuel_split (fuel : Nat) : ∀ s : List Byte,
    ∃ c, s = c ++ (completedFuel fuel s).2.2 ∧
      c.length = takenSum ((completedFuel fuel s).1.map fun p => SEv.call p.1 p.2) + (completedFuel fuel s).2.1 := by
  induction fuel with
  | zero => intro s; exact ⟨[], by simp [completedFuel, takenSum]⟩
  | succ k ih =>
    intro s
    unfold completedFuel
    split
    · rename_i n hb
      have := blockedTaken_le hb
      exact ⟨s.take n, by simp, by simp [takenSum]; omega⟩
    · obtain ⟨c0, h0⟩ := readFrame_suffix s
      obtain ⟨c1, h1, l1⟩ := ih (readFrame s).2
      refine ⟨c0 ++ c1, ?_, ?_⟩
      · dsimp only
        rw [List.append_assoc, ← h1]; exact h0
      · have hl := congrArg List.length h0
        simp only [List.length_append] at hl
        simp only [List.map_cons, takenSum, List.length_append]
        omega

theorem callAtCreate_split (s : List Byte) :
    ∃ c, s = c ++ (callAtCreate s).2 ∧ c.length = takenSum (callAtCreate s).1 := by
  obtain ⟨c0, h0⟩ := readFrame_suffix s
  have hl := congrArg List.length h0
  simp only [List.length_append] at hl
  unfold callAtCreate
  split
  · rename_i n hb
    have := blockedTaken_le hb
    exact ⟨s.take n, by simp, by simp [takenSum]; omega⟩
  · dsimp only
    split
    · exact ⟨c0, h0, by simp [takenSum]; omega⟩
    · exact ⟨[], by simp, by simp [takenSum]⟩
    · exact ⟨c0, h0, by simp [takenSum]; omega⟩

/-- what a prefix leaves in the stream is what has arrived minus what its calls took -/
theorem runX_split (pre : List Step) : ∀ p : List Byte,
    ∃ c, p ++ fed pre = c ++ (runX p pre).2 ∧ c.length = takenSum (runX p pre).1 := by
  induction pre with
  | nil => intro p; exact ⟨[], by simp [runX, fed, takenSum]⟩
  | cons st pre ih =>
    intro p
    cases st with
    | feed c =>
      obtain ⟨c1, h1, l1⟩ := ih (p ++ c)
      exact ⟨c1, by simpa [runX, fed, List.append_assoc] using h1, by simpa [runX] using l1⟩
    | calls =>
      obtain ⟨c0, h0, l0⟩ := completedFuel_split (p.length + 1) p
      obtain ⟨c1, h1, l1⟩ := ih (completed p).2.2
      refine ⟨c0 ++ c1, ?_, ?_⟩
      · simp only [runX, fed]
        rw [List.append_assoc, ← h1, ← List.append_assoc]
        exact congrArg (· ++ fed pre) h0
      · simp only [runX, takenSum_append, List.length_append, takenSum]
        unfold completed
        unfold completed at l1
        omega
    | callAbandonedAtCreate =>
      obtain ⟨c0, h0, l0⟩ := callAtCreate_split p
      obtain ⟨c1, h1, l1⟩ := ih (callAtCreate p).2
      refine ⟨c0 ++ c1, ?_, ?_⟩
      · simp only [runX, fed]
        rw [List.append_assoc, ← h1, ← List.append_assoc]
        exact congrArg (· ++ fed pre) h0
      · simp only [runX, takenSum_append, List.length_append]
        omega

/-- **no residue**: after ANY history `pre` on a reader (bytes arriving, calls completed, calls abandoned at any await of
`read()`, the `Frame.create` hop included) the rest of the session is the session of a fresh reader on `rest`, where
`rest` is what has arrived with the bytes the earlier calls consumed (as many as they report) cut off the front. -/
theorem history_leaves_no_residue (pre post : List Step) :
    ∃ consumed rest, fed pre = consumed ++ rest ∧ consumed.length = takenSum (runX [] pre).1 ∧
      sessionX [] (pre ++ post) = (runX [] pre).1 ++ sessionX rest post := by
  obtain ⟨c, h, l⟩ := runX_split pre []
  exact ⟨c, (runX [] pre).2, by simpa using h, l, sessionX_append pre post []⟩

/-- a call that can complete on what the stream holds is `readFrame` of what the stream holds -/
theorem calls_head {s : List Byte} (h : blockedTaken s = none) (post : List Step) :
    ∃ tail, sessionX s (.calls :: post) =
      .call (readFrame s).1 (s.length - (readFrame s).2.length) :: tail := by
  simp only [sessionX, completed]
  unfold completedFuel
  simp only [h, List.map_cons, List.cons_append]
  exact ⟨_, rfl⟩

/-- **the next call after any history**: bytes `c` arrive after the history `pre`; if the next call can complete on what
the stream then holds, its outcome and consumption are those of `readFrame` on (what arrived) minus (what was consumed):
C14.outcomes / progress / bounded_consumption / resync_partial apply to it as they do to a call on a fresh reader. -/
theorem next_call_after_history_is_read (pre post : List Step) (c : List Byte) :
    ∃ consumed rest, fed pre = consumed ++ rest ∧ consumed.length = takenSum (runX [] pre).1 ∧
      (blockedTaken (rest ++ c) = none →
        ∃ tail, sessionX [] (pre ++ .feed c :: .calls :: post) =
          (runX [] pre).1 ++ .call (readFrame (rest ++ c)).1 ((rest ++ c).length - (readFrame (rest ++ c)).2.length) :: tail) := by
  obtain ⟨consumed, rest, hf, hl, hs⟩ := history_leaves_no_residue pre (.feed c :: .calls :: post)
  refine ⟨consumed, rest, hf, hl, fun hb => ?_⟩
  obtain ⟨tail, ht⟩ := calls_head hb post
  have hstep : sessionX rest (.feed c :: .calls :: post) = sessionX (rest ++ c) (.calls :: post) := rfl
  exact ⟨tail, by rw [hs, hstep, ht]⟩

/-- the outcome of that call is one of the documented ones, whatever the history -/
theorem next_call_after_history_outcomes (rest c : List Byte) :
    (∃ f, (readFrame (rest ++ c)).1 = .delivered f) ∨ (readFrame (rest ++ c)).1 = .ignored ∨
      (∃ e, (readFrame (rest ++ c)).1 = .protoErr e) ∨ (readFrame (rest ++ c)).1 = .connLost :=
  outcomes _

/-- non-vacuity: Y (ecoMAX-parameters request) arrives, the call that reads it is abandoned at `Frame.create` (12 bytes
consumed, nothing handed out); one byte of noise and Y arrive; the next call consumes 13 bytes and delivers Y. -/
example :
    let Y : Fields := ⟨0x31, 0x00, 0x51, 0x31, 0x06, [7, 3]⟩
    runX [] [.feed (encode Y), .callAbandonedAtCreate] = ([.abandoned 12], []) ∧
    sessionX [] ([.feed (encode Y), .callAbandonedAtCreate] ++ [.feed (0x00 :: encode Y), .calls]) =
      [.abandoned 12, .call (.delivered Y) 13, .abandoned 0, .call .connLost 0] := by
  decide

end PlumVerif.C14

import PlumVerif.Model.SetRoutes
import PlumVerif.Props.C08
/-
C08 — every public set route forwards (value, retries, timeout) unchanged to the set machine.

`Gen.setRoutes` is the translator's probe of the library's public set routes (see
Model/SetRoutes.lean).  The theorems of Props/C08.lean speak about `trace s0 v r T es`, the machine
started with the arguments that REACH `Parameter.set`; these theorems tie those arguments to what the
CALLER passed, for every route and every argument form.
-/
namespace PlumVerif.C08
open PlumVerif.SetM PlumVerif.SetRoutes

/-- every probed row has the sources that forward what the caller means: the value (or on / off),
the caller's `retries` where the form carries one (else the default), the caller's `timeout` where the
form carries a retry interval (else the default); nothing is swapped, dropped or replaced, and a
device-level wait never reaches the machine -/
theorem routes_probe_ok : routes.all rowOk = true := by decide

/-- the table is complete: 10 parameter classes x 7 argument forms for `set` and `set_nowait`, the four
conveniences on the 5 switch classes, `Device.set` / `set_nowait` on the 3 device classes x 7 forms, the
four `EcoMAX.turn_*` conveniences — and nothing else (no public set/turn method the model does not know) -/
theorem routes_complete :
    count 0 0 = 70 ∧ count 0 1 = 70 ∧ count 0 2 = 5 ∧ count 0 3 = 5 ∧ count 0 4 = 5 ∧ count 0 5 = 5 ∧
    count 1 0 = 21 ∧ count 1 1 = 21 ∧ count 2 2 = 1 ∧ count 2 3 = 1 ∧ count 2 4 = 1 ∧ count 2 5 = 1 ∧
    routes.length = 206 := by decide +kernel

theorem rowOk_forwards (rt : Route) (h : rowOk rt = true) (a : Args) : callOf rt a = some (meant rt a) := by
  simp only [rowOk, Bool.and_eq_true, decide_eq_true_eq, expectedSrc, Prod.mk.injEq] at h
  obtain ⟨_, hv, hr, ht⟩ := h
  have d := defaults
  simp only [callOf, meant, meantValue, hv, hr, ht]
  by_cases h1 : rt.method ≤ 1 <;> by_cases h2 : (rt.method = 2 ∨ rt.method = 4) <;>
    by_cases h3 : passesRetries rt.form = true <;> by_cases h4 : passesTimeout rt.owner rt.form = true <;>
    simp [h1, h2, h3, h4, resolve, d.1, d.2]

/-- **route_forwards**: through every public route, in every argument form, for all arguments, the call
that reaches the set machine is the call the caller means -/
theorem route_forwards (rt : Route) (h : rt ∈ routes) (a : Args) : callOf rt a = some (meant rt a) :=
  rowOk_forwards rt (List.all_eq_true.mp routes_probe_ok rt h) a

example : callOf ⟨"MixerNumber", 0, 1, 2, 1, 2, 3⟩ ⟨45, 1, 1200, 0⟩ = some (.call 45 1 1200) := by decide
/-- a route that swaps the two (C08-m9) is not accepted -/
example : rowOk ⟨"MixerNumber", 0, 1, 2, 1, 3, 2⟩ = false := by decide

/-- **route_tx_count / route_tx_value**: the one-call clauses hold for the arguments the CALLER passed,
whatever route he took -/
theorem route_tx (rt : Route) (h : rt ∈ routes) (a : Args) (s0 : St) (h0 : s0.phase = .idle) (es : List Ev) :
    ∃ out, traceVia rt a s0 es = some out ∧
      (txVals out).length ≤ (if passesRetries rt.form then a.retries else 5) ∧
      (∀ x ∈ txVals out, x = meantValue rt.method a) ∧
      (∀ i (hi : i + 1 < (txTimes out).length),
        (txTimes out)[i] + (if passesTimeout rt.owner rt.form then a.timeout else 5000) ≤ (txTimes out)[i + 1]) := by
  have hf := route_forwards rt h a
  have d := defaults
  simp only [traceVia, hf, meant]
  refine ⟨_, rfl, ?_, tx_value s0 h0 _ _ _ es, ?_⟩
  · have := tx_count s0 h0 (meantValue rt.method a) (if passesRetries rt.form then a.retries else defaultRetries)
      (if passesTimeout rt.owner rt.form then a.timeout else defaultTimeoutMs) es
    rw [d.1] at this; exact this
  · have := (tx_spacing s0 h0 (meantValue rt.method a) (if passesRetries rt.form then a.retries else defaultRetries)
      (if passesTimeout rt.owner rt.form then a.timeout else defaultTimeoutMs) es).2
    rw [d.2] at this; exact this

example : traceVia ⟨"MixerNumber", 0, 1, 2, 1, 2, 3⟩ ⟨45, 1, 1200, 0⟩ (init ⟨10, 0, 100⟩ true false 0) [.timer, .timer]
    = some [.txSet 45 0, .ret false 1200] := by decide

end PlumVerif.C08

import PlumVerif.Proofs.Dataset
/-
C07 — a write targets exactly the controller slot the parameter was read from.

Model: `Model/Dataset.lean` (decoders, handlers, request builders).  The tables are re-extracted
from the source on every run; `names_unique_*`, `reserved_names`, `schedule_names` are re-proved
against them.  Thermostat offsets are correct only for blocks without undefined holes (open
finding F3): `thermostat_offset_partial`, with `thermostat_offset_full_false` as the witness.
-/
namespace PlumVerif.C07
open PlumVerif PlumVerif.Dataset PlumVerif.Scaling

/-! ### the tables: names are unique, so name <-> position is a bijection on each table -/

theorem names_unique_ecomaxP : (Gen.ecomaxP.map (·.name)).Nodup := by decide +kernel
theorem names_unique_ecomaxI : (Gen.ecomaxI.map (·.name)).Nodup := by decide +kernel
theorem names_unique_mixerP : (Gen.mixerP.map (·.name)).Nodup := by decide +kernel
theorem names_unique_mixerI : (Gen.mixerI.map (·.name)).Nodup := by decide +kernel
theorem names_unique_thermostat : (Gen.thermostat.map (·.name)).Nodup := by decide +kernel
theorem names_unique_scheduleParams : (Gen.scheduleParams.map (·.name)).Nodup := by decide +kernel
theorem names_unique_schedules : Gen.schedules.Nodup := by decide +kernel

theorem names_unique (pt : Product) (k : TKind) : ((tableOf pt k).map (·.name)).Nodup := by
  cases pt <;> cases k <;> simp only [tableOf] <;>
    first
    | exact names_unique_ecomaxP | exact names_unique_ecomaxI | exact names_unique_mixerP
    | exact names_unique_mixerI | exact names_unique_thermostat | exact names_unique_scheduleParams
    | simp

/-- within a table, two positions whose descriptions carry the same name are the same position -/
theorem name_index_bijection (pt : Product) (k : TKind) {i j : Nat} {a b : Gen.Desc}
    (hi : (tableOf pt k)[i]? = some a) (hj : (tableOf pt k)[j]? = some b) (h : a.name = b.name) : i = j := by
  have hn := names_unique pt k
  obtain ⟨hil, hia⟩ := List.getElem?_eq_some_iff.mp hi
  obtain ⟨hjl, hjb⟩ := List.getElem?_eq_some_iff.mp hj
  have hi' : i < ((tableOf pt k).map (·.name)).length := by simpa using hil
  have hj' : j < ((tableOf pt k).map (·.name)).length := by simpa using hjl
  have : ((tableOf pt k).map (·.name))[i] = ((tableOf pt k).map (·.name))[j] := by
    simp [List.getElem_map, hia, hjb, h]
  exact (List.getElem_inj (h₀ := hi') (h₁ := hj') hn).mp this

/-- the control switch and the thermostat profile share the controller's dataset and the classes
EcomaxSwitch / EcomaxNumber with the table parameters: no table row uses their names -/
theorem reserved_names : ∀ d ∈ Gen.ecomaxP ++ Gen.ecomaxI,
    d.name ≠ Gen.ecomaxControl.name ∧ d.name ≠ Gen.thermostatProfile.name := by decide +kernel

/-- schedule parameter 2s / 2s+1 is the switch / the parameter of schedule s -/
theorem schedule_names : ∀ i < Gen.scheduleParams.length,
    Gen.scheduleParams[i]?.map (·.name) =
      Gen.schedules[i / 2]?.map (· ++ if i % 2 = 0 then suffixSwitch else suffixParameter) := by
  decide +kernel

theorem schedule_table_length : Gen.scheduleParams.length = 2 * Gen.schedules.length := by decide

/-! ### index preserved, for every history of responses and sets -/

/-- **index_preserved**: after ANY sequence of parameter responses, availability reports, state
reports and accepted sets, every named parameter of every device records a position of its own
family's table whose description carries exactly that name; controller-level parameters are not
mixer/thermostat parameters, mixer `m`'s are mixer parameters owned by `m`, thermostat `t`'s
likewise. -/
theorem index_preserved (pt : Product) (evs : List Event) : WorldOK pt (run pt {} evs).1 :=
  run_ok evs {} (init_ok pt)

example : ∃ e ∈ (run .I {} [.ecomaxParams [0, 42, 2, 1, 0, 9, 7, 1, 9]]).1.ecomax,
    Gen.ecomaxI[42]?.map (·.name) = some e.name ∧ e.index = 42 ∧ e.triple = ⟨1, 0, 9⟩ := by decide +kernel

/-- an existing parameter of the same class is updated in place: index, offset, owner kept -/
theorem update_keeps_index {old ds : DS} {new e : Entry} (hf : find old new.name = some e)
    (hc : sameClass e new = true) :
    find (upsert old ds new) new.name = some { e with triple := new.triple } := by
  have hr : upsertResult old new = { e with triple := new.triple } := by
    simp [upsertResult, hf, hc]
  have hn : new.name = (upsertResult old new).name := (upsertResult_name old new).symm
  rw [upsert_eq, hn, find_setEntry_self, hr]

/-! ### positions without description are inert -/

/-- ecoMAX: a position beyond the table is skipped; the rest of the response is processed as if
it were not there (fix a46bd66) -/
theorem unknown_inert_ecomax (pt : Product) (old ds : DS) (pos : Nat) (t : Triple) (rest : List (Nat × Triple))
    (h : (tableOf pt .ecomax).length ≤ pos) :
    applyEcomaxItems pt old ds ((pos, t) :: rest) = applyEcomaxItems pt old ds rest := by
  have : (tableOf pt .ecomax)[pos]? = none := List.getElem?_eq_none h
  simp [applyEcomaxItems, this]

/-- ecoMAX: a response consisting of unknown positions only changes nothing -/
theorem unknown_inert_ecomax_all (pt : Product) (old : DS) :
    ∀ (items : List (Nat × Triple)) (ds : DS), (∀ it ∈ items, (tableOf pt .ecomax).length ≤ it.1) →
      applyEcomaxItems pt old ds items = ds := by
  intro items
  induction items with
  | nil => intro ds _; rfl
  | cons it rest ih =>
    intro ds h
    obtain ⟨pos, t⟩ := it
    rw [unknown_inert_ecomax pt old ds pos t rest (h (pos, t) (by simp))]
    exact ih ds (fun it hit => h it (by simp [hit]))

/-- mixer: the first position beyond the table ends the processing of that mixer's block -/
theorem unknown_inert_mixer (pt : Product) (m : Nat) (old ds : DS) (pos : Nat) (t : Triple)
    (rest : List (Nat × Triple)) (h : (tableOf pt .mixer).length ≤ pos) :
    applyMixerItems pt m old ds ((pos, t) :: rest) = ds := by
  have : (tableOf pt .mixer)[pos]? = none := List.getElem?_eq_none h
  simp [applyMixerItems, this]

theorem decodeTBlock_unknown (msg : List Byte) (tbl : List Gen.Desc) :
    ∀ (n off pos : Nat), 0 < n → tbl.length < pos + n → decodeTBlock msg tbl off pos n = none := by
  intro n
  induction n with
  | zero => intro off pos h0 h; omega
  | succ n ih =>
    intro off pos _ h
    unfold decodeTBlock
    split
    · rfl
    · next d hd =>
      have hp : pos < tbl.length := (List.getElem?_eq_some_iff.mp hd).1
      rw [ih _ (pos + 1) (by omega) (by omega)]

/-- thermostat: a response whose per-thermostat range reaches a position beyond the table cannot be
decoded at all: the world is unchanged (no parameter created, overwritten or re-indexed) -/
theorem unknown_inert_thermostat (pt : Product) (w : World) (msg : List Byte) (start count : Byte)
    (h1 : msg[1]? = some start) (h2 : msg[2]? = some count)
    (hsome : 0 < slotsPer start.toNat count.toNat w.tAvail)
    (hbeyond : Gen.thermostat.length < start.toNat + slotsPer start.toNat count.toNat w.tAvail) :
    (step pt w (.thermostatParams msg)).1 = w := by
  simp only [step]
  split
  · rfl
  · next hT =>
    have hdec : decodeThermostats msg w.tAvail = none := by
      unfold decodeThermostats
      simp only [h1, h2, Option.bind_eq_bind, Option.bind_some]
      obtain ⟨T, hT'⟩ : ∃ T, w.tAvail = T + 1 := ⟨w.tAvail - 1, by omega⟩
      rw [hT']
      unfold decodeTBlocks
      rw [decodeTBlock_unknown _ _ _ _ _ (by rw [← hT']; exact hsome) (by rw [← hT']; exact hbeyond)]
      rfl
    rw [hdec]

/-- schedule: a response containing an index without description dispatches nothing — every
parameter afterwards is a parameter that existed before, with at most its triple changed: nothing is
created and nothing is re-indexed -/
theorem unknown_inert_schedule (old : DS) (items : List (Nat × Triple))
    (h : allKnown Gen.scheduleParams items = false) :
    ∀ e ∈ applyScheduleItems old items old, ∃ e0 ∈ old, e = { e0 with triple := e.triple } := by
  unfold applyScheduleItems
  simp only [h]
  apply foldl_inv (P := fun e => ∃ e0 ∈ old, e = { e0 with triple := e.triple })
  · intro ds a hds
    split
    · exact all_updateOnly (P := fun e => ∃ e0 ∈ old, e = { e0 with triple := e.triple })
        (fun e t ⟨e0, h0, he⟩ => ⟨e0, h0, by rw [he]⟩) (fun e he => ⟨e, he, rfl⟩) hds
    · exact hds
  · exact fun e he => ⟨e, he, rfl⟩

/-! ### request addressing -/

/-- a parameter held by a device of the world -/
def Holds (w : World) (dev : Dev) (e : Entry) : Prop := ∃ ds, w.ds dev = some ds ∧ e ∈ ds

theorem holds_cases {pt : Product} {w : World} (hw : WorldOK pt w) {dev : Dev} {e : Entry} (h : Holds w dev e) :
    EntryOK pt e ∧ match dev with
      | .ecomax => OnEcomax e
      | .mixer m => OnMixer m e
      | .thermostat t => OnThermostat t e := by
  obtain ⟨ds, hds, he⟩ := h
  cases dev with
  | ecomax =>
    simp only [World.ds, Option.some.injEq] at hds
    subst hds
    exact hw.eco e he
  | mixer i =>
    simp only [World.ds, Option.map_eq_some_iff] at hds
    obtain ⟨p, hp, rfl⟩ := hds
    have hpi : p.1 = i := by simpa using List.find?_some hp
    exact hpi ▸ hw.mix p (List.mem_of_find?_eq_some hp) e he
  | thermostat i =>
    simp only [World.ds, Option.map_eq_some_iff] at hds
    obtain ⟨p, hp, rfl⟩ := hds
    have hpi : p.1 = i := by simpa using List.find?_some hp
    exact hpi ▸ hw.thr p (List.mem_of_find?_eq_some hp) e he

/-- **request addressing**: in every world reachable by any history, the set request of a
parameter held by a device carries the recorded position, which is a position of its family's
table described under the parameter's name:
ecoMAX `[i, v]`; mixer `m`: `[m, i, v]`; thermostat: `[i + 1 + offset] ++ LE(v, size)`;
controller on/off: the control request `[v]`; thermostat profile: thermostat slot 0, one byte;
schedule switch / parameter: the set-schedule request of schedule `i / 2`, whose name is the
parameter's name without its suffix. -/
theorem request_addresses (pt : Product) (evs : List Event) {dev : Dev} {e : Entry} {r : Req}
    (he : Holds (run pt {} evs).1 dev e) (hr : requestOf (run pt {} evs).1 e = some r) :
    ∃ d, (tableOf pt e.kind)[e.index]? = some d ∧ d.name = e.name ∧
      match e.kind with
      | .ecomax => dev = .ecomax ∧ r = ⟨.setEcomax, [e.index, e.triple.value]⟩
      | .mixer => dev = .mixer e.devIndex ∧ r = ⟨.setMixer, [e.devIndex, e.index, e.triple.value]⟩
      | .thermostat => dev = .thermostat e.devIndex ∧
          r = ⟨.setThermostat, (e.index + 1 + e.offset) :: leBytes e.triple.value d.size⟩
      | .control => dev = .ecomax ∧ r = ⟨.ecomaxControl, [e.triple.value]⟩
      | .profile => dev = .ecomax ∧ r = ⟨.setThermostat, [0, e.triple.value]⟩
      | .schedule => dev = .ecomax ∧ ∃ sname sw par bits, Gen.schedules[e.index / 2]? = some sname ∧
          e.name = sname ++ (if e.index % 2 = 0 then suffixSwitch else suffixParameter) ∧
          r = ⟨.setSchedule, [1, e.index / 2, sw, par] ++ bits⟩ := by
  have hw := index_preserved pt evs
  generalize (run pt {} evs).1 = w at *
  obtain ⟨⟨d, hd, hname, _, hsize⟩, hdev⟩ := holds_cases hw he
  refine ⟨d, hd, hname, ?_⟩
  cases hk : e.kind with
  | ecomax =>
    have hdev' : dev = .ecomax := by
      cases dev with
      | ecomax => rfl
      | mixer m => simp only [OnMixer] at hdev; rw [hk] at hdev; exact absurd hdev.1 (by decide)
      | thermostat t => simp only [OnThermostat] at hdev; rw [hk] at hdev; exact absurd hdev.1 (by decide)
    simp only [requestOf, hk] at hr
    split at hr
    · simp only [Option.some.injEq] at hr; exact ⟨hdev', hr.symm⟩
    · cases hr
  | mixer =>
    have hdev' : dev = .mixer e.devIndex := by
      cases dev with
      | ecomax => simp only [OnEcomax] at hdev; exact absurd hk hdev.1
      | mixer m => simp only [OnMixer] at hdev; rw [hdev.2.1]
      | thermostat t => simp only [OnThermostat] at hdev; rw [hk] at hdev; exact absurd hdev.1 (by decide)
    simp only [requestOf, hk] at hr
    split at hr
    · simp only [Option.some.injEq] at hr; exact ⟨hdev', hr.symm⟩
    · cases hr
  | thermostat =>
    have hdev' : dev = .thermostat e.devIndex := by
      cases dev with
      | ecomax => simp only [OnEcomax] at hdev; exact absurd hk hdev.2.1
      | mixer m => simp only [OnMixer] at hdev; rw [hk] at hdev; exact absurd hdev.1 (by decide)
      | thermostat t => simp only [OnThermostat] at hdev; rw [hdev.2]
    simp only [requestOf, hk] at hr
    split at hr
    · simp only [Option.some.injEq] at hr; exact ⟨hdev', by rw [hsize]; exact hr.symm⟩
    · cases hr
  | control =>
    have hdev' : dev = .ecomax := by
      cases dev with
      | ecomax => rfl
      | mixer m => simp only [OnMixer] at hdev; rw [hk] at hdev; exact absurd hdev.1 (by decide)
      | thermostat t => simp only [OnThermostat] at hdev; rw [hk] at hdev; exact absurd hdev.1 (by decide)
    simp only [requestOf, hk] at hr
    split at hr
    · simp only [Option.some.injEq] at hr; exact ⟨hdev', hr.symm⟩
    · cases hr
  | profile =>
    have hdev' : dev = .ecomax := by
      cases dev with
      | ecomax => rfl
      | mixer m => simp only [OnMixer] at hdev; rw [hk] at hdev; exact absurd hdev.1 (by decide)
      | thermostat t => simp only [OnThermostat] at hdev; rw [hk] at hdev; exact absurd hdev.1 (by decide)
    have hi : e.index = 0 := by
      rw [hk] at hd
      simp only [tableOf] at hd
      have := (List.getElem?_eq_some_iff.mp hd).1
      simpa using this
    simp only [requestOf, hk] at hr
    split at hr
    · simp only [Option.some.injEq] at hr; exact ⟨hdev', by rw [← hi]; exact hr.symm⟩
    · cases hr
  | schedule =>
    have hdev' : dev = .ecomax := by
      cases dev with
      | ecomax => rfl
      | mixer m => simp only [OnMixer] at hdev; rw [hk] at hdev; exact absurd hdev.1 (by decide)
      | thermostat t => simp only [OnThermostat] at hdev; rw [hk] at hdev; exact absurd hdev.1 (by decide)
    refine ⟨hdev', ?_⟩
    rw [hk] at hd
    simp only [tableOf] at hd
    have hlt := (List.getElem?_eq_some_iff.mp hd).1
    have hsn := schedule_names e.index hlt
    rw [hd] at hsn
    simp only [requestOf, hk] at hr
    split at hr
    · cases hr
    · next sname hs =>
      rw [hs] at hsn
      simp only [Option.map_some, Option.some.injEq] at hsn
      split at hr
      · next sw par _ bits _ _ _ =>
        split at hr
        · simp only [Option.some.injEq] at hr
          exact ⟨sname, sw.triple.value, par.triple.value, bits.map (·.toNat), hs, by rw [← hname, hsn], hr.symm⟩
        · cases hr
      · cases hr

example : (run .P {} [.mixerParams [0, 0, 2, 2, 1, 0, 9, 2, 0, 9, 3, 0, 9, 4, 0, 9],
      .set (.mixer 1) ((Gen.mixerP[1]?.map (·.name)).getD "") 5]).2 = [.req ⟨.setMixer, [1, 1, 5]⟩] := by decide +kernel

/-! ### read slot = write slot, end to end for the ecoMAX block -/

theorem decodeBlock_pos (msg : List Byte) :
    ∀ (n off pos : Nat), ∀ it ∈ decodeBlock msg off pos n, pos ≤ it.1 ∧ it.1 < pos + n := by
  intro n
  induction n with
  | zero => intro off pos it h; simp [decodeBlock] at h
  | succ n ih =>
    intro off pos it h
    unfold decodeBlock at h
    rcases List.mem_append.mp h with h | h
    · split at h
      · simp only [List.mem_singleton] at h; subst h; simp
      · cases h
    · have := ih _ _ it h; omega

theorem find_applyEcomax_other (pt : Product) (old : DS) (n : String) :
    ∀ (items : List (Nat × Triple)) (ds : DS),
      (∀ it ∈ items, ∀ d, (tableOf pt .ecomax)[it.1]? = some d → d.name ≠ n) →
      find (applyEcomaxItems pt old ds items) n = find ds n := by
  intro items
  induction items with
  | nil => intro ds _; rfl
  | cons it rest ih =>
    intro ds h
    obtain ⟨pos, t⟩ := it
    unfold applyEcomaxItems
    split
    · exact ih ds (fun it hit => h it (by simp [hit]))
    · next d hd =>
      rw [ih _ (fun it hit => h it (by simp [hit])), upsert_eq, find_setEntry_ne]
      rw [upsertResult_name]
      exact h (pos, t) (by simp) d hd

theorem read_slot_block (pt : Product) (old : DS) (msg : List Byte) :
    ∀ (n off pos0 : Nat) (ds : DS) (pos : Nat) (t : Triple), (pos, t) ∈ decodeBlock msg off pos0 n →
      ∀ d, (tableOf pt .ecomax)[pos]? = some d →
      find (applyEcomaxItems pt old ds (decodeBlock msg off pos0 n)) d.name =
        some (upsertResult old (newEntry .ecomax d pos t 0 0)) := by
  intro n
  induction n with
  | zero => intro off pos0 ds pos t h; simp [decodeBlock] at h
  | succ n ih =>
    intro off pos0 ds pos t h d hd
    unfold decodeBlock at h ⊢
    cases hu : unpack msg off 1 with
    | none =>
      simp only [hu, List.nil_append] at h ⊢
      exact ih _ _ ds pos t h d hd
    | some t0 =>
      simp only [hu, List.singleton_append, List.mem_cons] at h ⊢
      unfold applyEcomaxItems
      rcases h with h | h
      · obtain ⟨rfl, rfl⟩ := Prod.mk.inj h
        simp only [hd]
        rw [find_applyEcomax_other, upsert_eq]
        · have := find_setEntry_self ds (upsertResult old (newEntry .ecomax d pos t 0 0))
          rwa [upsertResult_name] at this
        · intro it hit d' hd' heq
          have := (decodeBlock_pos msg _ _ _ it hit).1
          have := name_index_bijection pt .ecomax hd' hd heq
          omega
      · split
        · exact ih _ _ ds pos t h d hd
        · exact ih _ _ _ pos t h d hd

/-- **read slot = write slot (ecoMAX)**: after an ecoMAX parameters response arrives in any
reachable world, the triple decoded from the slot of a described position `pos` is held under the
name of that position's description, by a parameter whose recorded index is `pos` — whether the
parameter was created by this response or updated (create then update).  Uses `names_unique`,
`reserved_names` and the world invariant. -/
theorem read_slot_ecomax (pt : Product) (w : World) (hw : WorldOK pt w) (msg : List Byte)
    (items : List (Nat × Triple)) (hdec : decodeEcomax msg = some items)
    (pos : Nat) (t : Triple) (hmem : (pos, t) ∈ items) (d : Gen.Desc)
    (hd : (tableOf pt .ecomax)[pos]? = some d) :
    ∃ e, find (step pt w (.ecomaxParams msg)).1.ecomax d.name = some e ∧
      e.index = pos ∧ e.triple = t ∧ e.kind = .ecomax ∧ e.name = d.name := by
  have hdec' := hdec
  unfold decodeEcomax at hdec'
  cases h1 : msg[1]? with
  | none => simp [h1] at hdec'
  | some start =>
    cases h2 : msg[2]? with
    | none => simp [h1, h2] at hdec'
    | some count =>
      simp only [h1, h2, Option.bind_eq_bind, Option.bind_some, Option.pure_def, Option.some.injEq] at hdec'
      subst hdec'
      simp only [step, hdec]
      rw [read_slot_block pt w.ecomax msg _ _ _ _ pos t hmem d hd]
      refine ⟨_, rfl, ?_⟩
      unfold upsertResult
      cases hf : find w.ecomax (newEntry .ecomax d pos t 0 0).name with
      | none => simp [newEntry]
      | some e0 =>
        simp only []
        split
        · next hc =>
          obtain ⟨hm0, hn0⟩ := find_some hf
          obtain ⟨⟨d0, hd0, hdn0, _, _⟩, hon⟩ := hw.eco e0 hm0
          have hn0' : e0.name = d.name := hn0
          have hdmem : d ∈ Gen.ecomaxP ++ Gen.ecomaxI := by
            have := List.mem_of_getElem? hd
            cases pt <;> simp only [tableOf] at this <;> simp [this]
          have hres := reserved_names d hdmem
          have hk : e0.kind = .ecomax := by
            simp only [sameClass, newEntry, Bool.and_eq_true, beq_iff_eq] at hc
            cases hk : e0.kind with
            | ecomax => rfl
            | mixer => rw [hk] at hc; exact absurd hc.1 (by decide)
            | thermostat => rw [hk] at hc; exact absurd hc.1 (by decide)
            | schedule => rw [hk] at hc; exact absurd hc.1 (by decide)
            | control =>
              rw [hk] at hd0
              simp only [tableOf] at hd0
              have : d0 = Gen.ecomaxControl := by
                have := List.mem_of_getElem? hd0
                simpa using this
              exact absurd (by rw [← hn0', ← hdn0, this]) hres.1
            | profile =>
              rw [hk] at hd0
              simp only [tableOf] at hd0
              have : d0 = Gen.thermostatProfile := by
                have := List.mem_of_getElem? hd0
                simpa using this
              exact absurd (by rw [← hn0', ← hdn0, this]) hres.2
          rw [hk] at hd0
          have hidx : e0.index = pos := name_index_bijection pt .ecomax hd0 hd (by rw [hdn0, hn0'])
          exact ⟨hidx, rfl, hk, hn0'⟩
        · simp [newEntry]

/-! ### thermostat offsets (open finding F3) -/

/-- a thermostat's block never yields more items than it has slots; it yields exactly `per` items
iff none of its `per` slots is an undefined hole -/
theorem block_items_le (msg : List Byte) (tbl : List Gen.Desc) :
    ∀ (n off pos : Nat) (items : List (Nat × Triple)) (o : Nat),
      decodeTBlock msg tbl off pos n = some (items, o) → items.length ≤ n := by
  intro n
  induction n with
  | zero => intro off pos items o h; simp [decodeTBlock] at h; simp [h.1.symm]
  | succ n ih =>
    intro off pos items o h
    unfold decodeTBlock at h
    split at h
    · cases h
    · next d _ =>
      split at h
      · cases h
      · next rest o' hrec =>
        simp only [Option.some.injEq, Prod.mk.injEq] at h
        have := ih _ _ _ _ hrec
        rw [← h.1]
        split <;> simp <;> omega

theorem applyThermostats_offsets {per : Nat} :
    ∀ (blocks : List (Nat × List (Nat × Triple))) (ths : List (Nat × DS)),
      (∀ p ∈ ths, ∀ e ∈ p.2, e.offset = p.1 * per) → (∀ b ∈ blocks, b.2.length = per) →
      ∀ p ∈ applyThermostats ths blocks, ∀ e ∈ p.2, e.offset = p.1 * per := by
  intro blocks
  induction blocks with
  | nil => intro ths h _; exact h
  | cons b rest ih =>
    intro ths h hb
    obtain ⟨t, items⟩ := b
    unfold applyThermostats
    apply ih _ _ (fun b hb' => hb b (by simp [hb']))
    apply updDev_inv (Q := fun i ds => ∀ e ∈ ds, e.offset = i * per) h
    · intro ds hds
      have hlen : items.length = per := hb (t, items) (by simp)
      exact applyThermostatItems_inv (P := fun e => e.offset = t * per) (fun e t h => h)
        (fun d pos tr _ => by simp [newEntry, hlen]) hds items ds hds
    · intro e he; cases he

/-- the full statement: every thermostat parameter's offset is its thermostat's index times the
number of slots per thermostat -/
def thermostat_offset_full : Prop :=
  ∀ (pt : Product) (T : Nat) (msg : List Byte) (start count : Byte),
    msg[1]? = some start → msg[2]? = some count →
    ∀ p ∈ (step pt { tAvail := T } (.thermostatParams msg)).1.thermostats, ∀ e ∈ p.2,
      e.offset = p.1 * slotsPer start.toNat count.toNat T

/-- **thermostat_offset_partial**: proved when no block of the response has an undefined hole
(every block yields as many items as it has slots), for any prior world whose thermostat
parameters already have correct offsets.  What is missing: blocks with holes (F3). -/
theorem thermostat_offset_partial (pt : Product) (w : World) (msg : List Byte) (per : Nat)
    (profile : Option Triple) (blocks : List (Nat × List (Nat × Triple)))
    (hdec : decodeThermostats msg w.tAvail = some (profile, blocks))
    (hnoholes : ∀ b ∈ blocks, b.2.length = per)
    (hw : ∀ p ∈ w.thermostats, ∀ e ∈ p.2, e.offset = p.1 * per) :
    ∀ p ∈ (step pt w (.thermostatParams msg)).1.thermostats, ∀ e ∈ p.2, e.offset = p.1 * per := by
  simp only [step]
  split
  · exact hw
  · rw [hdec]
    exact applyThermostats_offsets blocks _ hw hnoholes

/-- payload of the F3 witness, built from the table's own slot widths: two thermostats, positions
0 and 1 each; position 0 of thermostat 1 is an undefined hole -/
def f3Witness : List Byte :=
  let w (k : Nat) : Nat := 3 * ((Gen.thermostat[k]?.map (·.size)).getD 1)
  [0, 0, 5] ++ [1, 0, 5] ++ List.replicate (w 0) 1 ++ List.replicate (w 1) 1 ++
    List.replicate (w 0) 255 ++ List.replicate (w 1) 1

/-- the witness of F3: thermostat 1's only defined parameter gets offset 1 × 1 instead of 1 × 2,
so its write goes one slot too low -/
theorem thermostat_offset_full_false : ¬ thermostat_offset_full := by
  intro h
  have hw : ∃ p ∈ (step .P { tAvail := 2 } (.thermostatParams f3Witness)).1.thermostats,
      ∃ e ∈ p.2, e.offset ≠ p.1 * slotsPer 0 5 2 := by decide +kernel
  obtain ⟨p, hp, e, he, hne⟩ := hw
  exact hne (h .P 2 f3Witness 0 5 (by decide +kernel) (by decide +kernel) p hp e he)

end PlumVerif.C07

import PlumVerif.Proofs.DatasetDecode
import PlumVerif.Props.C05Params
/-
C07 — a write targets exactly the controller slot the parameter was read from.

Model: `Model/Dataset.lean` (decoders, handlers, request builders).  The tables are re-extracted
from the source on every run; `names_unique_*`, `reserved_names`, `schedule_names` are re-proved
against them.  Thermostat offsets are correct only for blocks without undefined holes (open
finding F3): `thermostat_offset_partial`, with `thermostat_offset_full_false` as the witness.
-/
namespace PlumVerif.C07
open PlumVerif PlumVerif.Dataset PlumVerif.Scaling

/-! ### the tables: names are unique, so name <-> position is a bijection on each table -/

theorem names_unique_ecomaxP : (Gen.ecomaxP.map (·.name)).Nodup := by decide +kernel
theorem names_unique_ecomaxI : (Gen.ecomaxI.map (·.name)).Nodup := by decide +kernel
theorem names_unique_mixerP : (Gen.mixerP.map (·.name)).Nodup := by decide +kernel
theorem names_unique_mixerI : (Gen.mixerI.map (·.name)).Nodup := by decide +kernel
theorem names_unique_thermostat : (Gen.thermostat.map (·.name)).Nodup := by decide +kernel
theorem names_unique_scheduleParams : (Gen.scheduleParams.map (·.name)).Nodup := by decide +kernel
theorem names_unique_schedules : Gen.schedules.Nodup := by decide +kernel

theorem names_unique (pt : Product) (k : TKind) : ((tableOf pt k).map (·.name)).Nodup := by
  cases pt <;> cases k <;> simp only [tableOf] <;>
    first
    | exact names_unique_ecomaxP | exact names_unique_ecomaxI | exact names_unique_mixerP
    | exact names_unique_mixerI | exact names_unique_thermostat | exact names_unique_scheduleParams
    | simp

/-- within a table, two positions whose descriptions carry the same name are the same position -/
theorem name_index_bijection (pt : Product) (k : TKind) {i j : Nat} {a b : Gen.Desc}
    (hi : (tableOf pt k)[i]? = some a) (hj : (tableOf pt k)[j]? = some b) (h : a.name = b.name) : i = j := by
  have hn := names_unique pt k
  obtain ⟨hil, hia⟩ := List.getElem?_eq_some_iff.mp hi
  obtain ⟨hjl, hjb⟩ := List.getElem?_eq_some_iff.mp hj
  have hi' : i < ((tableOf pt k).map (·.name)).length := by simpa using hil
  have hj' : j < ((tableOf pt k).map (·.name)).length := by simpa using hjl
  have : ((tableOf pt k).map (·.name))[i] = ((tableOf pt k).map (·.name))[j] := by
    simp [List.getElem_map, hia, hjb, h]
  exact (List.getElem_inj (h₀ := hi') (h₁ := hj') hn).mp this

/-- the control switch and the thermostat profile share the controller's dataset and the classes
EcomaxSwitch / EcomaxNumber with the table parameters: no table row uses their names -/
theorem reserved_names : ∀ d ∈ Gen.ecomaxP ++ Gen.ecomaxI,
    d.name ≠ Gen.ecomaxControl.name ∧ d.name ≠ Gen.thermostatProfile.name := by decide +kernel

/-- schedule parameter 2s / 2s+1 is the switch / the parameter of schedule s -/
theorem schedule_names : ∀ i < Gen.scheduleParams.length,
    Gen.scheduleParams[i]?.map (·.name) =
      Gen.schedules[i / 2]?.map (· ++ if i % 2 = 0 then suffixSwitch else suffixParameter) := by
  decide +kernel

/-- **schedule_split_agrees**: every schedule-parameter name splits back (`split("_schedule_", 1)[0]`,
then `SCHEDULES.index`) to its own schedule: position `i` of the parameter table belongs to schedule `i / 2` -/
theorem schedule_split_agrees : ∀ i < Gen.scheduleParams.length,
    (Gen.scheduleParams[i]?.bind (fun d => scheduleIndex d.name)) = some (i / 2) := by decide +kernel

theorem scheduleIndex_of_row {i : Nat} {d : Gen.Desc} (h : Gen.scheduleParams[i]? = some d) :
    scheduleIndex d.name = some (i / 2) := by
  have := schedule_split_agrees i (List.getElem?_eq_some_iff.mp h).1
  rw [h] at this
  simpa using this

theorem schedule_table_length : Gen.scheduleParams.length = 2 * Gen.schedules.length := by decide

/-! ### index preserved, for every history of responses and sets -/

/-- **index_preserved**: after ANY sequence of parameter responses, availability reports, state
reports and accepted sets, every named parameter of every device records a position of its own
family's table whose description carries exactly that name; controller-level parameters are not
mixer/thermostat parameters, mixer `m`'s are mixer parameters owned by `m`, thermostat `t`'s
likewise. -/
theorem index_preserved (pt : Product) (evs : List Event) : WorldOK pt (run pt {} evs).1 :=
  run_ok evs {} (init_ok pt)

example : ∃ e ∈ (run .I {} [.uid, .ecomaxParams [0, 42, 2, 1, 0, 9, 7, 1, 9]]).1.ecomax,
    Gen.ecomaxI[42]?.map (·.name) = some e.name ∧ e.index = 42 ∧ e.triple = ⟨1, 0, 9⟩ := by decide +kernel

/-- an existing parameter of the same class is updated in place: index, offset, owner kept -/
theorem update_keeps_index {old ds : DS} {new e : Entry} (hf : find old new.name = some e)
    (hc : sameClass e new = true) :
    find (upsert old ds new) new.name = some { e with triple := new.triple } := by
  have hr : upsertResult old new = { e with triple := new.triple } := by
    simp [upsertResult, hf, hc]
  have hn : new.name = (upsertResult old new).name := (upsertResult_name old new).symm
  rw [upsert_eq, hn, find_setEntry_self, hr]

/-! ### positions without description are inert -/

/-- ecoMAX: a position beyond the table is skipped; the rest of the response is processed as if
it were not there (fix a46bd66) -/
theorem unknown_inert_ecomax (pt : Product) (old ds : DS) (pos : Nat) (t : P2.Triple) (rest : P2.Params)
    (h : (tableOf pt .ecomax).length ≤ pos) :
    applyEcomaxItems pt old ds ((pos, t) :: rest) = applyEcomaxItems pt old ds rest := by
  have : (tableOf pt .ecomax)[pos]? = none := List.getElem?_eq_none h
  simp [applyEcomaxItems, applyItems, this]

/-- ecoMAX: a response consisting of unknown positions only changes nothing -/
theorem unknown_inert_ecomax_all (pt : Product) (old : DS) :
    ∀ (items : P2.Params) (ds : DS), (∀ it ∈ items, (tableOf pt .ecomax).length ≤ it.1) →
      applyEcomaxItems pt old ds items = ds := by
  intro items
  induction items with
  | nil => intro ds _; rfl
  | cons it rest ih =>
    intro ds h
    obtain ⟨pos, t⟩ := it
    rw [unknown_inert_ecomax pt old ds pos t rest (h (pos, t) (by simp))]
    exact ih ds (fun it hit => h it (by simp [hit]))

/-- mixer: the first position beyond the table ends the processing of that mixer's block -/
theorem unknown_inert_mixer (pt : Product) (m : Nat) (old ds : DS) (pos : Nat) (t : P2.Triple)
    (rest : P2.Params) (h : (tableOf pt .mixer).length ≤ pos) :
    applyMixerItems pt m old ds ((pos, t) :: rest) = ds := by
  have : (tableOf pt .mixer)[pos]? = none := List.getElem?_eq_none h
  simp [applyMixerItems, applyItems, this]

/-- thermostat: a response whose per-thermostat range reaches a position beyond the table cannot be
decoded at all: the world is unchanged (no parameter created, overwritten or re-indexed) -/
theorem unknown_inert_thermostat (pt : Product) (w : World) (b0 start count : Byte) (r : List Byte)
    (hT : w.tAvail ≠ 0)
    (hsome : 0 < slotsPer start.toNat count.toNat w.tAvail)
    (hbeyond : Gen.thermostat.length < start.toNat + slotsPer start.toNat count.toNat w.tAvail) :
    (step pt w (.thermostatParams (b0 :: start :: count :: r))).1 = w := by
  obtain ⟨T, hT'⟩ : ∃ T, w.tAvail = T + 1 := ⟨w.tAvail - 1, by omega⟩
  have hsz : ∀ i, Gen.thermostat.length ≤ i → P2.thermoSize i = none := by
    intro i hi; simp [P2.thermoSize, List.getElem?_eq_none hi]
  obtain ⟨e, he⟩ := decodeRun_unknown P2.thermoSize _ hsz _ start.toNat (r.drop 3) hsome hbeyond
  have hdec : ∃ e, P2.decodeThermo (some w.tAvail) (b0 :: start :: count :: r) = .error e := by
    rw [hT']
    simp only [P2.decodeThermo]
    rw [← hT']
    rw [show P2.decodeBlocks P2.thermoSize start.toNat (P2.thermoPer start.toNat count.toNat w.tAvail) w.tAvail 0
          (r.drop 3) = .error e by
      rw [hT']; unfold P2.decodeBlocks; rw [← hT']; simp only [slotsPer] at he; rw [he]]
    exact ⟨_, rfl⟩
  obtain ⟨e', he'⟩ := hdec
  simp only [step, he']

/-- non-vacuity of `unknown_inert_thermostat`: one thermostat, a response announcing one position
more than the table has -/
example : (step .P { tAvail := 1 } (.thermostatParams [0, 0, (Gen.thermostat.length + 1).toUInt8])).1.thermostats = [] ∧
    0 < slotsPer 0 (Gen.thermostat.length + 1).toUInt8.toNat 1 ∧
    Gen.thermostat.length < 0 + slotsPer 0 (Gen.thermostat.length + 1).toUInt8.toNat 1 := by
  refine ⟨?_, by decide, by decide⟩
  rw [unknown_inert_thermostat .P { tAvail := 1 } 0 0 (Gen.thermostat.length + 1).toUInt8 [] (by decide) (by decide) (by decide)]

/-- schedule: a response containing an index without description dispatches nothing — every
parameter afterwards is a parameter that existed before, with at most its triple changed: nothing is
created and nothing is re-indexed -/
theorem unknown_inert_schedule (old : DS) (items : P2.Params)
    (h : allKnown Gen.scheduleParams items = false) :
    ∀ e ∈ applyScheduleItems old items old, ∃ e0 ∈ old, e = { e0 with triple := e.triple } := by
  unfold applyScheduleItems
  simp only [h]
  apply foldl_inv (P := fun e => ∃ e0 ∈ old, e = { e0 with triple := e.triple })
  · intro ds a hds
    split
    · exact all_updateOnly (P := fun e => ∃ e0 ∈ old, e = { e0 with triple := e.triple })
        (fun e t ⟨e0, h0, he⟩ => ⟨e0, h0, by rw [he]⟩) (fun e he => ⟨e, he, rfl⟩) hds
    · exact hds
  · exact fun e he => ⟨e, he, rfl⟩

/-! ### request addressing -/

/-- a parameter held by a device of the world -/
def Holds (w : World) (dev : Dev) (e : Entry) : Prop := ∃ ds, w.ds dev = some ds ∧ e ∈ ds

theorem holds_cases {pt : Product} {w : World} (hw : WorldOK pt w) {dev : Dev} {e : Entry} (h : Holds w dev e) :
    EntryOK pt e ∧ match dev with
      | .ecomax => OnEcomax e
      | .mixer m => OnMixer m e
      | .thermostat t => OnThermostat t e := by
  obtain ⟨ds, hds, he⟩ := h
  cases dev with
  | ecomax =>
    simp only [World.ds, Option.some.injEq] at hds
    subst hds
    exact hw.eco e he
  | mixer i =>
    simp only [World.ds, lookupDev, Option.map_eq_some_iff] at hds
    obtain ⟨p, hp, rfl⟩ := hds
    have hpi : p.1 = i := by simpa using List.find?_some hp
    exact hpi ▸ hw.mix p (List.mem_of_find?_eq_some hp) e he
  | thermostat i =>
    simp only [World.ds, lookupDev, Option.map_eq_some_iff] at hds
    obtain ⟨p, hp, rfl⟩ := hds
    have hpi : p.1 = i := by simpa using List.find?_some hp
    exact hpi ▸ hw.thr p (List.mem_of_find?_eq_some hp) e he

/-- **request addressing**: in every world reachable by any history, the set request of a
parameter held by a device carries the recorded position, which is a position of its family's
table described under the parameter's name:
ecoMAX `[i, v]`; mixer `m`: `[m, i, v]`; thermostat: `[i + 1 + offset] ++ LE(v, size)`;
controller on/off: the control request `[v]`; thermostat profile: thermostat slot 0, one byte;
schedule switch / parameter: the set-schedule request of schedule `i / 2`, whose name is the
parameter's name without its suffix. -/
theorem request_addresses (pt : Product) (evs : List Event) {dev : Dev} {e : Entry} {r : Req}
    (he : Holds (run pt {} evs).1 dev e) (hr : requestOf (run pt {} evs).1 e = some r) :
    ∃ d, (tableOf pt e.kind)[e.index]? = some d ∧ d.name = e.name ∧
      match e.kind with
      | .ecomax => dev = .ecomax ∧ r = ⟨.setEcomax, [e.index, e.triple.value]⟩
      | .mixer => dev = .mixer e.devIndex ∧ r = ⟨.setMixer, [e.devIndex, e.index, e.triple.value]⟩
      | .thermostat => dev = .thermostat e.devIndex ∧
          r = ⟨.setThermostat, (e.index + 1 + e.offset) :: leBytes e.triple.value d.size⟩
      | .control => dev = .ecomax ∧ r = ⟨.ecomaxControl, [e.triple.value]⟩
      | .profile => dev = .ecomax ∧ r = ⟨.setThermostat, [0, e.triple.value]⟩
      | .schedule => dev = .ecomax ∧ ∃ sname sw par bits, Gen.schedules[e.index / 2]? = some sname ∧
          e.name = sname ++ (if e.index % 2 = 0 then suffixSwitch else suffixParameter) ∧
          r = ⟨.setSchedule, [1, e.index / 2, sw, par] ++ bits⟩ := by
  have hw := index_preserved pt evs
  generalize (run pt {} evs).1 = w at *
  obtain ⟨⟨d, hd, hname, _, hsize⟩, hdev⟩ := holds_cases hw he
  refine ⟨d, hd, hname, ?_⟩
  cases hk : e.kind with
  | ecomax =>
    have hdev' : dev = .ecomax := by
      cases dev with
      | ecomax => rfl
      | mixer m => simp only [OnMixer] at hdev; rw [hk] at hdev; exact absurd hdev.1 (by decide)
      | thermostat t => simp only [OnThermostat] at hdev; rw [hk] at hdev; exact absurd hdev.1 (by decide)
    simp only [requestOf, hk] at hr
    split at hr
    · simp only [Option.some.injEq] at hr; exact ⟨hdev', hr.symm⟩
    · cases hr
  | mixer =>
    have hdev' : dev = .mixer e.devIndex := by
      cases dev with
      | ecomax => simp only [OnEcomax] at hdev; exact absurd hk hdev.1
      | mixer m => simp only [OnMixer] at hdev; rw [hdev.2.1]
      | thermostat t => simp only [OnThermostat] at hdev; rw [hk] at hdev; exact absurd hdev.1 (by decide)
    simp only [requestOf, hk] at hr
    split at hr
    · simp only [Option.some.injEq] at hr; exact ⟨hdev', hr.symm⟩
    · cases hr
  | thermostat =>
    have hdev' : dev = .thermostat e.devIndex := by
      cases dev with
      | ecomax => simp only [OnEcomax] at hdev; exact absurd hk hdev.2.1
      | mixer m => simp only [OnMixer] at hdev; rw [hk] at hdev; exact absurd hdev.1 (by decide)
      | thermostat t => simp only [OnThermostat] at hdev; rw [hdev.2]
    simp only [requestOf, hk] at hr
    split at hr
    · simp only [Option.some.injEq] at hr; exact ⟨hdev', by rw [hsize]; exact hr.symm⟩
    · cases hr
  | control =>
    have hdev' : dev = .ecomax := by
      cases dev with
      | ecomax => rfl
      | mixer m => simp only [OnMixer] at hdev; rw [hk] at hdev; exact absurd hdev.1 (by decide)
      | thermostat t => simp only [OnThermostat] at hdev; rw [hk] at hdev; exact absurd hdev.1 (by decide)
    simp only [requestOf, hk] at hr
    split at hr
    · simp only [Option.some.injEq] at hr; exact ⟨hdev', hr.symm⟩
    · cases hr
  | profile =>
    have hdev' : dev = .ecomax := by
      cases dev with
      | ecomax => rfl
      | mixer m => simp only [OnMixer] at hdev; rw [hk] at hdev; exact absurd hdev.1 (by decide)
      | thermostat t => simp only [OnThermostat] at hdev; rw [hk] at hdev; exact absurd hdev.1 (by decide)
    have hi : e.index = 0 := by
      rw [hk] at hd
      simp only [tableOf] at hd
      have := (List.getElem?_eq_some_iff.mp hd).1
      simpa using this
    simp only [requestOf, hk] at hr
    split at hr
    · simp only [Option.some.injEq] at hr; exact ⟨hdev', by rw [← hi]; exact hr.symm⟩
    · cases hr
  | schedule =>
    have hdev' : dev = .ecomax := by
      cases dev with
      | ecomax => rfl
      | mixer m => simp only [OnMixer] at hdev; rw [hk] at hdev; exact absurd hdev.1 (by decide)
      | thermostat t => simp only [OnThermostat] at hdev; rw [hk] at hdev; exact absurd hdev.1 (by decide)
    refine ⟨hdev', ?_⟩
    rw [hk] at hd
    simp only [tableOf] at hd
    have hlt := (List.getElem?_eq_some_iff.mp hd).1
    have hsn := schedule_names e.index hlt
    rw [hd] at hsn
    have hsi : scheduleIndex e.name = some (e.index / 2) := by rw [← hname]; exact scheduleIndex_of_row hd
    simp only [requestOf, hk, hsi] at hr
    split at hr
    · cases hr
    · next sname hs =>
      rw [hs] at hsn
      simp only [Option.map_some, Option.some.injEq] at hsn
      split at hr
      · next sw par _ days _ _ _ =>
        split at hr
        · simp only [Option.some.injEq] at hr
          exact ⟨sname, sw.triple.value, par.triple.value, (days.flatMap (P2.packBits 6)).map (·.toNat), hs,
            by rw [← hname, hsn], hr.symm⟩
        · cases hr
      · cases hr

example : (run .P {} [.uid, .mixerParams [0, 0, 2, 2, 1, 0, 9, 2, 0, 9, 3, 0, 9, 4, 0, 9],
      .set (.mixer 1) ((Gen.mixerP[1]?.map (·.name)).getD "") 5]).2 = [.req ⟨.setMixer, [1, 1, 5]⟩] := by decide +kernel

/-! ### read slot = write slot, for every parameter family

The decoders are C05's (`P2.decodeEcomax`, `decodeMixer`, `decodeThermo`, `decodeSched`): what they
return is what the dataset model consumes. -/

/-- what `upsert` stores for a described position of family `k`: name, family, index and triple are
those of the position, whether an existing parameter was updated or a new one created -/
theorem upsertResult_slot (pt : Product) (k : TKind) {old : DS} {d : Gen.Desc} {pos : Nat} {new : Entry}
    (hn : new.name = d.name) (hk : new.kind = k) (hi : new.index = pos)
    (hd : (tableOf pt k)[pos]? = some d) (hok : ∀ e ∈ old, EntryOK pt e)
    (hsep : ∀ e ∈ old, e.name = d.name → sameClass e new = true → e.kind = k) :
    (upsertResult old new).name = d.name ∧ (upsertResult old new).kind = k ∧
    (upsertResult old new).index = pos ∧ (upsertResult old new).triple = new.triple ∧
    ((upsertResult old new) = new ∨ ∃ e0 ∈ old, upsertResult old new = { e0 with triple := new.triple }) := by
  unfold upsertResult
  cases hf : find old new.name with
  | none => exact ⟨hn, hk, hi, rfl, .inl rfl⟩
  | some e0 =>
    simp only []
    split
    · next hc =>
      obtain ⟨hm0, hn0⟩ := find_some hf
      have hname : e0.name = d.name := hn0.trans hn
      have hkind : e0.kind = k := hsep e0 hm0 hname hc
      obtain ⟨d0, hd0, hdn0, _, _⟩ := hok e0 hm0
      rw [hkind] at hd0
      have hidx : e0.index = pos := name_index_bijection pt k hd0 hd (by rw [hdn0, hname])
      exact ⟨hname, hkind, hidx, rfl, .inr ⟨e0, hm0, rfl⟩⟩
    · exact ⟨hn, hk, hi, rfl, .inl rfl⟩

theorem decodeEcomax_sorted {msg : List Byte} {items : P2.Params} {rest : List Byte}
    (h : P2.decodeEcomax msg = .ok (items, rest)) : items.Pairwise (fun a b => a.1 < b.1) := by
  unfold P2.decodeEcomax at h
  split at h
  · exact (decodeRun_facts _ _ _ _ _ _ h).2.1
  · cases h

/-- dataset level: applying the decoded items of an ecoMAX response (with the table of product `pt`)
to a controller dataset `ds` of a reachable world -/
theorem read_slot_ecomax_ds (pt : Product) (ds : DS) (hds : ∀ e ∈ ds, EntryOK pt e ∧ OnEcomax e) (msg : List Byte)
    (items : P2.Params) (rest : List Byte) (hdec : P2.decodeEcomax msg = .ok (items, rest))
    (pos : Nat) (t : P2.Triple) (hmem : (pos, t) ∈ items) (d : Gen.Desc)
    (hd : (tableOf pt .ecomax)[pos]? = some d) :
    ∃ e, find (applyEcomaxItems pt ds ds items) d.name = some e ∧
      e.index = pos ∧ e.triple = tr t ∧ e.kind = .ecomax ∧ e.name = d.name := by
  simp only [applyEcomaxItems]
  rw [read_slot_items (fun _ _ _ => rfl) (fun i j a b => name_index_bijection pt .ecomax) ds items ds
    (decodeEcomax_sorted hdec) pos t hmem d hd]
  have hdmem : d ∈ Gen.ecomaxP ++ Gen.ecomaxI := by
    have := List.mem_of_getElem? hd
    cases pt <;> simp only [tableOf] at this <;> simp [this]
  have hres := reserved_names d hdmem
  obtain ⟨h1, h2, h3, h4, _⟩ := upsertResult_slot pt .ecomax (new := mkEcomax d pos t) rfl rfl rfl hd
    (fun e he => (hds e he).1) (by
      intro e0 hm0 hn0 hc
      obtain ⟨⟨d0, hd0, hdn0, _, _⟩, _⟩ := hds e0 hm0
      simp only [sameClass, mkEcomax, newEntry, Bool.and_eq_true, beq_iff_eq] at hc
      cases hk : e0.kind with
      | ecomax => rfl
      | mixer => rw [hk] at hc; exact absurd hc.1 (by decide)
      | thermostat => rw [hk] at hc; exact absurd hc.1 (by decide)
      | schedule => rw [hk] at hc; exact absurd hc.1 (by decide)
      | control =>
        rw [hk] at hd0
        simp only [tableOf] at hd0
        have : d0 = Gen.ecomaxControl := by simpa using List.mem_of_getElem? hd0
        exact absurd (by rw [← hn0, ← hdn0, this]) hres.1
      | profile =>
        rw [hk] at hd0
        simp only [tableOf] at hd0
        have : d0 = Gen.thermostatProfile := by simpa using List.mem_of_getElem? hd0
        exact absurd (by rw [← hn0, ← hdn0, this]) hres.2)
  exact ⟨_, rfl, h3, h4, h2, h1⟩

/-- **read slot = write slot (ecoMAX)**: after an ecoMAX parameters response arrives in any
reachable world in which product info is known, the triple the decoder reports for a described
position `pos` is held under the name of that position's description, by a parameter whose recorded
index is `pos` — created by this response or updated (create then update).  Uses `names_unique`,
`reserved_names`, the invariant.  (Before the UID response: `delayed_application_uses_real_product`.) -/
theorem read_slot_ecomax (pt : Product) (w : World) (hw : WorldOK pt w) (hk : w.known = true) (msg : List Byte)
    (items : P2.Params) (rest : List Byte) (hdec : P2.decodeEcomax msg = .ok (items, rest))
    (pos : Nat) (t : P2.Triple) (hmem : (pos, t) ∈ items) (d : Gen.Desc)
    (hd : (tableOf pt .ecomax)[pos]? = some d) :
    ∃ e, find (step pt w (.ecomaxParams msg)).1.ecomax d.name = some e ∧
      e.index = pos ∧ e.triple = tr t ∧ e.kind = .ecomax ∧ e.name = d.name := by
  simp only [step, hdec, hk, if_true]
  exact read_slot_ecomax_ds pt w.ecomax hw.eco msg items rest hdec pos t hmem d hd

/-- entries of an existing (or not yet existing) sub-device dataset -/
theorem lookup_getD_facts {Q : Nat → Entry → Prop} {l : List (Nat × DS)} (h : ∀ p ∈ l, ∀ e ∈ p.2, Q p.1 e) (i : Nat) :
    ∀ e ∈ (lookupDev l i).getD [], Q i e := by
  unfold lookupDev
  cases hf : l.find? (fun p => p.1 == i) with
  | none => intro e he; cases he
  | some p =>
    have hpi : p.1 = i := by simpa using List.find?_some hf
    intro e he
    exact hpi ▸ h p (List.mem_of_find?_eq_some hf) e he

theorem decodeMixer_facts {msg : List Byte} {blocks : P2.Blocks} {rest : List Byte}
    (h : P2.decodeMixer msg = .ok (blocks, rest)) :
    (∀ b ∈ blocks, 0 ≤ b.1 ∧ True ∧ True ∧ b.2.Pairwise (fun a b => a.1 < b.1) ∧ True ∧ b.2 ≠ []) ∧
      blocks.Pairwise (fun a b => a.1 < b.1) := by
  unfold P2.decodeMixer at h
  split at h
  · obtain ⟨hall, hs⟩ := decodeBlocks_facts _ _ _ _ _ _ _ _ h
    exact ⟨fun b hb => by obtain ⟨_, _, _, h4, _, h6⟩ := hall b hb; exact ⟨by omega, trivial, trivial, h4, trivial, h6⟩, hs⟩
  · cases h

/-- sub-device level: what mixer `m`'s handler makes of a decoded block, on a dataset of a reachable world -/
theorem read_slot_mixer_ds (pt : Product) (m : Nat) (old : DS) (hold : ∀ e ∈ old, EntryOK pt e ∧ OnMixer m e)
    (items : P2.Params) (hitems : items.Pairwise (fun a b => a.1 < b.1))
    (pos : Nat) (t : P2.Triple) (hmem : (pos, t) ∈ items) (d : Gen.Desc)
    (hd : (tableOf pt .mixer)[pos]? = some d) :
    ∃ e, find (mixerBlock pt m items old) d.name = some e ∧
      e.index = pos ∧ e.triple = tr t ∧ e.kind = .mixer ∧ e.devIndex = m ∧ e.name = d.name := by
  have hfind := read_slot_items (skip := false) (mk := mkMixer m) (fun _ _ _ => rfl)
    (fun i j a b => name_index_bijection pt .mixer) old items old hitems pos t hmem d hd
  obtain ⟨h1, h2, h3, h4, h5⟩ := upsertResult_slot pt .mixer (new := mkMixer m d pos t) rfl rfl rfl hd
    (fun e he => (hold e he).1) (fun e he _ _ => (hold e he).2.1)
  refine ⟨_, hfind, h3, h4, h2, ?_, h1⟩
  rcases h5 with h5 | ⟨e0, he0, h5⟩
  · rw [h5]; rfl
  · rw [h5]; exact (hold e0 he0).2.2.1

/-- **read slot = write slot (mixer)**: (product info known) the triple the decoder reports for
position `pos` of mixer `m`'s block is held by mixer `m`'s dataset under the name of that position's
description, with index `pos`, owner `m` — created or updated. -/
theorem read_slot_mixer (pt : Product) (w : World) (hw : WorldOK pt w) (hk : w.known = true) (msg : List Byte)
    (blocks : P2.Blocks) (rest : List Byte) (hdec : P2.decodeMixer msg = .ok (blocks, rest))
    (m : Nat) (items : P2.Params) (hb : (m, items) ∈ blocks)
    (pos : Nat) (t : P2.Triple) (hmem : (pos, t) ∈ items) (d : Gen.Desc)
    (hd : (tableOf pt .mixer)[pos]? = some d) :
    ∃ ds e, lookupDev (step pt w (.mixerParams msg)).1.mixers m = some ds ∧ find ds d.name = some e ∧
      e.index = pos ∧ e.triple = tr t ∧ e.kind = .mixer ∧ e.devIndex = m ∧ e.name = d.name := by
  obtain ⟨hall, hsorted⟩ := decodeMixer_facts hdec
  obtain ⟨_, _, _, hitems, _, _⟩ := hall (m, items) hb
  have hold := lookup_getD_facts (Q := fun i e => EntryOK pt e ∧ OnMixer i e) hw.mix m
  obtain ⟨e, hf, hrest⟩ := read_slot_mixer_ds pt m _ hold items hitems pos t hmem d hd
  refine ⟨mixerBlock pt m items ((lookupDev w.mixers m).getD []), e, ?_, hf, hrest⟩
  simp only [step, hdec, hk, if_true, applyMixers]
  exact lookupDev_applyBlocks _ blocks w.mixers hsorted m items hb

/-! ### arrival order: parameter responses handled before the UID response -/

theorem applyPendingEco_append (pt : Product) : ∀ (p : List P2.Params) (ds : DS) (items : P2.Params),
    applyPendingEco pt ds (p ++ [items]) =
      applyEcomaxItems pt (applyPendingEco pt ds p) (applyPendingEco pt ds p) items := by
  intro p
  induction p with
  | nil => intro ds items; rfl
  | cons x rest ih => intro ds items; simp only [List.cons_append, applyPendingEco]; exact ih _ items

theorem applyBlocks_append (g : Nat → P2.Params → DS → DS) : ∀ (a b : P2.Blocks) (devs : List (Nat × DS)),
    applyBlocks g devs (a ++ b) = applyBlocks g (applyBlocks g devs a) b := by
  intro a
  induction a with
  | nil => intro b devs; rfl
  | cons x rest ih => intro b devs; obtain ⟨i, items⟩ := x; simp only [List.cons_append, applyBlocks]; exact ih b _

theorem lookup_applyBlocks_id : ∀ (blocks : P2.Blocks) (devs : List (Nat × DS)) (m : Nat),
    (lookupDev (applyBlocks (fun _ _ ds => ds) devs blocks) m).getD [] = (lookupDev devs m).getD [] := by
  intro blocks
  induction blocks with
  | nil => intro devs m; rfl
  | cons b rest ih =>
    intro devs m
    obtain ⟨i, items⟩ := b
    unfold applyBlocks
    rw [ih]
    by_cases hi : m = i
    · subst hi; rw [lookupDev_updDev_self]; rfl
    · rw [lookupDev_updDev_other _ _ hi]

/-- before the UID response the handlers of the waiting kinds create nothing: the controller's
dataset is untouched by an ecoMAX parameters response, and a mixer parameters response only creates
(empty) mixer objects — no mixer gains, loses or changes a parameter -/
theorem waiting_kinds_inert_before_uid (pt : Product) (w : World) (hk : w.known = false) (msg : List Byte) :
    (step pt w (.ecomaxParams msg)).1.ecomax = w.ecomax ∧
    (step pt w (.ecomaxParams msg)).1.mixers = w.mixers ∧
    (step pt w (.mixerParams msg)).1.ecomax = w.ecomax ∧
    ∀ m, (lookupDev (step pt w (.mixerParams msg)).1.mixers m).getD [] = (lookupDev w.mixers m).getD [] := by
  refine ⟨?_, ?_, ?_, ?_⟩
  · simp only [step]; split <;> simp [hk]
  · simp only [step]; split <;> simp [hk]
  · simp only [step]; split <;> simp [hk]
  · intro m
    simp only [step]
    split
    · rfl
    · next blocks _ _ =>
      simp only [hk, Bool.false_eq_true, if_false]
      exact lookup_applyBlocks_id blocks w.mixers m

/-- **delayed_application_uses_real_product (ecoMAX)**: an ecoMAX parameters response handled BEFORE
the UID response (whatever else is already parked) is applied when the UID arrives, with the table
of the controller's REAL product type `pt`: the triple decoded from described position `pos` is then
held under `table_pt[pos].name` with index `pos` -/
theorem delayed_application_uses_real_product (pt : Product) (w : World) (hw : WorldOK pt w) (hk : w.known = false)
    (msg : List Byte) (items : P2.Params) (rest : List Byte) (hdec : P2.decodeEcomax msg = .ok (items, rest))
    (pos : Nat) (t : P2.Triple) (hmem : (pos, t) ∈ items) (d : Gen.Desc)
    (hd : (tableOf pt .ecomax)[pos]? = some d) :
    ∃ e, find (run pt w [.ecomaxParams msg, .uid]).1.ecomax d.name = some e ∧
      e.index = pos ∧ e.triple = tr t ∧ e.kind = .ecomax ∧ e.name = d.name := by
  have hrun : (run pt w [.ecomaxParams msg, .uid]).1.ecomax =
      applyPendingEco pt w.ecomax (w.pendingEco ++ [items]) := by
    simp [run, step, hdec, hk]
  rw [hrun, applyPendingEco_append]
  exact read_slot_ecomax_ds pt _ (applyPendingEco_inv hw.eco _ _ hw.eco) msg items rest hdec pos t hmem d hd

/-- **delayed_application_uses_real_product (mixer)**: likewise for a mixer parameters response
handled before the UID response: when the UID arrives, mixer `m`'s block is applied with the mixer
table of the REAL product type (not with a default table) -/
theorem delayed_application_uses_real_product_mixer (pt : Product) (w : World) (hw : WorldOK pt w)
    (hk : w.known = false) (msg : List Byte) (blocks : P2.Blocks) (rest : List Byte)
    (hdec : P2.decodeMixer msg = .ok (blocks, rest))
    (m : Nat) (items : P2.Params) (hb : (m, items) ∈ blocks)
    (pos : Nat) (t : P2.Triple) (hmem : (pos, t) ∈ items) (d : Gen.Desc)
    (hd : (tableOf pt .mixer)[pos]? = some d) :
    ∃ ds e, lookupDev (run pt w [.mixerParams msg, .uid]).1.mixers m = some ds ∧ find ds d.name = some e ∧
      e.index = pos ∧ e.triple = tr t ∧ e.kind = .mixer ∧ e.devIndex = m ∧ e.name = d.name := by
  obtain ⟨hall, hsorted⟩ := decodeMixer_facts hdec
  obtain ⟨_, _, _, hitems, _, _⟩ := hall (m, items) hb
  have hrun : (run pt w [.mixerParams msg, .uid]).1.mixers =
      applyBlocks (mixerBlock pt) (applyBlocks (mixerBlock pt) (applyBlocks (fun _ _ ds => ds) w.mixers blocks) w.pendingMix) blocks := by
    simp [run, step, hdec, hk, applyMixers, applyBlocks_append]
  have hdevs : ∀ p ∈ applyBlocks (mixerBlock pt) (applyBlocks (fun _ _ ds => ds) w.mixers blocks) w.pendingMix,
      ∀ e ∈ p.2, EntryOK pt e ∧ OnMixer p.1 e :=
    applyMixers_inv _ _ (applyBlocks_inv (Q := fun i ds => ∀ e ∈ ds, EntryOK pt e ∧ OnMixer i e) (fun _ _ _ hq => hq)
      (fun i e he => by cases he) blocks _ hw.mix)
  have hold := lookup_getD_facts (Q := fun i e => EntryOK pt e ∧ OnMixer i e) hdevs m
  obtain ⟨e, hf, hrest⟩ := read_slot_mixer_ds pt m _ hold items hitems pos t hmem d hd
  refine ⟨_, e, ?_, hf, hrest⟩
  rw [hrun]
  exact lookupDev_applyBlocks _ blocks _ hsorted m items hb

example : (run .I {} [.mixerParams [0, 4, 1, 1, 7, 0, 9], .uid]).1.mixers =
    [(0, [⟨(Gen.mixerI[4]?.map (·.name)).getD "", .mixer, false, 4, ⟨7, 0, 9⟩, 0, 0, 1⟩])] := by decide +kernel

theorem decodeThermo_blocks {T : Nat} {msg : List Byte} {profile : Option P2.Triple} {blocks : P2.Blocks}
    {rest : List Byte} (h : P2.decodeThermo (some T) msg = .ok (.val profile blocks, rest)) :
    ∃ start n r, P2.decodeBlocks P2.thermoSize start n T 0 r = .ok (blocks, rest) := by
  unfold P2.decodeThermo at h
  split at h
  · simp at h
  · split at h
    · next s c r =>
      simp only at h
      split at h
      · cases h
      · next bs r' hb =>
        simp only [Except.ok.injEq, Prod.mk.injEq, P2.ThermoVal.val.injEq] at h
        obtain ⟨⟨_, rfl⟩, rfl⟩ := h
        exact ⟨_, _, _, hb⟩
    · cases h

/-- **read slot = write slot (thermostat)**: the triple the decoder reports for position `pos` of
thermostat `t`'s block is held by thermostat `t`'s dataset under the name of that position's
description, with index `pos` and owner `t` — unconditionally.  The OFFSET of a parameter created by
this response is `t × (number of defined parameters of the block)`, which is `t × slots per
thermostat` only without undefined holes (F3, `thermostat_offset_partial`); an updated parameter
keeps the offset it had. -/
theorem read_slot_thermostat (pt : Product) (w : World) (hw : WorldOK pt w) (msg : List Byte)
    (profile : Option P2.Triple) (blocks : P2.Blocks) (rest : List Byte)
    (hdec : P2.decodeThermo (some w.tAvail) msg = .ok (.val profile blocks, rest))
    (t : Nat) (items : P2.Params) (hb : (t, items) ∈ blocks)
    (pos : Nat) (tr' : P2.Triple) (hmem : (pos, tr') ∈ items) (d : Gen.Desc)
    (hd : Gen.thermostat[pos]? = some d) :
    ∃ ds e, lookupDev (step pt w (.thermostatParams msg)).1.thermostats t = some ds ∧ find ds d.name = some e ∧
      e.index = pos ∧ e.triple = tr tr' ∧ e.kind = .thermostat ∧ e.devIndex = t ∧ e.name = d.name ∧
      (e.offset = t * items.length ∨
        ∃ e0 ∈ (lookupDev w.thermostats t).getD [], e0.name = d.name ∧ e.offset = e0.offset) := by
  obtain ⟨start, n, r, hblocks⟩ := decodeThermo_blocks hdec
  obtain ⟨hall, hsorted⟩ := decodeBlocks_facts _ _ _ _ _ _ _ _ hblocks
  obtain ⟨_, _, _, hitems, _, _⟩ := hall (t, items) hb
  have hold := lookup_getD_facts (Q := fun i e => EntryOK pt e ∧ OnThermostat i e) hw.thr t
  have hd' : (tableOf pt .thermostat)[pos]? = some d := hd
  have hfind := read_slot_items (skip := false) (mk := mkThermostat t items.length) (fun _ _ _ => rfl)
    (fun i j a b => name_index_bijection pt .thermostat) ((lookupDev w.thermostats t).getD []) items
    ((lookupDev w.thermostats t).getD []) hitems pos tr' hmem d hd
  obtain ⟨h1, h2, h3, h4, h5⟩ := upsertResult_slot pt .thermostat (new := mkThermostat t items.length d pos tr') rfl rfl rfl hd'
    (fun e he => (hold e he).1) (fun e he _ _ => (hold e he).2.1)
  refine ⟨thermostatBlock t items ((lookupDev w.thermostats t).getD []), _, ?_, hfind, h3, h4, h2, ?_, h1, ?_⟩
  · simp only [step, hdec, applyThermostats]
    exact lookupDev_applyBlocks _ blocks w.thermostats hsorted t items hb
  · rcases h5 with h5 | ⟨e0, he0, h5⟩
    · rw [h5]; rfl
    · rw [h5]; exact (hold e0 he0).2.2
  · rcases h5 with h5 | ⟨e0, he0, h5⟩
    · left; rw [h5]; rfl
    · right
      refine ⟨e0, he0, ?_, by rw [h5]⟩
      have : (upsertResult ((lookupDev w.thermostats t).getD []) (mkThermostat t items.length d pos tr')).name = e0.name := by
        rw [h5]
      rw [← this, h1]

/-- **read slot = write slot (schedule)**: when every entry of a schedules response has a
description and the entries name distinct schedules, the switch value (position `2s`) and the
parameter triple (position `2s+1`) of schedule `s` are held under `<schedule s>_schedule_switch` /
`_schedule_parameter` with exactly those indexes — created or updated. -/
theorem read_slot_schedule (pt : Product) (w : World) (hw : WorldOK pt w) (msg : List Byte)
    (ss : List (Nat × List (List Bool))) (ps : P2.Params) (rest : List Byte)
    (hdec : P2.decodeSched msg = .ok (.val ss ps, rest))
    (hknown : allKnown Gen.scheduleParams ps = true) (hdist : ps.Pairwise (fun a b => a.1 ≠ b.1))
    (pos : Nat) (t : P2.Triple) (hmem : (pos, t) ∈ ps) (d : Gen.Desc)
    (hd : Gen.scheduleParams[pos]? = some d) :
    ∃ e, find (step pt w (.schedules msg)).1.ecomax d.name = some e ∧
      e.index = pos ∧ e.triple = tr t ∧ e.kind = .schedule ∧ e.name = d.name := by
  have hd' : (tableOf pt .schedule)[pos]? = some d := hd
  simp only [step, hdec, applyScheduleItems, hknown, if_true]
  rw [read_slot_items_distinct (tbl := Gen.scheduleParams) (mk := mkSchedule) (fun _ _ _ => rfl)
    (fun i j a b => name_index_bijection pt .schedule) w.ecomax ps w.ecomax hdist pos t hmem d hd]
  obtain ⟨h1, h2, h3, h4, _⟩ := upsertResult_slot pt .schedule (new := mkSchedule d pos t) rfl rfl rfl hd'
    (fun e he => (hw.eco e he).1) (by
      intro e0 _ _ hc
      simp only [sameClass, mkSchedule, newEntry, Bool.and_eq_true, beq_iff_eq] at hc
      cases hk : e0.kind <;> rw [hk] at hc <;> first | rfl | exact absurd hc.1 (by decide))
  exact ⟨_, rfl, h3, h4, h2, h1⟩

/-! ### thermostat offsets (open finding F3) -/

/-- a thermostat's block never yields more items than the response has slots per thermostat,
`slotsPer start count T`; it yields exactly that many iff none of its slots is an undefined hole -/
theorem block_items_le {T : Nat} {b0 start count : Byte} {r : List Byte} {profile : Option P2.Triple}
    {blocks : P2.Blocks} {rest : List Byte}
    (h : P2.decodeThermo (some T) (b0 :: start :: count :: r) = .ok (.val profile blocks, rest)) :
    ∀ b ∈ blocks, b.2.length ≤ slotsPer start.toNat count.toNat T := by
  unfold P2.decodeThermo at h
  split at h
  · simp at h
  · simp only at h
    split at h
    · cases h
    · next bs r' hb =>
      simp only [Except.ok.injEq, Prod.mk.injEq, P2.ThermoVal.val.injEq] at h
      obtain ⟨⟨_, rfl⟩, _⟩ := h
      exact fun b hb' => ((decodeBlocks_facts _ _ _ _ _ _ _ _ hb).1 b hb').2.2.2.2.1

theorem applyThermostats_offsets {per : Nat} (blocks : P2.Blocks) (ths : List (Nat × DS))
    (h : ∀ p ∈ ths, ∀ e ∈ p.2, e.offset = p.1 * per) (hb : ∀ b ∈ blocks, b.2.length = per) :
    ∀ p ∈ applyThermostats ths blocks, ∀ e ∈ p.2, e.offset = p.1 * per := by
  unfold applyThermostats
  induction blocks generalizing ths with
  | nil => exact h
  | cons b rest ih =>
    obtain ⟨t, items⟩ := b
    unfold applyBlocks
    apply ih _ _ (fun b hb' => hb b (by simp [hb']))
    apply updDev_inv (Q := fun i ds => ∀ e ∈ ds, e.offset = i * per) h
    · intro ds hds
      have hlen : items.length = per := hb (t, items) (by simp)
      exact applyItems_inv (P := fun e => e.offset = t * per) (fun e t h => h)
        (fun d pos tr _ => by simp [mkThermostat, newEntry, hlen]) hds items ds hds
    · intro e he; cases he

/-- the full statement: every thermostat parameter's offset is its thermostat's index times the
number of slots per thermostat -/
def thermostat_offset_full : Prop :=
  ∀ (pt : Product) (T : Nat) (b0 start count : Byte) (r : List Byte),
    ∀ p ∈ (step pt { tAvail := T } (.thermostatParams (b0 :: start :: count :: r))).1.thermostats, ∀ e ∈ p.2,
      e.offset = p.1 * slotsPer start.toNat count.toNat T

/-- **thermostat_offset_partial**: proved when no block of the response has an undefined hole —
every listed block yields as many items as the response has slots per thermostat,
`slotsPer start count T` (`block_items_le`: never more) — for any prior world whose thermostat
parameters already have offsets `t × slotsPer start count T`.  What is missing: blocks with holes (F3). -/
theorem thermostat_offset_partial (pt : Product) (w : World) (b0 start count : Byte) (r : List Byte)
    (profile : Option P2.Triple) (blocks : P2.Blocks) (rest : List Byte)
    (hdec : P2.decodeThermo (some w.tAvail) (b0 :: start :: count :: r) = .ok (.val profile blocks, rest))
    (hnoholes : ∀ b ∈ blocks, b.2.length = slotsPer start.toNat count.toNat w.tAvail)
    (hw : ∀ p ∈ w.thermostats, ∀ e ∈ p.2, e.offset = p.1 * slotsPer start.toNat count.toNat w.tAvail) :
    ∀ p ∈ (step pt w (.thermostatParams (b0 :: start :: count :: r))).1.thermostats, ∀ e ∈ p.2,
      e.offset = p.1 * slotsPer start.toNat count.toNat w.tAvail := by
  simp only [step, hdec]
  exact applyThermostats_offsets blocks _ hw hnoholes

/-- payload without holes, built from the table's own slot widths: two thermostats, positions 0 and 1 -/
def noHolesWitness : List Byte :=
  let w (k : Nat) : Nat := 3 * ((Gen.thermostat[k]?.map (·.size)).getD 1)
  [1, 0, 5] ++ List.replicate (w 0) 1 ++ List.replicate (w 1) 1 ++ List.replicate (w 0) 2 ++ List.replicate (w 1) 2

/-- non-vacuity of `thermostat_offset_partial`: the hypotheses are met by a concrete response (two
thermostats, two parameters each, none undefined) and both thermostats get parameters -/
example :
    (match P2.decodeThermo (some 2) (0 :: 0 :: 5 :: noHolesWitness) with
      | .ok (.val _ blocks, _) => blocks.length == 2 && blocks.all (fun b => b.2.length == slotsPer 0 5 2)
      | _ => false) = true ∧
    ∃ p ∈ (step .P { tAvail := 2 } (.thermostatParams (0 :: 0 :: 5 :: noHolesWitness))).1.thermostats,
      p.1 = 1 ∧ ∃ e ∈ p.2, e.offset = 2 := by
  refine ⟨by decide +kernel, by decide +kernel⟩

/-- payload of the F3 witness, built from the table's own slot widths: two thermostats, positions
0 and 1 each; position 0 of thermostat 1 is an undefined hole -/
def f3Witness : List Byte :=
  let w (k : Nat) : Nat := 3 * ((Gen.thermostat[k]?.map (·.size)).getD 1)
  [1, 0, 5] ++ List.replicate (w 0) 1 ++ List.replicate (w 1) 1 ++
    List.replicate (w 0) 255 ++ List.replicate (w 1) 1

/-- the witness of F3: thermostat 1's only defined parameter gets offset 1 × 1 instead of 1 × 2,
so its write goes one slot too low -/
theorem thermostat_offset_full_false : ¬ thermostat_offset_full := by
  intro h
  have hw : ∃ p ∈ (step .P { tAvail := 2 } (.thermostatParams (0 :: 0 :: 5 :: f3Witness))).1.thermostats,
      ∃ e ∈ p.2, e.offset ≠ p.1 * slotsPer 0 5 2 := by decide +kernel
  obtain ⟨p, hp, e, he, hne⟩ := hw
  exact hne (h .P 2 0 0 5 f3Witness p hp e he)

/-! ### addressing of an existing thermostat parameter is stable over histories (create, then partial update) -/

theorem lookupDev_mem {l : List (Nat × DS)} {i : Nat} {ds : DS} (h : lookupDev l i = some ds) : (i, ds) ∈ l := by
  unfold lookupDev at h
  simp only [Option.map_eq_some_iff] at h
  obtain ⟨p, hp, rfl⟩ := h
  have hpi : p.1 = i := by simpa using List.find?_some hp
  have := List.mem_of_find?_eq_some hp
  rw [← hpi]; exact this



/-- what a thermostat's dataset satisfies in a reachable world -/
def GoodT (pt : Product) (t : Nat) (ds : DS) : Prop := ∀ x ∈ ds, EntryOK pt x ∧ OnThermostat t x

theorem thermostat_class (pt : Product) (t n : Nat) {old : DS} (hgood : GoodT pt t old)
    (d : Gen.Desc) (pos : Nat) (tr' : P2.Triple) (hd : Gen.thermostat[pos]? = some d)
    (e0 : Entry) (hf : find old d.name = some e0) : sameClass e0 (mkThermostat t n d pos tr') = true := by
  obtain ⟨hm0, hn0⟩ := find_some hf
  obtain ⟨⟨d0, hd0, hdn0, hsw0, _⟩, hk0, _⟩ := hgood e0 hm0
  rw [hk0] at hd0
  have hd' : (tableOf pt .thermostat)[pos]? = some d := hd
  have hidx : e0.index = pos := name_index_bijection pt .thermostat hd0 hd' (by rw [hdn0, hn0])
  rw [hidx, hd'] at hd0
  cases hd0
  simp [sameClass, mkThermostat, newEntry, hk0, hsw0]

theorem thermostatBlock_stable (pt : Product) (t : Nat) (items : P2.Params) (ds : DS) (hgood : GoodT pt t ds)
    (e : Entry) (hf : find ds e.name = some e) :
    GoodT pt t (thermostatBlock t items ds) ∧ ∃ y, find (thermostatBlock t items ds) e.name = some { e with triple := y } := by
  constructor
  · exact applyItems_inv (P := fun x => EntryOK pt x ∧ OnThermostat t x) (fun e t h => h)
      (fun d pos t' hd => ⟨entryOK_new (pt := pt) (k := .thermostat) (tr t') t (t * items.length) hd, rfl, rfl⟩)
      hgood items ds hgood
  · exact applyItems_stable (fun _ _ _ => rfl)
      (fun d pos tr' hd e0 hf0 => thermostat_class pt t items.length hgood d pos tr' hd e0 hf0) e hf items ds ⟨e.triple, hf⟩

theorem applyBlocks_thermostat_stable (pt : Product) (t : Nat) (e : Entry) :
    ∀ (blocks : P2.Blocks) (devs : List (Nat × DS)),
      (∃ ds y, lookupDev devs t = some ds ∧ GoodT pt t ds ∧ find ds e.name = some { e with triple := y }) →
      ∃ ds y, lookupDev (applyBlocks thermostatBlock devs blocks) t = some ds ∧ GoodT pt t ds ∧
        find ds e.name = some { e with triple := y } := by
  intro blocks
  induction blocks with
  | nil => intro devs h; exact h
  | cons b rest ih =>
    intro devs ⟨ds, y, hl, hg, hf⟩
    obtain ⟨i, items⟩ := b
    unfold applyBlocks
    apply ih
    by_cases hi : i = t
    · subst hi
      rw [lookupDev_updDev_self, hl]
      simp only [Option.getD_some]
      obtain ⟨hg', y', hf'⟩ := thermostatBlock_stable pt i items ds hg { e with triple := y } hf
      exact ⟨_, y', rfl, hg', hf'⟩
    · rw [lookupDev_updDev_other _ _ (fun h => hi h.symm)]
      exact ⟨ds, y, hl, hg, hf⟩

/-- **addressing_stable_thermostat**: in any reachable world, NO event — in particular no later
thermostat-parameters response, narrower, with holes, or with other bounds — changes the index,
offset, owner or width of a thermostat parameter that exists: only its triple may change.  So a
parameter created by a full response and updated by a partial one is still written to the slot it
was created for (what seeded change C07-m2 breaks). -/
theorem addressing_stable_thermostat (pt : Product) (w : World) (hw : WorldOK pt w) (ev : Event)
    (t : Nat) (ds : DS) (e : Entry) (hl : lookupDev w.thermostats t = some ds) (hf : find ds e.name = some e) :
    ∃ ds' y, lookupDev (step pt w ev).1.thermostats t = some ds' ∧ find ds' e.name = some { e with triple := y } := by
  have hgood : GoodT pt t ds := hw.thr _ (lookupDev_mem hl)
  have hsame : ∃ ds' y, lookupDev w.thermostats t = some ds' ∧ find ds' e.name = some { e with triple := y } :=
    ⟨ds, e.triple, hl, hf⟩
  cases ev with
  | uid => simp only [step]; split <;> exact hsame
  | ecomaxParams msg => simp only [step]; split <;> (try split) <;> exact hsame
  | mixerParams msg => simp only [step]; split <;> (try split) <;> exact hsame
  | thermostatsAvailable n => exact hsame
  | schedules msg => simp only [step]; split <;> exact hsame
  | state on => exact hsame
  | thermostatParams msg =>
    simp only [step]
    split
    · exact hsame
    · exact hsame
    · next profile blocks _ _ =>
      obtain ⟨ds', y, h1, _, h3⟩ := applyBlocks_thermostat_stable pt t e blocks w.thermostats ⟨ds, e.triple, hl, hgood, hf⟩
      exact ⟨ds', y, h1, h3⟩
  | set dev name v =>
    simp only [step]
    split
    · exact hsame
    · next ds0 hds0 =>
      split
      · exact hsame
      · next e1 hf1 =>
        cases dev with
        | ecomax => exact hsame
        | mixer i => exact hsame
        | thermostat i =>
          simp only [World.ds] at hds0
          by_cases hi : i = t
          · subst hi
            rw [hl] at hds0
            simp only [Option.some.injEq] at hds0
            subst hds0
            refine ⟨setEntry ds { e1 with triple := { e1.triple with value := v } }, ?_⟩
            have hlook : lookupDev (w.setDs (.thermostat i) (setEntry ds { e1 with triple := { e1.triple with value := v } })).thermostats i =
                some (setEntry ds { e1 with triple := { e1.triple with value := v } }) := by
              simp only [World.setDs, lookupDev]
              have := find?_updMap w.thermostats i i (fun _ => setEntry ds { e1 with triple := { e1.triple with value := v } })
              rw [this]
              simp only [lookupDev, Option.map_eq_some_iff] at hl
              obtain ⟨p, hp, _⟩ := hl
              have hpi : p.1 = i := by simpa using List.find?_some (p := fun (p : Nat × DS) => p.1 == i) hp
              simp [hp, hpi]
            by_cases hn : name = e.name
            · subst hn
              rw [hf] at hf1
              cases hf1
              exact ⟨_, hlook, find_setEntry_self ds _⟩
            · refine ⟨e.triple, hlook, ?_⟩
              rw [find_setEntry_ne _ _ (by
                have : e1.name = name := (find_some hf1).2
                simpa [this] using hn)]
              exact hf
          · refine ⟨ds, e.triple, ?_, hf⟩
            simp only [World.setDs, lookupDev]
            rw [find?_updMap w.thermostats i t (fun _ => setEntry ds0 { e1 with triple := { e1.triple with value := v } })]
            simp only [lookupDev, Option.map_eq_some_iff] at hl
            obtain ⟨p, hp, hp2⟩ := hl
            have hpt : p.1 = t := by simpa using List.find?_some (p := fun (p : Nat × DS) => p.1 == t) hp
            have : ¬ p.1 = i := by rw [hpt]; exact fun h => hi h.symm
            simp [hp, this, hp2]

/-! ### addressing of ANY existing parameter is stable over histories: objects kept by the client

`Parameter.update()` never touches `_index` (nor `offset`, nor the owning device): once created, a
parameter object addresses the same slot for every later report, whatever start / count / hole
pattern / number of mixers or thermostats those reports have.  In the model: whatever is stored
under an existing name keeps everything but its triple.  The only way a name leaves a dataset is an
undefined thermostat-profile slot (the name then holds None; the kept object still addresses slot 0). -/

def GoodM (pt : Product) (m : Nat) (ds : DS) : Prop := ∀ x ∈ ds, EntryOK pt x ∧ OnMixer m x

theorem mixer_class (pt : Product) (m : Nat) {old : DS} (hgood : GoodM pt m old)
    (d : Gen.Desc) (pos : Nat) (tr' : P2.Triple) (hd : (tableOf pt .mixer)[pos]? = some d)
    (e0 : Entry) (hf : find old d.name = some e0) : sameClass e0 (mkMixer m d pos tr') = true := by
  obtain ⟨hm0, hn0⟩ := find_some hf
  obtain ⟨⟨d0, hd0, hdn0, hsw0, _⟩, hk0, _⟩ := hgood e0 hm0
  rw [hk0] at hd0
  have hidx : e0.index = pos := name_index_bijection pt .mixer hd0 hd (by rw [hdn0, hn0])
  rw [hidx, hd] at hd0
  cases hd0
  simp [sameClass, mkMixer, newEntry, hk0, hsw0]

theorem mixerBlock_stable (pt : Product) (m : Nat) (items : P2.Params) (ds : DS) (hgood : GoodM pt m ds)
    (e : Entry) (hf : find ds e.name = some e) :
    GoodM pt m (mixerBlock pt m items ds) ∧ ∃ y, find (mixerBlock pt m items ds) e.name = some { e with triple := y } := by
  constructor
  · exact applyItems_inv (P := fun x => EntryOK pt x ∧ OnMixer m x) (fun e t h => h)
      (fun d pos t' hd => ⟨entryOK_new (tr t') m 0 hd, rfl, rfl, rfl⟩) hgood items ds hgood
  · exact applyItems_stable (fun _ _ _ => rfl)
      (fun d pos tr' hd e0 hf0 => mixer_class pt m hgood d pos tr' hd e0 hf0) e hf items ds ⟨e.triple, hf⟩

theorem applyBlocks_mixer_stable (pt : Product) (m : Nat) (e : Entry) :
    ∀ (blocks : P2.Blocks) (devs : List (Nat × DS)),
      (∃ ds y, lookupDev devs m = some ds ∧ GoodM pt m ds ∧ find ds e.name = some { e with triple := y }) →
      ∃ ds y, lookupDev (applyBlocks (mixerBlock pt) devs blocks) m = some ds ∧ GoodM pt m ds ∧
        find ds e.name = some { e with triple := y } := by
  intro blocks
  induction blocks with
  | nil => intro devs h; exact h
  | cons b rest ih =>
    intro devs ⟨ds, y, hl, hg, hf⟩
    obtain ⟨i, items⟩ := b
    unfold applyBlocks
    apply ih
    by_cases hi : i = m
    · subst hi
      rw [lookupDev_updDev_self, hl]
      simp only [Option.getD_some]
      obtain ⟨hg', y', hf'⟩ := mixerBlock_stable pt i items ds hg { e with triple := y } hf
      exact ⟨_, y', rfl, hg', hf'⟩
    · rw [lookupDev_updDev_other _ _ (fun h => hi h.symm)]
      exact ⟨ds, y, hl, hg, hf⟩

theorem applyBlocks_id_lookup : ∀ (blocks : P2.Blocks) (devs : List (Nat × DS)) (m : Nat) (ds : DS),
    lookupDev devs m = some ds → lookupDev (applyBlocks (fun _ _ ds => ds) devs blocks) m = some ds := by
  intro blocks
  induction blocks with
  | nil => intro devs m ds h; exact h
  | cons b rest ih =>
    intro devs m ds h
    obtain ⟨i, items⟩ := b
    unfold applyBlocks
    apply ih
    by_cases hi : m = i
    · subst hi; rw [lookupDev_updDev_self, h]; rfl
    · rw [lookupDev_updDev_other _ _ hi]; exact h

/-- **addressing_stable_mixer**: no event changes index or owner of a mixer parameter that exists
(mixers never disappear: a mixer the controller stops reporting keeps its parameters) -/
theorem addressing_stable_mixer (pt : Product) (w : World) (hw : WorldOK pt w) (ev : Event)
    (m : Nat) (ds : DS) (e : Entry) (hl : lookupDev w.mixers m = some ds) (hf : find ds e.name = some e) :
    ∃ ds' y, lookupDev (step pt w ev).1.mixers m = some ds' ∧ find ds' e.name = some { e with triple := y } := by
  have hgood : GoodM pt m ds := hw.mix _ (lookupDev_mem hl)
  have hsame : ∃ ds' y, lookupDev w.mixers m = some ds' ∧ find ds' e.name = some { e with triple := y } :=
    ⟨ds, e.triple, hl, hf⟩
  have happly : ∀ blocks, ∃ ds' y, lookupDev (applyMixers pt w.mixers blocks) m = some ds' ∧
      find ds' e.name = some { e with triple := y } := by
    intro blocks
    obtain ⟨ds', y, h1, _, h3⟩ := applyBlocks_mixer_stable pt m e blocks w.mixers ⟨ds, e.triple, hl, hgood, hf⟩
    exact ⟨ds', y, h1, h3⟩
  cases ev with
  | uid => simp only [step]; split; exact hsame; exact happly _
  | ecomaxParams msg => simp only [step]; split <;> (try split) <;> exact hsame
  | thermostatsAvailable n => exact hsame
  | thermostatParams msg => simp only [step]; split <;> exact hsame
  | schedules msg => simp only [step]; split <;> exact hsame
  | state on => exact hsame
  | mixerParams msg =>
    simp only [step]
    split
    · exact hsame
    · split
      · exact happly _
      · exact ⟨ds, e.triple, applyBlocks_id_lookup _ _ _ _ hl, hf⟩
  | set dev name v =>
    simp only [step]
    split
    · exact hsame
    · next ds0 hds0 =>
      split
      · exact hsame
      · next e1 hf1 =>
        cases dev with
        | ecomax => exact hsame
        | thermostat i => exact hsame
        | mixer i =>
          simp only [World.ds] at hds0
          by_cases hi : i = m
          · subst hi
            rw [hl] at hds0
            simp only [Option.some.injEq] at hds0
            subst hds0
            refine ⟨setEntry ds { e1 with triple := { e1.triple with value := v } }, ?_⟩
            have hlook : lookupDev (w.setDs (.mixer i) (setEntry ds { e1 with triple := { e1.triple with value := v } })).mixers i =
                some (setEntry ds { e1 with triple := { e1.triple with value := v } }) := by
              simp only [World.setDs, lookupDev]
              have := find?_updMap w.mixers i i (fun _ => setEntry ds { e1 with triple := { e1.triple with value := v } })
              rw [this]
              simp only [lookupDev, Option.map_eq_some_iff] at hl
              obtain ⟨p, hp, _⟩ := hl
              have hpi : p.1 = i := by simpa using List.find?_some (p := fun (p : Nat × DS) => p.1 == i) hp
              simp [hp, hpi]
            by_cases hn : name = e.name
            · subst hn
              rw [hf] at hf1
              cases hf1
              exact ⟨_, hlook, find_setEntry_self ds _⟩
            · refine ⟨e.triple, hlook, ?_⟩
              rw [find_setEntry_ne _ _ (by
                have : e1.name = name := (find_some hf1).2
                simpa [this] using hn)]
              exact hf
          · refine ⟨ds, e.triple, ?_, hf⟩
            simp only [World.setDs, lookupDev]
            rw [find?_updMap w.mixers i m (fun _ => setEntry ds0 { e1 with triple := { e1.triple with value := v } })]
            simp only [lookupDev, Option.map_eq_some_iff] at hl
            obtain ⟨p, hp, hp2⟩ := hl
            have hpt : p.1 = m := by simpa using List.find?_some (p := fun (p : Nat × DS) => p.1 == m) hp
            have : ¬ p.1 = i := by rw [hpt]; exact fun h => hi h.symm
            simp [hp, this, hp2]

/-! the controller's own dataset holds four families (table parameters, schedule parameters, the
control switch, the thermostat profile): their names never clash -/

theorem disjoint_ecoP_sched : ∀ a ∈ Gen.ecomaxP, ∀ b ∈ Gen.scheduleParams, a.name ≠ b.name := by decide +kernel
theorem disjoint_ecoI_sched : ∀ a ∈ Gen.ecomaxI, ∀ b ∈ Gen.scheduleParams, a.name ≠ b.name := by decide +kernel
theorem sched_reserved : ∀ b ∈ Gen.scheduleParams,
    b.name ≠ Gen.ecomaxControl.name ∧ b.name ≠ Gen.thermostatProfile.name := by decide +kernel
theorem control_ne_profile : Gen.ecomaxControl.name ≠ Gen.thermostatProfile.name := by decide

def ecoKind (k : TKind) : Prop := k ≠ .mixer ∧ k ≠ .thermostat

/-- two descriptions of different families living in the controller's dataset have different names -/
theorem cross_kind_names (pt : Product) {k k' : TKind} (hk : ecoKind k) (hk' : ecoKind k') (hne : k ≠ k')
    {a b : Gen.Desc} (ha : a ∈ tableOf pt k) (hb : b ∈ tableOf pt k') : a.name ≠ b.name := by
  have eco_mem : ∀ {x}, x ∈ tableOf pt .ecomax → x ∈ Gen.ecomaxP ++ Gen.ecomaxI := by
    intro x hx; cases pt <;> simp only [tableOf] at hx <;> simp [hx]
  have eco_sched : ∀ {x y}, x ∈ tableOf pt .ecomax → y ∈ Gen.scheduleParams → x.name ≠ y.name := by
    intro x y hx hy
    cases pt <;> simp only [tableOf] at hx
    · exact disjoint_ecoP_sched x hx y hy
    · exact disjoint_ecoI_sched x hx y hy
  cases k <;> cases k' <;> simp only [tableOf, List.mem_singleton] at ha hb <;>
    first
    | exact absurd rfl hne
    | exact absurd rfl hk.1
    | exact absurd rfl hk.2
    | exact absurd rfl hk'.1
    | exact absurd rfl hk'.2
    | exact eco_sched ha hb
    | exact fun h => eco_sched hb ha h.symm
    | (subst hb; exact (reserved_names a (eco_mem ha)).1)
    | (subst hb; exact (reserved_names a (eco_mem ha)).2)
    | (subst ha; exact fun h => (reserved_names b (eco_mem hb)).1 h.symm)
    | (subst ha; exact fun h => (reserved_names b (eco_mem hb)).2 h.symm)
    | (subst hb; exact (sched_reserved a ha).1)
    | (subst hb; exact (sched_reserved a ha).2)
    | (subst ha; exact fun h => (sched_reserved b hb).1 h.symm)
    | (subst ha; exact fun h => (sched_reserved b hb).2 h.symm)
    | (subst ha; subst hb; exact control_ne_profile)
    | (subst ha; subst hb; exact fun h => control_ne_profile h.symm)

def GoodE (pt : Product) (ds : DS) : Prop := ∀ x ∈ ds, EntryOK pt x ∧ OnEcomax x

/-- in the controller's dataset, a parameter found under the name of a described position of family
`k` is of the class that family's handler creates (so it is updated in place, never replaced) -/
theorem ecomax_class (pt : Product) (k : TKind) (hk : ecoKind k) {old : DS} (hgood : GoodE pt old)
    (d : Gen.Desc) (pos : Nat) (hd : (tableOf pt k)[pos]? = some d) (new : Entry)
    (hnk : new.kind = k) (hns : new.switch = d.switch)
    (e0 : Entry) (hf : find old d.name = some e0) : sameClass e0 new = true := by
  obtain ⟨hm0, hn0⟩ := find_some hf
  obtain ⟨⟨d0, hd0, hdn0, hsw0, _⟩, hk0m, hk0t, _⟩ := hgood e0 hm0
  by_cases hkk : e0.kind = k
  · rw [hkk] at hd0
    have hidx : e0.index = pos := name_index_bijection pt k hd0 hd (by rw [hdn0, hn0])
    rw [hidx, hd] at hd0
    cases hd0
    simp [sameClass, hkk, hnk, hns, hsw0]
  · exact absurd (hdn0.trans hn0) (cross_kind_names pt ⟨hk0m, hk0t⟩ hk hkk (List.mem_of_getElem? hd0) (List.mem_of_getElem? hd))

theorem find_filter_ne (ds : DS) (n m : String) (h : m ≠ n) :
    find (ds.filter (fun x => !(x.name == n))) m = find ds m := by
  simp only [find, List.find?_filter]
  congr 1
  funext a
  by_cases ha : a.name = m
  · subst ha; simp; exact h
  · simp [ha]

theorem applyItems_eco_stable (pt : Product) (k : TKind) (hk : ecoKind k)
    (mk : Gen.Desc → Nat → P2.Triple → Entry) (skip : Bool)
    (hmk : ∀ d pos t, (mk d pos t).name = d.name ∧ (mk d pos t).kind = k ∧ (mk d pos t).switch = d.switch ∧
      (mk d pos t).index = pos ∧ (mk d pos t).devIndex = 0 ∧ (mk d pos t).offset = 0 ∧ (mk d pos t).size = d.size)
    (items : P2.Params) (ds : DS) (hgood : GoodE pt ds) (e : Entry) (hf : find ds e.name = some e) :
    GoodE pt (applyItems (tableOf pt k) mk skip ds ds items) ∧
      ∃ y, find (applyItems (tableOf pt k) mk skip ds ds items) e.name = some { e with triple := y } := by
  constructor
  · exact applyItems_inv (P := fun x => EntryOK pt x ∧ OnEcomax x) (fun e t h => h)
      (fun d pos t hd => by
        obtain ⟨h1, h2, h3, h4, h5, h6, h7⟩ := hmk d pos t
        exact ⟨⟨d, by rw [h2, h4]; exact hd, h1.symm, h3.symm, h7.symm⟩, by rw [h2]; exact hk.1, by rw [h2]; exact hk.2, h5, h6⟩)
      hgood items ds hgood
  · exact applyItems_stable (fun d pos t => (hmk d pos t).1)
      (fun d pos t hd e0 hf0 => ecomax_class pt k hk hgood d pos hd _ (hmk d pos t).2.1 (hmk d pos t).2.2.1 e0 hf0)
      e hf items ds ⟨e.triple, hf⟩

theorem applyPendingEco_stable (pt : Product) (e : Entry) : ∀ (pending : List P2.Params) (ds : DS),
    GoodE pt ds → (∃ y, find ds e.name = some { e with triple := y }) →
    ∃ y, find (applyPendingEco pt ds pending) e.name = some { e with triple := y } := by
  intro pending
  induction pending with
  | nil => intro ds _ h; exact h
  | cons items rest ih =>
    intro ds hg ⟨y, hy⟩
    unfold applyPendingEco
    obtain ⟨hg', y', hy'⟩ := applyItems_eco_stable pt .ecomax ⟨by decide, by decide⟩ mkEcomax true
      (fun d pos t => ⟨rfl, rfl, rfl, rfl, rfl, rfl, rfl⟩) items ds hg { e with triple := y } hy
    exact ih _ hg' ⟨y', hy'⟩

/-- **addressing_stable_ecomax**: no event changes the index of a parameter held by the controller
itself (table parameter, schedule switch / parameter, control switch, thermostat profile); the only
way its name leaves the dataset is an undefined profile slot in a thermostat-parameters response -/
theorem addressing_stable_ecomax (pt : Product) (w : World) (hw : WorldOK pt w) (ev : Event)
    (e : Entry) (hf : find w.ecomax e.name = some e) :
    (∃ y, find (step pt w ev).1.ecomax e.name = some { e with triple := y }) ∨
    (e.kind = .profile ∧ find (step pt w ev).1.ecomax e.name = none) := by
  have hgood : GoodE pt w.ecomax := hw.eco
  have hsame : ∃ y, find w.ecomax e.name = some { e with triple := y } := ⟨e.triple, hf⟩
  cases ev with
  | uid =>
    left; simp only [step]; split
    · exact hsame
    · exact applyPendingEco_stable pt e _ _ hgood hsame
  | ecomaxParams msg =>
    left; simp only [step]; split
    · exact hsame
    · split
      · exact (applyItems_eco_stable pt .ecomax ⟨by decide, by decide⟩ mkEcomax true
          (fun d pos t => ⟨rfl, rfl, rfl, rfl, rfl, rfl, rfl⟩) _ _ hgood e hf).2
      · exact hsame
  | mixerParams msg => left; simp only [step]; split <;> (try split) <;> exact hsame
  | thermostatsAvailable n => exact .inl hsame
  | state on =>
    left
    exact upsert_stable hf (fun hn => ecomax_class pt .control ⟨by decide, by decide⟩ hgood Gen.ecomaxControl 0
      (by simp [tableOf]) _ rfl rfl e (by rw [← hn] at hf; exact hf)) hsame
  | schedules msg =>
    left; simp only [step]; split
    · exact hsame
    · exact hsame
    · next ss ps _ _ =>
      simp only [applyScheduleItems]
      split
      · exact (applyItems_eco_stable pt .schedule ⟨by decide, by decide⟩ mkSchedule true
          (fun d pos t => ⟨rfl, rfl, rfl, rfl, rfl, rfl, rfl⟩) ps _ hgood e hf).2
      · have : ∀ (l : P2.Params) (ds : DS), (∃ y, find ds e.name = some { e with triple := y }) →
            ∃ y, find (l.foldl (fun ds it =>
              match Gen.scheduleParams[it.1]? with
              | some d => updateOnly w.ecomax ds (mkSchedule d it.1 it.2)
              | none => ds) ds) e.name = some { e with triple := y } := by
          intro l
          induction l with
          | nil => intro ds h; exact h
          | cons it rest ih =>
            intro ds h
            simp only [List.foldl_cons]
            apply ih
            split
            · exact updateOnly_stable hf h
            · exact h
        exact this _ _ hsame
  | thermostatParams msg =>
    simp only [step]
    split
    · exact .inl hsame
    · exact .inl hsame
    · next profile blocks _ _ =>
      cases profile with
      | some t =>
        left
        exact upsert_stable hf (fun hn => ecomax_class pt .profile ⟨by decide, by decide⟩ hgood Gen.thermostatProfile 0
          (by simp [tableOf]) _ rfl rfl e (by rw [← hn] at hf; exact hf)) hsame
      | none =>
        by_cases hn : e.name = Gen.thermostatProfile.name
        · right
          obtain ⟨hm0, _⟩ := find_some hf
          obtain ⟨⟨d0, hd0, hdn0, _, _⟩, hkm, hkt, _⟩ := hgood e hm0
          refine ⟨?_, ?_⟩
          · by_cases hkp : e.kind = .profile
            · exact hkp
            · exact absurd (hdn0.trans hn) (cross_kind_names pt ⟨hkm, hkt⟩ ⟨by decide, by decide⟩ hkp
                (List.mem_of_getElem? hd0) (by simp [tableOf]))
          · simp only [find, hn]
            rw [List.find?_eq_none]
            intro x hx
            have := (List.mem_filter.mp hx).2
            simpa using this
        · left
          exact ⟨e.triple, by rw [find_filter_ne _ _ _ hn]; exact hf⟩
  | set dev name v =>
    left
    simp only [step]
    split
    · exact hsame
    · next ds0 hds0 =>
      split
      · exact hsame
      · next e1 hf1 =>
        cases dev with
        | mixer i => exact hsame
        | thermostat i => exact hsame
        | ecomax =>
          simp only [World.ds, Option.some.injEq] at hds0
          subst hds0
          simp only [World.setDs]
          by_cases hn : name = e.name
          · subst hn
            rw [hf] at hf1
            cases hf1
            exact ⟨_, find_setEntry_self _ _⟩
          · refine ⟨e.triple, ?_⟩
            rw [find_setEntry_ne _ _ (by
              have : e1.name = name := (find_some hf1).2
              simpa [this] using hn)]
            exact hf

/-! ### payload bytes -> decoded list -> dataset -> request, end to end

A well-formed parameters payload is one produced by C05's encoders (`P2.encodeEcomax`,
`encodeMixer`, `encodeThermo` — the wire layout specification, `wfX m = true`).  C05's round
trips (`C05.rt_params_*`) turn the bytes into the value list, the read-slot theorems above put the
values into the dataset, and `set` on the resulting named parameter produces the request that
addresses the slot the value was read from. -/

theorem mem_valRun : ∀ (slots : List P2.Slot) (idx k : Nat) (t : P2.Triple),
    slots[k]? = some (some t) → (idx + k, t) ∈ P2.valRun idx slots := by
  intro slots
  induction slots with
  | nil => intro idx k t h; simp at h
  | cons s rest ih =>
    intro idx k t h
    cases k with
    | zero =>
      simp only [List.getElem?_cons_zero, Option.some.injEq] at h
      subst h
      simp [P2.valRun]
    | succ k =>
      simp only [List.getElem?_cons_succ] at h
      have := ih (idx + 1) k t h
      have e : idx + 1 + k = idx + (k + 1) := by omega
      rw [e] at this
      cases s <;> simp [P2.valRun, this]

theorem mem_valBlocks (start : Nat) : ∀ (blocks : List (List P2.Slot)) (t0 j : Nat) (b : List P2.Slot),
    blocks[j]? = some b → P2.valRun start b ≠ [] → (t0 + j, P2.valRun start b) ∈ P2.valBlocks start t0 blocks := by
  intro blocks
  induction blocks with
  | nil => intro t0 j b h; simp at h
  | cons b0 rest ih =>
    intro t0 j b h hne
    cases j with
    | zero =>
      simp only [List.getElem?_cons_zero, Option.some.injEq] at h
      subst h
      have : (P2.valRun start b0).isEmpty = false := by
        cases hv : P2.valRun start b0 with
        | nil => exact absurd hv hne
        | cons _ _ => rfl
      simp [P2.valBlocks, this]
    | succ j =>
      simp only [List.getElem?_cons_succ] at h
      have := ih (t0 + 1) j b h hne
      have e : t0 + 1 + j = t0 + (j + 1) := by omega
      rw [e] at this
      unfold P2.valBlocks
      split
      · exact this
      · exact List.mem_cons_of_mem _ this

/-- every table is shorter than a byte can index -/
theorem tables_short (pt : Product) (k : TKind) : (tableOf pt k).length < 256 := by
  cases pt <;> cases k <;> simp only [tableOf] <;> decide +kernel

theorem run_two (pt : Product) (w : World) (e1 e2 : Event) :
    (run pt w [e1, e2]).2 = (step pt w e1).2 ++ (step pt (step pt w e1).1 e2).2 := by
  simp [run]

/-- an accepted `set` on a held parameter: the request of the parameter with the new value -/
theorem step_set_out (pt : Product) (w : World) (dev : Dev) (name : String) (v : Nat) (ds : DS) (e : Entry)
    (hds : w.ds dev = some ds) (hf : find ds name = some e) :
    (step pt w (.set dev name v)).2 =
      [match requestOf (w.setDs dev (setEntry ds { e with triple := { e.triple with value := v } }))
          { e with triple := { e.triple with value := v } } with
        | some r => .req r | none => .reqError] := by
  simp only [step, hds, hf]
  rfl

/-- **payload_to_request (ecoMAX)**: bytes `encodeEcomax m` arrive (any trailing bytes) in any
reachable world; slot `k` of the payload is the defined triple `t` and position `start + k` has
description `d`.  Then `set` of raw value `v` on the parameter named `d.name` queues the request
`SetEcomaxParameter [start + k, v]`. -/
theorem payload_to_request_ecomax (pt : Product) (w : World) (hw : WorldOK pt w) (hkn : w.known = true) (m : P2.EcomaxMsg)
    (hm : P2.wfEcomax m = true) (rest : List Byte) (k : Nat) (t : P2.Triple)
    (hk : m.slots[k]? = some (some t)) (d : Gen.Desc)
    (hd : (tableOf pt .ecomax)[m.start.toNat + k]? = some d) (v : Nat) (hv : v < 256) :
    (run pt w [.ecomaxParams (P2.encodeEcomax m ++ rest), .set .ecomax d.name v]).2 =
      [.req ⟨.setEcomax, [m.start.toNat + k, v]⟩] := by
  have hdec := C05.rt_params_ecomax m rest hm
  obtain ⟨e, hfind, hidx, _, hkind, _⟩ := read_slot_ecomax pt w hw hkn _ _ _ hdec _ t
    (mem_valRun m.slots m.start.toNat k t hk) d hd
  have hlt : m.start.toNat + k < 256 := by
    have := (List.getElem?_eq_some_iff.mp hd).1
    have := tables_short pt .ecomax
    omega
  rw [run_two, step_set_out pt _ .ecomax d.name v _ e rfl hfind]
  have h1 : (step pt w (.ecomaxParams (P2.encodeEcomax m ++ rest))).2 = [] := by simp only [step, hdec, hkn, if_true]
  rw [h1]
  simp only [requestOf, hkind, hidx, hlt, hv, and_self, if_true, List.nil_append]

/-- **payload_to_request (mixer)**: slot `k` of mixer block `j` of `encodeMixer m` is the defined
triple `t`, position `start + k` has description `d`: `set` on mixer `j`'s parameter `d.name`
queues `SetMixerParameter [j, start + k, v]`. -/
theorem payload_to_request_mixer (pt : Product) (w : World) (hw : WorldOK pt w) (hkn : w.known = true) (m : P2.MixerMsg)
    (hm : P2.wfMixer m = true) (rest : List Byte) (j : Nat) (b : List P2.Slot) (hj : m.blocks[j]? = some b)
    (k : Nat) (t : P2.Triple) (hk : b[k]? = some (some t)) (d : Gen.Desc)
    (hd : (tableOf pt .mixer)[m.start.toNat + k]? = some d) (v : Nat) (hv : v < 256) :
    (run pt w [.mixerParams (P2.encodeMixer m ++ rest), .set (.mixer j) d.name v]).2 =
      [.req ⟨.setMixer, [j, m.start.toNat + k, v]⟩] := by
  have hdec := C05.rt_params_mixer m rest hm
  have hmem := mem_valRun b m.start.toNat k t hk
  have hblock := mem_valBlocks m.start.toNat m.blocks 0 j b hj (by intro h; rw [h] at hmem; cases hmem)
  rw [Nat.zero_add] at hblock
  obtain ⟨ds, e, hlook, hfind, hidx, _, hkind, hdev, _⟩ := read_slot_mixer pt w hw hkn _ _ _ hdec j _ hblock _ t hmem d hd
  have hlt : m.start.toNat + k < 256 := by
    have := (List.getElem?_eq_some_iff.mp hd).1
    have := tables_short pt .mixer
    omega
  have hjlt : j < 256 := by
    simp only [P2.wfMixer, Bool.and_eq_true, decide_eq_true_eq] at hm
    have := (List.getElem?_eq_some_iff.mp hj).1
    omega
  have h1 : (step pt w (.mixerParams (P2.encodeMixer m ++ rest))).2 = [] := by simp only [step, hdec, hkn, if_true]
  rw [run_two, step_set_out pt _ (.mixer j) d.name v ds e hlook hfind, h1]
  simp only [requestOf, hkind, hidx, hdev, hlt, hv, hjlt, and_self, if_true, List.nil_append]

theorem valRun_length_noholes : ∀ (slots : List P2.Slot) (idx : Nat), (∀ s ∈ slots, s ≠ none) →
    (P2.valRun idx slots).length = slots.length := by
  intro slots
  induction slots with
  | nil => intro idx _; rfl
  | cons s rest ih =>
    intro idx h
    cases s with
    | none => exact absurd rfl (h none (by simp))
    | some t => simp [P2.valRun, ih (idx + 1) (fun s hs => h s (by simp [hs]))]

/-- **payload_to_request (thermostat)**: slot `k` of thermostat block `j` of `encodeThermo m` (as
many thermostats available as the payload has blocks) is the defined triple `t`, position
`start + k` has description `d`; thermostat `j`'s parameters are created by this response and its
block has no undefined hole (the F3 proviso).  Then `set` on thermostat `j`'s parameter `d.name`
queues `SetThermostatParameter [start + k + 1 + j × per] ++ LE(v, size)`, `per` = slots per
thermostat. -/
theorem payload_to_request_thermostat (pt : Product) (w : World) (hw : WorldOK pt w) (m : P2.ThermoMsg)
    (hm : P2.wfThermo m = true) (rest : List Byte) (hT : w.tAvail = m.blocks.length)
    (j : Nat) (b : List P2.Slot) (hj : m.blocks[j]? = some b)
    (hnew : lookupDev w.thermostats j = none) (hnoholes : ∀ s ∈ b, s ≠ none)
    (k : Nat) (t : P2.Triple) (hk : b[k]? = some (some t)) (d : Gen.Desc)
    (hd : Gen.thermostat[m.start.toNat + k]? = some d) (v : Nat) (hv : v < 256 ^ d.size)
    (hslot : m.start.toNat + k + 1 + j * slotsPer m.start.toNat m.count.toNat m.blocks.length < 256) :
    (run pt w [.thermostatParams (P2.encodeThermo m ++ rest), .set (.thermostat j) d.name v]).2 =
      [.req ⟨.setThermostat,
        (m.start.toNat + k + 1 + j * slotsPer m.start.toNat m.count.toNat m.blocks.length) :: leBytes v d.size⟩] := by
  have hdec := C05.rt_params_thermostat m rest hm
  rw [← hT] at hdec
  simp only [P2.valThermo] at hdec
  have hmem := mem_valRun b m.start.toNat k t hk
  have hblock := mem_valBlocks m.start.toNat m.blocks 0 j b hj (by intro h; rw [h] at hmem; cases hmem)
  rw [Nat.zero_add] at hblock
  obtain ⟨ds, e, hlook, hfind, hidx, _, hkind, hdev, _, hoff⟩ :=
    read_slot_thermostat pt w hw _ _ _ _ hdec j _ hblock _ t hmem d hd
  -- the block has exactly `per` defined items
  have hblen : b.length = slotsPer m.start.toNat m.count.toNat m.blocks.length := by
    simp only [P2.wfThermo, Bool.and_eq_true, decide_eq_true_eq, List.all_eq_true] at hm
    exact (hm.2 b (List.mem_of_getElem? hj)).1
  have hoffset : e.offset = j * slotsPer m.start.toNat m.count.toNat m.blocks.length := by
    rcases hoff with h | ⟨e0, he0, _⟩
    · rw [h, valRun_length_noholes b _ hnoholes, hblen]
    · rw [hnew] at he0; cases he0
  -- the width recorded by the parameter is the description's
  have hw1 := step_ok hw (.thermostatParams (P2.encodeThermo m ++ rest))
  have hsize : e.size = d.size := by
    obtain ⟨⟨d', hd', _, _, hs'⟩, hon⟩ := hw1.thr _ (lookupDev_mem hlook) e (find_some hfind).1
    rw [hon.1, hidx] at hd'
    simp only [tableOf] at hd'
    rw [hd] at hd'
    cases hd'
    exact hs'.symm
  have h1 : (step pt w (.thermostatParams (P2.encodeThermo m ++ rest))).2 = [] := by simp only [step, hdec]
  rw [run_two, step_set_out pt _ (.thermostat j) d.name v ds e hlook hfind, h1]
  simp only [requestOf, hkind, hidx, hoffset, hsize, hslot, hv, and_self, if_true, List.nil_append]

/-! ### payload_to_request for schedules -/

theorem schedParams_known (entries : List P2.SchedEntry)
    (h : ∀ en ∈ entries, en.index.toNat < Gen.schedules.length) :
    allKnown Gen.scheduleParams (entries.flatMap P2.schedParams) = true := by
  simp only [allKnown, List.all_eq_true, List.mem_flatMap, decide_eq_true_eq]
  rintro it ⟨en, hen, hit⟩
  have := h en hen
  have hl := schedule_table_length
  simp only [P2.schedParams, List.mem_cons] at hit
  rcases hit with rfl | hit
  · simp; omega
  · cases hp : en.param with
    | none => simp [hp] at hit
    | some t => simp only [hp, List.mem_singleton] at hit; subst hit; simp; omega

theorem schedParams_distinct (entries : List P2.SchedEntry)
    (h : entries.Pairwise (fun a b => a.index.toNat ≠ b.index.toNat)) :
    (entries.flatMap P2.schedParams).Pairwise (fun a b => a.1 ≠ b.1) := by
  rw [List.pairwise_flatMap]
  constructor
  · intro en _
    cases hp : en.param <;> simp [P2.schedParams, hp]
  · apply List.Pairwise.imp _ h
    intro a b hab x hx y hy
    have hx' : x.1 = a.index.toNat * 2 ∨ x.1 = a.index.toNat * 2 + 1 := by
      simp only [P2.schedParams, List.mem_cons] at hx
      rcases hx with rfl | hx
      · left; rfl
      · right; cases hp : a.param with
        | none => simp [hp] at hx
        | some t => simp only [hp, List.mem_singleton] at hx; subst hx; rfl
    have hy' : y.1 = b.index.toNat * 2 ∨ y.1 = b.index.toNat * 2 + 1 := by
      simp only [P2.schedParams, List.mem_cons] at hy
      rcases hy with rfl | hy
      · left; rfl
      · right; cases hp : b.param with
        | none => simp [hp] at hy
        | some t => simp only [hp, List.mem_singleton] at hy; subst hy; rfl
    omega

/-- the `schedules` dictionary after a response whose entries name distinct known schedules holds
each entry's bitmap under that schedule's name -/
theorem schedules_lookup :
    ∀ (ss : List (Nat × List (List Bool))) (acc : List (String × List (List Bool))),
      ss.Pairwise (fun a b => a.1 ≠ b.1) → (∀ s ∈ ss, s.1 < Gen.schedules.length) →
      ∀ s ∈ ss, ∀ n, scheduleName s.1 = some n →
      (ss.foldl (fun acc s =>
          match scheduleName s.1 with
          | some n => (n, s.2) :: acc.filter (fun p => !(p.1 == n))
          | none => acc) acc).find? (fun p => p.1 == n) = some (n, s.2) := by
  intro ss
  induction ss with
  | nil => intro acc _ _ s hs; cases hs
  | cons s0 rest ih =>
    intro acc hp hk s hs n hn
    obtain ⟨hhead, htail⟩ := List.pairwise_cons.mp hp
    simp only [List.foldl_cons]
    rcases List.mem_cons.mp hs with rfl | hs'
    · -- later entries name other schedules
      simp only [hn]
      have hother : ∀ (rest' : List (Nat × List (List Bool))) (acc' : List (String × List (List Bool))),
          (∀ b ∈ rest', s.1 ≠ b.1) → (∀ b ∈ rest', b.1 < Gen.schedules.length) →
          (rest'.foldl (fun acc s =>
            match scheduleName s.1 with
            | some n => (n, s.2) :: acc.filter (fun p => !(p.1 == n))
            | none => acc) acc').find? (fun p => p.1 == n) = acc'.find? (fun p => p.1 == n) := by
        intro rest'
        induction rest' with
        | nil => intro acc' _ _; rfl
        | cons b r' ih' =>
          intro acc' hne hkn
          simp only [List.foldl_cons]
          rw [ih' _ (fun b' hb' => hne b' (by simp [hb'])) (fun b' hb' => hkn b' (by simp [hb']))]
          have hbk := hkn b (by simp)
          have hbn : scheduleName b.1 = some Gen.schedules[b.1] := by
            simp [scheduleName, List.getElem?_eq_getElem hbk]
          simp only [hbn]
          have hdiff : Gen.schedules[b.1] ≠ n := by
            intro heq
            have hsn : Gen.schedules[s.1]? = some n := hn
            have hsk := (List.getElem?_eq_some_iff.mp hsn).1
            have : Gen.schedules[b.1] = Gen.schedules[s.1] := by
              rw [heq]; exact ((List.getElem?_eq_some_iff.mp hsn).2).symm
            exact hne b (by simp) ((List.getElem_inj (h₀ := hbk) (h₁ := hsk) names_unique_schedules).mp this).symm
          rw [List.find?_cons_of_neg (by simpa using hdiff), List.find?_filter]
          congr 1
          funext p
          by_cases hpn : p.1 = n
          · subst hpn; simp; exact fun h' => hdiff h'.symm
          · simp [hpn]
      rw [hother rest _ hhead (fun b hb => hk b (by simp [hb]))]
      simp
    · have hs0 := hk s0 (by simp)
      exact ih _ htail (fun b hb => hk b (by simp [hb])) s hs' n hn

/-- **payload_to_request (schedule)**: bytes `encodeSched m` arrive; the entries name distinct
known schedules; entry `en` (schedule `s`, switch value `sw`, defined parameter triple, bitmap
`days`).  Then `set` of raw value `v` on `<schedule s>_schedule_parameter` queues the set-schedule
request of schedule `s`: `[1, s, sw, v] ++ bitmap bytes` — the switch value and the bitmap are the
ones read from that entry. -/
theorem payload_to_request_schedule (pt : Product) (w : World) (hw : WorldOK pt w) (m : P2.SchedMsg)
    (hm : P2.wfSched m = true) (rest : List Byte)
    (hknown : ∀ en ∈ m.entries, en.index.toNat < Gen.schedules.length)
    (hdist : m.entries.Pairwise (fun a b => a.index.toNat ≠ b.index.toNat))
    (en : P2.SchedEntry) (hen : en ∈ m.entries) (t : P2.Triple) (hp : en.param = some t)
    (sname : String) (hs : Gen.schedules[en.index.toNat]? = some sname) (v : Nat) (hv : v < 256) :
    (run pt w [.schedules (P2.encodeSched m ++ rest), .set .ecomax (sname ++ suffixParameter) v]).2 =
      [.req ⟨.setSchedule, [1, en.index.toNat, en.switch.toNat, v] ++
        (en.days.flatMap (P2.packBits 6)).map (·.toNat)⟩] := by
  have hdec := C05.rt_schedules m rest hm
  simp only [P2.valSched] at hdec
  have hk := schedParams_known m.entries hknown
  have hd := schedParams_distinct m.entries hdist
  have hslt : en.index.toNat < Gen.schedules.length := hknown en hen
  have hlen := schedule_table_length
  -- the two descriptions of schedule s
  have h0lt : en.index.toNat * 2 < Gen.scheduleParams.length := by omega
  have h1lt : en.index.toNat * 2 + 1 < Gen.scheduleParams.length := by omega
  have hd0 : Gen.scheduleParams[en.index.toNat * 2]? = some Gen.scheduleParams[en.index.toNat * 2] :=
    List.getElem?_eq_getElem h0lt
  have hd1 : Gen.scheduleParams[en.index.toNat * 2 + 1]? = some Gen.scheduleParams[en.index.toNat * 2 + 1] :=
    List.getElem?_eq_getElem h1lt
  have hn0 : (Gen.scheduleParams[en.index.toNat * 2]).name = sname ++ suffixSwitch := by
    have := schedule_names _ h0lt
    rw [hd0, show en.index.toNat * 2 / 2 = en.index.toNat by omega, hs,
      show en.index.toNat * 2 % 2 = 0 by omega] at this
    simpa using this
  have hn1 : (Gen.scheduleParams[en.index.toNat * 2 + 1]).name = sname ++ suffixParameter := by
    have := schedule_names _ h1lt
    rw [hd1, show (en.index.toNat * 2 + 1) / 2 = en.index.toNat by omega, hs,
      show (en.index.toNat * 2 + 1) % 2 = 1 by omega] at this
    simpa using this
  have hne : sname ++ suffixParameter ≠ sname ++ suffixSwitch := by
    intro heq
    have := name_index_bijection pt .schedule (i := en.index.toNat * 2 + 1) (j := en.index.toNat * 2) hd1 hd0
      (by rw [hn0, hn1, heq])
    omega
  -- both parameters are in the dataset after the response
  have hmem0 : (en.index.toNat * 2, ((en.switch.toNat, 0, 1) : P2.Triple)) ∈ m.entries.flatMap P2.schedParams :=
    List.mem_flatMap.mpr ⟨en, hen, by simp [P2.schedParams]⟩
  have hmem1 : (en.index.toNat * 2 + 1, t) ∈ m.entries.flatMap P2.schedParams :=
    List.mem_flatMap.mpr ⟨en, hen, by simp [P2.schedParams, hp]⟩
  obtain ⟨es, hfs, _, hts, _, _⟩ := read_slot_schedule pt w hw _ _ _ rest hdec hk hd _ _ hmem0 _ hd0
  obtain ⟨ep, hfp, hip, _, hkp, hnp⟩ := read_slot_schedule pt w hw _ _ _ rest hdec hk hd _ _ hmem1 _ hd1
  rw [hn0] at hfs
  rw [hn1] at hfp hnp
  -- the schedules dictionary holds this entry's bitmap
  have hss : (m.entries.map fun e => (e.index.toNat, e.days)).all (fun s => decide (s.1 < Gen.schedules.length)) = true := by
    simp only [List.all_eq_true, List.mem_map, decide_eq_true_eq]
    rintro s ⟨e, he, rfl⟩; exact hknown e he
  have hsched : (step pt w (.schedules (P2.encodeSched m ++ rest))).1.schedules.find? (fun p => p.1 == sname) =
      some (sname, en.days) := by
    simp only [step, hdec, hss, if_true]
    exact schedules_lookup _ [] (by rw [List.pairwise_map]; exact hdist)
      (by intro s hs'; simp only [List.mem_map] at hs'; obtain ⟨e, he, rfl⟩ := hs'; exact hknown e he)
      (en.index.toNat, en.days) (List.mem_map.mpr ⟨en, hen, rfl⟩) sname hs
  have h1 : (step pt w (.schedules (P2.encodeSched m ++ rest))).2 = [] := by simp only [step, hdec]
  rw [run_two, step_set_out pt _ .ecomax (sname ++ suffixParameter) v _ ep rfl hfp, h1]
  generalize (step pt w (.schedules (P2.encodeSched m ++ rest))).1 = w1 at *
  have hidx2 : ep.index / 2 = en.index.toNat := by rw [hip]; omega
  have hsw : es.triple.value = en.switch.toNat := by rw [hts]; rfl
  have hswlt : en.switch.toNat < 256 := en.switch.toNat_lt
  generalize he' : ({ ep with triple := { ep.triple with value := v } } : Entry) = e'
  have hk' : e'.kind = .schedule := by rw [← he']; exact hkp
  have hi' : e'.index / 2 = en.index.toNat := by rw [← he']; exact hidx2
  have hv' : e'.triple.value = v := by rw [← he']
  have hn' : e'.name = sname ++ suffixParameter := by rw [← he']; exact hnp
  have hfs' : find (setEntry w1.ecomax e') (sname ++ suffixSwitch) = some es := by
    rw [find_setEntry_ne _ _ (by rw [hn']; exact hne)]; exact hfs
  have hfp' : find (setEntry w1.ecomax e') (sname ++ suffixParameter) = some e' := by
    rw [← hn']; exact find_setEntry_self _ _
  have hsi : scheduleIndex e'.name = some en.index.toNat := by
    rw [hn', ← hn1, scheduleIndex_of_row hd1]; congr 1; omega
  simp only [requestOf, hk', hsi, hs, World.setDs, hfs', hfp', hsched, hsw, hv', hswlt, hv, and_self, if_true,
    List.nil_append]

example : P2.wfSched ⟨0, 0, [⟨16, 1, some (5, 0, 30), List.replicate 7 (List.replicate 48 true)⟩]⟩ = true := by decide
example : P2.wfEcomax ⟨0, 42, [some (1, 0, 9), none, some (7, 1, 9)]⟩ = true := by decide
example : P2.wfMixer ⟨0, 0, 2, [[some (1, 0, 9), none], [none, some (2, 0, 9)]]⟩ = true := by decide
example : P2.wfThermo ⟨0, 0, 5, some (9, 0, 9), [[some (1, 0, 1), some (2, 0, 300)], [some (2, 0, 2), some (300, 0, 65535)]]⟩ = true := by decide

end PlumVerif.C07
